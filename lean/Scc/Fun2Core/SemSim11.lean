/-
  Scc.Fun2Core.SemSim11 — simulation of a call of a top-level definition.
-/
import Scc.Fun2Core.SemSim10

namespace Scc.Fun2Core.Sem
open Scc

variable {q : Core.Prog} {p : Fun.CheckedProgram}

theorem argVals_length {ρ : CEnv} : ∀ (as : Core.Args) (Vs : List CVal),
    Core.argVals ρ as = .ok Vs → argsAllVar as = true → True
  | _, _, _, _ => trivial

theorem coreGetType_eq_ty (c : Core.Term) : coreGetType c = c.ty := by
  cases c <;> rfl

theorem step_call_fun (p : Fun.CheckedProgram) (f : String) (vs : List Fun.Value) (env : Fun.Env)
    (k : Fun.Stack) :
    Fun.step p (.args (.call f) vs .nil env k) =
      (match Fun.findDef p f with
        | none => .stuck (.unknownDef f)
        | some d =>
          match Fun.bindAll (d.ctx.map (·.var)) vs [] with
          | none => .stuck (.arity f)
          | some env' => .next (.eval d.body env' k) none) := rfl

set_option maxHeartbeats 400000 in
/-- `f(args)` -/
theorem eval_call (X : Ctx p q) {f : String} {as : Fun.Terms}
    {rty : Option Fun.Ty} {env : Fun.Env} {k : Fun.Stack} {c : Core.Term} {s : Core.Stmt}
    {ρ0 ρ : CEnv} {out : Out} {n : Nat} (hg : good p (.call f as rty) = true)
    (hc : Compiled q n (.call f as rty) c s)
    (he : EnvRel (GP p) p q n (fv (.call f as rty)) env ρ0) (hr : CRel (GP p) p q n k c ρ0)
    (hbd : BoundOn (tfvStmt s []) ρ0) (hag : AgreeOn (tfvStmt s []) ρ0 ρ)
    (hT : STM p (.eval (.call f as rty) env k)) :
    Chunk p q (R p q) true true μ (.eval (.call f as rty) env k) ⟨s, ρ, out, n⟩ := by
  simp only [good, Bool.and_eq_true, bne_iff_ne, ne_eq] at hg
  obtain ⟨⟨hfm, hgps⟩, _⟩ := hg
  have hpf := goodPs_pureFOs p as hgps
  obtain ⟨st, st', hcwc, hst, htn, hcn⟩ := hc
  rw [cwc_call] at hcwc
  cases hcs : compileSubst as st with
  | error e => simp [hcs] at hcwc
  | ok ra =>
    obtain ⟨as', st1⟩ := ra
    cases rty with
    | none => simp [hcs] at hcwc
    | some τ =>
      simp only [hcs, Except.ok.injEq, Prod.mk.injEq] at hcwc
      obtain ⟨rfl, rfl⟩ := hcwc
      rw [argsSnoc_eq] at hag hbd ⊢
      have f0 : FSteps p (.eval (.call f as (some τ)) env k) (.args (.call f) [] as env k) [] 1 :=
        .one rfl
      cases hvs : pureArgs p as env with
      | none =>
        obtain ⟨j, s1, w, fj, h1, h2⟩ :=
          fun_pureArgs_none p as env (.call f) [] k (pureFOs_pure (goodClauses p) as hpf) hvs
        have := f0.trans fj
        simp only [List.append_nil] at this
        exact .inl ⟨_, s1, .stuck w, this, by rw [h1]; rfl, fun hf => absurd hf (bad_not_finished h2)⟩
      | some vs =>
        obtain ⟨j, fj⟩ := fun_pureArgs p as env vs (.call f) [] k (pureFOs_pure (goodClauses p) as hpf) hvs
        have f1 := f0.trans fj
        simp only [List.append_nil, List.nil_append] at f1
        have hstep := step_call_fun p f vs env k
        cases hfd : Fun.findDef p f with
        | none =>
          rw [hfd] at hstep
          exact .inl ⟨_, _, .stuck (.unknownDef f), f1, by rw [hstep]; rfl, fun h => h.elim⟩
        | some d =>
          rw [hfd] at hstep
          simp only at hstep
          cases hba : Fun.bindAll (d.ctx.map (·.var)) vs [] with
          | none =>
            rw [hba] at hstep
            exact .inl ⟨_, _, .stuck (.arity f), f1, by rw [hstep]; rfl, fun h => h.elim⟩
          | some env' =>
            rw [hba] at hstep
            -- the Core machine: arguments
            have hagas : AgreeOn (tfvArgs as' []) ρ0 ρ := hag.mono fun y hy =>
              mem_tfv_call.2 ((mem_tfvArgs_app _ _).2 (.inl hy))
            have hagc : AgreeOn (tfvTerm c []) ρ0 ρ := hag.mono fun y hy =>
              mem_tfv_call.2 ((mem_tfvArgs_app _ _).2 (.inr (mem_tfv_args_cons.2 (.inl hy))))
            have hbdas : BoundOn (tfvArgs as' []) ρ0 := hbd.mono fun y hy =>
              mem_tfv_call.2 ((mem_tfvArgs_app _ _).2 (.inl hy))
            obtain ⟨i1, ρ1, n1, as'', Vs, hc1, hn1, hext1, hall, hsb, hav, hvl⟩ :=
              core_args (G := GP p) (q := q) (p := p) (goodClauses p) (goodClauses_find p) as hpf
                (fun a => .call ⟨f, 0⟩ a (compileTy τ)) (argCtx_call _ _) (.cons .cns c .nil) env vs st
                as' st1 n ρ0 ρ n out .nil [] hcs hst
                ⟨by simpa [fv] using htn.fv, by simpa [binderNames] using htn.bd, htn.nosig⟩ hvs
                (he.sub fun y hy => by simpa [fv] using hy) hbdas hagas rfl trivial rfl
            simp only [appArgs, List.nil_append] at hc1 hsb hav
            -- the consumer
            have hsigc : ∀ b ∈ tfvTerm c [], b.var.name = sig → b.var.id < n1 := fun b hb e => by
              have := hcn.sig_lt (Nat.le_refl n) b hb e; omega
            have hagc1 : AgreeOn (tfvTerm c []) ρ0 ρ1 := by
              intro b hb
              rw [hext1.lookup b.var (hcn.sig_lt (Nat.le_refl n) b hb)]
              exact hagc b hb
            obtain ⟨i2, ρ2, n2, pc, z, tz, cv, hc2, hn2, hext2, hlz, _, hk⟩ :=
              focus_cons (hr.mono hn1) (Nat.le_refl n1) hsigc hagc1
                (fun h => .call ⟨f, 0⟩ (appArgs as'' (.cons .cns h .nil)) (compileTy τ))
                (fun hv => argCtx_call _ _ _ _ _ _ (by
                  rw [args_split_app _ _ hall, args_split_cons_nonvar hv]))
                out
                (fun hcd' _ a' s' => force_cr X (hr.mono hn1) hcd' (cty := c.ty)
                  (P := .mu .prd a' c.ty s') (ρ := ρ1) (out := out) (m := n1 + 1)
                  (by rw [← coreGetType_ty]; exact hcd') trivial (by omega) hagc1
                  (prdOK_mu _ _ _ _ _ _))
            have hav2 : Core.argVals ρ2 (appArgs as'' (.cons .cns (.var pc z tz) .nil)) =
                .ok (Vs ++ [cv]) := by
              refine argVals_app_single as'' Vs ?_ hlz
              rw [argVals_sigExt hext2 as'' hsb]; exact hav
            have htriv : True := trivial
            cases htriv with
            | intro =>
              -- the definition
              obtain ⟨D, a, τa, τ', hD, hname, hctx, hcomp, hτ', hgood, hanot, hnodup, hclosed⟩ :=
                X.defs f d hfd hfm
              have hlen : (compileContext d.ctx).length = Vs.length := by
                rw [compileContext_length, ← hvl.length]
                have := bindAll_length _ _ _ _ hba
                simpa using this
              obtain ⟨ρnew, hbind, henv⟩ := EnvRel.bindAll (G := GP p) (q := q) (n := n2)
                (xs := fv d.body) (env := []) (env' := env') (ρ0 := [(⟨a, 0⟩, cv)]) (ctx := d.ctx)
                (.of_get fun y hy => by
                  obtain ⟨h1, h2⟩ := List.mem_filter.1 hy
                  have := hclosed y h1
                  have h2' : y ∉ List.map (fun x => x.var) d.ctx := by simpa using h2
                  exact absurd this h2')
                (hvl.mono (Nat.le_trans hn1 hn2)) hnodup hba
              have hbind' : Core.Env.bind [] D.ctx (Vs ++ [cv]) = .ok ρnew := by
                rw [hctx, bind_snoc _ _ _ _ _ hlen]
                exact hbind
              have hall2 : argsAllVar (appArgs as'' (.cons .cns (.var pc z tz) .nil)) = true := by
                simp [argsAllVar_app, hall, argsAllVar, Core.Term.isVar]
              have hfind : q.defs.find? (fun d => d.name = ⟨f, 0⟩) = some D := by
                rw [← hname]; exact find_of_mem_nodup hD X.nodup
              have s3 := step_call_vars (q := q) (f := ⟨f, 0⟩) (ty := compileTy τ) (out := out) (n := n2)
                hall2 hfind hav2 hbind'
              have hanot' : ∀ bb ∈ compileContext d.ctx, bb.var ≠ (⟨a, 0⟩ : Core.Ident) := by
                intro bb hbb e
                simp only [compileContext, List.mem_map] at hbb
                obtain ⟨fb, hfb, rfl⟩ := hbb
                have : fb.var = a := by
                  have := congrArg Core.Ident.name e
                  simpa using this
                exact hanot (this ▸ List.mem_map.2 ⟨fb, hfb, rfl⟩)
              have hla : Core.Env.lookup ρnew ⟨a, 0⟩ = .ok cv := by
                rw [bind_lookup_not_mem hbind hanot']
                exact lookup_cons_self _ _ _
              refine .inr ⟨_, _, .eval d.body env' k, [], i1 + i2 + 1, _, f1, .inr ⟨none, hstep, rfl⟩,
                (fun _ => .inr (.inl (by intro h; cases h))), (fun _ => .inl (by omega)), (hc1.trans hc2).trans (.one s3), by simp, ?_⟩
              refine SRel.eval (c := .var .cns ⟨a, 0⟩ τ') (ρ0 := ρnew) hgood (hcomp.mono (Nat.zero_le _))
                henv ?_ ?_ (.refl _ _)
              · obtain ⟨τb, hgtb, rfl⟩ := hτ'
                have hT' : STM p (.eval d.body env' k) :=
                  stepM_preserves X.progM (FStepsM_preserves X.progM f1 hT) hstep
                obtain ⟨τ2, h1', hkind⟩ := X.kind hT'
                rw [hgtb] at h1'; cases h1'
                exact crel_var hk hla hkind
              · refine bind_bound hbind fun y hy hne => ?_
                obtain ⟨b', hb', e⟩ := X.closed D hD y hy
                rw [hctx] at hb'
                rcases List.mem_append.1 hb' with h | h
                · exact absurd e (hne b' h)
                · simp only [List.mem_singleton] at h
                  subst h
                  exact ⟨cv, by rw [← e]; exact lookup_cons_self _ _ _⟩

end Scc.Fun2Core.Sem
