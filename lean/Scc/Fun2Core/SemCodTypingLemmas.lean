/-
  Scc.Fun2Core.SemCodTypingLemmas — lemmas for the monomorphic state typing `STM`
  (Scc/Fun2Core/SemCodTyping.lean): the machine's by-name test `isCodataTy` IS "the type has a codata
  instance declaration" (`isCodataTy_eq`), the kind of a typed stack (`KTM.kind`), environments and
  contexts, binding of parameters, canonical forms of values, clause lookup (`clauseM_select`,
  `VTM.obj_clause`), definition lookup.  Template: Scc/Fun/SafetyLemmas.lean.
-/
import Scc.Fun2Core.SemCodTyping
import Scc.Fun2Core.SemPure
import Scc.Fun.SafetyLemmas

namespace Scc.Fun2Core.Sem
open Scc Scc.Fun2Core Scc.Fun2Core.Typed
open Scc.Fun.Typing (lookupCtx bindNames clauseXtors)
open Scc.Fun.Safety (lookupCtx_append_single lookup_cons bindNames_cons bindNames_self)

/-! ## printed type names -/

mutual
  theorem tyName_printTy : ∀ (τ : Fun.Ty) (fuel : Nat), Fun.tyDepth τ ≤ fuel →
      Fun.tyName fuel τ = printTy τ
    | .i64, fuel, h => by
      cases fuel with
      | zero => simp [Fun.tyDepth] at h
      | succ f => rfl
    | .decl n .nil, fuel, h => by
      cases fuel with
      | zero => simp [Fun.tyDepth] at h
      | succ f => simp [Fun.tyName, Fun.Tys.toList, printTy]
    | .decl n (.cons t r), fuel, h => by
      cases fuel with
      | zero => simp [Fun.tyDepth] at h
      | succ f =>
        have h' : Fun.tyDepth.go (.cons t r) ≤ f := by simp [Fun.tyDepth] at h; omega
        simp only [Fun.tyName, Fun.Tys.toList, printTy]
        rw [← tysName_printTy (.cons t r) f h' (by simp)]
        simp [Fun.Tys.toList]
  theorem tysName_printTy : ∀ (ts : Fun.Tys) (fuel : Nat), Fun.tyDepth.go ts ≤ fuel → ts ≠ .nil →
      ", ".intercalate (ts.toList.map (Fun.tyName fuel)) = printTys ts
    | .nil, _, _, h => absurd rfl h
    | .cons t .nil, fuel, h, _ => by
      have ht : Fun.tyDepth t ≤ fuel := by
        simp only [Fun.tyDepth.go] at h
        exact Nat.le_trans (Nat.le_max_left _ _) h
      simp [Fun.Tys.toList, printTys, tyName_printTy t fuel ht]
    | .cons t (.cons u r), fuel, h, _ => by
      have ht : Fun.tyDepth t ≤ fuel := by
        simp only [Fun.tyDepth.go] at h
        exact Nat.le_trans (Nat.le_max_left _ _) h
      have hr : Fun.tyDepth.go (.cons u r) ≤ fuel := by
        simp only [Fun.tyDepth.go] at h ⊢
        exact Nat.le_trans (Nat.le_max_right _ _) h
      have ih := tysName_printTy (.cons u r) fuel hr (by simp)
      simp only [Fun.Tys.toList, List.map_cons, String.intercalate_cons_cons, printTys] at ih ⊢
      rw [tyName_printTy t fuel ht, ← ih]
end

/-- the machine's by-name test is "the type has a codata instance declaration" -/
theorem isCodataTy_eq (P : Fun.CheckedProgram) (τ : Fun.Ty) :
    Fun.isCodataTy P τ = (codataDecl P τ).isSome := by
  cases τ with
  | i64 => rfl
  | decl n a =>
    simp only [Fun.isCodataTy, codataDecl]
    rw [tyName_printTy (.decl n a) _ (Nat.le_succ _)]
    generalize printTy (.decl n a) = s
    induction P.codataTypes with
    | nil => rfl
    | cons d r ih =>
      simp only [List.any_cons, List.find?_cons, ih]
      by_cases h : d.name = s <;> simp [h]

theorem isCodataTy_of_codataDecl {P : Fun.CheckedProgram} {τ : Fun.Ty} {d : Fun.Codata}
    (h : codataDecl P τ = some d) : Fun.isCodataTy P τ = true := by
  rw [isCodataTy_eq, h]; rfl

theorem dataDecl_mem {P : Fun.CheckedProgram} {τ : Fun.Ty} {d : Fun.Data}
    (h : dataDecl P τ = some d) : d ∈ P.dataTypes ∧ d.name = printTy τ := by
  cases τ with
  | i64 => simp [dataDecl] at h
  | decl n a =>
    simp only [dataDecl] at h
    exact ⟨List.mem_of_find?_eq_some h, by simpa using List.find?_some h⟩

theorem codataDecl_mem {P : Fun.CheckedProgram} {τ : Fun.Ty} {d : Fun.Codata}
    (h : codataDecl P τ = some d) : d ∈ P.codataTypes ∧ d.name = printTy τ := by
  cases τ with
  | i64 => simp [codataDecl] at h
  | decl n a =>
    simp only [codataDecl] at h
    exact ⟨List.mem_of_find?_eq_some h, by simpa using List.find?_some h⟩

/-- a data type is not a codata type (`ProgM.disjoint`) -/
theorem isCodataTy_of_dataDecl {P : Fun.CheckedProgram} (hP : ProgM P) {τ : Fun.Ty} {d : Fun.Data}
    (h : dataDecl P τ = some d) : Fun.isCodataTy P τ = false := by
  rw [isCodataTy_eq]
  cases hc : codataDecl P τ with
  | none => rfl
  | some c =>
    obtain ⟨h1, h2⟩ := dataDecl_mem h
    obtain ⟨h3, h4⟩ := codataDecl_mem hc
    exact absurd (h2.trans h4.symm) (hP.disjoint d h1 c h3)

theorem codataDecl_of_dataDecl {P : Fun.CheckedProgram} (hP : ProgM P) {τ : Fun.Ty} {d : Fun.Data}
    (h : dataDecl P τ = some d) : codataDecl P τ = none := by
  have := isCodataTy_of_dataDecl hP h
  rw [isCodataTy_eq] at this
  cases hc : codataDecl P τ with
  | none => rfl
  | some c => rw [hc] at this; cases this

/-! ## the kind of a typed stack -/

/-- a term of type τ is evaluated on a stack whose top frame is a destructor frame iff τ is codata -/
theorem KTM.kind {P : Fun.CheckedProgram} (hP : ProgM P) {k : Fun.Stack} {τ : Fun.Ty}
    (h : KTM P k τ) : Fun.isCodataTy P τ = kkind k := by
  cases h with
  | nil => rfl
  | exit => rfl
  | cons hf hk =>
    cases hf with
    | opL => rfl
    | opR => rfl
    | ifL => rfl
    | ifR => rfl
    | ifZ => rfl
    | print => rfl
    | letF Γ hn _ _ => simpa [kkind] using hn
    | arg Γ bsDone b bsTodo _ _ _ _ hn _ _ => simpa [kkind] using hn
    | caseF Γ d hd _ _ => simpa [kkind] using isCodataTy_of_dataDecl hP hd
    | dtorScrut Γ d sg hd _ _ _ _ => simpa [kkind] using isCodataTy_of_codataDecl hd
    | dtorApply d sg hd _ _ _ => simpa [kkind] using isCodataTy_of_codataDecl hd

/-! ## contexts and environments -/

theorem EnvTM.lookup {P : Fun.CheckedProgram} {x : String} {b : Fun.Binding} :
    ∀ (ρ : Fun.Env) (Γ : Fun.Ctx), EnvTM P ρ Γ → lookupCtx Γ x = some b →
    ∃ v, Fun.lookup x ρ = some v ∧ BTM P v b
  | [], _, h, hl => by
    cases h
    simp [lookupCtx] at hl
  | (y, v) :: ρ, _, h, hl => by
    cases h with
    | cons b0 he hb =>
      rw [lookupCtx_append_single] at hl
      rw [lookup_cons]
      by_cases hx : b0.var = x
      · simp only [hx, if_true, Option.some.injEq] at hl ⊢
        subst hl
        exact ⟨v, rfl, hb⟩
      · simp only [hx, if_false] at hl ⊢
        exact EnvTM.lookup ρ _ he hl

theorem BTM.rename {P : Fun.CheckedProgram} {v : Fun.Value} {b b' : Fun.Binding} (h : BTM P v b)
    (hc : b'.chi = b.chi) (ht : b'.ty = b.ty) : BTM P v b' := by
  cases h with
  | prd h1 h2 => exact .prd (hc.trans h1) (ht ▸ h2)
  | cns h1 h2 => exact .cns (hc.trans h1) (ht ▸ h2)

theorem BTM.prd_inv {P : Fun.CheckedProgram} {v : Fun.Value} {b : Fun.Binding} (h : BTM P v b)
    (hc : b.chi = .prd) : VTM P v b.ty := by
  cases h with
  | prd _ h2 => exact h2
  | cns h1 _ => rw [hc] at h1; cases h1

theorem BTM.cns_inv {P : Fun.CheckedProgram} {v : Fun.Value} {b : Fun.Binding} (h : BTM P v b)
    (hc : b.chi = .cns) : ∃ k, v = .cont k ∧ KTM P k b.ty := by
  cases h with
  | prd h1 _ => rw [hc] at h1; cases h1
  | cns _ h2 => exact ⟨_, rfl, h2⟩

theorem VTsM.length {P : Fun.CheckedProgram} : ∀ (vs : List Fun.Value) (bs : Fun.Ctx),
    VTsM P vs bs → vs.length = bs.length
  | [], _, h => by cases h; rfl
  | v :: vs, _, h => by
    cases h with
    | cons _ hr => simp [VTsM.length vs _ hr]

theorem VTsM.snoc {P : Fun.CheckedProgram} {v : Fun.Value} {b : Fun.Binding} (hb : BTM P v b) :
    ∀ (vs : List Fun.Value) (bs : Fun.Ctx), VTsM P vs bs → VTsM P (vs ++ [v]) (bs ++ [b])
  | [], _, h => by cases h; exact .cons hb .nil
  | w :: vs, _, h => by
    cases h with
    | cons hw hr => exact .cons hw (VTsM.snoc hb vs _ hr)

/-- binding parameters to typed values succeeds and gives a typed environment -/
theorem bindAll_typedM {P : Fun.CheckedProgram} : ∀ (names : List String) (vs : List Fun.Value)
    (bs : Fun.Ctx) (ρ : Fun.Env) (Γ : Fun.Ctx), VTsM P vs bs → names.length = bs.length →
    EnvTM P ρ Γ → ∃ ρ', Fun.bindAll names vs ρ = some ρ' ∧ EnvTM P ρ' (Γ ++ bindNames names bs)
  | [], vs, bs, ρ, Γ, hv, hl, he => by
    cases bs with
    | nil =>
      cases hv
      exact ⟨ρ, rfl, by simpa [bindNames] using he⟩
    | cons b bs => simp at hl
  | n :: ns, vs, bs, ρ, Γ, hv, hl, he => by
    cases bs with
    | nil => simp at hl
    | cons b bs =>
      cases hv with
      | cons hb hr =>
        rename_i v vs'
        have he' : EnvTM P ((n, v) :: ρ) (Γ ++ [{ b with var := n }]) :=
          EnvTM.cons { b with var := n } he (hb.rename rfl rfl)
        obtain ⟨ρ', h1, h2⟩ := bindAll_typedM ns vs' bs _ _ hr (by simpa using hl) he'
        refine ⟨ρ', by simpa [Fun.bindAll] using h1, ?_⟩
        rw [bindNames_cons]
        simpa using h2

/-! ## canonical forms -/

/-- an integer-typed value is an integer -/
theorem VTM.int_inv {P : Fun.CheckedProgram} {v : Fun.Value} (h : VTM P v .i64) :
    ∃ n, v = .int n := by
  generalize hτ : Fun.Ty.i64 = τ at h
  cases h with
  | int => exact ⟨_, rfl⟩
  | con d c hd _ _ => subst hτ; simp [dataDecl] at hd
  | obj Γ an _ h2 =>
    subst hτ
    simp only [TypedM] at h2
    obtain ⟨_, _, d, hd, _⟩ := h2
    simp [codataDecl] at hd
  | thunk Γ hc _ _ => subst hτ; simp [Fun.isCodataTy] at hc

/-- a value of a data type is a constructor of the declaration applied to typed values -/
theorem VTM.data_inv {P : Fun.CheckedProgram} (hP : ProgM P) {v : Fun.Value} {τ : Fun.Ty}
    {d : Fun.Data} (hd : dataDecl P τ = some d) (h : VTM P v τ) :
    ∃ K vs c, v = .con K vs ∧ d.ctors.find? (fun c => c.name = K) = some c ∧ VTsM P vs c.args := by
  cases h with
  | int => simp [dataDecl] at hd
  | con d' c hd' hc hvs =>
    rw [hd] at hd'; cases hd'
    exact ⟨_, _, c, rfl, hc, hvs⟩
  | obj Γ an _ h2 =>
    simp only [TypedM] at h2
    obtain ⟨_, _, d', hd', _⟩ := h2
    rw [codataDecl_of_dataDecl hP hd] at hd'; cases hd'
  | thunk Γ hc _ _ => rw [isCodataTy_of_dataDecl hP hd] at hc; cases hc

/-- a value of a codata type is a closure or a thunk -/
theorem VTM.codata_inv {P : Fun.CheckedProgram} (hP : ProgM P) {v : Fun.Value} {τ : Fun.Ty}
    {d : Fun.Codata} (hd : codataDecl P τ = some d) (h : VTM P v τ) :
    (∃ cs ρ Γ an, v = .obj cs ρ ∧ EnvTM P ρ Γ ∧ TypedM P (.new cs an) Γ τ) ∨
    (∃ t ρ Γ, v = .thunk t ρ ∧ EnvTM P ρ Γ ∧ TypedM P t Γ τ) := by
  cases h with
  | int => simp [codataDecl] at hd
  | con d' c hd' hc hvs =>
    rw [codataDecl_of_dataDecl hP hd'] at hd; cases hd
  | obj Γ an h1 h2 => exact .inl ⟨_, _, Γ, an, rfl, h1, h2⟩
  | thunk Γ _ h3 h4 => exact .inr ⟨_, _, Γ, rfl, h3, h4⟩

/-! ## clauses -/

theorem ClausesM_find {P : Fun.CheckedProgram} {Γ : Fun.Ctx} {sigs : List Fun.CtorSig} {τ : Fun.Ty}
    {x : String} {cl : Fun.Clause} : ∀ (cs : Fun.Clauses), ClausesM P cs Γ sigs τ →
    Fun.findClause x cs = some cl →
    ∃ c, sigs.find? (fun c => c.name = x) = some c ∧ cl.names.Nodup ∧
      cl.names.length = c.args.length ∧ cl.ctx = bindNames cl.names c.args ∧
      TypedM P cl.body (Γ ++ bindNames cl.names c.args) τ
  | .nil, _, h => by simp [Fun.findClause] at h
  | .cons pol y ns ctx b r, hc, h => by
    simp only [ClausesM] at hc
    obtain ⟨⟨c, h1, h2, h3, h4, h5⟩, hr⟩ := hc
    simp only [Fun.findClause] at h
    by_cases hxy : (x == y) = true
    · simp only [hxy, if_true, Option.some.injEq] at h
      subst h
      have : x = y := by simpa using hxy
      subst this
      exact ⟨c, h1, h2, h3, h4, h4 ▸ h5⟩
    · simp only [hxy, Bool.false_eq_true, if_false] at h
      exact ClausesM_find r hr h

theorem CoclausesM_find {P : Fun.CheckedProgram} {Γ : Fun.Ctx} {sigs : List Fun.DtorSig}
    {x : String} {cl : Fun.Clause} : ∀ (cs : Fun.Clauses), CoclausesM P cs Γ sigs →
    Fun.findClause x cs = some cl →
    ∃ c, sigs.find? (fun c => c.name = x) = some c ∧ cl.names.Nodup ∧
      cl.names.length = c.args.length ∧ cl.ctx = bindNames cl.names c.args ∧
      TypedM P cl.body (Γ ++ bindNames cl.names c.args) c.contTy
  | .nil, _, h => by simp [Fun.findClause] at h
  | .cons pol y ns ctx b r, hc, h => by
    simp only [CoclausesM] at hc
    obtain ⟨⟨c, h1, h2, h3, h4, h5⟩, hr⟩ := hc
    simp only [Fun.findClause] at h
    by_cases hxy : (x == y) = true
    · simp only [hxy, if_true, Option.some.injEq] at h
      subst h
      have : x = y := by simpa using hxy
      subst this
      exact ⟨c, h1, h2, h3, h4, h4 ▸ h5⟩
    · simp only [hxy, Bool.false_eq_true, if_false] at h
      exact CoclausesM_find r hr h

/-- the selected clause of a typed `case` for the constructor `K` with signature `c`: binding its
names to values for the constructor's parameters succeeds and types the body -/
theorem clauseM_select {P : Fun.CheckedProgram} {Γ : Fun.Ctx} {ρ : Fun.Env} {cs : Fun.Clauses}
    {sigs : List Fun.CtorSig} {τ : Fun.Ty} {K : String} {c : Fun.CtorSig} {cl : Fun.Clause}
    (he : EnvTM P ρ Γ) (hcl : ClausesM P cs Γ sigs τ)
    (hc : sigs.find? (fun c => c.name = K) = some c) (hf : Fun.findClause K cs = some cl) :
    cl.names.length = c.args.length ∧ cl.ctx = bindNames cl.names c.args ∧
    TypedM P cl.body (Γ ++ bindNames cl.names c.args) τ ∧
    ∀ vs, VTsM P vs c.args → ∃ ρ', Fun.bindAll cl.names vs ρ = some ρ' ∧
      EnvTM P ρ' (Γ ++ bindNames cl.names c.args) := by
  obtain ⟨c', h1, _, h3, h4, h5⟩ := ClausesM_find cs hcl hf
  rw [hc] at h1; cases h1
  exact ⟨h3, h4, h5, fun vs hvs => bindAll_typedM cl.names vs c.args ρ Γ hvs h3 he⟩

/-- the clause of a typed closure for the destructor `nm` with signature `sg` -/
theorem VTM.obj_clause {P : Fun.CheckedProgram} {cs : Fun.Clauses} {ρ : Fun.Env} {σ : Fun.Ty}
    {d : Fun.Codata} {nm : String} {sg : Fun.DtorSig} {cl : Fun.Clause}
    (hv : VTM P (.obj cs ρ) σ) (hd : codataDecl P σ = some d)
    (hs : d.dtors.find? (fun c => c.name = nm) = some sg)
    (hf : Fun.findClause nm cs = some cl) :
    ∃ Γ, EnvTM P ρ Γ ∧ CoclausesM P cs Γ d.dtors ∧ clauseXtors cs = d.dtors.map (·.name) ∧
      cl.names.length = sg.args.length ∧ cl.ctx = bindNames cl.names sg.args ∧
      TypedM P cl.body (Γ ++ bindNames cl.names sg.args) sg.contTy ∧
      ∀ vs, VTsM P vs sg.args → ∃ ρ', Fun.bindAll cl.names vs ρ = some ρ' ∧
        EnvTM P ρ' (Γ ++ bindNames cl.names sg.args) := by
  cases hv with
  | obj Γ an he hnew =>
    simp only [TypedM] at hnew
    obtain ⟨_, _, d', hd', hcl, hx⟩ := hnew
    rw [hd] at hd'; cases hd'
    obtain ⟨c', h1, _, h3, h4, h5⟩ := CoclausesM_find cs hcl hf
    rw [hs] at h1; cases h1
    exact ⟨Γ, he, hcl, hx, h3, h4, h5, fun vs hvs => bindAll_typedM cl.names vs sg.args ρ Γ hvs h3 he⟩

/-- a typed `case` / `new` has a clause for every constructor / destructor of the declaration -/
theorem findClause_of_xtors {cs : Fun.Clauses} {names : List String} {x : String}
    (h : clauseXtors cs = names) (hx : x ∈ names) : ∃ cl, Fun.findClause x cs = some cl :=
  Fun.Safety.findClause_of_mem cs x (h ▸ hx)

/-! ## definitions -/

theorem find?_of_nodup {α : Type} (f : α → String) : ∀ (l : List α) (d : α), (l.map f).Nodup →
    d ∈ l → l.find? (fun x => f x == f d) = some d
  | [], _, _, h => by simp at h
  | a :: r, d, hn, hm => by
    simp only [List.map_cons, List.nodup_cons] at hn
    simp only [List.find?_cons]
    by_cases had : f a = f d
    · simp only [had, beq_self_eq_true]
      rcases List.mem_cons.mp hm with rfl | hm'
      · rfl
      · exact absurd (had ▸ List.mem_map.mpr ⟨d, hm', rfl⟩) hn.1
    · have : (f a == f d) = false := by simpa using had
      simp only [this]
      rcases List.mem_cons.mp hm with rfl | hm'
      · exact absurd rfl had
      · exact find?_of_nodup f r d hn.2 hm'

/-- definition names are unique: the machine finds the definition the typing derivation names -/
theorem findDef_of_mem {P : Fun.CheckedProgram} (hP : ProgM P) {d : Fun.Def} (hd : d ∈ P.defs) :
    Fun.findDef P d.name = some d :=
  find?_of_nodup (fun d : Fun.Def => d.name) P.defs d hP.defNames hd

theorem findDef_mem' {P : Fun.CheckedProgram} {f : String} {d : Fun.Def}
    (h : Fun.findDef P f = some d) : d ∈ P.defs ∧ d.name = f := by
  unfold Fun.findDef at h
  exact ⟨List.mem_of_find?_eq_some h, by simpa using List.find?_some h⟩

/-! ## annotations -/

/-- the machine's `getType` (read by `argsStep`) returns the type of the derivation -/
theorem getTypeM_of_typed (P : Fun.CheckedProgram) : ∀ (t : Fun.Term) (Γ : Fun.Ctx) (τ : Fun.Ty),
    TypedM P t Γ τ → t.getType = some τ
  | .var _ _ _, _, _, h => by simp only [TypedM] at h; simp [Fun.Term.getType, h.2.1]
  | .lit _, _, _, h => by simp only [TypedM] at h; simp [Fun.Term.getType, h]
  | .op _ _ _, _, _, h => by simp only [TypedM] at h; simp [Fun.Term.getType, h.1]
  | .ifc _ _ _ _ _ _, _, _, h => by simp only [TypedM] at h; simp [Fun.Term.getType, h.2.1]
  | .ifz _ _ _ _ _, _, _, h => by simp only [TypedM] at h; simp [Fun.Term.getType, h.2.1]
  | .print _ _ _ _, _, _, h => by simp only [TypedM] at h; simp [Fun.Term.getType, h.2.1]
  | .letIn _ _ _ _ _, _, _, h => by simp only [TypedM] at h; simp [Fun.Term.getType, h.2.1]
  | .call _ _ _, _, _, h => by simp only [TypedM] at h; simp [Fun.Term.getType, h.2.1]
  | .ctor _ _ _, _, _, h => by simp only [TypedM] at h; simp [Fun.Term.getType, h.2.1]
  | .dtor _ _ _ _ _, _, _, h => by simp only [TypedM] at h; simp [Fun.Term.getType, h.2.1]
  | .case _ _ _ _, _, _, h => by simp only [TypedM] at h; simp [Fun.Term.getType, h.2.1]
  | .new _ _, _, _, h => by simp only [TypedM] at h; simp [Fun.Term.getType, h.2.1]
  | .label _ _ _, _, _, h => by simp only [TypedM] at h; simp [Fun.Term.getType, h.2.1]
  | .goto _ _ _, _, _, h => by simp only [TypedM] at h; simp [Fun.Term.getType, h.2.1]
  | .exit _ _, _, _, h => by simp only [TypedM] at h; simp [Fun.Term.getType, h.2.1]
  | .paren t, Γ, τ, h => by
    simp only [TypedM] at h
    simpa [Fun.Term.getType] using getTypeM_of_typed P t Γ τ h

/-- a typed term is not a covariable argument (`argsStep` takes the producer branch) -/
theorem isCov_of_typed {P : Fun.CheckedProgram} {t : Fun.Term} {Γ : Fun.Ctx} {τ : Fun.Ty}
    (h : TypedM P t Γ τ) : isCov t = none := by
  cases t with
  | var x ty chi =>
    simp only [TypedM] at h
    obtain ⟨_, _, rfl, _⟩ := h
    rfl
  | _ => rfl

/-- a variable of a typed environment has a typed value -/
theorem EnvTM.var {P : Fun.CheckedProgram} {ρ : Fun.Env} {Γ : Fun.Ctx} (he : EnvTM P ρ Γ)
    {x : String} {ty : Option Fun.Ty} {chi : Option Fun.Chi} {τ : Fun.Ty}
    (ht : TypedM P (.var x ty chi) Γ τ) : ∃ v, Fun.lookup x ρ = some v ∧ VTM P v τ := by
  simp only [TypedM] at ht
  obtain ⟨_, _, _, b, hl, hc, hty⟩ := ht
  obtain ⟨v, hv, hb⟩ := he.lookup _ _ hl
  exact ⟨v, hv, hty ▸ hb.prd_inv hc⟩

/-- a codata-typed term in binding / argument position gives a typed value -/
theorem suspend_typedM {P : Fun.CheckedProgram} {ρ : Fun.Env} {Γ : Fun.Ctx} {τ : Fun.Ty}
    (he : EnvTM P ρ Γ) (hτ : Fun.isCodataTy P τ = true) :
    ∀ (t : Fun.Term), TypedM P t Γ τ → ∃ v, Fun.suspend t ρ = .ok v ∧ VTM P v τ
  | .paren t, ht => by
    simp only [TypedM] at ht
    obtain ⟨v, h1, h2⟩ := suspend_typedM he hτ t ht
    exact ⟨v, by simpa [Fun.suspend] using h1, h2⟩
  | .var x ty chi, ht => by
    obtain ⟨v, hv, hvt⟩ := he.var ht
    exact ⟨v, by simp [Fun.suspend, hv], hvt⟩
  | .new cs an, ht => ⟨_, rfl, .obj Γ an he ht⟩
  | .lit n, ht => ⟨_, rfl, .thunk Γ hτ he ht⟩
  | .op a o b, ht => ⟨_, rfl, .thunk Γ hτ he ht⟩
  | .ifc s a b t e an, ht => ⟨_, rfl, .thunk Γ hτ he ht⟩
  | .ifz s a t e an, ht => ⟨_, rfl, .thunk Γ hτ he ht⟩
  | .print nl a n an, ht => ⟨_, rfl, .thunk Γ hτ he ht⟩
  | .letIn x σ b i an, ht => ⟨_, rfl, .thunk Γ hτ he ht⟩
  | .call f as an, ht => ⟨_, rfl, .thunk Γ hτ he ht⟩
  | .ctor k as an, ht => ⟨_, rfl, .thunk Γ hτ he ht⟩
  | .dtor s k ta as an, ht => ⟨_, rfl, .thunk Γ hτ he ht⟩
  | .case s ta cs an, ht => ⟨_, rfl, .thunk Γ hτ he ht⟩
  | .label a b an, ht => ⟨_, rfl, .thunk Γ hτ he ht⟩
  | .goto a b an, ht => ⟨_, rfl, .thunk Γ hτ he ht⟩
  | .exit a an, ht => ⟨_, rfl, .thunk Γ hτ he ht⟩

end Scc.Fun2Core.Sem
