/-
  Scc.Fun2Core.TypedTotal — proof file (C12, link fun2core): THE TRANSLATION OF A TYPED TERM DOES NOT FAIL.
  The model's `Except.error` outcomes are the Rust `expect("Types should be annotated before
  translation")` sites and the (unreachable) exhaustion of the capture guard's re-entry.  For an
  annotated, typed term (`TypedM`) whose binders are in the used-names set (always, in a run started by
  `compile_def` / `compile_main`) none of them is reached: `compile_with_cont` and `compile` return `ok`.
-/
import Scc.Fun2Core.TypedTerm

namespace Scc.Fun2Core.Typed
open Scc Scc.Core Scc.Fun2Core
open Scc.Fun.Typing (lookupCtx bindNames clauseXtors)

/-- binders in the used-names set -/
def UIn (l : List String) (st : CompileState) : Prop := ∀ x ∈ l, x ∈ st.usedVars

theorem UIn.mono {l : List String} {st st' : CompileState} (h : UIn l st) (hf : Fresh st st') :
    UIn l st' := fun x hx => hf.vars.subset (h x hx)

theorem UIn.sub {l l' : List String} {st : CompileState} (h : UIn l st) (hs : ∀ x ∈ l', x ∈ l) :
    UIn l' st := fun x hx => h x (hs x hx)

section
variable (p : Fun.CheckedProgram)

def OkCwc (t : Fun.Term) : Prop :=
  ∀ (Γ : Fun.Ctx) (τ : Fun.Ty) (c : Term) (st : CompileState), TypedM p t Γ τ →
    UIn (binderNames t) st → ∃ r, compileWithCont t c st = .ok r
def OkComp (t : Fun.Term) : Prop :=
  ∀ (Γ : Fun.Ctx) (τ : Fun.Ty) (ty : Ty) (st : CompileState), TypedM p t Γ τ →
    UIn (binderNames t) st → ∃ r, compile t ty st = .ok r
def OkSubst (args : Fun.Terms) : Prop :=
  ∀ (Γ : Fun.Ctx) (bs : Fun.Ctx) (st : CompileState), ArgsM p args Γ bs →
    UIn (binderNamesArgs args) st → ∃ r, compileSubst args st = .ok r
def OkClauses (cs : Fun.Clauses) : Prop :=
  ∀ (Γ : Fun.Ctx) (sigs : List Fun.CtorSig) (τ : Fun.Ty) (c : Term) (st : CompileState),
    ClausesM p cs Γ sigs τ → UIn (binderNamesClauses cs) st → ∃ r, compileClauses cs c st = .ok r
def OkCoclauses (cs : Fun.Clauses) : Prop :=
  ∀ (Γ : Fun.Ctx) (sigs : List Fun.DtorSig) (st : CompileState),
    CoclausesM p cs Γ sigs → UIn (binderNamesClauses cs) st → ∃ r, compileCoclauses cs st = .ok r

end

variable {p : Fun.CheckedProgram}

theorem okComp_default {t : Fun.Term} (h : OkCwc p t)
    (hd : ∀ ty st, compile t ty st = defaultCompile (compileWithCont t) ty st) : OkComp p t := by
  intro Γ τ ty st ht hb
  rw [hd, defaultCompile_eq]
  obtain ⟨⟨s, st1⟩, hx⟩ := h Γ τ (.var .cns ⟨(freshCovar st).1, 0⟩ ty) (freshCovar st).2 ht
    (hb.mono (fresh_freshCovar st))
  rw [hx]
  exact ⟨_, rfl⟩

theorem okCwc_of_comp {t : Fun.Term} (hc : OkComp p t)
    (hcwc : ∀ Γ τ, TypedM p t Γ τ → ∀ c st, compileWithCont t c st =
      (match compile t (compileTy τ) st with
        | .error e => .error e
        | .ok (q, st1) => .ok (.cut (compileTy τ) q c, st1))) : OkCwc p t := by
  intro Γ τ c st ht hb
  rw [hcwc Γ τ ht]
  obtain ⟨⟨q, st1⟩, hx⟩ := hc Γ τ (compileTy τ) st ht hb
  rw [hx]
  exact ⟨_, rfl⟩

theorem okGuarded {binders L : List String} {an : Option Fun.Ty} {site : String} {core : CwcFn}
    {τ : Fun.Ty} (han : an = some τ) (hsub : ∀ x ∈ binders, x ∈ L)
    (hcore : ∀ (c : Term) (st : CompileState), UIn L st → ∃ r, core c st = .ok r)
    (c : Term) (st : CompileState) (hb : UIn L st) : ∃ r, guarded binders an site core c st = .ok r := by
  rw [guarded_eq_of_binders_used binders an site core c st (fun x hx => hb x (hsub x hx))]
  split
  · subst han
    simp only
    obtain ⟨⟨s, st1⟩, hx⟩ := hcore (.var .cns ⟨(freshCovar st).1, 0⟩ (compileTy τ)) (freshCovar st).2
      (hb.mono (fresh_freshCovar st))
    rw [hx]
    exact ⟨_, rfl⟩
  · exact hcore c st hb

mutual
theorem ok_term : ∀ t : Fun.Term, OkCwc p t ∧ OkComp p t
  | .var x ty chi => by
    have hcomp : OkComp p (.var x ty chi) := by
      intro Γ τ cty st ht hb
      simp only [TypedM] at ht
      obtain ⟨-, rfl, -⟩ := ht
      exact ⟨_, c_var x (some τ) chi cty st⟩
    refine ⟨okCwc_of_comp hcomp ?_, hcomp⟩
    intro Γ τ ht c st
    simp only [TypedM] at ht
    obtain ⟨-, rfl, -⟩ := ht
    rfl
  | .lit n => ⟨fun _ _ _ _ _ _ => ⟨_, rfl⟩, fun _ _ _ _ _ _ => ⟨_, rfl⟩⟩
  | .op a o b => by
    have ha := (ok_term a).2
    have hb' := (ok_term b).2
    have hcomp : OkComp p (.op a o b) := by
      intro Γ τ cty st ht hb
      simp only [TypedM] at ht
      obtain ⟨-, tya, tyb⟩ := ht
      rw [c_op]
      obtain ⟨⟨fst, st1⟩, hx⟩ := ha Γ .i64 .i64 st tya (hb.sub (by bsub))
      obtain ⟨⟨snd, st2⟩, hy⟩ := hb' Γ .i64 .i64 st1 tyb ((hb.sub (by bsub)).mono (compile_fresh hx))
      simp only [hx, hy]
      exact ⟨_, rfl⟩
    refine ⟨okCwc_of_comp hcomp ?_, hcomp⟩
    intro Γ τ ht c st
    simp only [TypedM] at ht
    obtain ⟨rfl, -⟩ := ht
    exact cwc_op a o b c st
  | .ifc srt a b t e an => by
    have ha := (ok_term a).2
    have hb' := (ok_term b).2
    have ht' := (ok_term t).1
    have he := (ok_term e).1
    have hcwc : OkCwc p (.ifc srt a b t e an) := by
      intro Γ τ c st hty hb
      simp only [TypedM] at hty
      obtain ⟨-, -, tya, tyb, tyt, tye⟩ := hty
      rw [cwc_ifc]
      have hfr := shareIf_fresh (isLeaf c) c st
      generalize (if isLeaf c then (c, st) else share c st) = r at hfr
      have b0 := hb.mono hfr
      obtain ⟨⟨fst, st1⟩, hx⟩ := ha Γ .i64 .i64 r.2 tya (b0.sub (by bsub))
      have b1 := b0.mono (compile_fresh hx)
      obtain ⟨⟨snd, st2⟩, hy⟩ := hb' Γ .i64 .i64 st1 tyb (b1.sub (by bsub))
      have b2 := b1.mono (compile_fresh hy)
      obtain ⟨⟨thenc, st3⟩, hz⟩ := ht' Γ τ r.1 st2 tyt (b2.sub (by bsub))
      have b3 := b2.mono (compileWithCont_fresh hz)
      obtain ⟨⟨elsec, st4⟩, hw⟩ := he Γ τ r.1 st3 tye (b3.sub (by bsub))
      simp only [hx, hy, hz, hw]
      exact ⟨_, rfl⟩
    exact ⟨hcwc, okComp_default hcwc (fun _ _ => rfl)⟩
  | .ifz srt a t e an => by
    have ha := (ok_term a).2
    have ht' := (ok_term t).1
    have he := (ok_term e).1
    have hcwc : OkCwc p (.ifz srt a t e an) := by
      intro Γ τ c st hty hb
      simp only [TypedM] at hty
      obtain ⟨-, -, tya, tyt, tye⟩ := hty
      rw [cwc_ifz]
      have hfr := shareIf_fresh (isLeaf c) c st
      generalize (if isLeaf c then (c, st) else share c st) = r at hfr
      have b0 := hb.mono hfr
      obtain ⟨⟨fst, st1⟩, hx⟩ := ha Γ .i64 .i64 r.2 tya (b0.sub (by bsub))
      have b1 := b0.mono (compile_fresh hx)
      obtain ⟨⟨thenc, st3⟩, hz⟩ := ht' Γ τ r.1 st1 tyt (b1.sub (by bsub))
      have b3 := b1.mono (compileWithCont_fresh hz)
      obtain ⟨⟨elsec, st4⟩, hw⟩ := he Γ τ r.1 st3 tye (b3.sub (by bsub))
      simp only [hx, hz, hw]
      exact ⟨_, rfl⟩
    exact ⟨hcwc, okComp_default hcwc (fun _ _ => rfl)⟩
  | .print nl a n an => by
    have ha := (ok_term a).2
    have hn := (ok_term n).1
    have hcwc : OkCwc p (.print nl a n an) := by
      intro Γ τ c st hty hb
      simp only [TypedM] at hty
      obtain ⟨-, -, tya, tyn⟩ := hty
      rw [cwc_print]
      obtain ⟨⟨arg, st1⟩, hx⟩ := ha Γ .i64 .i64 st tya (hb.sub (by bsub))
      obtain ⟨⟨next, st2⟩, hy⟩ := hn Γ τ c st1 tyn ((hb.sub (by bsub)).mono (compile_fresh hx))
      simp only [hx, hy]
      exact ⟨_, rfl⟩
    exact ⟨hcwc, okComp_default hcwc (fun _ _ => rfl)⟩
  | .letIn x σ bound body an => by
    have hbc := (ok_term bound).1
    have hbp := (ok_term bound).2
    have hi := (ok_term body).1
    have hcwc : OkCwc p (.letIn x σ bound body an) := by
      intro Γ τ c st hty hb
      simp only [TypedM] at hty
      obtain ⟨-, han, tyb, tyi⟩ := hty
      rw [cwc_letIn]
      refine okGuarded (L := binderNames (.letIn x σ bound body an)) han
        (by intro y hy; simp only [List.mem_singleton] at hy; simp [binderNames, hy]) ?_ c st hb
      intro c st hb
      unfold letCore
      obtain ⟨⟨inStmt, st1⟩, hx⟩ := hi _ τ c st tyi (hb.sub (by bsub))
      have b1 := hb.mono (compileWithCont_fresh hx)
      simp only [hx]
      split
      · obtain ⟨⟨q, st2⟩, hy⟩ := hbp Γ σ (compileTy σ) st1 tyb (b1.sub (by bsub))
        simp only [hy]
        exact ⟨_, rfl⟩
      · exact hbc Γ σ _ st1 tyb (b1.sub (by bsub))
    exact ⟨hcwc, okComp_default hcwc (fun _ _ => rfl)⟩
  | .call f args an => by
    have hs := ok_subst args
    have hcwc : OkCwc p (.call f args an) := by
      intro Γ τ c st hty hb
      simp only [TypedM] at hty
      obtain ⟨-, rfl, d, hd, rfl, rfl, targs⟩ := hty
      rw [cwc_call]
      obtain ⟨⟨args', st1⟩, hx⟩ := hs Γ d.ctx st targs (hb.sub (by bsub))
      simp only [hx]
      exact ⟨_, rfl⟩
    exact ⟨hcwc, okComp_default hcwc (fun _ _ => rfl)⟩
  | .ctor k args an => by
    have hs := ok_subst args
    have hcomp : OkComp p (.ctor k args an) := by
      intro Γ τ cty st hty hb
      simp only [TypedM] at hty
      obtain ⟨-, rfl, d, cc, hd, hcc, targs⟩ := hty
      rw [c_ctor]
      obtain ⟨⟨args', st1⟩, hx⟩ := hs Γ cc.args st targs (hb.sub (by bsub))
      simp only [hx]
      exact ⟨_, rfl⟩
    refine ⟨okCwc_of_comp hcomp ?_, hcomp⟩
    intro Γ τ ht c st
    simp only [TypedM] at ht
    obtain ⟨-, rfl, -⟩ := ht
    exact cwc_ctor k args (some τ) c st
  | .dtor scrut k ta args an => by
    have hs := ok_subst args
    have hsc := (ok_term scrut).1
    have hcwc : OkCwc p (.dtor scrut k ta args an) := by
      intro Γ τ c st hty hb
      simp only [TypedM] at hty
      obtain ⟨-, -, σ, d, sg, tys, hd, hsg, rfl, targs⟩ := hty
      rw [cwc_dtor]
      obtain ⟨⟨args', st1⟩, hx⟩ := hs Γ sg.args st targs (hb.sub (by bsub))
      simp only [hx, getType_of_typed p scrut Γ σ tys]
      exact hsc Γ σ _ st1 tys ((hb.sub (by bsub)).mono ((rel_subst fresh_stepRel args) _ _ _ hx))
    exact ⟨hcwc, okComp_default hcwc (fun _ _ => rfl)⟩
  | .case scrut ta cs an => by
    have hcl := ok_clauses cs
    have hsc := (ok_term scrut).1
    have hcwc : OkCwc p (.case scrut ta cs an) := by
      intro Γ τ c st hty hb
      simp only [TypedM] at hty
      obtain ⟨-, han, σ, d, tys, hd, tcs, hcov⟩ := hty
      rw [cwc_case]
      refine okGuarded (L := binderNames (.case scrut ta cs an)) han
        (by intro y hy; simp [binderNames, clausesNames_sub cs y hy]) ?_ c st hb
      intro c st hb
      unfold caseCore
      have hfr := shareIf_fresh (decide (clausesLen cs ≤ 1) || isLeaf c) c st
      generalize (if (decide (clausesLen cs ≤ 1) || isLeaf c) = true then (c, st)
        else share c st) = r at hfr
      have b0 := hb.mono hfr
      obtain ⟨⟨cs', st1⟩, hx⟩ := hcl Γ d.ctors τ r.1 r.2 tcs (b0.sub (by bsub))
      simp only [hx, getType_of_typed p scrut Γ σ tys]
      exact hsc Γ σ _ st1 tys ((b0.sub (by bsub)).mono ((rel_clauses fresh_stepRel cs) _ _ _ _ hx))
    exact ⟨hcwc, okComp_default hcwc (fun _ _ => rfl)⟩
  | .new cs an => by
    have hs := ok_coclauses cs
    have hcomp : OkComp p (.new cs an) := by
      intro Γ τ cty st hty hb
      simp only [TypedM] at hty
      obtain ⟨-, rfl, d, hd, tcs, hcov⟩ := hty
      rw [c_new]
      obtain ⟨⟨cs', st1⟩, hx⟩ := hs Γ d.dtors st tcs (hb.sub (by bsub))
      simp only [hx]
      exact ⟨_, rfl⟩
    refine ⟨okCwc_of_comp hcomp ?_, hcomp⟩
    intro Γ τ ht c st
    simp only [TypedM] at ht
    obtain ⟨-, rfl, -⟩ := ht
    exact cwc_new cs (some τ) c st
  | .goto a t an => by
    have ht' := (ok_term t).1
    have hcwc : OkCwc p (.goto a t an) := by
      intro Γ τ c st hty hb
      simp only [TypedM] at hty
      obtain ⟨-, -, b, hl, hchi, tyt⟩ := hty
      rw [cwc_goto]
      simp only [getType_of_typed p t Γ b.ty tyt]
      exact ht' Γ b.ty _ st tyt (hb.sub (by bsub))
    exact ⟨hcwc, okComp_default hcwc (fun _ _ => rfl)⟩
  | .label a t an => by
    have ht' := (ok_term t).1
    have hcomp : OkComp p (.label a t an) := by
      intro Γ τ cty st hty hb
      simp only [TypedM] at hty
      obtain ⟨-, rfl, tyt⟩ := hty
      rw [c_label]
      simp only
      obtain ⟨⟨s, st1⟩, hx⟩ := ht' _ τ (.var .cns ⟨a, 0⟩ (compileTy τ)) st tyt (hb.sub (by bsub))
      simp only [hx]
      exact ⟨_, rfl⟩
    refine ⟨okCwc_of_comp hcomp ?_, hcomp⟩
    intro Γ τ ht c st
    simp only [TypedM] at ht
    obtain ⟨-, rfl, -⟩ := ht
    exact cwc_label a t (some τ) c st
  | .exit arg an => by
    have ha := (ok_term arg).2
    have hcwc : OkCwc p (.exit arg an) := by
      intro Γ τ c st hty hb
      simp only [TypedM] at hty
      obtain ⟨-, rfl, tya⟩ := hty
      rw [cwc_exit]
      obtain ⟨⟨a, st1⟩, hx⟩ := ha Γ .i64 .i64 st tya (hb.sub (by bsub))
      simp only [hx]
      exact ⟨_, rfl⟩
    exact ⟨hcwc, okComp_default hcwc (fun _ _ => rfl)⟩
  | .paren inner => by
    have hi := ok_term inner
    refine ⟨fun Γ τ c st hty hb => ?_, fun Γ τ ty st hty hb => ?_⟩
    · simp only [TypedM] at hty
      rw [cwc_paren]
      exact hi.1 Γ τ c st hty (hb.sub (by bsub))
    · simp only [TypedM] at hty
      rw [c_paren]
      exact hi.2 Γ τ ty st hty (hb.sub (by bsub))
theorem ok_subst : ∀ args : Fun.Terms, OkSubst p args
  | .nil => fun _ _ _ _ _ => ⟨_, rfl⟩
  | .cons t rest => by
    have ht' := (ok_term t).2
    have hr := ok_subst rest
    intro Γ bs st hty hb
    simp only [ArgsM] at hty
    obtain ⟨b, bs', rfl, trest, hcase⟩ := hty
    rw [subst_cons]
    rcases hcase with ⟨hchi, tyt⟩ | ⟨hchi, x, b', rfl, hl, hchi', hty'⟩
    · simp only [covarArg_of_typed p tyt, getType_of_typed p t Γ b.ty tyt]
      obtain ⟨⟨q, st1⟩, hx⟩ := ht' Γ b.ty (compileTy b.ty) st tyt (hb.sub (by bsub))
      obtain ⟨⟨r, st2⟩, hy⟩ := hr Γ bs' st1 trest ((hb.sub (by bsub)).mono (compile_fresh hx))
      simp only [hx, hy]
      exact ⟨_, rfl⟩
    · simp only [covarArg]
      obtain ⟨⟨r, st2⟩, hy⟩ := hr Γ bs' st trest (hb.sub (by bsub))
      simp only [hy]
      exact ⟨_, rfl⟩
theorem ok_clauses : ∀ cs : Fun.Clauses, OkClauses p cs
  | .nil => fun _ _ _ _ _ _ _ => ⟨_, rfl⟩
  | .cons pol x ns ctx body rest => by
    have hb' := (ok_term body).1
    have hr := ok_clauses rest
    intro Γ sigs τ c st hty hb
    simp only [ClausesM] at hty
    obtain ⟨⟨cc, hcc, hnd, hlen, rfl, tyb⟩, trest⟩ := hty
    rw [clauses_cons]
    obtain ⟨⟨b, st1⟩, hx⟩ := hb' _ τ c st tyb (hb.sub (by bsub))
    obtain ⟨⟨r, st2⟩, hy⟩ := hr Γ sigs τ c st1 trest
      ((hb.sub (by bsub)).mono (compileWithCont_fresh hx))
    simp only [hx, hy]
    exact ⟨_, rfl⟩
theorem ok_coclauses : ∀ cs : Fun.Clauses, OkCoclauses p cs
  | .nil => fun _ _ _ _ _ => ⟨_, rfl⟩
  | .cons pol x ns ctx body rest => by
    have hb' := (ok_term body).1
    have hr := ok_coclauses rest
    intro Γ sigs st hty hb
    simp only [CoclausesM] at hty
    obtain ⟨⟨cc, hcc, hnd, hlen, rfl, tyb⟩, trest⟩ := hty
    rw [coclauses_cons]
    simp only [getType_of_typed p body _ _ tyb]
    have f0 := fresh_freshCovar st
    obtain ⟨⟨b, st1⟩, hx⟩ := hb' _ cc.contTy (.var .cns ⟨(freshCovar st).1, 0⟩ (compileTy cc.contTy))
      (freshCovar st).2 tyb ((hb.sub (by bsub)).mono f0)
    obtain ⟨⟨r, st2⟩, hy⟩ := hr Γ sigs st1 trest
      (((hb.sub (by bsub)).mono f0).mono (compileWithCont_fresh hx))
    simp only [hx, hy]
    exact ⟨_, rfl⟩
end

end Scc.Fun2Core.Typed
