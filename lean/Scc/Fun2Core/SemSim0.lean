/-
  Scc.Fun2Core.SemSim0 — the fragment predicate `good`, facts about generated names, and helper
  lemmas shared by the simulation proofs (Scc.Fun2Core.SemSim1 …).
-/
import Scc.Fun2Core.SemDirect

namespace Scc.Fun2Core.Sem
open Scc

/-! ## the fragment -/

mutual
  /-- the terms covered by the simulation proof: no `new`, no destructor call; operands of
  operators and arguments of calls / constructors are first-order pure; no call of `main`;
  clause binders are pairwise distinct and are the names of the typed clause context -/
  def good : Fun.Term → Bool
    | .var .. => true
    | .lit _ => true
    | .op a _ b => pureFO a && pureFO b
    | .ifc _ a b t e _ => good a && good b && good t && good e
    | .ifz _ a t e _ => good a && good t && good e
    | .print _ a n _ => good a && good n
    | .letIn _ _ b i _ => good b && good i
    | .call f as _ => f != "main" && pureFOs as
    | .ctor _ as _ => pureFOs as
    | .case s _ cs _ => good s && goodClauses cs
    | .label _ t _ => good t
    | .goto _ t _ => good t
    | .exit t _ => good t
    | .paren t => good t
    | .new .. => false
    | .dtor .. => false
  def goodClauses : Fun.Clauses → Bool
    | .nil => true
    | .cons _ _ names ctx b r =>
      good b && decide names.Nodup && decide (ctx.map (·.var) = names) && goodClauses r
end

abbrev GP : Fun.Term → Prop := fun t => good t = true

/-! ## generated names -/

theorem freshNameLoop_form (used : List String) (base : String) :
    ∀ (fuel n : Nat), ∃ k : Nat, freshNameLoop used base fuel n = base ++ toString k
  | 0, n => ⟨n, rfl⟩
  | fuel + 1, n => by
    unfold freshNameLoop
    simp only
    split
    · exact freshNameLoop_form used base fuel (n + 1)
    · exact ⟨n, rfl⟩

theorem freshCovar_ne_sig (st : CompileState) : (freshCovar st).1 ≠ sig := by
  obtain ⟨k, hk⟩ := freshNameLoop_form st.usedVars "a" (st.usedVars.length + 1) 0
  simp only [freshCovar, freshName, hk]
  intro h
  have h1 := congrArg String.toList h
  simp [sig] at h1

theorem freshVar_ne_sig (st : CompileState) : (freshVar st).1 ≠ sig := by
  obtain ⟨k, hk⟩ := freshNameLoop_form st.usedVars "x" (st.usedVars.length + 1) 0
  simp only [freshVar, freshName, hk]
  intro h
  have h1 := congrArg String.toList h
  simp [sig] at h1

theorem freshCovar_not_mem (st : CompileState) : (freshCovar st).1 ∉ st.usedVars :=
  freshName_not_mem _ _

theorem freshVar_not_mem (st : CompileState) : (freshVar st).1 ∉ st.usedVars :=
  freshName_not_mem _ _

theorem freshCovar_used (st : CompileState) :
    (freshCovar st).2.usedVars = (freshCovar st).1 :: st.usedVars := rfl

theorem freshVar_used (st : CompileState) :
    (freshVar st).2.usedVars = (freshVar st).1 :: st.usedVars := rfl

/-- the used-names set only grows along a translation -/
theorem used_sub_of_fresh {st st' : CompileState} (h : Fresh st st') :
    ∀ x ∈ st.usedVars, x ∈ st'.usedVars := by
  obtain ⟨g, e, _, _⟩ := h.vars
  intro x hx
  rw [e]
  exact List.mem_append.2 (.inr hx)

/-! ## names of a translation -/

theorem TermNames.mono {t : Fun.Term} {st st' : CompileState} (h : TermNames t st)
    (hs : ∀ x ∈ st.usedVars, x ∈ st'.usedVars) (hn : sig ∉ st'.usedVars) : TermNames t st' :=
  ⟨fun x hx => hs x (h.fv x hx), fun x hx => hs x (h.bd x hx), hn⟩

theorem TermNames.fv_ne_sig {t : Fun.Term} {st : CompileState} (h : TermNames t st) :
    ∀ y ∈ Sem.fv t, y ≠ sig := fun y hy e => h.nosig (e ▸ h.fv y hy)

/-- `ς ∉ usedVars` is preserved by the translation -/
def NoSigRel (st st' : CompileState) : Prop := sig ∉ st.usedVars → sig ∉ st'.usedVars

theorem noSig_stepRel : StepRel NoSigRel where
  refl := fun _ h => h
  trans := fun h1 h2 h => h2 (h1 h)
  freshVar := fun st h => by
    rw [freshVar_used]
    simp only [List.mem_cons, not_or]
    exact ⟨fun e => freshVar_ne_sig st e.symm, h⟩
  freshCovar := fun st h => by
    rw [freshCovar_used]
    simp only [List.mem_cons, not_or]
    exact ⟨fun e => freshCovar_ne_sig st e.symm, h⟩
  share := fun c st h => by
    unfold share
    split
    · exact h
    · show sig ∉ (freshVar st).2.usedVars
      rw [freshVar_used]
      simp only [List.mem_cons, not_or]
      exact ⟨fun e => freshVar_ne_sig st e.symm, h⟩

theorem cwc_noSig {t : Fun.Term} {c st s st'} (h : compileWithCont t c st = .ok (s, st'))
    (hn : sig ∉ st.usedVars) : sig ∉ st'.usedVars :=
  (rel_term noSig_stepRel t).1 c st s st' h hn

theorem compile_noSig {t : Fun.Term} {ty st P st'} (h : compile t ty st = .ok (P, st'))
    (hn : sig ∉ st.usedVars) : sig ∉ st'.usedVars :=
  (rel_term noSig_stepRel t).2 ty st P st' h hn

/-! ## lifted definitions -/

theorem StOK.of_fresh {q : Core.Prog} {st st' : CompileState} (h : StOK q st') (hf : Fresh st st') :
    StOK q st := by
  obtain ⟨gl, new, _, _, _, e, _⟩ := hf.labels
  refine ⟨fun d hd => h.1 d ?_, by rw [← hf.codata]; exact h.2⟩
  rw [e]
  exact List.mem_append.2 (.inr hd)

/-! ## bound variables -/

theorem BoundOn.sigExt {bs : List Core.Binding} {m : Nat} {ρ ρ' : CEnv} (h : BoundOn bs ρ)
    (he : SigExt m ρ ρ') : BoundOn bs ρ' := by
  obtain ⟨ext, rfl, hx⟩ := he
  clear hx
  intro b hb
  obtain ⟨V, hV⟩ := h b hb
  induction ext with
  | nil => exact ⟨V, hV⟩
  | cons e r ih =>
    obtain ⟨y, W⟩ := e
    simp only [List.cons_append, lookup_cons]
    split
    · exact ⟨W, rfl⟩
    · exact ih

theorem BoundOn.cons {bs : List Core.Binding} {x : Core.Ident} {V : CVal} {ρ : CEnv}
    (h : BoundOn (bs.filter (·.var ≠ x)) ρ) : BoundOn bs ((x, V) :: ρ) := by
  intro b hb
  by_cases hx : x = b.var
  · exact ⟨V, by simp [lookup_cons, hx]⟩
  · rw [lookup_cons_ne hx]
    exact h b (List.mem_filter.2 ⟨hb, by simpa using fun e => hx e.symm⟩)

theorem BoundOn.cons' {bs : List Core.Binding} {x : Core.Ident} {V : CVal} {ρ : CEnv}
    (h : BoundOn bs ρ) : BoundOn bs ((x, V) :: ρ) :=
  BoundOn.cons (h.mono fun _ hb => (List.mem_filter.1 hb).1)

theorem bad_not_finished {w : Fun.Why} (h : Bad w) : ¬ Finished (.stuck w) := by
  cases w <;> simp_all [Bad, Finished]

end Scc.Fun2Core.Sem
