/-
  Scc.Fun2Core.SemSim0 — the fragment predicate `good`, facts about generated names, and helper
  lemmas shared by the simulation proofs (Scc.Fun2Core.SemSim1 …).
-/
import Scc.Fun2Core.SemDirect

namespace Scc.Fun2Core.Sem
open Scc

/-! ## the fragment -/

/-- the annotated type is present and is not a codata type -/
def ncdO (p : Fun.CheckedProgram) : Option Fun.Ty → Bool
  | some τ => !Fun.isCodataTy p τ
  | none => false

/-- the annotated type is present and is a codata type -/
def cdO (p : Fun.CheckedProgram) : Option Fun.Ty → Bool
  | some τ => Fun.isCodataTy p τ
  | none => false

/-- the annotation is present -/
def annO : Option Fun.Ty → Bool
  | some _ => true
  | none => false

theorem annO_some {ty : Option Fun.Ty} (h : annO ty = true) : ∃ τ, ty = some τ := by
  cases ty with
  | none => cases h
  | some τ => exact ⟨τ, rfl⟩

/-- the annotated type of the term is `i64` (operands of `if`, `print`, `exit`) -/
def i64T (t : Fun.Term) : Bool :=
  match getType t with
  | some .i64 => true
  | _ => false

theorem i64T_iff {t : Fun.Term} : i64T t = true ↔ getType t = some .i64 := by
  unfold i64T
  split
  · rename_i h; simp [h]
  · rename_i h
    constructor
    · intro e; cases e
    · intro e; exact absurd e (h)

mutual
  /-- the terms covered by the simulation proof (in evaluation position), as far as this is not a
  matter of typing (the typing of the machine states is carried separately, `STM` of
  Scc/Fun2Core/SemCodTyping.lean): annotations are present; operands of operators and arguments of
  calls / constructors / destructors are pure (`goodP`); a codata-typed `let` binds a variable or a
  `new`; no call of `main`; clause binders are pairwise distinct and are the names of the typed
  clause context; the operands of `if`, `print`, `exit` are annotated `i64` -/
  def good (p : Fun.CheckedProgram) : Fun.Term → Bool
    | .var _ ty _ => annO ty
    | .lit _ => true
    | .op a _ b => goodP p a && goodP p b
    | .ifc _ a b t e ty =>
      good p a && good p b && good p t && good p e && annO ty && i64T a && i64T b
    | .ifz _ a t e ty => good p a && good p t && good p e && annO ty && i64T a
    | .print _ a n ty => good p a && good p n && annO ty && i64T a
    | .letIn _ vt b i ty =>
      annO ty && good p i && (if Fun.isCodataTy p vt then goodP p b && pureS b else good p b)
    | .call f as ty => f != "main" && goodPs p as && annO ty
    | .ctor _ as ty => goodPs p as && annO ty
    | .dtor s _ _ as ty => good p s && annO s.getType && goodPs p as && annO ty
    | .case s _ cs ty => good p s && annO s.getType && goodClauses p cs && annO ty
    | .label _ t ty => good p t && annO ty
    | .goto _ t ty => good p t && annO t.getType && annO ty
    | .exit t ty => good p t && annO ty && i64T t
    | .paren t => good p t
    | .new cs ty => goodClauses p cs && annO ty
  /-- pure terms (operands, arguments, by-name bindings) -/
  def goodP (p : Fun.CheckedProgram) : Fun.Term → Bool
    | .var .. => true
    | .lit _ => true
    | .op a o b => o != .div && o != .rem && goodP p a && goodP p b
    | .ctor _ as _ => goodPs p as
    | .new cs _ => goodClauses p cs
    | .paren t => goodP p t
    | _ => false
  def goodPs (p : Fun.CheckedProgram) : Fun.Terms → Bool
    | .nil => true
    | .cons t r =>
      goodP p t &&
      (match t.getType with
        | some ty => !Fun.isCodataTy p ty || pureS t
        | none => true) && goodPs p r
  /-- clauses of a `case` or of a `new` -/
  def goodClauses (p : Fun.CheckedProgram) : Fun.Clauses → Bool
    | .nil => true
    | .cons _ _ names ctx b r =>
      good p b && annO b.getType && decide names.Nodup && decide (ctx.map (·.var) = names) &&
      goodClauses p r
end

abbrev GP (p : Fun.CheckedProgram) : Fun.Term → Prop := fun t => good p t = true

mutual
  theorem goodP_pureFO (p : Fun.CheckedProgram) : ∀ t : Fun.Term, goodP p t = true →
      pureFO p (goodClauses p) t = true
    | .var .., _ => rfl
    | .lit _, _ => rfl
    | .op a o b, h => by
      simp only [goodP, Bool.and_eq_true] at h
      simp only [pureFO, Bool.and_eq_true]
      exact ⟨⟨h.1.1, goodP_pureFO p a h.1.2⟩, goodP_pureFO p b h.2⟩
    | .ctor _ as _, h => by
      simp only [goodP] at h
      simp only [pureFO]
      exact goodPs_pureFOs p as h
    | .new cs _, h => by simpa [goodP, pureFO] using h
    | .paren t, h => by
      simp only [goodP] at h
      simp only [pureFO]
      exact goodP_pureFO p t h
    | .ifc .., h => by simp [goodP] at h
    | .ifz .., h => by simp [goodP] at h
    | .print .., h => by simp [goodP] at h
    | .letIn .., h => by simp [goodP] at h
    | .call .., h => by simp [goodP] at h
    | .dtor .., h => by simp [goodP] at h
    | .case .., h => by simp [goodP] at h
    | .label .., h => by simp [goodP] at h
    | .goto .., h => by simp [goodP] at h
    | .exit .., h => by simp [goodP] at h
  theorem goodPs_pureFOs (p : Fun.CheckedProgram) : ∀ as : Fun.Terms, goodPs p as = true →
      pureFOs p (goodClauses p) as = true
    | .nil, _ => rfl
    | .cons t r, h => by
      simp only [goodPs, Bool.and_eq_true] at h
      simp only [pureFOs, Bool.and_eq_true]
      exact ⟨⟨goodP_pureFO p t h.1.1, h.1.2⟩, goodPs_pureFOs p r h.2⟩
end

/-- the clauses accepted by `goodClauses` have good bodies, distinct binders, and agree with their
typed contexts -/
theorem goodClauses_find (p : Fun.CheckedProgram) : ∀ (cs : Fun.Clauses), goodClauses p cs = true →
    ∀ K cl, Fun.findClause K cs = some cl →
      GP p cl.body ∧ cl.names.Nodup ∧ cl.ctx.map (·.var) = cl.names
  | .nil, _, _, _, hf => by simp [Fun.findClause] at hf
  | .cons pol xtor names ctx body rest, hg, K, cl, hf => by
    simp only [goodClauses, Bool.and_eq_true, decide_eq_true_eq] at hg
    simp only [Fun.findClause] at hf
    by_cases hk : (K == xtor) = true
    · simp only [hk, if_true, Option.some.injEq] at hf
      subst hf
      exact ⟨hg.1.1.1.1, hg.1.1.2, hg.1.2⟩
    · simp only [hk] at hf
      exact goodClauses_find p rest hg.2 K cl hf

/-! ## bound variables -/

theorem BoundOn.cons {bs : List Core.Binding} {x : Core.Ident} {V : CVal} {ρ : CEnv}
    (h : BoundOn (bs.filter (·.var ≠ x)) ρ) : BoundOn bs ((x, V) :: ρ) := by
  intro b hb
  by_cases hx : x = b.var
  · exact ⟨V, by simp [lookup_cons, hx]⟩
  · rw [lookup_cons_ne hx]
    exact h b (List.mem_filter.2 ⟨hb, by simpa using fun e => hx e.symm⟩)

theorem BoundOn.cons' {bs : List Core.Binding} {x : Core.Ident} {V : CVal} {ρ : CEnv}
    (h : BoundOn bs ρ) : BoundOn bs ((x, V) :: ρ) :=
  BoundOn.cons (h.mono fun _ hb => (List.mem_filter.1 hb).1)

theorem bad_not_finished {w : Fun.Why} (h : Bad w) : ¬ Finished (.stuck w) := by
  cases w <;> simp_all [Bad, Finished]

end Scc.Fun2Core.Sem
