/-
  Scc.Fun2Core.SemCoreSteps — the focused steps of the Core ς-machine on statements whose operands
  are variables (comparison, print, exit, call), and the splits of these statements.
-/
import Scc.Fun2Core.SemCorePure

namespace Scc.Fun2Core.Sem
open Scc

variable {q : Core.Prog}

theorem step_ifc_vars {srt : Core.IfSort} {z1 z2 : Core.Ident} {t1 t2 : Core.Ty} {T E : Core.Stmt}
    {ρ : CEnv} {out : Out} {n : Nat} {a b : BitVec 64}
    (h1 : Core.Env.lookup ρ z1 = .ok (.int a)) (h2 : Core.Env.lookup ρ z2 = .ok (.int b)) (pc1 pc2) :
    Core.step q ⟨.ifc srt (.var pc1 z1 t1) (.var pc2 z2 t2) T E, ρ, out, n⟩ =
      .next ⟨if Core.compare srt a b then T else E, ρ, out, n⟩ := by
  simp [Core.step, Core.sigmaStep, Core.Stmt.split, Core.Term.isVar, lookupInt_of_lookup h1,
    lookupInt_of_lookup h2, Core.State.goto]

theorem step_ifz_var {srt : Core.IfSort} {z1 : Core.Ident} {t1 : Core.Ty} {T E : Core.Stmt}
    {ρ : CEnv} {out : Out} {n : Nat} {a : BitVec 64}
    (h1 : Core.Env.lookup ρ z1 = .ok (.int a)) (pc1) :
    Core.step q ⟨.ifz srt (.var pc1 z1 t1) T E, ρ, out, n⟩ =
      .next ⟨if Core.compare srt a 0 then T else E, ρ, out, n⟩ := by
  simp [Core.step, Core.sigmaStep, Core.Stmt.split, Core.Term.isVar, lookupInt_of_lookup h1,
    Core.State.goto]

theorem step_print_var {nl : Bool} {z1 : Core.Ident} {t1 : Core.Ty} {N : Core.Stmt}
    {ρ : CEnv} {out : Out} {n : Nat} {a : BitVec 64}
    (h1 : Core.Env.lookup ρ z1 = .ok (.int a)) (pc1) :
    Core.step q ⟨.print nl (.var pc1 z1 t1) N, ρ, out, n⟩ = .next ⟨N, ρ, out ++ [(nl, a)], n⟩ := by
  simp [Core.step, Core.sigmaStep, Core.Stmt.split, Core.Term.isVar, lookupInt_of_lookup h1]

theorem step_exit_var {z1 : Core.Ident} {t1 ty : Core.Ty}
    {ρ : CEnv} {out : Out} {n : Nat} {a : BitVec 64}
    (h1 : Core.Env.lookup ρ z1 = .ok (.int a)) (pc1) :
    Core.step q ⟨.exit (.var pc1 z1 t1) ty, ρ, out, n⟩ = .final (.done a) := by
  simp [Core.step, Core.sigmaStep, Core.Stmt.split, Core.Term.isVar, lookupInt_of_lookup h1]

theorem step_call_vars {f : Core.Ident} {as : Core.Args} {ty : Core.Ty} {ρ ρ' : CEnv} {out : Out}
    {n : Nat} {d : Core.Def} {vs : List CVal} (hall : argsAllVar as = true)
    (hd : q.defs.find? (fun d => d.name = f) = some d) (hv : Core.argVals ρ as = .ok vs)
    (hb : Core.Env.bind [] d.ctx vs = .ok ρ') :
    Core.step q ⟨.call f as ty, ρ, out, n⟩ = .next ⟨d.body, ρ', out, n⟩ := by
  simp [Core.step, Core.sigmaStep, Core.Stmt.split, args_split_allVar as hall, hd, hv, hb,
    Core.State.goto]

/-! ## splits -/

theorem split_ifc1 {srt : Core.IfSort} {A B : Core.Term} {T E : Core.Stmt} (hA : A.isVar = false) :
    (Core.Stmt.ifc srt A B T E).split = some (.prd, A, fun h => .ifc srt h B T E) := by
  simp [Core.Stmt.split, hA]

theorem split_ifc2 {srt : Core.IfSort} {A B : Core.Term} {T E : Core.Stmt} (hA : A.isVar = true)
    (hB : B.isVar = false) :
    (Core.Stmt.ifc srt A B T E).split = some (.prd, B, fun h => .ifc srt A h T E) := by
  simp [Core.Stmt.split, hA, hB]

theorem split_ifz {srt : Core.IfSort} {A : Core.Term} {T E : Core.Stmt} (hA : A.isVar = false) :
    (Core.Stmt.ifz srt A T E).split = some (.prd, A, fun h => .ifz srt h T E) := by
  simp [Core.Stmt.split, hA]

theorem split_print {nl : Bool} {A : Core.Term} {N : Core.Stmt} (hA : A.isVar = false) :
    (Core.Stmt.print nl A N).split = some (.prd, A, fun h => .print nl h N) := by
  simp [Core.Stmt.split, hA]

theorem split_exit {A : Core.Term} {ty : Core.Ty} (hA : A.isVar = false) :
    (Core.Stmt.exit A ty).split = some (.prd, A, fun h => .exit h ty) := by
  simp [Core.Stmt.split, hA]

end Scc.Fun2Core.Sem
