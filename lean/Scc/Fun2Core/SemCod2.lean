/-
  Scc.Fun2Core.SemCod2 — `focus_cons`: the ς-machine replaces a consumer ARGUMENT (the continuation
  argument of a call or of a destructor) by a variable bound to its value.  At a type that is not
  codata the `μ`-abstraction of the rest of the statement is bound to the value of the consumer at
  once; at a codata type the abstraction is suspended as a thunk and the consumer is forced
  (`Forced`, an induction hypothesis here), after which the thunk is entered with the covariable
  bound to a destructor value.
-/
import Scc.Fun2Core.SemCod1

namespace Scc.Fun2Core.Sem
open Scc Scc.Fun2Core.Typed

variable {q : Core.Prog} {p : Fun.CheckedProgram}

theorem coreGetType_ty (c : Core.Term) : coreGetType c = c.ty := by
  cases c <;> rfl

/-- the statement `Sx c` has the consumer `c` in its leftmost non-variable position; the machine
reaches `Sx a` with `a` bound to a consumer value related to the stack `k` -/
theorem focus_cons {n : Nat} {k : Fun.Stack} {c : Core.Term} {ρ0 ρ : CEnv}
    (hr : CRel (GP p) p q n k c ρ0) {m : Nat} (hnm : n ≤ m)
    (hsig : ∀ b ∈ tfvTerm c [], b.var.name = sig → b.var.id < m)
    (hag : AgreeOn (tfvTerm c []) ρ0 ρ)
    (Sx : Core.Term → Core.Stmt) (hsp : c.isVar = false → (Sx c).split = some (.cns, c, Sx))
    (out : Out)
    (IH : Core.isCodata q.codataTypes (coreGetType c) = true → c.isVar = false →
      ∀ a s, Forced p q k c.ty (.mu .prd a c.ty s) c ρ out (m + 1)) :
    ∃ i ρ' m' pc z tz cv, CSteps q ⟨Sx c, ρ, out, m⟩ ⟨Sx (.var pc z tz), ρ', out, m'⟩ i ∧ m ≤ m' ∧
      SigExt m ρ ρ' ∧ Core.Env.lookup ρ' z = .ok cv ∧ (z.name = sig → z.id < m') ∧
      KAny (GP p) p q m' k cv := by
  cases hv : c.isVar with
  | true =>
    cases c with
    | var pc z tz =>
      have hr' := hr.agree hag
      refine ⟨0, ρ, m, pc, z, tz, ?_⟩
      cases hr' with
      | mk hcv hk _ _ _ =>
        exact ⟨_, .refl _, Nat.le_refl _, .refl _ _, by simpa [Core.cnsVal] using hcv,
          hsig _ (mem_tfv_var.2 rfl), .nc (hk.mono hnm)⟩
      | mkD hcv hk _ _ _ =>
        exact ⟨_, .refl _, Nat.le_refl _, .refl _ _, by simpa [Core.cnsVal] using hcv,
          hsig _ (mem_tfv_var.2 rfl), .cd (hk.mono hnm)⟩
    | _ => simp [Core.Term.isVar] at hv
  | false =>
    have s1 := step_sigma (q := q) (st := ⟨Sx c, ρ, out, m⟩) (hsp hv)
    simp only [Core.sigmaCut] at s1
    cases hcd : Core.isCodata q.codataTypes (coreGetType c) with
    | false =>
      have hr' := hr.agree hag
      cases hr' with
      | mk hcv hk hi _ _ =>
        have s2 := step_cut_mu (q := q) (cty := c.ty) (ty := c.ty)
          (by rw [← coreGetType_ty]; exact hcd) (a := Core.sigmaName m)
          (s := Sx (.var .cns (Core.sigmaName m) c.ty)) (ρ := ρ) (out := out) (n := m + 1) hi hcv .prd
        exact ⟨2, (Core.sigmaName m, _) :: ρ, m + 1, .cns, Core.sigmaName m, c.ty, _,
          (CSteps.one s1).trans (.one s2), Nat.le_succ _, (SigExt.refl m ρ).cons (Nat.le_refl m),
          lookup_cons_self _ _ _, fun _ => by simp [sigmaName_id], .nc (hk.mono (by omega))⟩
      | mkD _ _ _ _ hty => rw [hty] at hcd; cases hcd
      | dtor _ _ _ _ _ _ _ _ _ _ _ hty => simp only [coreGetType] at hcd; rw [hty] at hcd; cases hcd
    | true =>
      obtain ⟨i, S1, ρ1, pv, d, Vs, hc, ho, hm1, hext, hpv, hs, hk⟩ :=
        IH hcd hv (Core.sigmaName m) (Sx (.var .cns (Core.sigmaName m) c.ty))
      simp only [Core.prdVal, Except.ok.injEq] at hpv
      subst hpv
      rw [invoke_thunk] at hs
      refine ⟨1 + i + 1, (Core.sigmaName m, .dtor ⟨d, 0⟩ Vs) :: ρ1, S1.fresh, .cns, Core.sigmaName m,
        c.ty, _, ?_, by omega, (hext.mono (Nat.le_succ m)).cons (Nat.le_refl m),
        lookup_cons_self _ _ _, fun _ => by simp only [sigmaName_id]; omega, .cd hk⟩
      have hlast : CSteps q S1 ⟨Sx (.var .cns (Core.sigmaName m) c.ty),
          (Core.sigmaName m, .dtor ⟨d, 0⟩ Vs) :: ρ1, out, S1.fresh⟩ 1 := by
        refine .one ?_
        rw [hs, ho]
      exact ((CSteps.one s1).trans hc).trans hlast

end Scc.Fun2Core.Sem
