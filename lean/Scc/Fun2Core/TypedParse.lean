/-
  Scc.Fun2Core.TypedParse — proof file (C12, source level): what lexer + parser accept satisfies the
  side conditions under which the links of C12 about fun2core are theorems.  From
  `Scc.Fun.Print.parseChars_good` (C16-T3: the parser's output is in the image of the grammar and all
  its names are identifiers of the right case):
    * `programNamesOk_of_parse`  names contain no `[`, `]`, `,`, blank and are not `i64`  (`programNamesOk`)
    * `binders_lower_of_parse`   every parameter / binder of the CHECKED program is a lower-case identifier
                                 (through `DefsErase`: the checker keeps binders), hence not `ς`
    * `instances_upper_of_parse` every instance declaration of the checked program is named by an
                                 upper-case identifier followed by the printed type arguments, hence not `_Cont`
-/
import Scc.Fun.ParseInRange
import Scc.Fun.CheckSound6
import Scc.Fun2Core.Fresh

namespace Scc.Fun2Core.Typed
open Scc Scc.Fun Scc.Fun.Lex Scc.Fun.Print Scc.Fun.Check
open Scc.Fun.Typing (Erases ArgsErase ClausesErase DefsErase)

/-! ## identifiers are names in the sense of the checker -/

theorem idC_ok {c : Char} (h : isIdC c = true) : (!(isDelim c || c == ' ')) = true := by
  have h1 : c ≠ '[' := by rintro rfl; revert h; decide
  have h2 : c ≠ ']' := by rintro rfl; revert h; decide
  have h3 : c ≠ ',' := by rintro rfl; revert h; decide
  have h4 : c ≠ ' ' := by rintro rfl; revert h; decide
  simp [isDelim, h1, h2, h3, h4]

theorem upperC_idC {c : Char} (h : isUpperC c = true) : isIdC c = true := by simp [isIdC, h]
theorem lowerC_idC {c : Char} (h : isLowerC c = true) : isIdC c = true := by simp [isIdC, h]

theorem nameOk_of_upper {n : String} (h : upperName n.toList = true) : nameOk n = true := by
  unfold nameOk
  cases hn : n.toList with
  | nil => rw [hn] at h; simp [upperName] at h
  | cons c r =>
    rw [hn] at h
    simp only [upperName, Bool.and_eq_true, List.all_eq_true] at h
    simp only [List.all_cons, Bool.and_eq_true, List.all_eq_true, bne_iff_ne, ne_eq]
    refine ⟨⟨idC_ok (upperC_idC h.1), fun x hx => idC_ok (h.2 x hx)⟩, ?_⟩
    intro e
    injection e with e1 _
    subst e1
    exact absurd h.1 (by decide)

theorem nameOk_of_lower {n : String} (h : lowerName n.toList = true) : nameOk n = true := by
  unfold nameOk
  cases hn : n.toList with
  | nil => rw [hn] at h; simp [lowerName] at h
  | cons c r =>
    rw [hn] at h
    simp only [lowerName, Bool.and_eq_true, List.all_eq_true] at h
    simp only [List.all_cons, Bool.and_eq_true, List.all_eq_true, bne_iff_ne, ne_eq]
    refine ⟨⟨idC_ok (lowerC_idC h.1.1), fun x hx => idC_ok (h.1.2 x hx)⟩, ?_⟩
    intro e
    rw [e] at h
    exact absurd h.2 (by decide)

mutual
  theorem tyNamesOk_of_wf : ∀ (t : Ty), WfTy t → tyNamesOk t = true
    | .i64, _ => rfl
    | .decl n as, h => by
      simp only [Print.WfTy] at h
      simp only [tyNamesOk, Bool.and_eq_true]
      exact ⟨nameOk_of_upper h.1, tysNamesOk_of_wf as h.2⟩
  theorem tysNamesOk_of_wf : ∀ (ts : Tys), WfTys ts → tysNamesOk ts = true
    | .nil, _ => rfl
    | .cons t r, h => by
      simp only [Print.WfTys] at h
      simp only [tysNamesOk, Bool.and_eq_true]
      exact ⟨tyNamesOk_of_wf t h.1, tysNamesOk_of_wf r h.2⟩
end

theorem ctxNamesOk_of_wf {c : Ctx} (h : ∀ b ∈ c, WfBinding b) : ctxNamesOk c = true := by
  simp only [ctxNamesOk, List.all_eq_true]
  exact fun b hb => tyNamesOk_of_wf b.ty (h b hb).2

mutual
  theorem termNamesOk_of : ∀ (t : Term), NamesOk t → InRange t → termNamesOk t = true
    | .var _ ty _, _, hr => by
      simp only [InRange] at hr
      simp [termNamesOk, hr.1]
    | .lit _, _, _ => rfl
    | .op a _ b, hn, hr => by
      simp only [NamesOk] at hn
      simp only [InRange] at hr
      simp [termNamesOk, termNamesOk_of a hn.1 hr.1, termNamesOk_of b hn.2 hr.2.1]
    | .ifc _ a b t e _, hn, hr => by
      simp only [NamesOk] at hn
      simp only [InRange] at hr
      simp [termNamesOk, termNamesOk_of a hn.1 hr.1, termNamesOk_of b hn.2.1 hr.2.1,
        termNamesOk_of t hn.2.2.1 hr.2.2.1, termNamesOk_of e hn.2.2.2 hr.2.2.2.1]
    | .ifz _ a t e _, hn, hr => by
      simp only [NamesOk] at hn
      simp only [InRange] at hr
      simp [termNamesOk, termNamesOk_of a hn.1 hr.1, termNamesOk_of t hn.2.1 hr.2.1,
        termNamesOk_of e hn.2.2 hr.2.2.1]
    | .print _ a n _, hn, hr => by
      simp only [NamesOk] at hn
      simp only [InRange] at hr
      simp [termNamesOk, termNamesOk_of a hn.1 hr.1, termNamesOk_of n hn.2 hr.2.1]
    | .letIn _ σ b i _, hn, hr => by
      simp only [NamesOk] at hn
      simp only [InRange] at hr
      simp [termNamesOk, tyNamesOk_of_wf σ hn.2.1, termNamesOk_of b hn.2.2.1 hr.1,
        termNamesOk_of i hn.2.2.2 hr.2.1]
    | .call _ as _, hn, hr => by
      simp only [NamesOk] at hn
      simp only [InRange] at hr
      simp [termNamesOk, argsNamesOk_of as hn.2 hr.1]
    | .ctor k as _, hn, hr => by
      simp only [NamesOk] at hn
      simp only [InRange] at hr
      simp [termNamesOk, nameOk_of_upper hn.1, argsNamesOk_of as hn.2 hr.1]
    | .dtor s d tas as _, hn, hr => by
      simp only [NamesOk] at hn
      simp only [InRange] at hr
      simp [termNamesOk, nameOk_of_lower hn.2.1, tysNamesOk_of_wf tas hn.2.2.1,
        termNamesOk_of s hn.1 hr.1, argsNamesOk_of as hn.2.2.2 hr.2.2.1]
    | .case s tas cs _, hn, hr => by
      simp only [NamesOk] at hn
      simp only [InRange] at hr
      simp [termNamesOk, tysNamesOk_of_wf tas hn.2.1, termNamesOk_of s hn.1 hr.1,
        clausesNamesOk_of .data cs hn.2.2 hr.2.2.1]
    | .new cs _, hn, hr => by
      simp only [NamesOk] at hn
      simp only [InRange] at hr
      simp [termNamesOk, clausesNamesOk_of .codata cs hn hr.1]
    | .label _ t _, hn, hr => by
      simp only [NamesOk] at hn
      simp only [InRange] at hr
      simp [termNamesOk, termNamesOk_of t hn.2 hr.1]
    | .goto _ t _, hn, hr => by
      simp only [NamesOk] at hn
      simp only [InRange] at hr
      simp [termNamesOk, termNamesOk_of t hn.2 hr.1]
    | .exit t _, hn, hr => by
      simp only [NamesOk] at hn
      simp only [InRange] at hr
      simp [termNamesOk, termNamesOk_of t hn hr.1]
    | .paren t, hn, hr => by
      simp only [NamesOk] at hn
      simp only [InRange] at hr
      simp [termNamesOk, termNamesOk_of t hn hr]
  theorem argsNamesOk_of : ∀ (as : Terms), NamesOks as → InRanges as → argsNamesOk as = true
    | .nil, _, _ => rfl
    | .cons t r, hn, hr => by
      simp only [NamesOks] at hn
      simp only [InRanges] at hr
      simp [argsNamesOk, termNamesOk_of t hn.1 hr.1, argsNamesOk_of r hn.2 hr.2]
  theorem clausesNamesOk_of (pol : Polarity) : ∀ (cs : Clauses), NamesOkCs cs → InRangeCs pol cs →
      clausesNamesOk cs = true
    | .nil, _, _ => rfl
    | .cons p x ns c b r, hn, hr => by
      simp only [NamesOkCs] at hn
      simp only [InRangeCs] at hr
      have hx : nameOk x = true := by
        have := hn.1
        unfold xtorName at this
        cases p
        · exact nameOk_of_upper this
        · exact nameOk_of_lower this
      simp [clausesNamesOk, hx, termNamesOk_of b hn.2.2.1 hr.2.2.1,
        clausesNamesOk_of pol r hn.2.2.2 hr.2.2.2]
end

theorem programNamesOk_of_good {p : Program} (hr : InRangeProg p) (hn : NamesOkProg p) :
    programNamesOk p = true := by
  simp only [programNamesOk, List.all_eq_true]
  intro d hd
  have h1 := hn d hd
  have h2 := hr d hd
  cases d with
  | data d =>
    simp only [NamesOkDecl] at h1
    simp only [declNamesOk, Bool.and_eq_true, List.all_eq_true]
    exact ⟨nameOk_of_upper h1.1, fun c hc =>
      ⟨nameOk_of_upper (h1.2.2 c hc).1, ctxNamesOk_of_wf (h1.2.2 c hc).2⟩⟩
  | codata d =>
    simp only [NamesOkDecl] at h1
    simp only [declNamesOk, Bool.and_eq_true, List.all_eq_true]
    exact ⟨nameOk_of_upper h1.1, fun c hc =>
      ⟨⟨nameOk_of_lower (h1.2.2 c hc).1, ctxNamesOk_of_wf (h1.2.2 c hc).2.1⟩,
        tyNamesOk_of_wf _ (h1.2.2 c hc).2.2⟩⟩
  | defn d =>
    simp only [NamesOkDecl] at h1
    simp only [InRangeDecl] at h2
    simp only [declNamesOk, Bool.and_eq_true]
    exact ⟨⟨ctxNamesOk_of_wf h1.2.1, tyNamesOk_of_wf _ h1.2.2.1⟩, termNamesOk_of d.body h1.2.2.2 h2⟩

/-- **what the parser accepts has identifier names** -/
theorem programNamesOk_of_parse {mode : Parse.LiteralMode} {src : String} {p : Program}
    (h : Parse.parse mode src = .ok p) : programNamesOk p = true := by
  obtain ⟨hr, hn⟩ := parseChars_good (cs := src.toList) h
  exact programNamesOk_of_good hr hn

/-! ## binders of the source are lower-case identifiers -/

mutual
  theorem binders_lower : ∀ (t : Term), NamesOk t → ∀ x ∈ binderNames t, lowerName x.toList = true
    | .var _ _ _, _, x, hx => by simp [binderNames] at hx
    | .lit _, _, x, hx => by simp [binderNames] at hx
    | .op a _ b, hn, x, hx => by
      simp only [NamesOk] at hn
      simp only [binderNames, List.mem_append] at hx
      rcases hx with hx | hx
      · exact binders_lower a hn.1 x hx
      · exact binders_lower b hn.2 x hx
    | .ifc _ a b t e _, hn, x, hx => by
      simp only [NamesOk] at hn
      simp only [binderNames, List.mem_append] at hx
      rcases hx with ((hx | hx) | hx) | hx
      · exact binders_lower a hn.1 x hx
      · exact binders_lower b hn.2.1 x hx
      · exact binders_lower t hn.2.2.1 x hx
      · exact binders_lower e hn.2.2.2 x hx
    | .ifz _ a t e _, hn, x, hx => by
      simp only [NamesOk] at hn
      simp only [binderNames, List.mem_append] at hx
      rcases hx with (hx | hx) | hx
      · exact binders_lower a hn.1 x hx
      · exact binders_lower t hn.2.1 x hx
      · exact binders_lower e hn.2.2 x hx
    | .print _ a n _, hn, x, hx => by
      simp only [NamesOk] at hn
      simp only [binderNames, List.mem_append] at hx
      rcases hx with hx | hx
      · exact binders_lower a hn.1 x hx
      · exact binders_lower n hn.2 x hx
    | .letIn y _ b i _, hn, x, hx => by
      simp only [NamesOk] at hn
      simp only [binderNames, List.mem_cons, List.mem_append] at hx
      rcases hx with rfl | hx | hx
      · exact hn.1
      · exact binders_lower b hn.2.2.1 x hx
      · exact binders_lower i hn.2.2.2 x hx
    | .call _ as _, hn, x, hx => by
      simp only [NamesOk] at hn
      exact bindersArgs_lower as hn.2 x (by simpa [binderNames] using hx)
    | .ctor _ as _, hn, x, hx => by
      simp only [NamesOk] at hn
      exact bindersArgs_lower as hn.2 x (by simpa [binderNames] using hx)
    | .dtor s _ _ as _, hn, x, hx => by
      simp only [NamesOk] at hn
      simp only [binderNames, List.mem_append] at hx
      rcases hx with hx | hx
      · exact binders_lower s hn.1 x hx
      · exact bindersArgs_lower as hn.2.2.2 x hx
    | .case s _ cs _, hn, x, hx => by
      simp only [NamesOk] at hn
      simp only [binderNames, List.mem_append] at hx
      rcases hx with hx | hx
      · exact binders_lower s hn.1 x hx
      · exact bindersClauses_lower cs hn.2.2 x hx
    | .new cs _, hn, x, hx => by
      simp only [NamesOk] at hn
      exact bindersClauses_lower cs hn x (by simpa [binderNames] using hx)
    | .label a t _, hn, x, hx => by
      simp only [NamesOk] at hn
      simp only [binderNames, List.mem_cons] at hx
      rcases hx with rfl | hx
      · exact hn.1
      · exact binders_lower t hn.2 x hx
    | .goto _ t _, hn, x, hx => by
      simp only [NamesOk] at hn
      exact binders_lower t hn.2 x (by simpa [binderNames] using hx)
    | .exit t _, hn, x, hx => by
      simp only [NamesOk] at hn
      exact binders_lower t hn x (by simpa [binderNames] using hx)
    | .paren t, hn, x, hx => by
      simp only [NamesOk] at hn
      exact binders_lower t hn x (by simpa [binderNames] using hx)
  theorem bindersArgs_lower : ∀ (as : Terms), NamesOks as →
      ∀ x ∈ binderNamesArgs as, lowerName x.toList = true
    | .nil, _, x, hx => by simp [binderNamesArgs] at hx
    | .cons t r, hn, x, hx => by
      simp only [NamesOks] at hn
      simp only [binderNamesArgs, List.mem_append] at hx
      rcases hx with hx | hx
      · exact binders_lower t hn.1 x hx
      · exact bindersArgs_lower r hn.2 x hx
  theorem bindersClauses_lower : ∀ (cs : Clauses), NamesOkCs cs →
      ∀ x ∈ binderNamesClauses cs, lowerName x.toList = true
    | .nil, _, x, hx => by simp [binderNamesClauses] at hx
    | .cons _ _ ns _ b r, hn, x, hx => by
      simp only [NamesOkCs] at hn
      simp only [binderNamesClauses, List.mem_append] at hx
      rcases hx with (hx | hx) | hx
      · exact hn.2.1 x hx
      · exact binders_lower b hn.2.2.1 x hx
      · exact bindersClauses_lower r hn.2.2.2 x hx
end

/-! ## the checker keeps the binders (`Erases`) -/

/-- binder names of a list of clauses -/
def clauseListBinders (l : List Clause) : List String :=
  l.flatMap fun c => c.names ++ binderNames c.body

theorem binderNamesClauses_eq : ∀ (cs : Clauses),
    ∀ x, x ∈ binderNamesClauses cs ↔ x ∈ clauseListBinders cs.toList
  | .nil, x => by simp [binderNamesClauses, clauseListBinders, Clauses.toList]
  | .cons p k ns c b r, x => by
    have ih := binderNamesClauses_eq r x
    simp only [binderNamesClauses, clauseListBinders, Clauses.toList, List.flatMap_cons,
      List.mem_append] at ih ⊢
    rw [ih]

mutual
  theorem erases_binders : ∀ {t' t : Term}, Erases t' t → ∀ x ∈ binderNames t', x ∈ binderNames t
    | _, _, .var, x, hx => by simp [binderNames] at hx
    | _, _, .lit, x, hx => hx
    | _, _, .op ha hb, x, hx => by
      simp only [binderNames, List.mem_append] at hx ⊢
      exact hx.imp (erases_binders ha x) (erases_binders hb x)
    | _, _, .ifc ha hb ht he, x, hx => by
      simp only [binderNames, List.mem_append] at hx ⊢
      exact hx.imp (fun h => h.imp (fun h => h.imp (erases_binders ha x) (erases_binders hb x))
        (erases_binders ht x)) (erases_binders he x)
    | _, _, .ifz ha ht he, x, hx => by
      simp only [binderNames, List.mem_append] at hx ⊢
      exact hx.imp (fun h => h.imp (erases_binders ha x) (erases_binders ht x)) (erases_binders he x)
    | _, _, .print ha hn, x, hx => by
      simp only [binderNames, List.mem_append] at hx ⊢
      exact hx.imp (erases_binders ha x) (erases_binders hn x)
    | _, _, .letIn hb hi, x, hx => by
      simp only [binderNames, List.mem_cons, List.mem_append] at hx ⊢
      exact hx.imp id (fun h => h.imp (erases_binders hb x) (erases_binders hi x))
    | _, _, .call ha, x, hx => by
      simp only [binderNames] at hx ⊢
      exact argsErase_binders ha x hx
    | _, _, .ctor ha, x, hx => by
      simp only [binderNames] at hx ⊢
      exact argsErase_binders ha x hx
    | _, _, .dtor hs ha, x, hx => by
      simp only [binderNames, List.mem_append] at hx ⊢
      exact hx.imp (erases_binders hs x) (argsErase_binders ha x)
    | _, _, .case hs hc, x, hx => by
      simp only [binderNames, List.mem_append] at hx ⊢
      exact hx.imp (erases_binders hs x) (clausesErase_binders hc x)
    | _, _, .new hc, x, hx => by
      simp only [binderNames] at hx ⊢
      exact clausesErase_binders hc x hx
    | _, _, .label ht, x, hx => by
      simp only [binderNames, List.mem_cons] at hx ⊢
      exact hx.imp id (erases_binders ht x)
    | _, _, .goto ht, x, hx => by
      simp only [binderNames] at hx ⊢
      exact erases_binders ht x hx
    | _, _, .exit ht, x, hx => by
      simp only [binderNames] at hx ⊢
      exact erases_binders ht x hx
    | _, _, .paren ht, x, hx => by
      simp only [binderNames] at hx ⊢
      exact erases_binders ht x hx
  theorem argsErase_binders : ∀ {as' as : Terms}, ArgsErase as' as →
      ∀ x ∈ binderNamesArgs as', x ∈ binderNamesArgs as
    | _, _, .nil, x, hx => hx
    | _, _, .cons ht hr, x, hx => by
      simp only [binderNamesArgs, List.mem_append] at hx ⊢
      exact hx.imp (erases_binders ht x) (argsErase_binders hr x)
  theorem clausesErase_binders : ∀ {cs' cs : Clauses}, ClausesErase cs' cs →
      ∀ x ∈ binderNamesClauses cs', x ∈ binderNamesClauses cs
    | _, _, .nil, x, hx => hx
    | _, cs, .cons (pol := pol) (x := k) (ns := ns) (c := c) (b := b) pre post hsplit hb hr, x, hx => by
      rw [binderNamesClauses_eq cs x, hsplit]
      simp only [binderNamesClauses, List.mem_append] at hx
      simp only [clauseListBinders, List.flatMap_append, List.flatMap_cons, List.mem_append]
      rcases hx with (hx | hx) | hx
      · exact .inr (.inl (.inl hx))
      · exact .inr (.inl (.inr (erases_binders hb x hx)))
      · have := clausesErase_binders hr x hx
        rw [binderNamesClauses_eq, toList_ofList_clauses] at this
        simp only [clauseListBinders, List.flatMap_append, List.mem_append] at this
        rcases this with h | h
        · exact .inl h
        · exact .inr (.inr h)
end

theorem lower_ne_sigma {x : String} (h : lowerName x.toList = true) : x ≠ "ς" := by
  rintro rfl
  revert h
  decide

theorem upper_append_ne_cont {n s : String} (h : upperName n.toList = true) : n ++ s ≠ "_Cont" := by
  intro e
  have e' := congrArg String.toList e
  rw [String.toList_append] at e'
  cases hn : n.toList with
  | nil => rw [hn] at h; simp [upperName] at h
  | cons c r =>
    rw [hn] at h e'
    simp only [upperName, Bool.and_eq_true] at h
    have : "_Cont".toList = ['_', 'C', 'o', 'n', 't'] := by decide
    rw [this] at e'
    injection e' with e1 _
    subst e1
    exact absurd h.1 (by decide)

/-- the parameters and binders of the checked program of a parsed source are lower-case identifiers -/
theorem binders_lower_of_parse {mode : Parse.LiteralMode} {src : String} {p : Program}
    {p' : CheckedProgram} (h : Parse.parse mode src = .ok p) (hc : checkProgram p = .ok p') :
    ∀ d ∈ p'.defs, (∀ b ∈ d.ctx, lowerName b.var.toList = true) ∧
      ∀ x ∈ binderNames d.body, lowerName x.toList = true := by
  obtain ⟨hr, hn⟩ := parseChars_good (cs := src.toList) h
  obtain ⟨_, hers, _, _⟩ := checkProgramR_sound (programNamesOk_of_good hr hn) (checkProgram_ok_iff.mp hc)
  have key : ∀ {fs' fs : List Def}, DefsErase fs' fs → (∀ f ∈ fs, Decl.defn f ∈ p.decls) →
      ∀ d ∈ fs', (∀ b ∈ d.ctx, lowerName b.var.toList = true) ∧
        ∀ x ∈ binderNames d.body, lowerName x.toList = true := by
    intro fs' fs he
    induction he with
    | nil => intro _ d hd; simp at hd
    | @cons d' d0 r' r e1 e2 e3 e4 _ ih =>
      intro hsub d hd
      rcases List.mem_cons.1 hd with rfl | hd
      · have h0 := hn _ (hsub d0 (by simp))
        simp only [NamesOkDecl] at h0
        refine ⟨?_, fun x hx => binders_lower d0.body h0.2.2.2 x (erases_binders e4 x hx)⟩
        intro b hb
        rw [e2] at hb
        exact (h0.2.1 b hb).1
      · exact ih (fun f hf => hsub f (by simp [hf])) d hd
  exact key hers (fun f hf => mem_defs.1 hf)

/-- the instance declarations of the checked program of a parsed source are named by an upper-case
identifier followed by the printed type arguments -/
theorem instances_upper_of_parse {mode : Parse.LiteralMode} {src : String} {p : Program}
    {p' : CheckedProgram} (h : Parse.parse mode src = .ok p) (hc : checkProgram p = .ok p') :
    (∀ d ∈ p'.dataTypes, d.name ≠ "_Cont") ∧ (∀ d ∈ p'.codataTypes, d.name ≠ "_Cont") := by
  obtain ⟨hr, hn⟩ := parseChars_good (cs := src.toList) h
  obtain ⟨_, _, hinst, _⟩ := checkProgramR_sound (programNamesOk_of_good hr hn) (checkProgram_ok_iff.mp hc)
  refine ⟨?_, ?_⟩
  · intro d' hd'
    obtain ⟨d, hd, ta, _, _, hname, _⟩ := hinst.1 d' hd'
    have h0 := hn _ (mem_datas.1 hd)
    simp only [NamesOkDecl] at h0
    rw [hname]
    exact upper_append_ne_cont h0.1
  · intro d' hd'
    obtain ⟨d, hd, ta, _, _, hname, _⟩ := hinst.2 d' hd'
    have h0 := hn _ (mem_codatas.1 hd)
    simp only [NamesOkDecl] at h0
    rw [hname]
    exact upper_append_ne_cont h0.1

end Scc.Fun2Core.Typed
