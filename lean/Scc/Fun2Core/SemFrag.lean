/-
  Scc.Fun2Core.SemFrag — the decidable description of the fragment for which the semantic part of
  C02 is proved, in terms of the predicates used by the checks (`Fun.Sequenced`, `Fun.noMainCall`)
  and a predicate `fragT` on annotated terms:
    * every term in evaluation position (definition / clause bodies, branches, bound terms of
      integer/data `let`s, scrutinees of `case`, operands) has an integer or data type;
    * codata values are created by `new`, bound by codata-typed `let`s to variables or `new`s, and
      passed as arguments; the scrutinee of a destructor call is a variable or a `new`;
    * clause binders are pairwise distinct and are the names of the typed clause context.
-/
import Scc.Fun2Core.SemMain
import Scc.Fun.MainCall

namespace Scc.Fun2Core.Sem
open Scc

mutual
  /-- terms in evaluation position -/
  def fragT (p : Fun.CheckedProgram) : Fun.Term → Bool
    | .var _ ty _ => ncdO p ty
    | .lit _ => true
    | .op a _ b => fragP p a && fragP p b
    | .ifc _ a b t e ty => fragT p a && fragT p b && fragT p t && fragT p e && ncdO p ty
    | .ifz _ a t e ty => fragT p a && fragT p t && fragT p e && ncdO p ty
    | .print _ a n ty => fragT p a && fragT p n && ncdO p ty
    | .letIn _ vt b i ty =>
      ncdO p ty && fragT p i && (if Fun.isCodataTy p vt then fragP p b && pureS b else fragT p b)
    | .call _ as ty => fragPs p as && ncdO p ty
    | .ctor _ as ty => fragPs p as && ncdO p ty
    | .dtor s _ _ as ty => pureS s && fragP p s && cdO p s.getType && fragPs p as && ncdO p ty
    | .case s _ cs ty => fragT p s && ncdO p s.getType && fragCs p cs && ncdO p ty
    | .label _ t ty => fragT p t && ncdO p ty
    | .goto _ t ty => fragT p t && ncdO p t.getType && ncdO p ty
    | .exit t ty => fragT p t && ncdO p ty
    | .paren t => fragT p t
    | .new .. => false
  /-- terms in operand / argument / by-name position (purity itself is part of `Sequenced`) -/
  def fragP (p : Fun.CheckedProgram) : Fun.Term → Bool
    | .var .. => true
    | .lit _ => true
    | .op a _ b => fragP p a && fragP p b
    | .ctor _ as _ => fragPs p as
    | .new cs _ => fragCs p cs
    | .paren t => fragP p t
    | _ => false
  def fragPs (p : Fun.CheckedProgram) : Fun.Terms → Bool
    | .nil => true
    | .cons t r =>
      fragP p t &&
      (match t.getType with
        | some ty => !Fun.isCodataTy p ty || pureS t
        | none => true) && fragPs p r
  def fragCs (p : Fun.CheckedProgram) : Fun.Clauses → Bool
    | .nil => true
    | .cons _ _ names ctx b r =>
      fragT p b && ncdO p b.getType && decide names.Nodup && decide (ctx.map (·.var) = names) &&
      fragCs p r
end

theorem pureS_pure : ∀ s : Fun.Term, pureS s = true → Fun.pureTerm s = true
  | .var .., _ => rfl
  | .new .., _ => rfl
  | .paren t, h => by
    simp only [Fun.pureTerm]
    exact pureS_pure t (by simpa [pureS] using h)
  | .lit _, h => by simp [pureS] at h
  | .op .., h => by simp [pureS] at h
  | .ifc .., h => by simp [pureS] at h
  | .ifz .., h => by simp [pureS] at h
  | .print .., h => by simp [pureS] at h
  | .letIn .., h => by simp [pureS] at h
  | .call .., h => by simp [pureS] at h
  | .ctor .., h => by simp [pureS] at h
  | .dtor .., h => by simp [pureS] at h
  | .case .., h => by simp [pureS] at h
  | .label .., h => by simp [pureS] at h
  | .goto .., h => by simp [pureS] at h
  | .exit .., h => by simp [pureS] at h

mutual
  theorem good_of (p : Fun.CheckedProgram) : ∀ t : Fun.Term, Fun.seqTerm p t = true →
      fragT p t = true → t.callsMain = false → good p t = true
    | .var .., _, hf, _ => by simpa [fragT, good] using hf
    | .lit _, _, _, _ => rfl
    | .op a o b, hs, hf, hm => by
      simp only [Fun.seqTerm, Bool.and_eq_true] at hs
      simp only [fragT, Bool.and_eq_true] at hf
      simp only [Fun.Term.callsMain, Bool.or_eq_false_iff] at hm
      simp only [good, Bool.and_eq_true]
      exact ⟨goodP_of p a hs.1.1.1 hs.1.2 hf.1 hm.1, goodP_of p b hs.1.1.2 hs.2 hf.2 hm.2⟩
    | .ifc _ a b t e _, hs, hf, hm => by
      simp only [Fun.seqTerm, Bool.and_eq_true] at hs
      simp only [fragT, Bool.and_eq_true] at hf
      simp only [Fun.Term.callsMain, Bool.or_eq_false_iff] at hm
      simp only [good, Bool.and_eq_true]
      exact ⟨⟨⟨⟨good_of p a hs.1.1.1 hf.1.1.1.1 hm.1.1.1, good_of p b hs.1.1.2 hf.1.1.1.2 hm.1.1.2⟩,
        good_of p t hs.1.2 hf.1.1.2 hm.1.2⟩, good_of p e hs.2 hf.1.2 hm.2⟩, hf.2⟩
    | .ifz _ a t e _, hs, hf, hm => by
      simp only [Fun.seqTerm, Bool.and_eq_true] at hs
      simp only [fragT, Bool.and_eq_true] at hf
      simp only [Fun.Term.callsMain, Bool.or_eq_false_iff] at hm
      simp only [good, Bool.and_eq_true]
      exact ⟨⟨⟨good_of p a hs.1.1 hf.1.1.1 hm.1.1, good_of p t hs.1.2 hf.1.1.2 hm.1.2⟩,
        good_of p e hs.2 hf.1.2 hm.2⟩, hf.2⟩
    | .print _ a n _, hs, hf, hm => by
      simp only [Fun.seqTerm, Bool.and_eq_true] at hs
      simp only [fragT, Bool.and_eq_true] at hf
      simp only [Fun.Term.callsMain, Bool.or_eq_false_iff] at hm
      simp only [good, Bool.and_eq_true]
      exact ⟨⟨good_of p a hs.1 hf.1.1 hm.1, good_of p n hs.2 hf.1.2 hm.2⟩, hf.2⟩
    | .letIn _ vt b i _, hs, hf, hm => by
      simp only [Fun.seqTerm, Bool.and_eq_true, Bool.or_eq_true, Bool.not_eq_true'] at hs
      simp only [fragT, Bool.and_eq_true] at hf
      simp only [Fun.Term.callsMain, Bool.or_eq_false_iff] at hm
      simp only [good, Bool.and_eq_true]
      refine ⟨⟨hf.1.1, good_of p i hs.2 hf.1.2 hm.2⟩, ?_⟩
      by_cases hcd : Fun.isCodataTy p vt = true
      · have h3 := hf.2
        rw [if_pos hcd] at h3 ⊢
        simp only [Bool.and_eq_true] at h3 ⊢
        rcases hs.1.1 with h | h
        · rw [hcd] at h; cases h
        · exact ⟨goodP_of p b h hs.1.2 h3.1 hm.1, h3.2⟩
      · have h3 := hf.2
        rw [if_neg hcd] at h3 ⊢
        exact good_of p b hs.1.2 h3 hm.1
    | .call f as _, hs, hf, hm => by
      simp only [Fun.seqTerm, Bool.and_eq_true] at hs
      simp only [fragT, Bool.and_eq_true] at hf
      simp only [Fun.Term.callsMain, Bool.or_eq_false_iff] at hm
      simp only [good, Bool.and_eq_true, bne_iff_ne, ne_eq]
      exact ⟨⟨by simpa using hm.1, goodPs_of p as hs.1 hs.2 hf.1 hm.2⟩, hf.2⟩
    | .ctor _ as _, hs, hf, hm => by
      simp only [Fun.seqTerm, Bool.and_eq_true] at hs
      simp only [fragT, Bool.and_eq_true] at hf
      simp only [Fun.Term.callsMain] at hm
      simp only [good, Bool.and_eq_true]
      exact ⟨goodPs_of p as hs.1 hs.2 hf.1 hm, hf.2⟩
    | .dtor s _ _ as _, hs, hf, hm => by
      simp only [Fun.seqTerm, Bool.and_eq_true] at hs
      simp only [fragT, Bool.and_eq_true] at hf
      simp only [Fun.Term.callsMain, Bool.or_eq_false_iff] at hm
      simp only [good, Bool.and_eq_true]
      have hps : Fun.pureTerm s = true := pureS_pure s hf.1.1.1.1
      exact ⟨⟨⟨⟨hf.1.1.1.1, goodP_of p s hps hs.1.1 hf.1.1.1.2 hm.1⟩, hf.1.1.2⟩,
        goodPs_of p as hs.1.2 hs.2 hf.1.2 hm.2⟩, hf.2⟩
    | .case s _ cs _, hs, hf, hm => by
      simp only [Fun.seqTerm, Bool.and_eq_true] at hs
      simp only [fragT, Bool.and_eq_true] at hf
      simp only [Fun.Term.callsMain, Bool.or_eq_false_iff] at hm
      simp only [good, Bool.and_eq_true]
      exact ⟨⟨⟨good_of p s hs.1 hf.1.1.1 hm.1, hf.1.1.2⟩, goodCs_of p cs hs.2 hf.1.2 hm.2⟩, hf.2⟩
    | .label _ t _, hs, hf, hm => by
      simp only [Fun.seqTerm] at hs
      simp only [fragT, Bool.and_eq_true] at hf
      simp only [Fun.Term.callsMain] at hm
      simp only [good, Bool.and_eq_true]
      exact ⟨good_of p t hs hf.1 hm, hf.2⟩
    | .goto _ t _, hs, hf, hm => by
      simp only [Fun.seqTerm] at hs
      simp only [fragT, Bool.and_eq_true] at hf
      simp only [Fun.Term.callsMain] at hm
      simp only [good, Bool.and_eq_true]
      exact ⟨⟨good_of p t hs hf.1.1 hm, hf.1.2⟩, hf.2⟩
    | .exit t _, hs, hf, hm => by
      simp only [Fun.seqTerm] at hs
      simp only [fragT, Bool.and_eq_true] at hf
      simp only [Fun.Term.callsMain] at hm
      simp only [good, Bool.and_eq_true]
      exact ⟨good_of p t hs hf.1 hm, hf.2⟩
    | .paren t, hs, hf, hm => by
      simp only [Fun.seqTerm] at hs
      simp only [fragT] at hf
      simp only [Fun.Term.callsMain] at hm
      simp only [good]
      exact good_of p t hs hf hm
    | .new .., _, hf, _ => by simp [fragT] at hf
  theorem goodP_of (p : Fun.CheckedProgram) : ∀ t : Fun.Term, Fun.pureTerm t = true →
      Fun.seqTerm p t = true → fragP p t = true → t.callsMain = false → goodP p t = true
    | .var .., _, _, _, _ => rfl
    | .lit _, _, _, _, _ => rfl
    | .op a o b, hp, hs, hf, hm => by
      simp only [Fun.pureTerm, Bool.and_eq_true] at hp
      simp only [Fun.seqTerm, Bool.and_eq_true] at hs
      simp only [fragP, Bool.and_eq_true] at hf
      simp only [Fun.Term.callsMain, Bool.or_eq_false_iff] at hm
      simp only [goodP, Bool.and_eq_true]
      exact ⟨⟨hp.1.1, goodP_of p a hp.1.2 hs.1.2 hf.1 hm.1⟩, goodP_of p b hp.2 hs.2 hf.2 hm.2⟩
    | .ctor _ as _, hp, hs, hf, hm => by
      simp only [Fun.pureTerm] at hp
      simp only [Fun.seqTerm, Bool.and_eq_true] at hs
      simp only [fragP] at hf
      simp only [Fun.Term.callsMain] at hm
      simp only [goodP]
      exact goodPs_of p as hp hs.2 hf hm
    | .new cs _, _, hs, hf, hm => by
      simp only [Fun.seqTerm] at hs
      simp only [fragP] at hf
      simp only [Fun.Term.callsMain] at hm
      simp only [goodP]
      exact goodCs_of p cs hs hf hm
    | .paren t, hp, hs, hf, hm => by
      simp only [Fun.pureTerm] at hp
      simp only [Fun.seqTerm] at hs
      simp only [fragP] at hf
      simp only [Fun.Term.callsMain] at hm
      simp only [goodP]
      exact goodP_of p t hp hs hf hm
    | .ifc .., hp, _, _, _ => by simp [Fun.pureTerm] at hp
    | .ifz .., hp, _, _, _ => by simp [Fun.pureTerm] at hp
    | .print .., hp, _, _, _ => by simp [Fun.pureTerm] at hp
    | .letIn .., hp, _, _, _ => by simp [Fun.pureTerm] at hp
    | .call .., hp, _, _, _ => by simp [Fun.pureTerm] at hp
    | .dtor .., hp, _, _, _ => by simp [Fun.pureTerm] at hp
    | .case .., hp, _, _, _ => by simp [Fun.pureTerm] at hp
    | .label .., hp, _, _, _ => by simp [Fun.pureTerm] at hp
    | .goto .., hp, _, _, _ => by simp [Fun.pureTerm] at hp
    | .exit .., hp, _, _, _ => by simp [Fun.pureTerm] at hp
  theorem goodPs_of (p : Fun.CheckedProgram) : ∀ as : Fun.Terms, Fun.pureTerms as = true →
      Fun.seqTerms p as = true → fragPs p as = true → as.callsMain = false → goodPs p as = true
    | .nil, _, _, _, _ => rfl
    | .cons t r, hp, hs, hf, hm => by
      simp only [Fun.pureTerms, Bool.and_eq_true] at hp
      simp only [Fun.seqTerms, Bool.and_eq_true] at hs
      simp only [fragPs, Bool.and_eq_true] at hf
      simp only [Fun.Terms.callsMain, Bool.or_eq_false_iff] at hm
      simp only [goodPs, Bool.and_eq_true]
      exact ⟨⟨goodP_of p t hp.1 hs.1 hf.1.1 hm.1, hf.1.2⟩, goodPs_of p r hp.2 hs.2 hf.2 hm.2⟩
  theorem goodCs_of (p : Fun.CheckedProgram) : ∀ cs : Fun.Clauses, Fun.seqClauses p cs = true →
      fragCs p cs = true → cs.callsMain = false → goodClauses p cs = true
    | .nil, _, _, _ => rfl
    | .cons _ _ names ctx b r, hs, hf, hm => by
      simp only [Fun.seqClauses, Bool.and_eq_true] at hs
      simp only [fragCs, Bool.and_eq_true] at hf
      simp only [Fun.Clauses.callsMain, Bool.or_eq_false_iff] at hm
      simp only [goodClauses, Bool.and_eq_true]
      exact ⟨⟨⟨⟨good_of p b hs.1 hf.1.1.1.1 hm.1, hf.1.1.1.2⟩, hf.1.1.2⟩, hf.1.2⟩,
        goodCs_of p r hs.2 hf.2 hm.2⟩
end

/-- conditions on one definition: in the fragment, parameters pairwise distinct, closed, no
parameter or binder named `ς` -/
def defFrag (p : Fun.CheckedProgram) (d : Fun.Def) : Bool :=
  fragT p d.body && decide (d.ctx.map (·.var)).Nodup &&
  (fv d.body).all (fun x => (d.ctx.map (·.var)).contains x) &&
  !(d.ctx.map (·.var)).contains sig && !(binderNames d.body).contains sig

/-- the fragment of C02 (semantic part) covered by `C02_sem_forward_frag`: sequenced, no call of
`main`, every definition satisfies `defFrag`, definition names pairwise distinct, parameters of
`main` are producers -/
def fragOk (p : Fun.CheckedProgram) : Bool :=
  Fun.Sequenced p && Fun.noMainCall p && p.defs.all (defFrag p) &&
  decide (p.defs.map (·.name)).Nodup &&
  p.defs.all (fun d => d.name != "main" || d.ctx.all (fun b => b.chi == .prd))

theorem progOk_of_fragOk {p : Fun.CheckedProgram} (h : fragOk p = true) : progOk p = true := by
  simp only [fragOk, Bool.and_eq_true, Fun.Sequenced, Fun.noMainCall, List.all_eq_true,
    Bool.not_eq_true'] at h
  obtain ⟨⟨⟨⟨hseq, hnm⟩, hdf⟩, hnd⟩, hmp⟩ := h
  simp only [progOk, Bool.and_eq_true, List.all_eq_true]
  refine ⟨⟨fun d hd => ?_, hnd⟩, hmp⟩
  have h1 := hdf d hd
  simp only [defFrag, Bool.and_eq_true] at h1
  obtain ⟨⟨⟨⟨h1, h2⟩, h3⟩, h4⟩, h5⟩ := h1
  simp only [defOk, Bool.and_eq_true]
  exact ⟨⟨⟨⟨good_of p d.body (hseq d hd) h1 (hnm d hd), h2⟩, h3⟩, h4⟩, h5⟩

end Scc.Fun2Core.Sem
