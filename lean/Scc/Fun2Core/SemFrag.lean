/-
  Scc.Fun2Core.SemFrag — the decidable description of the fragment for which the semantic part of
  C02 is proved, in terms of the predicates used by the checks (`Fun.Sequenced`, `Fun.noMainCall`)
  and a purely syntactic predicate `fragTerm` (no `new`, no destructor call; clause binders pairwise
  distinct and equal to the names of the typed clause context).
-/
import Scc.Fun2Core.SemMain
import Scc.Fun.MainCall

namespace Scc.Fun2Core.Sem
open Scc

mutual
  /-- the syntactic fragment: everything except `new` and destructor calls -/
  def fragTerm : Fun.Term → Bool
    | .var .. => true
    | .lit _ => true
    | .op a _ b => fragTerm a && fragTerm b
    | .ifc _ a b t e _ => fragTerm a && fragTerm b && fragTerm t && fragTerm e
    | .ifz _ a t e _ => fragTerm a && fragTerm t && fragTerm e
    | .print _ a n _ => fragTerm a && fragTerm n
    | .letIn _ _ b i _ => fragTerm b && fragTerm i
    | .call _ as _ => fragArgs as
    | .ctor _ as _ => fragArgs as
    | .case s _ cs _ => fragTerm s && fragClauses cs
    | .label _ t _ => fragTerm t
    | .goto _ t _ => fragTerm t
    | .exit t _ => fragTerm t
    | .paren t => fragTerm t
    | .new .. => false
    | .dtor .. => false
  def fragArgs : Fun.Terms → Bool
    | .nil => true
    | .cons t r => fragTerm t && fragArgs r
  def fragClauses : Fun.Clauses → Bool
    | .nil => true
    | .cons _ _ names ctx b r =>
      fragTerm b && decide names.Nodup && decide (ctx.map (·.var) = names) && fragClauses r
end

mutual
  theorem pureFO_of : ∀ t : Fun.Term, Fun.pureTerm t = true → fragTerm t = true → pureFO t = true
    | .var .., _, _ => rfl
    | .lit _, _, _ => rfl
    | .op a o b, hp, hf => by
      simp only [Fun.pureTerm, Bool.and_eq_true] at hp
      simp only [fragTerm, Bool.and_eq_true] at hf
      simp only [pureFO, Bool.and_eq_true]
      exact ⟨⟨hp.1.1, pureFO_of a hp.1.2 hf.1⟩, pureFO_of b hp.2 hf.2⟩
    | .ctor _ as _, hp, hf => by
      simp only [Fun.pureTerm] at hp
      simp only [fragTerm] at hf
      simp only [pureFO]
      exact pureFOs_of as hp hf
    | .paren t, hp, hf => by
      simp only [Fun.pureTerm] at hp
      simp only [fragTerm] at hf
      simp only [pureFO]
      exact pureFO_of t hp hf
    | .new .., _, hf => by simp [fragTerm] at hf
    | .ifc .., hp, _ => by simp [Fun.pureTerm] at hp
    | .ifz .., hp, _ => by simp [Fun.pureTerm] at hp
    | .print .., hp, _ => by simp [Fun.pureTerm] at hp
    | .letIn .., hp, _ => by simp [Fun.pureTerm] at hp
    | .call .., hp, _ => by simp [Fun.pureTerm] at hp
    | .dtor .., hp, _ => by simp [Fun.pureTerm] at hp
    | .case .., hp, _ => by simp [Fun.pureTerm] at hp
    | .label .., hp, _ => by simp [Fun.pureTerm] at hp
    | .goto .., hp, _ => by simp [Fun.pureTerm] at hp
    | .exit .., hp, _ => by simp [Fun.pureTerm] at hp
  theorem pureFOs_of : ∀ as : Fun.Terms, Fun.pureTerms as = true → fragArgs as = true →
      pureFOs as = true
    | .nil, _, _ => rfl
    | .cons t r, hp, hf => by
      simp only [Fun.pureTerms, Bool.and_eq_true] at hp
      simp only [fragArgs, Bool.and_eq_true] at hf
      simp only [pureFOs, Bool.and_eq_true]
      exact ⟨pureFO_of t hp.1 hf.1, pureFOs_of r hp.2 hf.2⟩
end

mutual
  /-- a sequenced term of the syntactic fragment that does not call `main` is `good` -/
  theorem good_of (p : Fun.CheckedProgram) : ∀ t : Fun.Term, Fun.seqTerm p t = true →
      fragTerm t = true → t.callsMain = false → good t = true
    | .var .., _, _, _ => rfl
    | .lit _, _, _, _ => rfl
    | .op a o b, hs, hf, _ => by
      simp only [Fun.seqTerm, Bool.and_eq_true] at hs
      simp only [fragTerm, Bool.and_eq_true] at hf
      simp only [good, Bool.and_eq_true]
      exact ⟨pureFO_of a hs.1.1.1 hf.1, pureFO_of b hs.1.1.2 hf.2⟩
    | .ifc _ a b t e _, hs, hf, hm => by
      simp only [Fun.seqTerm, Bool.and_eq_true] at hs
      simp only [fragTerm, Bool.and_eq_true] at hf
      simp only [Fun.Term.callsMain, Bool.or_eq_false_iff] at hm
      simp only [good, Bool.and_eq_true]
      exact ⟨⟨⟨good_of p a hs.1.1.1 hf.1.1.1 hm.1.1.1, good_of p b hs.1.1.2 hf.1.1.2 hm.1.1.2⟩,
        good_of p t hs.1.2 hf.1.2 hm.1.2⟩, good_of p e hs.2 hf.2 hm.2⟩
    | .ifz _ a t e _, hs, hf, hm => by
      simp only [Fun.seqTerm, Bool.and_eq_true] at hs
      simp only [fragTerm, Bool.and_eq_true] at hf
      simp only [Fun.Term.callsMain, Bool.or_eq_false_iff] at hm
      simp only [good, Bool.and_eq_true]
      exact ⟨⟨good_of p a hs.1.1 hf.1.1 hm.1.1, good_of p t hs.1.2 hf.1.2 hm.1.2⟩,
        good_of p e hs.2 hf.2 hm.2⟩
    | .print _ a n _, hs, hf, hm => by
      simp only [Fun.seqTerm, Bool.and_eq_true] at hs
      simp only [fragTerm, Bool.and_eq_true] at hf
      simp only [Fun.Term.callsMain, Bool.or_eq_false_iff] at hm
      simp only [good, Bool.and_eq_true]
      exact ⟨good_of p a hs.1 hf.1 hm.1, good_of p n hs.2 hf.2 hm.2⟩
    | .letIn _ _ b i _, hs, hf, hm => by
      simp only [Fun.seqTerm, Bool.and_eq_true] at hs
      simp only [fragTerm, Bool.and_eq_true] at hf
      simp only [Fun.Term.callsMain, Bool.or_eq_false_iff] at hm
      simp only [good, Bool.and_eq_true]
      exact ⟨good_of p b hs.1.2 hf.1 hm.1, good_of p i hs.2 hf.2 hm.2⟩
    | .call f as _, hs, hf, hm => by
      simp only [Fun.seqTerm, Bool.and_eq_true] at hs
      simp only [fragTerm] at hf
      simp only [Fun.Term.callsMain, Bool.or_eq_false_iff] at hm
      simp only [good, Bool.and_eq_true, bne_iff_ne, ne_eq]
      exact ⟨by simpa using hm.1, pureFOs_of as hs.1 hf⟩
    | .ctor _ as _, hs, hf, _ => by
      simp only [Fun.seqTerm, Bool.and_eq_true] at hs
      simp only [fragTerm] at hf
      simp only [good]
      exact pureFOs_of as hs.1 hf
    | .case s _ cs _, hs, hf, hm => by
      simp only [Fun.seqTerm, Bool.and_eq_true] at hs
      simp only [fragTerm, Bool.and_eq_true] at hf
      simp only [Fun.Term.callsMain, Bool.or_eq_false_iff] at hm
      simp only [good, Bool.and_eq_true]
      exact ⟨good_of p s hs.1 hf.1 hm.1, goodClauses_of p cs hs.2 hf.2 hm.2⟩
    | .label _ t _, hs, hf, hm => by
      simp only [Fun.seqTerm] at hs
      simp only [fragTerm] at hf
      simp only [Fun.Term.callsMain] at hm
      simp only [good]
      exact good_of p t hs hf hm
    | .goto _ t _, hs, hf, hm => by
      simp only [Fun.seqTerm] at hs
      simp only [fragTerm] at hf
      simp only [Fun.Term.callsMain] at hm
      simp only [good]
      exact good_of p t hs hf hm
    | .exit t _, hs, hf, hm => by
      simp only [Fun.seqTerm] at hs
      simp only [fragTerm] at hf
      simp only [Fun.Term.callsMain] at hm
      simp only [good]
      exact good_of p t hs hf hm
    | .paren t, hs, hf, hm => by
      simp only [Fun.seqTerm] at hs
      simp only [fragTerm] at hf
      simp only [Fun.Term.callsMain] at hm
      simp only [good]
      exact good_of p t hs hf hm
    | .new .., _, hf, _ => by simp [fragTerm] at hf
    | .dtor .., _, hf, _ => by simp [fragTerm] at hf
  theorem goodClauses_of (p : Fun.CheckedProgram) : ∀ cs : Fun.Clauses, Fun.seqClauses p cs = true →
      fragClauses cs = true → cs.callsMain = false → goodClauses cs = true
    | .nil, _, _, _ => rfl
    | .cons _ _ names ctx b r, hs, hf, hm => by
      simp only [Fun.seqClauses, Bool.and_eq_true] at hs
      simp only [fragClauses, Bool.and_eq_true] at hf
      simp only [Fun.Clauses.callsMain, Bool.or_eq_false_iff] at hm
      simp only [goodClauses, Bool.and_eq_true]
      exact ⟨⟨⟨good_of p b hs.1 hf.1.1.1 hm.1, hf.1.1.2⟩, hf.1.2⟩, goodClauses_of p r hs.2 hf.2 hm.2⟩
end

/-- syntactic conditions on one definition: in the fragment, parameters pairwise distinct, closed,
no parameter or binder named `ς` -/
def defFrag (d : Fun.Def) : Bool :=
  fragTerm d.body && decide (d.ctx.map (·.var)).Nodup &&
  (fv d.body).all (fun x => (d.ctx.map (·.var)).contains x) &&
  !(d.ctx.map (·.var)).contains sig && !(binderNames d.body).contains sig

/-- the fragment of C02 (semantic part) covered by `C02_sem_forward_frag`: sequenced, no call of
`main`, no codata declarations, every definition satisfies `defFrag`, definition names pairwise
distinct, parameters of `main` are producers -/
def fragOk (p : Fun.CheckedProgram) : Bool :=
  Fun.Sequenced p && Fun.noMainCall p && p.codataTypes.isEmpty && p.defs.all defFrag &&
  decide (p.defs.map (·.name)).Nodup &&
  p.defs.all (fun d => d.name != "main" || d.ctx.all (fun b => b.chi == .prd))

theorem progOk_of_fragOk {p : Fun.CheckedProgram} (h : fragOk p = true) : progOk p = true := by
  simp only [fragOk, Bool.and_eq_true, Fun.Sequenced, Fun.noMainCall, List.all_eq_true,
    Bool.not_eq_true'] at h
  obtain ⟨⟨⟨⟨⟨hseq, hnm⟩, hcod⟩, hdf⟩, hnd⟩, hmp⟩ := h
  simp only [progOk, Bool.and_eq_true, List.all_eq_true]
  refine ⟨⟨⟨hcod, fun d hd => ?_⟩, hnd⟩, hmp⟩
  have h1 := hdf d hd
  simp only [defFrag, Bool.and_eq_true] at h1
  obtain ⟨⟨⟨⟨h1, h2⟩, h3⟩, h4⟩, h5⟩ := h1
  simp only [defOk, Bool.and_eq_true]
  exact ⟨⟨⟨⟨good_of p d.body (hseq d hd) h1 (hnm d hd), h2⟩, h3⟩, h4⟩, h5⟩

end Scc.Fun2Core.Sem
