/-
  Scc.Fun2Core.SemFrag — the decidable description of the fragment for which the semantic part of
  C02 is proved, in terms of the predicates used by the checks (`Fun.Sequenced`, `Fun.noMainCall`)
  and a predicate `fragT` on annotated terms:
    * every term in evaluation position (definition / clause bodies, branches, bound terms of
      integer/data `let`s, scrutinees of `case`, operands) has an integer or data type;
    * codata values are created by `new`, bound by codata-typed `let`s to variables or `new`s, and
      passed as arguments; the scrutinee of a destructor call is a variable or a `new`;
    * clause binders are pairwise distinct and are the names of the typed clause context.
-/
import Scc.Fun2Core.SemMain
import Scc.Fun.MainCall

namespace Scc.Fun2Core.Sem
open Scc

mutual
  /-- terms in evaluation position -/
  def fragT (p : Fun.CheckedProgram) : Fun.Term → Bool
    | .var _ ty _ => ncdO p ty
    | .lit _ => true
    | .op a _ b => fragP p a && fragP p b
    | .ifc _ a b t e ty => fragT p a && fragT p b && fragT p t && fragT p e && ncdO p ty
    | .ifz _ a t e ty => fragT p a && fragT p t && fragT p e && ncdO p ty
    | .print _ a n ty => fragT p a && fragT p n && ncdO p ty
    | .letIn _ vt b i ty =>
      ncdO p ty && fragT p i && (if Fun.isCodataTy p vt then fragP p b && pureS b else fragT p b)
    | .call _ as ty => fragPs p as && ncdO p ty
    | .ctor _ as ty => fragPs p as && ncdO p ty
    | .dtor s _ _ as ty => pureS s && fragP p s && cdO p s.getType && fragPs p as && ncdO p ty
    | .case s _ cs ty => fragT p s && ncdO p s.getType && fragCs p cs && ncdO p ty
    | .label _ t ty => fragT p t && ncdO p ty
    | .goto _ t ty => fragT p t && ncdO p t.getType && ncdO p ty
    | .exit t ty => fragT p t && ncdO p ty
    | .paren t => fragT p t
    | .new .. => false
  /-- terms in operand / argument / by-name position (purity itself is part of `Sequenced`) -/
  def fragP (p : Fun.CheckedProgram) : Fun.Term → Bool
    | .var .. => true
    | .lit _ => true
    | .op a _ b => fragP p a && fragP p b
    | .ctor _ as _ => fragPs p as
    | .new cs _ => fragCs p cs
    | .paren t => fragP p t
    | _ => false
  def fragPs (p : Fun.CheckedProgram) : Fun.Terms → Bool
    | .nil => true
    | .cons t r =>
      fragP p t &&
      (match t.getType with
        | some ty => !Fun.isCodataTy p ty || pureS t
        | none => true) && fragPs p r
  def fragCs (p : Fun.CheckedProgram) : Fun.Clauses → Bool
    | .nil => true
    | .cons _ _ names ctx b r =>
      fragT p b && ncdO p b.getType && decide names.Nodup && decide (ctx.map (·.var) = names) &&
      fragCs p r
end

/-- conditions on one definition: in the fragment, parameters pairwise distinct, closed, no
parameter or binder named `ς` -/
def defFrag (p : Fun.CheckedProgram) (d : Fun.Def) : Bool :=
  fragT p d.body && decide (d.ctx.map (·.var)).Nodup &&
  (fv d.body).all (fun x => (d.ctx.map (·.var)).contains x) &&
  !(d.ctx.map (·.var)).contains sig && !(binderNames d.body).contains sig

/-- the fragment of C02 (semantic part) covered by `C02_sem_forward_frag`: sequenced, no call of
`main`, every definition satisfies `defFrag`, definition names pairwise distinct, parameters of
`main` are producers; and (conditions that hold of every accepted program with a valid `main`, see
Props/C02SemFull.lean) every body satisfies the well-formedness predicate `good` of the simulation
and `main` has integer parameters and an integer result -/
def fragOk (p : Fun.CheckedProgram) : Bool :=
  Fun.Sequenced p && Fun.noMainCall p && p.defs.all (defFrag p) &&
  decide (p.defs.map (·.name)).Nodup &&
  p.defs.all (fun d => d.name != "main" || d.ctx.all (fun b => b.chi == .prd)) &&
  p.defs.all (fun d => good p d.body) &&
  p.defs.all (fun d => d.name != "main" || (d.ctx.all (fun b => isI64T b.ty) && isI64T d.retTy))

theorem progOk_of_fragOk {p : Fun.CheckedProgram} (h : fragOk p = true) : progOk p = true := by
  simp only [fragOk, Bool.and_eq_true, Fun.Sequenced, Fun.noMainCall, List.all_eq_true,
    Bool.not_eq_true'] at h
  obtain ⟨⟨⟨⟨⟨⟨hseq, hnm⟩, hdf⟩, hnd⟩, hmp⟩, hgood⟩, hmt⟩ := h
  simp only [progOk, Bool.and_eq_true, List.all_eq_true]
  refine ⟨⟨⟨fun d hd => ?_, hnd⟩, hmp⟩, hmt⟩
  have h1 := hdf d hd
  simp only [defFrag, Bool.and_eq_true] at h1
  obtain ⟨⟨⟨⟨h1, h2⟩, h3⟩, h4⟩, h5⟩ := h1
  simp only [defOk, Bool.and_eq_true]
  exact ⟨⟨⟨⟨hgood d hd, h2⟩, h3⟩, h4⟩, h5⟩

end Scc.Fun2Core.Sem
