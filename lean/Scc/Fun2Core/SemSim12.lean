/-
  Scc.Fun2Core.SemSim12 — the chunk simulation: from related states (the Fun machine about to
  evaluate a term of the fragment, the Core machine about to run its translation) both machines
  advance to related states or stop with the same result.
-/
import Scc.Fun2Core.SemSim13

namespace Scc.Fun2Core.Sem
open Scc

variable {q : Core.Prog} {p : Fun.CheckedProgram}

theorem eval_sim (X : Ctx p q) : ChunkSim p q (R p q) := by
  intro s S hR
  obtain ⟨stmt, ρ, out, n⟩ := S
  cases hR with
  | @eval t env k _ ρ0 c hg hc he hr hbd hag =>
    simp only at hc he hr hbd hag
    replace hg : good p t = true := hg
    cases t with
    | var x ty chi => exact eval_direct X (t := .var x ty chi) rfl hg hc he hr hbd hag
    | lit m => exact eval_direct X (t := .lit m) rfl hg hc he hr hbd hag
    | op a o b => exact eval_direct X (t := .op a o b) rfl hg hc he hr hbd hag
    | ctor K as ty => exact eval_direct X (t := .ctor K as ty) rfl hg hc he hr hbd hag
    | ifc srt a b t1 e1 ty => exact eval_ifc X hg hc he hr hbd hag
    | ifz srt a t1 e1 ty => exact eval_ifz X hg hc he hr hbd hag
    | print nl a nx ty => exact eval_print X hg hc he hr hbd hag
    | letIn x vt b i ty => exact eval_let X hg hc he hr hbd hag
    | call f as ty => exact eval_call X hg hc he hr hbd hag
    | case sc ta cs ty => exact eval_case X hg hc he hr hbd hag
    | label a t1 ty => exact eval_label X hg hc he hr hbd hag
    | goto a u ty => exact eval_goto X hg hc he hbd hag
    | exit u ty => exact eval_exit X hg hc he hbd hag
    | paren t1 => exact eval_paren hg hc he hr hbd hag
    | new cs ty => simp [good] at hg
    | dtor sc d ta as ty => exact eval_dtor X hg hc he hr hbd hag

end Scc.Fun2Core.Sem
