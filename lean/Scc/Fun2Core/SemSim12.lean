/-
  Scc.Fun2Core.SemSim12 — the chunk simulation: from related states (the Fun machine about to
  evaluate a term, the Core machine about to run its translation; the Fun state typed, `STM`) both
  machines advance to related states or stop with the same result.
-/
import Scc.Fun2Core.SemSim13
import Scc.Fun2Core.SemCod5

namespace Scc.Fun2Core.Sem
open Scc Scc.Fun2Core.Typed

variable {q : Core.Prog} {p : Fun.CheckedProgram}

/-- one chunk from a pair of related states whose Fun state is typed -/
theorem eval_chunk (X : Ctx p q) {s : Fun.State} {S : Core.State} (hR : R p q s S) (hT : STM p s) :
    Chunk p q (R p q) true true (msize s) s S := by
  obtain ⟨stmt, ρ, out, n⟩ := S
  cases hR with
  | @eval t env k _ ρ0 c hg hc he hr hbd hag =>
    simp only at hc he hr hbd hag
    replace hg : good p t = true := hg
    cases t with
    | var x ty chi =>
      cases hkk : kkind k with
      | false => exact eval_direct X (t := .var x ty chi) rfl hg hc he hr hbd hag hT hkk
      | true => exact eval_var_cd X hc he hr hag hT hkk
    | lit m =>
      have hkk : kkind k = false := by
        obtain ⟨τ, h1, h2⟩ := STM.eval_kind X.progM hT
        simp only [getType, Option.some.injEq] at h1
        subst h1
        rw [← h2]; rfl
      exact eval_direct X (t := .lit m) rfl hg hc he hr hbd hag hT hkk
    | op a o b =>
      have hkk : kkind k = false := by
        obtain ⟨τ, h1, h2⟩ := STM.eval_kind X.progM hT
        simp only [getType, Option.some.injEq] at h1
        subst h1
        rw [← h2]; rfl
      exact eval_direct X (t := .op a o b) rfl hg hc he hr hbd hag hT hkk
    | ctor K as ty =>
      have hkk : kkind k = false := by
        cases hT with
        | eval Γ τ he' ht hk =>
          have hk' := KTM.kind X.progM hk
          simp only [TypedM] at ht
          obtain ⟨_, _, d, c', hd, _⟩ := ht
          rw [← hk', isCodataTy_of_dataDecl X.progM hd]
      exact eval_direct X (t := .ctor K as ty) rfl hg hc he hr hbd hag hT hkk
    | ifc srt a b t1 e1 ty => exact eval_ifc X hg hc he hr hbd hag
    | ifz srt a t1 e1 ty => exact eval_ifz X hg hc he hr hbd hag
    | print nl a nx ty => exact eval_print X hg hc he hr hbd hag
    | letIn x vt b i ty => exact eval_let X hg hc he hr hbd hag hT
    | call f as ty => exact eval_call X hg hc he hr hbd hag hT
    | case sc ta cs ty => exact eval_case X hg hc he hr hbd hag hT
    | label a t1 ty => exact eval_label X hg hc he hr hbd hag hT
    | goto a u ty => exact eval_goto X hg hc he hbd hag hT
    | exit u ty => exact eval_exit X hg hc he hbd hag
    | paren t1 => exact eval_paren hg hc he hr hbd hag
    | new cs ty => exact eval_new X hg hc he hr hbd hag hT
    | dtor sc d ta as ty => exact eval_dtor X hg hc he hr hbd hag hT

/-- related states with a typed Fun state -/
def RT (p : Fun.CheckedProgram) (q : Core.Prog) : Fun.State → Core.State → Prop :=
  fun s S => R p q s S ∧ STM p s

/-- typing is preserved along a chunk -/
theorem Chunk.typed (hP : ProgM p) {b c : Bool} {μ : Nat} {s : Fun.State} {S : Core.State}
    (h : Chunk p q (R p q) b c μ s S) (hT : STM p s) : Chunk p q (RT p q) b c μ s S := by
  rcases h with h | ⟨j, s1, s', o, i, S', h1, h2, h3, h4, h5, h6, h7⟩
  · exact .inl h
  · refine .inr ⟨j, s1, s', o, i, S', h1, h2, h3, h4, h5, h6, h7, ?_⟩
    have hT1 := FStepsM_preserves hP h1 hT
    rcases h2 with ⟨rfl, _⟩ | ⟨e, he, _⟩
    · exact hT1
    · exact stepM_preserves hP hT1 he

theorem eval_sim (X : Ctx p q) : ChunkSim p q (RT p q) := by
  intro s S hR
  exact (eval_chunk X hR.1 hR.2).typed X.progM hR.2

end Scc.Fun2Core.Sem
