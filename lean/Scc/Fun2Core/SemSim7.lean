/-
  Scc.Fun2Core.SemSim7 — simulation of the statements with operands: `if a ~ b`, `if a ~ 0`,
  `print`, `exit`.
-/
import Scc.Fun2Core.SemShare

namespace Scc.Fun2Core.Sem
open Scc

variable {q : Core.Prog} {p : Fun.CheckedProgram}

/-- `if a ~ b {t} else {e}` -/
theorem eval_ifc (X : Ctx p q) {srt : Fun.IfSort} {a b t1 e1 : Fun.Term} {ty : Option Fun.Ty}
    {env : Fun.Env} {k : Fun.Stack} {c : Core.Term} {s : Core.Stmt} {ρ0 ρ : CEnv} {out : Out}
    {n : Nat} (hg : good p (.ifc srt a b t1 e1 ty) = true)
    (hc : Compiled q n (.ifc srt a b t1 e1 ty) c s)
    (he : EnvRel (GP p) p q n (fv (.ifc srt a b t1 e1 ty)) env ρ0) (hr : CRel (GP p) p q n k c ρ0)
    (hbd : BoundOn (tfvStmt s []) ρ0) (hag : AgreeOn (tfvStmt s []) ρ0 ρ) :
    Chunk p q (R p q) true true μ (.eval (.ifc srt a b t1 e1 ty) env k) ⟨s, ρ, out, n⟩ := by
  simp only [good, Bool.and_eq_true] at hg
  obtain ⟨⟨⟨⟨⟨⟨hga, hgb⟩, hgt⟩, hge⟩, _⟩, hia⟩, hib⟩ := hg
  replace hia := i64T_iff.1 hia
  replace hib := i64T_iff.1 hib
  obtain ⟨st, st', hcwc, hst, htn, hcn⟩ := hc
  rw [cwc_ifc] at hcwc
  have hfr : FS st (if isLeaf c = true then (c, st) else share c st).2 :=
    stepRel_shareIf fs_stepRel (isLeaf c) c st
  generalize hrdef : (if isLeaf c = true then (c, st) else share c st) = r at hcwc hfr
  cases hca : compile a .i64 r.2 with
  | error e => simp [hca] at hcwc
  | ok ra =>
    obtain ⟨A, st1⟩ := ra
    cases hcb : compile b .i64 st1 with
    | error e => simp [hca, hcb] at hcwc
    | ok rb =>
      obtain ⟨B, st2⟩ := rb
      cases hct : compileWithCont t1 r.1 st2 with
      | error e => simp [hca, hcb, hct] at hcwc
      | ok rt =>
        obtain ⟨T, st3⟩ := rt
        cases hce : compileWithCont e1 r.1 st3 with
        | error e => simp [hca, hcb, hct, hce] at hcwc
        | ok re =>
          obtain ⟨E, st4⟩ := re
          simp only [hca, hcb, hct, hce, Except.ok.injEq, Prod.mk.injEq] at hcwc
          obtain ⟨rfl, rfl⟩ := hcwc
          have fa := fs_compile hca
          have fb := fs_compile hcb
          have ft := fs_cwc hct
          have fe := fs_cwc hce
          have hst3 := hst.of_fresh fe.1
          have hst2 := hst3.of_fresh ft.1
          have hst1 := hst2.of_fresh fb.1
          have hstr := hst1.of_fresh fa.1
          have f01 : FS st st1 := fs_stepRel.trans hfr fa
          have f02 : FS st st2 := fs_stepRel.trans f01 fb
          have f03 : FS st st3 := fs_stepRel.trans f02 ft
          have tna : TermNames a r.2 := htn.of_sub (fun x hx => by simp [fv, hx])
            (fun x hx => by simp [binderNames, hx]) hfr
          have tnb : TermNames b st1 := htn.of_sub (fun x hx => by simp [fv, hx])
            (fun x hx => by simp [binderNames, hx]) f01
          have tnt : TermNames t1 st2 := htn.of_sub (fun x hx => by simp [fv, hx])
            (fun x hx => by simp [binderNames, hx]) f02
          have tne : TermNames e1 st3 := htn.of_sub (fun x hx => by simp [fv, hx])
            (fun x hx => by simp [binderNames, hx]) f03
          obtain ⟨hr', hcn'⟩ : CRel (GP p) p q n k r.1 ρ0 ∧ ConsNames r.1 r.2 n := by
            rw [← hrdef]
            exact shareIf_rel (isLeaf c) hr hcn (by rw [hrdef]; exact hstr.1)
          have f12 : FS r.2 st2 := fs_stepRel.trans fa fb
          have hct' : Compiled q n t1 r.1 T := ⟨st2, st3, hct, hst3, tnt, hcn'.mono_st f12.sub⟩
          have hce' : Compiled q n e1 r.1 E :=
            ⟨st3, st4, hce, hst, tne, hcn'.mono_st (fs_stepRel.trans f12 ft).sub⟩
          have hea : EnvRel (GP p) p q n (fv a) env ρ0 := he.sub fun y hy => by simp [fv, hy]
          have hebte : EnvRel (GP p) p q n (fv b ++ fv t1 ++ fv e1) env ρ0 := he.sub fun y hy => by
            simp only [fv, List.mem_append] at hy ⊢
            rcases hy with (h | h) | h <;> simp [h]
          have f1 : FSteps p (.eval (.ifc srt a b t1 e1 ty) env k)
              (.eval a env (.ifL srt b t1 e1 env :: k)) [] 1 := .one rfl
          refine Chunk.prefix f1 (.refl _) rfl (fun _ => Nat.le_refl _) (fun h => .inr h) ?_
          refine operand_sim X.cod a hga hia (fun h => .ifc (compileSort srt) h B T E)
            (fun A hA => split_ifc1 hA) hca hst1 tna hea
            (hbd.mono fun y hy => mem_tfv_ifc.2 (.inl hy))
            (hag.mono fun y hy => mem_tfv_ifc.2 (.inl hy)) ?_ ?_
          · intro τ
            refine KRel.ifL (i := n) (ρ0 := ρ0) hgb hgt hge (Nat.lt_succ_self n) hib ⟨st1, st2, hcb, hst2, tnb⟩
              hct' hce' (hebte.mono (Nat.le_succ n)) (hr'.mono (Nat.le_succ n)) ?_ ?_
            · refine hbd.mono fun y hy => ?_
              obtain ⟨h1, h2⟩ := List.mem_filter.1 hy
              rcases mem_tfv_ifc.1 h1 with h | h | h | h
              · rw [mem_tfv_var] at h; subst h; simp at h2
              · exact mem_tfv_ifc.2 (.inr (.inl h))
              · exact mem_tfv_ifc.2 (.inr (.inr (.inl h)))
              · exact mem_tfv_ifc.2 (.inr (.inr (.inr h)))
            · refine hag.mono fun y hy => ?_
              obtain ⟨h1, h2⟩ := List.mem_filter.1 hy
              rcases mem_tfv_ifc.1 h1 with h | h | h | h
              · rw [mem_tfv_var] at h; subst h; simp at h2
              · exact mem_tfv_ifc.2 (.inr (.inl h))
              · exact mem_tfv_ifc.2 (.inr (.inr (.inl h)))
              · exact mem_tfv_ifc.2 (.inr (.inr (.inr h)))
          · intro ρ' n' z τ v V hn hext hl hvr hb
            obtain ⟨ρ0', hext0, hag'⟩ := hext.agree (ρ0 := ρ0)
            have hfs : ∀ y ∈ fv b ++ fv t1 ++ fv e1, y ≠ sig := fun y hy =>
              htn.fv_ne_sig y (by
                simp only [fv, List.mem_append] at hy ⊢
                rcases hy with (h | h) | h <;> simp [h])
            exact cont_ifL X.cod (ρ0 := ρ0') hgb hgt hge hib hcb hst2 tnb hct' hce' hn
              ((hebte.mono hn).sigExt hext0 hfs)
              ((hr'.mono hn).sigExt hext0 (hcn'.sig_lt (Nat.le_refl n)))
              ((hbd.mono fun y hy => mem_tfv_ifc.2 (.inr (.inl hy))).sigExt hext0)
              ((hbd.mono fun y hy => mem_tfv_ifc.2 (.inr (.inr (.inl hy)))).sigExt hext0)
              ((hbd.mono fun y hy => mem_tfv_ifc.2 (.inr (.inr (.inr hy)))).sigExt hext0)
              (hag' _ (hag.mono fun y hy => mem_tfv_ifc.2 (.inr (.inl hy))))
              (hag' _ (hag.mono fun y hy => mem_tfv_ifc.2 (.inr (.inr (.inl hy)))))
              (hag' _ (hag.mono fun y hy => mem_tfv_ifc.2 (.inr (.inr (.inr hy)))))
              hl hb (hvr.mono hn)

/-- `if a ~ 0 {t} else {e}` -/
theorem eval_ifz (X : Ctx p q) {srt : Fun.IfSort} {a t1 e1 : Fun.Term} {ty : Option Fun.Ty}
    {env : Fun.Env} {k : Fun.Stack} {c : Core.Term} {s : Core.Stmt} {ρ0 ρ : CEnv} {out : Out}
    {n : Nat} (hg : good p (.ifz srt a t1 e1 ty) = true)
    (hc : Compiled q n (.ifz srt a t1 e1 ty) c s)
    (he : EnvRel (GP p) p q n (fv (.ifz srt a t1 e1 ty)) env ρ0) (hr : CRel (GP p) p q n k c ρ0)
    (hbd : BoundOn (tfvStmt s []) ρ0) (hag : AgreeOn (tfvStmt s []) ρ0 ρ) :
    Chunk p q (R p q) true true μ (.eval (.ifz srt a t1 e1 ty) env k) ⟨s, ρ, out, n⟩ := by
  simp only [good, Bool.and_eq_true] at hg
  obtain ⟨⟨⟨⟨hga, hgt⟩, hge⟩, _⟩, hia⟩ := hg
  replace hia := i64T_iff.1 hia
  obtain ⟨st, st', hcwc, hst, htn, hcn⟩ := hc
  rw [cwc_ifz] at hcwc
  have hfr : FS st (if isLeaf c = true then (c, st) else share c st).2 :=
    stepRel_shareIf fs_stepRel (isLeaf c) c st
  generalize hrdef : (if isLeaf c = true then (c, st) else share c st) = r at hcwc hfr
  cases hca : compile a .i64 r.2 with
  | error e => simp [hca] at hcwc
  | ok ra =>
    obtain ⟨A, st1⟩ := ra
    cases hct : compileWithCont t1 r.1 st1 with
    | error e => simp [hca, hct] at hcwc
    | ok rt =>
      obtain ⟨T, st2⟩ := rt
      cases hce : compileWithCont e1 r.1 st2 with
      | error e => simp [hca, hct, hce] at hcwc
      | ok re =>
        obtain ⟨E, st3⟩ := re
        simp only [hca, hct, hce, Except.ok.injEq, Prod.mk.injEq] at hcwc
        obtain ⟨rfl, rfl⟩ := hcwc
        have fa := fs_compile hca
        have ft := fs_cwc hct
        have fe := fs_cwc hce
        have hst2 := hst.of_fresh fe.1
        have hst1 := hst2.of_fresh ft.1
        have hstr := hst1.of_fresh fa.1
        have f01 : FS st st1 := fs_stepRel.trans hfr fa
        have f02 : FS st st2 := fs_stepRel.trans f01 ft
        have tna : TermNames a r.2 := htn.of_sub (fun x hx => by simp [fv, hx])
          (fun x hx => by simp [binderNames, hx]) hfr
        have tnt : TermNames t1 st1 := htn.of_sub (fun x hx => by simp [fv, hx])
          (fun x hx => by simp [binderNames, hx]) f01
        have tne : TermNames e1 st2 := htn.of_sub (fun x hx => by simp [fv, hx])
          (fun x hx => by simp [binderNames, hx]) f02
        obtain ⟨hr', hcn'⟩ : CRel (GP p) p q n k r.1 ρ0 ∧ ConsNames r.1 r.2 n := by
          rw [← hrdef]
          exact shareIf_rel (isLeaf c) hr hcn (by rw [hrdef]; exact hstr.1)
        have hct' : Compiled q n t1 r.1 T := ⟨st1, st2, hct, hst2, tnt, hcn'.mono_st fa.sub⟩
        have hce' : Compiled q n e1 r.1 E :=
          ⟨st2, st3, hce, hst, tne, hcn'.mono_st (fs_stepRel.trans fa ft).sub⟩
        have hea : EnvRel (GP p) p q n (fv a) env ρ0 := he.sub fun y hy => by simp [fv, hy]
        have hete : EnvRel (GP p) p q n (fv t1 ++ fv e1) env ρ0 := he.sub fun y hy => by
          simp only [fv, List.mem_append] at hy ⊢
          rcases hy with h | h <;> simp [h]
        have f1 : FSteps p (.eval (.ifz srt a t1 e1 ty) env k)
            (.eval a env (.ifZ srt t1 e1 env :: k)) [] 1 := .one rfl
        refine Chunk.prefix f1 (.refl _) rfl (fun _ => Nat.le_refl _) (fun h => .inr h) ?_
        refine operand_sim X.cod a hga hia (fun h => .ifz (compileSort srt) h T E)
          (fun A hA => split_ifz hA) hca hst1 tna hea
          (hbd.mono fun y hy => mem_tfv_ifz.2 (.inl hy))
          (hag.mono fun y hy => mem_tfv_ifz.2 (.inl hy)) ?_ ?_
        · intro τ
          refine KRel.ifZ (i := n) (ρ0 := ρ0) hgt hge (Nat.lt_succ_self n)
            hct' hce' (hete.mono (Nat.le_succ n)) (hr'.mono (Nat.le_succ n)) ?_ ?_
          · refine hbd.mono fun y hy => ?_
            obtain ⟨h1, h2⟩ := List.mem_filter.1 hy
            rcases mem_tfv_ifz.1 h1 with h | h | h
            · rw [mem_tfv_var] at h; subst h; simp at h2
            · exact mem_tfv_ifz.2 (.inr (.inl h))
            · exact mem_tfv_ifz.2 (.inr (.inr h))
          · refine hag.mono fun y hy => ?_
            obtain ⟨h1, h2⟩ := List.mem_filter.1 hy
            rcases mem_tfv_ifz.1 h1 with h | h | h
            · rw [mem_tfv_var] at h; subst h; simp at h2
            · exact mem_tfv_ifz.2 (.inr (.inl h))
            · exact mem_tfv_ifz.2 (.inr (.inr h))
        · intro ρ' n' z τ v V hn hext hl hvr hb
          obtain ⟨ρ0', hext0, hag'⟩ := hext.agree (ρ0 := ρ0)
          have hfs : ∀ y ∈ fv t1 ++ fv e1, y ≠ sig := fun y hy =>
            htn.fv_ne_sig y (by
              simp only [fv, List.mem_append] at hy ⊢
              rcases hy with h | h <;> simp [h])
          exact cont_ifZ (ρ0 := ρ0') hgt hge hct' hce' hn
            ((hete.mono hn).sigExt hext0 hfs)
            ((hr'.mono hn).sigExt hext0 (hcn'.sig_lt (Nat.le_refl n)))
            ((hbd.mono fun y hy => mem_tfv_ifz.2 (.inr (.inl hy))).sigExt hext0)
            ((hbd.mono fun y hy => mem_tfv_ifz.2 (.inr (.inr hy))).sigExt hext0)
            (hag' _ (hag.mono fun y hy => mem_tfv_ifz.2 (.inr (.inl hy))))
            (hag' _ (hag.mono fun y hy => mem_tfv_ifz.2 (.inr (.inr hy))))
            hl (hvr.mono hn)

/-- `print(a); next` -/
theorem eval_print (X : Ctx p q) {nl : Bool} {a next : Fun.Term} {ty : Option Fun.Ty}
    {env : Fun.Env} {k : Fun.Stack} {c : Core.Term} {s : Core.Stmt} {ρ0 ρ : CEnv} {out : Out}
    {n : Nat} (hg : good p (.print nl a next ty) = true)
    (hc : Compiled q n (.print nl a next ty) c s)
    (he : EnvRel (GP p) p q n (fv (.print nl a next ty)) env ρ0) (hr : CRel (GP p) p q n k c ρ0)
    (hbd : BoundOn (tfvStmt s []) ρ0) (hag : AgreeOn (tfvStmt s []) ρ0 ρ) :
    Chunk p q (R p q) true true μ (.eval (.print nl a next ty) env k) ⟨s, ρ, out, n⟩ := by
  simp only [good, Bool.and_eq_true] at hg
  obtain ⟨⟨⟨hga, hgn⟩, _⟩, hia⟩ := hg
  replace hia := i64T_iff.1 hia
  obtain ⟨st, st', hcwc, hst, htn, hcn⟩ := hc
  rw [cwc_print] at hcwc
  cases hca : compile a .i64 st with
  | error e => simp [hca] at hcwc
  | ok ra =>
    obtain ⟨A, st1⟩ := ra
    cases hcx : compileWithCont next c st1 with
    | error e => simp [hca, hcx] at hcwc
    | ok rn =>
      obtain ⟨N, st2⟩ := rn
      simp only [hca, hcx, Except.ok.injEq, Prod.mk.injEq] at hcwc
      obtain ⟨rfl, rfl⟩ := hcwc
      have fa := fs_compile hca
      have fn := fs_cwc hcx
      have hst1 := hst.of_fresh fn.1
      have tna : TermNames a st := htn.of_sub (fun x hx => by simp [fv, hx])
        (fun x hx => by simp [binderNames, hx]) (fs_stepRel.refl st)
      have tnn : TermNames next st1 := htn.of_sub (fun x hx => by simp [fv, hx])
        (fun x hx => by simp [binderNames, hx]) fa
      have hcn' : Compiled q n next c N := ⟨st1, st2, hcx, hst, tnn, hcn.mono_st fa.sub⟩
      have hea : EnvRel (GP p) p q n (fv a) env ρ0 := he.sub fun y hy => by simp [fv, hy]
      have hen : EnvRel (GP p) p q n (fv next) env ρ0 := he.sub fun y hy => by simp [fv, hy]
      have f1 : FSteps p (.eval (.print nl a next ty) env k)
          (.eval a env (.print nl next env :: k)) [] 1 := .one rfl
      refine Chunk.prefix f1 (.refl _) rfl (fun _ => Nat.le_refl _) (fun h => .inr h) ?_
      refine operand_sim X.cod a hga hia (fun h => .print nl h N)
        (fun A hA => split_print hA) hca hst1 tna hea
        (hbd.mono fun y hy => mem_tfv_print.2 (.inl hy))
        (hag.mono fun y hy => mem_tfv_print.2 (.inl hy)) ?_ ?_
      · intro τ
        refine KRel.print (i := n) (ρ0 := ρ0) hgn (Nat.lt_succ_self n) hcn'
          (hen.mono (Nat.le_succ n)) (hr.mono (Nat.le_succ n)) ?_ ?_
        · refine hbd.mono fun y hy => ?_
          obtain ⟨h1, h2⟩ := List.mem_filter.1 hy
          rcases mem_tfv_print.1 h1 with h | h
          · rw [mem_tfv_var] at h; subst h; simp at h2
          · exact mem_tfv_print.2 (.inr h)
        · refine hag.mono fun y hy => ?_
          obtain ⟨h1, h2⟩ := List.mem_filter.1 hy
          rcases mem_tfv_print.1 h1 with h | h
          · rw [mem_tfv_var] at h; subst h; simp at h2
          · exact mem_tfv_print.2 (.inr h)
      · intro ρ' n' z τ v V hn hext hl hvr hb
        obtain ⟨ρ0', hext0, hag'⟩ := hext.agree (ρ0 := ρ0)
        exact cont_print (ρ0 := ρ0') hgn hcn' hn
          ((hen.mono hn).sigExt hext0 tnn.fv_ne_sig)
          ((hr.mono hn).sigExt hext0 (hcn.sig_lt (Nat.le_refl n)))
          ((hbd.mono fun y hy => mem_tfv_print.2 (.inr hy)).sigExt hext0)
          (hag' _ (hag.mono fun y hy => mem_tfv_print.2 (.inr hy)))
          hl (hvr.mono hn)

/-- `exit u` -/
theorem eval_exit (X : Ctx p q) {u : Fun.Term} {ty : Option Fun.Ty}
    {env : Fun.Env} {k : Fun.Stack} {c : Core.Term} {s : Core.Stmt} {ρ0 ρ : CEnv} {out : Out}
    {n : Nat} (hg : good p (.exit u ty) = true)
    (hc : Compiled q n (.exit u ty) c s)
    (he : EnvRel (GP p) p q n (fv (.exit u ty)) env ρ0)
    (hbd : BoundOn (tfvStmt s []) ρ0) (hag : AgreeOn (tfvStmt s []) ρ0 ρ) :
    Chunk p q (R p q) true true μ (.eval (.exit u ty) env k) ⟨s, ρ, out, n⟩ := by
  simp only [good, Bool.and_eq_true] at hg
  have hiu := i64T_iff.1 hg.2
  replace hg := hg.1.1
  obtain ⟨st, st', hcwc, hst, htn, hcn⟩ := hc
  rw [cwc_exit] at hcwc
  cases hca : compile u .i64 st with
  | error e => simp [hca] at hcwc
  | ok ra =>
    obtain ⟨U, st1⟩ := ra
    cases ty with
    | none => simp [hca] at hcwc
    | some τ0 =>
      simp only [hca, Except.ok.injEq, Prod.mk.injEq] at hcwc
      obtain ⟨rfl, rfl⟩ := hcwc
      have tnu : TermNames u st := htn.of_sub (fun x hx => by simp [fv, hx])
        (fun x hx => by simp [binderNames, hx]) (fs_stepRel.refl st)
      have f1 : FSteps p (.eval (.exit u (some τ0)) env k) (.eval u env [.exitF]) [] 1 := .one rfl
      refine Chunk.prefix f1 (.refl _) rfl (fun _ => Nat.le_refl _) (fun h => .inr h) ?_
      refine operand_sim X.cod u hg hiu (fun h => .exit h (compileTy τ0))
        (fun A hA => split_exit hA) hca hst tnu (by simpa [fv] using he)
        (hbd.mono fun y hy => mem_tfv_exit.2 hy)
        (hag.mono fun y hy => mem_tfv_exit.2 hy) ?_ ?_
      · intro τ
        exact KRel.exitF
      · intro ρ' n' z τ v V hn hext hl hvr hb
        exact cont_exit hl (hvr.mono hn)

end Scc.Fun2Core.Sem
