/-
  Scc.Fun2Core.SemTfv — membership in the typed free variables (`typed_free_vars`, model functions
  `tfvTerm`/`tfvStmt`/…) of compound Core statements in terms of their parts.  Used by the semantic
  part of C02 to transport environment agreement to sub-statements.
-/
import Scc.Fun2Core.FreeVars

namespace Scc.Fun2Core.Sem
open Scc

theorem mem_tfvTerm_iff (t : Core.Term) (acc : List Core.Binding) (y : Core.Binding) :
    y ∈ tfvTerm t acc ↔ y ∈ acc ∨ y ∈ tfvTerm t [] :=
  ⟨tfvTerm_acc t acc y, fun h => h.elim (tfvTerm_mono t acc y) (tfvTerm_sub t acc y)⟩

theorem mem_tfvArgs_iff (a : Core.Args) (acc : List Core.Binding) (y : Core.Binding) :
    y ∈ tfvArgs a acc ↔ y ∈ acc ∨ y ∈ tfvArgs a [] :=
  ⟨tfvArgs_acc a acc y, fun h => h.elim (tfvArgs_mono a acc y) (tfvArgs_sub a acc y)⟩

theorem mem_tfvClauses_iff (c : Core.Clauses) (acc : List Core.Binding) (y : Core.Binding) :
    y ∈ tfvClauses c acc ↔ y ∈ acc ∨ y ∈ tfvClauses c [] :=
  ⟨tfvClauses_acc c acc y, fun h => h.elim (tfvClauses_mono c acc y) (tfvClauses_sub c acc y)⟩

theorem mem_tfvStmt_iff : ∀ (s : Core.Stmt) (acc : List Core.Binding) (y : Core.Binding),
    y ∈ tfvStmt s acc ↔ y ∈ acc ∨ y ∈ tfvStmt s []
  | .cut _ p c, acc, y => by
    simp only [tfvStmt]
    rw [mem_tfvTerm_iff c, mem_tfvTerm_iff p, mem_tfvTerm_iff c (tfvTerm p []), mem_tfvTerm_iff p []]
    simp only [List.not_mem_nil, false_or, or_assoc]
  | .ifc _ a b t e, acc, y => by
    simp only [tfvStmt]
    rw [mem_tfvStmt_iff e, mem_tfvStmt_iff t, mem_tfvTerm_iff b, mem_tfvTerm_iff a,
      mem_tfvStmt_iff e (tfvStmt t _), mem_tfvStmt_iff t (tfvTerm b _), mem_tfvTerm_iff b (tfvTerm a []),
      mem_tfvTerm_iff a []]
    simp only [List.not_mem_nil, false_or, or_assoc]
  | .ifz _ a t e, acc, y => by
    simp only [tfvStmt]
    rw [mem_tfvStmt_iff e, mem_tfvStmt_iff t, mem_tfvTerm_iff a,
      mem_tfvStmt_iff e (tfvStmt t _), mem_tfvStmt_iff t (tfvTerm a _), mem_tfvTerm_iff a []]
    simp only [List.not_mem_nil, false_or, or_assoc]
  | .print _ a n, acc, y => by
    simp only [tfvStmt]
    rw [mem_tfvStmt_iff n, mem_tfvTerm_iff a, mem_tfvStmt_iff n (tfvTerm a []), mem_tfvTerm_iff a []]
    simp only [List.not_mem_nil, false_or, or_assoc]
  | .call _ args _, acc, y => by
    simp only [tfvStmt]
    exact mem_tfvArgs_iff args acc y
  | .exit a _, acc, y => by
    simp only [tfvStmt]
    exact mem_tfvTerm_iff a acc y

theorem mem_tfv_cut {ty : Core.Ty} {p c : Core.Term} {y : Core.Binding} :
    y ∈ tfvStmt (.cut ty p c) [] ↔ y ∈ tfvTerm p [] ∨ y ∈ tfvTerm c [] := by
  simp only [tfvStmt]
  rw [mem_tfvTerm_iff c]

theorem mem_tfv_ifc {srt : Core.IfSort} {a b : Core.Term} {t e : Core.Stmt} {y : Core.Binding} :
    y ∈ tfvStmt (.ifc srt a b t e) [] ↔
      y ∈ tfvTerm a [] ∨ y ∈ tfvTerm b [] ∨ y ∈ tfvStmt t [] ∨ y ∈ tfvStmt e [] := by
  simp only [tfvStmt]
  rw [mem_tfvStmt_iff e, mem_tfvStmt_iff t, mem_tfvTerm_iff b]
  simp only [or_assoc]

theorem mem_tfv_ifz {srt : Core.IfSort} {a : Core.Term} {t e : Core.Stmt} {y : Core.Binding} :
    y ∈ tfvStmt (.ifz srt a t e) [] ↔ y ∈ tfvTerm a [] ∨ y ∈ tfvStmt t [] ∨ y ∈ tfvStmt e [] := by
  simp only [tfvStmt]
  rw [mem_tfvStmt_iff e, mem_tfvStmt_iff t]
  simp only [or_assoc]

theorem mem_tfv_print {nl : Bool} {a : Core.Term} {n : Core.Stmt} {y : Core.Binding} :
    y ∈ tfvStmt (.print nl a n) [] ↔ y ∈ tfvTerm a [] ∨ y ∈ tfvStmt n [] := by
  simp only [tfvStmt]
  rw [mem_tfvStmt_iff n]

theorem mem_tfv_call {f : Core.Ident} {as : Core.Args} {ty : Core.Ty} {y : Core.Binding} :
    y ∈ tfvStmt (.call f as ty) [] ↔ y ∈ tfvArgs as [] := by
  simp only [tfvStmt]

theorem mem_tfv_exit {a : Core.Term} {ty : Core.Ty} {y : Core.Binding} :
    y ∈ tfvStmt (.exit a ty) [] ↔ y ∈ tfvTerm a [] := by
  simp only [tfvStmt]

theorem mem_tfv_var {pc : Core.PC} {v : Core.Ident} {ty : Core.Ty} {y : Core.Binding} :
    y ∈ tfvTerm (.var pc v ty) [] ↔ y = ⟨v, pc, ty⟩ := by
  simp [tfvTerm, bsetInsert]

theorem mem_tfv_op {a b : Core.Term} {o : Core.BinOp} {y : Core.Binding} :
    y ∈ tfvTerm (.op a o b) [] ↔ y ∈ tfvTerm a [] ∨ y ∈ tfvTerm b [] := by
  simp only [tfvTerm]
  rw [mem_tfvTerm_iff b]

theorem mem_tfv_xtor {pc : Core.PC} {k : Core.Ident} {as : Core.Args} {ty : Core.Ty}
    {y : Core.Binding} : y ∈ tfvTerm (.xtor pc k as ty) [] ↔ y ∈ tfvArgs as [] := by
  simp only [tfvTerm]

theorem mem_tfv_xcase {pc : Core.PC} {cs : Core.Clauses} {ty : Core.Ty}
    {y : Core.Binding} : y ∈ tfvTerm (.xcase pc ty cs) [] ↔ y ∈ tfvClauses cs [] := by
  simp only [tfvTerm]

theorem mem_tfv_args_cons {pc : Core.PC} {t : Core.Term} {r : Core.Args} {y : Core.Binding} :
    y ∈ tfvArgs (.cons pc t r) [] ↔ y ∈ tfvTerm t [] ∨ y ∈ tfvArgs r [] := by
  simp only [tfvArgs]
  rw [mem_tfvArgs_iff r]

/-- the free variables of the body of a `μ`, except the bound one, are free in the `μ` -/
theorem mem_tfv_mu_of {pc : Core.PC} {v : Core.Ident} {ty : Core.Ty} {s : Core.Stmt}
    {y : Core.Binding} (h : y ∈ tfvStmt s []) (hne : y.var ≠ v) :
    y ∈ tfvTerm (.mu pc v ty s) [] := by
  simp only [tfvTerm]
  refine mem_bsetExtend_of_mem _ (.inr (mem_bsetRemove_of_ne ?_ h))
  intro e
  exact hne (by rw [e])

theorem mem_tfv_mu {pc : Core.PC} {v : Core.Ident} {ty : Core.Ty} {s : Core.Stmt}
    {y : Core.Binding} (h : y ∈ tfvTerm (.mu pc v ty s) []) : y ∈ tfvStmt s [] := by
  simp only [tfvTerm] at h
  rcases mem_bsetExtend _ h with h | h
  · simp at h
  · exact mem_bsetRemove h

end Scc.Fun2Core.Sem
