/-
  Scc.Fun2Core.SemBack — the backward half of the abstract chunk simulation (SemBase): if the Fun
  machine never gets stuck for a reason other than an arithmetic fault (`Safe`), every finished run
  of the Core machine is matched by a run of the Fun machine, and every Core trace is a prefix of a
  Fun trace.  Uses that in every chunk the Core machine advances or the Fun machine arrives at the
  evaluation of a smaller term (`cpos` of `ContAlt`), that the Core machine is deterministic (it is
  a function) and that its output only grows.
  Proof file; nothing here is executable model code.
-/
import Scc.Fun2Core.SemBase

namespace Scc.Fun2Core.Sem
open Scc

/-- a step of the Core machine only extends the output -/
theorem step_out_mono {q : Core.Prog} {S S' : Core.State} (h : Core.step q S = .next S') :
    S.out <+: S'.out := by
  unfold Core.step at h
  simp only [Core.stepCut, Core.State.pass, Core.State.invoke, Core.State.goto, Core.State.select,
    Core.stuck] at h
  repeat' (split at h)
  all_goals first
    | (cases h; exact List.prefix_refl _)
    | (cases h; exact List.prefix_append _ _)
    | cases h

theorem CSteps.out_mono {q S S' i} (h : CSteps q S S' i) : S.out <+: S'.out := by
  induction h with
  | refl S => exact List.prefix_refl _
  | step hs _ ih => exact (step_out_mono hs).trans ih

/-- with at most as much fuel as steps, the Core run is out of fuel at an intermediate state -/
theorem stepN_mid {q S S' i} (h : CSteps q S S' i) : ∀ m, m ≤ i →
    ∃ S'' : Core.State, Core.stepN q m S = ⟨S''.out, .outOfFuel⟩ ∧ S.out <+: S''.out ∧ S''.out <+: S'.out := by
  induction h with
  | refl S =>
    intro m hm
    have : m = 0 := by omega
    subst this
    exact ⟨S, rfl, List.prefix_refl _, List.prefix_refl _⟩
  | @step S S1 S' i hs hrest ih =>
    intro m hm
    cases m with
    | zero => exact ⟨S, rfl, List.prefix_refl _, (step_out_mono hs).trans hrest.out_mono⟩
    | succ m =>
      obtain ⟨S'', h1, h2, h3⟩ := ih m (by omega)
      exact ⟨S'', by rw [Core.stepN, hs]; exact h1, (step_out_mono hs).trans h2, h3⟩

/-- the Fun machine never gets stuck for a reason other than an arithmetic fault -/
def Safe (p : Fun.CheckedProgram) (s : Fun.State) (acc : Out) : Prop :=
  ∀ n, (Fun.runFrom p n s acc).res = .outOfFuel ∨ Finished (Fun.runFrom p n s acc).res

theorem Safe.steps {p s s' o j acc} (h : Safe p s acc) (hf : FSteps p s s' o j) :
    Safe p s' (o.reverse ++ acc) := by
  intro n
  have := h (j + n)
  rwa [runFrom_FSteps hf] at this

theorem finalOf_ne {sr : Fun.StepResult} {r : Fun.Result} (h : finalOf sr = some r) :
    r ≠ .outOfFuel := by
  cases sr <;> simp [finalOf] at h <;> subst h <;> intro e <;> cases e

/-- the steps of a chunk as one sequence -/
theorem Last.fsteps {p s s1 s' o j} (hf : FSteps p s s1 [] j) (hl : Last p s1 s' o) :
    ∃ jt, FSteps p s s' o jt := by
  rcases hl with ⟨h1, h2⟩ | ⟨e, he, ho'⟩
  · subst h1; subst h2
    exact ⟨j, hf⟩
  · have h1 : FSteps p s1 s' o 1 := by
      subst ho'
      cases e with
      | none => exact .one he
      | some e => exact .oneEmit he
    have := hf.trans h1
    simp only [List.nil_append] at this
    exact ⟨j + 1, this⟩

theorem prefix_antisymm {α} {a b : List α} (h1 : a <+: b) (h2 : b <+: a) : a = b :=
  h1.eq_of_length (Nat.le_antisymm h1.length_le h2.length_le)

/-- the backward half -/
theorem chunkSim_backward {p q R} (hsim : ChunkSim p q R) :
    ∀ (m μ : Nat) (s : Fun.State) (S : Core.State) (acc : Out), msize s = μ → R s S →
      S.out = acc.reverse → Safe p s acc →
      ((Core.stepN q m S).res ≠ .outOfFuel →
        ∃ n r, Fun.runFrom p n s acc = ⟨(Core.stepN q m S).out, r⟩ ∧
          ResMatch r (Core.stepN q m S).res) ∧
      (∃ n, (Core.stepN q m S).out <+: (Fun.runFrom p n s acc).out) := by
  intro m
  induction m using Nat.strongRecOn with
  | _ m ihm =>
    intro μ
    induction μ using Nat.strongRecOn with
    | _ μ ihμ =>
      intro s S acc hμ hR hout hsafe
      rcases hsim s S hR with ⟨j, s1, r, hf, hfin, hcore⟩ |
        ⟨j, s1, s', o, i, S', hf, hlast, _, hcpos, hc, ho, hR'⟩
      · have hrun : Fun.runFrom p (j + (0 + 1)) s acc = ⟨acc.reverse, r⟩ := by
          rw [runFrom_FSteps hf, runFrom_final hfin]; simp
        have hfi : Finished r := by
          have := hsafe (j + (0 + 1))
          rw [hrun] at this
          rcases this with h | h
          · exact absurd h (finalOf_ne hfin)
          · exact h
        obtain ⟨i, S1, r', hc, ho, hs, hm⟩ := hcore hfi
        by_cases hmi : m ≤ i
        · obtain ⟨S'', h1, h2, h3⟩ := stepN_mid hc m hmi
          rw [ho] at h3
          have he : S''.out = acc.reverse := by rw [← hout]; exact prefix_antisymm h3 h2
          rw [h1]
          refine ⟨fun h => absurd rfl h, 0, ?_⟩
          simp [Fun.runFrom, he]
        · obtain ⟨k, rfl⟩ : ∃ k, m = i + (k + 1) := ⟨m - i - 1, by omega⟩
          rw [stepN_CSteps hc, stepN_final hs, ho, hout]
          exact ⟨fun _ => ⟨_, r, hrun, hm⟩, j + (0 + 1), by rw [hrun]; exact List.prefix_refl _⟩
      · obtain ⟨jt, hft⟩ := hlast.fsteps hf
        have hsafe' := hsafe.steps hft
        have hout' : S'.out = (o.reverse ++ acc).reverse := by simp [ho, hout]
        by_cases hmi : m ≤ i
        · obtain ⟨S'', h1, _, h3⟩ := stepN_mid hc m hmi
          rw [h1]
          refine ⟨fun h => absurd rfl h, jt + 0, ?_⟩
          rw [runFrom_FSteps hft]
          simp only [Fun.runFrom]
          rw [← hout']
          exact h3
        · obtain ⟨m', rfl⟩ : ∃ m', m = i + m' := ⟨m - i, by omega⟩
          rw [stepN_CSteps hc]
          have key : ((Core.stepN q m' S').res ≠ .outOfFuel →
              ∃ n r, Fun.runFrom p n s' (o.reverse ++ acc) = ⟨(Core.stepN q m' S').out, r⟩ ∧
                ResMatch r (Core.stepN q m' S').res) ∧
              (∃ n, (Core.stepN q m' S').out <+: (Fun.runFrom p n s' (o.reverse ++ acc)).out) := by
            by_cases hi : 1 ≤ i
            · exact ihm m' (by omega) (msize s') s' S' _ rfl hR' hout' hsafe'
            · have hi0 : i = 0 := by omega
              subst hi0
              have hlt : msize s' < μ := by
                rcases hcpos rfl with h | h
                · exact absurd h hi
                · rw [← hμ]; exact h
              have := ihμ (msize s') hlt s' S' _ rfl hR' hout' hsafe'
              simpa using this
          obtain ⟨k1, k2⟩ := key
          constructor
          · intro hne
            obtain ⟨n, r, hn, hr⟩ := k1 hne
            exact ⟨jt + n, r, by rw [runFrom_FSteps hft]; exact hn, hr⟩
          · obtain ⟨n, hn⟩ := k2
            exact ⟨jt + n, by rw [runFrom_FSteps hft]; exact hn⟩

end Scc.Fun2Core.Sem
