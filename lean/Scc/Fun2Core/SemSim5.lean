/-
  Scc.Fun2Core.SemSim5 — returning a value to a `μ~` continuation (`ret_mu`, by recursion on the
  derivation of the continuation relation: lifted continuations nest) and passing the value of a
  focused producer to the consumer of a cut (`pass_chunk`).
-/
import Scc.Fun2Core.SemSim4

namespace Scc.Fun2Core.Sem
open Scc

variable {q : Core.Prog} {p : Fun.CheckedProgram}

theorem Chunk.prefixCore {Rr : Fun.State → Core.State → Prop} {b c : Bool} {μ : Nat} {s : Fun.State}
    {S S0 : Core.State} {i0 : Nat} (hc : CSteps q S S0 i0) (hout : S0.out = S.out)
    (h : Chunk p q Rr b c μ s S0) : Chunk p q Rr b c μ s S := by
  rcases h with ⟨j, s1, r, h1, h2, h3⟩ | ⟨j, s1, s', o, i, S', h1, h2, h3, h3', h4, h5, h6⟩
  · refine .inl ⟨j, s1, r, h1, h2, fun hfin => ?_⟩
    obtain ⟨i, S1, r', g1, g2, g3, g4⟩ := h3 hfin
    exact ⟨i0 + i, S1, r', hc.trans g1, by rw [g2, hout], g3, g4⟩
  · refine .inr ⟨j, s1, s', o, i0 + i, S', h1, h2, h3, fun h => ?_, hc.trans h4, by rw [h5, hout], h6⟩
    rcases h3' h with h | h
    · exact .inl (by omega)
    · exact .inr h

/-- after at least one Core step, any chunk is a chunk in which the Core machine advances -/
theorem Chunk.prefixCorePos {Rr : Fun.State → Core.State → Prop} {b c : Bool} {μ0 μ : Nat}
    {s : Fun.State} {S S0 : Core.State} {i0 : Nat} (hc : CSteps q S S0 i0) (hpos : 1 ≤ i0)
    (hout : S0.out = S.out) (h : Chunk p q Rr b c μ0 s S0) : Chunk p q Rr b true μ s S := by
  rcases h with ⟨j, s1, r, h1, h2, h3⟩ | ⟨j, s1, s', o, i, S', h1, h2, h3, _, h4, h5, h6⟩
  · refine .inl ⟨j, s1, r, h1, h2, fun hfin => ?_⟩
    obtain ⟨i, S1, r', g1, g2, g3, g4⟩ := h3 hfin
    exact ⟨i0 + i, S1, r', hc.trans g1, by rw [g2, hout], g3, g4⟩
  · exact .inr ⟨j, s1, s', o, i0 + i, S', h1, h2, h3, fun _ => .inl (by omega), hc.trans h4,
      by rw [h5, hout], h6⟩

/-! ## calling a lifted definition -/

theorem argsAllVar_bindingsToArgs : ∀ (bs : List Core.Binding), argsAllVar (bindingsToArgs bs) = true
  | [] => rfl
  | b :: bs => by simp [bindingsToArgs, argsAllVar, Core.Term.isVar, argsAllVar_bindingsToArgs bs]

/-- the call of a lifted definition with its own parameter list as arguments: the new environment
binds exactly the parameters, to their current values -/
theorem shared_call_env {ρ : CEnv} : ∀ (bs : List Core.Binding), BoundOn bs ρ →
    ∃ vals ρn, Core.argVals ρ (bindingsToArgs bs) = .ok vals ∧ Core.Env.bind [] bs vals = .ok ρn ∧
      ∀ b ∈ bs, Core.Env.lookup ρn b.var = Core.Env.lookup ρ b.var
  | [], _ => ⟨[], [], rfl, rfl, by simp⟩
  | b :: bs, h => by
    obtain ⟨V, hV⟩ := h b (by simp)
    obtain ⟨vals, ρn, h1, h2, h3⟩ := shared_call_env bs (h.mono fun _ hb => by simp [hb])
    refine ⟨V :: vals, (b.var, V) :: ρn, by simp [bindingsToArgs, Core.argVals, hV, h1],
      by simp [Core.Env.bind, h2], fun b' hb' => ?_⟩
    rw [lookup_cons]
    by_cases hx : b.var = b'.var
    · simp [hx, ← hV]
    · simp only [hx, if_false]
      rcases List.mem_cons.1 hb' with rfl | hb''
      · exact absurd rfl hx
      · exact h3 b' hb''

/-! ## the shapes of related consumer values -/

theorem KRel.shape {n : Nat} {k : Fun.Stack} {cv : CVal} (h : KRel (GP p) p q n k cv) :
    (∃ ρc y s, cv = .mutilde ρc y s) ∨ (∃ ρc cs, cv = .case ρc cs) := by
  cases h <;> first | exact .inl ⟨_, _, _, rfl⟩ | exact .inr ⟨_, _, rfl⟩

/-- passing the value of a focused producer to the consumer of the cut, given how the related
consumer value continues -/
theorem pass_core {cty : Core.Ty} (hnc : Core.isCodata q.codataTypes cty = false) {A c : Core.Term} {ρ0 ρ : CEnv}
    {out : Out} {n : Nat} {k : Fun.Stack} {v : Fun.Value} {V cv0 : CVal}
    (hA : isFocusedVal A = true) (hV : Core.prdVal ρ A = .ok V)
    (hcv : Core.cnsVal ρ0 c = .ok cv0) (hi : Inert c) (hag : AgreeOn (tfvTerm c []) ρ0 ρ)
    (hshape : (∃ ρc y s, cv0 = .mutilde ρc y s) ∨ (∃ ρc cs, cv0 = .case ρc cs))
    (IHmu : ∀ ρc y s', cv0 = .mutilde ρc y s' → ∀ ρ1, AgreeOn (tfvStmt s' []) ((y, V) :: ρc) ρ1 →
      Chunk p q (R p q) true false 0 (.ret v k) ⟨s', ρ1, out, n⟩)
    (IHcase : ∀ ρc cs', cv0 = .case ρc cs' → ∀ ρ1 (S : Core.State), S.fresh = n →
      AgreeOn (tfvClauses cs' []) ρc ρ1 → Core.step q S = S.pass V (.case ρ1 cs') →
      Chunk p q (R p q) true true μ (.ret v k) S) :
    Chunk p q (R p q) true true μ (.ret v k) ⟨.cut cty A c, ρ, out, n⟩ := by
  cases c with
  | xtor pc nm as ty => exact False.elim hi
  | lit m => simp [Core.cnsVal] at hcv
  | op a o b => simp [Core.cnsVal] at hcv
  | var pc a ty =>
    simp only [Core.cnsVal] at hcv
    have hl : Core.Env.lookup ρ a = .ok cv0 := by
      rw [hag ⟨a, pc, ty⟩ (mem_tfv_var.2 rfl)]; exact hcv
    have hs := step_cut_pass (q := q) (cty := cty) hnc (out := out) (n := n) hA hi hV
      (c := .var pc a ty) (cv := cv0) (by simpa [Core.cnsVal] using hl)
    rcases hshape with ⟨ρc, y, s', rfl⟩ | ⟨ρc, cs', rfl⟩
    · simp only [Core.State.pass, Core.State.goto] at hs
      exact Chunk.prefixCorePos (.one hs) (Nat.le_refl 1) rfl (IHmu ρc y s' rfl _ (.refl _ _))
    · exact IHcase ρc cs' rfl ρc _ rfl (.refl _ _) hs
  | mu pc y ty s' =>
    simp only [Core.cnsVal, Except.ok.injEq] at hcv
    subst hcv
    have hs := step_cut_pass (q := q) (cty := cty) hnc (out := out) (n := n) hA hi hV
      (c := .mu pc y ty s') (cv := .mutilde ρ y s') rfl
    simp only [Core.State.pass, Core.State.goto] at hs
    refine Chunk.prefixCorePos (.one hs) (Nat.le_refl 1) rfl (IHmu ρ0 y s' rfl _ ?_)
    exact AgreeOn.cons (hag.mono fun b hb => by
      obtain ⟨h1, h2⟩ := List.mem_filter.1 hb
      exact mem_tfv_mu_of h1 (by simpa using h2))
  | xcase pc ty cs =>
    simp only [Core.cnsVal, Except.ok.injEq] at hcv
    subst hcv
    have hs := step_cut_pass (q := q) (cty := cty) hnc (out := out) (n := n) hA hi hV
      (c := .xcase pc ty cs) (cv := .case ρ cs) rfl
    exact IHcase ρ0 cs rfl ρ _ rfl (by simpa [tfvTerm] using hag) hs

/-! ## returning a value to a `μ~` continuation -/

theorem sigmaName_ne_id0 (i : Nat) {y : String} (hy : y ≠ sig) : Core.sigmaName i ≠ ⟨y, 0⟩ := by
  intro e
  have : sig = y := by
    have := congrArg Core.Ident.name e
    simpa [sigmaName_name] using this
  exact hy this.symm

theorem lookup_sig_cons {i : Nat} {V : CVal} {ρ : CEnv} {y : String} (hy : y ≠ sig) :
    Core.Env.lookup ((Core.sigmaName i, V) :: ρ) ⟨y, 0⟩ = Core.Env.lookup ρ ⟨y, 0⟩ :=
  lookup_cons_ne (sigmaName_ne_id0 i hy) _ _

mutual
/-- the Fun machine returns `v` to the stack `k`, the Core machine runs the body of the related
`μ~`-closure with its variable bound to the related value (in any environment that agrees with the
closure environment on the free variables of the body) -/
theorem ret_mu (X : Ctx p q) {n : Nat} : ∀ {k : Fun.Stack} {cv : CVal}, KRel (GP p) p q n k cv →
    ∀ {ρ : CEnv} {x : Core.Ident} {s : Core.Stmt}, cv = .mutilde ρ x s →
    ∀ {v : Fun.Value} {V : CVal} {ρ1 : CEnv} {out : Out} {n' : Nat}, VRel (GP p) p q n v V → n ≤ n' →
      AgreeOn (tfvStmt s []) ((x, V) :: ρ) ρ1 →
      Chunk p q (R p q) true false 0 (.ret v k) ⟨s, ρ1, out, n'⟩
  | _, _, .main, ρ, x, s, e, v, V, ρ1, out, n', hv, hn, ha => by
    cases e
    apply Chunk.weakenC (c := true) (μ := 0)
    refine cont_main ?_ (hv.mono hn)
    rw [ha _ (mem_tfv_exit.2 (mem_tfv_var.2 rfl))]
    exact lookup_cons_self _ _ _
  | _, _, .exitF, ρ, x, s, e, v, V, ρ1, out, n', hv, hn, ha => by
    cases e
    apply Chunk.weakenC (c := true) (μ := 0)
    refine cont_exit ?_ (hv.mono hn)
    rw [ha _ (mem_tfv_exit.2 (mem_tfv_var.2 rfl))]
    exact lookup_cons_self _ _ _
  | _, _, .letF (x := x0) (body := body) (env := env) (k := k) (ρ0 := ρ0) g hc he hr hy bd a,
      ρ, x, s, e, v, V, ρ1, out, n', hv, hn, ha => by
    cases e
    have f1 : Fun.step p (.ret v (.letF x0 body env :: k)) =
        .next (.eval body ((x0, v) :: env) k) none := rfl
    refine .inr ⟨0, _, _, [], 0, _, .refl _, .inr ⟨none, f1, rfl⟩,
      (fun _ => .inr (.inl (by intro h; cases h))), (fun h => by cases h), .refl _, by simp, ?_⟩
    exact SRel.eval (ρ0 := (⟨x0, 0⟩, V) :: ρ0) g (hc.mono hn)
      (EnvRel.bind (he.mono hn) (hv.mono hn))
      ((hr.mono hn).agree (AgreeOn.cons_right (.refl _ _) hy)) (BoundOn.cons bd)
      ((AgreeOn.cons a).trans ha)
  | _, _, .ifL (srt := srt) (b := b) (t := t) (e := e') (env := env) (k := k) (ρ0 := ρ0) (i := i)
      (ty := ty) (B := B) (T := T) (E := E) g1 g2 g3 hi hbt cb ct ce he hr bd a,
      ρ, x, s, e, v, V, ρ1, out, n', hv, hn, ha => by
    cases e
    obtain ⟨stb, stb', hcb, hstb, htnb⟩ := cb
    have hfs : ∀ y ∈ fv b ++ fv t ++ fv e', y ≠ sig := by
      intro y hy
      simp only [List.mem_append] at hy
      rcases hy with (h | h) | h
      · exact htnb.fv_ne_sig y h
      · exact ct.fv_ne_sig y h
      · exact ce.fv_ne_sig y h
    have hag1 := (AgreeOn.cons (V := V) a).trans ha
    have hbd1 := BoundOn.cons (V := V) bd
    apply Chunk.weakenC (c := true) (μ := 0)
    refine cont_ifL X.cod (ρ0 := (Core.sigmaName i, V) :: ρ0) g1 g2 g3 hbt hcb hstb htnb ct ce
      (by omega) ?_ ?_
      (hbd1.mono fun y hy => mem_tfv_ifc.2 (.inr (.inl hy)))
      (hbd1.mono fun y hy => mem_tfv_ifc.2 (.inr (.inr (.inl hy))))
      (hbd1.mono fun y hy => mem_tfv_ifc.2 (.inr (.inr (.inr hy))))
      (hag1.mono fun y hy => mem_tfv_ifc.2 (.inr (.inl hy)))
      (hag1.mono fun y hy => mem_tfv_ifc.2 (.inr (.inr (.inl hy))))
      (hag1.mono fun y hy => mem_tfv_ifc.2 (.inr (.inr (.inr hy))))
      ?_ (fun _ => by simp only [sigmaName_id]; omega) (hv.mono hn)
    · exact (he.mono hn).agree fun y hy => lookup_sig_cons (hfs y hy)
    · refine (hr.mono hn).agree (AgreeOn.cons_right (.refl _ _) fun b hb e => ?_)
      have := ct.sig_lt (Nat.le_refl i) b hb (by rw [e]; rfl)
      rw [e] at this
      simp [sigmaName_id] at this
    · rw [ha _ (mem_tfv_ifc.2 (.inl (mem_tfv_var.2 rfl)))]
      exact lookup_cons_self _ _ _
  | _, _, .ifR (srt := srt) (a := a0) (t := t) (e := e') (env := env) (k := k) (ρ0 := ρ0) (i := i)
      (z := z) (ty := ty) (ty' := ty') (T := T) (E := E) g2 g3 hi hz hl ct ce he hr bd a,
      ρ, x, s, e, v, V, ρ1, out, n', hv, hn, ha => by
    cases e
    have hfs : ∀ y ∈ fv t ++ fv e', y ≠ sig := by
      intro y hy
      rcases List.mem_append.1 hy with h | h
      · exact ct.fv_ne_sig y h
      · exact ce.fv_ne_sig y h
    have hag0 := AgreeOn.cons (V := V) a
    have hbd1 : BoundOn (tfvStmt T [] ++ tfvStmt E []) ((Core.sigmaName i, V) :: ρ0) :=
      BoundOn.cons bd
    have hsub : ∀ y ∈ tfvStmt T [] ++ tfvStmt E [], y ∈ tfvStmt (.ifc (compileSort srt)
        (.var .prd z ty) (.var .prd (Core.sigmaName i) ty') T E) [] := by
      intro y hy
      rcases List.mem_append.1 hy with h | h
      · exact mem_tfv_ifc.2 (.inr (.inr (.inl h)))
      · exact mem_tfv_ifc.2 (.inr (.inr (.inr h)))
    have hag1 : AgreeOn (tfvStmt T [] ++ tfvStmt E []) ((Core.sigmaName i, V) :: ρ0) ρ1 :=
      hag0.trans (ha.mono hsub)
    apply Chunk.weakenC (c := true) (μ := 0)
    refine cont_ifR (ρ0 := (Core.sigmaName i, V) :: ρ0) g2 g3 ct ce (by omega) ?_ ?_
      (hbd1.mono fun y hy => List.mem_append.2 (.inl hy))
      (hbd1.mono fun y hy => List.mem_append.2 (.inr hy))
      (hag1.mono fun y hy => List.mem_append.2 (.inl hy))
      (hag1.mono fun y hy => List.mem_append.2 (.inr hy)) ?_ ?_ (hv.mono hn)
    · exact (he.mono hn).agree fun y hy => lookup_sig_cons (hfs y hy)
    · refine (hr.mono hn).agree (AgreeOn.cons_right (.refl _ _) fun b hb e => ?_)
      have := ct.sig_lt (Nat.le_refl i) b hb (by rw [e]; rfl)
      rw [e] at this
      simp [sigmaName_id] at this
    · rw [ha _ (mem_tfv_ifc.2 (.inl (mem_tfv_var.2 rfl))), lookup_cons_ne (fun e => hz e.symm)]
      exact hl
    · rw [ha _ (mem_tfv_ifc.2 (.inr (.inl (mem_tfv_var.2 rfl))))]
      exact lookup_cons_self _ _ _
  | _, _, .ifZ (srt := srt) (t := t) (e := e') (env := env) (k := k) (ρ0 := ρ0) (i := i)
      (ty := ty) (T := T) (E := E) g2 g3 hi ct ce he hr bd a,
      ρ, x, s, e, v, V, ρ1, out, n', hv, hn, ha => by
    cases e
    have hfs : ∀ y ∈ fv t ++ fv e', y ≠ sig := by
      intro y hy
      rcases List.mem_append.1 hy with h | h
      · exact ct.fv_ne_sig y h
      · exact ce.fv_ne_sig y h
    have hag1 := (AgreeOn.cons (V := V) a).trans ha
    have hbd1 := BoundOn.cons (V := V) bd
    apply Chunk.weakenC (c := true) (μ := 0)
    refine cont_ifZ (ρ0 := (Core.sigmaName i, V) :: ρ0) g2 g3 ct ce (by omega) ?_ ?_
      (hbd1.mono fun y hy => mem_tfv_ifz.2 (.inr (.inl hy)))
      (hbd1.mono fun y hy => mem_tfv_ifz.2 (.inr (.inr hy)))
      (hag1.mono fun y hy => mem_tfv_ifz.2 (.inr (.inl hy)))
      (hag1.mono fun y hy => mem_tfv_ifz.2 (.inr (.inr hy))) ?_ (hv.mono hn)
    · exact (he.mono hn).agree fun y hy => lookup_sig_cons (hfs y hy)
    · refine (hr.mono hn).agree (AgreeOn.cons_right (.refl _ _) fun b hb e => ?_)
      have := ct.sig_lt (Nat.le_refl i) b hb (by rw [e]; rfl)
      rw [e] at this
      simp [sigmaName_id] at this
    · rw [ha _ (mem_tfv_ifz.2 (.inl (mem_tfv_var.2 rfl)))]
      exact lookup_cons_self _ _ _
  | _, _, .print (nl := nl) (next := next) (env := env) (k := k) (ρ0 := ρ0) (i := i)
      (ty := ty) (N := N) g hi cn he hr bd a,
      ρ, x, s, e, v, V, ρ1, out, n', hv, hn, ha => by
    cases e
    have hag1 := (AgreeOn.cons (V := V) a).trans ha
    have hbd1 := BoundOn.cons (V := V) bd
    apply Chunk.weakenC (c := true) (μ := 0)
    refine cont_print (ρ0 := (Core.sigmaName i, V) :: ρ0) g cn (by omega) ?_ ?_
      (hbd1.mono fun y hy => mem_tfv_print.2 (.inr hy))
      (hag1.mono fun y hy => mem_tfv_print.2 (.inr hy)) ?_ (hv.mono hn)
    · exact (he.mono hn).agree fun y hy => lookup_sig_cons (cn.fv_ne_sig y hy)
    · refine (hr.mono hn).agree (AgreeOn.cons_right (.refl _ _) fun b hb e => ?_)
      have := cn.sig_lt (Nat.le_refl i) b hb (by rw [e]; rfl)
      rw [e] at this
      simp [sigmaName_id] at this
    · rw [ha _ (mem_tfv_print.2 (.inl (mem_tfv_var.2 rfl)))]
      exact lookup_cons_self _ _ _
  | _, _, .caseF .., ρ, x, s, e, _, _, _, _, _, _, _, _ => by cases e
  | _, _, .shared (ρ0 := ρ0) (x := x0) (d := d) (ty := ty) hd hc hk bd a,
      ρ, x, s, e, v, V, ρ1, out, n', hv, hn, ha => by
    cases e
    have hag1 := (AgreeOn.cons (V := V) a).trans ha
    have hmem : ∀ b ∈ d.ctx, b ∈ tfvStmt (.call d.name (bindingsToArgs d.ctx) ty) [] := by
      intro b hb
      exact mem_tfv_call.2 ((mem_tfvArgs_bindingsToArgs _ _).2 (.inr hb))
    have hb1 : BoundOn d.ctx ρ1 := by
      intro b hb
      rw [hag1 b (hmem b hb)]
      exact BoundOn.cons bd b (hmem b hb)
    obtain ⟨vals, ρn, h1, h2, h3⟩ := shared_call_env d.ctx hb1
    have hs := step_call_vars (q := q) (f := d.name) (ty := ty) (out := out) (n := n')
      (argsAllVar_bindingsToArgs d.ctx) (find_of_mem_nodup hd X.nodup) h1 h2
    refine Chunk.prefixCore (.one hs) rfl (ret_mu X hk rfl hv hn ?_)
    intro b hb
    have hb' : b ∈ d.ctx := by rw [hc]; exact hb
    rw [h3 b hb', hag1 b (hmem b hb')]
  | _, _, .eta (ρ0 := ρ0) (x := x0) (ty := ty) (ty' := ty') (c := c) hr hy hnc hck bd a,
      ρ, x, s, e, v, V, ρ1, out, n', hv, hn, ha => by
    cases e
    have hag1 := (AgreeOn.cons (V := V) a).trans ha
    apply Chunk.weakenC (c := true) (μ := 0)
    refine pass_cr X hr hck hnc (A := .var .prd x0 ty') rfl ?_ hv hn ?_
    · simp only [Core.prdVal]
      rw [ha _ (mem_tfv_cut.2 (.inl (mem_tfv_var.2 rfl)))]
      exact lookup_cons_self _ _ _
    · intro b hb
      rw [hag1 b (mem_tfv_cut.2 (.inr hb)), lookup_cons_ne (fun e => hy b hb e.symm)]
/-- the value of a focused producer is passed to the consumer of the cut -/
theorem pass_cr (X : Ctx p q) {n : Nat} : ∀ {k : Fun.Stack} {c : Core.Term} {ρ0 : CEnv},
    CRel (GP p) p q n k c ρ0 → Core.isCodata q.codataTypes (coreGetType c) = false →
      ∀ {cty : Core.Ty}, Core.isCodata q.codataTypes cty = false →
      ∀ {A : Core.Term} {ρ : CEnv} {out : Out} {n' : Nat}
      {v : Fun.Value} {V : CVal}, isFocusedVal A = true → Core.prdVal ρ A = .ok V →
      VRel (GP p) p q n v V → n ≤ n' → AgreeOn (tfvTerm c []) ρ0 ρ →
      ∀ {μ : Nat}, Chunk p q (R p q) true true μ (.ret v k) ⟨.cut cty A c, ρ, out, n'⟩
  | _, _, _, .mk hcv hk hi _ _, _, _, hnc, _, _, _, _, _, _, hA, hV, hv, hn, hag, _ =>
    pass_core hnc hA hV hcv hi hag hk.shape
      (fun _ _ _ e _ ha' => ret_mu X hk e hv hn ha')
      (fun _ _ e _ S hS ha' hs' => ret_case (e ▸ hk) hv (hS ▸ hn) ha' hs')
  | _, _, _, .mkD _ _ _ _ hty, hck, _, _, _, _, _, _, _, _, _, _, _, _, _, _ => by
    rw [hty] at hck; cases hck
  | _, _, _, .dtor _ _ _ _ _ _ _ _ _ _ _ hty, hck, _, _, _, _, _, _, _, _, _, _, _, _, _, _ => by
    simp only [coreGetType] at hck; rw [hty] at hck; cases hck
end

theorem pass_chunk (X : Ctx p q) {cty : Core.Ty} (hnc : Core.isCodata q.codataTypes cty = false)
    {A c : Core.Term} {ρ0 ρ : CEnv}
    {out : Out} {n : Nat} {k : Fun.Stack} {v : Fun.Value} {V : CVal}
    (hA : isFocusedVal A = true) (hV : Core.prdVal ρ A = .ok V) (hv : VRel (GP p) p q n v V)
    (hr : CRel (GP p) p q n k c ρ0) (hck : Core.isCodata q.codataTypes (coreGetType c) = false)
    (hag : AgreeOn (tfvTerm c []) ρ0 ρ) :
    Chunk p q (R p q) true true μ (.ret v k) ⟨.cut cty A c, ρ, out, n⟩ :=
  pass_cr X hr hck hnc hA hV hv (Nat.le_refl n) hag

end Scc.Fun2Core.Sem
