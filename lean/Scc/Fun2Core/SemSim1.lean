/-
  Scc.Fun2Core.SemSim1 — the operand lemma of the simulation: a term of the fragment in operand
  position of a Core statement (`S[compile b]`, leftmost non-variable position) against the Fun
  machine evaluating `b` under the frame `F` that corresponds to `S`.
-/
import Scc.Fun2Core.SemSim0

namespace Scc.Fun2Core.Sem
open Scc

variable {q : Core.Prog} {p : Fun.CheckedProgram}

abbrev R (p : Fun.CheckedProgram) (q : Core.Prog) : Fun.State → Core.State → Prop := SRel (GP p) p q

/-- the Core program declares the translated codata types of the source program -/
def CodOK (p : Fun.CheckedProgram) (q : Core.Prog) : Prop :=
  ∀ τ : Fun.Ty, Core.isCodata q.codataTypes (compileTy τ) = Fun.isCodataTy p τ

theorem isCodata_i64 (q : Core.Prog) : Core.isCodata q.codataTypes .i64 = false := rfl

theorem CodOK.ncd {p : Fun.CheckedProgram} {q : Core.Prog} (h : CodOK p q) {ty : Option Fun.Ty}
    (hn : ncdO p ty = true) : ∃ τ, ty = some τ ∧ Core.isCodata q.codataTypes (compileTy τ) = false := by
  cases ty with
  | none => simp [ncdO] at hn
  | some τ => exact ⟨τ, rfl, by rw [h τ]; simpa [ncdO] using hn⟩

/-! ## the three kinds of operands -/

section
variable (hcod : CodOK p q)
  {env : Fun.Env} {K : Fun.Stack} {ρ0 ρ : CEnv} {n : Nat} {out : Out} {cp : Bool} {μ : Nat} (Sx : Core.Term → Core.Stmt)
  (hsp : ∀ A, A.isVar = false → (Sx A).split = some (.prd, A, Sx))
  (hK : ∀ τ, KRel (GP p) p q (n + 1) K
    (.mutilde ρ (Core.sigmaName n) (Sx (.var .prd (Core.sigmaName n) τ))))
  (hF : ∀ ρ' n' z τ v V, n ≤ n' → SigExt n ρ ρ' → Core.Env.lookup ρ' z = .ok V →
    VRel (GP p) p q n v V → (z.name = sig → z.id < n') →
    Chunk p q (R p q) true cp μ (.ret v K) ⟨Sx (.var .prd z τ), ρ', out, n'⟩)
include hsp

/-- a direct producer in operand position -/
theorem operand_direct {b : Fun.Term} (hd : pureD p (goodClauses p) b = true) {ty0 : Core.Ty}
    {st : CompileState}
    {B : Core.Term} {st' : CompileState} (hcB : compile b ty0 st = .ok (B, st'))
    (hst : StOK q st') (htn : TermNames b st) (he : EnvRel (GP p) p q n (fv b) env ρ0)
    (hbd : BoundOn (tfvTerm B []) ρ0) (hag : AgreeOn (tfvTerm B []) ρ0 ρ)
    (hncB : Core.isCodata q.codataTypes B.ty = false)
    (hF : ∀ ρ' n' z τ v V, n ≤ n' → SigExt n ρ ρ' → Core.Env.lookup ρ' z = .ok V →
      VRel (GP p) p q n v V → (z.name = sig → z.id < n') →
      Chunk p q (R p q) true cp μ (.ret v K) ⟨Sx (.var .prd z τ), ρ', out, n'⟩) :
    Chunk p q (R p q) false cp μ (.eval b env K) ⟨Sx B, ρ, out, n⟩ := by
  rcases direct_sim (p := p) (goodClauses p) (goodClauses_find p) b hd env K ty0 st B st' n ρ0 ρ n
      hcB hst htn he hbd hag with
    ⟨v, j, hj, fj, hv⟩ | ⟨j, s1, w, fj, h1, h2⟩ | ⟨j, s1, w, r', fj, h1, h2, h3, _, h5⟩
  · obtain ⟨i, ρ', n', z, τ, V, hc, hn, hext, hl, hvr, hb⟩ :=
      core_operand' hv Sx out (hsp B)
    exact Chunk.prefix fj hc rfl (fun _ => hj) (fun h => .inr h) (hF ρ' n' z τ v V hn hext hl hvr hb).weaken
  · exact .inl ⟨j, s1, .stuck w, fj, by rw [h1]; rfl, fun hf => absurd hf (bad_not_finished h2)⟩
  · refine .inl ⟨j, s1, .stuck w, fj, by rw [h1]; rfl, fun _ => ?_⟩
    have s1' := step_sigma (q := q) (st := ⟨Sx B, ρ, out, n⟩) (hsp B h3)
    simp only [Core.sigmaCut] at s1'
    obtain ⟨i, S1, hc, ho, hs⟩ := h5 _ B.ty out (mu_inert (Core.sigmaName n) B.ty _) hncB
    exact ⟨1 + i, S1, r', (CSteps.one s1').trans hc, ho, hs, h2⟩

/-- a term translated by the default body of `compile` (`μa.⟦b⟧_a`) in operand position -/
theorem operand_default {b : Fun.Term} (hg : good p b = true) {ty0 : Core.Ty} {st : CompileState}
    {B : Core.Term} {st' : CompileState} (hcB : compile b ty0 st = .ok (B, st'))
    (hdef : compile b ty0 st = defaultCompile (compileWithCont b) ty0 st)
    (hnc0 : Core.isCodata q.codataTypes ty0 = false)
    (hst : StOK q st') (htn : TermNames b st) (he : EnvRel (GP p) p q n (fv b) env ρ0)
    (hbd : BoundOn (tfvTerm B []) ρ0) (hag : AgreeOn (tfvTerm B []) ρ0 ρ)
    (hK : ∀ τ, KRel (GP p) p q (n + 1) K
      (.mutilde ρ (Core.sigmaName n) (Sx (.var .prd (Core.sigmaName n) τ)))) :
    Chunk p q (R p q) false cp μ (.eval b env K) ⟨Sx B, ρ, out, n⟩ := by
  rw [hdef, defaultCompile_eq] at hcB
  cases hx : compileWithCont b (.var .cns ⟨(freshCovar st).1, 0⟩ ty0) (freshCovar st).2 with
  | error e => simp [hx] at hcB
  | ok r =>
    obtain ⟨s, st1⟩ := r
    simp only [hx, Except.ok.injEq, Prod.mk.injEq] at hcB
    obtain ⟨rfl, rfl⟩ := hcB
    -- the two Core steps
    have s1 := step_sigma (q := q) (st := ⟨Sx (.mu .prd ⟨(freshCovar st).1, 0⟩ ty0 s), ρ, out, n⟩)
      (hsp _ rfl)
    simp only [Core.sigmaCut, Core.Term.ty] at s1
    have s2 := step_cut_mu (q := q) (cty := ty0) (ty := ty0) hnc0 (a := ⟨(freshCovar st).1, 0⟩) (s := s)
      (ρ := ρ) (out := out) (n := n + 1)
      (mu_inert (Core.sigmaName n) ty0 (Sx (.var .prd (Core.sigmaName n) ty0))) rfl .prd
    have ha_fresh := freshCovar_not_mem st
    have ha_sig := freshCovar_ne_sig st
    refine .inr ⟨0, _, _, [], 2, _, .refl _, .inl ⟨rfl, rfl⟩, (fun h => by cases h), (fun _ => .inl (by decide)),
      (CSteps.one s1).trans (.one s2), by simp, ?_⟩
    refine SRel.eval (c := .var .cns ⟨(freshCovar st).1, 0⟩ ty0)
      (ρ0 := (⟨(freshCovar st).1, 0⟩,
        .mutilde ρ (Core.sigmaName n) (Sx (.var .prd (Core.sigmaName n) ty0))) :: ρ0) hg ?_ ?_ ?_ ?_ ?_
    · refine ⟨(freshCovar st).2, st1, hx, hst, ?_, ?_⟩
      · refine htn.mono (fun x hx => ?_) ?_
        · rw [freshCovar_used]; exact List.mem_cons_of_mem _ hx
        · rw [freshCovar_used]
          simp only [List.mem_cons, not_or]
          exact ⟨fun e => ha_sig e.symm, htn.nosig⟩
      · intro b hb
        simp only [occTerm, List.mem_singleton] at hb
        subst hb
        exact .inr ⟨ha_sig, by rw [freshCovar_used]; exact List.mem_cons_self⟩
    · refine (he.mono (Nat.le_succ n)).agree fun y hy => lookup_cons_ne ?_ _ _
      intro e
      have : (freshCovar st).1 = y := by cases e; rfl
      exact ha_fresh (this ▸ htn.fv y hy)
    · exact .mk (cv := .mutilde ρ (Core.sigmaName n) (Sx (.var .prd (Core.sigmaName n) ty0)))
        (by simp [Core.cnsVal, lookup_cons]) (hK ty0) trivial
        (fun b hb => by rw [mem_tfv_var] at hb; subst hb; exact ⟨_, lookup_cons_self _ _ _⟩) hnc0
    · exact BoundOn.cons (hbd.mono fun y hy => by
        obtain ⟨h1, h2⟩ := List.mem_filter.1 hy
        exact mem_tfv_mu_of h1 (by simpa using h2))
    · exact AgreeOn.cons (hag.mono fun y hy => by
        obtain ⟨h1, h2⟩ := List.mem_filter.1 hy
        exact mem_tfv_mu_of h1 (by simpa using h2))

/-- a `label` in operand position -/
theorem operand_label {a : String} {t : Fun.Term} {lty : Option Fun.Ty}
    (hg : good p (.label a t lty) = true) (hlty : lty = some .i64) {ty0 : Core.Ty} {st : CompileState}
    {B : Core.Term} {st' : CompileState} (hcB : compile (.label a t lty) ty0 st = .ok (B, st'))
    (hst : StOK q st') (htn : TermNames (.label a t lty) st)
    (he : EnvRel (GP p) p q n (fv (.label a t lty)) env ρ0)
    (hbd : BoundOn (tfvTerm B []) ρ0) (hag : AgreeOn (tfvTerm B []) ρ0 ρ)
    (hK : ∀ τ, KRel (GP p) p q (n + 1) K
      (.mutilde ρ (Core.sigmaName n) (Sx (.var .prd (Core.sigmaName n) τ)))) :
    Chunk p q (R p q) false cp μ (.eval (.label a t lty) env K) ⟨Sx B, ρ, out, n⟩ := by
  rw [c_label] at hcB
  simp only [good, Bool.and_eq_true] at hg
  obtain ⟨hgt, _⟩ := hg
  subst hlty
  have hnc : Core.isCodata q.codataTypes (compileTy .i64) = false := rfl
  generalize hτ : Fun.Ty.i64 = τ at hcB hnc htn he ⊢
  have hlty : True := trivial
  cases hlty with
  | intro =>
    simp only at hcB
    cases hx : compileWithCont t (.var .cns ⟨a, 0⟩ (compileTy τ)) st with
    | error e => simp [hx] at hcB
    | ok r =>
      obtain ⟨s, st1⟩ := r
      simp only [hx, Except.ok.injEq, Prod.mk.injEq] at hcB
      obtain ⟨rfl, rfl⟩ := hcB
      have s1 := step_sigma (q := q) (st := ⟨Sx (.mu .prd ⟨a, 0⟩ (compileTy τ) s), ρ, out, n⟩)
        (hsp _ rfl)
      simp only [Core.sigmaCut, Core.Term.ty] at s1
      have s2 := step_cut_mu (q := q) (cty := compileTy τ) (ty := compileTy τ) hnc (a := ⟨a, 0⟩) (s := s)
        (ρ := ρ) (out := out) (n := n + 1)
        (mu_inert (Core.sigmaName n) (compileTy τ) (Sx (.var .prd (Core.sigmaName n) (compileTy τ))))
        rfl .prd
      have ha_used : a ∈ st.usedVars := htn.bd a (by simp [binderNames])
      have ha_sig : a ≠ sig := fun e => htn.nosig (e ▸ ha_used)
      have f1 : FSteps p (.eval (.label a t (some τ)) env K) (.eval t ((a, .cont K) :: env) K) [] 1 :=
        .one rfl
      refine .inr ⟨1, _, _, [], 2, _, f1, .inl ⟨rfl, rfl⟩, (fun h => by cases h), (fun _ => .inl (by decide)),
        (CSteps.one s1).trans (.one s2), by simp, ?_⟩
      refine SRel.eval (c := .var .cns ⟨a, 0⟩ (compileTy τ))
        (ρ0 := (⟨a, 0⟩, .mutilde ρ (Core.sigmaName n)
          (Sx (.var .prd (Core.sigmaName n) (compileTy τ)))) :: ρ0)
        hgt ?_ ?_ ?_ ?_ ?_
      · refine ⟨st, st1, hx, hst, ⟨fun x hx => ?_, fun x hx => ?_, htn.nosig⟩, ?_⟩
        · by_cases hxa : x = a
          · exact hxa ▸ ha_used
          · exact htn.fv x (by simp [fv, hx, hxa])
        · exact htn.bd x (by simp [binderNames, hx])
        · intro b hb
          simp only [occTerm, List.mem_singleton] at hb
          subst hb
          exact .inr ⟨ha_sig, ha_used⟩
      · exact EnvRel.bind (by simpa [fv] using he.mono (Nat.le_succ n)) (.cont (.nc (hK (compileTy τ))))
      · exact .mk (cv := .mutilde ρ (Core.sigmaName n)
          (Sx (.var .prd (Core.sigmaName n) (compileTy τ))))
          (by simp [Core.cnsVal, lookup_cons]) (hK _) trivial
          (fun b hb => by rw [mem_tfv_var] at hb; subst hb; exact ⟨_, lookup_cons_self _ _ _⟩) hnc
      · exact BoundOn.cons (hbd.mono fun y hy => by
          obtain ⟨h1, h2⟩ := List.mem_filter.1 hy
          exact mem_tfv_mu_of h1 (by simpa using h2))
      · exact AgreeOn.cons (hag.mono fun y hy => by
          obtain ⟨h1, h2⟩ := List.mem_filter.1 hy
          exact mem_tfv_mu_of h1 (by simpa using h2))

end

end Scc.Fun2Core.Sem
