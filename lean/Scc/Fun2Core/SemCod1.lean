/-
  Scc.Fun2Core.SemCod1 — the Core ς-machine on cuts at CODATA types (consumer first): machine steps,
  and the notion `Forced`: from a cut `⟨P | c⟩` at a codata type, whose consumer `c` is related to a
  stack `k` of the Fun machine (top frame: a destructor), the Core machine arrives — after evaluating
  the (pure) arguments of the destructor and following the continuations lifted by `share` — at a
  state whose next step sends a destructor VALUE related to `k` to the value of `P`.
-/
import Scc.Fun2Core.SemSim5
import Scc.Fun2Core.SemCodTypingStep

namespace Scc.Fun2Core.Sem
open Scc Scc.Fun2Core.Typed

variable {q : Core.Prog} {p : Fun.CheckedProgram}

/-! ## the kind of the term under evaluation -/

/-- the annotated type of the term under evaluation is codata iff the stack expects a codata value -/
theorem STM.eval_kind (hP : ProgM p) {t : Fun.Term} {env : Fun.Env} {k : Fun.Stack}
    (hT : STM p (.eval t env k)) : ∃ τ, getType t = some τ ∧ Fun.isCodataTy p τ = kkind k := by
  cases hT with
  | eval Γ τ he ht hk => exact ⟨τ, getType_of_typed p t Γ τ ht, KTM.kind hP hk⟩

/-- … and the Core machine decides the same way at the translated type -/
theorem Ctx.kind (X : Ctx p q) {t : Fun.Term} {env : Fun.Env} {k : Fun.Stack}
    (hT : STM p (.eval t env k)) :
    ∃ τ, getType t = some τ ∧ Core.isCodata q.codataTypes (compileTy τ) = kkind k := by
  obtain ⟨τ, h1, h2⟩ := STM.eval_kind X.progM hT
  exact ⟨τ, h1, by rw [X.cod τ, h2]⟩

/-! ## producers of a cut at a codata type -/

/-- variables, `cocase`, `μ`: never split by the ς-machine, always have a value -/
def CdPrd : Core.Term → Prop
  | .var .. => True
  | .xcase .. => True
  | .mu .. => True
  | _ => False

theorem cdPrd_split {cty : Core.Ty} {P c : Core.Term} (hP : CdPrd P) (hc : Inert c) :
    (Core.Stmt.cut cty P c).split = none := by
  cases P with
  | var _ _ _ => cases c <;> first | exact False.elim hc | rfl
  | xcase _ _ _ => cases c <;> first | exact False.elim hc | rfl
  | mu _ _ _ _ => cases c <;> first | exact False.elim hc | rfl
  | lit _ => exact False.elim hP
  | op _ _ _ => exact False.elim hP
  | xtor _ _ _ _ => exact False.elim hP

/-- a cut at a codata type with an inert consumer: consumer first -/
theorem step_cut_cd (hcd : Core.isCodata q.codataTypes cty = true) {P c : Core.Term} {ρ : CEnv}
    {out : Out} {n : Nat} (hP : CdPrd P) (hc : Inert c) :
    Core.step q ⟨.cut cty P c, ρ, out, n⟩ = Core.stepCut true ⟨.cut cty P c, ρ, out, n⟩ P c := by
  have hs : Core.sigmaStep (Core.sigmaName n) (.cut cty P c) = none := by
    simp only [Core.sigmaStep, cdPrd_split hP hc]
  simp only [Core.step, hs, hcd]

/-- … whose consumer denotes a destructor value: the destructor is sent to the value of `P` -/
theorem step_cut_cd_dtor (hcd : Core.isCodata q.codataTypes cty = true) {P c : Core.Term} {ρ : CEnv}
    {out : Out} {n : Nat} {d : Core.Ident} {vs : List CVal} {pv : CVal} (hP : CdPrd P) (hc : Inert c)
    (hcv : Core.cnsVal ρ c = .ok (.dtor d vs)) (hpv : Core.prdVal ρ P = .ok pv) :
    Core.step q ⟨.cut cty P c, ρ, out, n⟩ =
      Core.State.invoke ⟨.cut cty P c, ρ, out, n⟩ pv d vs := by
  rw [step_cut_cd hcd hP hc]
  simp only [Core.stepCut, if_true, hcv, hpv]

/-- … whose consumer denotes a `μ~`-closure: its variable is bound to the value of `P` (a `μ` is
suspended as a thunk) -/
theorem step_cut_cd_mu (hcd : Core.isCodata q.codataTypes cty = true) {P c : Core.Term} {ρ ρ' : CEnv}
    {out : Out} {n : Nat} {x : Core.Ident} {s : Core.Stmt} {pv : CVal} (hP : CdPrd P) (hc : Inert c)
    (hcv : Core.cnsVal ρ c = .ok (.mutilde ρ' x s)) (hpv : Core.prdVal ρ P = .ok pv) :
    Core.step q ⟨.cut cty P c, ρ, out, n⟩ = .next ⟨s, (x, pv) :: ρ', out, n⟩ := by
  rw [step_cut_cd hcd hP hc]
  simp only [Core.stepCut, if_true, hcv, hpv, Core.State.goto]

/-- a destructor all of whose arguments are variables -/
theorem step_cut_cd_xtor (hcd : Core.isCodata q.codataTypes cty = true) {P : Core.Term} {ty : Core.Ty}
    {d : Core.Ident} {as : Core.Args} {ρ : CEnv} {out : Out} {n : Nat} {vs : List CVal} {pv : CVal}
    (hP : CdPrd P) (hall : argsAllVar as = true) (hav : Core.argVals ρ as = .ok vs)
    (hpv : Core.prdVal ρ P = .ok pv) :
    Core.step q ⟨.cut cty P (.xtor .cns d as ty), ρ, out, n⟩ =
      Core.State.invoke ⟨.cut cty P (.xtor .cns d as ty), ρ, out, n⟩ pv d vs := by
  have hs : Core.sigmaStep (Core.sigmaName n) (.cut cty P (.xtor .cns d as ty)) = none := by
    cases P with
    | var _ _ _ => simp [Core.sigmaStep, Core.Stmt.split, args_split_allVar as hall]
    | xcase _ _ _ => simp [Core.sigmaStep, Core.Stmt.split, args_split_allVar as hall]
    | mu _ _ _ _ => simp [Core.sigmaStep, Core.Stmt.split, args_split_allVar as hall]
    | lit _ => exact False.elim hP
    | op _ _ _ => exact False.elim hP
    | xtor _ _ _ _ => exact False.elim hP
  simp only [Core.step, hs, hcd, Core.stepCut, if_true, Core.cnsVal, hav, hpv]

theorem argCtx_cd (cty ty : Core.Ty) (d : Core.Ident) (P : Core.Term) (hP : CdPrd P) :
    ArgCtx (fun as => .cut cty P (.xtor .cns d as ty)) := by
  intro as pc u A h
  cases P with
  | var _ _ _ => simp [Core.Stmt.split, h]
  | xcase _ _ _ => simp [Core.Stmt.split, h]
  | mu _ _ _ _ => simp [Core.Stmt.split, h]
  | lit _ => exact False.elim hP
  | op _ _ _ => exact False.elim hP
  | xtor _ _ _ _ => exact False.elim hP

theorem invoke_thunk (S : Core.State) (ρ' : CEnv) (a : Core.Ident) (s : Core.Stmt) (d : Core.Ident)
    (vs : List CVal) :
    S.invoke (.thunk ρ' a s) d vs = .next { S with stmt := s, env := (a, .dtor d vs) :: ρ' } := rfl

/-! ## forcing a consumer of a codata type -/

/-- from the cut `⟨P | c⟩` (at a codata type, machine counter `m`) the Core machine reaches, without
output, a state `S1` whose next step sends the destructor value `d(Vs)`, related to the stack `k`, to
the value `pv` of `P` (taken in an extension `ρ'` of the environment by machine-fresh names) -/
def Forced (p : Fun.CheckedProgram) (q : Core.Prog) (k : Fun.Stack) (cty : Core.Ty)
    (P c : Core.Term) (ρ : CEnv) (out : Out) (m : Nat) : Prop :=
  ∃ i S1 ρ' pv d Vs, CSteps q ⟨.cut cty P c, ρ, out, m⟩ S1 i ∧ S1.out = out ∧ m ≤ S1.fresh ∧
    SigExt m ρ ρ' ∧ Core.prdVal ρ' P = .ok pv ∧ Core.step q S1 = S1.invoke pv ⟨d, 0⟩ Vs ∧
    KRelD (GP p) p q S1.fresh k (.dtor ⟨d, 0⟩ Vs)

/-- the same from the body of a forwarding closure -/
def ForcedK (p : Fun.CheckedProgram) (q : Core.Prog) (k : Fun.Stack) (S : Core.Stmt) (pv : CVal)
    (ρ : CEnv) (out : Out) (m : Nat) : Prop :=
  ∃ i S1 d Vs, CSteps q ⟨S, ρ, out, m⟩ S1 i ∧ S1.out = out ∧ m ≤ S1.fresh ∧
    Core.step q S1 = S1.invoke pv ⟨d, 0⟩ Vs ∧ KRelD (GP p) p q S1.fresh k (.dtor ⟨d, 0⟩ Vs)

/-- the value of a codata producer exists in every extension of the environment -/
def PrdOK (P : Core.Term) (ρ : CEnv) (m : Nat) : Prop :=
  ∀ ρ', SigExt m ρ ρ' → ∃ pv, Core.prdVal ρ' P = .ok pv

theorem prdOK_mu (pc : Core.PC) (a : Core.Ident) (ty : Core.Ty) (s : Core.Stmt) (ρ : CEnv) (m : Nat) :
    PrdOK (.mu pc a ty s) ρ m := fun ρ' _ => ⟨_, rfl⟩

theorem prdOK_xcase (pc : Core.PC) (ty : Core.Ty) (cs : Core.Clauses) (ρ : CEnv) (m : Nat) :
    PrdOK (.xcase pc ty cs) ρ m := fun ρ' _ => ⟨_, rfl⟩

theorem prdOK_var {pc : Core.PC} {x : Core.Ident} {ty : Core.Ty} {ρ : CEnv} {m : Nat} {V : CVal}
    (hl : Core.Env.lookup ρ x = .ok V) (hx : x.name = sig → x.id < m) :
    PrdOK (.var pc x ty) ρ m := fun ρ' he => ⟨V, by simp only [Core.prdVal]; rw [he.lookup x hx]; exact hl⟩

theorem PrdOK.mono {P : Core.Term} {ρ ρ1 : CEnv} {m m1 : Nat} (h : PrdOK P ρ m) (he : SigExt m ρ ρ1)
    (hm : m ≤ m1) : PrdOK P ρ1 m1 := fun ρ' he' => h ρ' (he.trans he' hm)

end Scc.Fun2Core.Sem
