/-
  Scc.Fun2Core.SemCore — lemmas about the Core ς-machine (`Scc.Core.step`) used by the semantic part
  of C02: the ς-step, the focused steps, extension of environments by machine-fresh names, and the
  generic "operand" lemma: a non-variable producer in the leftmost operand position of a statement
  is lifted, evaluated and bound to a machine-fresh variable.
-/
import Scc.Fun2Core.SemRelLemmas

namespace Scc.Fun2Core.Sem
open Scc

/-! ## extension by machine-fresh names -/

/-- `ρ'` extends `ρ` by bindings of machine-fresh names `ς_j`, `j ≥ m` only -/
def SigExt (m : Nat) (ρ ρ' : CEnv) : Prop :=
  ∃ ext : CEnv, ρ' = ext ++ ρ ∧ ∀ e ∈ ext, e.1.name = sig ∧ m ≤ e.1.id

theorem lookup_append_of_not_mem (ext ρ : CEnv) (x : Core.Ident) (h : ∀ e ∈ ext, e.1 ≠ x) :
    Core.Env.lookup (ext ++ ρ) x = Core.Env.lookup ρ x := by
  induction ext with
  | nil => rfl
  | cons e r ih =>
    obtain ⟨y, V⟩ := e
    have hy : y ≠ x := h (y, V) (by simp)
    simp only [List.cons_append]
    rw [lookup_cons_ne hy]
    exact ih (fun e he => h e (by simp [he]))

/-- names that are not new keep their binding -/
theorem SigExt.lookup {m ρ ρ'} (h : SigExt m ρ ρ') (x : Core.Ident) (hx : x.name = sig → x.id < m) :
    Core.Env.lookup ρ' x = Core.Env.lookup ρ x := by
  obtain ⟨ext, rfl, he⟩ := h
  refine lookup_append_of_not_mem ext ρ x fun e hm heq => ?_
  obtain ⟨h1, h2⟩ := he e hm
  rw [heq] at h1 h2
  have := hx h1
  omega

theorem SigExt.refl (m ρ) : SigExt m ρ ρ := ⟨[], rfl, by simp⟩

theorem SigExt.mono {m m' ρ ρ'} (h : SigExt m' ρ ρ') (hm : m ≤ m') : SigExt m ρ ρ' := by
  obtain ⟨ext, e, he⟩ := h
  exact ⟨ext, e, fun x hx => ⟨(he x hx).1, by have := (he x hx).2; omega⟩⟩

theorem SigExt.trans {m m' ρ1 ρ2 ρ3} (h1 : SigExt m ρ1 ρ2) (h2 : SigExt m' ρ2 ρ3) (hm : m ≤ m') :
    SigExt m ρ1 ρ3 := by
  obtain ⟨e1, rfl, he1⟩ := h1
  obtain ⟨e2, rfl, he2⟩ := h2.mono hm
  refine ⟨e2 ++ e1, by simp, fun x hx => ?_⟩
  rcases List.mem_append.1 hx with h | h
  · exact he2 x h
  · exact he1 x h

theorem SigExt.cons {m m' ρ ρ' V} (h : SigExt m ρ ρ') (hm : m ≤ m') :
    SigExt m ρ ((Core.sigmaName m', V) :: ρ') := by
  obtain ⟨ext, rfl, he⟩ := h
  refine ⟨(Core.sigmaName m', V) :: ext, rfl, fun x hx => ?_⟩
  rcases List.mem_cons.1 hx with rfl | hx
  · exact ⟨rfl, hm⟩
  · exact he x hx

/-- the same extension applied to another environment -/
theorem SigExt.agree {m ρ ρ' ρ0} (h : SigExt m ρ ρ') :
    ∃ ρ0', SigExt m ρ0 ρ0' ∧ ∀ bs, AgreeOn bs ρ0 ρ → AgreeOn bs ρ0' ρ' := by
  obtain ⟨ext, rfl, he⟩ := h
  refine ⟨ext ++ ρ0, ⟨ext, rfl, he⟩, fun bs ha b hb => ?_⟩
  induction ext with
  | nil => exact ha b hb
  | cons e r ih =>
    obtain ⟨y, V⟩ := e
    simp only [List.cons_append, lookup_cons]
    split
    · rfl
    · exact ih (fun x hx => he x (by simp [hx]))

theorem BoundOn.sigExt {bs : List Core.Binding} {m : Nat} {ρ ρ' : CEnv} (h : BoundOn bs ρ)
    (he : SigExt m ρ ρ') : BoundOn bs ρ' := by
  obtain ⟨ext, rfl, hx⟩ := he
  clear hx
  intro b hb
  obtain ⟨V, hV⟩ := h b hb
  induction ext with
  | nil => exact ⟨V, hV⟩
  | cons e r ih =>
    obtain ⟨y, W⟩ := e
    simp only [List.cons_append, lookup_cons]
    split
    · exact ⟨W, rfl⟩
    · exact ih

/-! ## focused producers -/

def argsAllVar : Core.Args → Bool
  | .nil => true
  | .cons _ t r => t.isVar && argsAllVar r

/-- a producer that the machine evaluates in one step (no `μ`, all arguments variables) -/
def isFocusedVal : Core.Term → Bool
  | .var .. => true
  | .lit _ => true
  | .op a _ b => a.isVar && b.isVar
  | .xtor _ _ as _ => argsAllVar as
  | .xcase .. => true
  | .mu .. => false

theorem args_split_allVar : ∀ (as : Core.Args), argsAllVar as = true → as.split = none
  | .nil, _ => rfl
  | .cons pc t r, h => by
    simp only [argsAllVar, Bool.and_eq_true] at h
    simp only [Core.Args.split, h.1, if_true, args_split_allVar r h.2]

theorem split_cut_focused {cty : Core.Ty} {A c : Core.Term} (hA : isFocusedVal A = true)
    (hc : Inert c) : (Core.Stmt.cut cty A c).split = none := by
  cases c with
  | xtor _ _ _ _ => exact False.elim hc
  | var cpc cv cty' =>
    cases A with
    | op a o b =>
      simp only [isFocusedVal, Bool.and_eq_true] at hA
      simp [Core.Stmt.split, hA.1, hA.2]
    | xtor pc k as ty =>
      simp only [isFocusedVal] at hA
      simp [Core.Stmt.split, args_split_allVar as hA]
    | mu pc v ty s => simp [isFocusedVal] at hA
    | _ => rfl
  | mu cpc cv cty' cs =>
    cases A with
    | op a o b =>
      simp only [isFocusedVal, Bool.and_eq_true] at hA
      simp [Core.Stmt.split, hA.1, hA.2]
    | xtor pc k as ty =>
      simp only [isFocusedVal] at hA
      simp [Core.Stmt.split, args_split_allVar as hA]
    | mu pc v ty s => simp [isFocusedVal] at hA
    | _ => rfl
  | xcase cpc cty' ccs =>
    cases A with
    | op a o b =>
      simp only [isFocusedVal, Bool.and_eq_true] at hA
      simp [Core.Stmt.split, hA.1, hA.2]
    | xtor pc k as ty =>
      simp only [isFocusedVal] at hA
      simp [Core.Stmt.split, args_split_allVar as hA]
    | mu pc v ty s => simp [isFocusedVal] at hA
    | _ => rfl
  | lit m =>
    cases A with
    | op a o b =>
      simp only [isFocusedVal, Bool.and_eq_true] at hA
      simp [Core.Stmt.split, hA.1, hA.2]
    | xtor pc k as ty =>
      simp only [isFocusedVal] at hA
      simp [Core.Stmt.split, args_split_allVar as hA]
    | mu pc v ty s => simp [isFocusedVal] at hA
    | _ => rfl
  | op ca co cb =>
    cases A with
    | op a o b =>
      simp only [isFocusedVal, Bool.and_eq_true] at hA
      simp [Core.Stmt.split, hA.1, hA.2]
    | xtor pc k as ty =>
      simp only [isFocusedVal] at hA
      simp [Core.Stmt.split, args_split_allVar as hA]
    | mu pc v ty s => simp [isFocusedVal] at hA
    | _ => rfl

/-! ## machine steps -/

theorem step_sigma {q : Core.Prog} {st : Core.State} {pc : Core.PC} {t : Core.Term}
    {Sx : Core.Term → Core.Stmt} (h : st.stmt.split = some (pc, t, Sx)) :
    Core.step q st = .next { st with
      stmt := Core.sigmaCut pc t (Core.sigmaName st.fresh) (Sx (.var pc (Core.sigmaName st.fresh) t.ty)),
      fresh := st.fresh + 1 } := by
  simp only [Core.step, Core.sigmaStep, h]

/-- a focused cut at a type that is not codata passes the producer value to the consumer value -/
theorem step_cut_pass {q : Core.Prog} {cty : Core.Ty} {A c : Core.Term}
    (hnc : Core.isCodata q.codataTypes cty = false)
    {ρ : CEnv} {out : Out} {n : Nat} {V cv : CVal}
    (hA : isFocusedVal A = true) (hc : Inert c)
    (hV : Core.prdVal ρ A = .ok V) (hcv : Core.cnsVal ρ c = .ok cv) :
    Core.step q ⟨.cut cty A c, ρ, out, n⟩ =
      Core.State.pass ⟨.cut cty A c, ρ, out, n⟩ V cv := by
  have hs : Core.sigmaStep (Core.sigmaName n) (.cut cty A c) = none := by
    simp only [Core.sigmaStep, split_cut_focused hA hc]
  simp only [Core.step, hs, hnc, Core.stepCut]
  cases A with
  | mu pc v ty s => simp [isFocusedVal] at hA
  | _ => simp only [hV, hcv, Bool.false_eq_true, if_false]

/-- a focused cut whose consumer is a `μ~`: the variable is bound to the value of the producer,
whatever the type of the cut (producer first and consumer first coincide) -/
theorem step_cut_bind {q : Core.Prog} {cty ty : Core.Ty} {A : Core.Term} {x : Core.Ident}
    {s : Core.Stmt} {ρ : CEnv} {out : Out} {n : Nat} {V : CVal}
    (hA : isFocusedVal A = true) (hV : Core.prdVal ρ A = .ok V) :
    Core.step q ⟨.cut cty A (.mu .cns x ty s), ρ, out, n⟩ = .next ⟨s, (x, V) :: ρ, out, n⟩ := by
  have hs : Core.sigmaStep (Core.sigmaName n) (.cut cty A (.mu .cns x ty s)) = none := by
    simp only [Core.sigmaStep, split_cut_focused hA (c := .mu .cns x ty s) trivial]
  simp only [Core.step, hs, Core.stepCut]
  cases hcd : Core.isCodata q.codataTypes cty with
  | true =>
    simp only [if_true, Core.cnsVal, hV, Core.State.goto]
  | false =>
    cases A with
    | mu pc v ty s => simp [isFocusedVal] at hA
    | _ => simp only [hV, Core.cnsVal, Bool.false_eq_true, if_false, Core.State.pass, Core.State.goto]

/-- a cut whose producer is a `μ`, at a type that is not codata: bind the covariable -/
theorem step_cut_mu {q : Core.Prog} {cty ty : Core.Ty} (hnc : Core.isCodata q.codataTypes cty = false)
    {a : Core.Ident}
    {s : Core.Stmt} {c : Core.Term} {ρ : CEnv} {out : Out} {n : Nat} {cv : CVal}
    (hc : Inert c) (hcv : Core.cnsVal ρ c = .ok cv) (pc : Core.PC) :
    Core.step q ⟨.cut cty (.mu pc a ty s) c, ρ, out, n⟩ = .next ⟨s, (a, cv) :: ρ, out, n⟩ := by
  have hs : Core.sigmaStep (Core.sigmaName n) (.cut cty (.mu pc a ty s) c) = none := by
    cases c with
    | xtor _ _ _ _ => exact False.elim hc
    | _ => rfl
  simp only [Core.step, hs, hnc, Core.stepCut, hcv, Bool.false_eq_true, if_false,
    Core.State.goto]

/-! ## the operand lemma -/

/-- the producer `A` is evaluated by the machine started with environment `ρ` and counter `n` to a
value satisfying `Φ`, whatever the (inert) consumer, the type of the cut and the output so far -/
def PEval (q : Core.Prog) (A : Core.Term) (ρ : CEnv) (n : Nat) (Φ : CVal → Prop) : Prop :=
  ∀ (c : Core.Term) (cty : Core.Ty) (out : Out), Inert c →
    ∃ i ρ' n' A' V, CSteps q ⟨.cut cty A c, ρ, out, n⟩ ⟨.cut cty A' c, ρ', out, n'⟩ i ∧ n ≤ n' ∧
      SigExt n ρ ρ' ∧ isFocusedVal A' = true ∧ Core.prdVal ρ' A' = .ok V ∧ Φ V

theorem mu_inert (x ty s) : Inert (.mu .cns x ty s) := trivial

/-- an operand in leftmost non-variable position: if it is a variable nothing happens, otherwise it
is lifted (ς), evaluated, and bound to the machine-fresh variable that replaces it -/
theorem core_operand {q : Core.Prog} {A : Core.Term} {ρ : CEnv} {n : Nat}
    {Φ : CVal → Prop} (Sx : Core.Term → Core.Stmt) (out : Out)
    (hvar : ∀ pc z ty, A = .var pc z ty → pc = .prd ∧ (z.name = sig → z.id < n) ∧
      ∃ V, Core.Env.lookup ρ z = .ok V ∧ Φ V)
    (hnv : A.isVar = false → PEval q A ρ (n + 1) Φ ∧ (Sx A).split = some (.prd, A, Sx)) :
    ∃ i ρ' n' z ty V, CSteps q ⟨Sx A, ρ, out, n⟩ ⟨Sx (.var .prd z ty), ρ', out, n'⟩ i ∧ n ≤ n' ∧
      SigExt n ρ ρ' ∧ Core.Env.lookup ρ' z = .ok V ∧ Φ V ∧ (z.name = sig → z.id < n') := by
  cases hA : A.isVar with
  | true =>
    cases A with
    | var pc z ty =>
      obtain ⟨rfl, h3, V, h2, hΦ⟩ := hvar pc z ty rfl
      exact ⟨0, ρ, n, z, ty, V, .refl _, Nat.le_refl _, .refl _ _, h2, hΦ, h3⟩
    | _ => simp [Core.Term.isVar] at hA
  | false =>
    obtain ⟨hev, hsp⟩ := hnv hA
    have s1 := step_sigma (q := q) (st := ⟨Sx A, ρ, out, n⟩) hsp
    simp only [Core.sigmaCut] at s1
    obtain ⟨i, ρ1, n1, A', V, hc, hn1, hext, hfoc, hval, hΦ⟩ :=
      hev (.mu .cns (Core.sigmaName n) A.ty (Sx (.var .prd (Core.sigmaName n) A.ty))) A.ty out
        (mu_inert _ _ _)
    have s2 := step_cut_bind (q := q) (cty := A.ty) (ty := A.ty) (x := Core.sigmaName n)
      (s := Sx (.var .prd (Core.sigmaName n) A.ty)) (out := out) (n := n1) hfoc hval
    refine ⟨1 + i + 1, (Core.sigmaName n, V) :: ρ1, n1, Core.sigmaName n, A.ty, V,
      ((CSteps.one s1).trans hc).trans (.one s2), by omega, ?_, lookup_cons_self _ _ _, hΦ, ?_⟩
    · exact (hext.mono (Nat.le_succ n)).cons (Nat.le_refl n)
    · intro _
      simp only [sigmaName_id]
      omega

end Scc.Fun2Core.Sem
