/-
  Scc.Fun2Core.SemShare — the continuation lifted by `share` denotes the same stack as the shared
  consumer (relation `CRel`), provided the lifted definition is a definition of the program.
-/
import Scc.Fun2Core.SemSim6
import Scc.Fun2Core.Arity

namespace Scc.Fun2Core.Sem
open Scc

variable {q : Core.Prog}

theorem Inert.consOK {c : Core.Term} (h : Inert c) : ∀ v ty s, c ≠ .mu .prd v ty s := by
  intro v ty s e
  subst e
  exact h

/-- `share` on a consumer that is not a `μ~` -/
theorem share_nonmu {c : Core.Term} (hc : ∀ pc v ty s, c ≠ .mu pc v ty s) (st : CompileState) :
    share c st =
      (.mu .cns ⟨(freshVar st).1, 0⟩ (coreGetType c)
        (.call ⟨(freshName (freshVar st).2.usedLabels
            ("share_" ++ (freshVar st).2.currentLabel ++ "_")).1, 0⟩
          (bindingsToArgs (tfvStmt (.cut (coreGetType c)
            (.var .prd ⟨(freshVar st).1, 0⟩ (coreGetType c)) c) [])) (coreGetType c)),
       { (freshVar st).2 with
          usedLabels := (freshName (freshVar st).2.usedLabels
            ("share_" ++ (freshVar st).2.currentLabel ++ "_")).2,
          liftedStatements :=
            ⟨⟨(freshName (freshVar st).2.usedLabels
                ("share_" ++ (freshVar st).2.currentLabel ++ "_")).1, 0⟩,
              tfvStmt (.cut (coreGetType c) (.var .prd ⟨(freshVar st).1, 0⟩ (coreGetType c)) c) [],
              .cut (coreGetType c) (.var .prd ⟨(freshVar st).1, 0⟩ (coreGetType c)) c⟩ ::
            (freshVar st).2.liftedStatements }) := by
  cases c with
  | mu pc v ty s => exact absurd rfl (hc pc v ty s)
  | _ => rfl

theorem share_mu (pc : Core.PC) (v : Core.Ident) (ty : Core.Ty) (s : Core.Stmt) (st : CompileState) :
    share (.mu pc v ty s) st =
      (.mu .cns v ty
        (.call ⟨(freshName st.usedLabels ("share_" ++ st.currentLabel ++ "_")).1, 0⟩
          (bindingsToArgs (tfvStmt s [])) ty),
       { st with
          usedLabels := (freshName st.usedLabels ("share_" ++ st.currentLabel ++ "_")).2,
          liftedStatements :=
            ⟨⟨(freshName st.usedLabels ("share_" ++ st.currentLabel ++ "_")).1, 0⟩,
              tfvStmt s [], s⟩ :: st.liftedStatements }) := rfl

/-- occurrences of the consumer returned by `share` -/
theorem share_consNames {c : Core.Term} {st : CompileState} {n : Nat}
    (hcn : ConsNames c st n) : ConsNames (share c st).1 (share c st).2 n := by
  have hsub : ∀ x ∈ st.usedVars, x ∈ (share c st).2.usedVars := used_sub_of_fresh (fresh_share c st)
  by_cases hmu : ∃ pc v ty s, c = .mu pc v ty s
  · obtain ⟨pc, v, ty, s, rfl⟩ := hmu
    rw [share_mu]
    intro b hb
    simp only [occTerm, occStmt, occArgs_bindingsToArgs] at hb
    have := (tfvStmt_nil s).2 b hb
    rcases hcn b (by simpa [occTerm] using this) with h | ⟨h1, h2⟩
    · exact .inl h
    · exact .inr ⟨h1, h2⟩
  · have hnm : ∀ pc v ty s, c ≠ .mu pc v ty s := fun pc v ty s e => hmu ⟨pc, v, ty, s, e⟩
    rw [share_nonmu hnm]
    intro b hb
    simp only [occTerm, occStmt, occArgs_bindingsToArgs] at hb
    have := (tfvStmt_nil _).2 b hb
    simp only [occStmt, occTerm, List.singleton_append, List.mem_cons] at this
    rcases this with rfl | h
    · refine .inr ⟨freshVar_ne_sig st, ?_⟩
      show (freshVar st).1 ∈ (freshVar st).2.usedVars
      rw [freshVar_used]
      exact List.mem_cons_self
    · rcases hcn b h with h' | ⟨h1, h2⟩
      · exact .inl h'
      · refine .inr ⟨h1, ?_⟩
        show b.var.name ∈ (freshVar st).2.usedVars
        rw [freshVar_used]
        exact List.mem_cons_of_mem _ h2

/-- a consumer that is a `μ~` has a closure value of its kind -/
theorem CRel.mu_inv {n : Nat} {k : Fun.Stack} {pc : Core.PC} {v : Core.Ident} {ty : Core.Ty}
    {s : Core.Stmt} {ρ0 : CEnv} (hr : CRel (GP p) p q n k (.mu pc v ty s) ρ0) :
    pc = .cns ∧
    ((Core.isCodata q.codataTypes ty = false ∧ KRel (GP p) p q n k (.mutilde ρ0 v s)) ∨
     (Core.isCodata q.codataTypes ty = true ∧ KRelD (GP p) p q n k (.mutilde ρ0 v s))) := by
  cases hr with
  | mk hcv hk hi hb hty =>
    have hpc : pc = .cns := by
      cases pc
      · exact False.elim hi
      · rfl
    simp only [Core.cnsVal, Except.ok.injEq] at hcv
    subst hcv
    exact ⟨hpc, .inl ⟨by simpa [coreGetType] using hty, hk⟩⟩
  | mkD hcv hk hi hb hty =>
    have hpc : pc = .cns := by
      cases pc
      · exact False.elim hi
      · rfl
    simp only [Core.cnsVal, Except.ok.injEq] at hcv
    subst hcv
    exact ⟨hpc, .inr ⟨by simpa [coreGetType] using hty, hk⟩⟩

/-- the consumer returned by `share` is related to the same stack, with the same bound -/
theorem share_rel {c : Core.Term} {st : CompileState} {n : Nat} {k : Fun.Stack} {ρ0 : CEnv}
    (hr : CRel (GP p) p q n k c ρ0) (hcn : ConsNames c st n)
    (hlift : ∀ d ∈ (share c st).2.liftedStatements, d ∈ q.defs) :
    CRel (GP p) p q n k (share c st).1 ρ0 ∧ ConsNames (share c st).1 (share c st).2 n := by
  have hsub : ∀ x ∈ st.usedVars, x ∈ (share c st).2.usedVars := used_sub_of_fresh (fresh_share c st)
  refine ⟨?_, share_consNames hcn⟩
  have hb := hr.bound
  by_cases hmu : ∃ pc v ty s, c = .mu pc v ty s
  · obtain ⟨pc, v, ty, s, rfl⟩ := hmu
    obtain ⟨hpc, hkind⟩ := hr.mu_inv
    subst hpc
    rw [share_mu] at hlift ⊢
    simp only at hlift ⊢
    have hmem : ∀ y, y ∈ tfvStmt (.call
        ⟨(freshName st.usedLabels ("share_" ++ st.currentLabel ++ "_")).1, 0⟩
        (bindingsToArgs (tfvStmt s [])) ty) [] ↔ y ∈ tfvStmt s [] := by
      intro y
      rw [mem_tfv_call, mem_tfvArgs_bindingsToArgs]
      simp
    have hbd : BoundOn ((tfvStmt (.call
        ⟨(freshName st.usedLabels ("share_" ++ st.currentLabel ++ "_")).1, 0⟩
        (bindingsToArgs (tfvStmt s [])) ty) []).filter (·.var ≠ v)) ρ0 := by
      intro y hy
      obtain ⟨h1, h2⟩ := List.mem_filter.1 hy
      exact hb y (mem_tfv_mu_of ((hmem y).1 h1) (by simpa using h2))
    have hbnew : BoundOn (tfvTerm (.mu .cns v ty (.call
        ⟨(freshName st.usedLabels ("share_" ++ st.currentLabel ++ "_")).1, 0⟩
        (bindingsToArgs (tfvStmt s [])) ty)) []) ρ0 := by
      intro y hy
      have h1 := mem_tfv_mu hy
      have h2 : y ≠ ⟨v, .prd, ty⟩ := by
        simp only [tfvTerm] at hy
        rcases mem_bsetExtend _ hy with h | h
        · simp at h
        · exact ne_of_mem_bsetRemove ((tfvStmt_spec _ []).1 List.Pairwise.nil) h
      refine hb y ?_
      simp only [tfvTerm]
      exact mem_bsetExtend_of_mem _ (.inr (mem_bsetRemove_of_ne h2 ((hmem y).1 h1)))
    rcases hkind with ⟨hty, hk⟩ | ⟨hty, hk⟩
    · refine .mk (cv := .mutilde ρ0 v (.call _ (bindingsToArgs (tfvStmt s [])) ty)) rfl ?_ trivial
        hbnew (by simpa [coreGetType] using hty)
      exact KRel.shared (d := ⟨⟨(freshName st.usedLabels ("share_" ++ st.currentLabel ++ "_")).1, 0⟩,
        tfvStmt s [], s⟩) (hlift _ (by simp)) rfl hk hbd (.refl _ _)
    · refine .mkD (cv := .mutilde ρ0 v (.call _ (bindingsToArgs (tfvStmt s [])) ty)) rfl ?_ trivial
        hbnew (by simpa [coreGetType] using hty)
      exact KRelD.shared (d := ⟨⟨(freshName st.usedLabels ("share_" ++ st.currentLabel ++ "_")).1, 0⟩,
        tfvStmt s [], s⟩) (hlift _ (by simp)) rfl hk hbd (.refl _ _)
  · have hnm : ∀ pc v ty s, c ≠ .mu pc v ty s := fun pc v ty s e => hmu ⟨pc, v, ty, s, e⟩
    rw [share_nonmu hnm] at hlift ⊢
    simp only at hlift ⊢
    -- the fresh variable is not free in `c`
    have hx0 : ∀ b ∈ tfvTerm c [], b.var ≠ ⟨(freshVar st).1, 0⟩ := by
      intro b hb' e
      have hocc : b ∈ occTerm c := by
        rcases (tfvTerm_spec c []).2 b hb' with h' | h'
        · simp at h'
        · exact h'
      rcases hcn b hocc with ⟨h1, _⟩ | ⟨_, h2⟩
      · rw [e] at h1
        exact freshVar_ne_sig st h1
      · rw [e] at h2
        exact freshVar_not_mem st h2
    have hcut : ∀ y, y ∈ tfvStmt (.cut (coreGetType c)
        (.var .prd ⟨(freshVar st).1, 0⟩ (coreGetType c)) c) [] → y.var ≠ ⟨(freshVar st).1, 0⟩ →
        y ∈ tfvTerm c [] := by
      intro y hy hne
      rcases mem_tfv_cut.1 hy with h | h
      · rw [mem_tfv_var] at h
        subst h
        exact absurd rfl hne
      · exact h
    have hbd1 : BoundOn ((tfvStmt (.cut (coreGetType c)
        (.var .prd ⟨(freshVar st).1, 0⟩ (coreGetType c)) c) []).filter
        (·.var ≠ ⟨(freshVar st).1, 0⟩)) ρ0 := by
      intro y hy
      obtain ⟨h1, h2⟩ := List.mem_filter.1 hy
      exact hb y (hcut y h1 (by simpa using h2))
    have hmem : ∀ y, y ∈ tfvStmt (.call
        ⟨(freshName (freshVar st).2.usedLabels
          ("share_" ++ (freshVar st).2.currentLabel ++ "_")).1, 0⟩
        (bindingsToArgs (tfvStmt (.cut (coreGetType c)
          (.var .prd ⟨(freshVar st).1, 0⟩ (coreGetType c)) c) [])) (coreGetType c)) [] ↔
        y ∈ tfvStmt (.cut (coreGetType c)
          (.var .prd ⟨(freshVar st).1, 0⟩ (coreGetType c)) c) [] := by
      intro y
      rw [mem_tfv_call, mem_tfvArgs_bindingsToArgs]
      simp
    have hbd2 : BoundOn ((tfvStmt (.call
        ⟨(freshName (freshVar st).2.usedLabels
          ("share_" ++ (freshVar st).2.currentLabel ++ "_")).1, 0⟩
        (bindingsToArgs (tfvStmt (.cut (coreGetType c)
          (.var .prd ⟨(freshVar st).1, 0⟩ (coreGetType c)) c) [])) (coreGetType c)) []).filter
        (·.var ≠ ⟨(freshVar st).1, 0⟩)) ρ0 := by
      intro y hy
      obtain ⟨h1, h2⟩ := List.mem_filter.1 hy
      exact hb y (hcut y ((hmem y).1 h1) (by simpa using h2))
    have hbnew : BoundOn (tfvTerm (.mu .cns ⟨(freshVar st).1, 0⟩ (coreGetType c) (.call
        ⟨(freshName (freshVar st).2.usedLabels
          ("share_" ++ (freshVar st).2.currentLabel ++ "_")).1, 0⟩
        (bindingsToArgs (tfvStmt (.cut (coreGetType c)
          (.var .prd ⟨(freshVar st).1, 0⟩ (coreGetType c)) c) [])) (coreGetType c))) []) ρ0 := by
      intro y hy
      have h1 := (hmem y).1 (mem_tfv_mu hy)
      have h2 : y ≠ ⟨⟨(freshVar st).1, 0⟩, .prd, coreGetType c⟩ := by
        simp only [tfvTerm] at hy
        rcases mem_bsetExtend _ hy with h | h
        · simp at h
        · exact ne_of_mem_bsetRemove ((tfvStmt_spec _ []).1 List.Pairwise.nil) h
      rcases mem_tfv_cut.1 h1 with h | h
      · rw [mem_tfv_var] at h
        exact absurd h h2
      · exact hb y h
    cases hty : Core.isCodata q.codataTypes (coreGetType c) with
    | false =>
      have hk1 : KRel (GP p) p q n k (.mutilde ρ0 ⟨(freshVar st).1, 0⟩ (.cut (coreGetType c)
          (.var .prd ⟨(freshVar st).1, 0⟩ (coreGetType c)) c)) :=
        KRel.eta hr hx0 hty hty hbd1 (.refl _ _)
      refine .mk (cv := .mutilde ρ0 ⟨(freshVar st).1, 0⟩ (.call _ (bindingsToArgs _) (coreGetType c)))
        rfl ?_ trivial hbnew (by simpa [coreGetType] using hty)
      exact KRel.shared (d := ⟨⟨(freshName (freshVar st).2.usedLabels
          ("share_" ++ (freshVar st).2.currentLabel ++ "_")).1, 0⟩,
        tfvStmt (.cut (coreGetType c) (.var .prd ⟨(freshVar st).1, 0⟩ (coreGetType c)) c) [],
        .cut (coreGetType c) (.var .prd ⟨(freshVar st).1, 0⟩ (coreGetType c)) c⟩)
        (hlift _ (by simp)) rfl hk1 hbd2 (.refl _ _)
    | true =>
      have hk1 : KRelD (GP p) p q n k (.mutilde ρ0 ⟨(freshVar st).1, 0⟩ (.cut (coreGetType c)
          (.var .prd ⟨(freshVar st).1, 0⟩ (coreGetType c)) c)) :=
        KRelD.eta hr hx0 hty hty (hcn.sig_lt (Nat.le_refl n))
          (fun e => absurd e (freshVar_ne_sig st)) hbd1 (.refl _ _)
      refine .mkD (cv := .mutilde ρ0 ⟨(freshVar st).1, 0⟩ (.call _ (bindingsToArgs _) (coreGetType c)))
        rfl ?_ trivial hbnew (by simpa [coreGetType] using hty)
      exact KRelD.shared (d := ⟨⟨(freshName (freshVar st).2.usedLabels
          ("share_" ++ (freshVar st).2.currentLabel ++ "_")).1, 0⟩,
        tfvStmt (.cut (coreGetType c) (.var .prd ⟨(freshVar st).1, 0⟩ (coreGetType c)) c) [],
        .cut (coreGetType c) (.var .prd ⟨(freshVar st).1, 0⟩ (coreGetType c)) c⟩)
        (hlift _ (by simp)) rfl hk1 hbd2 (.refl _ _)

/-- `if leaf then (c, st) else share c st` -/
theorem shareIf_rel {c : Core.Term} {st : CompileState} {n : Nat} {k : Fun.Stack} {ρ0 : CEnv}
    (b : Bool) (hr : CRel (GP p) p q n k c ρ0) (hcn : ConsNames c st n)
    (hlift : ∀ d ∈ (if b = true then (c, st) else share c st).2.liftedStatements, d ∈ q.defs) :
    CRel (GP p) p q n k (if b = true then (c, st) else share c st).1 ρ0 ∧
      ConsNames (if b = true then (c, st) else share c st).1
        (if b = true then (c, st) else share c st).2 n := by
  cases b
  · simp only [Bool.false_eq_true, if_false] at hlift ⊢
    exact share_rel hr hcn hlift
  · simp only [if_true]
    exact ⟨hr, hcn⟩

end Scc.Fun2Core.Sem
