/-
  Scc.Fun2Core.SemSim13 — simulation of a destructor call `s.d(args)`, for ANY scrutinee `s` (a
  variable, a `new`, a call, another destructor call, `if`, `case`, `let`, …): the Fun machine pushes
  the frame `dtorScrut d args env` and evaluates `s`; the Core machine is about to run
  `⟦s⟧_{d(⟦args⟧; c)}`, no step.  The destructor as a consumer TERM is related to the new stack by
  `CRel.dtor`; its (pure) arguments have values by type safety (`pureArgsM_typed`), which is what the
  Core machine needs when it evaluates them BEFORE the scrutinee is run (`force_cr`).
-/
import Scc.Fun2Core.SemSim11

namespace Scc.Fun2Core.Sem
open Scc Scc.Fun2Core.Typed

variable {q : Core.Prog} {p : Fun.CheckedProgram}

/-- names of the destructor built by the translation -/
theorem consNames_dtor {args : Fun.Terms} {c : Core.Term} {st : CompileState} {as' : Core.Args}
    {st' : CompileState} {n : Nat} (h : compileSubst args st = .ok (as', st'))
    (htn : ArgsNames args st) (hcn : ConsNames c st n) (d : Core.Ident) (ty : Core.Ty) :
    ConsNames (.xtor .cns d (argsSnoc as' .cns c) ty) st' n := by
  have hfs : FS st st' := (rel_subst fs_stepRel args) st as' st' h
  intro b hb
  simp only [occTerm, occArgs_snoc, List.mem_append] at hb
  rcases hb with hb | hb
  · rcases occ_subst args st as' st' h htn.fv htn.bd b hb with h1 | h1
    · simp at h1
    · exact .inr ⟨fun e => hfs.2 htn.nosig (e ▸ h1), h1⟩
  · exact (hcn.mono_st hfs.sub) b hb

/-- `s.d(args)` -/
theorem eval_dtor (X : Ctx p q) {sc : Fun.Term} {d : String} {ta : Fun.Tys} {as : Fun.Terms}
    {rty : Option Fun.Ty} {env : Fun.Env} {k : Fun.Stack} {c : Core.Term} {s : Core.Stmt}
    {ρ0 ρ : CEnv} {out : Out} {n : Nat} (hg : good p (.dtor sc d ta as rty) = true)
    (hc : Compiled q n (.dtor sc d ta as rty) c s)
    (he : EnvRel (GP p) p q n (fv (.dtor sc d ta as rty)) env ρ0) (hr : CRel (GP p) p q n k c ρ0)
    (hbd : BoundOn (tfvStmt s []) ρ0) (hag : AgreeOn (tfvStmt s []) ρ0 ρ)
    (hT : STM p (.eval (.dtor sc d ta as rty) env k)) :
    Chunk p q (R p q) true true (funSize (.dtor sc d ta as rty))
      (.eval (.dtor sc d ta as rty) env k) ⟨s, ρ, out, n⟩ := by
  simp only [good, Bool.and_eq_true] at hg
  obtain ⟨⟨⟨hgs, _⟩, hgas⟩, _⟩ := hg
  have hpf := goodPs_pureFOs p as hgas
  obtain ⟨st, st', hcwc, hst, htn, hcn⟩ := hc
  rw [cwc_dtor] at hcwc
  cases hcs : compileSubst as st with
  | error e => simp [hcs] at hcwc
  | ok ra =>
    obtain ⟨as', st1⟩ := ra
    simp only [hcs] at hcwc
    cases hty : getType sc with
    | none => simp [hty] at hcwc
    | some τs =>
      simp only [hty] at hcwc
      -- typing: the scrutinee has a codata type, the arguments have values
      obtain ⟨hcd, vs, hvs⟩ : Core.isCodata q.codataTypes (compileTy τs) = true ∧
          ∃ vs, pureArgs p as env = some vs := by
        cases hT with
        | eval Γ τ0 he0 ht hk =>
          simp only [TypedM] at ht
          obtain ⟨_, _, σ, dd, sg, hsc, hd, _, _, hargs⟩ := ht
          have h1 := getType_of_typed p _ _ _ hsc
          rw [hty] at h1; cases h1
          obtain ⟨vs, h2, _⟩ := pureArgsM_typed X.progM he0 as sg.args
            (pureFOs_pure (goodClauses p) as hpf) hargs
          exact ⟨by rw [X.cod τs]; exact isCodataTy_of_codataDecl hd, vs, h2⟩
      have fas : FS st st1 := (rel_subst fs_stepRel as) st as' st1 hcs
      have fsc := fs_cwc hcwc
      have hst1 := hst.of_fresh fsc.1
      have tnas : ArgsNames as st :=
        ⟨fun y hy => htn.fv y (by simp [fv, hy]), fun y hy => htn.bd y (by simp [binderNames, hy]),
          htn.nosig⟩
      have tnsc : TermNames sc st1 := htn.of_sub (fun y hy => by simp [fv, hy])
        (fun y hy => by simp [binderNames, hy]) fas
      -- pad the ideal environment so that the free variables of the destructor are bound
      obtain ⟨ρp, hep, hrp, hbdp, hagp, hbdK⟩ :=
        ideal_pad (tfvTerm (.xtor .cns ⟨d, 0⟩ (argsSnoc as' .cns c) (compileTy τs)) []) he hr hbd hag
      have hrd : CRel (GP p) p q n (.dtorScrut d as env :: k)
          (.xtor .cns ⟨d, 0⟩ (argsSnoc as' .cns c) (compileTy τs)) ρp :=
        CRel.dtor (ρ0 := ρp) hcs hst1 tnas hpf (goodClauses_find p) hvs
          (hep.sub fun y hy => by simp [fv, hy]) hrp (hcn.sig_lt (Nat.le_refl n)) hbdK (.refl _ _) hcd
      have f1 : Fun.step p (.eval (.dtor sc d ta as rty) env k) =
          .next (.eval sc env (.dtorScrut d as env :: k)) none := rfl
      refine .inr ⟨0, _, _, [], 0, _, .refl _, .inr ⟨none, f1, rfl⟩,
        (fun _ => .inr (.inl (by intro h; cases h))),
        (fun _ => .inr (by simp only [msize, funSize]; omega)), .refl _, by simp, ?_⟩
      exact SRel.eval (ρ0 := ρp) hgs
        ⟨st1, st', hcwc, hst, tnsc, consNames_dtor hcs tnas hcn _ _⟩
        (hep.sub fun y hy => by simp [fv, hy]) hrd hbdp hagp

end Scc.Fun2Core.Sem
