/-
  Scc.Fun2Core.SemSim13 — simulation of a destructor call `s.d(args)` whose scrutinee is a variable
  or a `new` (codata by name = by value on these).
-/
import Scc.Fun2Core.SemSim11

namespace Scc.Fun2Core.Sem
open Scc

variable {q : Core.Prog} {p : Fun.CheckedProgram}

/-- the translation of a variable / `new` with a consumer, and its value as a producer -/
theorem pureS_cwc : ∀ (s : Fun.Term), pureS s = true → goodP p s = true →
    ∀ (cons : Core.Term) (st : CompileState) (stmt : Core.Stmt) (st' : CompileState),
    compileWithCont s cons st = .ok (stmt, st') →
    ∃ P τ0, s.getType = some τ0 ∧ compile s (compileTy τ0) st = .ok (P, st') ∧
      stmt = .cut (compileTy τ0) P cons ∧ isFocusedVal P = true ∧
      (∀ pc k as t, P ≠ .xtor pc k as t) ∧
      ∀ {G : Fun.Term → Prop} {n : Nat} {env : Fun.Env} {ρ0 ρ : CEnv} {v : Fun.Value},
        (∀ cs, goodClauses p cs = true → ∀ K cl, Fun.findClause K cs = some cl →
          G cl.body ∧ cl.names.Nodup ∧ cl.ctx.map (·.var) = cl.names) →
        StOK q st' → TermNames s st → pureVal p s env = some v →
        EnvRel G q n (fv s) env ρ0 → BoundOn (tfvTerm P []) ρ0 → AgreeOn (tfvTerm P []) ρ0 ρ →
        ∃ V, Core.prdVal ρ P = .ok V ∧ VRel G q n v V
  | .var x vty chi, _, _, cons, st, stmt, st', h => by
    rw [cwc_var] at h
    cases vty with
    | none => simp at h
    | some t0 =>
      simp only [Except.ok.injEq, Prod.mk.injEq] at h
      obtain ⟨rfl, rfl⟩ := h
      refine ⟨_, t0, rfl, by rw [c_var], rfl, rfl, (fun _ _ _ _ e => by cases e), ?_⟩
      intro G n env ρ0 ρ v _ _ _ hv he _ hag
      obtain ⟨v', V', h1, h2, h3⟩ := he.get (y := x) (by simp [fv])
      simp only [pureVal] at hv
      rw [hv] at h1
      cases h1
      refine ⟨V', ?_, h3⟩
      simp only [Core.prdVal]
      rw [hag ⟨⟨x, 0⟩, .prd, compileTy t0⟩ (mem_tfv_var.2 rfl)]
      exact h2
  | .new cs cty0, _, hg, cons, st, stmt, st', h => by
    rw [cwc_new] at h
    simp only [goodP] at hg
    cases cty0 with
    | none => simp at h
    | some t0 =>
      simp only at h
      cases hc : compile (.new cs (some t0)) (compileTy t0) st with
      | error e => simp [hc] at h
      | ok r =>
        obtain ⟨P, st1⟩ := r
        simp only [hc, Except.ok.injEq, Prod.mk.injEq] at h
        obtain ⟨rfl, rfl⟩ := h
        have hc' := hc
        rw [c_new] at hc'
        cases hcc : compileCoclauses cs st with
        | error e => simp [hcc] at hc'
        | ok rc =>
          obtain ⟨cs', st2⟩ := rc
          simp only [hcc, Except.ok.injEq, Prod.mk.injEq] at hc'
          obtain ⟨rfl, rfl⟩ := hc'
          refine ⟨_, t0, rfl, hc, rfl, rfl, (fun _ _ _ _ e => by cases e), ?_⟩
          intro G n env ρ0 ρ v hgc hst htn hv he hbd hag
          simp only [pureVal, Option.some.injEq] at hv
          subst hv
          exact ⟨.cocase ρ cs', rfl, .obj (hgc cs hg)
            ⟨st, st2, hcc, hst, ⟨by simpa [fv] using htn.fv, by simpa [binderNames] using htn.bd,
              htn.nosig⟩⟩
            (by simpa [fv] using he) (by simpa [tfvTerm] using hbd) (by simpa [tfvTerm] using hag)⟩
  | .paren t, hs, hg, cons, st, stmt, st', h => by
    rw [cwc_paren] at h
    obtain ⟨P, τ0, h1, h2, h3, h4, h5, h6⟩ :=
      pureS_cwc t (by simpa [pureS] using hs) (by simpa [goodP] using hg) cons st stmt st' h
    refine ⟨P, τ0, by simpa [Fun.Term.getType] using h1, by rw [c_paren]; exact h2, h3, h4, h5, ?_⟩
    intro G n env ρ0 ρ v hgc hst htn hv he hbd hag
    exact h6 hgc hst ⟨by simpa [fv] using htn.fv, by simpa [binderNames] using htn.bd, htn.nosig⟩
      (by simpa [pureVal] using hv) (by simpa [fv] using he) hbd hag
  | .lit _, h, _, _, _, _, _, _ => by simp [pureS] at h
  | .op .., h, _, _, _, _, _, _ => by simp [pureS] at h
  | .ifc .., h, _, _, _, _, _, _ => by simp [pureS] at h
  | .ifz .., h, _, _, _, _, _, _ => by simp [pureS] at h
  | .print .., h, _, _, _, _, _, _ => by simp [pureS] at h
  | .letIn .., h, _, _, _, _, _, _ => by simp [pureS] at h
  | .call .., h, _, _, _, _, _, _ => by simp [pureS] at h
  | .ctor .., h, _, _, _, _, _, _ => by simp [pureS] at h
  | .dtor .., h, _, _, _, _, _, _ => by simp [pureS] at h
  | .case .., h, _, _, _, _, _, _ => by simp [pureS] at h
  | .label .., h, _, _, _, _, _, _ => by simp [pureS] at h
  | .goto .., h, _, _, _, _, _, _ => by simp [pureS] at h
  | .exit .., h, _, _, _, _, _, _ => by simp [pureS] at h

theorem argCtx_dtor (cty ty : Core.Ty) (d : Core.Ident) (P : Core.Term)
    (hP : ∀ pc k as t, P ≠ .xtor pc k as t) :
    ArgCtx (fun as => .cut cty P (.xtor .cns d as ty)) := by
  intro as pc u A h
  cases P with
  | xtor pc' k as' t => exact absurd rfl (hP pc' k as' t)
  | _ => simp [Core.Stmt.split, h]

/-- a focused destructor cut at a codata type invokes the producer value -/
theorem step_cut_invoke {cty ty : Core.Ty} (hcd : Core.isCodata q.codataTypes cty = true)
    {P : Core.Term} {d : Core.Ident} {as : Core.Args} {ρ : CEnv} {out : Out} {n : Nat}
    {vs : List CVal} {pv : CVal}
    (hP : isFocusedVal P = true) (hPx : ∀ pc k as t, P ≠ .xtor pc k as t)
    (hall : argsAllVar as = true) (hav : Core.argVals ρ as = .ok vs) (hpv : Core.prdVal ρ P = .ok pv) :
    Core.step q ⟨.cut cty P (.xtor .cns d as ty), ρ, out, n⟩ =
      Core.State.invoke ⟨.cut cty P (.xtor .cns d as ty), ρ, out, n⟩ pv d vs := by
  have hs : Core.sigmaStep (Core.sigmaName n) (.cut cty P (.xtor .cns d as ty)) = none := by
    cases P with
    | xtor pc' k as' t => exact absurd rfl (hPx pc' k as' t)
    | op a o b =>
      simp only [isFocusedVal, Bool.and_eq_true] at hP
      simp [Core.sigmaStep, Core.Stmt.split, args_split_allVar as hall]
    | mu pc v t s => simp [isFocusedVal] at hP
    | _ => simp [Core.sigmaStep, Core.Stmt.split, args_split_allVar as hall]
  simp only [Core.step, hs, hcd, Core.stepCut, if_true, Core.cnsVal, hav, hpv]

theorem step_dtorApply_obj (p : Fun.CheckedProgram) (d : String) (vs : List Fun.Value)
    (cs : Fun.Clauses) (envc : Fun.Env) (k : Fun.Stack) :
    Fun.step p (.ret (.obj cs envc) (.dtorApply d vs :: k)) =
      (match Fun.findClause d cs with
        | none => .stuck (.noClause d)
        | some cl =>
          match Fun.bindAll cl.names vs envc with
          | none => .stuck (.arity d)
          | some env' => .next (.eval cl.body env' k) none) := rfl

set_option maxHeartbeats 400000 in
/-- `s.d(args)` with `s` a variable or a `new` -/
theorem eval_dtor (X : Ctx p q) {sc : Fun.Term} {d : String} {ta : Fun.Tys} {as : Fun.Terms}
    {rty : Option Fun.Ty} {env : Fun.Env} {k : Fun.Stack} {c : Core.Term} {s : Core.Stmt}
    {ρ0 ρ : CEnv} {out : Out} {n : Nat} (hg : good p (.dtor sc d ta as rty) = true)
    (hc : Compiled q n (.dtor sc d ta as rty) c s)
    (he : EnvRel (GP p) q n (fv (.dtor sc d ta as rty)) env ρ0) (hr : CRel (GP p) q n k c ρ0)
    (hbd : BoundOn (tfvStmt s []) ρ0) (hag : AgreeOn (tfvStmt s []) ρ0 ρ) :
    Chunk p q (R p q) true true μ (.eval (.dtor sc d ta as rty) env k) ⟨s, ρ, out, n⟩ := by
  simp only [good, Bool.and_eq_true] at hg
  obtain ⟨⟨⟨⟨hps, hgps⟩, hcds⟩, hgas⟩, _⟩ := hg
  have hpf := goodPs_pureFOs p as hgas
  obtain ⟨st, st', hcwc, hst, htn, hcn⟩ := hc
  rw [cwc_dtor] at hcwc
  cases hcs : compileSubst as st with
  | error e => simp [hcs] at hcwc
  | ok ra =>
    obtain ⟨as', st1⟩ := ra
    simp only [hcs] at hcwc
    cases hty : getType sc with
    | none => simp [hty] at hcwc
    | some τs =>
      simp only [hty] at hcwc
      rw [argsSnoc_eq] at hcwc
      obtain ⟨P, τ0, hgt0, hcP, rfl, hPf, hPx, hPval⟩ := pureS_cwc sc hps hgps _ st1 s st' hcwc
      have hτ : τ0 = τs := by
        rw [getType_eq, hgt0] at hty
        exact Option.some.inj hty
      subst hτ
      have hcd : Core.isCodata q.codataTypes (compileTy τ0) = true := by
        rw [X.cod τ0]
        simpa [cdO, hgt0] using hcds
      have fas : FS st st1 := (rel_subst fs_stepRel as) st as' st1 hcs
      have fsc := fs_compile hcP
      have hst1 := hst.of_fresh fsc.1
      have tnsc : TermNames sc st1 := htn.of_sub (fun y hy => by simp [fv, hy])
        (fun y hy => by simp [binderNames, hy]) fas
      -- Fun: the scrutinee
      have f0 : FSteps p (.eval (.dtor sc d ta as rty) env k)
          (.eval sc env (.dtorScrut d as env :: k)) [] 1 := .one rfl
      have hpsc : Fun.pureTerm sc = true := pureFO_pure (goodClauses p) sc (goodP_pureFO p sc hgps)
      cases hvsc : pureVal p sc env with
      | none =>
        obtain ⟨j, s1, w, fj, h1, h2⟩ := fun_pure_none p sc env (.dtorScrut d as env :: k) hpsc hvsc
        have := f0.trans fj
        simp only [List.append_nil] at this
        exact .inl ⟨_, s1, .stuck w, this, by rw [h1]; rfl, fun hf => absurd hf (bad_not_finished h2)⟩
      | some vsc =>
        obtain ⟨j1, _, fj1⟩ := fun_pure p sc env vsc (.dtorScrut d as env :: k) hpsc hvsc
        have f1' : FSteps p (.ret vsc (.dtorScrut d as env :: k)) (.args (.dtor vsc d) [] as env k) [] 1 :=
          .one rfl
        have f01 := (f0.trans fj1).trans f1'
        simp only [List.append_nil] at f01
        cases hvs : pureArgs p as env with
        | none =>
          obtain ⟨j, s1, w, fj, h1, h2⟩ :=
            fun_pureArgs_none p as env (.dtor vsc d) [] k (pureFOs_pure (goodClauses p) as hpf) hvs
          have := f01.trans fj
          simp only [List.append_nil] at this
          exact .inl ⟨_, s1, .stuck w, this, by rw [h1]; rfl, fun hf => absurd hf (bad_not_finished h2)⟩
        | some vs =>
          obtain ⟨j2, fj2⟩ := fun_pureArgs p as env vs (.dtor vsc d) [] k
            (pureFOs_pure (goodClauses p) as hpf) hvs
          have f2' : FSteps p (.args (.dtor vsc d) ([] ++ vs) .nil env k)
              (.ret vsc (.dtorApply d vs :: k)) [] 1 := .one rfl
          have f012 := (f01.trans fj2).trans f2'
          simp only [List.append_nil, List.nil_append] at f012
          -- the value of the scrutinee on the Core side (in the ideal environment)
          have hbdP : BoundOn (tfvTerm P []) ρ0 := hbd.mono fun y hy => mem_tfv_cut.2 (.inl hy)
          have hagP : AgreeOn (tfvTerm P []) ρ0 ρ := hag.mono fun y hy => mem_tfv_cut.2 (.inl hy)
          have hbdas : BoundOn (tfvArgs as' []) ρ0 := hbd.mono fun y hy =>
            mem_tfv_cut.2 (.inr (mem_tfv_xtor.2 ((mem_tfvArgs_app _ _).2 (.inl hy))))
          have hagas : AgreeOn (tfvArgs as' []) ρ0 ρ := hag.mono fun y hy =>
            mem_tfv_cut.2 (.inr (mem_tfv_xtor.2 ((mem_tfvArgs_app _ _).2 (.inl hy))))
          have hagc : AgreeOn (tfvTerm c []) ρ0 ρ := hag.mono fun y hy =>
            mem_tfv_cut.2 (.inr (mem_tfv_xtor.2 ((mem_tfvArgs_app _ _).2
              (.inr (mem_tfv_args_cons.2 (.inl hy))))))
          have hesc : EnvRel (GP p) q n (fv sc) env ρ0 := he.sub fun y hy => by simp [fv, hy]
          -- Core: the arguments
          obtain ⟨i1, ρ1, n1, as'', Vs, hc1, hn1, hext1, hall, hsb, hav, hvl⟩ :=
            core_args (G := GP p) (q := q) (p := p) (goodClauses p) (goodClauses_find p) as hpf
              (fun a => .cut (compileTy τ0) P (.xtor .cns ⟨d, 0⟩ a (compileTy τ0)))
              (argCtx_dtor _ _ _ _ hPx) (.cons .cns c .nil) env vs st as' st1 n ρ0 ρ n out .nil []
              hcs hst1
              ⟨fun y hy => htn.fv y (by simp [fv, hy]), fun y hy => htn.bd y (by simp [binderNames, hy]),
                htn.nosig⟩ hvs
              (he.sub fun y hy => by simp [fv, hy]) hbdas hagas rfl trivial rfl
          simp only [appArgs, List.nil_append] at hc1 hsb hav
          obtain ⟨ρ01, hext0, hag1⟩ := hext1.agree (ρ0 := ρ0)
          have hr1 : CRel (GP p) q n1 k c ρ1 :=
            ((hr.mono hn1).sigExt hext0 (hcn.sig_lt (Nat.le_refl n))).agree (hag1 _ hagc)
          cases hr1 with
          | @mk _ _ _ cv hcv hk hi hbc htyc =>
            -- the consumer argument
            have hreach : ∃ i2 ρ2 n2 pc z tz, CSteps q
                ⟨.cut (compileTy τ0) P (.xtor .cns ⟨d, 0⟩ (appArgs as'' (.cons .cns c .nil)) (compileTy τ0)),
                  ρ1, out, n1⟩
                ⟨.cut (compileTy τ0) P (.xtor .cns ⟨d, 0⟩
                  (appArgs as'' (.cons .cns (.var pc z tz) .nil)) (compileTy τ0)), ρ2, out, n2⟩ i2 ∧
                n1 ≤ n2 ∧ SigExt n1 ρ1 ρ2 ∧
                Core.argVals ρ2 (appArgs as'' (.cons .cns (.var pc z tz) .nil)) = .ok (Vs ++ [cv]) := by
              cases hcv' : c.isVar with
              | true =>
                cases c with
                | var pc z tz =>
                  simp only [Core.cnsVal] at hcv
                  exact ⟨0, ρ1, n1, pc, z, tz, .refl _, Nat.le_refl _, .refl _ _,
                    argVals_app_single as'' Vs hav hcv⟩
                | _ => simp [Core.Term.isVar] at hcv'
              | false =>
                have hsp := argCtx_dtor (compileTy τ0) (compileTy τ0) ⟨d, 0⟩ P hPx
                  (appArgs as'' (.cons .cns c .nil)) .cns c (fun h => appArgs as'' (.cons .cns h .nil)) (by
                    rw [args_split_app _ _ hall, args_split_cons_nonvar hcv'])
                have s1 := step_sigma (q := q)
                  (st := ⟨.cut (compileTy τ0) P (.xtor .cns ⟨d, 0⟩ (appArgs as'' (.cons .cns c .nil))
                    (compileTy τ0)), ρ1, out, n1⟩) hsp
                simp only [Core.sigmaCut] at s1
                have s2 := step_cut_mu (q := q) (cty := c.ty) (ty := c.ty)
                  (by rw [← coreGetType_eq_ty]; exact htyc) (a := Core.sigmaName n1)
                  (s := .cut (compileTy τ0) P (.xtor .cns ⟨d, 0⟩
                    (appArgs as'' (.cons .cns (.var .cns (Core.sigmaName n1) c.ty) .nil)) (compileTy τ0)))
                  (ρ := ρ1) (out := out) (n := n1 + 1) hi hcv .prd
                refine ⟨2, (Core.sigmaName n1, cv) :: ρ1, n1 + 1, .cns, Core.sigmaName n1, c.ty,
                  (CSteps.one s1).trans (.one s2), Nat.le_succ _,
                  (SigExt.refl n1 ρ1).cons (Nat.le_refl n1), ?_⟩
                refine argVals_app_single as'' Vs ?_ (lookup_cons_self _ _ _)
                rw [argVals_sigExt ((SigExt.refl n1 ρ1).cons (Nat.le_refl n1)) as'' hsb]
                exact hav
            obtain ⟨i2, ρ2, n2, pc, z, tz, hc2, hn2, hext2, hav2⟩ := hreach
            have hext12 : SigExt n ρ ρ2 := hext1.trans hext2 hn1
            -- the value of the scrutinee in the final environment
            obtain ⟨ρ02, hesc2, hbdP2, hagP2⟩ := ideal_sigExt hesc hbdP hagP hext12 tnsc.fv_ne_sig
            obtain ⟨Vsc, hpv, hvsr⟩ := hPval (G := GP p) (n := n) (goodClauses_find p) hst tnsc hvsc
              hesc2 hbdP2 hagP2
            have hall2 : argsAllVar (appArgs as'' (.cons .cns (.var pc z tz) .nil)) = true := by
              simp [argsAllVar_app, hall, argsAllVar, Core.Term.isVar]
            have s3 := step_cut_invoke (q := q) (cty := compileTy τ0) (ty := compileTy τ0) hcd
              (d := ⟨d, 0⟩) (out := out) (n := n2) hPf hPx hall2 hav2 hpv
            -- the Fun value must be an object
            cases hvsr with
            | int a => exact .inl ⟨_, _, .stuck .notCodata, f012, rfl, fun h => h.elim⟩
            | con _ => exact .inl ⟨_, _, .stuck .notCodata, f012, rfl, fun h => h.elim⟩
            | cont _ => exact .inl ⟨_, _, .stuck .notCodata, f012, rfl, fun h => h.elim⟩
            | @obj cs envc ρ0c ρc cs'c hgood hcc hec hbdc hagc' =>
              have hstep := step_dtorApply_obj p d vs cs envc k
              cases hf : Fun.findClause d cs with
              | none =>
                rw [hf] at hstep
                exact .inl ⟨_, _, .stuck (.noClause d), f012, by rw [hstep]; rfl, fun h => h.elim⟩
              | some cl =>
                rw [hf] at hstep
                simp only at hstep
                cases hbA : Fun.bindAll cl.names vs envc with
                | none =>
                  rw [hbA] at hstep
                  exact .inl ⟨_, _, .stuck (.arity d), f012, by rw [hstep]; rfl, fun h => h.elim⟩
                | some env' =>
                  rw [hbA] at hstep
                  obtain ⟨hgb, hnd, hnames⟩ := hgood d cl hf
                  obtain ⟨stc, stc', hcomp, hstokc, hcnc⟩ := hcc
                  obtain ⟨b', sa, sb, τb, hgtb, hfind, hcb, hfs1, hfs2, htfv⟩ :=
                    coclauses_find fs_stepRel d cs stc cs'c stc' cl hcomp hf
                  obtain ⟨hm1, hm2, hm3, hm4⟩ := findClause_mem cs d cl hf
                  have ha_fresh := freshCovar_not_mem sa
                  have ha_sig := freshCovar_ne_sig sa
                  have hsub1 : ∀ x ∈ stc.usedVars, x ∈ sa.usedVars := hfs1.sub
                  -- binders and the covariable
                  have hctxvar : ∀ bb ∈ compileContext cl.ctx, ∃ x ∈ cl.names, bb.var = ⟨x, 0⟩ := by
                    intro bb hbb
                    simp only [compileContext, List.mem_map] at hbb
                    obtain ⟨fb, hfb, rfl⟩ := hbb
                    exact ⟨fb.var, by rw [← hnames]; exact List.mem_map.2 ⟨fb, hfb, rfl⟩, rfl⟩
                  have hanot : ∀ bb ∈ compileContext cl.ctx,
                      bb.var ≠ (⟨(freshCovar sa).1, 0⟩ : Core.Ident) := by
                    intro bb hbb e
                    obtain ⟨x, hx, e'⟩ := hctxvar bb hbb
                    rw [e'] at e
                    have : x = (freshCovar sa).1 := by
                      have := congrArg Core.Ident.name e
                      simpa using this
                    exact ha_fresh (this ▸ hsub1 x (hcnc.bd x (hm3 x hx)))
                  -- bind on the ideal environment of the closure
                  have hbA' : Fun.bindAll (cl.ctx.map (·.var)) vs envc = some env' := by
                    rw [hnames]; exact hbA
                  have hec' : EnvRel (GP p) q n2
                      ((fv cl.body).filter (fun x => !(cl.ctx.map (·.var)).contains x)) envc
                      ((⟨(freshCovar sa).1, 0⟩, cv) :: ρ0c) := by
                    refine ((hec.mono (Nat.le_trans hn1 hn2)).sub fun x hx =>
                      hm1 x (by rw [← hnames]; exact hx)).agree fun y hy => lookup_cons_ne ?_ _ _
                    intro e
                    have : (freshCovar sa).1 = y := by cases e; rfl
                    exact ha_fresh (this ▸ hsub1 y (hcnc.fv y (hm1 y (by rw [← hnames]; exact hy))))
                  obtain ⟨ρ0n, hbind0, he'⟩ := EnvRel.bindAll (G := GP p) (q := q) (xs := fv cl.body)
                    hec' (hvl.mono (Nat.le_trans hn1 hn2)) (by rw [hnames]; exact hnd) hbA'
                  have hlen : (compileContext cl.ctx).length = Vs.length := bind_length _ _ _ _ hbind0
                  obtain ⟨ρn, hbind1⟩ := bind_ok_of_length (compileContext cl.ctx) Vs
                    ((⟨(freshCovar sa).1, 0⟩, cv) :: ρc) hlen
                  have hbind1' : Core.Env.bind ρc (compileContext cl.ctx ++
                      [⟨⟨(freshCovar sa).1, 0⟩, .cns, compileTy τb⟩]) (Vs ++ [cv]) = .ok ρn := by
                    rw [bind_snoc _ _ _ _ _ hlen]; exact hbind1
                  have hcore : Core.step q ⟨.cut (compileTy τ0) P (.xtor .cns ⟨d, 0⟩
                      (appArgs as'' (.cons .cns (.var pc z tz) .nil)) (compileTy τ0)), ρ2, out, n2⟩ =
                      .next ⟨b', ρn, out, n2⟩ := by
                    rw [s3]
                    simp only [Core.State.invoke, Core.State.select, hfind, hbind1', Core.State.goto]
                  have hla : Core.Env.lookup ρ0n ⟨(freshCovar sa).1, 0⟩ = .ok cv := by
                    rw [bind_lookup_not_mem hbind0 hanot]
                    exact lookup_cons_self _ _ _
                  have hncb : Core.isCodata q.codataTypes (compileTy τb) = false := by
                    have h1 := good_ncd p cl.body hgb
                    rw [hgtb] at h1
                    rw [X.cod τb]
                    simpa [ncdO] using h1
                  refine .inr ⟨_, _, .eval cl.body env' k, [], i1 + i2 + 1, _, f012,
                    .inr ⟨none, hstep, rfl⟩, (fun _ => .inr (.inl (by intro h; cases h))), (fun _ => .inl (by omega)),
                    (hc1.trans hc2).trans (.one hcore), by simp, ?_⟩
                  refine SRel.eval (c := .var .cns ⟨(freshCovar sa).1, 0⟩ (compileTy τb)) (ρ0 := ρ0n)
                    hgb ?_ he' ?_ ?_ ?_
                  · refine ⟨(freshCovar sa).2, sb, hcb, hstokc.of_fresh hfs2.1, ?_, ?_⟩
                    · refine ⟨fun x hx => ?_, fun x hx => ?_, ?_⟩
                      · rw [freshCovar_used]
                        refine List.mem_cons_of_mem _ (hsub1 x ?_)
                        by_cases hxn : x ∈ cl.names
                        · exact hcnc.bd x (hm3 x hxn)
                        · exact hcnc.fv x (hm1 x (List.mem_filter.2 ⟨hx, by simpa using hxn⟩))
                      · rw [freshCovar_used]
                        exact List.mem_cons_of_mem _ (hsub1 x (hcnc.bd x (hm2 x hx)))
                      · rw [freshCovar_used]
                        simp only [List.mem_cons, not_or]
                        exact ⟨fun e => ha_sig e.symm, hfs1.2 hcnc.nosig⟩
                    · intro b hb
                      simp only [occTerm, List.mem_singleton] at hb
                      subst hb
                      exact .inr ⟨ha_sig, by rw [freshCovar_used]; exact List.mem_cons_self⟩
                  · exact .mk (by simpa [Core.cnsVal] using hla) (hk.mono hn2) trivial
                      (fun b hb => by rw [mem_tfv_var] at hb; subst hb; exact ⟨_, hla⟩) hncb
                  · refine bind_bound hbind0 fun y hy hne => ?_
                    by_cases hya : y.var = ⟨(freshCovar sa).1, 0⟩
                    · exact ⟨cv, by rw [hya]; exact lookup_cons_self _ _ _⟩
                    · rw [lookup_cons_ne (fun e => hya e.symm)]
                      refine hbdc y (htfv y hy fun bb hbb e => ?_)
                      rcases List.mem_append.1 hbb with h | h
                      · exact hne bb h (by rw [e])
                      · simp only [List.mem_singleton] at h
                        subst h
                        exact hya (by rw [← e])
                  · refine bind_agree hbind0 hbind1 fun y hy hne => ?_
                    by_cases hya : y.var = ⟨(freshCovar sa).1, 0⟩
                    · rw [hya, lookup_cons_self, lookup_cons_self]
                    · rw [lookup_cons_ne (fun e => hya e.symm), lookup_cons_ne (fun e => hya e.symm)]
                      refine hagc' y (htfv y hy fun bb hbb e => ?_)
                      rcases List.mem_append.1 hbb with h | h
                      · exact hne bb h (by rw [e])
                      · simp only [List.mem_singleton] at h
                        subst h
                        exact hya (by rw [← e])

end Scc.Fun2Core.Sem
