/-
  Scc.Fun2Core.SemSim3 — continuation lemmas of the frames `if` (second operand / first operand),
  `ifz`, `print`, `exit`: the Fun machine returns a value to the frame, the Core machine is at the
  corresponding statement whose operand is a variable bound to the related value.
-/
import Scc.Fun2Core.SemSim2

namespace Scc.Fun2Core.Sem
open Scc

variable {q : Core.Prog} {p : Fun.CheckedProgram}

theorem step_ret_cons' (p : Fun.CheckedProgram) (v f k) :
    Fun.step p (.ret v (f :: k)) = Fun.retFrame v f k := rfl

/-- `if a ~ □ {t} else {e}` -/
theorem cont_ifR {srt : Fun.IfSort} {a : BitVec 64} {t e : Fun.Term} {env : Fun.Env}
    {k : Fun.Stack} {c : Core.Term} {i n : Nat} {T E : Core.Stmt} {ρ0 ρ : CEnv} {out : Out}
    {z1 z2 : Core.Ident} {τ1 τ2 : Core.Ty} {v : Fun.Value} {V : CVal}
    (hgt : good p t = true) (hge : good p e = true)
    (hct : Compiled q i t c T) (hce : Compiled q i e c E) (hin : i ≤ n)
    (he : EnvRel (GP p) p q n (fv t ++ fv e) env ρ0) (hr : CRel (GP p) p q n k c ρ0)
    (hbT : BoundOn (tfvStmt T []) ρ0) (hbE : BoundOn (tfvStmt E []) ρ0)
    (haT : AgreeOn (tfvStmt T []) ρ0 ρ) (haE : AgreeOn (tfvStmt E []) ρ0 ρ)
    (hl1 : Core.Env.lookup ρ z1 = .ok (.int a)) (hl2 : Core.Env.lookup ρ z2 = .ok V)
    (hv : VRel (GP p) p q n v V) :
    Chunk p q (R p q) true true μ (.ret v (.ifR srt a t e env :: k))
      ⟨.ifc (compileSort srt) (.var .prd z1 τ1) (.var .prd z2 τ2) T E, ρ, out, n⟩ := by
  cases hv with
  | int b =>
    have hs := step_ifc_vars (q := q) (srt := compileSort srt) (t1 := τ1) (t2 := τ2) (T := T) (E := E)
      (out := out) (n := n) hl1 hl2 .prd .prd
    rw [compare_compile] at hs
    refine .inr ⟨0, _, .eval (if Fun.compare srt a b then t else e) env k, [], 1, _, .refl _,
      .inr ⟨none, rfl, rfl⟩, (fun _ => .inr (.inl (by intro h; cases h))), (fun _ => .inl (Nat.le_refl 1)), .one hs, by simp, ?_⟩
    by_cases hcmp : Fun.compare srt a b = true
    · simp only [hcmp, if_true]
      exact SRel.eval (ρ0 := ρ0) hgt (hct.mono hin) (he.sub fun y hy => by simp [hy]) hr hbT haT
    · simp only [Bool.not_eq_true] at hcmp
      simp only [hcmp, Bool.false_eq_true, if_false]
      exact SRel.eval (ρ0 := ρ0) hge (hce.mono hin) (he.sub fun y hy => by simp [hy]) hr hbE haE
  | con _ => exact .inl ⟨0, _, .stuck (.notInt "if"), .refl _, rfl, fun h => h.elim⟩
  | cont _ => exact .inl ⟨0, _, .stuck (.notInt "if"), .refl _, rfl, fun h => h.elim⟩
  | obj _ _ _ _ _ => exact .inl ⟨0, _, .stuck (.notInt "if"), .refl _, rfl, fun h => h.elim⟩

/-- `if □ ~ 0 {t} else {e}` -/
theorem cont_ifZ {srt : Fun.IfSort} {t e : Fun.Term} {env : Fun.Env}
    {k : Fun.Stack} {c : Core.Term} {i n : Nat} {T E : Core.Stmt} {ρ0 ρ : CEnv} {out : Out}
    {z1 : Core.Ident} {τ1 : Core.Ty} {v : Fun.Value} {V : CVal}
    (hgt : good p t = true) (hge : good p e = true)
    (hct : Compiled q i t c T) (hce : Compiled q i e c E) (hin : i ≤ n)
    (he : EnvRel (GP p) p q n (fv t ++ fv e) env ρ0) (hr : CRel (GP p) p q n k c ρ0)
    (hbT : BoundOn (tfvStmt T []) ρ0) (hbE : BoundOn (tfvStmt E []) ρ0)
    (haT : AgreeOn (tfvStmt T []) ρ0 ρ) (haE : AgreeOn (tfvStmt E []) ρ0 ρ)
    (hl1 : Core.Env.lookup ρ z1 = .ok V) (hv : VRel (GP p) p q n v V) :
    Chunk p q (R p q) true true μ (.ret v (.ifZ srt t e env :: k))
      ⟨.ifz (compileSort srt) (.var .prd z1 τ1) T E, ρ, out, n⟩ := by
  cases hv with
  | int a =>
    have hs := step_ifz_var (q := q) (srt := compileSort srt) (t1 := τ1) (T := T) (E := E)
      (out := out) (n := n) hl1 .prd
    rw [compare_compile] at hs
    refine .inr ⟨0, _, .eval (if Fun.compare srt a 0 then t else e) env k, [], 1, _, .refl _,
      .inr ⟨none, rfl, rfl⟩, (fun _ => .inr (.inl (by intro h; cases h))), (fun _ => .inl (Nat.le_refl 1)), .one hs, by simp, ?_⟩
    by_cases hcmp : Fun.compare srt a 0 = true
    · simp only [hcmp, if_true]
      exact SRel.eval (ρ0 := ρ0) hgt (hct.mono hin) (he.sub fun y hy => by simp [hy]) hr hbT haT
    · simp only [Bool.not_eq_true] at hcmp
      simp only [hcmp, Bool.false_eq_true, if_false]
      exact SRel.eval (ρ0 := ρ0) hge (hce.mono hin) (he.sub fun y hy => by simp [hy]) hr hbE haE
  | con _ => exact .inl ⟨0, _, .stuck (.notInt "if"), .refl _, rfl, fun h => h.elim⟩
  | cont _ => exact .inl ⟨0, _, .stuck (.notInt "if"), .refl _, rfl, fun h => h.elim⟩
  | obj _ _ _ _ _ => exact .inl ⟨0, _, .stuck (.notInt "if"), .refl _, rfl, fun h => h.elim⟩

/-- `print(□); next` -/
theorem cont_print {nl : Bool} {next : Fun.Term} {env : Fun.Env}
    {k : Fun.Stack} {c : Core.Term} {i n : Nat} {N : Core.Stmt} {ρ0 ρ : CEnv} {out : Out}
    {z1 : Core.Ident} {τ1 : Core.Ty} {v : Fun.Value} {V : CVal}
    (hg : good p next = true) (hcn : Compiled q i next c N) (hin : i ≤ n)
    (he : EnvRel (GP p) p q n (fv next) env ρ0) (hr : CRel (GP p) p q n k c ρ0)
    (hb : BoundOn (tfvStmt N []) ρ0) (ha : AgreeOn (tfvStmt N []) ρ0 ρ)
    (hl1 : Core.Env.lookup ρ z1 = .ok V) (hv : VRel (GP p) p q n v V) :
    Chunk p q (R p q) true true μ (.ret v (.print nl next env :: k))
      ⟨.print nl (.var .prd z1 τ1) N, ρ, out, n⟩ := by
  cases hv with
  | int a =>
    have hs := step_print_var (q := q) (nl := nl) (t1 := τ1) (N := N) (out := out) (n := n) hl1 .prd
    exact .inr ⟨0, _, .eval next env k, [(nl, a)], 1, _, .refl _,
      .inr ⟨some (nl, a), rfl, rfl⟩, (fun _ => .inr (.inl (by intro h; cases h))), (fun _ => .inl (Nat.le_refl 1)), .one hs, rfl,
      SRel.eval (ρ0 := ρ0) hg (hcn.mono hin) he hr hb ha⟩
  | con _ => exact .inl ⟨0, _, .stuck (.notInt "print"), .refl _, rfl, fun h => h.elim⟩
  | cont _ => exact .inl ⟨0, _, .stuck (.notInt "print"), .refl _, rfl, fun h => h.elim⟩
  | obj _ _ _ _ _ => exact .inl ⟨0, _, .stuck (.notInt "print"), .refl _, rfl, fun h => h.elim⟩

/-- `exit □` -/
theorem cont_exit {n : Nat} {ρ : CEnv} {out : Out} {ty : Core.Ty}
    {z1 : Core.Ident} {τ1 : Core.Ty} {v : Fun.Value} {V : CVal}
    (hl1 : Core.Env.lookup ρ z1 = .ok V) (hv : VRel (GP p) p q n v V) :
    Chunk p q (R p q) true true μ (.ret v [.exitF]) ⟨.exit (.var .prd z1 τ1) ty, ρ, out, n⟩ := by
  cases hv with
  | int a =>
    have hs := step_exit_var (q := q) (t1 := τ1) (ty := ty) (out := out) (n := n) hl1 .prd
    exact .inl ⟨0, _, .done a, .refl _, rfl, fun _ => ⟨0, _, .done a, .refl _, rfl, hs, .done a⟩⟩
  | con _ => exact .inl ⟨0, _, .stuck (.notInt "exit"), .refl _, rfl, fun h => h.elim⟩
  | cont _ => exact .inl ⟨0, _, .stuck (.notInt "exit"), .refl _, rfl, fun h => h.elim⟩
  | obj _ _ _ _ _ => exact .inl ⟨0, _, .stuck (.notInt "exit"), .refl _, rfl, fun h => h.elim⟩

/-- the top-level continuation of `main` -/
theorem cont_main {n : Nat} {ρ : CEnv} {out : Out} {ty : Core.Ty}
    {z1 : Core.Ident} {τ1 : Core.Ty} {v : Fun.Value} {V : CVal}
    (hl1 : Core.Env.lookup ρ z1 = .ok V) (hv : VRel (GP p) p q n v V) :
    Chunk p q (R p q) true true μ (.ret v []) ⟨.exit (.var .prd z1 τ1) ty, ρ, out, n⟩ := by
  cases hv with
  | int a =>
    have hs := step_exit_var (q := q) (t1 := τ1) (ty := ty) (out := out) (n := n) hl1 .prd
    exact .inl ⟨0, _, .done a, .refl _, rfl, fun _ => ⟨0, _, .done a, .refl _, rfl, hs, .done a⟩⟩
  | con _ => exact .inl ⟨0, _, .stuck (.notInt "main"), .refl _, rfl, fun h => h.elim⟩
  | cont _ => exact .inl ⟨0, _, .stuck (.notInt "main"), .refl _, rfl, fun h => h.elim⟩
  | obj _ _ _ _ _ => exact .inl ⟨0, _, .stuck (.notInt "main"), .refl _, rfl, fun h => h.elim⟩

theorem Compiled.fv_ne_sig {i : Nat} {t : Fun.Term} {c : Core.Term} {T : Core.Stmt}
    (h : Compiled q i t c T) : ∀ y ∈ fv t, y ≠ sig := by
  obtain ⟨st, st', _, _, h3, _⟩ := h
  exact h3.fv_ne_sig

theorem Compiled.sig_lt {i m : Nat} {t : Fun.Term} {c : Core.Term} {T : Core.Stmt}
    (h : Compiled q i t c T) (him : i ≤ m) : ∀ b ∈ tfvTerm c [], b.var.name = sig → b.var.id < m := by
  obtain ⟨st, st', _, _, _, h4⟩ := h
  exact h4.sig_lt him

/-- `if □ ~ b {t} else {e}` -/
theorem cont_ifL (hcod : CodOK p q)
    {srt : Fun.IfSort} {b t e : Fun.Term} {env : Fun.Env}
    {k : Fun.Stack} {c : Core.Term} {i n : Nat} {B : Core.Term} {T E : Core.Stmt} {ρ0 ρ : CEnv}
    {out : Out} {z1 : Core.Ident} {τ1 : Core.Ty} {v : Fun.Value} {V : CVal}
    (hgb : good p b = true) (hgt : good p t = true) (hge : good p e = true)
    (hbt : getType b = some .i64)
    {stb stb' : CompileState} (hcb : compile b .i64 stb = .ok (B, stb')) (hstb : StOK q stb')
    (htnb : TermNames b stb)
    (hct : Compiled q i t c T) (hce : Compiled q i e c E) (hin : i ≤ n)
    (he : EnvRel (GP p) p q n (fv b ++ fv t ++ fv e) env ρ0) (hr : CRel (GP p) p q n k c ρ0)
    (hbB : BoundOn (tfvTerm B []) ρ0) (hbT : BoundOn (tfvStmt T []) ρ0)
    (hbE : BoundOn (tfvStmt E []) ρ0)
    (haB : AgreeOn (tfvTerm B []) ρ0 ρ) (haT : AgreeOn (tfvStmt T []) ρ0 ρ)
    (haE : AgreeOn (tfvStmt E []) ρ0 ρ)
    (hl1 : Core.Env.lookup ρ z1 = .ok V) (hz1 : z1.name = sig → z1.id < n)
    (hv : VRel (GP p) p q n v V) :
    Chunk p q (R p q) true true μ (.ret v (.ifL srt b t e env :: k))
      ⟨.ifc (compileSort srt) (.var .prd z1 τ1) B T E, ρ, out, n⟩ := by
  cases hv with
  | int a =>
    have f1 : FSteps p (.ret (.int a) (.ifL srt b t e env :: k))
        (.eval b env (.ifR srt a t e env :: k)) [] 1 := .one rfl
    refine Chunk.prefix f1 (.refl _) rfl (fun _ => Nat.le_refl _) (fun h => .inr h) ?_
    have hzne : z1 ≠ Core.sigmaName n := by
      intro e
      have := hz1 (by rw [e]; rfl)
      rw [e] at this
      simp [sigmaName_id] at this
    have hete : EnvRel (GP p) p q n (fv t ++ fv e) env ρ0 := he.sub fun y hy => by
      simp only [List.mem_append] at hy ⊢; rcases hy with h | h <;> simp [h]
    refine operand_sim hcod b hgb hbt (fun h => .ifc (compileSort srt) (.var .prd z1 τ1) h T E)
      (fun A hA => split_ifc2 rfl hA) hcb hstb htnb (he.sub fun y hy => by simp [hy]) hbB haB ?_ ?_
    · intro τ
      refine KRel.ifR (i := n) (ρ0 := ρ0) hgt hge (Nat.lt_succ_self n) hzne hl1 (hct.mono hin)
        (hce.mono hin) (hete.mono (Nat.le_succ n)) (hr.mono (Nat.le_succ n)) ?_ ?_
      · intro y hy
        rcases List.mem_append.1 (List.mem_filter.1 hy).1 with h | h
        · exact hbT y h
        · exact hbE y h
      · intro y hy
        rcases List.mem_append.1 (List.mem_filter.1 hy).1 with h | h
        · exact haT y h
        · exact haE y h
    · intro ρ' n' z τ v2 V2 hn hext hl hvr hb
      obtain ⟨ρ0', hext0, hag'⟩ := hext.agree (ρ0 := ρ0)
      have hfs : ∀ y ∈ fv t ++ fv e, y ≠ sig := by
        intro y hy
        rcases List.mem_append.1 hy with h | h
        · exact hct.fv_ne_sig y h
        · exact hce.fv_ne_sig y h
      refine cont_ifR (ρ0 := ρ0') hgt hge hct hce (by omega)
        ((hete.mono hn).sigExt hext0 hfs)
        ((hr.mono hn).sigExt hext0 (hct.sig_lt hin))
        (hbT.sigExt hext0) (hbE.sigExt hext0) (hag' _ haT) (hag' _ haE)
        ?_ hl (hvr.mono hn)
      rw [hext.lookup z1 hz1]
      exact hl1
  | con _ => exact .inl ⟨0, _, .stuck (.notInt "if"), .refl _, rfl, fun h => h.elim⟩
  | cont _ => exact .inl ⟨0, _, .stuck (.notInt "if"), .refl _, rfl, fun h => h.elim⟩
  | obj _ _ _ _ _ => exact .inl ⟨0, _, .stuck (.notInt "if"), .refl _, rfl, fun h => h.elim⟩

end Scc.Fun2Core.Sem
