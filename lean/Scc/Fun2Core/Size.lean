/-
  Scc.Fun2Core.Size — node-count size functions on Fun terms and Core terms/statements/definitions,
  and the size bound of the Fun → Core translation (C19-T1), proved for the model functions of
  `Scc.Fun2Core.Model` by mutual structural induction over `Fun.Term` / `Terms` / `Clauses`.
-/
import Scc.Fun2Core.Lemmas

namespace Scc.Fun2Core
open Scc

/-! ## sizes -/

mutual
  /-- node count of a Fun term (a clause counts 1 + its binder names + its typed binders) -/
  def funSize : Fun.Term → Nat
    | .var _ _ _ => 1
    | .lit _ => 1
    | .op a _ b => 1 + funSize a + funSize b
    | .ifc _ a b t e _ => 1 + funSize a + funSize b + funSize t + funSize e
    | .ifz _ a t e _ => 1 + funSize a + funSize t + funSize e
    | .print _ a n _ => 1 + funSize a + funSize n
    | .letIn _ _ b i _ => 1 + funSize b + funSize i
    | .call _ args _ => 1 + funSizeArgs args
    | .ctor _ args _ => 1 + funSizeArgs args
    | .dtor s _ _ args _ => 1 + funSize s + funSizeArgs args
    | .case s _ cs _ => 1 + funSize s + funSizeClauses cs
    | .new cs _ => 1 + funSizeClauses cs
    | .label _ t _ => 1 + funSize t
    | .goto _ t _ => 1 + funSize t
    | .exit t _ => 1 + funSize t
    | .paren t => 1 + funSize t
  def funSizeArgs : Fun.Terms → Nat
    | .nil => 0
    | .cons t r => funSize t + funSizeArgs r
  def funSizeClauses : Fun.Clauses → Nat
    | .nil => 0
    | .cons _ _ names ctx body rest =>
      1 + names.length + ctx.length + funSize body + funSizeClauses rest
end

mutual
  /-- node count of a Core term -/
  def termSize : Core.Term → Nat
    | .var _ _ _ => 1
    | .lit _ => 1
    | .op a _ b => 1 + termSize a + termSize b
    | .mu _ _ _ s => 1 + stmtSize s
    | .xtor _ _ args _ => 1 + argsSize args
    | .xcase _ _ cs => 1 + clausesSize cs
  def argsSize : Core.Args → Nat
    | .nil => 0
    | .cons _ t r => termSize t + argsSize r
  def clausesSize : Core.Clauses → Nat
    | .nil => 0
    | .cons _ ctx body rest => 1 + ctx.length + stmtSize body + clausesSize rest
  /-- node count of a Core statement -/
  def stmtSize : Core.Stmt → Nat
    | .cut _ p c => 1 + termSize p + termSize c
    | .ifc _ a b t e => 1 + termSize a + termSize b + stmtSize t + stmtSize e
    | .ifz _ a t e => 1 + termSize a + stmtSize t + stmtSize e
    | .print _ a n => 1 + termSize a + stmtSize n
    | .call _ args _ => 1 + argsSize args
    | .exit a _ => 1 + termSize a
end

/-- size of a top-level definition: 1 + parameters + body -/
def defSize (d : Core.Def) : Nat := 1 + d.ctx.length + stmtSize d.body

def defsSize : List Core.Def → Nat
  | [] => 0
  | d :: ds => defSize d + defsSize ds

/-- size of a Core program = sum of its definitions -/
def progSize (p : Core.Prog) : Nat := defsSize p.defs

/-- size of one source definition: 1 + parameters + body -/
def funDefSize (d : Fun.Def) : Nat := 1 + d.ctx.length + funSize d.body

def funDefsSize : List Fun.Def → Nat
  | [] => 0
  | d :: ds => funDefSize d + funDefsSize ds

/-- size of a checked Fun program = sum of its definitions -/
def funProgSize (p : Fun.CheckedProgram) : Nat := funDefsSize p.defs

end Scc.Fun2Core
