/-
  Scc.Fun2Core.SemDirect — "direct" producers: terms whose translation `compile t` is the producer
  itself (variables, literals, operators with pure operands — the operator may be `/` or `%` —,
  constructors of pure terms, parentheses).  Outcome of evaluating such a term on both machines.
-/
import Scc.Fun2Core.SemCorePure2
import Scc.Fun2Core.SemTfv

namespace Scc.Fun2Core.Sem
open Scc

variable {G : Fun.Term → Prop} {q : Core.Prog} {p : Fun.CheckedProgram}

/-- direct producers -/
def pureD : Fun.Term → Bool
  | .var .. => true
  | .lit _ => true
  | .op a _ b => pureFO a && pureFO b
  | .ctor _ as _ => pureFOs as
  | .paren t => pureD t
  | _ => false

mutual
  theorem pureFO_pure : ∀ t : Fun.Term, pureFO t = true → Fun.pureTerm t = true
    | .var .., _ => rfl
    | .lit _, _ => rfl
    | .op a o b, h => by
      simp only [pureFO, Bool.and_eq_true] at h
      simp only [Fun.pureTerm, Bool.and_eq_true]
      exact ⟨⟨h.1.1, pureFO_pure a h.1.2⟩, pureFO_pure b h.2⟩
    | .ctor _ as _, h => by
      simp only [pureFO] at h
      simp only [Fun.pureTerm]
      exact pureFOs_pure as h
    | .paren t, h => by
      simp only [pureFO] at h
      simp only [Fun.pureTerm]
      exact pureFO_pure t h
    | .ifc .., h => by simp [pureFO] at h
    | .ifz .., h => by simp [pureFO] at h
    | .print .., h => by simp [pureFO] at h
    | .letIn .., h => by simp [pureFO] at h
    | .call .., h => by simp [pureFO] at h
    | .dtor .., h => by simp [pureFO] at h
    | .case .., h => by simp [pureFO] at h
    | .new .., h => by simp [pureFO] at h
    | .label .., h => by simp [pureFO] at h
    | .goto .., h => by simp [pureFO] at h
    | .exit .., h => by simp [pureFO] at h
  theorem pureFOs_pure : ∀ as : Fun.Terms, pureFOs as = true → Fun.pureTerms as = true
    | .nil, _ => rfl
    | .cons t r, h => by
      simp only [pureFOs, Bool.and_eq_true] at h
      simp only [Fun.pureTerms, Bool.and_eq_true]
      exact ⟨pureFO_pure t h.1, pureFOs_pure r h.2⟩
end

theorem pureFO_pureD : ∀ t : Fun.Term, pureFO t = true → pureD t = true
  | .var .., _ => rfl
  | .lit _, _ => rfl
  | .op a o b, h => by
    simp only [pureFO, Bool.and_eq_true] at h
    simp [pureD, h.1.2, h.2]
  | .ctor _ as _, h => by simpa [pureFO, pureD] using h
  | .paren t, h => by
    simp only [pureFO] at h
    simp only [pureD]
    exact pureFO_pureD t h
  | .ifc .., h => by simp [pureFO] at h
  | .ifz .., h => by simp [pureFO] at h
  | .print .., h => by simp [pureFO] at h
  | .letIn .., h => by simp [pureFO] at h
  | .call .., h => by simp [pureFO] at h
  | .dtor .., h => by simp [pureFO] at h
  | .case .., h => by simp [pureFO] at h
  | .new .., h => by simp [pureFO] at h
  | .label .., h => by simp [pureFO] at h
  | .goto .., h => by simp [pureFO] at h
  | .exit .., h => by simp [pureFO] at h

/-! ## the free names of a direct term are free in its translation -/

mutual
  theorem fo_fv_tfv : ∀ (t : Fun.Term), pureFO t = true → ∀ (ty : Core.Ty) (st : CompileState)
      (P : Core.Term) (st' : CompileState), compile t ty st = .ok (P, st') →
      ∀ y ∈ fv t, ∃ b ∈ tfvTerm P [], b.var = ⟨y, 0⟩
    | .var x vty chi, _, ty, st, P, st', hc, y, hy => by
      rw [c_var] at hc
      cases vty with
      | none => simp at hc
      | some τ =>
        simp only [Except.ok.injEq, Prod.mk.injEq] at hc
        obtain ⟨rfl, _⟩ := hc
        simp only [fv, List.mem_singleton] at hy
        subst hy
        exact ⟨_, mem_tfv_var.2 rfl, rfl⟩
    | .lit k, _, ty, st, P, st', hc, y, hy => by simp [fv] at hy
    | .op a o b, hpf, ty, st, P, st', hc, y, hy => by
      simp only [pureFO, Bool.and_eq_true] at hpf
      rw [c_op] at hc
      cases hca : compile a .i64 st with
      | error e => simp [hca] at hc
      | ok ra =>
        obtain ⟨A, st1⟩ := ra
        cases hcb : compile b .i64 st1 with
        | error e => simp [hca, hcb] at hc
        | ok rb =>
          obtain ⟨B, st2⟩ := rb
          simp only [hca, hcb, Except.ok.injEq, Prod.mk.injEq] at hc
          obtain ⟨rfl, _⟩ := hc
          simp only [fv, List.mem_append] at hy
          rcases hy with hy | hy
          · obtain ⟨bb, h1, h2⟩ := fo_fv_tfv a hpf.1.2 _ _ _ _ hca y hy
            exact ⟨bb, mem_tfv_op.2 (.inl h1), h2⟩
          · obtain ⟨bb, h1, h2⟩ := fo_fv_tfv b hpf.2 _ _ _ _ hcb y hy
            exact ⟨bb, mem_tfv_op.2 (.inr h1), h2⟩
    | .ctor K args cty0, hpf, ty, st, P, st', hc, y, hy => by
      simp only [pureFO] at hpf
      rw [c_ctor] at hc
      cases hca : compileSubst args st with
      | error e => simp [hca] at hc
      | ok ra =>
        obtain ⟨as', st1⟩ := ra
        cases cty0 with
        | none => simp [hca] at hc
        | some τ =>
          simp only [hca, Except.ok.injEq, Prod.mk.injEq] at hc
          obtain ⟨rfl, _⟩ := hc
          simp only [fv] at hy
          obtain ⟨bb, h1, h2⟩ := fos_fv_tfv args hpf _ _ _ hca y hy
          exact ⟨bb, mem_tfv_xtor.2 h1, h2⟩
    | .paren t, hpf, ty, st, P, st', hc, y, hy => by
      simp only [pureFO] at hpf
      rw [c_paren] at hc
      simp only [fv] at hy
      exact fo_fv_tfv t hpf _ _ _ _ hc y hy
    | .ifc .., h, _, _, _, _, _, _, _ => by simp [pureFO] at h
    | .ifz .., h, _, _, _, _, _, _, _ => by simp [pureFO] at h
    | .print .., h, _, _, _, _, _, _, _ => by simp [pureFO] at h
    | .letIn .., h, _, _, _, _, _, _, _ => by simp [pureFO] at h
    | .call .., h, _, _, _, _, _, _, _ => by simp [pureFO] at h
    | .dtor .., h, _, _, _, _, _, _, _ => by simp [pureFO] at h
    | .case .., h, _, _, _, _, _, _, _ => by simp [pureFO] at h
    | .new .., h, _, _, _, _, _, _, _ => by simp [pureFO] at h
    | .label .., h, _, _, _, _, _, _, _ => by simp [pureFO] at h
    | .goto .., h, _, _, _, _, _, _, _ => by simp [pureFO] at h
    | .exit .., h, _, _, _, _, _, _, _ => by simp [pureFO] at h
  theorem fos_fv_tfv : ∀ (args : Fun.Terms), pureFOs args = true → ∀ (st : CompileState)
      (as' : Core.Args) (st' : CompileState), compileSubst args st = .ok (as', st') →
      ∀ y ∈ fvArgs args, ∃ b ∈ tfvArgs as' [], b.var = ⟨y, 0⟩
    | .nil, _, st, as', st', hc, y, hy => by simp [fvArgs] at hy
    | .cons t rest, hpf, st, as', st', hc, y, hy => by
      simp only [pureFOs, Bool.and_eq_true] at hpf
      rw [subst_cons] at hc
      simp only [fvArgs, List.mem_append] at hy
      cases hcv : covarArg t with
      | some xt =>
        obtain ⟨x, oty⟩ := xt
        have ht := covarArg_some hcv
        subst ht
        rw [hcv] at hc
        cases oty with
        | none => simp at hc
        | some τ =>
          simp only at hc
          cases hcr : compileSubst rest st with
          | error e => simp [hcr] at hc
          | ok rr =>
            obtain ⟨r', st1⟩ := rr
            simp only [hcr, Except.ok.injEq, Prod.mk.injEq] at hc
            obtain ⟨rfl, _⟩ := hc
            rcases hy with hy | hy
            · simp only [fv, List.mem_singleton] at hy
              subst hy
              exact ⟨_, mem_tfv_args_cons.2 (.inl (mem_tfv_var.2 rfl)), rfl⟩
            · obtain ⟨bb, h1, h2⟩ := fos_fv_tfv rest hpf.2 _ _ _ hcr y hy
              exact ⟨bb, mem_tfv_args_cons.2 (.inr h1), h2⟩
      | none =>
        rw [hcv] at hc
        simp only at hc
        cases hty : getType t with
        | none => simp [hty] at hc
        | some τ =>
          rw [hty] at hc
          simp only at hc
          cases hct : compile t (compileTy τ) st with
          | error e => simp [hct] at hc
          | ok rt =>
            obtain ⟨P, st1⟩ := rt
            cases hcr : compileSubst rest st1 with
            | error e => simp [hct, hcr] at hc
            | ok rr =>
              obtain ⟨r', st2⟩ := rr
              simp only [hct, hcr, Except.ok.injEq, Prod.mk.injEq] at hc
              obtain ⟨rfl, _⟩ := hc
              rcases hy with hy | hy
              · obtain ⟨bb, h1, h2⟩ := fo_fv_tfv t hpf.1 _ _ _ _ hct y hy
                exact ⟨bb, mem_tfv_args_cons.2 (.inl h1), h2⟩
              · obtain ⟨bb, h1, h2⟩ := fos_fv_tfv rest hpf.2 _ _ _ hcr y hy
                exact ⟨bb, mem_tfv_args_cons.2 (.inr h1), h2⟩
end

/-! ## outcome of a direct producer on both machines -/

/-- the Core machine stops with `r'` while evaluating `A` (under any inert consumer) -/
def PFault (q : Core.Prog) (A : Core.Term) (ρ : CEnv) (n : Nat) (r' : Core.Res) : Prop :=
  ∀ (c : Core.Term) (cty : Core.Ty) (out : Out), Inert c →
    ∃ i S1, CSteps q ⟨.cut cty A c, ρ, out, n⟩ S1 i ∧ S1.out = out ∧ Core.step q S1 = .final r'

theorem arith_error_cases {o : Fun.BinOp} {x y : BitVec 64} {w : Fun.Why}
    (h : Fun.arith o x y = .error w) : w = .divByZero ∨ w = .overflow := by
  cases o with
  | div =>
    simp only [Fun.arith] at h
    split at h
    · cases h; exact .inl rfl
    · split at h
      · cases h; exact .inr rfl
      · cases h
  | rem =>
    simp only [Fun.arith] at h
    split at h
    · cases h; exact .inl rfl
    · split at h
      · cases h; exact .inr rfl
      · cases h
  | sum => cases h
  | sub => cases h
  | prod => cases h

/-- a focused cut whose producer cannot be evaluated stops the machine -/
theorem step_cut_fault {q : Core.Prog} (hq : q.codataTypes = []) {cty : Core.Ty} {A c : Core.Term}
    {ρ : CEnv} {out : Out} {n : Nat} {e : Core.Why}
    (hA : isFocusedVal A = true) (hc : Inert c) (hV : Core.prdVal ρ A = .error e) :
    Core.step q ⟨.cut cty A c, ρ, out, n⟩ = .final (.stuck e) := by
  have hs : Core.sigmaStep (Core.sigmaName n) (.cut cty A c) = none := by
    simp only [Core.sigmaStep, split_cut_focused hA hc]
  simp only [Core.step, hs, hq, isCodata_nil, Core.stepCut]
  cases A with
  | mu pc v ty s => simp [isFocusedVal] at hA
  | _ => simp only [hV, Bool.false_eq_true, if_false, Core.stuck]

theorem pfault_op (hq : q.codataTypes = []) {A B : Core.Term} {o : Fun.BinOp} {ρ : CEnv}
    {n : Nat} {x y : BitVec 64} {w : Fun.Why}
    (hA : PVal q A ρ n (IsInt x))
    (hB : ∀ ρ' n', SigExt n ρ ρ' → n ≤ n' → PVal q B ρ' n' (IsInt y))
    (har : Fun.arith o x y = .error w) :
    ∃ r', ResMatch (.stuck w) r' ∧ PFault q (.op A (compileOp o) B) ρ n r' := by
  have hw := arith_error_cases har
  refine ⟨.stuck (match w with | .divByZero => .divByZero | _ => .overflow), ?_, ?_⟩
  · rcases hw with rfl | rfl
    · exact .div
    · exact .ovf
  · intro c cty out hc
    obtain ⟨i, ρ', n', z1, t1, z2, t2, hs, hn, he, l1, l2⟩ :=
      core_op_operands hq hA hB c cty out hc
    refine ⟨i, _, hs, rfl, ?_⟩
    rw [step_cut_fault hq (by rfl) hc]
    simp only [Core.prdVal, lookupInt_of_lookup l1, lookupInt_of_lookup l2, arith_compile, har]
    rcases hw with rfl | rfl <;> rfl

/-- a direct producer: both machines compute related values, or the Fun machine gets stuck for a
reason that is not an arithmetic fault, or both stop with the same arithmetic fault -/
theorem direct_sim (hq : q.codataTypes = []) (hp : p.codataTypes = []) :
    ∀ (b : Fun.Term), pureD b = true → ∀ (env : Fun.Env) (K : Fun.Stack) (ty : Core.Ty)
      (st : CompileState) (B : Core.Term) (st' : CompileState) (m : Nat) (ρ : CEnv) (n : Nat),
      compile b ty st = .ok (B, st') → EnvRel G q m (fv b) env ρ → (∀ y ∈ fv b, y ≠ sig) →
      (∃ v j, 1 ≤ j ∧ FSteps p (.eval b env K) (.ret v K) [] j ∧ PVal q B ρ n (VRel G q m v)) ∨
      (∃ j s1 w, FSteps p (.eval b env K) s1 [] j ∧ Fun.step p s1 = .stuck w ∧ Bad w) ∨
      (∃ j s1 w r', FSteps p (.eval b env K) s1 [] j ∧ Fun.step p s1 = .stuck w ∧
        ResMatch (.stuck w) r' ∧ B.isVar = false ∧ PFault q B ρ n r' ∧ PFault q B ρ (n + 1) r')
  | .paren t, hd, env, K, ty, st, B, st', m, ρ, n, hc, he, hs => by
    simp only [pureD] at hd
    rw [c_paren] at hc
    have s0 : FSteps p (.eval (.paren t) env K) (.eval t env K) [] 1 := .one rfl
    rcases direct_sim hq hp t hd env K ty st B st' m ρ n hc (by simpa [fv] using he)
        (by simpa [fv] using hs) with ⟨v, j, hj, fj, hv⟩ | ⟨j, s1, w, fj, h1, h2⟩ |
        ⟨j, s1, w, r', fj, h1, h2, h3⟩
    · have := s0.trans fj
      simp only [List.append_nil] at this
      exact .inl ⟨v, _, by omega, this, hv⟩
    · have := s0.trans fj
      simp only [List.append_nil] at this
      exact .inr (.inl ⟨_, s1, w, this, h1, h2⟩)
    · have := s0.trans fj
      simp only [List.append_nil] at this
      exact .inr (.inr ⟨_, s1, w, r', this, h1, h2, h3⟩)
  | .op a o b, hd, env, K, ty, st, P, st', m, ρ, n, hc, he, hs => by
    simp only [pureD, Bool.and_eq_true] at hd
    rw [c_op] at hc
    cases hca : compile a .i64 st with
    | error e => simp [hca] at hc
    | ok ra =>
      obtain ⟨A, st1⟩ := ra
      cases hcb : compile b .i64 st1 with
      | error e => simp [hca, hcb] at hc
      | ok rb =>
        obtain ⟨B, st2⟩ := rb
        simp only [hca, hcb, Except.ok.injEq, Prod.mk.injEq] at hc
        obtain ⟨rfl, _⟩ := hc
        rcases fun_op_top p a b o env K (pureFO_pure a hd.1) (pureFO_pure b hd.2) with
          ⟨x, y, j, ha, hb, hj, fj⟩ | ⟨_, hbad⟩
        · have hea : EnvRel G q m (fv a) env ρ := he.sub fun y hy => by simp [fv, hy]
          have heb : EnvRel G q m (fv b) env ρ := he.sub fun y hy => by simp [fv, hy]
          have hsa : ∀ y ∈ fv a, y ≠ sig := fun y hy => hs y (by simp [fv, hy])
          have hsb : ∀ y ∈ fv b, y ≠ sig := fun y hy => hs y (by simp [fv, hy])
          have hA : ∀ n0, PVal q A ρ n0 (IsInt x) := fun n0 =>
            (core_pure hq hp a hd.1 env _ _ st A st1 m ρ n0 hca ha hea hsa).imp
              fun V h => h.int_inv
          have hB : ∀ n0 ρ' n', SigExt n0 ρ ρ' → n0 ≤ n' → PVal q B ρ' n' (IsInt y) :=
            fun n0 ρ' n' hext _ =>
              (core_pure hq hp b hd.2 env _ _ st1 B st2 m ρ' n' hcb hb
                (heb.sigExt hext hsb) hsb).imp fun V h => h.int_inv
          cases har : Fun.arith o x y with
          | ok r =>
            have s1 : FSteps p (.ret (.int y) (.opR o x :: K)) (.ret (.int r) K) [] 1 :=
              .one (by rw [step_opR, har])
            have := fj.trans s1
            simp only [List.append_nil] at this
            have hev : ∀ n0, PEval q (.op A (compileOp o) B) ρ n0 (VRel G q m (.int r)) :=
              fun n0 => (peval_op hq (hA n0) (hB n0) har).imp fun V h => by
                rw [show V = .int r from h]; exact .int _ _
            exact .inl ⟨.int r, _, by omega, this,
              ⟨fun pc z ty' e => (by cases e), fun _ => ⟨hev n, hev (n + 1)⟩⟩⟩
          | error w =>
            obtain ⟨r', hr, hf⟩ := pfault_op hq (hA n) (hB n) har
            obtain ⟨r'', hr', hf'⟩ := pfault_op hq (hA (n + 1)) (hB (n + 1)) har
            have hrr : r'' = r' := by cases hr <;> cases hr' <;> rfl
            subst hrr
            exact .inr (.inr ⟨_, _, w, r'', fj, by rw [step_opR, har], hr, rfl, hf, hf'⟩)
        · exact .inr (.inl hbad)
  | .var x vty chi, _, env, K, ty, st, B, st', m, ρ, n, hc, he, hs => by
    cases hv : pureVal p (.var x vty chi) env with
    | some v =>
      obtain ⟨j, hj, fj⟩ := fun_pure p _ env v K rfl hv
      exact .inl ⟨v, j, hj, fj, core_pure hq hp _ rfl env v ty st B st' m ρ n hc hv he hs⟩
    | none => exact .inr (.inl (fun_pure_none p _ env K rfl hv))
  | .lit k, _, env, K, ty, st, B, st', m, ρ, n, hc, he, hs => by
    cases hv : pureVal p (.lit k) env with
    | some v =>
      obtain ⟨j, hj, fj⟩ := fun_pure p _ env v K rfl hv
      exact .inl ⟨v, j, hj, fj, core_pure hq hp _ rfl env v ty st B st' m ρ n hc hv he hs⟩
    | none => exact .inr (.inl (fun_pure_none p _ env K rfl hv))
  | .ctor c as cty, hd, env, K, ty, st, B, st', m, ρ, n, hc, he, hs => by
    have hfo : pureFO (.ctor c as cty) = true := by simpa [pureFO, pureD] using hd
    cases hv : pureVal p (.ctor c as cty) env with
    | some v =>
      obtain ⟨j, hj, fj⟩ := fun_pure p _ env v K (pureFO_pure _ hfo) hv
      exact .inl ⟨v, j, hj, fj, core_pure hq hp _ hfo env v ty st B st' m ρ n hc hv he hs⟩
    | none => exact .inr (.inl (fun_pure_none p _ env K (pureFO_pure _ hfo) hv))
  | .ifc .., h, _, _, _, _, _, _, _, _, _, _, _, _ => by simp [pureD] at h
  | .ifz .., h, _, _, _, _, _, _, _, _, _, _, _, _ => by simp [pureD] at h
  | .print .., h, _, _, _, _, _, _, _, _, _, _, _, _ => by simp [pureD] at h
  | .letIn .., h, _, _, _, _, _, _, _, _, _, _, _, _ => by simp [pureD] at h
  | .call .., h, _, _, _, _, _, _, _, _, _, _, _, _ => by simp [pureD] at h
  | .dtor .., h, _, _, _, _, _, _, _, _, _, _, _, _ => by simp [pureD] at h
  | .case .., h, _, _, _, _, _, _, _, _, _, _, _, _ => by simp [pureD] at h
  | .new .., h, _, _, _, _, _, _, _, _, _, _, _, _ => by simp [pureD] at h
  | .label .., h, _, _, _, _, _, _, _, _, _, _, _, _ => by simp [pureD] at h
  | .goto .., h, _, _, _, _, _, _, _, _, _, _, _, _ => by simp [pureD] at h
  | .exit .., h, _, _, _, _, _, _, _, _, _, _, _, _ => by simp [pureD] at h

end Scc.Fun2Core.Sem
