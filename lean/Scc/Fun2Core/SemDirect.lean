/-
  Scc.Fun2Core.SemDirect — "direct" producers: terms whose translation `compile t` is the producer
  itself (variables, literals, operators with pure operands — the operator may be `/` or `%` —,
  constructors of pure terms, parentheses).  Outcome of evaluating such a term on both machines.
-/
import Scc.Fun2Core.SemCorePure2

namespace Scc.Fun2Core.Sem
open Scc

variable {G : Fun.Term → Prop} {q : Core.Prog} {p : Fun.CheckedProgram}

/-- direct producers -/
def pureD (p : Fun.CheckedProgram) (gc : Fun.Clauses → Bool) : Fun.Term → Bool
  | .var .. => true
  | .lit _ => true
  | .op a _ b => pureFO p gc a && pureFO p gc b
  | .ctor _ as _ => pureFOs p gc as
  | .new cs _ => gc cs
  | .paren t => pureD p gc t
  | _ => false

mutual
  theorem pureFO_pure (gc : Fun.Clauses → Bool) : ∀ t : Fun.Term, pureFO p gc t = true →
      Fun.pureTerm t = true
    | .var .., _ => rfl
    | .lit _, _ => rfl
    | .op a o b, h => by
      simp only [pureFO, Bool.and_eq_true] at h
      simp only [Fun.pureTerm, Bool.and_eq_true]
      exact ⟨⟨h.1.1, pureFO_pure gc a h.1.2⟩, pureFO_pure gc b h.2⟩
    | .ctor _ as _, h => by
      simp only [pureFO] at h
      simp only [Fun.pureTerm]
      exact pureFOs_pure gc as h
    | .new .., _ => rfl
    | .paren t, h => by
      simp only [pureFO] at h
      simp only [Fun.pureTerm]
      exact pureFO_pure gc t h
    | .ifc .., h => by simp [pureFO] at h
    | .ifz .., h => by simp [pureFO] at h
    | .print .., h => by simp [pureFO] at h
    | .letIn .., h => by simp [pureFO] at h
    | .call .., h => by simp [pureFO] at h
    | .dtor .., h => by simp [pureFO] at h
    | .case .., h => by simp [pureFO] at h
    | .label .., h => by simp [pureFO] at h
    | .goto .., h => by simp [pureFO] at h
    | .exit .., h => by simp [pureFO] at h
  theorem pureFOs_pure (gc : Fun.Clauses → Bool) : ∀ as : Fun.Terms, pureFOs p gc as = true →
      Fun.pureTerms as = true
    | .nil, _ => rfl
    | .cons t r, h => by
      simp only [pureFOs, Bool.and_eq_true] at h
      simp only [Fun.pureTerms, Bool.and_eq_true]
      exact ⟨pureFO_pure gc t h.1.1, pureFOs_pure gc r h.2⟩
end

/-! ## outcome of a direct producer on both machines -/

/-- the Core machine stops with `r'` while evaluating `A` (under any inert consumer) -/
def PFault (q : Core.Prog) (A : Core.Term) (ρ : CEnv) (n : Nat) (r' : Core.Res) : Prop :=
  ∀ (c : Core.Term) (cty : Core.Ty) (out : Out), Inert c → Core.isCodata q.codataTypes cty = false →
    ∃ i S1, CSteps q ⟨.cut cty A c, ρ, out, n⟩ S1 i ∧ S1.out = out ∧ Core.step q S1 = .final r'

theorem arith_error_cases {o : Fun.BinOp} {x y : BitVec 64} {w : Fun.Why}
    (h : Fun.arith o x y = .error w) : w = .divByZero ∨ w = .overflow := by
  cases o with
  | div =>
    simp only [Fun.arith] at h
    split at h
    · cases h; exact .inl rfl
    · split at h
      · cases h; exact .inr rfl
      · cases h
  | rem =>
    simp only [Fun.arith] at h
    split at h
    · cases h; exact .inl rfl
    · split at h
      · cases h; exact .inr rfl
      · cases h
  | sum => cases h
  | sub => cases h
  | prod => cases h

/-- a focused cut whose producer cannot be evaluated stops the machine -/
theorem step_cut_fault {q : Core.Prog} {cty : Core.Ty} {A c : Core.Term}
    (hnc : Core.isCodata q.codataTypes cty = false)
    {ρ : CEnv} {out : Out} {n : Nat} {e : Core.Why}
    (hA : isFocusedVal A = true) (hc : Inert c) (hV : Core.prdVal ρ A = .error e) :
    Core.step q ⟨.cut cty A c, ρ, out, n⟩ = .final (.stuck e) := by
  have hs : Core.sigmaStep (Core.sigmaName n) (.cut cty A c) = none := by
    simp only [Core.sigmaStep, split_cut_focused hA hc]
  simp only [Core.step, hs, hnc, Core.stepCut]
  cases A with
  | mu pc v ty s => simp [isFocusedVal] at hA
  | _ => simp only [hV, Bool.false_eq_true, if_false, Core.stuck]

theorem pfault_op {A B : Core.Term} {o : Fun.BinOp} {ρ : CEnv}
    {n : Nat} {x y : BitVec 64} {w : Fun.Why}
    (hA : PVal q A ρ n (IsInt x))
    (hB : ∀ ρ' n', SigExt n ρ ρ' → n ≤ n' → PVal q B ρ' n' (IsInt y))
    (har : Fun.arith o x y = .error w) :
    ∃ r', ResMatch (.stuck w) r' ∧ PFault q (.op A (compileOp o) B) ρ n r' := by
  have hw := arith_error_cases har
  refine ⟨.stuck (match w with | .divByZero => .divByZero | _ => .overflow), ?_, ?_⟩
  · rcases hw with rfl | rfl
    · exact .div
    · exact .ovf
  · intro c cty out hc hnc
    obtain ⟨i, ρ', n', z1, t1, z2, t2, hs, hn, he, l1, l2⟩ :=
      core_op_operands hA hB c cty out hc
    refine ⟨i, _, hs, rfl, ?_⟩
    rw [step_cut_fault hnc (by rfl) hc]
    simp only [Core.prdVal, lookupInt_of_lookup l1, lookupInt_of_lookup l2, arith_compile, har]
    rcases hw with rfl | rfl <;> rfl

section
variable (gc : Fun.Clauses → Bool)
  (hgc : ∀ cs, gc cs = true → ∀ K cl, Fun.findClause K cs = some cl →
    G cl.body ∧ cl.names.Nodup ∧ cl.ctx.map (·.var) = cl.names)
include hgc

/-- a direct producer: both machines compute related values, or the Fun machine gets stuck for a
reason that is not an arithmetic fault, or both stop with the same arithmetic fault -/
theorem direct_sim :
    ∀ (b : Fun.Term), pureD p gc b = true → ∀ (env : Fun.Env) (K : Fun.Stack) (ty : Core.Ty)
      (st : CompileState) (B : Core.Term) (st' : CompileState) (m : Nat) (ρ0 ρ : CEnv) (n : Nat),
      compile b ty st = .ok (B, st') → StOK q st' → TermNames b st →
      EnvRel G p q m (fv b) env ρ0 → BoundOn (tfvTerm B []) ρ0 → AgreeOn (tfvTerm B []) ρ0 ρ →
      (∃ v j, 1 ≤ j ∧ FSteps p (.eval b env K) (.ret v K) [] j ∧ PVal q B ρ n (VRel G p q m v)) ∨
      (∃ j s1 w, FSteps p (.eval b env K) s1 [] j ∧ Fun.step p s1 = .stuck w ∧ Bad w) ∨
      (∃ j s1 w r', FSteps p (.eval b env K) s1 [] j ∧ Fun.step p s1 = .stuck w ∧
        ResMatch (.stuck w) r' ∧ B.isVar = false ∧ PFault q B ρ n r' ∧ PFault q B ρ (n + 1) r')
  | .paren t, hd, env, K, ty, st, B, st', m, ρ0, ρ, n, hc, hst, htn, he, hbd, hag => by
    simp only [pureD] at hd
    rw [c_paren] at hc
    have s0 : FSteps p (.eval (.paren t) env K) (.eval t env K) [] 1 := .one rfl
    rcases direct_sim t hd env K ty st B st' m ρ0 ρ n hc hst
        ⟨by simpa [fv] using htn.fv, by simpa [binderNames] using htn.bd, htn.nosig⟩
        (by simpa [fv] using he) hbd hag with ⟨v, j, hj, fj, hv⟩ | ⟨j, s1, w, fj, h1, h2⟩ |
        ⟨j, s1, w, r', fj, h1, h2, h3⟩
    · have := s0.trans fj
      simp only [List.append_nil] at this
      exact .inl ⟨v, _, by omega, this, hv⟩
    · have := s0.trans fj
      simp only [List.append_nil] at this
      exact .inr (.inl ⟨_, s1, w, this, h1, h2⟩)
    · have := s0.trans fj
      simp only [List.append_nil] at this
      exact .inr (.inr ⟨_, s1, w, r', this, h1, h2, h3⟩)
  | .op a o b, hd, env, K, ty, st, P, st', m, ρ0, ρ, n, hc, hst, htn, he, hbd, hag => by
    simp only [pureD, Bool.and_eq_true] at hd
    rw [c_op] at hc
    cases hca : compile a .i64 st with
    | error e => simp [hca] at hc
    | ok ra =>
      obtain ⟨A, st1⟩ := ra
      cases hcb : compile b .i64 st1 with
      | error e => simp [hca, hcb] at hc
      | ok rb =>
        obtain ⟨B, st2⟩ := rb
        simp only [hca, hcb, Except.ok.injEq, Prod.mk.injEq] at hc
        obtain ⟨rfl, rfl⟩ := hc
        rcases fun_op_top p a b o env K (pureFO_pure gc a hd.1) (pureFO_pure gc b hd.2) with
          ⟨x, y, j, ha, hb, hj, fj⟩ | ⟨_, hbad⟩
        · have fa := fs_compile hca
          have fb := fs_compile hcb
          have hst1 := hst.of_fresh fb.1
          have tna : TermNames a st := htn.of_sub (fun y hy => by simp [fv, hy])
            (fun y hy => by simp [binderNames, hy]) (fs_stepRel.refl st)
          have tnb : TermNames b st1 := htn.of_sub (fun y hy => by simp [fv, hy])
            (fun y hy => by simp [binderNames, hy]) fa
          have hea : EnvRel G p q m (fv a) env ρ0 := he.sub fun y hy => by simp [fv, hy]
          have heb : EnvRel G p q m (fv b) env ρ0 := he.sub fun y hy => by simp [fv, hy]
          have hbdA : BoundOn (tfvTerm A []) ρ0 := hbd.mono fun y hy => mem_tfv_op.2 (.inl hy)
          have hbdB : BoundOn (tfvTerm B []) ρ0 := hbd.mono fun y hy => mem_tfv_op.2 (.inr hy)
          have hagA : AgreeOn (tfvTerm A []) ρ0 ρ := hag.mono fun y hy => mem_tfv_op.2 (.inl hy)
          have hagB : AgreeOn (tfvTerm B []) ρ0 ρ := hag.mono fun y hy => mem_tfv_op.2 (.inr hy)
          have hA : ∀ n0, PVal q A ρ n0 (IsInt x) := fun n0 =>
            (core_pure gc hgc a hd.1 env _ _ st A st1 m ρ0 ρ n0 hca hst1 tna ha hea hbdA hagA).imp
              fun V h => h.int_inv
          have hB : ∀ n0 ρ' n', SigExt n0 ρ ρ' → n0 ≤ n' → PVal q B ρ' n' (IsInt y) :=
            fun n0 ρ' n' hext _ => by
              obtain ⟨ρ0', he', hbd', hag'⟩ := ideal_sigExt heb hbdB hagB hext tnb.fv_ne_sig
              exact (core_pure gc hgc b hd.2 env _ _ st1 B st2 m ρ0' ρ' n' hcb hst tnb hb
                he' hbd' hag').imp fun V h => h.int_inv
          cases har : Fun.arith o x y with
          | ok r =>
            have s1 : FSteps p (.ret (.int y) (.opR o x :: K)) (.ret (.int r) K) [] 1 :=
              .one (by rw [step_opR, har])
            have := fj.trans s1
            simp only [List.append_nil] at this
            have hev : ∀ n0, PEval q (.op A (compileOp o) B) ρ n0 (VRel G p q m (.int r)) :=
              fun n0 => (peval_op (hA n0) (hB n0) har).imp fun V h => by
                rw [show V = .int r from h]; exact .int _ _
            exact .inl ⟨.int r, _, by omega, this,
              ⟨fun pc z ty' e => (by cases e), fun _ => ⟨hev n, hev (n + 1)⟩⟩⟩
          | error w =>
            obtain ⟨r', hr, hf⟩ := pfault_op (hA n) (hB n) har
            obtain ⟨r'', hr', hf'⟩ := pfault_op (hA (n + 1)) (hB (n + 1)) har
            have hrr : r'' = r' := by cases hr <;> cases hr' <;> rfl
            subst hrr
            exact .inr (.inr ⟨_, _, w, r'', fj, by rw [step_opR, har], hr, rfl, hf, hf'⟩)
        · exact .inr (.inl hbad)
  | .var x vty chi, _, env, K, ty, st, B, st', m, ρ0, ρ, n, hc, hst, htn, he, hbd, hag => by
    cases hv : pureVal p (.var x vty chi) env with
    | some v =>
      obtain ⟨j, hj, fj⟩ := fun_pure p _ env v K rfl hv
      exact .inl ⟨v, j, hj, fj, core_pure gc hgc _ rfl env v ty st B st' m ρ0 ρ n hc hst htn hv he hbd hag⟩
    | none => exact .inr (.inl (fun_pure_none p _ env K rfl hv))
  | .lit k, _, env, K, ty, st, B, st', m, ρ0, ρ, n, hc, hst, htn, he, hbd, hag => by
    cases hv : pureVal p (.lit k) env with
    | some v =>
      obtain ⟨j, hj, fj⟩ := fun_pure p _ env v K rfl hv
      exact .inl ⟨v, j, hj, fj, core_pure gc hgc _ rfl env v ty st B st' m ρ0 ρ n hc hst htn hv he hbd hag⟩
    | none => exact .inr (.inl (fun_pure_none p _ env K rfl hv))
  | .ctor c as cty, hd, env, K, ty, st, B, st', m, ρ0, ρ, n, hc, hst, htn, he, hbd, hag => by
    have hfo : pureFO p gc (.ctor c as cty) = true := by simpa [pureFO, pureD] using hd
    cases hv : pureVal p (.ctor c as cty) env with
    | some v =>
      obtain ⟨j, hj, fj⟩ := fun_pure p _ env v K (pureFO_pure gc _ hfo) hv
      exact .inl ⟨v, j, hj, fj, core_pure gc hgc _ hfo env v ty st B st' m ρ0 ρ n hc hst htn hv he hbd hag⟩
    | none => exact .inr (.inl (fun_pure_none p _ env K (pureFO_pure gc _ hfo) hv))
  | .new cs cty, hd, env, K, ty, st, B, st', m, ρ0, ρ, n, hc, hst, htn, he, hbd, hag => by
    have hfo : pureFO p gc (.new cs cty) = true := by simpa [pureFO, pureD] using hd
    cases hv : pureVal p (.new cs cty) env with
    | some v =>
      obtain ⟨j, hj, fj⟩ := fun_pure p _ env v K rfl hv
      exact .inl ⟨v, j, hj, fj, core_pure gc hgc _ hfo env v ty st B st' m ρ0 ρ n hc hst htn hv he hbd hag⟩
    | none => exact .inr (.inl (fun_pure_none p _ env K rfl hv))
  | .ifc .., h, _, _, _, _, _, _, _, _, _, _, _, _, _, _, _, _ => by simp [pureD] at h
  | .ifz .., h, _, _, _, _, _, _, _, _, _, _, _, _, _, _, _, _ => by simp [pureD] at h
  | .print .., h, _, _, _, _, _, _, _, _, _, _, _, _, _, _, _, _ => by simp [pureD] at h
  | .letIn .., h, _, _, _, _, _, _, _, _, _, _, _, _, _, _, _, _ => by simp [pureD] at h
  | .call .., h, _, _, _, _, _, _, _, _, _, _, _, _, _, _, _, _ => by simp [pureD] at h
  | .dtor .., h, _, _, _, _, _, _, _, _, _, _, _, _, _, _, _, _ => by simp [pureD] at h
  | .case .., h, _, _, _, _, _, _, _, _, _, _, _, _, _, _, _, _ => by simp [pureD] at h
  | .label .., h, _, _, _, _, _, _, _, _, _, _, _, _, _, _, _, _ => by simp [pureD] at h
  | .goto .., h, _, _, _, _, _, _, _, _, _, _, _, _, _, _, _, _ => by simp [pureD] at h
  | .exit .., h, _, _, _, _, _, _, _, _, _, _, _, _, _, _, _, _ => by simp [pureD] at h

end

end Scc.Fun2Core.Sem
