/-
  Scc.Fun2Core.SemCorePure — the Core ς-machine on the translation of first-order PURE Fun terms
  (variables, literals, `+ - *`, constructors, parentheses) and of pure argument lists: the producer
  is evaluated to the Core value related to the Fun value, under any inert consumer.
-/
import Scc.Fun2Core.SemCore
import Scc.Fun2Core.Lemmas

namespace Scc.Fun2Core.Sem
open Scc

variable {G : Fun.Term → Prop} {q : Core.Prog} {p : Fun.CheckedProgram}

/-! ## arithmetic -/

theorem arith_compile (o : Fun.BinOp) (x y : BitVec 64) :
    Core.arith (compileOp o) x y =
      (match Fun.arith o x y with
        | .ok r => .ok r
        | .error .divByZero => .error .divByZero
        | .error .overflow => .error .overflow
        | .error _ => .error .shape) := by
  cases o <;> simp only [compileOp, Core.arith, Fun.arith, Core.minInt64]
  · by_cases h0 : y = 0 <;> by_cases hx : x = BitVec.intMin 64 <;> by_cases hy : y = -1 <;>
      simp_all
  · by_cases h0 : y = 0 <;> by_cases hx : x = BitVec.intMin 64 <;> by_cases hy : y = -1 <;>
      simp_all

theorem compare_compile (s : Fun.IfSort) (x y : BitVec 64) :
    Core.compare (compileSort s) x y = Fun.compare s x y := by
  cases s <;> rfl

/-! ## splitting cuts with an operator -/

theorem split_cut_op1 {cty : Core.Ty} {A B c : Core.Term} {o : Core.BinOp} (hA : A.isVar = false)
    (hc : Inert c) :
    (Core.Stmt.cut cty (.op A o B) c).split = some (.prd, A, fun h => .cut cty (.op h o B) c) := by
  cases c with
  | xtor _ _ _ _ => exact False.elim hc
  | _ => simp [Core.Stmt.split, hA]

theorem split_cut_op2 {cty : Core.Ty} {A B c : Core.Term} {o : Core.BinOp} (hA : A.isVar = true)
    (hB : B.isVar = false) (hc : Inert c) :
    (Core.Stmt.cut cty (.op A o B) c).split = some (.prd, B, fun h => .cut cty (.op A o h) c) := by
  cases c with
  | xtor _ _ _ _ => exact False.elim hc
  | _ => simp [Core.Stmt.split, hA, hB]

theorem lookupInt_of_lookup {ρ : CEnv} {z : Core.Ident} {a : BitVec 64}
    (h : Core.Env.lookup ρ z = .ok (.int a)) : Core.Env.lookupInt ρ z = .ok a := by
  simp [Core.Env.lookupInt, h]

/-! ## values of producers -/

/-- `A` denotes in `ρ` a value satisfying `Φ`: a variable is bound to one, any other producer is
evaluated to one by the machine (counter `n`, and `n + 1` after the ς-step that lifts it) -/
structure PVal (q : Core.Prog) (A : Core.Term) (ρ : CEnv) (n : Nat) (Φ : CVal → Prop) : Prop where
  var : ∀ pc z ty, A = .var pc z ty → pc = .prd ∧ z.name ≠ sig ∧
    ∃ V, Core.Env.lookup ρ z = .ok V ∧ Φ V
  nonvar : A.isVar = false → PEval q A ρ n Φ ∧ PEval q A ρ (n + 1) Φ

/-- `core_operand` for a producer with a value -/
theorem core_operand' {A : Core.Term} {ρ : CEnv} {n : Nat}
    {Φ : CVal → Prop} (hA : PVal q A ρ n Φ) (Sx : Core.Term → Core.Stmt) (out : Out)
    (hsp : A.isVar = false → (Sx A).split = some (.prd, A, Sx)) :
    ∃ i ρ' n' z ty V, CSteps q ⟨Sx A, ρ, out, n⟩ ⟨Sx (.var .prd z ty), ρ', out, n'⟩ i ∧ n ≤ n' ∧
      SigExt n ρ ρ' ∧ Core.Env.lookup ρ' z = .ok V ∧ Φ V ∧ (z.name = sig → z.id < n') :=
  core_operand Sx out
    (fun pc z ty e => by
      obtain ⟨h1, h2, h3⟩ := hA.var pc z ty e
      exact ⟨h1, fun e' => absurd e' h2, h3⟩)
    (fun hnv => ⟨(hA.nonvar hnv).2, hsp hnv⟩)

/-- `Φ` for an integer -/
def IsInt (x : BitVec 64) (V : CVal) : Prop := V = .int x

/-- both operands of an operator are evaluated, left to right -/
theorem core_op_operands {A B : Core.Term} {o : Core.BinOp} {ρ : CEnv}
    {n : Nat} {x y : BitVec 64}
    (hA : PVal q A ρ n (IsInt x))
    (hB : ∀ ρ' n', SigExt n ρ ρ' → n ≤ n' → PVal q B ρ' n' (IsInt y))
    (c : Core.Term) (cty : Core.Ty) (out : Out) (hc : Inert c) :
    ∃ i ρ' n' z1 t1 z2 t2, CSteps q ⟨.cut cty (.op A o B) c, ρ, out, n⟩
        ⟨.cut cty (.op (.var .prd z1 t1) o (.var .prd z2 t2)) c, ρ', out, n'⟩ i ∧ n ≤ n' ∧
      SigExt n ρ ρ' ∧ Core.Env.lookup ρ' z1 = .ok (.int x) ∧ Core.Env.lookup ρ' z2 = .ok (.int y) := by
  obtain ⟨i1, ρ1, n1, z1, t1, V1, s1, hn1, e1, l1, rfl, b1⟩ :=
    core_operand' hA (fun h => .cut cty (.op h o B) c) out (fun hnv => split_cut_op1 hnv hc)
  obtain ⟨i2, ρ2, n2, z2, t2, V2, s2, hn2, e2, l2, rfl, b2⟩ :=
    core_operand' (hB ρ1 n1 e1 hn1) (fun h => .cut cty (.op (.var .prd z1 t1) o h) c) out
      (fun hnv => split_cut_op2 rfl hnv hc)
  refine ⟨i1 + i2, ρ2, n2, z1, t1, z2, t2, s1.trans s2, by omega, e1.trans e2 hn1, ?_, l2⟩
  rw [e2.lookup z1 b1]
  exact l1

/-- the value of an operator applied to producers with integer values -/
theorem peval_op {A B : Core.Term} {o : Fun.BinOp} {ρ : CEnv}
    {n : Nat} {x y r : BitVec 64}
    (hA : PVal q A ρ n (IsInt x))
    (hB : ∀ ρ' n', SigExt n ρ ρ' → n ≤ n' → PVal q B ρ' n' (IsInt y))
    (har : Fun.arith o x y = .ok r) :
    PEval q (.op A (compileOp o) B) ρ n (IsInt r) := by
  intro c cty out hc
  obtain ⟨i, ρ', n', z1, t1, z2, t2, hs, hn, he, l1, l2⟩ :=
    core_op_operands hA hB c cty out hc
  refine ⟨i, ρ', n', _, .int r, hs, hn, he, rfl, ?_, rfl⟩
  simp [Core.prdVal, lookupInt_of_lookup l1, lookupInt_of_lookup l2, arith_compile, har]

theorem PVal.imp {A ρ n} {Φ Ψ : CVal → Prop} (h : PVal q A ρ n Φ) (hi : ∀ V, Φ V → Ψ V) :
    PVal q A ρ n Ψ := by
  refine ⟨fun pc z ty e => ?_, fun hnv => ?_⟩
  · obtain ⟨h1, h2, V, h3, h4⟩ := h.var pc z ty e
    exact ⟨h1, h2, V, h3, hi V h4⟩
  · obtain ⟨g1, g2⟩ := h.nonvar hnv
    constructor
    · intro c cty out hc
      obtain ⟨i, ρ', n', A', V, a1, a2, a3, a4, a5, a6⟩ := g1 c cty out hc
      exact ⟨i, ρ', n', A', V, a1, a2, a3, a4, a5, hi V a6⟩
    · intro c cty out hc
      obtain ⟨i, ρ', n', A', V, a1, a2, a3, a4, a5, a6⟩ := g2 c cty out hc
      exact ⟨i, ρ', n', A', V, a1, a2, a3, a4, a5, hi V a6⟩

/-! ## argument lists -/

def appArgs : Core.Args → Core.Args → Core.Args
  | .nil, bs => bs
  | .cons pc t r, bs => .cons pc t (appArgs r bs)

theorem appArgs_nil : ∀ (as : Core.Args), appArgs as .nil = as
  | .nil => rfl
  | .cons pc t r => by simp [appArgs, appArgs_nil r]

theorem appArgs_assoc : ∀ (a b c : Core.Args), appArgs (appArgs a b) c = appArgs a (appArgs b c)
  | .nil, _, _ => rfl
  | .cons pc t r, b, c => by simp [appArgs, appArgs_assoc r b c]

theorem argsAllVar_app : ∀ (a b : Core.Args),
    argsAllVar (appArgs a b) = (argsAllVar a && argsAllVar b)
  | .nil, b => by simp [appArgs, argsAllVar]
  | .cons pc t r, b => by simp [appArgs, argsAllVar, argsAllVar_app r b, Bool.and_assoc]

theorem args_split_app : ∀ (pre as : Core.Args), argsAllVar pre = true →
    (appArgs pre as).split =
      (match as.split with
        | some (pc, u, A) => some (pc, u, fun h => appArgs pre (A h))
        | none => none)
  | .nil, as, _ => by
    simp only [appArgs]
    cases as.split with
    | none => rfl
    | some x => obtain ⟨pc, u, A⟩ := x; rfl
  | .cons pc t r, as, h => by
    simp only [argsAllVar, Bool.and_eq_true] at h
    simp only [appArgs, Core.Args.split, h.1, if_true, args_split_app r as h.2]
    cases as.split with
    | none => rfl
    | some x => obtain ⟨pc', u, A⟩ := x; rfl

theorem args_split_cons_nonvar {pc : Core.PC} {t : Core.Term} {r : Core.Args}
    (h : t.isVar = false) : (Core.Args.cons pc t r).split = some (pc, t, fun h => .cons pc h r) := by
  simp [Core.Args.split, h]

/-- statement contexts whose ς-step is determined by the argument list -/
def ArgCtx (Sc : Core.Args → Core.Stmt) : Prop :=
  ∀ as pc u A, as.split = some (pc, u, A) → (Sc as).split = some (pc, u, fun h => Sc (A h))

theorem argCtx_xtor (cty ty : Core.Ty) (k : Core.Ident) (c : Core.Term) :
    ArgCtx (fun as => .cut cty (.xtor .prd k as ty) c) := by
  intro as pc u A h
  simp [Core.Stmt.split, h]

theorem argCtx_call (f : Core.Ident) (ty : Core.Ty) : ArgCtx (fun as => .call f as ty) := by
  intro as pc u A h
  simp [Core.Stmt.split, h]

/-- every variable of an all-variable argument list that is machine-fresh has index below `n` -/
def argsSigBelow (n : Nat) : Core.Args → Prop
  | .nil => True
  | .cons _ (.var _ z _) r => (z.name = sig → z.id < n) ∧ argsSigBelow n r
  | .cons _ _ r => argsSigBelow n r

theorem argVals_sigExt {n : Nat} {ρ ρ' : CEnv} (he : SigExt n ρ ρ') :
    ∀ (as : Core.Args), argsSigBelow n as → Core.argVals ρ' as = Core.argVals ρ as
  | .nil, _ => rfl
  | .cons pc t r, h => by
    cases t with
    | var pc' z ty =>
      simp only [argsSigBelow] at h
      simp only [Core.argVals, he.lookup z h.1, argVals_sigExt he r h.2]
    | _ => rfl

theorem argsSigBelow_mono {n m : Nat} (hnm : n ≤ m) : ∀ (as : Core.Args), argsSigBelow n as →
    argsSigBelow m as
  | .nil, _ => trivial
  | .cons pc t r, h => by
    cases t with
    | var pc' z ty =>
      simp only [argsSigBelow] at h ⊢
      exact ⟨fun e => by have := h.1 e; omega, argsSigBelow_mono hnm r h.2⟩
    | _ =>
      simp only [argsSigBelow] at h ⊢
      exact argsSigBelow_mono hnm r h

theorem argsSigBelow_app {n : Nat} : ∀ (a b : Core.Args), argsSigBelow n a → argsSigBelow n b →
    argsSigBelow n (appArgs a b)
  | .nil, b, _, hb => hb
  | .cons pc t r, b, ha, hb => by
    cases t with
    | var pc' z ty =>
      simp only [argsSigBelow, appArgs] at ha ⊢
      exact ⟨ha.1, argsSigBelow_app r b ha.2 hb⟩
    | _ =>
      simp only [argsSigBelow, appArgs] at ha ⊢
      exact argsSigBelow_app r b ha hb

theorem argVals_app_single {ρ : CEnv} {pc pc' : Core.PC} {z : Core.Ident} {ty : Core.Ty} {V : CVal} :
    ∀ (pre : Core.Args) (Vs : List CVal), Core.argVals ρ pre = .ok Vs →
      Core.Env.lookup ρ z = .ok V →
      Core.argVals ρ (appArgs pre (.cons pc (.var pc' z ty) .nil)) = .ok (Vs ++ [V])
  | .nil, Vs, h, hz => by
    simp only [Core.argVals, Except.ok.injEq] at h
    subst h
    simp [appArgs, Core.argVals, hz]
  | .cons pc1 t r, Vs, h, hz => by
    cases t with
    | var pc2 z2 ty2 =>
      simp only [Core.argVals] at h
      cases h1 : Core.Env.lookup ρ z2 with
      | error e => simp [h1] at h
      | ok v =>
        cases h2 : Core.argVals ρ r with
        | error e => simp [h1, h2] at h
        | ok vs =>
          simp only [h1, h2, Except.ok.injEq] at h
          subst h
          simp [appArgs, Core.argVals, h1, argVals_app_single r vs h2 hz]
    | _ => simp [Core.argVals] at h

end Scc.Fun2Core.Sem
