/-
  Scc.Fun2Core.SemRelLemmas — structural lemmas about the relations of Scc.Fun2Core.SemRel:
  monotonicity in the bound of machine-fresh names, closure of closures under agreement of
  environments, environment lookups.
-/
import Scc.Fun2Core.SemRel
import Scc.Fun2Core.SemTfv
import Scc.Fun2Core.SemCodTyping

namespace Scc.Fun2Core.Sem
open Scc

variable {G : Fun.Term → Prop} {q : Core.Prog} {p : Fun.CheckedProgram}

/-! ## Core environments -/

theorem lookup_cons (x y : Core.Ident) (V : CVal) (ρ : CEnv) :
    Core.Env.lookup ((y, V) :: ρ) x = if y = x then .ok V else Core.Env.lookup ρ x := rfl

theorem lookup_cons_self (x : Core.Ident) (V : CVal) (ρ : CEnv) :
    Core.Env.lookup ((x, V) :: ρ) x = .ok V := by simp [lookup_cons]

theorem lookup_cons_ne {x y : Core.Ident} (h : y ≠ x) (V : CVal) (ρ : CEnv) :
    Core.Env.lookup ((y, V) :: ρ) x = Core.Env.lookup ρ x := by simp [lookup_cons, h]

/-- binding the same variable on both sides: agreement away from it becomes agreement -/
theorem AgreeOn.cons {bs : List Core.Binding} {x : Core.Ident} {V : CVal} {ρ0 ρ : CEnv}
    (h : AgreeOn (bs.filter (·.var ≠ x)) ρ0 ρ) : AgreeOn bs ((x, V) :: ρ0) ((x, V) :: ρ) := by
  intro b hb
  by_cases hx : x = b.var
  · simp [lookup_cons, hx]
  · rw [lookup_cons_ne hx, lookup_cons_ne hx]
    exact h b (List.mem_filter.2 ⟨hb, by simpa using fun h => hx h.symm⟩)

/-- binding a variable that is not among the bindings -/
theorem AgreeOn.cons_right {bs : List Core.Binding} {x : Core.Ident} {V : CVal} {ρ0 ρ : CEnv}
    (h : AgreeOn bs ρ0 ρ) (hx : ∀ b ∈ bs, b.var ≠ x) : AgreeOn bs ρ0 ((x, V) :: ρ) := by
  intro b hb
  rw [lookup_cons_ne (fun e => hx b hb e.symm)]
  exact h b hb

theorem AgreeOn.filter {bs : List Core.Binding} {P : Core.Binding → Bool} {ρ0 ρ : CEnv}
    (h : AgreeOn bs ρ0 ρ) : AgreeOn (bs.filter P) ρ0 ρ :=
  h.mono fun _ hb => (List.mem_filter.1 hb).1

/-! ## monotonicity in the bound -/

theorem ConsNames.mono {c st n m} (hnm : n ≤ m) (h : ConsNames c st n) : ConsNames c st m := by
  intro b hb
  rcases h b hb with ⟨h1, h2⟩ | h
  · exact .inl ⟨h1, by omega⟩
  · exact .inr h

theorem Compiled.mono {n m t c s} (hnm : n ≤ m) (h : Compiled q n t c s) : Compiled q m t c s := by
  obtain ⟨st, st', h1, h2, h3, h4⟩ := h
  exact ⟨st, st', h1, h2, h3, h4.mono hnm⟩

theorem CompiledCl.mono {n m cs c cs'} (hnm : n ≤ m) (h : CompiledCl q n cs c cs') :
    CompiledCl q m cs c cs' := by
  obtain ⟨st, st', h1, h2, h3, h4⟩ := h
  exact ⟨st, st', h1, h2, h3, h4.mono hnm⟩

mutual
  theorem VRel.mono {n m : Nat} (h : n ≤ m) : ∀ {v : Fun.Value} {V : CVal},
      VRel G p q n v V → VRel G p q m v V
    | _, _, .int _ a => .int _ a
    | _, _, .con hl => .con (VRelL.mono h hl)
    | _, _, .cont hk => .cont (KAny.mono h hk)
    | _, _, .obj g c e bd a => .obj g c (EnvRel.mono h e) bd a
  theorem VRelL.mono {n m : Nat} (h : n ≤ m) : ∀ {vs : List Fun.Value} {Vs : List CVal},
      VRelL G p q n vs Vs → VRelL G p q m vs Vs
    | _, _, .nil _ => .nil _
    | _, _, .cons h1 h2 => .cons (VRel.mono h h1) (VRelL.mono h h2)
  theorem EnvRel.mono {n m : Nat} (h : n ≤ m) : ∀ {xs : List String} {env : Fun.Env} {ρ : CEnv},
      EnvRel G p q n xs env ρ → EnvRel G p q m xs env ρ
    | _, _, _, .mk f g h1 h2 h3 => .mk f g h1 h2 (fun y hy => VRel.mono h (h3 y hy))
  theorem CRel.mono {n m : Nat} (h : n ≤ m) : ∀ {k : Fun.Stack} {c : Core.Term} {ρ : CEnv},
      CRel G p q n k c ρ → CRel G p q m k c ρ
    | _, _, _, .mk h1 h2 h3 h4 h5 => .mk h1 (KRel.mono h h2) h3 h4 h5
    | _, _, _, .mkD h1 h2 h3 h4 h5 => .mkD h1 (KRelD.mono h h2) h3 h4 h5
    | _, _, _, .dtor c1 c2 c3 c4 c5 c6 e r hs bd a hty =>
      .dtor c1 c2 c3 c4 c5 c6 (EnvRel.mono h e) (CRel.mono h r)
        (fun b hb e' => Nat.lt_of_lt_of_le (hs b hb e') h) bd a hty
  theorem KAny.mono {n m : Nat} (h : n ≤ m) : ∀ {k : Fun.Stack} {cv : CVal},
      KAny G p q n k cv → KAny G p q m k cv
    | _, _, .nc hk => .nc (KRel.mono h hk)
    | _, _, .cd hk => .cd (KRelD.mono h hk)
  theorem KRelD.mono {n m : Nat} (h : n ≤ m) : ∀ {k : Fun.Stack} {cv : CVal},
      KRelD G p q n k cv → KRelD G p q m k cv
    | _, _, .dtorA hl hk => .dtorA (VRelL.mono h hl) (KAny.mono h hk)
    | _, _, .dtorS hpt hp hl hk => .dtorS hpt hp (VRelL.mono h hl) (KAny.mono h hk)
    | _, _, .shared hd hc hk bd a => .shared hd hc (KRelD.mono h hk) bd a
    | _, _, .eta r hy h1 h2 hs hx bd a =>
      .eta (CRel.mono h r) hy h1 h2 (fun b hb e' => Nat.lt_of_lt_of_le (hs b hb e') h)
        (fun e' => Nat.lt_of_lt_of_le (hx e') h) bd a
  theorem KRel.mono {n m : Nat} (h : n ≤ m) : ∀ {k : Fun.Stack} {cv : CVal},
      KRel G p q n k cv → KRel G p q m k cv
    | _, _, .main => .main
    | _, _, .exitF => .exitF
    | _, _, .letF g c e r hy bd a =>
      .letF g (c.mono h) (EnvRel.mono h e) (CRel.mono h r) hy bd a
    | _, _, .ifL g1 g2 g3 hi hb cb ct ce e r bd a =>
      .ifL g1 g2 g3 (by omega) hb cb ct ce (EnvRel.mono h e) (CRel.mono h r) bd a
    | _, _, .ifR g2 g3 hi hz hl ct ce e r bd a =>
      .ifR g2 g3 (by omega) hz hl ct ce (EnvRel.mono h e) (CRel.mono h r) bd a
    | _, _, .ifZ g2 g3 hi ct ce e r bd a =>
      .ifZ g2 g3 (by omega) ct ce (EnvRel.mono h e) (CRel.mono h r) bd a
    | _, _, .print g hi cn e r bd a =>
      .print g (by omega) cn (EnvRel.mono h e) (CRel.mono h r) bd a
    | _, _, .caseF g cc e r hy bd a =>
      .caseF g (cc.mono h) (EnvRel.mono h e) (CRel.mono h r) hy bd a
    | _, _, .shared hd hc hk bd a => .shared hd hc (KRel.mono h hk) bd a
    | _, _, .eta r hy hn hck bd a => .eta (CRel.mono h r) hy hn hck bd a
end

/-! ## kinds: the shape of the stack, the type of the consumer -/

mutual
  theorem KRel.kk {n : Nat} : ∀ {k : Fun.Stack} {cv : CVal}, KRel G p q n k cv → kkind k = false
    | _, _, .main => rfl
    | _, _, .exitF => rfl
    | _, _, .letF .. => rfl
    | _, _, .ifL .. => rfl
    | _, _, .ifR .. => rfl
    | _, _, .ifZ .. => rfl
    | _, _, .print .. => rfl
    | _, _, .caseF .. => rfl
    | _, _, .shared _ _ hk _ _ => KRel.kk hk
    | _, _, .eta r _ _ hck _ _ => (CRel.kk r).trans hck
  theorem KRelD.kk {n : Nat} : ∀ {k : Fun.Stack} {cv : CVal}, KRelD G p q n k cv → kkind k = true
    | _, _, .dtorA .. => rfl
    | _, _, .dtorS .. => rfl
    | _, _, .shared _ _ hk _ _ => KRelD.kk hk
    | _, _, .eta r _ _ hck _ _ _ _ => (CRel.kk r).trans hck
  /-- the stack expects a codata value iff the type of the consumer is a codata type -/
  theorem CRel.kk {n : Nat} : ∀ {k : Fun.Stack} {c : Core.Term} {ρ : CEnv}, CRel G p q n k c ρ →
      kkind k = Core.isCodata q.codataTypes (coreGetType c)
    | _, _, _, .mk _ hk _ _ hty => (KRel.kk hk).trans hty.symm
    | _, _, _, .mkD _ hk _ _ hty => (KRelD.kk hk).trans hty.symm
    | _, _, _, .dtor _ _ _ _ _ _ _ _ _ _ _ hty => by simpa [kkind, coreGetType] using hty.symm
end

/-! ## closure under agreement -/

/-- a `μ~`-closure may be moved to an environment that agrees on its free variables -/
theorem KRel.agree_mu {n : Nat} {k : Fun.Stack} {ρ ρ' : CEnv} {x : Core.Ident} {s : Core.Stmt}
    (h : KRel G p q n k (.mutilde ρ x s))
    (ha : AgreeOn ((tfvStmt s []).filter (·.var ≠ x)) ρ ρ') : KRel G p q n k (.mutilde ρ' x s) := by
  cases h with
  | main => exact .main
  | exitF => exact .exitF
  | letF g c e r hy bd a => exact .letF g c e r hy bd (a.trans ha)
  | ifL g1 g2 g3 hi hb cb ct ce e r bd a => exact .ifL g1 g2 g3 hi hb cb ct ce e r bd (a.trans ha)
  | ifR g2 g3 hi hz hl ct ce e r bd a =>
    refine .ifR g2 g3 hi hz ?_ ct ce e r bd (a.trans (ha.mono fun y hy => ?_))
    · rw [ha _ (List.mem_filter.2 ⟨mem_tfv_ifc.2 (.inl (mem_tfv_var.2 rfl)), by simpa using hz⟩)]
      exact hl
    · obtain ⟨h1, h2⟩ := List.mem_filter.1 hy
      refine List.mem_filter.2 ⟨?_, h2⟩
      rcases List.mem_append.1 h1 with h | h
      · exact mem_tfv_ifc.2 (.inr (.inr (.inl h)))
      · exact mem_tfv_ifc.2 (.inr (.inr (.inr h)))
  | ifZ g2 g3 hi ct ce e r bd a => exact .ifZ g2 g3 hi ct ce e r bd (a.trans ha)
  | print g hi cn e r bd a => exact .print g hi cn e r bd (a.trans ha)
  | shared hd hc hk bd a => exact .shared hd hc hk bd (a.trans ha)
  | eta r hy hn hck bd a => exact .eta r hy hn hck bd (a.trans ha)

/-- the same for the forwarding closures of a codata type -/
theorem KRelD.agree_mu {n : Nat} {k : Fun.Stack} {ρ ρ' : CEnv} {x : Core.Ident} {s : Core.Stmt}
    (h : KRelD G p q n k (.mutilde ρ x s))
    (ha : AgreeOn ((tfvStmt s []).filter (·.var ≠ x)) ρ ρ') : KRelD G p q n k (.mutilde ρ' x s) := by
  cases h with
  | shared hd hc hk bd a => exact .shared hd hc hk bd (a.trans ha)
  | eta r hy h1 h2 hs hx bd a => exact .eta r hy h1 h2 hs hx bd (a.trans ha)

theorem KRel.agree_case {n : Nat} {k : Fun.Stack} {ρ ρ' : CEnv} {cs' : Core.Clauses}
    (h : KRel G p q n k (.case ρ cs'))
    (ha : AgreeOn (tfvClauses cs' []) ρ ρ') : KRel G p q n k (.case ρ' cs') := by
  cases h with
  | caseF g cc e r hy bd a => exact .caseF g cc e r hy bd (a.trans ha)

/-- a consumer term may be evaluated in any environment that agrees on its free variables -/
theorem BoundOn.agree {bs : List Core.Binding} {ρ ρ' : CEnv} (h : BoundOn bs ρ)
    (ha : AgreeOn bs ρ ρ') : BoundOn bs ρ' := fun b hb => by
  rw [ha b hb]; exact h b hb

theorem CRel.agree {n : Nat} {k : Fun.Stack} {c : Core.Term} {ρ ρ' : CEnv}
    (h : CRel G p q n k c ρ) (ha : AgreeOn (tfvTerm c []) ρ ρ') : CRel G p q n k c ρ' := by
  cases h with
  | mk hv hk hi hb hty =>
    have hb' := hb.agree ha
    cases c with
    | var pc v ty =>
      simp only [Core.cnsVal] at hv
      refine .mk ?_ hk hi hb' hty
      simp only [Core.cnsVal]
      rw [ha ⟨v, pc, ty⟩ (by simp [tfvTerm, bsetInsert])]
      exact hv
    | mu pc x ty s =>
      simp only [Core.cnsVal, Except.ok.injEq] at hv
      subst hv
      refine .mk (cv := .mutilde ρ' x s) rfl (hk.agree_mu ?_) hi hb' hty
      intro b hb
      obtain ⟨hb1, hb2⟩ := List.mem_filter.1 hb
      have hb2' : b.var ≠ x := by simpa using hb2
      refine ha b ?_
      simp only [tfvTerm]
      refine mem_bsetExtend_of_mem _ (.inr (mem_bsetRemove_of_ne ?_ hb1))
      intro e
      exact hb2' (by rw [e])
    | xcase pc ty cs =>
      simp only [Core.cnsVal, Except.ok.injEq] at hv
      subst hv
      exact .mk (cv := .case ρ' cs) rfl (hk.agree_case (by simpa [tfvTerm] using ha)) hi hb' hty
    | xtor pc nm as ty => exact absurd hi (by simp [Inert])
    | lit m => simp [Core.cnsVal] at hv
    | op a o b => simp [Core.cnsVal] at hv
  | mkD hv hk hi hb hty =>
    have hb' := hb.agree ha
    cases c with
    | var pc v ty =>
      simp only [Core.cnsVal] at hv
      refine .mkD ?_ hk hi hb' hty
      simp only [Core.cnsVal]
      rw [ha ⟨v, pc, ty⟩ (by simp [tfvTerm, bsetInsert])]
      exact hv
    | mu pc x ty s =>
      simp only [Core.cnsVal, Except.ok.injEq] at hv
      subst hv
      refine .mkD (cv := .mutilde ρ' x s) rfl (hk.agree_mu ?_) hi hb' hty
      intro b hb
      obtain ⟨hb1, hb2⟩ := List.mem_filter.1 hb
      have hb2' : b.var ≠ x := by simpa using hb2
      refine ha b ?_
      simp only [tfvTerm]
      refine mem_bsetExtend_of_mem _ (.inr (mem_bsetRemove_of_ne ?_ hb1))
      intro e
      exact hb2' (by rw [e])
    | xcase pc ty cs =>
      simp only [Core.cnsVal, Except.ok.injEq] at hv
      subst hv
      cases hk
    | xtor pc nm as ty => exact absurd hi (by simp [Inert])
    | lit m => simp [Core.cnsVal] at hv
    | op a o b => simp [Core.cnsVal] at hv
  | dtor c1 c2 c3 c4 c5 c6 e r hs bd a hty => exact .dtor c1 c2 c3 c4 c5 c6 e r hs bd (a.trans ha) hty

/-! ## environments -/

theorem EnvRel.sub {n xs ys env ρ} (h : EnvRel G p q n xs env ρ) (hs : ∀ y ∈ ys, y ∈ xs) :
    EnvRel G p q n ys env ρ := by
  cases h with
  | mk f g h1 h2 h3 =>
    exact .mk f g (fun y hy => h1 y (hs y hy)) (fun y hy => h2 y (hs y hy)) (fun y hy => h3 y (hs y hy))

theorem EnvRel.get {n xs env ρ} (h : EnvRel G p q n xs env ρ) {y : String} (hy : y ∈ xs) :
    ∃ v V, Fun.lookup y env = some v ∧ Core.Env.lookup ρ ⟨y, 0⟩ = .ok V ∧ VRel G p q n v V := by
  cases h with
  | mk f g h1 h2 h3 => exact ⟨f y, g y, h1 y hy, h2 y hy, h3 y hy⟩

theorem EnvRel.of_get {n xs env ρ}
    (h : ∀ y ∈ xs, ∃ v V, Fun.lookup y env = some v ∧ Core.Env.lookup ρ ⟨y, 0⟩ = .ok V ∧ VRel G p q n v V) :
    EnvRel G p q n xs env ρ := by
  classical
  refine .mk (fun y => if hy : y ∈ xs then (h y hy).choose else .int 0)
    (fun y => if hy : y ∈ xs then (h y hy).choose_spec.choose else .int 0) ?_ ?_ ?_
  · intro y hy
    simp only [hy, dite_true]
    exact (h y hy).choose_spec.choose_spec.1
  · intro y hy
    simp only [hy, dite_true]
    exact (h y hy).choose_spec.choose_spec.2.1
  · intro y hy
    simp only [hy, dite_true]
    exact (h y hy).choose_spec.choose_spec.2.2

/-- the Core environment may be replaced by one that agrees on the (id-0) names -/
theorem EnvRel.agree {n xs env ρ ρ'} (h : EnvRel G p q n xs env ρ)
    (ha : ∀ y ∈ xs, Core.Env.lookup ρ' ⟨y, 0⟩ = Core.Env.lookup ρ ⟨y, 0⟩) :
    EnvRel G p q n xs env ρ' := by
  refine .of_get fun y hy => ?_
  obtain ⟨v, V, h1, h2, h3⟩ := h.get hy
  exact ⟨v, V, h1, by rw [ha y hy, h2], h3⟩

/-- bind `x` on both sides -/
theorem EnvRel.bind {n xs env ρ x v V} (h : EnvRel G p q n (xs.filter (· ≠ x)) env ρ)
    (hv : VRel G p q n v V) : EnvRel G p q n xs ((x, v) :: env) ((⟨x, 0⟩, V) :: ρ) := by
  refine .of_get fun y hy => ?_
  by_cases hx : y = x
  · subst hx
    exact ⟨v, V, by simp [Fun.lookup], lookup_cons_self _ _ _, hv⟩
  · obtain ⟨v', V', h1, h2, h3⟩ := h.get (List.mem_filter.2 ⟨hy, by simpa using hx⟩)
    refine ⟨v', V', ?_, ?_, h3⟩
    · simp [Fun.lookup, hx, h1]
    · rw [lookup_cons_ne (by intro e; exact hx (by cases e; rfl))]
      exact h2

end Scc.Fun2Core.Sem
