/-
  Scc.Fun2Core.SemSim6 — simulation of the evaluation of direct producers in statement position
  (`⟦t⟧_c = ⟨compile t | c⟩`).
-/
import Scc.Fun2Core.SemCod4

namespace Scc.Fun2Core.Sem
open Scc

variable {q : Core.Prog} {p : Fun.CheckedProgram}

/-- a good term in evaluation position that is a direct producer -/
def evalDirect : Fun.Term → Bool
  | .var .. => true
  | .lit _ => true
  | .op .. => true
  | .ctor .. => true
  | .paren t => evalDirect t
  | _ => false

/-- the translation of a direct producer with a consumer is the cut of its translation as a
producer with the consumer, at the translation of its annotated type -/
theorem cwc_direct : ∀ (t : Fun.Term), evalDirect t = true → good p t = true →
    ∀ (c : Core.Term) (st : CompileState)
    (s : Core.Stmt) (st' : CompileState), compileWithCont t c st = .ok (s, st') →
    pureD p (goodClauses p) t = true ∧
    ∃ P τ0 τ, compile t τ0 st = .ok (P, st') ∧ getType t = some τ ∧ s = .cut (compileTy τ) P c
  | .var x vty chi, _, hg, c, st, s, st', h => by
    rw [cwc_var] at h
    simp only [good] at hg
    obtain ⟨t0, rfl⟩ := annO_some hg
    simp only [Except.ok.injEq, Prod.mk.injEq] at h
    obtain ⟨rfl, rfl⟩ := h
    exact ⟨rfl, _, .i64, t0, by rw [c_var], rfl, rfl⟩
  | .lit k, _, _, c, st, s, st', h => by
    rw [cwc_lit] at h
    simp only [Except.ok.injEq, Prod.mk.injEq] at h
    obtain ⟨rfl, rfl⟩ := h
    exact ⟨rfl, _, .i64, .i64, by rw [c_lit], rfl, rfl⟩
  | .op a o b, _, hg, c, st, s, st', h => by
    rw [cwc_op] at h
    simp only [good, Bool.and_eq_true] at hg
    cases hc : compile (.op a o b) .i64 st with
    | error e => simp [hc] at h
    | ok r =>
      obtain ⟨P, st1⟩ := r
      simp only [hc, Except.ok.injEq, Prod.mk.injEq] at h
      obtain ⟨rfl, rfl⟩ := h
      exact ⟨by simp [pureD, goodP_pureFO p a hg.1, goodP_pureFO p b hg.2], P, .i64, .i64, hc, rfl, rfl⟩
  | .ctor K as cty0, _, hg, c, st, s, st', h => by
    rw [cwc_ctor] at h
    simp only [good, Bool.and_eq_true] at hg
    obtain ⟨t0, rfl⟩ := annO_some hg.2
    simp only at h
    cases hc : compile (.ctor K as (some t0)) (compileTy t0) st with
    | error e => simp [hc] at h
    | ok r =>
      obtain ⟨P, st1⟩ := r
      simp only [hc, Except.ok.injEq, Prod.mk.injEq] at h
      obtain ⟨rfl, rfl⟩ := h
      exact ⟨by simp [pureD, goodPs_pureFOs p as hg.1], P, _, t0, hc, rfl, rfl⟩
  | .paren t, hd, hg, c, st, s, st', h => by
    rw [cwc_paren] at h
    obtain ⟨h0, P, τ0, τ, h1, h2, h3⟩ :=
      cwc_direct t (by simpa [evalDirect] using hd) (by simpa [good] using hg) c st s st' h
    exact ⟨by simpa [pureD] using h0, P, τ0, τ, by rw [c_paren]; exact h1, by simpa [getType] using h2, h3⟩
  | .ifc .., h, _, _, _, _, _, _ => by simp [evalDirect] at h
  | .ifz .., h, _, _, _, _, _, _ => by simp [evalDirect] at h
  | .print .., h, _, _, _, _, _, _ => by simp [evalDirect] at h
  | .letIn .., h, _, _, _, _, _, _ => by simp [evalDirect] at h
  | .call .., h, _, _, _, _, _, _ => by simp [evalDirect] at h
  | .dtor .., h, _, _, _, _, _, _ => by simp [evalDirect] at h
  | .case .., h, _, _, _, _, _, _ => by simp [evalDirect] at h
  | .new .., h, _, _, _, _, _, _ => by simp [evalDirect] at h
  | .label .., h, _, _, _, _, _, _ => by simp [evalDirect] at h
  | .goto .., h, _, _, _, _, _, _ => by simp [evalDirect] at h
  | .exit .., h, _, _, _, _, _, _ => by simp [evalDirect] at h

theorem CRel.inert {n : Nat} {k : Fun.Stack} {c : Core.Term} {ρ : CEnv}
    (h : CRel (GP p) p q n k c ρ) (hkk : kkind k = false) : Inert c := by
  cases h with
  | mk _ _ hi _ _ => exact hi
  | mkD _ _ hi _ _ => exact hi
  | dtor _ _ _ _ _ _ _ _ _ _ _ _ => cases hkk

theorem CRel.consOK {n : Nat} {k : Fun.Stack} {c : Core.Term} {ρ : CEnv}
    (h : CRel (GP p) p q n k c ρ) : ∀ v ty s, c ≠ .mu .prd v ty s := by
  cases h with
  | mk _ _ hi _ _ => exact fun v ty s e => by subst e; exact hi
  | mkD _ _ hi _ _ => exact fun v ty s e => by subst e; exact hi
  | dtor _ _ _ _ _ _ _ _ _ _ _ _ => exact fun v ty s e => by cases e

theorem CRel.bound {n : Nat} {k : Fun.Stack} {c : Core.Term} {ρ : CEnv}
    (h : CRel (GP p) p q n k c ρ) : BoundOn (tfvTerm c []) ρ := by
  cases h with
  | mk _ _ _ hb _ => exact hb
  | mkD _ _ _ hb _ => exact hb
  | dtor _ _ _ _ _ _ _ _ _ bd a _ => exact bd.agree a

theorem CRel.tyOK {n : Nat} {k : Fun.Stack} {c : Core.Term} {ρ : CEnv}
    (h : CRel (GP p) p q n k c ρ) (hkk : kkind k = false) :
    Core.isCodata q.codataTypes (coreGetType c) = false := by
  rw [← h.kk]; exact hkk

/-- a direct producer in statement position -/
theorem eval_direct (X : Ctx p q) {t : Fun.Term} (hd : evalDirect t = true) (hg : good p t = true)
    {env : Fun.Env}
    {k : Fun.Stack} {c : Core.Term} {s : Core.Stmt} {ρ0 ρ : CEnv} {out : Out} {n : Nat}
    (hc : Compiled q n t c s) (he : EnvRel (GP p) p q n (fv t) env ρ0) (hr : CRel (GP p) p q n k c ρ0)
    (hbd : BoundOn (tfvStmt s []) ρ0) (hag : AgreeOn (tfvStmt s []) ρ0 ρ)
    (hT : STM p (.eval t env k)) (hkk : kkind k = false) :
    Chunk p q (R p q) true true μ (.eval t env k) ⟨s, ρ, out, n⟩ := by
  obtain ⟨st, st', hcwc, hst, htn, hcn⟩ := hc
  obtain ⟨hpd, P, τ, τ1, hcP, hgt, rfl⟩ := cwc_direct t hd hg c st s st' hcwc
  have hnc : Core.isCodata q.codataTypes (compileTy τ1) = false := by
    obtain ⟨τ2, h1, h2⟩ := X.kind hT
    rw [hgt] at h1; cases h1
    rw [h2, hkk]
  have hck := hr.tyOK hkk
  generalize compileTy τ1 = cty at hnc hbd hag
  have hagP : AgreeOn (tfvTerm P []) ρ0 ρ := hag.mono fun y hy => mem_tfv_cut.2 (.inl hy)
  have hbdP : BoundOn (tfvTerm P []) ρ0 := hbd.mono fun y hy => mem_tfv_cut.2 (.inl hy)
  have hagc : AgreeOn (tfvTerm c []) ρ0 ρ := hag.mono fun y hy => mem_tfv_cut.2 (.inr hy)
  rcases direct_sim (p := p) (goodClauses p) (goodClauses_find p) t hpd env k τ st P st' n ρ0 ρ n
      hcP hst htn he hbdP hagP with
    ⟨v, j, hj, fj, hv⟩ | ⟨j, s1, w, fj, h1, h2⟩ | ⟨j, s1, w, r', fj, h1, h2, h3, h4, _⟩
  · cases hP : P.isVar with
    | true =>
      cases P with
      | var pc z ty =>
        obtain ⟨_, _, V, hl, hvr⟩ := hv.var pc z ty rfl
        exact Chunk.prefix fj (.refl _) rfl (fun _ => hj) (fun h => .inr h)
          (pass_chunk X hnc (A := .var pc z ty) rfl (by simpa [Core.prdVal] using hl) hvr hr hck hagc).weaken
      | _ => simp [Core.Term.isVar] at hP
    | false =>
      obtain ⟨i, ρ', n', P', V, hcs, hn', hext, hfoc, hval, hvr⟩ :=
        (hv.nonvar hP).1 c cty out (hr.inert hkk)
      obtain ⟨ρ0', hext0, hag'⟩ := hext.agree (ρ0 := ρ0)
      exact Chunk.prefix fj hcs rfl (fun _ => hj) (fun h => .inr h)
        (pass_chunk X hnc hfoc hval (hvr.mono hn')
          ((hr.mono hn').sigExt hext0 (hcn.sig_lt (Nat.le_refl n))) hck (hag' _ hagc)).weaken
  · exact .inl ⟨j, s1, .stuck w, fj, by rw [h1]; rfl, fun hf => absurd hf (bad_not_finished h2)⟩
  · refine .inl ⟨j, s1, .stuck w, fj, by rw [h1]; rfl, fun _ => ?_⟩
    obtain ⟨i, S1, hcs, ho, hs⟩ := h4 c cty out (hr.inert hkk) hnc
    exact ⟨i, S1, r', hcs, ho, hs, h2⟩

end Scc.Fun2Core.Sem
