/-
  Scc.Fun2Core.SemSim6 — simulation of the evaluation of direct producers in statement position
  (`⟦t⟧_c = ⟨compile t | c⟩`), and the lemmas about `share` and the capture guard used by the cases
  `if`, `case`, `let` of the simulation.
-/
import Scc.Fun2Core.SemSim5

namespace Scc.Fun2Core.Sem
open Scc

variable {q : Core.Prog} {p : Fun.CheckedProgram}

/-- the translation of a direct producer with a consumer is the cut of its translation as a
producer with the consumer -/
theorem cwc_direct : ∀ (t : Fun.Term), pureD t = true → ∀ (c : Core.Term) (st : CompileState)
    (s : Core.Stmt) (st' : CompileState), compileWithCont t c st = .ok (s, st') →
    ∃ P τ cty, compile t τ st = .ok (P, st') ∧ s = .cut cty P c
  | .var x vty chi, _, c, st, s, st', h => by
    rw [cwc_var] at h
    cases vty with
    | none => simp at h
    | some t0 =>
      simp only [Except.ok.injEq, Prod.mk.injEq] at h
      obtain ⟨rfl, rfl⟩ := h
      exact ⟨_, .i64, _, by rw [c_var], rfl⟩
  | .lit k, _, c, st, s, st', h => by
    rw [cwc_lit] at h
    simp only [Except.ok.injEq, Prod.mk.injEq] at h
    obtain ⟨rfl, rfl⟩ := h
    exact ⟨_, .i64, _, by rw [c_lit], rfl⟩
  | .op a o b, _, c, st, s, st', h => by
    rw [cwc_op] at h
    cases hc : compile (.op a o b) .i64 st with
    | error e => simp [hc] at h
    | ok r =>
      obtain ⟨P, st1⟩ := r
      simp only [hc, Except.ok.injEq, Prod.mk.injEq] at h
      obtain ⟨rfl, rfl⟩ := h
      exact ⟨P, .i64, _, hc, rfl⟩
  | .ctor K as cty0, _, c, st, s, st', h => by
    rw [cwc_ctor] at h
    cases cty0 with
    | none => simp at h
    | some t0 =>
      simp only at h
      cases hc : compile (.ctor K as (some t0)) (compileTy t0) st with
      | error e => simp [hc] at h
      | ok r =>
        obtain ⟨P, st1⟩ := r
        simp only [hc, Except.ok.injEq, Prod.mk.injEq] at h
        obtain ⟨rfl, rfl⟩ := h
        exact ⟨P, _, _, hc, rfl⟩
  | .paren t, hd, c, st, s, st', h => by
    rw [cwc_paren] at h
    obtain ⟨P, τ, cty, h1, h2⟩ := cwc_direct t (by simpa [pureD] using hd) c st s st' h
    exact ⟨P, τ, cty, by rw [c_paren]; exact h1, h2⟩
  | .ifc .., h, _, _, _, _, _ => by simp [pureD] at h
  | .ifz .., h, _, _, _, _, _ => by simp [pureD] at h
  | .print .., h, _, _, _, _, _ => by simp [pureD] at h
  | .letIn .., h, _, _, _, _, _ => by simp [pureD] at h
  | .call .., h, _, _, _, _, _ => by simp [pureD] at h
  | .dtor .., h, _, _, _, _, _ => by simp [pureD] at h
  | .case .., h, _, _, _, _, _ => by simp [pureD] at h
  | .new .., h, _, _, _, _, _ => by simp [pureD] at h
  | .label .., h, _, _, _, _, _ => by simp [pureD] at h
  | .goto .., h, _, _, _, _, _ => by simp [pureD] at h
  | .exit .., h, _, _, _, _, _ => by simp [pureD] at h

theorem CRel.inert {n : Nat} {k : Fun.Stack} {c : Core.Term} {ρ : CEnv}
    (h : CRel GP q n k c ρ) : Inert c := by
  cases h with
  | mk _ _ hi _ => exact hi

theorem CRel.bound {n : Nat} {k : Fun.Stack} {c : Core.Term} {ρ : CEnv}
    (h : CRel GP q n k c ρ) : BoundOn (tfvTerm c []) ρ := by
  cases h with
  | mk _ _ _ hb => exact hb

/-- a direct producer in statement position -/
theorem eval_direct (X : Ctx p q) {t : Fun.Term} (hd : pureD t = true) {env : Fun.Env}
    {k : Fun.Stack} {c : Core.Term} {s : Core.Stmt} {ρ0 ρ : CEnv} {out : Out} {n : Nat}
    (hc : Compiled q n t c s) (he : EnvRel GP q n (fv t) env ρ0) (hr : CRel GP q n k c ρ0)
    (hag : AgreeOn (tfvStmt s []) ρ0 ρ) :
    Chunk p q (R q) true (.eval t env k) ⟨s, ρ, out, n⟩ := by
  obtain ⟨st, st', hcwc, hst, htn, hcn⟩ := hc
  obtain ⟨P, τ, cty, hcP, rfl⟩ := cwc_direct t hd c st s st' hcwc
  have hagP : AgreeOn (tfvTerm P []) ρ0 ρ := hag.mono fun y hy => mem_tfv_cut.2 (.inl hy)
  have hagc : AgreeOn (tfvTerm c []) ρ0 ρ := hag.mono fun y hy => mem_tfv_cut.2 (.inr hy)
  have hea : EnvRel GP q n (fv t) env ρ := he.actual _ hagP (d_fv_tfv t hd _ _ _ _ hcP)
  rcases direct_sim (p := p) X.hq X.hp t hd env k τ st P st' n ρ n hcP hea htn.fv_ne_sig with
    ⟨v, j, hj, fj, hv⟩ | ⟨j, s1, w, fj, h1, h2⟩ | ⟨j, s1, w, r', fj, h1, h2, h3, h4, _⟩
  · cases hP : P.isVar with
    | true =>
      cases P with
      | var pc z ty =>
        obtain ⟨_, _, V, hl, hvr⟩ := hv.var pc z ty rfl
        exact Chunk.prefix fj (.refl _) rfl (fun _ => hj)
          (pass_chunk X (A := .var pc z ty) rfl (by simpa [Core.prdVal] using hl) hvr hr hagc).weaken
      | _ => simp [Core.Term.isVar] at hP
    | false =>
      obtain ⟨i, ρ', n', P', V, hcs, hn', hext, hfoc, hval, hvr⟩ :=
        (hv.nonvar hP).1 c cty out hr.inert
      obtain ⟨ρ0', hext0, hag'⟩ := hext.agree (ρ0 := ρ0)
      exact Chunk.prefix fj hcs rfl (fun _ => hj)
        (pass_chunk X hfoc hval (hvr.mono hn')
          ((hr.mono hn').sigExt hext0 (hcn.sig_lt (Nat.le_refl n))) (hag' _ hagc)).weaken
  · exact .inl ⟨j, s1, .stuck w, fj, by rw [h1]; rfl, fun hf => absurd hf (bad_not_finished h2)⟩
  · refine .inl ⟨j, s1, .stuck w, fj, by rw [h1]; rfl, fun _ => ?_⟩
    obtain ⟨i, S1, hcs, ho, hs⟩ := h4 c cty out hr.inert
    exact ⟨i, S1, r', hcs, ho, hs, h2⟩

end Scc.Fun2Core.Sem
