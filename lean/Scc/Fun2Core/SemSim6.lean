/-
  Scc.Fun2Core.SemSim6 — simulation of the evaluation of direct producers in statement position
  (`⟦t⟧_c = ⟨compile t | c⟩`).
-/
import Scc.Fun2Core.SemSim5

namespace Scc.Fun2Core.Sem
open Scc

variable {q : Core.Prog} {p : Fun.CheckedProgram}

/-- a good term in evaluation position that is a direct producer -/
def evalDirect : Fun.Term → Bool
  | .var .. => true
  | .lit _ => true
  | .op .. => true
  | .ctor .. => true
  | .paren t => evalDirect t
  | _ => false

/-- the translation of a direct producer with a consumer is the cut of its translation as a
producer with the consumer, at a type that is not codata -/
theorem cwc_direct (hcod : CodOK p q) : ∀ (t : Fun.Term), evalDirect t = true → good p t = true →
    ∀ (c : Core.Term) (st : CompileState)
    (s : Core.Stmt) (st' : CompileState), compileWithCont t c st = .ok (s, st') →
    pureD p (goodClauses p) t = true ∧
    ∃ P τ cty, compile t τ st = .ok (P, st') ∧ s = .cut cty P c ∧
      Core.isCodata q.codataTypes cty = false
  | .var x vty chi, _, hg, c, st, s, st', h => by
    rw [cwc_var] at h
    simp only [good] at hg
    obtain ⟨t0, rfl, hnc⟩ := hcod.ncd hg
    simp only [Except.ok.injEq, Prod.mk.injEq] at h
    obtain ⟨rfl, rfl⟩ := h
    exact ⟨rfl, _, .i64, _, by rw [c_var], rfl, hnc⟩
  | .lit k, _, _, c, st, s, st', h => by
    rw [cwc_lit] at h
    simp only [Except.ok.injEq, Prod.mk.injEq] at h
    obtain ⟨rfl, rfl⟩ := h
    exact ⟨rfl, _, .i64, _, by rw [c_lit], rfl, rfl⟩
  | .op a o b, _, hg, c, st, s, st', h => by
    rw [cwc_op] at h
    simp only [good, Bool.and_eq_true] at hg
    cases hc : compile (.op a o b) .i64 st with
    | error e => simp [hc] at h
    | ok r =>
      obtain ⟨P, st1⟩ := r
      simp only [hc, Except.ok.injEq, Prod.mk.injEq] at h
      obtain ⟨rfl, rfl⟩ := h
      exact ⟨by simp [pureD, goodP_pureFO p a hg.1, goodP_pureFO p b hg.2], P, .i64, _, hc, rfl, rfl⟩
  | .ctor K as cty0, _, hg, c, st, s, st', h => by
    rw [cwc_ctor] at h
    simp only [good, Bool.and_eq_true] at hg
    obtain ⟨t0, rfl, hnc⟩ := hcod.ncd hg.2
    simp only at h
    cases hc : compile (.ctor K as (some t0)) (compileTy t0) st with
    | error e => simp [hc] at h
    | ok r =>
      obtain ⟨P, st1⟩ := r
      simp only [hc, Except.ok.injEq, Prod.mk.injEq] at h
      obtain ⟨rfl, rfl⟩ := h
      exact ⟨by simp [pureD, goodPs_pureFOs p as hg.1], P, _, _, hc, rfl, hnc⟩
  | .paren t, hd, hg, c, st, s, st', h => by
    rw [cwc_paren] at h
    obtain ⟨h0, P, τ, cty, h1, h2, h3⟩ :=
      cwc_direct hcod t (by simpa [evalDirect] using hd) (by simpa [good] using hg) c st s st' h
    exact ⟨by simpa [pureD] using h0, P, τ, cty, by rw [c_paren]; exact h1, h2, h3⟩
  | .ifc .., h, _, _, _, _, _, _ => by simp [evalDirect] at h
  | .ifz .., h, _, _, _, _, _, _ => by simp [evalDirect] at h
  | .print .., h, _, _, _, _, _, _ => by simp [evalDirect] at h
  | .letIn .., h, _, _, _, _, _, _ => by simp [evalDirect] at h
  | .call .., h, _, _, _, _, _, _ => by simp [evalDirect] at h
  | .dtor .., h, _, _, _, _, _, _ => by simp [evalDirect] at h
  | .case .., h, _, _, _, _, _, _ => by simp [evalDirect] at h
  | .new .., h, _, _, _, _, _, _ => by simp [evalDirect] at h
  | .label .., h, _, _, _, _, _, _ => by simp [evalDirect] at h
  | .goto .., h, _, _, _, _, _, _ => by simp [evalDirect] at h
  | .exit .., h, _, _, _, _, _, _ => by simp [evalDirect] at h

theorem CRel.inert {n : Nat} {k : Fun.Stack} {c : Core.Term} {ρ : CEnv}
    (h : CRel (GP p) q n k c ρ) : Inert c := by
  cases h with
  | mk _ _ hi _ _ => exact hi

theorem CRel.bound {n : Nat} {k : Fun.Stack} {c : Core.Term} {ρ : CEnv}
    (h : CRel (GP p) q n k c ρ) : BoundOn (tfvTerm c []) ρ := by
  cases h with
  | mk _ _ _ hb _ => exact hb

theorem CRel.tyOK {n : Nat} {k : Fun.Stack} {c : Core.Term} {ρ : CEnv}
    (h : CRel (GP p) q n k c ρ) : Core.isCodata q.codataTypes (coreGetType c) = false := by
  cases h with
  | mk _ _ _ _ ht => exact ht

/-- a direct producer in statement position -/
theorem eval_direct (X : Ctx p q) {t : Fun.Term} (hd : evalDirect t = true) (hg : good p t = true)
    {env : Fun.Env}
    {k : Fun.Stack} {c : Core.Term} {s : Core.Stmt} {ρ0 ρ : CEnv} {out : Out} {n : Nat}
    (hc : Compiled q n t c s) (he : EnvRel (GP p) q n (fv t) env ρ0) (hr : CRel (GP p) q n k c ρ0)
    (hbd : BoundOn (tfvStmt s []) ρ0) (hag : AgreeOn (tfvStmt s []) ρ0 ρ) :
    Chunk p q (R p q) true true μ (.eval t env k) ⟨s, ρ, out, n⟩ := by
  obtain ⟨st, st', hcwc, hst, htn, hcn⟩ := hc
  obtain ⟨hpd, P, τ, cty, hcP, rfl, hnc⟩ := cwc_direct X.cod t hd hg c st s st' hcwc
  have hagP : AgreeOn (tfvTerm P []) ρ0 ρ := hag.mono fun y hy => mem_tfv_cut.2 (.inl hy)
  have hbdP : BoundOn (tfvTerm P []) ρ0 := hbd.mono fun y hy => mem_tfv_cut.2 (.inl hy)
  have hagc : AgreeOn (tfvTerm c []) ρ0 ρ := hag.mono fun y hy => mem_tfv_cut.2 (.inr hy)
  rcases direct_sim (p := p) (goodClauses p) (goodClauses_find p) t hpd env k τ st P st' n ρ0 ρ n
      hcP hst htn he hbdP hagP with
    ⟨v, j, hj, fj, hv⟩ | ⟨j, s1, w, fj, h1, h2⟩ | ⟨j, s1, w, r', fj, h1, h2, h3, h4, _⟩
  · cases hP : P.isVar with
    | true =>
      cases P with
      | var pc z ty =>
        obtain ⟨_, _, V, hl, hvr⟩ := hv.var pc z ty rfl
        exact Chunk.prefix fj (.refl _) rfl (fun _ => hj) (fun h => .inr h)
          (pass_chunk X hnc (A := .var pc z ty) rfl (by simpa [Core.prdVal] using hl) hvr hr hagc).weaken
      | _ => simp [Core.Term.isVar] at hP
    | false =>
      obtain ⟨i, ρ', n', P', V, hcs, hn', hext, hfoc, hval, hvr⟩ :=
        (hv.nonvar hP).1 c cty out hr.inert
      obtain ⟨ρ0', hext0, hag'⟩ := hext.agree (ρ0 := ρ0)
      exact Chunk.prefix fj hcs rfl (fun _ => hj) (fun h => .inr h)
        (pass_chunk X hnc hfoc hval (hvr.mono hn')
          ((hr.mono hn').sigExt hext0 (hcn.sig_lt (Nat.le_refl n))) (hag' _ hagc)).weaken
  · exact .inl ⟨j, s1, .stuck w, fj, by rw [h1]; rfl, fun hf => absurd hf (bad_not_finished h2)⟩
  · refine .inl ⟨j, s1, .stuck w, fj, by rw [h1]; rfl, fun _ => ?_⟩
    obtain ⟨i, S1, hcs, ho, hs⟩ := h4 c cty out hr.inert hnc
    exact ⟨i, S1, r', hcs, ho, hs, h2⟩

end Scc.Fun2Core.Sem
