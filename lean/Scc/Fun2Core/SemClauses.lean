/-
  Scc.Fun2Core.SemClauses — the translated clause list of a `case`: the clause selected by the Fun
  machine (`findClause`) is translated to the clause selected by the Core machine (`Clauses.find`);
  typed free variables of clause lists.
-/
import Scc.Fun2Core.SemSim0

namespace Scc.Fun2Core.Sem
open Scc

theorem mem_foldl_bsetRemove_of {y : Core.Binding} : ∀ (ctx l : List Core.Binding),
    y ∈ l → (∀ b ∈ ctx, b ≠ y) → y ∈ ctx.foldl (fun acc b => bsetRemove b acc) l
  | [], l, h, _ => h
  | b :: bs, l, h, hne => by
    simp only [List.foldl_cons]
    exact mem_foldl_bsetRemove_of bs _
      (mem_bsetRemove_of_ne (fun e => hne b (by simp) e.symm) h)
      (fun b' hb' => hne b' (by simp [hb']))

theorem mem_tfvClauses_head {x : Core.Ident} {ctx : Core.Ctx} {body : Core.Stmt}
    {rest : Core.Clauses} {y : Core.Binding} (h : y ∈ tfvStmt body []) (hne : ∀ b ∈ ctx, b ≠ y) :
    y ∈ tfvClauses (.cons x ctx body rest) [] := by
  simp only [tfvClauses]
  exact tfvClauses_mono rest _ y (mem_bsetExtend_of_mem _ (.inr (mem_foldl_bsetRemove_of ctx _ h hne)))

theorem mem_tfvClauses_tail {x : Core.Ident} {ctx : Core.Ctx} {body : Core.Stmt}
    {rest : Core.Clauses} {y : Core.Binding} (h : y ∈ tfvClauses rest []) :
    y ∈ tfvClauses (.cons x ctx body rest) [] := by
  simp only [tfvClauses]
  exact tfvClauses_sub rest _ y h

/-- the clause for `K` of a translated clause list -/
theorem clauses_find {Rr : CompileState → CompileState → Prop} (hR : StepRel Rr) (K : String) :
    ∀ (cs : Fun.Clauses) (c : Core.Term) (st : CompileState)
    (cs' : Core.Clauses) (st' : CompileState) (cl : Fun.Clause),
    compileClauses cs c st = .ok (cs', st') → Fun.findClause K cs = some cl →
    ∃ b' st1 st2, Core.Clauses.find cs' ⟨K, 0⟩ = some (compileContext cl.ctx, b') ∧
      compileWithCont cl.body c st1 = .ok (b', st2) ∧ Rr st st1 ∧ Rr st2 st' ∧
      (∀ y ∈ tfvStmt b' [], (∀ bb ∈ compileContext cl.ctx, bb ≠ y) → y ∈ tfvClauses cs' [])
  | .nil, _, _, _, _, _, _, hf => by simp [Fun.findClause] at hf
  | .cons pol xtor names ctx body rest, c, st, cs', st', cl, hc, hf => by
    rw [clauses_cons] at hc
    cases hb : compileWithCont body c st with
    | error e => simp [hb] at hc
    | ok rb =>
      obtain ⟨b, st1⟩ := rb
      cases hr : compileClauses rest c st1 with
      | error e => simp [hb, hr] at hc
      | ok rr =>
        obtain ⟨r, st2⟩ := rr
        simp only [hb, hr, Except.ok.injEq, Prod.mk.injEq] at hc
        obtain ⟨rfl, rfl⟩ := hc
        have hfb : Rr st st1 := (rel_term hR body).1 c st b st1 hb
        have hfr : Rr st1 st2 := (rel_clauses hR rest) c st1 r st2 hr
        simp only [Fun.findClause] at hf
        by_cases hk : (K == xtor) = true
        · simp only [hk, if_true, Option.some.injEq] at hf
          subst hf
          have hk' : K = xtor := by simpa using hk
          subst hk'
          refine ⟨b, st, st1, by simp [Core.Clauses.find], hb, hR.refl _, hfr, ?_⟩
          intro y hy hne
          exact mem_tfvClauses_head hy hne
        · simp only [hk] at hf
          obtain ⟨b', s1, s2, h1, h2, h3, h4, h5⟩ := clauses_find hR K rest c st1 r st2 cl hr hf
          have hne : ¬ (⟨xtor, 0⟩ : Core.Ident) = ⟨K, 0⟩ := by
            intro e
            have : xtor = K := by cases e; rfl
            exact hk (by simp [this])
          refine ⟨b', s1, s2, by simp [Core.Clauses.find, hne, h1], h2, hR.trans hfb h3, h4, ?_⟩
          intro y hy hne'
          exact mem_tfvClauses_tail (h5 y hy hne')

/-- the clause for the destructor `K` of a translated `new` -/
theorem coclauses_find {Rr : CompileState → CompileState → Prop} (hR : StepRel Rr) (K : String) :
    ∀ (cs : Fun.Clauses) (st : CompileState)
    (cs' : Core.Clauses) (st' : CompileState) (cl : Fun.Clause),
    compileCoclauses cs st = .ok (cs', st') → Fun.findClause K cs = some cl →
    ∃ b' st1 st2 τ0, Fun.Term.getType cl.body = some τ0 ∧
      Core.Clauses.find cs' ⟨K, 0⟩ =
        some (compileContext cl.ctx ++ [⟨⟨(freshCovar st1).1, 0⟩, .cns, compileTy τ0⟩], b') ∧
      compileWithCont cl.body (.var .cns ⟨(freshCovar st1).1, 0⟩ (compileTy τ0)) (freshCovar st1).2 =
        .ok (b', st2) ∧ Rr st st1 ∧ Rr st2 st' ∧
      (∀ y ∈ tfvStmt b' [],
        (∀ bb ∈ compileContext cl.ctx ++ [⟨⟨(freshCovar st1).1, 0⟩, .cns, compileTy τ0⟩], bb ≠ y) →
        y ∈ tfvClauses cs' [])
  | .nil, _, _, _, _, _, hf => by simp [Fun.findClause] at hf
  | .cons pol xtor names ctx body rest, st, cs', st', cl, hc, hf => by
    rw [coclauses_cons] at hc
    cases hty : getType body with
    | none => simp [hty] at hc
    | some τ0 =>
      simp only [hty] at hc
      cases hb : compileWithCont body (.var .cns ⟨(freshCovar st).1, 0⟩ (compileTy τ0))
          (freshCovar st).2 with
      | error e => simp [hb] at hc
      | ok rb =>
        obtain ⟨b, st1⟩ := rb
        cases hr : compileCoclauses rest st1 with
        | error e => simp [hb, hr] at hc
        | ok rr =>
          obtain ⟨r, st2⟩ := rr
          simp only [hb, hr, Except.ok.injEq, Prod.mk.injEq] at hc
          obtain ⟨rfl, rfl⟩ := hc
          have hfb : Rr st st1 := hR.trans (hR.freshCovar st) ((rel_term hR body).1 _ _ b st1 hb)
          have hfr : Rr st1 st2 := (rel_coclauses hR rest) st1 r st2 hr
          simp only [Fun.findClause] at hf
          by_cases hk : (K == xtor) = true
          · simp only [hk, if_true, Option.some.injEq] at hf
            subst hf
            have hk' : K = xtor := by simpa using hk
            subst hk'
            refine ⟨b, st, st1, τ0, by rw [← getType_eq]; exact hty, by simp [Core.Clauses.find], hb,
              hR.refl _, hfr, ?_⟩
            intro y hy hne
            exact mem_tfvClauses_head hy hne
          · simp only [hk] at hf
            obtain ⟨b', s1, s2, τ1, h0, h1, h2, h3, h4, h5⟩ :=
              coclauses_find hR K rest st1 r st2 cl hr hf
            have hne : ¬ (⟨xtor, 0⟩ : Core.Ident) = ⟨K, 0⟩ := by
              intro e
              have : xtor = K := by cases e; rfl
              exact hk (by simp [this])
            refine ⟨b', s1, s2, τ1, h0, by simp [Core.Clauses.find, hne, h1], h2, hR.trans hfb h3, h4, ?_⟩
            intro y hy hne'
            exact mem_tfvClauses_tail (h5 y hy hne')

/-- names of the clauses of a `case`, for the clause found -/
theorem findClause_mem : ∀ (cs : Fun.Clauses) (K : String) (cl : Fun.Clause),
    Fun.findClause K cs = some cl →
    (∀ x ∈ (fv cl.body).filter (fun x => !cl.names.contains x), x ∈ fvClauses cs) ∧
    (∀ x ∈ binderNames cl.body, x ∈ binderNamesClauses cs) ∧
    (∀ x ∈ cl.names, x ∈ binderNamesClauses cs) ∧ (∀ x ∈ cl.names, x ∈ clausesNames cs)
  | .nil, _, _, hf => by simp [Fun.findClause] at hf
  | .cons pol xtor names ctx body rest, K, cl, hf => by
    simp only [Fun.findClause] at hf
    by_cases hk : (K == xtor) = true
    · simp only [hk, if_true, Option.some.injEq] at hf
      subst hf
      refine ⟨fun x hx => ?_, fun x hx => ?_, fun x hx => ?_, fun x hx => ?_⟩
      · simp only [fvClauses, List.mem_append]; exact .inl hx
      · simp only [binderNamesClauses, List.mem_append]; exact .inl (.inr hx)
      · simp only [binderNamesClauses, List.mem_append]; exact .inl (.inl hx)
      · simp only [clausesNames, List.mem_append]; exact .inl hx
    · simp only [hk] at hf
      obtain ⟨h1, h2, h3, h4⟩ := findClause_mem rest K cl hf
      refine ⟨fun x hx => ?_, fun x hx => ?_, fun x hx => ?_, fun x hx => ?_⟩
      · simp only [fvClauses, List.mem_append]; exact .inr (h1 x hx)
      · simp only [binderNamesClauses, List.mem_append]; exact .inr (h2 x hx)
      · simp only [binderNamesClauses, List.mem_append]; exact .inr (h3 x hx)
      · simp only [clausesNames, List.mem_append]; exact .inr (h4 x hx)

end Scc.Fun2Core.Sem
