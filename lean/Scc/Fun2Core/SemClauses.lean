/-
  Scc.Fun2Core.SemClauses — the translated clause list of a `case`: the clause selected by the Fun
  machine (`findClause`) is translated to the clause selected by the Core machine (`Clauses.find`);
  typed free variables of clause lists.
-/
import Scc.Fun2Core.SemSim0

namespace Scc.Fun2Core.Sem
open Scc

theorem mem_foldl_bsetRemove_of {y : Core.Binding} : ∀ (ctx l : List Core.Binding),
    y ∈ l → (∀ b ∈ ctx, b ≠ y) → y ∈ ctx.foldl (fun acc b => bsetRemove b acc) l
  | [], l, h, _ => h
  | b :: bs, l, h, hne => by
    simp only [List.foldl_cons]
    exact mem_foldl_bsetRemove_of bs _
      (mem_bsetRemove_of_ne (fun e => hne b (by simp) e.symm) h)
      (fun b' hb' => hne b' (by simp [hb']))

theorem mem_tfvClauses_head {x : Core.Ident} {ctx : Core.Ctx} {body : Core.Stmt}
    {rest : Core.Clauses} {y : Core.Binding} (h : y ∈ tfvStmt body []) (hne : ∀ b ∈ ctx, b ≠ y) :
    y ∈ tfvClauses (.cons x ctx body rest) [] := by
  simp only [tfvClauses]
  exact tfvClauses_mono rest _ y (mem_bsetExtend_of_mem _ (.inr (mem_foldl_bsetRemove_of ctx _ h hne)))

theorem mem_tfvClauses_tail {x : Core.Ident} {ctx : Core.Ctx} {body : Core.Stmt}
    {rest : Core.Clauses} {y : Core.Binding} (h : y ∈ tfvClauses rest []) :
    y ∈ tfvClauses (.cons x ctx body rest) [] := by
  simp only [tfvClauses]
  exact tfvClauses_sub rest _ y h

/-- the clause for `K` of a translated clause list -/
theorem clauses_find {Rr : CompileState → CompileState → Prop} (hR : StepRel Rr) (K : String) :
    ∀ (cs : Fun.Clauses) (c : Core.Term) (st : CompileState)
    (cs' : Core.Clauses) (st' : CompileState) (cl : Fun.Clause),
    compileClauses cs c st = .ok (cs', st') → Fun.findClause K cs = some cl →
    ∃ b' st1 st2, Core.Clauses.find cs' ⟨K, 0⟩ = some (compileContext cl.ctx, b') ∧
      compileWithCont cl.body c st1 = .ok (b', st2) ∧ Rr st st1 ∧ Rr st2 st' ∧
      (∀ y ∈ tfvStmt b' [], (∀ bb ∈ compileContext cl.ctx, bb ≠ y) → y ∈ tfvClauses cs' [])
  | .nil, _, _, _, _, _, _, hf => by simp [Fun.findClause] at hf
  | .cons pol xtor names ctx body rest, c, st, cs', st', cl, hc, hf => by
    rw [clauses_cons] at hc
    cases hb : compileWithCont body c st with
    | error e => simp [hb] at hc
    | ok rb =>
      obtain ⟨b, st1⟩ := rb
      cases hr : compileClauses rest c st1 with
      | error e => simp [hb, hr] at hc
      | ok rr =>
        obtain ⟨r, st2⟩ := rr
        simp only [hb, hr, Except.ok.injEq, Prod.mk.injEq] at hc
        obtain ⟨rfl, rfl⟩ := hc
        have hfb : Rr st st1 := (rel_term hR body).1 c st b st1 hb
        have hfr : Rr st1 st2 := (rel_clauses hR rest) c st1 r st2 hr
        simp only [Fun.findClause] at hf
        by_cases hk : (K == xtor) = true
        · simp only [hk, if_true, Option.some.injEq] at hf
          subst hf
          have hk' : K = xtor := by simpa using hk
          subst hk'
          refine ⟨b, st, st1, by simp [Core.Clauses.find], hb, hR.refl _, hfr, ?_⟩
          intro y hy hne
          exact mem_tfvClauses_head hy hne
        · simp only [hk] at hf
          obtain ⟨b', s1, s2, h1, h2, h3, h4, h5⟩ := clauses_find hR K rest c st1 r st2 cl hr hf
          have hne : ¬ (⟨xtor, 0⟩ : Core.Ident) = ⟨K, 0⟩ := by
            intro e
            have : xtor = K := by cases e; rfl
            exact hk (by simp [this])
          refine ⟨b', s1, s2, by simp [Core.Clauses.find, hne, h1], h2, hR.trans hfb h3, h4, ?_⟩
          intro y hy hne'
          exact mem_tfvClauses_tail (h5 y hy hne')

/-- the state relation used by the simulation: freshness and `ς ∉ usedVars` -/
def FS (a b : CompileState) : Prop := Fresh a b ∧ NoSigRel a b

theorem fs_stepRel : StepRel FS where
  refl := fun st => ⟨.refl st, noSig_stepRel.refl st⟩
  trans := fun h1 h2 => ⟨h1.1.trans h2.1, noSig_stepRel.trans h1.2 h2.2⟩
  freshVar := fun st => ⟨fresh_freshVar st, noSig_stepRel.freshVar st⟩
  freshCovar := fun st => ⟨fresh_freshCovar st, noSig_stepRel.freshCovar st⟩
  share := fun c st => ⟨fresh_share c st, noSig_stepRel.share c st⟩

/-- names of the clauses of a `case`, for the clause found -/
theorem findClause_mem : ∀ (cs : Fun.Clauses) (K : String) (cl : Fun.Clause),
    Fun.findClause K cs = some cl →
    (∀ x ∈ (fv cl.body).filter (fun x => !cl.names.contains x), x ∈ fvClauses cs) ∧
    (∀ x ∈ binderNames cl.body, x ∈ binderNamesClauses cs) ∧
    (∀ x ∈ cl.names, x ∈ binderNamesClauses cs) ∧ (∀ x ∈ cl.names, x ∈ clausesNames cs)
  | .nil, _, _, hf => by simp [Fun.findClause] at hf
  | .cons pol xtor names ctx body rest, K, cl, hf => by
    simp only [Fun.findClause] at hf
    by_cases hk : (K == xtor) = true
    · simp only [hk, if_true, Option.some.injEq] at hf
      subst hf
      refine ⟨fun x hx => ?_, fun x hx => ?_, fun x hx => ?_, fun x hx => ?_⟩
      · simp only [fvClauses, List.mem_append]; exact .inl hx
      · simp only [binderNamesClauses, List.mem_append]; exact .inl (.inr hx)
      · simp only [binderNamesClauses, List.mem_append]; exact .inl (.inl hx)
      · simp only [clausesNames, List.mem_append]; exact .inl hx
    · simp only [hk] at hf
      obtain ⟨h1, h2, h3, h4⟩ := findClause_mem rest K cl hf
      refine ⟨fun x hx => ?_, fun x hx => ?_, fun x hx => ?_, fun x hx => ?_⟩
      · simp only [fvClauses, List.mem_append]; exact .inr (h1 x hx)
      · simp only [binderNamesClauses, List.mem_append]; exact .inr (h2 x hx)
      · simp only [binderNamesClauses, List.mem_append]; exact .inr (h3 x hx)
      · simp only [clausesNames, List.mem_append]; exact .inr (h4 x hx)

/-- the clause found is a good clause -/
theorem findClause_good : ∀ (cs : Fun.Clauses) (K : String) (cl : Fun.Clause),
    goodClauses cs = true → Fun.findClause K cs = some cl →
    good cl.body = true ∧ cl.names.Nodup ∧ cl.ctx.map (·.var) = cl.names
  | .nil, _, _, _, hf => by simp [Fun.findClause] at hf
  | .cons pol xtor names ctx body rest, K, cl, hg, hf => by
    simp only [goodClauses, Bool.and_eq_true, decide_eq_true_eq] at hg
    simp only [Fun.findClause] at hf
    by_cases hk : (K == xtor) = true
    · simp only [hk, if_true, Option.some.injEq] at hf
      subst hf
      exact ⟨hg.1.1.1, hg.1.1.2, hg.1.2⟩
    · simp only [hk] at hf
      exact findClause_good rest K cl hg.2 hf

end Scc.Fun2Core.Sem
