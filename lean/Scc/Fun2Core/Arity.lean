/-
  Scc.Fun2Core.Arity — the number of parameters of a definition lifted by `share` is bounded by the
  number of distinct typed (co)variables mentioned by the enclosing definition: at most
  `2 * |body|` (each source node contributes at most two new typed names: its own occurrence /
  fresh covariable, and the fresh variable of a `share`).  With Scc.Fun2Core.SizeProofs this makes
  the size bound of C19 unconditional (quadratic in the size of the source).
-/
import Scc.Fun2Core.FreeVars
import Scc.Fun2Core.SizeProofs

namespace Scc.Fun2Core
open Scc

/-- `out` (variable occurrences of the output) and the parameters of the newly lifted definitions
are among `U` and the occurrences `occC` of the continuation; lifted parameter lists are
duplicate-free -/
def ArOK (U occC out : List Core.Binding) (new : List Core.Def) : Prop :=
  (∀ b ∈ out, b ∈ U ∨ b ∈ occC) ∧ (∀ d ∈ new, d.ctx.Nodup ∧ ∀ b ∈ d.ctx, b ∈ U ∨ b ∈ occC)

theorem ArOK.mono {U occC out new U' occC'} (h : ArOK U occC out new)
    (hU : ∀ b ∈ U, b ∈ U') (hC : ∀ b ∈ occC, b ∈ U' ∨ b ∈ occC') : ArOK U' occC' out new := by
  refine ⟨fun b hb => ?_, fun d hd => ⟨(h.2 d hd).1, fun b hb => ?_⟩⟩
  · rcases h.1 b hb with h1 | h1
    · exact .inl (hU b h1)
    · exact hC b h1
  · rcases (h.2 d hd).2 b hb with h1 | h1
    · exact .inl (hU b h1)
    · exact hC b h1

theorem ArOK.union {U occC out1 out2 new1 new2} (h1 : ArOK U occC out1 new1)
    (h2 : ArOK U occC out2 new2) : ArOK U occC (out1 ++ out2) (new2 ++ new1) := by
  refine ⟨fun b hb => ?_, fun d hd => ?_⟩
  · rcases List.mem_append.1 hb with h | h
    · exact h1.1 b h
    · exact h2.1 b h
  · rcases List.mem_append.1 hd with h | h
    · exact h2.2 d h
    · exact h1.2 d h

theorem ArOK.out_mono {U occC out out' new} (h : ArOK U occC out new)
    (ho : ∀ b ∈ out', b ∈ out) : ArOK U occC out' new :=
  ⟨fun b hb => h.1 b (ho b hb), h.2⟩

theorem occArgs_bindingsToArgs (bs : List Core.Binding) : occArgs (bindingsToArgs bs) = bs := by
  induction bs with
  | nil => rfl
  | cons b bs ih => cases b; simp [bindingsToArgs, occArgs, occTerm, ih]

theorem occArgs_snoc : ∀ (a : Core.Args) (pc : Core.PC) (t : Core.Term),
    occArgs (argsSnoc a pc t) = occArgs a ++ occTerm t
  | .nil, pc, t => by simp [argsSnoc, occArgs]
  | .cons p x r, pc, t => by simp [argsSnoc, occArgs, occArgs_snoc r pc t]

/-- `share`: at most one new typed name (the abstracted variable) -/
theorem share_arity (c : Core.Term) (st : CompileState) :
    ∃ U0 d, U0.length ≤ 1 ∧ (share c st).2.liftedStatements = d :: st.liftedStatements ∧
      ArOK U0 (occTerm c) (occTerm (share c st).1) [d] := by
  unfold share
  split
  · rename_i pc v ty s
    refine ⟨[], _, by simp, rfl, ?_, ?_⟩
    · intro b hb
      simp only [occTerm, occStmt, occArgs_bindingsToArgs] at hb
      exact .inr (by simpa [occTerm] using (tfvStmt_nil _).2 b hb)
    · intro d hd
      simp only [List.mem_singleton] at hd
      subst hd
      exact ⟨(tfvStmt_nil _).1, fun b hb => .inr (by simpa [occTerm] using (tfvStmt_nil _).2 b hb)⟩
  · refine ⟨[⟨⟨(freshVar st).1, 0⟩, .prd, coreGetType c⟩], _, by simp, rfl, ?_, ?_⟩
    · intro b hb
      simp only [occTerm, occStmt, occArgs_bindingsToArgs] at hb
      have := (tfvStmt_nil _).2 b hb
      simpa [occStmt, occTerm] using this
    · intro d hd
      simp only [List.mem_singleton] at hd
      subst hd
      refine ⟨(tfvStmt_nil _).1, fun b hb => ?_⟩
      have := (tfvStmt_nil _).2 b hb
      simpa [occStmt, occTerm] using this

theorem shareIf_arity (b : Bool) (c : Core.Term) (st : CompileState) :
    ∃ U0 new0, U0.length ≤ 1 ∧
      (if b = true then (c, st) else share c st).2.liftedStatements = new0 ++ st.liftedStatements ∧
      ArOK U0 (occTerm c) (occTerm (if b = true then (c, st) else share c st).1) new0 := by
  cases b
  · obtain ⟨U0, d, h1, h2, h3⟩ := share_arity c st
    exact ⟨U0, [d], h1, by simpa using h2, by simpa using h3⟩
  · exact ⟨[], [], by simp, by simp, fun b hb => .inr (by simpa using hb), by simp⟩

theorem clausesNames_le : ∀ cs : Fun.Clauses, (clausesNames cs).length ≤ funSizeClauses cs
  | .nil => by simp [clausesNames]
  | .cons _ _ names ctx body rest => by
    have := clausesNames_le rest
    simp only [clausesNames, funSizeClauses, List.length_append]; omega

/-! ## induction predicates -/

def ArCwc (t : Fun.Term) : Prop :=
  ∀ c st s st', compileWithCont t c st = .ok (s, st') →
    ∃ U new, U.length + 1 ≤ 2 * funSize t ∧ st'.liftedStatements = new ++ st.liftedStatements ∧
      ArOK U (occTerm c) (occStmt s) new
def ArComp (t : Fun.Term) : Prop :=
  ∀ ty st p st', compile t ty st = .ok (p, st') →
    ∃ U new, U.length ≤ 2 * funSize t ∧ st'.liftedStatements = new ++ st.liftedStatements ∧
      ArOK U [] (occTerm p) new
def ArSubst (args : Fun.Terms) : Prop :=
  ∀ st as st', compileSubst args st = .ok (as, st') →
    ∃ U new, U.length ≤ 2 * funSizeArgs args ∧ st'.liftedStatements = new ++ st.liftedStatements ∧
      ArOK U [] (occArgs as) new
def ArClauses (cs : Fun.Clauses) : Prop :=
  ∀ cont st cs' st', compileClauses cs cont st = .ok (cs', st') →
    ∃ U new, U.length + 2 * (clausesNames cs).length + 3 * clausesLen cs ≤ 2 * funSizeClauses cs ∧
      st'.liftedStatements = new ++ st.liftedStatements ∧
      ArOK U (occTerm cont) (occClauses cs') new
def ArCoclauses (cs : Fun.Clauses) : Prop :=
  ∀ st cs' st', compileCoclauses cs st = .ok (cs', st') →
    ∃ U new, U.length ≤ 2 * funSizeClauses cs ∧ st'.liftedStatements = new ++ st.liftedStatements ∧
      ArOK U [] (occClauses cs') new

theorem arComp_default {t : Fun.Term} (h : ArCwc t)
    (hd : ∀ ty st, compile t ty st = defaultCompile (compileWithCont t) ty st) : ArComp t := by
  intro ty st p st' hc
  rw [hd, defaultCompile_eq] at hc
  cases hx : compileWithCont t (.var .cns ⟨(freshCovar st).1, 0⟩ ty) (freshCovar st).2 with
  | error e => simp [hx] at hc
  | ok r =>
    obtain ⟨s, st1⟩ := r
    simp only [hx, Except.ok.injEq, Prod.mk.injEq] at hc
    obtain ⟨rfl, rfl⟩ := hc
    obtain ⟨U, new, hl, e, ok⟩ := h _ _ _ _ hx
    refine ⟨⟨⟨(freshCovar st).1, 0⟩, .cns, ty⟩ :: U, new, by simp; omega, by simpa using e, ?_⟩
    refine (ok.mono (fun b hb => by simp [hb]) (fun b hb => ?_)).out_mono (fun b hb => by simpa [occTerm] using hb)
    simp only [occTerm, List.mem_singleton] at hb
    exact .inl (by simp [hb])

/-- the capture guard of `let` / `case`: every level of re-entry adds one fresh covariable; a
successful run through `lvl` levels wraps at most `lvl - 1` times -/
theorem ar_guardedLvl {m : Nat} {binders : List String} {ty : Option Fun.Ty} {site : String}
    {core : CwcFn}
    (hcore : ∀ c st s st', core c st = .ok (s, st') →
      ∃ U new, U.length ≤ m ∧ st'.liftedStatements = new ++ st.liftedStatements ∧
        ArOK U (occTerm c) (occStmt s) new) :
    ∀ lvl c st s st', guardedLvl binders ty site core lvl c st = .ok (s, st') →
      ∃ U new, U.length + 1 ≤ m + lvl ∧ st'.liftedStatements = new ++ st.liftedStatements ∧
        ArOK U (occTerm c) (occStmt s) new
  | 0, c, st, s, st', h => by simp [guardedLvl_zero] at h
  | lvl + 1, c, st, s, st', h => by
    rw [guardedLvl_succ] at h
    split at h
    · cases ty with
      | none => simp at h
      | some t =>
        simp only [defaultCompile_eq] at h
        cases hx : guardedLvl binders (some t) site core lvl
            (.var .cns ⟨(freshCovar st).1, 0⟩ (compileTy t)) (freshCovar st).2 with
        | error e => simp [hx] at h
        | ok r =>
          obtain ⟨s1, st1⟩ := r
          simp only [hx, Except.ok.injEq, Prod.mk.injEq] at h
          obtain ⟨rfl, rfl⟩ := h
          obtain ⟨U, new, hl, e, ok⟩ := ar_guardedLvl hcore lvl _ _ _ _ hx
          refine ⟨⟨⟨(freshCovar st).1, 0⟩, .cns, compileTy t⟩ :: U, new, by simp; omega,
            by simpa using e, ?_⟩
          unfold ArOK at *
          simp only [occStmt, occTerm, List.mem_append, List.mem_cons, List.not_mem_nil,
            or_false] at *
          grind
    · obtain ⟨U, new, hl, e, ok⟩ := hcore _ _ _ _ h
      exact ⟨U, new, by omega, e, ok⟩

/-- forms whose `compile_with_cont` is `Cut(compile, cont)`; `compile` stays one below the budget -/
theorem arCwc_of_comp {t : Fun.Term}
    (hc : ∀ ty st p st', compile t ty st = .ok (p, st') →
      ∃ U new, U.length + 1 ≤ 2 * funSize t ∧ st'.liftedStatements = new ++ st.liftedStatements ∧
        ArOK U [] (occTerm p) new)
    (hcwc : ∀ c st, ∃ ty, compileWithCont t c st =
      (match compile t ty st with
        | .error e => .error e
        | .ok (p, st1) => .ok (.cut ty p c, st1)) ∨ (∃ e, compileWithCont t c st = .error e)) :
    ArCwc t ∧ ArComp t := by
  refine ⟨fun c st s st' h => ?_, fun ty st p st' h => ?_⟩
  · obtain ⟨ty, h1 | ⟨e, h1⟩⟩ := hcwc c st
    · rw [h1] at h
      cases hx : compile t ty st with
      | error e => simp [hx] at h
      | ok r =>
        obtain ⟨p, st1⟩ := r
        simp only [hx, Except.ok.injEq, Prod.mk.injEq] at h
        obtain ⟨rfl, rfl⟩ := h
        obtain ⟨U, new, hl, e, ok⟩ := hc _ _ _ _ hx
        refine ⟨U, new, hl, e, ?_⟩
        have ok' : ArOK U (occTerm c) (occTerm p) new := ok.mono (fun b hb => hb) (by simp)
        refine ⟨fun b hb => ?_, ok'.2⟩
        simp only [occStmt, List.mem_append] at hb
        rcases hb with hb | hb
        · exact ok'.1 b hb
        · exact .inr hb
    · rw [h1] at h; simp at h
  · obtain ⟨U, new, hl, e, ok⟩ := hc _ _ _ _ h
    exact ⟨U, new, by omega, e, ok⟩


/-- closes the `ArOK` goals: pure membership reasoning -/
macro "ar_ok" : tactic => `(tactic| (
  unfold ArOK at *
  simp only [occStmt, occTerm, occArgs, occClauses, occArgs_snoc, List.mem_append,
    List.mem_cons, List.mem_singleton, List.not_mem_nil, or_false, false_or] at *
  grind))

mutual
theorem ar_term : ∀ t : Fun.Term, ArCwc t ∧ ArComp t
  | .var x ty chi => by
    refine ⟨fun c st s st' h => ?_, fun cty st p st' h => ?_⟩
    · rw [cwc_var] at h
      cases ty with
      | none => simp at h
      | some t =>
        simp only [Except.ok.injEq, Prod.mk.injEq] at h
        obtain ⟨rfl, rfl⟩ := h
        refine ⟨[⟨⟨x, 0⟩, .prd, compileTy t⟩], [], by simp [funSize], by simp, ?_⟩
        ar_ok
    · rw [c_var] at h
      cases ty with
      | none => simp at h
      | some t =>
        simp only [Except.ok.injEq, Prod.mk.injEq] at h
        obtain ⟨rfl, rfl⟩ := h
        refine ⟨[⟨⟨x, 0⟩, .prd, compileTy t⟩], [], by simp [funSize], by simp, ?_⟩
        ar_ok
  | .lit n => by
    refine ⟨fun c st s st' h => ?_, fun cty st p st' h => ?_⟩
    · rw [cwc_lit] at h
      simp only [Except.ok.injEq, Prod.mk.injEq] at h
      obtain ⟨rfl, rfl⟩ := h
      refine ⟨[], [], by simp [funSize], by simp, ?_⟩
      ar_ok
    · rw [c_lit] at h
      simp only [Except.ok.injEq, Prod.mk.injEq] at h
      obtain ⟨rfl, rfl⟩ := h
      refine ⟨[], [], by simp, by simp, ?_⟩
      ar_ok
  | .op a o b => by
    have ha := (ar_term a).2
    have hb := (ar_term b).2
    refine arCwc_of_comp ?_ (fun c st => ⟨.i64, .inl (cwc_op a o b c st)⟩)
    intro cty st p st' h
    rw [c_op] at h
    cases hx : compile a .i64 st with
    | error e => simp [hx] at h
    | ok r =>
      obtain ⟨fst, st1⟩ := r
      simp only [hx] at h
      cases hy : compile b .i64 st1 with
      | error e => simp [hy] at h
      | ok r =>
        obtain ⟨snd, st2⟩ := r
        simp only [hy, Except.ok.injEq, Prod.mk.injEq] at h
        obtain ⟨rfl, rfl⟩ := h
        obtain ⟨U1, n1, l1, e1, ok1⟩ := ha _ _ _ _ hx
        obtain ⟨U2, n2, l2, e2, ok2⟩ := hb _ _ _ _ hy
        refine ⟨U2 ++ U1, n2 ++ n1, ?_, by simp [e2, e1], ?_⟩
        · simp only [List.length_append, funSize]; omega
        · ar_ok
  | .ifc srt a b t e ty => by
    have ha := (ar_term a).2
    have hb := (ar_term b).2
    have ht := (ar_term t).1
    have he := (ar_term e).1
    have hcwc : ArCwc (.ifc srt a b t e ty) := by
      intro c st s st' h
      rw [cwc_ifc] at h
      obtain ⟨U0, new0, hl0, hn0, ok0⟩ := shareIf_arity (isLeaf c) c st
      generalize (if isLeaf c then (c, st) else share c st) = r at h hn0 ok0
      cases hx : compile a .i64 r.2 with
      | error e => simp [hx] at h
      | ok r1 =>
        obtain ⟨fst, st1⟩ := r1
        simp only [hx] at h
        cases hy : compile b .i64 st1 with
        | error e => simp [hy] at h
        | ok r2 =>
          obtain ⟨snd, st2⟩ := r2
          simp only [hy] at h
          cases hz : compileWithCont t r.1 st2 with
          | error e => simp [hz] at h
          | ok r3 =>
            obtain ⟨thenc, st3⟩ := r3
            simp only [hz] at h
            cases hw : compileWithCont e r.1 st3 with
            | error e => simp [hw] at h
            | ok r4 =>
              obtain ⟨elsec, st4⟩ := r4
              simp only [hw, Except.ok.injEq, Prod.mk.injEq] at h
              obtain ⟨rfl, rfl⟩ := h
              obtain ⟨U1, n1, l1, e1, ok1⟩ := ha _ _ _ _ hx
              obtain ⟨U2, n2, l2, e2, ok2⟩ := hb _ _ _ _ hy
              obtain ⟨U3, n3, l3, e3, ok3⟩ := ht _ _ _ _ hz
              obtain ⟨U4, n4, l4, e4, ok4⟩ := he _ _ _ _ hw
              refine ⟨U4 ++ (U3 ++ (U2 ++ (U1 ++ U0))), n4 ++ (n3 ++ (n2 ++ (n1 ++ new0))), ?_,
                by simp [e4, e3, e2, e1, hn0], ?_⟩
              · simp only [List.length_append, funSize]; omega
              · ar_ok
    exact ⟨hcwc, arComp_default hcwc (fun _ _ => rfl)⟩
  | .ifz srt a t e ty => by
    have ha := (ar_term a).2
    have ht := (ar_term t).1
    have he := (ar_term e).1
    have hcwc : ArCwc (.ifz srt a t e ty) := by
      intro c st s st' h
      rw [cwc_ifz] at h
      obtain ⟨U0, new0, hl0, hn0, ok0⟩ := shareIf_arity (isLeaf c) c st
      generalize (if isLeaf c then (c, st) else share c st) = r at h hn0 ok0
      cases hx : compile a .i64 r.2 with
      | error e => simp [hx] at h
      | ok r1 =>
        obtain ⟨fst, st1⟩ := r1
        simp only [hx] at h
        cases hz : compileWithCont t r.1 st1 with
        | error e => simp [hz] at h
        | ok r3 =>
          obtain ⟨thenc, st3⟩ := r3
          simp only [hz] at h
          cases hw : compileWithCont e r.1 st3 with
          | error e => simp [hw] at h
          | ok r4 =>
            obtain ⟨elsec, st4⟩ := r4
            simp only [hw, Except.ok.injEq, Prod.mk.injEq] at h
            obtain ⟨rfl, rfl⟩ := h
            obtain ⟨U1, n1, l1, e1, ok1⟩ := ha _ _ _ _ hx
            obtain ⟨U3, n3, l3, e3, ok3⟩ := ht _ _ _ _ hz
            obtain ⟨U4, n4, l4, e4, ok4⟩ := he _ _ _ _ hw
            refine ⟨U4 ++ (U3 ++ (U1 ++ U0)), n4 ++ (n3 ++ (n1 ++ new0)), ?_,
              by simp [e4, e3, e1, hn0], ?_⟩
            · simp only [List.length_append, funSize]; omega
            · ar_ok
    exact ⟨hcwc, arComp_default hcwc (fun _ _ => rfl)⟩
  | .print nl a n ty => by
    have ha := (ar_term a).2
    have hn := (ar_term n).1
    have hcwc : ArCwc (.print nl a n ty) := by
      intro c st s st' h
      rw [cwc_print] at h
      cases hx : compile a .i64 st with
      | error e => simp [hx] at h
      | ok r1 =>
        obtain ⟨arg, st1⟩ := r1
        simp only [hx] at h
        cases hy : compileWithCont n c st1 with
        | error e => simp [hy] at h
        | ok r2 =>
          obtain ⟨next, st2⟩ := r2
          simp only [hy, Except.ok.injEq, Prod.mk.injEq] at h
          obtain ⟨rfl, rfl⟩ := h
          obtain ⟨U1, n1, l1, e1, ok1⟩ := ha _ _ _ _ hx
          obtain ⟨U2, n2, l2, e2, ok2⟩ := hn _ _ _ _ hy
          refine ⟨U2 ++ U1, n2 ++ n1, ?_, by simp [e2, e1], ?_⟩
          · simp only [List.length_append, funSize]; omega
          · ar_ok
    exact ⟨hcwc, arComp_default hcwc (fun _ _ => rfl)⟩
  | .letIn x varTy bound body ty => by
    have hbc := (ar_term bound).1
    have hbp := (ar_term bound).2
    have hi := (ar_term body).1
    have hcore : ∀ c st s st', letCore x varTy bound body c st = .ok (s, st') →
        ∃ U new, U.length ≤ 2 * funSize bound + 2 * funSize body - 1 ∧
          st'.liftedStatements = new ++ st.liftedStatements ∧ ArOK U (occTerm c) (occStmt s) new := by
      intro c st s st' h
      have hp1 := funSize_pos bound
      have hp2 := funSize_pos body
      unfold letCore at h
      cases hx : compileWithCont body c st with
      | error e => simp [hx] at h
      | ok r1 =>
        obtain ⟨inStmt, st1⟩ := r1
        simp only [hx] at h
        obtain ⟨U1, n1, l1, e1, ok1⟩ := hi _ _ _ _ hx
        split at h
        · cases hy : compile bound (compileTy varTy) st1 with
          | error e => simp [hy] at h
          | ok r2 =>
            obtain ⟨p, st2⟩ := r2
            simp only [hy, Except.ok.injEq, Prod.mk.injEq] at h
            obtain ⟨rfl, rfl⟩ := h
            obtain ⟨U2, n2, l2, e2, ok2⟩ := hbp _ _ _ _ hy
            refine ⟨U2 ++ U1, n2 ++ n1, ?_, by simp [e2, e1], ?_⟩
            · simp only [List.length_append]; omega
            · ar_ok
        · obtain ⟨U2, n2, l2, e2, ok2⟩ := hbc _ _ _ _ h
          refine ⟨U2 ++ U1, n2 ++ n1, ?_, by simp [e2, e1], ?_⟩
          · simp only [List.length_append]; omega
          · ar_ok
    have hcwc : ArCwc (.letIn x varTy bound body ty) := by
      intro c st s st' h
      have hp1 := funSize_pos bound
      have hp2 := funSize_pos body
      rw [cwc_letIn] at h
      obtain ⟨U, new, hl, e, ok⟩ := ar_guardedLvl hcore _ _ _ _ _ h
      refine ⟨U, new, ?_, e, ok⟩
      simp only [funSize, List.length_cons, List.length_nil] at *
      omega
    exact ⟨hcwc, arComp_default hcwc (fun _ _ => rfl)⟩
  | .call name args retTy => by
    have hs := ar_subst args
    have hcwc : ArCwc (.call name args retTy) := by
      intro c st s st' h
      rw [cwc_call] at h
      cases hx : compileSubst args st with
      | error e => simp [hx] at h
      | ok r1 =>
        obtain ⟨args', st1⟩ := r1
        simp only [hx] at h
        cases retTy with
        | none => simp at h
        | some t =>
          simp only [Except.ok.injEq, Prod.mk.injEq] at h
          obtain ⟨rfl, rfl⟩ := h
          obtain ⟨U1, n1, l1, e1, ok1⟩ := hs _ _ _ hx
          refine ⟨U1, n1, ?_, e1, ?_⟩
          · simp only [funSize]; omega
          · ar_ok
    exact ⟨hcwc, arComp_default hcwc (fun _ _ => rfl)⟩
  | .ctor id args ty => by
    have hs := ar_subst args
    refine arCwc_of_comp ?_ ?_
    · intro cty st p st' h
      rw [c_ctor] at h
      cases hx : compileSubst args st with
      | error e => simp [hx] at h
      | ok r1 =>
        obtain ⟨args', st1⟩ := r1
        simp only [hx] at h
        cases ty with
        | none => simp at h
        | some t =>
          simp only [Except.ok.injEq, Prod.mk.injEq] at h
          obtain ⟨rfl, rfl⟩ := h
          obtain ⟨U1, n1, l1, e1, ok1⟩ := hs _ _ _ hx
          refine ⟨U1, n1, ?_, e1, ?_⟩
          · simp only [funSize]; omega
          · ar_ok
    · intro c st
      cases ty with
      | none => exact ⟨.i64, .inr ⟨_, rfl⟩⟩
      | some t => exact ⟨compileTy t, .inl (cwc_ctor id args (some t) c st)⟩
  | .dtor scrutinee id tyArgs args ty => by
    have hs := ar_subst args
    have hsc := (ar_term scrutinee).1
    have hcwc : ArCwc (.dtor scrutinee id tyArgs args ty) := by
      intro c st s st' h
      rw [cwc_dtor] at h
      cases hx : compileSubst args st with
      | error e => simp [hx] at h
      | ok r1 =>
        obtain ⟨args', st1⟩ := r1
        simp only [hx] at h
        cases hg : getType scrutinee with
        | none => simp [hg] at h
        | some t =>
          simp only [hg] at h
          obtain ⟨U1, n1, l1, e1, ok1⟩ := hs _ _ _ hx
          obtain ⟨U2, n2, l2, e2, ok2⟩ := hsc _ _ _ _ h
          refine ⟨U2 ++ U1, n2 ++ n1, ?_, by simp [e2, e1], ?_⟩
          · simp only [List.length_append, funSize]; omega
          · ar_ok
    exact ⟨hcwc, arComp_default hcwc (fun _ _ => rfl)⟩
  | .case scrutinee tyArgs clauses ty => by
    have hcl := ar_clauses clauses
    have hsc := (ar_term scrutinee).1
    have hcore : ∀ c st s st', caseCore scrutinee clauses c st = .ok (s, st') →
        ∃ U new, U.length ≤ 2 * funSize scrutinee + (2 * funSizeClauses clauses -
            (clausesNames clauses).length) ∧
          st'.liftedStatements = new ++ st.liftedStatements ∧ ArOK U (occTerm c) (occStmt s) new := by
      intro c st s st' h
      unfold caseCore at h
      obtain ⟨U0, new0, hl0, hn0, ok0⟩ :=
        shareIf_arity (decide (clausesLen clauses ≤ 1) || isLeaf c) c st
      generalize (if (decide (clausesLen clauses ≤ 1) || isLeaf c) = true then (c, st)
        else share c st) = r at h hn0 ok0
      cases hx : compileClauses clauses r.1 r.2 with
      | error e => simp [hx] at h
      | ok r1 =>
        obtain ⟨cs, st1⟩ := r1
        simp only [hx] at h
        cases hg : getType scrutinee with
        | none => simp [hg] at h
        | some t =>
          simp only [hg] at h
          obtain ⟨U1, n1, l1, e1, ok1⟩ := hcl _ _ _ _ hx
          obtain ⟨U2, n2, l2, e2, ok2⟩ := hsc _ _ _ _ h
          refine ⟨U2 ++ (U1 ++ U0), n2 ++ (n1 ++ new0), ?_, by simp [e2, e1, hn0], ?_⟩
          · simp only [List.length_append]; omega
          · ar_ok
    have hcwc : ArCwc (.case scrutinee tyArgs clauses ty) := by
      intro c st s st' h
      rw [cwc_case] at h
      obtain ⟨U, new, hl, e, ok⟩ := ar_guardedLvl hcore _ _ _ _ _ h
      have hnm := clausesNames_le clauses
      refine ⟨U, new, ?_, e, ok⟩
      simp only [funSize] at *
      omega
    exact ⟨hcwc, arComp_default hcwc (fun _ _ => rfl)⟩
  | .new clauses ty => by
    have hs := ar_coclauses clauses
    refine arCwc_of_comp ?_ ?_
    · intro cty st p st' h
      rw [c_new] at h
      cases hx : compileCoclauses clauses st with
      | error e => simp [hx] at h
      | ok r1 =>
        obtain ⟨cs, st1⟩ := r1
        simp only [hx] at h
        cases ty with
        | none => simp at h
        | some t =>
          simp only [Except.ok.injEq, Prod.mk.injEq] at h
          obtain ⟨rfl, rfl⟩ := h
          obtain ⟨U1, n1, l1, e1, ok1⟩ := hs _ _ _ hx
          refine ⟨U1, n1, ?_, e1, ?_⟩
          · simp only [funSize]; omega
          · ar_ok
    · intro c st
      cases ty with
      | none => exact ⟨.i64, .inr ⟨_, rfl⟩⟩
      | some t => exact ⟨compileTy t, .inl (cwc_new clauses (some t) c st)⟩
  | .goto target t ty => by
    have ht := (ar_term t).1
    have hcwc : ArCwc (.goto target t ty) := by
      intro c st s st' h
      rw [cwc_goto] at h
      cases hg : getType t with
      | none => simp [hg] at h
      | some gty =>
        simp only [hg] at h
        obtain ⟨U1, n1, l1, e1, ok1⟩ := ht _ _ _ _ h
        refine ⟨⟨⟨target, 0⟩, .cns, compileTy gty⟩ :: U1, n1, ?_, e1, ?_⟩
        · simp only [List.length_cons, funSize]; omega
        · ar_ok
    exact ⟨hcwc, arComp_default hcwc (fun _ _ => rfl)⟩
  | .label a t ty => by
    have ht := (ar_term t).1
    refine arCwc_of_comp ?_ ?_
    · intro cty st p st' h
      rw [c_label] at h
      cases ty with
      | none => simp at h
      | some lty =>
        simp only at h
        cases hx : compileWithCont t (.var .cns ⟨a, 0⟩ (compileTy lty)) st with
        | error e => simp [hx] at h
        | ok r1 =>
          obtain ⟨s, st1⟩ := r1
          simp only [hx, Except.ok.injEq, Prod.mk.injEq] at h
          obtain ⟨rfl, rfl⟩ := h
          obtain ⟨U1, n1, l1, e1, ok1⟩ := ht _ _ _ _ hx
          refine ⟨⟨⟨a, 0⟩, .cns, compileTy lty⟩ :: U1, n1, ?_, e1, ?_⟩
          · simp only [List.length_cons, funSize]; omega
          · ar_ok
    · intro c st
      cases ty with
      | none => exact ⟨.i64, .inr ⟨_, rfl⟩⟩
      | some t' => exact ⟨compileTy t', .inl (cwc_label a t (some t') c st)⟩
  | .exit arg ty => by
    have ha := (ar_term arg).2
    have hcwc : ArCwc (.exit arg ty) := by
      intro c st s st' h
      rw [cwc_exit] at h
      cases hx : compile arg .i64 st with
      | error e => simp [hx] at h
      | ok r1 =>
        obtain ⟨a, st1⟩ := r1
        simp only [hx] at h
        cases ty with
        | none => simp at h
        | some t =>
          simp only [Except.ok.injEq, Prod.mk.injEq] at h
          obtain ⟨rfl, rfl⟩ := h
          obtain ⟨U1, n1, l1, e1, ok1⟩ := ha _ _ _ _ hx
          refine ⟨U1, n1, ?_, e1, ?_⟩
          · simp only [funSize]; omega
          · ar_ok
    exact ⟨hcwc, arComp_default hcwc (fun _ _ => rfl)⟩
  | .paren inner => by
    have hi := ar_term inner
    refine ⟨fun c st s st' h => ?_, fun cty st p st' h => ?_⟩
    · rw [cwc_paren] at h
      obtain ⟨U1, n1, l1, e1, ok1⟩ := hi.1 _ _ _ _ h
      exact ⟨U1, n1, by simp only [funSize]; omega, e1, ok1⟩
    · rw [c_paren] at h
      obtain ⟨U1, n1, l1, e1, ok1⟩ := hi.2 _ _ _ _ h
      exact ⟨U1, n1, by simp only [funSize]; omega, e1, ok1⟩
theorem ar_subst : ∀ args : Fun.Terms, ArSubst args
  | .nil => by
    intro st as st' h
    rw [subst_nil] at h
    simp only [Except.ok.injEq, Prod.mk.injEq] at h
    obtain ⟨rfl, rfl⟩ := h
    refine ⟨[], [], by simp, by simp, ?_⟩
    ar_ok
  | .cons term rest => by
    have ht := (ar_term term).2
    have hr := ar_subst rest
    intro st as st' h
    have hpos := funSize_pos term
    rw [subst_cons] at h
    cases hc : covarArg term with
    | some xt =>
      obtain ⟨x, ty⟩ := xt
      simp only [hc] at h
      cases ty with
      | none => simp at h
      | some t =>
        simp only at h
        cases hx : compileSubst rest st with
        | error e => simp [hx] at h
        | ok r1 =>
          obtain ⟨r, st1⟩ := r1
          simp only [hx, Except.ok.injEq, Prod.mk.injEq] at h
          obtain ⟨rfl, rfl⟩ := h
          obtain ⟨U1, n1, l1, e1, ok1⟩ := hr _ _ _ hx
          refine ⟨⟨⟨x, 0⟩, .cns, compileTy t⟩ :: U1, n1, ?_, e1, ?_⟩
          · simp only [List.length_cons, funSizeArgs]; omega
          · ar_ok
    | none =>
      simp only [hc] at h
      cases hg : getType term with
      | none => simp [hg] at h
      | some t =>
        simp only [hg] at h
        cases hx : compile term (compileTy t) st with
        | error e => simp [hx] at h
        | ok r1 =>
          obtain ⟨p, st1⟩ := r1
          simp only [hx] at h
          cases hy : compileSubst rest st1 with
          | error e => simp [hy] at h
          | ok r2 =>
            obtain ⟨r, st2⟩ := r2
            simp only [hy, Except.ok.injEq, Prod.mk.injEq] at h
            obtain ⟨rfl, rfl⟩ := h
            obtain ⟨U1, n1, l1, e1, ok1⟩ := ht _ _ _ _ hx
            obtain ⟨U2, n2, l2, e2, ok2⟩ := hr _ _ _ hy
            refine ⟨U2 ++ U1, n2 ++ n1, ?_, by simp [e2, e1], ?_⟩
            · simp only [List.length_append, funSizeArgs]; omega
            · ar_ok
theorem ar_clauses : ∀ cs : Fun.Clauses, ArClauses cs
  | .nil => by
    intro cont st cs' st' h
    rw [clauses_nil] at h
    simp only [Except.ok.injEq, Prod.mk.injEq] at h
    obtain ⟨rfl, rfl⟩ := h
    refine ⟨[], [], by simp [clausesNames, clausesLen, funSizeClauses], by simp, ?_⟩
    ar_ok
  | .cons pol xtor names ctx body rest => by
    have hb := (ar_term body).1
    have hr := ar_clauses rest
    intro cont st cs' st' h
    rw [clauses_cons] at h
    cases hx : compileWithCont body cont st with
    | error e => simp [hx] at h
    | ok r1 =>
      obtain ⟨b, st1⟩ := r1
      simp only [hx] at h
      cases hy : compileClauses rest cont st1 with
      | error e => simp [hy] at h
      | ok r2 =>
        obtain ⟨r, st2⟩ := r2
        simp only [hy, Except.ok.injEq, Prod.mk.injEq] at h
        obtain ⟨rfl, rfl⟩ := h
        obtain ⟨U1, n1, l1, e1, ok1⟩ := hb _ _ _ _ hx
        obtain ⟨U2, n2, l2, e2, ok2⟩ := hr _ _ _ _ hy
        refine ⟨U2 ++ U1, n2 ++ n1, ?_, by simp [e2, e1], ?_⟩
        · simp only [List.length_append, funSizeClauses, clausesNames, clausesLen]; omega
        · ar_ok
theorem ar_coclauses : ∀ cs : Fun.Clauses, ArCoclauses cs
  | .nil => by
    intro st cs' st' h
    rw [coclauses_nil] at h
    simp only [Except.ok.injEq, Prod.mk.injEq] at h
    obtain ⟨rfl, rfl⟩ := h
    refine ⟨[], [], by simp, by simp, ?_⟩
    ar_ok
  | .cons pol xtor names ctx body rest => by
    have hb := (ar_term body).1
    have hr := ar_coclauses rest
    intro st cs' st' h
    rw [coclauses_cons] at h
    cases hg : getType body with
    | none => simp [hg] at h
    | some t =>
      simp only [hg] at h
      cases hx : compileWithCont body (.var .cns ⟨(freshCovar st).1, 0⟩ (compileTy t))
          (freshCovar st).2 with
      | error e => simp [hx] at h
      | ok r1 =>
        obtain ⟨b, st1⟩ := r1
        simp only [hx] at h
        cases hy : compileCoclauses rest st1 with
        | error e => simp [hy] at h
        | ok r2 =>
          obtain ⟨r, st2⟩ := r2
          simp only [hy, Except.ok.injEq, Prod.mk.injEq] at h
          obtain ⟨rfl, rfl⟩ := h
          obtain ⟨U1, n1, l1, e1, ok1⟩ := hb _ _ _ _ hx
          obtain ⟨U2, n2, l2, e2, ok2⟩ := hr _ _ _ hy
          refine ⟨U2 ++ (⟨⟨(freshCovar st).1, 0⟩, .cns, compileTy t⟩ :: U1), n2 ++ n1, ?_,
            by simp [e2, e1], ?_⟩
          · simp only [List.length_append, List.length_cons, funSizeClauses]; omega
          · ar_ok
end


/-! ## definitions and programs -/

theorem length_le_of_arOK {U occC : List Core.Binding} {ctx : List Core.Binding}
    (hn : ctx.Nodup) (hs : ∀ b ∈ ctx, b ∈ U ∨ b ∈ occC) : ctx.length ≤ U.length + occC.length := by
  have : ctx ⊆ U ++ occC := fun b hb => List.mem_append.2 (hs b hb)
  simpa using List.Nodup.length_le_of_subset hn this

theorem compileDef_arity {d cts l r} (h : compileDef d cts l = .ok r) :
    ∀ d' ∈ r.1, d'.ctx.length ≤ 2 * funDefSize d := by
  unfold compileDef at h
  simp only at h
  split at h
  · simp at h
  · split at h
    · simp at h
    · rename_i body st' hx
      simp only [Except.ok.injEq] at h
      subst h
      obtain ⟨U, new, hl, e, ok⟩ := (ar_term d.body).1 _ _ _ _ hx
      simp only [freshCovar_lifted, List.append_nil] at e
      intro d' hd'
      simp only [List.mem_cons] at hd'
      rcases hd' with rfl | hd'
      · simp [compileContext, funDefSize]; omega
      · rw [e] at hd'
        have := length_le_of_arOK (ok.2 d' hd').1 (ok.2 d' hd').2
        simp only [occTerm, List.length_singleton, funDefSize] at *
        omega

theorem compileMain_arity {d cts l r} (h : compileMain d cts l = .ok r) :
    ∀ d' ∈ r.1, d'.ctx.length ≤ 2 * funDefSize d := by
  unfold compileMain at h
  simp only at h
  split at h
  · simp at h
  · split at h
    · simp at h
    · rename_i body st' hx
      simp only [Except.ok.injEq] at h
      subst h
      obtain ⟨U, new, hl, e, ok⟩ := (ar_term d.body).1 _ _ _ _ hx
      simp only [freshVar_lifted, List.append_nil] at e
      intro d' hd'
      simp only [List.mem_cons] at hd'
      rcases hd' with rfl | hd'
      · simp [compileContext, funDefSize]; omega
      · rw [e] at hd'
        have := length_le_of_arOK (ok.2 d' hd').1 (ok.2 d' hd').2
        simp only [occTerm, occStmt, List.length_singleton, funDefSize] at *
        omega

theorem compileDefs_arity (cts : List Core.TypeDecl) :
    ∀ (rest : List Fun.Def) (l : List String) (acc out : List Core.Def),
      compileDefs cts rest l acc = .ok out →
      ∀ d ∈ out, d ∈ acc ∨ d.ctx.length ≤ 2 * funDefsSize rest
  | [], l, acc, out, h => by
    simp only [compileDefs, Except.ok.injEq] at h
    subst h; exact fun d hd => .inl hd
  | d :: rest, l, acc, out, h => by
    unfold compileDefs at h
    split at h
    · cases hm : compileMain d cts l with
      | error e => simp [hm] at h
      | ok r =>
        simp only [hm] at h
        intro d' hd'
        rcases compileDefs_arity cts rest _ _ out h d' hd' with h1 | h1
        · rcases List.mem_append.1 h1 with h2 | h2
          · have := compileMain_arity hm d' h2
            exact .inr (by simp only [funDefsSize]; omega)
          · exact .inl h2
        · exact .inr (by simp only [funDefsSize]; omega)
    · cases hm : compileDef d cts l with
      | error e => simp [hm] at h
      | ok r =>
        simp only [hm] at h
        intro d' hd'
        rcases compileDefs_arity cts rest _ _ out h d' hd' with h1 | h1
        · rcases List.mem_append.1 h1 with h2 | h2
          · exact .inl h2
          · have := compileDef_arity hm d' h2
            exact .inr (by simp only [funDefsSize]; omega)
        · exact .inr (by simp only [funDefsSize]; omega)

/-- every definition of the translated program (user or lifted) has at most `2 * |S1|` parameters -/
theorem compileProg_arity {p : Fun.CheckedProgram} {q : Core.Prog} (h : compileProg p = .ok q) :
    ∀ d ∈ q.defs, d.ctx.length ≤ 2 * funProgSize p := by
  unfold compileProg at h
  simp only at h
  split at h
  · simp at h
  · rename_i defs hd
    simp only [Except.ok.injEq] at h
    subst h
    intro d hd'
    rcases compileDefs_arity _ _ _ _ _ hd d hd' with h1 | h1
    · simp at h1
    · exact h1

/-- unconditional size bound: `|S2| ≤ 3 * n * (2 * n + 4)` with `n = |S1|` -/
theorem compileProg_size_uncond {p : Fun.CheckedProgram} {q : Core.Prog}
    (h : compileProg p = .ok q) :
    progSize q ≤ funProgSize p * W (2 * funProgSize p) :=
  compileProg_size _ h (compileProg_arity h)

end Scc.Fun2Core
