/-
  Scc.Fun2Core.SemSim10 — simulation of `case`.
-/
import Scc.Fun2Core.SemSim9

namespace Scc.Fun2Core.Sem
open Scc

variable {q : Core.Prog} {p : Fun.CheckedProgram}

theorem clausesNames_binder : ∀ (cs : Fun.Clauses) (y : String), y ∈ clausesNames cs →
    y ∈ binderNamesClauses cs
  | .nil, y, h => by simp [clausesNames] at h
  | .cons pol xtor names ctx body rest, y, h => by
    simp only [clausesNames, List.mem_append] at h
    simp only [binderNamesClauses, List.mem_append]
    rcases h with h | h
    · exact .inl (.inl h)
    · exact .inr (clausesNames_binder rest y h)

/-- `scrut.case { clauses }` -/
theorem eval_case (X : Ctx p q) {scrut : Fun.Term} {ta : Fun.Tys} {cs : Fun.Clauses}
    {cty : Option Fun.Ty} {env : Fun.Env} {k : Fun.Stack} {c : Core.Term} {s : Core.Stmt}
    {ρ0 ρ : CEnv} {out : Out} {n : Nat} (hg : good p (.case scrut ta cs cty) = true)
    (hc : Compiled q n (.case scrut ta cs cty) c s)
    (he : EnvRel (GP p) p q n (fv (.case scrut ta cs cty)) env ρ0) (hr : CRel (GP p) p q n k c ρ0)
    (hbd : BoundOn (tfvStmt s []) ρ0) (hag : AgreeOn (tfvStmt s []) ρ0 ρ)
    (hT : STM p (.eval (.case scrut ta cs cty) env k)) :
    Chunk p q (R p q) true true (funSize (.case scrut ta cs cty)) (.eval (.case scrut ta cs cty) env k) ⟨s, ρ, out, n⟩ := by
  simp only [good, Bool.and_eq_true] at hg
  obtain ⟨⟨⟨hgs, hncs⟩, hgc⟩, hnct⟩ := hg
  obtain ⟨t0, hcty⟩ := annO_some hnct
  have hkind : Core.isCodata q.codataTypes (compileTy t0) = kkind k := by
    obtain ⟨τ2, h1, h2⟩ := X.kind hT
    simp only [getType] at h1
    rw [hcty] at h1; cases h1
    exact h2
  -- the scrutinee has a data type
  have hscr : ∃ τ, getType scrut = some τ ∧ Core.isCodata q.codataTypes (compileTy τ) = false := by
    cases hT with
    | eval Γ τ0 he0 ht hk =>
      simp only [Typed.TypedM] at ht
      obtain ⟨_, _, σ, d, hsc, hd, _⟩ := ht
      exact ⟨σ, Typed.getType_of_typed p _ _ _ hsc, by rw [X.cod σ]; exact isCodataTy_of_dataDecl X.progM hd⟩
  obtain ⟨st, st', hcwc, hst, htn, hcn⟩ := hc
  rw [cwc_case] at hcwc
  have f1 : FSteps p (.eval (.case scrut ta cs cty) env k)
      (.eval scrut env (.caseF cs env :: k)) [] 1 := .one rfl
  refine Chunk.prefix f1 (.refl _) rfl (fun _ => Nat.le_refl _) (fun h => .inr h) ?_
  have hnames : ∀ y ∈ clausesNames cs, y ∈ binderNamesClauses cs :=
    fun y hy => clausesNames_binder cs y hy
  refine guard_sim X (fv (.case scrut ta cs cty)) hcwc hcty hkind htn.nosig
    (fun y hy => htn.bd y (by simp [binderNames, hnames y hy]))
    htn.fv hcn he hr hbd hag ?_
  intro n c' st1 s' ρ0' ρ' _ hcore hfs hcn' hyg he' hr' hbd' hag'
  unfold caseCore at hcore
  have hfr : FS st1 (if (decide (clausesLen cs ≤ 1) || isLeaf c') = true then (c', st1)
      else share c' st1).2 := stepRel_shareIf fs_stepRel _ c' st1
  generalize hrdef : (if (decide (clausesLen cs ≤ 1) || isLeaf c') = true then (c', st1)
      else share c' st1) = r at hcore hfr
  cases hcc : compileClauses cs r.1 r.2 with
  | error e => simp [hcc] at hcore
  | ok rc =>
    obtain ⟨cs', st2⟩ := rc
    simp only [hcc] at hcore
    obtain ⟨τ, hty, hncτ⟩ := hscr
    have htriv : True := trivial
    cases htriv with
    | intro =>
      simp only [hty] at hcore
      have fc : FS r.2 st2 := (rel_clauses fs_stepRel cs) r.1 r.2 cs' st2 hcc
      have fs2 := fs_cwc hcore
      have hst2 := hst.of_fresh fs2.1
      have hstr := hst2.of_fresh fc.1
      have f0r : FS st r.2 := fs_stepRel.trans hfs hfr
      have f02 : FS st st2 := fs_stepRel.trans f0r fc
      obtain ⟨hr1, hcn1⟩ : CRel (GP p) p q n k r.1 ρ0' ∧ ConsNames r.1 r.2 n := by
        rw [← hrdef]
        exact shareIf_rel _ hr' hcn' (by rw [hrdef]; exact hstr.1)
      have hyg1 : ∀ b ∈ tfvTerm r.1 [], b.var.name ∉ clausesNames cs := by
        intro b hb
        rw [← hrdef] at hb
        by_cases hcond : (decide (clausesLen cs ≤ 1) || isLeaf c') = true
        · rw [if_pos hcond] at hb
          exact hyg b hb
        · rw [if_neg hcond] at hb
          exact hyg b (tfv_share_subset c' st1 hr'.consOK b hb)
      have cnames : ClausesNames cs r.2 :=
        ⟨fun y hy => f0r.sub y (htn.fv y (by simp [fv, hy])),
          fun y hy => f0r.sub y (htn.bd y (by simp [binderNames, hy])), f0r.2 htn.nosig⟩
      have tns : TermNames scrut st2 := htn.of_sub (fun y hy => by simp [fv, hy])
        (fun y hy => by simp [binderNames, hy]) f02
      obtain ⟨ρp, hep, hrp, hbdp, hagp, hbdK⟩ :=
        ideal_pad (tfvClauses cs' []) he' hr1 hbd' hag'
      have hK : KRel (GP p) p q n (.caseF cs env :: k) (.case ρp cs') := by
        refine KRel.caseF (ρ0 := ρp) (fun K cl hf => goodClauses_find p cs hgc K cl hf)
          ⟨r.2, st2, hcc, hst2, cnames, hcn1⟩ (hep.sub fun y hy => by simp [fv, hy]) hrp ?_ hbdK
          (.refl _ _)
        intro b hb _
        exact hyg1 b hb
      refine .inr ⟨0, _, _, [], 0, _, .refl _, .inl ⟨rfl, rfl⟩, (fun h => by cases h), (fun _ => .inr (by simp only [msize, funSize]; omega)), .refl _,
        by simp, ?_⟩
      exact SRel.eval (ρ0 := ρp) hgs
        ⟨st2, st', hcore, hst, tns, consNames_xcase hcc cnames hcn1 _⟩
        (hep.sub fun y hy => by simp [fv, hy])
        (.mk (cv := .case ρp cs') rfl hK trivial (by simpa [tfvTerm] using hbdK) hncτ) hbdp hagp

end Scc.Fun2Core.Sem
