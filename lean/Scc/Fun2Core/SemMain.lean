/-
  Scc.Fun2Core.SemMain — the forward half of the semantic part of C02 for the fragment: every
  finished run of the Fun machine on a program is matched by a run of the Core ς-machine on its
  translation with the same trace and result, and every Fun trace is a prefix of a Core trace.
-/
import Scc.Fun2Core.SemProg
import Scc.Fun2Core.SemBack

namespace Scc.Fun2Core.Sem
open Scc

/-- on a context of producers only, the entry environment binds the arguments positionally -/
theorem entryEnv_eq_bind : ∀ (ctx : Core.Ctx) (args : List (BitVec 64)),
    (∀ b ∈ ctx, b.chi = .prd) →
    (Core.entryEnv ctx args : Except Core.Why CEnv) = Core.Env.bind [] ctx (args.map .int)
  | [], [], _ => rfl
  | [], _ :: _, _ => rfl
  | b :: bs, [], h => by
    have hb : b.chi = .prd := h b (by simp)
    simp [Core.entryEnv, hb, Core.Env.bind]
  | b :: bs, a :: as, h => by
    have hb : b.chi = .prd := h b (by simp)
    simp only [Core.entryEnv, hb, List.map_cons, Core.Env.bind]
    rw [entryEnv_eq_bind bs as (fun b' hb' => h b' (by simp [hb']))]

theorem vrelL_ints {G : Fun.Term → Prop} {q : Core.Prog} (n : Nat) : ∀ (args : List (BitVec 64)),
    VRelL G p q n (args.map .int) (args.map .int)
  | [] => .nil _
  | a :: as => .cons (.int _ a) (vrelL_ints n as)

theorem tfv_main_cont (x : Core.Ident) (τ : Core.Ty) :
    tfvTerm (.mu .cns x τ (.exit (.var .prd x τ) τ)) [] = [] := by
  simp [tfvTerm, tfvStmt, bsetInsert, bsetRemove, bsetExtend, cmpBinding_refl]

/-- the two runs start in related states (or the Fun run is stuck at once: no `main`, wrong number
of arguments) -/

theorem sem_init {p : Fun.CheckedProgram} {q : Core.Prog} (hc : compileProg p = .ok q)
    (hp : progOk p = true) (hq : coreClosed q = true) (hpm : Typed.ProgM p)
    (args : List (BitVec 64)) :
    (∀ n, (Fun.run p args n).out = [] ∧ ¬ Finished (Fun.run p args n).res ∧
      (Fun.run p args n).res ≠ .outOfFuel) ∨
    ∃ s S, (∀ n, Fun.run p args n = Fun.runFrom p n s []) ∧
      (∀ m, Core.run q args m = Core.stepN q m S) ∧ S.out = [] ∧ RT p q s S := by
  have X := ctx_of_compileProg hc hp hq hpm
  obtain ⟨hdefsok, hnd, hmainprd⟩ := progOk_facts hp
  obtain ⟨hqc, hdefs⟩ := compileProg_defs hc
  unfold Fun.run Fun.initState
  cases hf : Fun.findDef p "main" with
  | none => exact .inl fun n => ⟨rfl, fun h => h.elim, fun h => by cases h⟩
  | some d =>
    simp only
    cases hb : Fun.bindAll (d.ctx.map (·.var)) (args.map .int) [] with
    | none => exact .inl fun n => ⟨rfl, fun h => h.elim, fun h => by cases h⟩
    | some env =>
      simp only
      obtain ⟨hdm, hname⟩ := findDef_mem hf
      obtain ⟨ul0, r, hr, hrm⟩ := (compileDefs_mem q.codataTypes p.defs _ [] q.defs hdefs).2 d hdm
      have hnm : (d.name == "main") = true := by simp [hname]
      simp only [hnm, if_true] at hr
      obtain ⟨D, x0, τ, hD, hDn, hDc, hcomp, hτ⟩ := compileMain_facts X.cod hr (hdefsok d hdm) rfl hrm
      obtain ⟨hgood, hnodup, hclosed, _, _⟩ := defOk_facts (hdefsok d hdm)
      -- the Core machine finds the same definition
      have hid0 := compileDefs_id0 q.codataTypes p.defs _ [] q.defs hdefs (by simp)
      have hfind : q.defs.find? (fun d => d.name.name = Core.mainName) = some D := by
        refine find_unique hD (by simp [hDn, hname, Core.mainName]) fun D' hD' hP => ?_
        refine (eq_of_name_eq X.nodup hD hD' ?_).symm
        have h1 : D'.name.name = "main" := by
          have := of_decide_eq_true hP
          simpa [Core.mainName] using this
        have h2 := hid0 D' hD'
        rw [hDn, hname]
        cases hn' : D'.name with
        | mk nm id => rw [hn'] at h1 h2; simp at h1 h2; rw [h1, h2]
      -- its entry environment
      obtain ⟨ρ, hbind, henv⟩ := EnvRel.bindAll (G := GP p) (q := q) (n := 0) (xs := fv d.body)
        (env := []) (env' := env) (ρ0 := []) (ctx := d.ctx) (vs := args.map .int) (Vs := args.map .int)
        (.of_get fun y hy => by
          obtain ⟨h1, h2⟩ := List.mem_filter.1 hy
          have h2' : y ∉ List.map (fun x => x.var) d.ctx := by simpa using h2
          exact absurd (hclosed y h1) h2')
        (vrelL_ints 0 args) hnodup hb
      have hentry : (Core.entryEnv D.ctx args : Except Core.Why CEnv) = .ok ρ := by
        rw [hDc, entryEnv_eq_bind _ _ (fun b hb' => by
          simp only [compileContext, List.mem_map] at hb'
          obtain ⟨fb, hfb, rfl⟩ := hb'
          simp [compileChi, hmainprd d hdm hname fb hfb])]
        exact hbind
      unfold Core.run
      simp only [hfind, hentry]
      -- the initial states are related
      have hbd : BoundOn (tfvStmt D.body []) ρ := by
        refine bind_bound hbind fun y hy hne => ?_
        obtain ⟨b', hb', e⟩ := X.closed D hD y hy
        rw [hDc] at hb'
        exact absurd e (hne b' hb')
      -- the initial state is typed
      have hT : STM p (.eval d.body env []) := by
        obtain ⟨htys, hret⟩ := progOk_mainTys hp d hdm hname
        have hsig : ∀ b ∈ d.ctx, b.chi = .prd ∧ b.ty = .i64 := fun b hb =>
          ⟨hmainprd d hdm hname b hb, htys b hb⟩
        have hlen : args.length = d.ctx.length := by
          have := bindAll_length _ _ _ _ hb
          simpa using this.symm
        obtain ⟨s0, hs0, hT0⟩ := initStateM_typed hpm hf hsig hret args hlen
        simp only [Fun.initState, hf, hb, Except.ok.injEq] at hs0
        subst hs0
        exact hT0
      have hτ' : Core.isCodata q.codataTypes τ = false := by
        obtain ⟨τb, h1, rfl⟩ := hτ
        obtain ⟨τ2, h2, h3⟩ := X.kind hT
        rw [h1] at h2; cases h2
        exact h3
      have hR : R p q (.eval d.body env []) ⟨D.body, ρ, [], 0⟩ :=
        SRel.eval (ρ0 := ρ) hgood hcomp henv
          (.mk (cv := .mutilde ρ ⟨x0, 0⟩ (.exit (.var .prd ⟨x0, 0⟩ τ) τ)) rfl .main trivial
            (by rw [tfv_main_cont]; intro b hb; simp at hb) hτ')
          hbd (.refl _ _)
      exact .inr ⟨_, _, fun n => rfl, fun m => rfl, rfl, hR, hT⟩

/-- the forward half for the two machines' own behaviour types -/
theorem sem_forward {p : Fun.CheckedProgram} {q : Core.Prog} (hc : compileProg p = .ok q)
    (hp : progOk p = true) (hq : coreClosed q = true) (hpm : Typed.ProgM p)
    (args : List (BitVec 64)) :
    (∀ n, Finished (Fun.run p args n).res →
      ∃ m r', Core.run q args m = ⟨(Fun.run p args n).out, r'⟩ ∧ ResMatch (Fun.run p args n).res r') ∧
    (∀ n, ∃ m, (Fun.run p args n).out <+: (Core.run q args m).out) := by
  rcases sem_init hc hp hq hpm args with h | ⟨s, S, h1, h2, h3, hR⟩
  · exact ⟨fun n hf => absurd hf (h n).2.1, fun n => ⟨0, by rw [(h n).1]; exact List.nil_prefix⟩⟩
  · have X := ctx_of_compileProg hc hp hq hpm
    have hfw := fun n => chunkSim_forward (eval_sim X) n s S [] hR (by rw [h3]; rfl)
    refine ⟨fun n => ?_, fun n => ?_⟩
    · rw [h1 n]
      intro hf
      obtain ⟨m, r', hm, hr⟩ := (hfw n).1 hf
      exact ⟨m, r', by rw [h2 m]; exact hm, hr⟩
    · rw [h1 n]
      obtain ⟨m, hm⟩ := (hfw n).2
      exact ⟨m, by rw [h2 m]; exact hm⟩

/-- the Fun run never gets stuck for a reason other than an arithmetic fault -/
def FunSafe (p : Fun.CheckedProgram) (args : List (BitVec 64)) : Prop :=
  ∀ n, (Fun.run p args n).res = .outOfFuel ∨ Finished (Fun.run p args n).res

/-- the backward half, for runs of the Fun machine that do not get stuck for a reason other than an
arithmetic fault -/
theorem sem_backward {p : Fun.CheckedProgram} {q : Core.Prog} (hc : compileProg p = .ok q)
    (hp : progOk p = true) (hq : coreClosed q = true) (hpm : Typed.ProgM p)
    (args : List (BitVec 64)) (hsafe : FunSafe p args) :
    (∀ m, (Core.run q args m).res ≠ .outOfFuel →
      ∃ n r, Fun.run p args n = ⟨(Core.run q args m).out, r⟩ ∧ ResMatch r (Core.run q args m).res) ∧
    (∀ m, ∃ n, (Core.run q args m).out <+: (Fun.run p args n).out) := by
  rcases sem_init hc hp hq hpm args with h | ⟨s, S, h1, h2, h3, hR⟩
  · rcases hsafe 0 with h0 | h0
    · exact absurd h0 (h 0).2.2
    · exact absurd h0 (h 0).2.1
  · have X := ctx_of_compileProg hc hp hq hpm
    have hs : Safe p s [] := fun n => by rw [← h1 n]; exact hsafe n
    have hbw := fun m => chunkSim_backward (eval_sim X) m _ s S [] rfl hR (by rw [h3]; rfl) hs
    refine ⟨fun m => ?_, fun m => ?_⟩
    · rw [h2 m]
      intro hf
      obtain ⟨n, r, hn, hr⟩ := (hbw m).1 hf
      exact ⟨n, r, by rw [h1 n]; exact hn, hr⟩
    · rw [h2 m]
      obtain ⟨n, hn⟩ := (hbw m).2
      exact ⟨n, by rw [h1 n]; exact hn⟩

end Scc.Fun2Core.Sem
