/-
  Scc.Fun2Core.TypedTerm — proof file (C12, link fun2core): THE TRANSLATION OF TERMS PRESERVES TYPING.

  For every annotated Fun term `t` with `TypedM p t Γ τ` that does not call `main`, every Core context `Δ`
  related to `Γ` (`CtxRel`) whose names are in the used-names set, and every consumer `c` that checks at
  `compileTy τ` in `Δ`:  if `compile_with_cont t c st = ok (s, st')` then `s` passes the executable Core
  checker in `Δ` (`Stmt.check P Δ s = true`), and every definition lifted by `share` on the way checks in
  its own context — w.r.t. every Core program `P` that has the translated type declarations, maps the
  user definitions to their translated signatures (`Env p P`) and the generated labels to the lifted
  definitions (`SigLifted P st'`).  Likewise `compile t` yields a producer of type `compileTy τ`.

  All term forms: integer terms (var/lit/op/ifc/ifz/print/exit/paren), let (both the codata branch and
  the plain one, with the capture guard), call (consumer pushed as last argument), data (ctor/case with
  `share`d continuations and the guard), codata (dtor/new), label/goto (covariables).
  Besides `check`, the bundles `TOK` / `SOK` / `AOK` / `COK` carry "all identifiers have id 0 and a good
  name" and `strict` (cut / μ types declared, clauses in declaration order: Scc/Core/TypedStrict.lean).
  The statement and its fragments are re-stated in Props/C12Fun2Core.lean (`fun2core_typed_term`,
  `fun2core_typed_int`, …).
-/
import Scc.Fun2Core.TypedAux

namespace Scc.Fun2Core.Typed
open Scc Scc.Core Scc.Fun2Core
open Scc.Fun.Typing (lookupCtx bindNames clauseXtors)

/-- sub-term binders are binders of the term -/
macro "bsub" : tactic => `(tactic| (
  intro y hy
  simp [binderNames, binderNamesArgs, binderNamesClauses, hy]))

/-! ## small facts about the state -/

theorem freshCovar_mem (st : CompileState) : (freshCovar st).1 ∈ (freshCovar st).2.usedVars := by
  simp [freshCovar, freshName]

theorem freshCovar_not_mem (st : CompileState) : (freshCovar st).1 ∉ st.usedVars :=
  freshName_not_mem _ _

theorem shareIf_fresh (b : Bool) (c : Term) (st : CompileState) :
    Fresh st (if b = true then (c, st) else share c st).2 := stepRel_shareIf fresh_stepRel b c st

/-- `share` (or not, for a leaf) keeps the consumer typed; the lifted definition is typed -/
theorem shareIf_typed {P : Prog} {G : String → Prop} {Δ : Ctx} {c : Term} {ty : Ty}
    {st : CompileState} (b : Bool) (hg : FreshGood G) (hc : TOK P G Δ .cns ty c)
    (hty : tyDeclared P ty = true) (hnm : NamesIn G Δ st) :
    SigLifted P (if b = true then (c, st) else share c st).2 → LiftedOk P G st →
    TOK P G Δ .cns ty (if b = true then (c, st) else share c st).1 ∧
      LiftedOk P G (if b = true then (c, st) else share c st).2 := by
  cases b
  · simp only [Bool.false_eq_true, if_false]
    intro hsig hok
    obtain ⟨h1, D, e, hD⟩ := share_check hc.1 (fun b hb => (hnm b hb).1) hsig
    obtain ⟨i1, i2⟩ := share_ids (st := st) hc.2.1 (hg.freshVar st)
    obtain ⟨j1, j2⟩ := share_strict (st := st) hc.2.2 (by rw [coreGetType_of_check hc.1]; exact hty)
    refine ⟨⟨h1, i1, j1⟩, ?_⟩
    intro D' hD'
    rw [e] at hD'
    rcases List.mem_cons.1 hD' with rfl | hD'
    · exact ⟨hD, (i2 _ e).1, (i2 _ e).2, j2 _ e⟩
    · exact hok D' hD'
  · simp only [if_true]
    exact fun _ hok => ⟨hc, hok⟩

theorem not_mu_prd_of_check {P : Prog} {Δ : Ctx} {c : Term} {ty : Ty}
    (hc : c.check P Δ .cns ty = true) : ∀ v ty' s, c ≠ .mu .prd v ty' s := by
  intro v ty' s e
  subst e
  have := (check_mu_iff.1 hc).1
  cases this

theorem shareIf_tfv {P : Prog} {Δ : Ctx} {c : Term} {ty : Ty} {st : CompileState} (b : Bool)
    (hc : c.check P Δ .cns ty = true) :
    ∀ y ∈ tfvTerm (if b = true then (c, st) else share c st).1 [], y ∈ tfvTerm c [] := by
  cases b
  · simp only [Bool.false_eq_true, if_false]
    exact tfv_share_subset c st (not_mu_prd_of_check hc)
  · simp only [if_true]
    exact fun y hy => hy

/-! ## clause heads -/

theorem clauses_has : ∀ (cs : Fun.Clauses) (c : Term) (st : CompileState) (cs' : Clauses)
    (st' : CompileState), compileClauses cs c st = .ok (cs', st') →
    ∀ k, k ∈ clauseXtors cs → cs'.has ⟨k, 0⟩ = true
  | .nil, _, _, _, _, _, k, hk => by simp [clauseXtors, Fun.Clauses.toList] at hk
  | .cons pol x ns ctx body rest, c, st, cs', st', h, k, hk => by
    rw [clauses_cons] at h
    cases hx : compileWithCont body c st with
    | error e => simp [hx] at h
    | ok r1 =>
      obtain ⟨b, st1⟩ := r1
      simp only [hx] at h
      cases hy : compileClauses rest c st1 with
      | error e => simp [hy] at h
      | ok r2 =>
        obtain ⟨r, st2⟩ := r2
        simp only [hy, Except.ok.injEq, Prod.mk.injEq] at h
        obtain ⟨rfl, rfl⟩ := h
        simp only [clauseXtors, Fun.Clauses.toList, List.map_cons, List.mem_cons] at hk
        simp only [Clauses.has, Bool.or_eq_true]
        rcases hk with rfl | hk
        · exact .inl (Ident.beq_iff.2 rfl)
        · exact .inr (clauses_has rest c st1 r st2 hy k (by simpa [clauseXtors] using hk))

theorem coclauses_has : ∀ (cs : Fun.Clauses) (st : CompileState) (cs' : Clauses)
    (st' : CompileState), compileCoclauses cs st = .ok (cs', st') →
    ∀ k, k ∈ clauseXtors cs → cs'.has ⟨k, 0⟩ = true
  | .nil, _, _, _, _, k, hk => by simp [clauseXtors, Fun.Clauses.toList] at hk
  | .cons pol x ns ctx body rest, st, cs', st', h, k, hk => by
    rw [coclauses_cons] at h
    cases hg : getType body with
    | none => simp [hg] at h
    | some t =>
      simp only [hg] at h
      cases hx : compileWithCont body (.var .cns ⟨(freshCovar st).1, 0⟩ (compileTy t))
          (freshCovar st).2 with
      | error e => simp [hx] at h
      | ok r1 =>
        obtain ⟨b, st1⟩ := r1
        simp only [hx] at h
        cases hy : compileCoclauses rest st1 with
        | error e => simp [hy] at h
        | ok r2 =>
          obtain ⟨r, st2⟩ := r2
          simp only [hy, Except.ok.injEq, Prod.mk.injEq] at h
          obtain ⟨rfl, rfl⟩ := h
          simp only [clauseXtors, Fun.Clauses.toList, List.map_cons, List.mem_cons] at hk
          simp only [Clauses.has, Bool.or_eq_true]
          rcases hk with rfl | hk
          · exact .inl (Ident.beq_iff.2 rfl)
          · exact .inr (coclauses_has rest st1 r st2 hy k (by simpa [clauseXtors] using hk))

theorem clauses_tags : ∀ (cs : Fun.Clauses) (c : Term) (st : CompileState) (cs' : Clauses)
    (st' : CompileState), compileClauses cs c st = .ok (cs', st') →
    cs'.tags = (clauseXtors cs).map fun k => (⟨k, 0⟩ : Ident)
  | .nil, _, _, _, _, h => by
    rw [clauses_nil] at h
    simp only [Except.ok.injEq, Prod.mk.injEq] at h
    obtain ⟨rfl, rfl⟩ := h
    simp [Clauses.tags, clauseXtors, Fun.Clauses.toList]
  | .cons pol x ns ctx body rest, c, st, cs', st', h => by
    rw [clauses_cons] at h
    cases hx : compileWithCont body c st with
    | error e => simp [hx] at h
    | ok r1 =>
      obtain ⟨b, st1⟩ := r1
      simp only [hx] at h
      cases hy : compileClauses rest c st1 with
      | error e => simp [hy] at h
      | ok r2 =>
        obtain ⟨r, st2⟩ := r2
        simp only [hy, Except.ok.injEq, Prod.mk.injEq] at h
        obtain ⟨rfl, rfl⟩ := h
        have := clauses_tags rest c st1 r st2 hy
        simp only [clauseXtors] at this
        simp [Clauses.tags, clauseXtors, Fun.Clauses.toList, this]

theorem coclauses_tags : ∀ (cs : Fun.Clauses) (st : CompileState) (cs' : Clauses)
    (st' : CompileState), compileCoclauses cs st = .ok (cs', st') →
    cs'.tags = (clauseXtors cs).map fun k => (⟨k, 0⟩ : Ident)
  | .nil, _, _, _, h => by
    rw [coclauses_nil] at h
    simp only [Except.ok.injEq, Prod.mk.injEq] at h
    obtain ⟨rfl, rfl⟩ := h
    simp [Clauses.tags, clauseXtors, Fun.Clauses.toList]
  | .cons pol x ns ctx body rest, st, cs', st', h => by
    rw [coclauses_cons] at h
    cases hg : getType body with
    | none => simp [hg] at h
    | some t =>
      simp only [hg] at h
      cases hx : compileWithCont body (.var .cns ⟨(freshCovar st).1, 0⟩ (compileTy t))
          (freshCovar st).2 with
      | error e => simp [hx] at h
      | ok r1 =>
        obtain ⟨b, st1⟩ := r1
        simp only [hx] at h
        cases hy : compileCoclauses rest st1 with
        | error e => simp [hy] at h
        | ok r2 =>
          obtain ⟨r, st2⟩ := r2
          simp only [hy, Except.ok.injEq, Prod.mk.injEq] at h
          obtain ⟨rfl, rfl⟩ := h
          have := coclauses_tags rest st1 r st2 hy
          simp only [clauseXtors] at this
          simp [Clauses.tags, clauseXtors, Fun.Clauses.toList, this]

theorem covers_of_has {α : Type} (cl : Clauses) (f : α → XtorSig) (nm : α → String)
    (hf : ∀ a, (f a).name = ⟨nm a, 0⟩) : ∀ (l : List α),
    (∀ a ∈ l, cl.has ⟨nm a, 0⟩ = true) → cl.covers (l.map f) = true
  | [], _ => by cases cl <;> simp [Clauses.covers]
  | a :: r, h => by
    have h1 : cl.has (f a).name = true := by rw [hf]; exact h a (by simp)
    have h2 := covers_of_has cl f nm hf r (fun b hb => h b (by simp [hb]))
    cases cl <;> simp [Clauses.covers, h1, h2]

/-! ## the induction predicates -/

section
variable (p : Fun.CheckedProgram) (P : Prog) (G : String → Prop)

def TCwc (t : Fun.Term) : Prop :=
  ∀ (Γ : Fun.Ctx) (τ : Fun.Ty) (Δ : Ctx) (c : Term) (st : CompileState) (s : Stmt)
    (st' : CompileState), TypedM p t Γ τ → t.callsMain = false → CtxRel Γ Δ → NamesIn G Δ st →
    BIn G (binderNames t) st → TOK P G Δ .cns (compileTy τ) c →
    compileWithCont t c st = .ok (s, st') → SigLifted P st' → LiftedOk P G st →
    SOK P G Δ s ∧ LiftedOk P G st'

def TComp (t : Fun.Term) : Prop :=
  ∀ (Γ : Fun.Ctx) (τ : Fun.Ty) (Δ : Ctx) (st : CompileState) (q : Term)
    (st' : CompileState), TypedM p t Γ τ → t.callsMain = false → CtxRel Γ Δ → NamesIn G Δ st →
    BIn G (binderNames t) st →
    compile t (compileTy τ) st = .ok (q, st') → SigLifted P st' → LiftedOk P G st →
    TOK P G Δ .prd (compileTy τ) q ∧ LiftedOk P G st'

def TSubst (args : Fun.Terms) : Prop :=
  ∀ (Γ : Fun.Ctx) (bs : Fun.Ctx) (Δ : Ctx) (st : CompileState) (as : Args)
    (st' : CompileState), ArgsM p args Γ bs → args.callsMain = false → CtxRel Γ Δ →
    NamesIn G Δ st → BIn G (binderNamesArgs args) st →
    compileSubst args st = .ok (as, st') → SigLifted P st' → LiftedOk P G st →
    AOK P G Δ (compileContext bs) as ∧ LiftedOk P G st'

def TClauses (cs : Fun.Clauses) : Prop :=
  ∀ (Γ : Fun.Ctx) (sigs : List Fun.CtorSig) (τ : Fun.Ty) (Δ : Ctx) (c : Term) (st : CompileState)
    (cs' : Clauses) (st' : CompileState), ClausesM p cs Γ sigs τ → cs.callsMain = false →
    CtxRel Γ Δ → NamesIn G Δ st → BIn G (binderNamesClauses cs) st →
    TOK P G Δ .cns (compileTy τ) c → (∀ b ∈ tfvTerm c [], b.var.name ∉ clausesNames cs) →
    compileClauses cs c st = .ok (cs', st') → SigLifted P st' → LiftedOk P G st →
    COK P G Δ (sigs.map compileCtor) cs' ∧ LiftedOk P G st'

def TCoclauses (cs : Fun.Clauses) : Prop :=
  ∀ (Γ : Fun.Ctx) (sigs : List Fun.DtorSig) (Δ : Ctx) (st : CompileState)
    (cs' : Clauses) (st' : CompileState), CoclausesM p cs Γ sigs → cs.callsMain = false →
    CtxRel Γ Δ → NamesIn G Δ st → BIn G (binderNamesClauses cs) st →
    compileCoclauses cs st = .ok (cs', st') → SigLifted P st' → LiftedOk P G st →
    COK P G Δ (sigs.map compileDtor) cs' ∧ LiftedOk P G st'

end

variable {p : Fun.CheckedProgram} {P : Prog} {G : String → Prop}

/-- `compile` = `μa.⟦t⟧_a` with a fresh `a` -/
theorem tcomp_default (env : Env p P) (hg : FreshGood G) {t : Fun.Term} (h : TCwc p P G t)
    (hd : ∀ ty st, compile t ty st = defaultCompile (compileWithCont t) ty st) : TComp p P G t := by
  intro Γ τ Δ st q st' ht hm hrel hnm hb hc hsig hok
  rw [hd, defaultCompile_eq] at hc
  cases hx : compileWithCont t (.var .cns ⟨(freshCovar st).1, 0⟩ (compileTy τ)) (freshCovar st).2 with
  | error e => simp [hx] at hc
  | ok r =>
    obtain ⟨s, st1⟩ := r
    simp only [hx, Except.ok.injEq, Prod.mk.injEq] at hc
    obtain ⟨rfl, rfl⟩ := hc
    have hf0 := fresh_freshCovar st
    have hga := hg.freshCovar st
    have hrel' : CtxRel Γ (⟨⟨(freshCovar st).1, 0⟩, .cns, compileTy τ⟩ :: Δ) :=
      hrel.cons_fresh _ (hnm.fresh (freshCovar_not_mem st))
    have hnm' : NamesIn G (⟨⟨(freshCovar st).1, 0⟩, .cns, compileTy τ⟩ :: Δ) (freshCovar st).2 :=
      (hnm.mono hf0).cons (freshCovar_mem st) hga
    obtain ⟨h1, h2⟩ := h Γ τ _ _ _ _ _ ht hm hrel' hnm' (hb.mono hf0) (TOK.var_head hga) hx hsig hok
    exact ⟨TOK.mu hga (tyDeclared_of_typed env ht) h1, h2⟩

/-- forms whose `compile_with_cont` is `⟨compile | c⟩` -/
theorem tcwc_of_comp (env : Env p P) {t : Fun.Term} (hc : TComp p P G t)
    (hcwc : ∀ Γ τ, TypedM p t Γ τ → ∀ c st, compileWithCont t c st =
      (match compile t (compileTy τ) st with
        | .error e => .error e
        | .ok (q, st1) => .ok (.cut (compileTy τ) q c, st1))) : TCwc p P G t := by
  intro Γ τ Δ c st s st' ht hm hrel hnm hb hcc h hsig hok
  rw [hcwc Γ τ ht] at h
  cases hx : compile t (compileTy τ) st with
  | error e => simp [hx] at h
  | ok r =>
    obtain ⟨q, st1⟩ := r
    simp only [hx, Except.ok.injEq, Prod.mk.injEq] at h
    obtain ⟨rfl, rfl⟩ := h
    obtain ⟨h1, h2⟩ := hc Γ τ Δ st q _ ht hm hrel hnm hb hx hsig hok
    exact ⟨SOK.cut (tyDeclared_of_typed env ht) h1 hcc, h2⟩

/-- the capture guard (binders are in the used-names set: one re-entry at most) -/
theorem tguarded (hg : FreshGood G) {binders L : List String} {an : Option Fun.Ty} {site : String}
    {core : CwcFn} {Γ : Fun.Ctx} {τ : Fun.Ty} (han : an = some τ)
    (hτ : tyDeclared P (compileTy τ) = true) (hsub : ∀ x ∈ binders, x ∈ L)
    (hcore : ∀ (Δ : Ctx) (c : Term) (st : CompileState) (s : Stmt) (st' : CompileState),
      CtxRel Γ Δ → NamesIn G Δ st → BIn G L st →
      TOK P G Δ .cns (compileTy τ) c → bindersOccurFree binders c = false →
      core c st = .ok (s, st') → SigLifted P st' → LiftedOk P G st →
      SOK P G Δ s ∧ LiftedOk P G st')
    {Δ : Ctx} {c : Term} {st : CompileState} {s : Stmt} {st' : CompileState}
    (hrel : CtxRel Γ Δ) (hnm : NamesIn G Δ st) (hb : BIn G L st)
    (hc : TOK P G Δ .cns (compileTy τ) c)
    (h : guarded binders an site core c st = .ok (s, st')) (hsig : SigLifted P st')
    (hok : LiftedOk P G st) : SOK P G Δ s ∧ LiftedOk P G st' := by
  rw [guarded_eq_of_binders_used binders an site core c st (fun x hx => (hb x (hsub x hx)).1)] at h
  split at h
  · subst han
    simp only at h
    cases hx : core (.var .cns ⟨(freshCovar st).1, 0⟩ (compileTy τ)) (freshCovar st).2 with
    | error e => simp [hx] at h
    | ok r =>
      obtain ⟨s1, st1⟩ := r
      simp only [hx, Except.ok.injEq, Prod.mk.injEq] at h
      obtain ⟨rfl, rfl⟩ := h
      have hf0 := fresh_freshCovar st
      have hga := hg.freshCovar st
      have hrel' : CtxRel Γ (⟨⟨(freshCovar st).1, 0⟩, .cns, compileTy τ⟩ :: Δ) :=
        hrel.cons_fresh _ (hnm.fresh (freshCovar_not_mem st))
      have hnm' : NamesIn G (⟨⟨(freshCovar st).1, 0⟩, .cns, compileTy τ⟩ :: Δ) (freshCovar st).2 :=
        (hnm.mono hf0).cons (freshCovar_mem st) hga
      have hnf : bindersOccurFree binders (.var .cns ⟨(freshCovar st).1, 0⟩ (compileTy τ)) = false := by
        rw [bindersOccurFree_var]
        have : (freshCovar st).1 ∉ binders :=
          fun hm => freshCovar_not_mem st (hb _ (hsub _ hm)).1
        simpa using this
      obtain ⟨h1, h2⟩ := hcore _ _ _ _ _ hrel' hnm' (hb.mono hf0) (TOK.var_head hga) hnf hx hsig hok
      exact ⟨SOK.cut hτ (TOK.mu hga hτ h1) hc, h2⟩
  · rename_i hfree
    exact hcore Δ c st s st' hrel hnm hb hc (by simpa using hfree) h hsig hok

section
set_option linter.unusedSectionVars false
variable (env : Env p P) (hg : FreshGood G)
include env hg

mutual
theorem typed_term : ∀ t : Fun.Term, TCwc p P G t ∧ TComp p P G t
  | .var x ty chi => by
    have hcomp : TComp p P G (.var x ty chi) := by
      intro Γ τ Δ st q st' ht hm hrel hnm hb h hsig hok
      simp only [TypedM] at ht
      obtain ⟨-, rfl, -, b, hl, hchi, rfl⟩ := ht
      rw [c_var] at h
      simp only [Except.ok.injEq, Prod.mk.injEq] at h
      obtain ⟨rfl, rfl⟩ := h
      have hlk := hrel.lookup hl
      refine ⟨TOK.var ?_ (hnm.good hlk), hok⟩
      simpa [hchi, compileChi] using hlk
    refine ⟨tcwc_of_comp env hcomp ?_, hcomp⟩
    intro Γ τ ht c st
    simp only [TypedM] at ht
    obtain ⟨-, rfl, -⟩ := ht
    rfl
  | .lit n => by
    have hcomp : TComp p P G (.lit n) := by
      intro Γ τ Δ st q st' ht hm hrel hnm hb h hsig hok
      simp only [TypedM] at ht
      subst ht
      rw [c_lit] at h
      simp only [Except.ok.injEq, Prod.mk.injEq] at h
      obtain ⟨rfl, rfl⟩ := h
      exact ⟨TOK.lit n, hok⟩
    refine ⟨tcwc_of_comp env hcomp ?_, hcomp⟩
    intro Γ τ ht c st
    simp only [TypedM] at ht
    subst ht
    rfl
  | .op a o b => by
    have ha := (typed_term a).2
    have hb' := (typed_term b).2
    have hcomp : TComp p P G (.op a o b) := by
      intro Γ τ Δ st q st' ht hm hrel hnm hb h hsig hok
      simp only [TypedM] at ht
      obtain ⟨rfl, tya, tyb⟩ := ht
      simp only [Fun.Term.callsMain, Bool.or_eq_false_iff] at hm
      rw [c_op] at h
      cases hx : compile a .i64 st with
      | error e => simp [hx] at h
      | ok r =>
        obtain ⟨fst, st1⟩ := r
        simp only [hx] at h
        cases hy : compile b .i64 st1 with
        | error e => simp [hy] at h
        | ok r =>
          obtain ⟨snd, st2⟩ := r
          simp only [hy, Except.ok.injEq, Prod.mk.injEq] at h
          obtain ⟨rfl, rfl⟩ := h
          have f1 := compile_fresh hx
          have f2 := compile_fresh hy
          obtain ⟨ca, ok1⟩ := ha Γ .i64 Δ st fst st1 tya hm.1 hrel hnm
            (hb.sub (by bsub)) hx (hsig.of_fresh f2) hok
          obtain ⟨cb, ok2⟩ := hb' Γ .i64 Δ st1 snd _ tyb hm.2 hrel (hnm.mono f1)
            ((hb.sub (by bsub)).mono f1) hy hsig ok1
          exact ⟨TOK.op ca cb, ok2⟩
    refine ⟨tcwc_of_comp env hcomp ?_, hcomp⟩
    intro Γ τ ht c st
    simp only [TypedM] at ht
    obtain ⟨rfl, -⟩ := ht
    exact cwc_op a o b c st
  | .ifc srt a b t e an => by
    have ha := (typed_term a).2
    have hb' := (typed_term b).2
    have ht' := (typed_term t).1
    have he := (typed_term e).1
    have hcwc : TCwc p P G (.ifc srt a b t e an) := by
      intro Γ τ Δ c st s st' hty hm hrel hnm hb hc h hsig hok
      simp only [TypedM] at hty
      obtain ⟨hti, -, tya, tyb, tyt, tye⟩ := hty
      simp only [Fun.Term.callsMain, Bool.or_eq_false_iff] at hm
      rw [cwc_ifc] at h
      have hsh := shareIf_typed (st := st) (isLeaf c) hg hc (tyDeclared_of_tyIn env hti) hnm
      have hfr := shareIf_fresh (isLeaf c) c st
      generalize (if isLeaf c then (c, st) else share c st) = r at h hsh hfr
      cases hx : compile a .i64 r.2 with
      | error e => simp [hx] at h
      | ok r1 =>
        obtain ⟨fst, st1⟩ := r1
        simp only [hx] at h
        cases hy : compile b .i64 st1 with
        | error e => simp [hy] at h
        | ok r2 =>
          obtain ⟨snd, st2⟩ := r2
          simp only [hy] at h
          cases hz : compileWithCont t r.1 st2 with
          | error e => simp [hz] at h
          | ok r3 =>
            obtain ⟨thenc, st3⟩ := r3
            simp only [hz] at h
            cases hw : compileWithCont e r.1 st3 with
            | error e => simp [hw] at h
            | ok r4 =>
              obtain ⟨elsec, st4⟩ := r4
              simp only [hw, Except.ok.injEq, Prod.mk.injEq] at h
              obtain ⟨rfl, rfl⟩ := h
              have f1 := compile_fresh hx
              have f2 := compile_fresh hy
              have f3 := compileWithCont_fresh hz
              have f4 := compileWithCont_fresh hw
              have s3 := hsig.of_fresh f4
              have s2 := s3.of_fresh f3
              have s1 := s2.of_fresh f2
              obtain ⟨hr1, ok0⟩ := hsh (s1.of_fresh f1) hok
              have n0 := hnm.mono hfr
              have n1 := n0.mono f1
              have n2 := n1.mono f2
              have n3 := n2.mono f3
              have b0 := hb.mono hfr
              have b1 := b0.mono f1
              have b2 := b1.mono f2
              have b3 := b2.mono f3
              obtain ⟨ca, ok1⟩ := ha Γ .i64 Δ r.2 fst st1 tya hm.1.1.1 hrel n0
                (b0.sub (by bsub)) hx s1 ok0
              obtain ⟨cb, ok2⟩ := hb' Γ .i64 Δ st1 snd st2 tyb hm.1.1.2 hrel n1
                (b1.sub (by bsub)) hy s2 ok1
              obtain ⟨ct, ok3⟩ := ht' Γ τ Δ r.1 st2 thenc st3 tyt hm.1.2 hrel n2
                (b2.sub (by bsub)) hr1 hz s3 ok2
              obtain ⟨ce, ok4⟩ := he Γ τ Δ r.1 st3 elsec _ tye hm.2 hrel n3
                (b3.sub (by bsub)) hr1 hw hsig ok3
              exact ⟨SOK.ifc ca cb ct ce, ok4⟩
    exact ⟨hcwc, tcomp_default env hg hcwc (fun _ _ => rfl)⟩
  | .ifz srt a t e an => by
    have ha := (typed_term a).2
    have ht' := (typed_term t).1
    have he := (typed_term e).1
    have hcwc : TCwc p P G (.ifz srt a t e an) := by
      intro Γ τ Δ c st s st' hty hm hrel hnm hb hc h hsig hok
      simp only [TypedM] at hty
      obtain ⟨hti, -, tya, tyt, tye⟩ := hty
      simp only [Fun.Term.callsMain, Bool.or_eq_false_iff] at hm
      rw [cwc_ifz] at h
      have hsh := shareIf_typed (st := st) (isLeaf c) hg hc (tyDeclared_of_tyIn env hti) hnm
      have hfr := shareIf_fresh (isLeaf c) c st
      generalize (if isLeaf c then (c, st) else share c st) = r at h hsh hfr
      cases hx : compile a .i64 r.2 with
      | error e => simp [hx] at h
      | ok r1 =>
        obtain ⟨fst, st1⟩ := r1
        simp only [hx] at h
        cases hz : compileWithCont t r.1 st1 with
        | error e => simp [hz] at h
        | ok r3 =>
          obtain ⟨thenc, st3⟩ := r3
          simp only [hz] at h
          cases hw : compileWithCont e r.1 st3 with
          | error e => simp [hw] at h
          | ok r4 =>
            obtain ⟨elsec, st4⟩ := r4
            simp only [hw, Except.ok.injEq, Prod.mk.injEq] at h
            obtain ⟨rfl, rfl⟩ := h
            have f1 := compile_fresh hx
            have f3 := compileWithCont_fresh hz
            have f4 := compileWithCont_fresh hw
            have s3 := hsig.of_fresh f4
            have s1 := s3.of_fresh f3
            obtain ⟨hr1, ok0⟩ := hsh (s1.of_fresh f1) hok
            have n0 := hnm.mono hfr
            have n1 := n0.mono f1
            have n3 := n1.mono f3
            have b0 := hb.mono hfr
            have b1 := b0.mono f1
            have b3 := b1.mono f3
            obtain ⟨ca, ok1⟩ := ha Γ .i64 Δ r.2 fst st1 tya hm.1.1 hrel n0
              (b0.sub (by bsub)) hx s1 ok0
            obtain ⟨ct, ok3⟩ := ht' Γ τ Δ r.1 st1 thenc st3 tyt hm.1.2 hrel n1
              (b1.sub (by bsub)) hr1 hz s3 ok1
            obtain ⟨ce, ok4⟩ := he Γ τ Δ r.1 st3 elsec _ tye hm.2 hrel n3
              (b3.sub (by bsub)) hr1 hw hsig ok3
            exact ⟨SOK.ifz ca ct ce, ok4⟩
    exact ⟨hcwc, tcomp_default env hg hcwc (fun _ _ => rfl)⟩
  | .print nl a n an => by
    have ha := (typed_term a).2
    have hn := (typed_term n).1
    have hcwc : TCwc p P G (.print nl a n an) := by
      intro Γ τ Δ c st s st' hty hm hrel hnm hb hc h hsig hok
      simp only [TypedM] at hty
      obtain ⟨-, -, tya, tyn⟩ := hty
      simp only [Fun.Term.callsMain, Bool.or_eq_false_iff] at hm
      rw [cwc_print] at h
      cases hx : compile a .i64 st with
      | error e => simp [hx] at h
      | ok r1 =>
        obtain ⟨arg, st1⟩ := r1
        simp only [hx] at h
        cases hy : compileWithCont n c st1 with
        | error e => simp [hy] at h
        | ok r2 =>
          obtain ⟨next, st2⟩ := r2
          simp only [hy, Except.ok.injEq, Prod.mk.injEq] at h
          obtain ⟨rfl, rfl⟩ := h
          have f1 := compile_fresh hx
          have f2 := compileWithCont_fresh hy
          obtain ⟨ca, ok1⟩ := ha Γ .i64 Δ st arg st1 tya hm.1 hrel hnm
            (hb.sub (by bsub)) hx (hsig.of_fresh f2) hok
          obtain ⟨cn, ok2⟩ := hn Γ τ Δ c st1 next _ tyn hm.2 hrel (hnm.mono f1)
            ((hb.sub (by bsub)).mono f1) hc hy hsig ok1
          exact ⟨SOK.print ca cn, ok2⟩
    exact ⟨hcwc, tcomp_default env hg hcwc (fun _ _ => rfl)⟩
  | .letIn x σ bound body an => by
    have hbc := (typed_term bound).1
    have hbp := (typed_term bound).2
    have hi := (typed_term body).1
    have hcwc : TCwc p P G (.letIn x σ bound body an) := by
      intro Γ τ Δ c st s st' hty hm hrel hnm hb hc h hsig hok
      simp only [TypedM] at hty
      obtain ⟨hti, han, tyb, tyi⟩ := hty
      simp only [Fun.Term.callsMain, Bool.or_eq_false_iff] at hm
      rw [cwc_letIn] at h
      refine tguarded hg (Γ := Γ) (τ := τ) (L := binderNames (.letIn x σ bound body an)) han
        (tyDeclared_of_tyIn env hti)
        (by intro y hy; simp only [List.mem_singleton] at hy; simp [binderNames, hy])
        ?_ hrel hnm hb hc h hsig hok
      intro Δ c st s st' hrel hnm hb hc hnf h hsig hok
      unfold letCore at h
      cases hx : compileWithCont body c st with
      | error e => simp [hx] at h
      | ok r1 =>
        obtain ⟨inStmt, st1⟩ := r1
        simp only [hx] at h
        have f1 := compileWithCont_fresh hx
        have hxb : x ∈ binderNames (.letIn x σ bound body an) := by simp [binderNames]
        have hgx : GoodId G ⟨x, 0⟩ := hb.good hxb
        have hbb : BIn G (binderNames bound) st := hb.sub (by bsub)
        have hbi : BIn G (binderNames body) st := hb.sub (by bsub)
        have hrel1 : CtxRel (Γ ++ [⟨x, .prd, σ⟩]) (compileBinding ⟨x, .prd, σ⟩ :: Δ) := hrel.snoc _
        have hnm1 : NamesIn G (compileBinding ⟨x, .prd, σ⟩ :: Δ) st := hnm.cons (hb x hxb).1 hgx
        have hc1 : TOK P G (compileBinding ⟨x, .prd, σ⟩ :: Δ) .cns (compileTy τ) c :=
          hc.weaken_cons _ (fun b0 hb0 e =>
            bindersOccurFree_false hnf b0 hb0 (by rw [e]; simp [compileBinding]))
        split at h
        · cases hy : compile bound (compileTy σ) st1 with
          | error e => simp [hy] at h
          | ok r2 =>
            obtain ⟨q, st2⟩ := r2
            simp only [hy, Except.ok.injEq, Prod.mk.injEq] at h
            obtain ⟨rfl, rfl⟩ := h
            have f2 := compile_fresh hy
            obtain ⟨ci, ok1⟩ := hi _ τ _ c st inStmt st1 tyi hm.2 hrel1 hnm1 hbi hc1 hx
              (hsig.of_fresh f2) hok
            obtain ⟨cq, ok2⟩ := hbp Γ σ Δ st1 q _ tyb hm.1 hrel (hnm.mono f1) (hbb.mono f1) hy
              hsig ok1
            exact ⟨SOK.cut (tyDeclared_of_typed env tyb) cq (TOK.mu hgx (tyDeclared_of_typed env tyb) ci),
              ok2⟩
        · have f2 := compileWithCont_fresh h
          obtain ⟨ci, ok1⟩ := hi _ τ _ c st inStmt st1 tyi hm.2 hrel1 hnm1 hbi hc1 hx
            (hsig.of_fresh f2) hok
          exact hbc Γ σ Δ _ st1 s st' tyb hm.1 hrel (hnm.mono f1) (hbb.mono f1)
            (TOK.mu hgx (tyDeclared_of_typed env tyb) ci) h hsig ok1
    exact ⟨hcwc, tcomp_default env hg hcwc (fun _ _ => rfl)⟩
  | .call f args an => by
    have hs := typed_subst args
    have hcwc : TCwc p P G (.call f args an) := by
      intro Γ τ Δ c st s st' hty hm hrel hnm hb hc h hsig hok
      simp only [TypedM] at hty
      obtain ⟨-, rfl, d, hd, rfl, rfl, targs⟩ := hty
      simp only [Fun.Term.callsMain, Bool.or_eq_false_iff, beq_eq_false_iff_ne] at hm
      rw [cwc_call] at h
      cases hx : compileSubst args st with
      | error e => simp [hx] at h
      | ok r1 =>
        obtain ⟨args', st1⟩ := r1
        simp only [hx, Except.ok.injEq, Prod.mk.injEq] at h
        obtain ⟨rfl, rfl⟩ := h
        obtain ⟨ca, ok1⟩ := hs Γ d.ctx Δ st args' _ targs hm.2 hrel hnm
          (hb.sub (by bsub)) hx hsig hok
        obtain ⟨D, a, hD, hctx⟩ := env.user d hd hm.1
        refine ⟨SOK.call hD ?_, ok1⟩
        rw [hctx]
        exact ca.snoc rfl hc
    exact ⟨hcwc, tcomp_default env hg hcwc (fun _ _ => rfl)⟩
  | .ctor k args an => by
    have hs := typed_subst args
    have hcomp : TComp p P G (.ctor k args an) := by
      intro Γ τ Δ st q st' hty hm hrel hnm hb h hsig hok
      simp only [TypedM] at hty
      obtain ⟨-, rfl, d, cc, hd, hcc, targs⟩ := hty
      simp only [Fun.Term.callsMain] at hm
      rw [c_ctor] at h
      cases hx : compileSubst args st with
      | error e => simp [hx] at h
      | ok r1 =>
        obtain ⟨args', st1⟩ := r1
        simp only [hx, Except.ok.injEq, Prod.mk.injEq] at h
        obtain ⟨rfl, rfl⟩ := h
        obtain ⟨ca, ok1⟩ := hs Γ cc.args Δ st args' _ targs hm hrel hnm
          (hb.sub (by bsub)) hx hsig hok
        obtain ⟨T, hT, hfd⟩ := findDecl_data env hd
        rw [hT]
        exact ⟨TOK.xtor (sig := compileCtor cc) hfd (findSig_ctor hcc) ca, ok1⟩
    refine ⟨tcwc_of_comp env hcomp ?_, hcomp⟩
    intro Γ τ ht c st
    simp only [TypedM] at ht
    obtain ⟨-, rfl, -⟩ := ht
    exact cwc_ctor k args (some τ) c st
  | .dtor scrut k ta args an => by
    have hs := typed_subst args
    have hsc := (typed_term scrut).1
    have hcwc : TCwc p P G (.dtor scrut k ta args an) := by
      intro Γ τ Δ c st s st' hty hm hrel hnm hb hc h hsig hok
      simp only [TypedM] at hty
      obtain ⟨-, -, σ, d, sg, tys, hd, hsg, rfl, targs⟩ := hty
      simp only [Fun.Term.callsMain, Bool.or_eq_false_iff] at hm
      rw [cwc_dtor] at h
      cases hx : compileSubst args st with
      | error e => simp [hx] at h
      | ok r1 =>
        obtain ⟨args', st1⟩ := r1
        simp only [hx, getType_of_typed p scrut Γ σ tys] at h
        have f1 := (rel_subst fresh_stepRel args) _ _ _ hx
        have f2 := compileWithCont_fresh h
        obtain ⟨ca, ok1⟩ := hs Γ sg.args Δ st args' st1 targs hm.2 hrel hnm
          (hb.sub (by bsub)) hx (hsig.of_fresh f2) hok
        obtain ⟨T, hT, hfd⟩ := findDecl_codata env hd
        have hnc : TOK P G Δ .cns (compileTy σ)
            (Term.xtor .cns ⟨k, 0⟩ (argsSnoc args' .cns c) (compileTy σ)) := by
          rw [hT]
          exact TOK.xtor (sig := compileDtor sg) hfd (findSig_dtor hsg) (ca.snoc rfl hc)
        exact hsc Γ σ Δ _ st1 s st' tys hm.1 hrel (hnm.mono f1)
          ((hb.sub (by bsub)).mono f1) hnc h hsig ok1
    exact ⟨hcwc, tcomp_default env hg hcwc (fun _ _ => rfl)⟩
  | .case scrut ta cs an => by
    have hcl := typed_clauses cs
    have hsc := (typed_term scrut).1
    have hcwc : TCwc p P G (.case scrut ta cs an) := by
      intro Γ τ Δ c st s st' hty hm hrel hnm hb hc h hsig hok
      simp only [TypedM] at hty
      obtain ⟨hti, han, σ, d, tys, hd, tcs, hcov⟩ := hty
      simp only [Fun.Term.callsMain, Bool.or_eq_false_iff] at hm
      rw [cwc_case] at h
      have hτd := tyDeclared_of_tyIn env hti
      refine tguarded hg (Γ := Γ) (τ := τ) (L := binderNames (.case scrut ta cs an)) han hτd
        (by intro y hy; simp [binderNames, clausesNames_sub cs y hy]) ?_ hrel hnm hb hc h hsig hok
      intro Δ c st s st' hrel hnm hb hc hnf h hsig hok
      unfold caseCore at h
      have hsh := shareIf_typed (st := st) (decide (clausesLen cs ≤ 1) || isLeaf c) hg hc hτd hnm
      have hfr := shareIf_fresh (decide (clausesLen cs ≤ 1) || isLeaf c) c st
      have htf := shareIf_tfv (st := st) (decide (clausesLen cs ≤ 1) || isLeaf c) hc.1
      generalize (if (decide (clausesLen cs ≤ 1) || isLeaf c) = true then (c, st)
        else share c st) = r at h hsh hfr htf
      cases hx : compileClauses cs r.1 r.2 with
      | error e => simp [hx] at h
      | ok r1 =>
        obtain ⟨cs', st1⟩ := r1
        simp only [hx, getType_of_typed p scrut Γ σ tys] at h
        have f1 := (rel_clauses fresh_stepRel cs) _ _ _ _ hx
        have f2 := compileWithCont_fresh h
        have s1 := hsig.of_fresh f2
        obtain ⟨hr1, ok0⟩ := hsh (s1.of_fresh f1) hok
        have b0 := hb.mono hfr
        obtain ⟨cc, ok1⟩ := hcl Γ d.ctors τ Δ r.1 r.2 cs' st1 tcs hm.2 hrel (hnm.mono hfr)
          (b0.sub (by bsub)) hr1
          (fun b hb' => bindersOccurFree_false hnf b (htf b hb')) hx s1 ok0
        obtain ⟨T, hT, hfd⟩ := findDecl_data env hd
        have hnc : TOK P G Δ .cns (compileTy σ) (Term.xcase .cns (compileTy σ) cs') := by
          rw [hT]
          refine TOK.xcase hfd cc (covers_of_has cs' compileCtor (·.name) (fun _ => rfl) d.ctors
            (fun a ha => clauses_has cs _ _ _ _ hx _ (by rw [hcov]; exact List.mem_map.2 ⟨a, ha, rfl⟩))) ?_
          rw [clauses_tags cs _ _ _ _ hx, hcov]
          simp [List.map_map, compileCtor]
        exact hsc Γ σ Δ _ st1 s st' tys hm.1 hrel ((hnm.mono hfr).mono f1)
          ((b0.sub (by bsub)).mono f1) hnc h hsig ok1
    exact ⟨hcwc, tcomp_default env hg hcwc (fun _ _ => rfl)⟩
  | .new cs an => by
    have hs := typed_coclauses cs
    have hcomp : TComp p P G (.new cs an) := by
      intro Γ τ Δ st q st' hty hm hrel hnm hb h hsig hok
      simp only [TypedM] at hty
      obtain ⟨-, rfl, d, hd, tcs, hcov⟩ := hty
      simp only [Fun.Term.callsMain] at hm
      rw [c_new] at h
      cases hx : compileCoclauses cs st with
      | error e => simp [hx] at h
      | ok r1 =>
        obtain ⟨cs', st1⟩ := r1
        simp only [hx, Except.ok.injEq, Prod.mk.injEq] at h
        obtain ⟨rfl, rfl⟩ := h
        obtain ⟨cc, ok1⟩ := hs Γ d.dtors Δ st cs' _ tcs hm hrel hnm
          (hb.sub (by bsub)) hx hsig hok
        obtain ⟨T, hT, hfd⟩ := findDecl_codata env hd
        rw [hT]
        refine ⟨TOK.xcase hfd cc (covers_of_has cs' compileDtor (·.name) (fun _ => rfl) d.dtors
          (fun a ha => coclauses_has cs _ _ _ hx _ (by rw [hcov]; exact List.mem_map.2 ⟨a, ha, rfl⟩))) ?_,
          ok1⟩
        rw [coclauses_tags cs _ _ _ hx, hcov]
        simp [List.map_map, compileDtor]
    refine ⟨tcwc_of_comp env hcomp ?_, hcomp⟩
    intro Γ τ ht c st
    simp only [TypedM] at ht
    obtain ⟨-, rfl, -⟩ := ht
    exact cwc_new cs (some τ) c st
  | .goto a t an => by
    have ht' := (typed_term t).1
    have hcwc : TCwc p P G (.goto a t an) := by
      intro Γ τ Δ c st s st' hty hm hrel hnm hb hc h hsig hok
      simp only [TypedM] at hty
      obtain ⟨-, -, b, hl, hchi, tyt⟩ := hty
      simp only [Fun.Term.callsMain] at hm
      rw [cwc_goto] at h
      simp only [getType_of_typed p t Γ b.ty tyt] at h
      have hlk := hrel.lookup hl
      refine ht' Γ b.ty Δ _ st s st' tyt hm hrel hnm (hb.sub (by bsub))
        (TOK.var ?_ (hnm.good hlk)) h hsig hok
      simpa [hchi, compileChi] using hlk
    exact ⟨hcwc, tcomp_default env hg hcwc (fun _ _ => rfl)⟩
  | .label a t an => by
    have ht' := (typed_term t).1
    have hcomp : TComp p P G (.label a t an) := by
      intro Γ τ Δ st q st' hty hm hrel hnm hb h hsig hok
      simp only [TypedM] at hty
      obtain ⟨hti, rfl, tyt⟩ := hty
      simp only [Fun.Term.callsMain] at hm
      rw [c_label] at h
      simp only at h
      cases hx : compileWithCont t (.var .cns ⟨a, 0⟩ (compileTy τ)) st with
      | error e => simp [hx] at h
      | ok r1 =>
        obtain ⟨s, st1⟩ := r1
        simp only [hx, Except.ok.injEq, Prod.mk.injEq] at h
        obtain ⟨rfl, rfl⟩ := h
        have hab : a ∈ binderNames (.label a t (some τ)) := by simp [binderNames]
        have hga : GoodId G ⟨a, 0⟩ := hb.good hab
        obtain ⟨cs, ok1⟩ := ht' (Γ ++ [⟨a, .cns, τ⟩]) τ (compileBinding ⟨a, .cns, τ⟩ :: Δ) _ st s _
          tyt hm (hrel.snoc _) (hnm.cons (hb a hab).1 hga) (hb.sub (by bsub))
          (TOK.var_head hga) hx hsig hok
        exact ⟨TOK.mu hga (tyDeclared_of_tyIn env hti) cs, ok1⟩
    refine ⟨tcwc_of_comp env hcomp ?_, hcomp⟩
    intro Γ τ ht c st
    simp only [TypedM] at ht
    obtain ⟨-, rfl, -⟩ := ht
    exact cwc_label a t (some τ) c st
  | .exit arg an => by
    have ha := (typed_term arg).2
    have hcwc : TCwc p P G (.exit arg an) := by
      intro Γ τ Δ c st s st' hty hm hrel hnm hb hc h hsig hok
      simp only [TypedM] at hty
      obtain ⟨-, rfl, tya⟩ := hty
      simp only [Fun.Term.callsMain] at hm
      rw [cwc_exit] at h
      cases hx : compile arg .i64 st with
      | error e => simp [hx] at h
      | ok r1 =>
        obtain ⟨a, st1⟩ := r1
        simp only [hx, Except.ok.injEq, Prod.mk.injEq] at h
        obtain ⟨rfl, rfl⟩ := h
        obtain ⟨ca, ok1⟩ := ha Γ .i64 Δ st a _ tya hm hrel hnm
          (hb.sub (by bsub)) hx hsig hok
        exact ⟨SOK.exit ca, ok1⟩
    exact ⟨hcwc, tcomp_default env hg hcwc (fun _ _ => rfl)⟩
  | .paren inner => by
    have hi := typed_term inner
    refine ⟨fun Γ τ Δ c st s st' hty hm hrel hnm hb hc h hsig hok => ?_,
      fun Γ τ Δ st q st' hty hm hrel hnm hb h hsig hok => ?_⟩
    · simp only [TypedM] at hty
      simp only [Fun.Term.callsMain] at hm
      rw [cwc_paren] at h
      exact hi.1 Γ τ Δ c st s st' hty hm hrel hnm (hb.sub (by bsub)) hc h hsig hok
    · simp only [TypedM] at hty
      simp only [Fun.Term.callsMain] at hm
      rw [c_paren] at h
      exact hi.2 Γ τ Δ st q st' hty hm hrel hnm (hb.sub (by bsub)) h hsig hok
theorem typed_subst : ∀ args : Fun.Terms, TSubst p P G args
  | .nil => by
    intro Γ bs Δ st as st' hty hm hrel hnm hb h hsig hok
    simp only [ArgsM] at hty
    subst hty
    rw [subst_nil] at h
    simp only [Except.ok.injEq, Prod.mk.injEq] at h
    obtain ⟨rfl, rfl⟩ := h
    exact ⟨AOK.nil, hok⟩
  | .cons t rest => by
    have ht' := (typed_term t).2
    have hr := typed_subst rest
    intro Γ bs Δ st as st' hty hm hrel hnm hb h hsig hok
    simp only [ArgsM] at hty
    obtain ⟨b, bs', rfl, trest, hcase⟩ := hty
    simp only [Fun.Terms.callsMain, Bool.or_eq_false_iff] at hm
    rw [subst_cons] at h
    rcases hcase with ⟨hchi, tyt⟩ | ⟨hchi, x, b', rfl, hl, hchi', hty'⟩
    · simp only [covarArg_of_typed p tyt, getType_of_typed p t Γ b.ty tyt] at h
      cases hx : compile t (compileTy b.ty) st with
      | error e => simp [hx] at h
      | ok r1 =>
        obtain ⟨q, st1⟩ := r1
        simp only [hx] at h
        cases hy : compileSubst rest st1 with
        | error e => simp [hy] at h
        | ok r2 =>
          obtain ⟨r, st2⟩ := r2
          simp only [hy, Except.ok.injEq, Prod.mk.injEq] at h
          obtain ⟨rfl, rfl⟩ := h
          have f1 := compile_fresh hx
          have f2 := (rel_subst fresh_stepRel rest) _ _ _ hy
          obtain ⟨cq, ok1⟩ := ht' Γ b.ty Δ st q st1 tyt hm.1 hrel hnm
            (hb.sub (by bsub)) hx (hsig.of_fresh f2) hok
          obtain ⟨cr, ok2⟩ := hr Γ bs' Δ st1 r _ trest hm.2 hrel (hnm.mono f1)
            ((hb.sub (by bsub)).mono f1) hy hsig ok1
          refine ⟨?_, ok2⟩
          exact AOK.cons (b := compileBinding b) (by simp [compileBinding, hchi, compileChi]) cq cr
    · simp only [covarArg] at h
      cases hy : compileSubst rest st with
      | error e => simp [hy] at h
      | ok r2 =>
        obtain ⟨r, st2⟩ := r2
        simp only [hy, Except.ok.injEq, Prod.mk.injEq] at h
        obtain ⟨rfl, rfl⟩ := h
        obtain ⟨cr, ok2⟩ := hr Γ bs' Δ st r _ trest hm.2 hrel hnm
          (hb.sub (by bsub)) hy hsig hok
        refine ⟨?_, ok2⟩
        have hlk := hrel.lookup hl
        refine AOK.cons (b := compileBinding b) (by simp [compileBinding, hchi, compileChi])
          (TOK.var ?_ (hnm.good hlk)) cr
        simpa [compileBinding, hchi, hchi', hty', compileChi] using hlk
theorem typed_clauses : ∀ cs : Fun.Clauses, TClauses p P G cs
  | .nil => by
    intro Γ sigs τ Δ c st cs' st' hty hm hrel hnm hb hc hfv h hsig hok
    rw [clauses_nil] at h
    simp only [Except.ok.injEq, Prod.mk.injEq] at h
    obtain ⟨rfl, rfl⟩ := h
    exact ⟨COK.nil, hok⟩
  | .cons pol x ns ctx body rest => by
    have hb' := (typed_term body).1
    have hr := typed_clauses rest
    intro Γ sigs τ Δ c st cs' st' hty hm hrel hnm hb hc hfv h hsig hok
    simp only [ClausesM] at hty
    obtain ⟨⟨cc, hcc, hnd, hlen, rfl, tyb⟩, trest⟩ := hty
    simp only [Fun.Clauses.callsMain, Bool.or_eq_false_iff] at hm
    rw [clauses_cons] at h
    cases hx : compileWithCont body c st with
    | error e => simp [hx] at h
    | ok r1 =>
      obtain ⟨b, st1⟩ := r1
      simp only [hx] at h
      cases hy : compileClauses rest c st1 with
      | error e => simp [hy] at h
      | ok r2 =>
        obtain ⟨r, st2⟩ := r2
        simp only [hy, Except.ok.injEq, Prod.mk.injEq] at h
        obtain ⟨rfl, rfl⟩ := h
        have f1 := compileWithCont_fresh hx
        have f2 := (rel_clauses fresh_stepRel rest) _ _ _ _ hy
        have hvars := bindNames_vars ns cc.args hlen
        have hrel1 : CtxRel (Γ ++ bindNames ns cc.args)
            (compileContext (bindNames ns cc.args) ++ Δ) :=
          hrel.append _ (by rw [hvars]; exact hnd)
        have hnames : ∀ a ∈ compileContext (bindNames ns cc.args), a.var.id = 0 ∧ a.var.name ∈ ns := by
          intro a ha
          obtain ⟨b0, hb0, rfl⟩ := mem_compileContext ha
          rw [← hvars]
          exact ⟨rfl, List.mem_map.2 ⟨b0, hb0, rfl⟩⟩
        have hbns : BIn G ns st := hb.sub (by bsub)
        have hgood : ∀ a ∈ compileContext (bindNames ns cc.args),
            a.var.name ∈ st.usedVars ∧ GoodId G a.var :=
          fun a ha => ⟨(hbns _ (hnames a ha).2).1, (hnames a ha).1, (hbns _ (hnames a ha).2).2⟩
        have hnm1 : NamesIn G (compileContext (bindNames ns cc.args) ++ Δ) st := hnm.append hgood
        have hc1 : TOK P G (compileContext (bindNames ns cc.args) ++ Δ) .cns (compileTy τ) c :=
          hc.weaken_append _ (fun b0 hb0 a ha e =>
            hfv b0 hb0 (by rw [← e]; simp [clausesNames, (hnames a ha).2]))
        obtain ⟨cb, ok1⟩ := hb' _ τ _ c st b st1 tyb hm.1 hrel1 hnm1
          (hb.sub (by bsub)) hc1 hx (hsig.of_fresh f2) hok
        obtain ⟨cr, ok2⟩ := hr Γ sigs τ Δ c st1 r _ trest hm.2 hrel (hnm.mono f1)
          ((hb.sub (by bsub)).mono f1) hc
          (fun b0 hb0 hm' => hfv b0 hb0 (by simp [clausesNames, hm'])) hy hsig ok1
        exact ⟨COK.cons (findSig_ctor hcc) (ctxMatches_bindNames ns cc.args hlen)
          (fun a ha => (hgood a ha).2) cb cr, ok2⟩
theorem typed_coclauses : ∀ cs : Fun.Clauses, TCoclauses p P G cs
  | .nil => by
    intro Γ sigs Δ st cs' st' hty hm hrel hnm hb h hsig hok
    rw [coclauses_nil] at h
    simp only [Except.ok.injEq, Prod.mk.injEq] at h
    obtain ⟨rfl, rfl⟩ := h
    exact ⟨COK.nil, hok⟩
  | .cons pol x ns ctx body rest => by
    have hb' := (typed_term body).1
    have hr := typed_coclauses rest
    intro Γ sigs Δ st cs' st' hty hm hrel hnm hb h hsig hok
    simp only [CoclausesM] at hty
    obtain ⟨⟨cc, hcc, hnd, hlen, rfl, tyb⟩, trest⟩ := hty
    simp only [Fun.Clauses.callsMain, Bool.or_eq_false_iff] at hm
    rw [coclauses_cons] at h
    simp only [getType_of_typed p body _ _ tyb] at h
    cases hx : compileWithCont body (.var .cns ⟨(freshCovar st).1, 0⟩ (compileTy cc.contTy))
        (freshCovar st).2 with
    | error e => simp [hx] at h
    | ok r1 =>
      obtain ⟨b, st1⟩ := r1
      simp only [hx] at h
      cases hy : compileCoclauses rest st1 with
      | error e => simp [hy] at h
      | ok r2 =>
        obtain ⟨r, st2⟩ := r2
        simp only [hy, Except.ok.injEq, Prod.mk.injEq] at h
        obtain ⟨rfl, rfl⟩ := h
        have f0 := fresh_freshCovar st
        have f1 := compileWithCont_fresh hx
        have f2 := (rel_coclauses fresh_stepRel rest) _ _ _ hy
        have hga := hg.freshCovar st
        have hvars := bindNames_vars ns cc.args hlen
        have hnames : ∀ a ∈ compileContext (bindNames ns cc.args), a.var.id = 0 ∧ a.var.name ∈ ns := by
          intro a ha
          obtain ⟨b0, hb0, rfl⟩ := mem_compileContext ha
          rw [← hvars]
          exact ⟨rfl, List.mem_map.2 ⟨b0, hb0, rfl⟩⟩
        have hbns : BIn G ns st := hb.sub (by bsub)
        have hgood : ∀ a ∈ compileContext (bindNames ns cc.args),
            a.var.name ∈ (freshCovar st).2.usedVars ∧ GoodId G a.var :=
          fun a ha => ⟨f0.vars.subset (hbns _ (hnames a ha).2).1, (hnames a ha).1,
            (hbns _ (hnames a ha).2).2⟩
        have hrel0 : CtxRel Γ (⟨⟨(freshCovar st).1, 0⟩, .cns, compileTy cc.contTy⟩ :: Δ) :=
          hrel.cons_fresh _ (hnm.fresh (freshCovar_not_mem st))
        have hrel1 := hrel0.append (bindNames ns cc.args) (by rw [hvars]; exact hnd)
        have hnm0 : NamesIn G (⟨⟨(freshCovar st).1, 0⟩, .cns, compileTy cc.contTy⟩ :: Δ)
            (freshCovar st).2 := (hnm.mono f0).cons (freshCovar_mem st) hga
        have hnm1 := hnm0.append hgood
        have hca : TOK P G (compileContext (bindNames ns cc.args) ++
              ⟨⟨(freshCovar st).1, 0⟩, .cns, compileTy cc.contTy⟩ :: Δ) .cns
            (compileTy cc.contTy) (Term.var .cns ⟨(freshCovar st).1, 0⟩ (compileTy cc.contTy)) := by
          refine TOK.var ?_ hga
          rw [lookupBinding_append, lookupBinding_none_of]
          · exact lookupBinding_cons_self _ Δ
          · intro a ha e
            have h1 := (hbns _ (hnames a ha).2).1
            rw [e] at h1
            exact freshCovar_not_mem st h1
        obtain ⟨cb, ok1⟩ := hb' _ cc.contTy _ _ _ b st1 tyb hm.1 hrel1 hnm1
          ((hb.sub (by bsub)).mono f0) hca hx
          (hsig.of_fresh f2) hok
        obtain ⟨cr, ok2⟩ := hr Γ sigs Δ st1 r _ trest hm.2 hrel ((hnm.mono f0).mono f1)
          (((hb.sub (by bsub)).mono f0).mono f1) hy hsig ok1
        refine ⟨COK.cons (findSig_dtor hcc) ?_ ?_ ?_ cr, ok2⟩
        · exact ctxMatches_append _ _ _ _ (ctxMatches_bindNames ns cc.args hlen) rfl rfl
        · intro a ha
          rcases List.mem_append.1 ha with ha | ha
          · exact (hgood a ha).2
          · simp only [List.mem_singleton] at ha
            subst ha
            exact hga
        · rw [List.append_assoc]
          exact cb
end

end

end Scc.Fun2Core.Typed
