/-
  Scc.Fun2Core.HygieneProofs — C02 `no capture` for the repaired translation: the hygiene predicate
  of Scc.Fun2Core.Hygiene is `true` for every term, every consumer and every state.
-/
import Scc.Fun2Core.Hygiene
import Scc.Fun2Core.FreeVars
import Scc.Fun2Core.Lemmas

namespace Scc.Fun2Core
open Scc

/-- `c` is a consumer: not a `μ` with producer flag (the flag of every consumer the translation
builds is `cns`; Rust: `Term<Cns>`) -/
def ConsOK (c : Core.Term) : Prop := ∀ v ty s, c ≠ .mu .prd v ty s

theorem consOK_var (pc v ty) : ConsOK (.var pc v ty) := fun _ _ _ h => by cases h
theorem consOK_mu (v ty s) : ConsOK (.mu .cns v ty s) := fun _ _ _ h => by cases h
theorem consOK_xtor (pc n a ty) : ConsOK (.xtor pc n a ty) := fun _ _ _ h => by cases h
theorem consOK_xcase (pc ty cs) : ConsOK (.xcase pc ty cs) := fun _ _ _ h => by cases h

theorem consOK_share (c : Core.Term) (st : CompileState) : ConsOK (share c st).1 := by
  unfold share; exact consOK_mu _ _ _

mutual
  /-- the clause binder names of the parser (`context_names`, which the guard of terms/case.rs
  inspects) are the names of the typed clause context filled in by the type checker (which
  `compile_clause` emits) -/
  def namesAgree : Fun.Term → Bool
    | .var _ _ _ => true
    | .lit _ => true
    | .op a _ b => namesAgree a && namesAgree b
    | .ifc _ a b t e _ => namesAgree a && namesAgree b && namesAgree t && namesAgree e
    | .ifz _ a t e _ => namesAgree a && namesAgree t && namesAgree e
    | .print _ a n _ => namesAgree a && namesAgree n
    | .letIn _ _ b i _ => namesAgree b && namesAgree i
    | .call _ args _ => namesAgreeArgs args
    | .ctor _ args _ => namesAgreeArgs args
    | .dtor s _ _ args _ => namesAgree s && namesAgreeArgs args
    | .case s _ cs _ => namesAgree s && namesAgreeClauses cs
    | .new cs _ => namesAgreeClauses cs
    | .goto _ t _ => namesAgree t
    | .label _ t _ => namesAgree t
    | .exit t _ => namesAgree t
    | .paren t => namesAgree t
  def namesAgreeArgs : Fun.Terms → Bool
    | .nil => true
    | .cons t r => namesAgree t && namesAgreeArgs r
  def namesAgreeClauses : Fun.Clauses → Bool
    | .nil => true
    | .cons _ _ names ctx body rest =>
      (names == ctx.map (·.var)) && namesAgree body && namesAgreeClauses rest
end

theorem bindersOccurFree_false {binders : List String} {cont : Core.Term} :
    bindersOccurFree binders cont = false ↔ ∀ x ∈ binders, x ∉ fvNames cont := by
  unfold bindersOccurFree fvNames
  simp only [List.any_eq_false, List.contains_eq_mem, decide_eq_true_eq, List.mem_map, not_exists,
    not_and]
  constructor
  · intro h x hx b hb e
    exact h b hb (e ▸ hx)
  · intro h b hb hx
    exact h _ hx b hb rfl

theorem noCapture_true {binders : List String} {cont : Core.Term} :
    noCapture binders cont = true ↔ ∀ x ∈ binders, x ∉ fvNames cont := by
  unfold noCapture
  simp [List.all_eq_true]

theorem fvNames_share_subset (c : Core.Term) (st : CompileState) (hc : ConsOK c) :
    ∀ x ∈ fvNames (share c st).1, x ∈ fvNames c := by
  intro x hx
  unfold fvNames at *
  obtain ⟨b, hb, rfl⟩ := List.mem_map.1 hx
  exact List.mem_map.2 ⟨b, tfv_share_subset c st hc b hb, rfl⟩

theorem hygGuardedLvl_true {binders : List String} {ty : Option Fun.Ty} {core : HygCwc}
    (hcore : ∀ c st, ConsOK c → bindersOccurFree binders c = false → core c st = true) :
    ∀ lvl c st, ConsOK c → hygGuardedLvl binders ty core lvl c st = true
  | 0, _, _, _ => rfl
  | lvl + 1, c, st, hc => by
    unfold hygGuardedLvl
    split
    · cases ty with
      | none => rfl
      | some t =>
        simp only [hygDefault]
        exact hygGuardedLvl_true hcore lvl _ _ (consOK_var _ _ _)
    · rename_i h
      exact hcore c st hc (by simpa using h)

abbrev HygCwcOK (t : Fun.Term) : Prop := ∀ c st, ConsOK c → (hygBoth t).1 c st = true
abbrev HygCompOK (t : Fun.Term) : Prop := ∀ ty st, (hygBoth t).2 ty st = true

theorem hygComp_default {h : HygCwc} (hh : ∀ c st, ConsOK c → h c st = true) :
    ∀ ty st, hygDefault h ty st = true := fun _ _ => hh _ _ (consOK_var _ _ _)


/-- closes goals `(match x with | .error _ => true | .ok .. => true) = true` and conjunctions of
them after the induction hypotheses have been rewritten -/
macro "hyg_close" : tactic => `(tactic| (repeat (first | rfl | split)))

mutual
theorem hyg_term : ∀ t : Fun.Term, namesAgree t = true → HygCwcOK t ∧ HygCompOK t
  | .var _ _ _, _ => ⟨fun _ _ _ => rfl, fun _ _ => rfl⟩
  | .lit _, _ => ⟨fun _ _ _ => rfl, fun _ _ => rfl⟩
  | .op a o b, hn => by
    simp only [namesAgree, Bool.and_eq_true] at hn
    have ha := (hyg_term a hn.1).2
    have hb := (hyg_term b hn.2).2
    have key : ∀ st, ((hygBoth a).2 .i64 st &&
        (match compile a .i64 st with
          | .error _ => true
          | .ok (_, st1) => (hygBoth b).2 .i64 st1)) = true := by
      intro st
      simp only [ha, hb, Bool.true_and]
      hyg_close
    exact ⟨fun _ st _ => key st, fun _ st => key st⟩
  | .ifc srt a b t e ty, hn => by
    simp only [namesAgree, Bool.and_eq_true] at hn
    have ha := (hyg_term a hn.1.1.1).2
    have hb := (hyg_term b hn.1.1.2).2
    have ht := (hyg_term t hn.1.2).1
    have he := (hyg_term e hn.2).1
    have hcwc : HygCwcOK (.ifc srt a b t e ty) := by
      intro c st hc
      simp only [hygBoth]
      have hr : ConsOK (if isLeaf c then (c, st) else share c st).1 := by
        split
        · exact hc
        · exact consOK_share _ _
      generalize (if isLeaf c then (c, st) else share c st) = r at hr
      simp only [ha, hb, ht _ _ hr, he _ _ hr, Bool.true_and]
      hyg_close
    exact ⟨hcwc, hygComp_default hcwc⟩
  | .ifz srt a t e ty, hn => by
    simp only [namesAgree, Bool.and_eq_true] at hn
    have ha := (hyg_term a hn.1.1).2
    have ht := (hyg_term t hn.1.2).1
    have he := (hyg_term e hn.2).1
    have hcwc : HygCwcOK (.ifz srt a t e ty) := by
      intro c st hc
      simp only [hygBoth]
      have hr : ConsOK (if isLeaf c then (c, st) else share c st).1 := by
        split
        · exact hc
        · exact consOK_share _ _
      generalize (if isLeaf c then (c, st) else share c st) = r at hr
      simp only [ha, ht _ _ hr, he _ _ hr, Bool.true_and]
      hyg_close
    exact ⟨hcwc, hygComp_default hcwc⟩
  | .print nl a n ty, hn => by
    simp only [namesAgree, Bool.and_eq_true] at hn
    have ha := (hyg_term a hn.1).2
    have hnx := (hyg_term n hn.2).1
    have hcwc : HygCwcOK (.print nl a n ty) := by
      intro c st hc
      simp only [hygBoth, ha, hnx _ _ hc, Bool.true_and]
      hyg_close
    exact ⟨hcwc, hygComp_default hcwc⟩
  | .letIn x varTy bound body ty, hn => by
    simp only [namesAgree, Bool.and_eq_true] at hn
    have hbc := (hyg_term bound hn.1).1
    have hbp := (hyg_term bound hn.1).2
    have hi := (hyg_term body hn.2).1
    have hcwc : HygCwcOK (.letIn x varTy bound body ty) := by
      intro c st hc
      simp only [hygBoth, hygGuarded]
      refine hygGuardedLvl_true ?_ _ _ _ hc
      intro c st hc hfree
      have hno : noCapture [x] c = true := noCapture_true.2 (bindersOccurFree_false.1 hfree)
      simp only [hno, hi _ _ hc, hbp, Bool.true_and]
      split
      · rfl
      · split
        · rfl
        · exact hbc _ _ (consOK_mu _ _ _)
    exact ⟨hcwc, hygComp_default hcwc⟩
  | .call name args retTy, hn => by
    simp only [namesAgree] at hn
    have hs := hyg_subst args hn
    have hcwc : HygCwcOK (.call name args retTy) := fun c st _ => by
      simp only [hygBoth, hs]
    exact ⟨hcwc, hygComp_default hcwc⟩
  | .ctor id args ty, hn => by
    simp only [namesAgree] at hn
    have hs := hyg_subst args hn
    exact ⟨fun c st _ => by simp only [hygBoth, hs], fun _ st => by simp only [hygBoth, hs]⟩
  | .dtor scrutinee id tyArgs args ty, hn => by
    simp only [namesAgree, Bool.and_eq_true] at hn
    have hsc := (hyg_term scrutinee hn.1).1
    have hs := hyg_subst args hn.2
    have hcwc : HygCwcOK (.dtor scrutinee id tyArgs args ty) := by
      intro c st hc
      simp only [hygBoth, hs, Bool.true_and]
      split
      · rfl
      · split
        · rfl
        · exact hsc _ _ (consOK_xtor _ _ _ _)
    exact ⟨hcwc, hygComp_default hcwc⟩
  | .case scrutinee tyArgs clauses ty, hn => by
    simp only [namesAgree, Bool.and_eq_true] at hn
    have hsc := (hyg_term scrutinee hn.1).1
    have hcl := hyg_clauses clauses hn.2
    have hcwc : HygCwcOK (.case scrutinee tyArgs clauses ty) := by
      intro c st hc
      simp only [hygBoth, hygGuarded]
      refine hygGuardedLvl_true ?_ _ _ _ hc
      intro c st hc hfree
      have hfv := bindersOccurFree_false.1 hfree
      have hr : ConsOK (if (decide (clausesLen clauses ≤ 1) || isLeaf c) = true then (c, st)
          else share c st).1 ∧
          ∀ x ∈ clausesNames clauses, x ∉ fvNames (if (decide (clausesLen clauses ≤ 1) || isLeaf c) = true
            then (c, st) else share c st).1 := by
        split
        · exact ⟨hc, hfv⟩
        · exact ⟨consOK_share _ _, fun x hx h => hfv x hx (fvNames_share_subset c st hc x h)⟩
      generalize (if (decide (clausesLen clauses ≤ 1) || isLeaf c) = true then (c, st)
        else share c st) = r at hr
      simp only [hcl _ _ hr.1 hr.2, Bool.true_and]
      split
      · rfl
      · split
        · rfl
        · exact hsc _ _ (consOK_xcase _ _ _)
    exact ⟨hcwc, hygComp_default hcwc⟩
  | .new clauses ty, hn => by
    simp only [namesAgree] at hn
    have hs := hyg_coclauses clauses hn
    exact ⟨fun c st _ => by simp only [hygBoth, hs], fun _ st => by simp only [hygBoth, hs]⟩
  | .goto target t ty, hn => by
    simp only [namesAgree] at hn
    have ht := (hyg_term t hn).1
    have hcwc : HygCwcOK (.goto target t ty) := by
      intro c st hc
      simp only [hygBoth]
      split
      · rfl
      · exact ht _ _ (consOK_var _ _ _)
    exact ⟨hcwc, hygComp_default hcwc⟩
  | .label a t ty, hn => by
    simp only [namesAgree] at hn
    have ht := (hyg_term t hn).1
    refine ⟨fun c st _ => ?_, fun cty st => ?_⟩
    · simp only [hygBoth]
      split
      · rfl
      · exact ht _ _ (consOK_var _ _ _)
    · simp only [hygBoth]
      split
      · rfl
      · exact ht _ _ (consOK_var _ _ _)
  | .exit arg ty, hn => by
    simp only [namesAgree] at hn
    have ha := (hyg_term arg hn).2
    have hcwc : HygCwcOK (.exit arg ty) := fun c st _ => by simp only [hygBoth, ha]
    exact ⟨hcwc, hygComp_default hcwc⟩
  | .paren inner, hn => by
    simp only [namesAgree] at hn
    have hi := hyg_term inner hn
    exact ⟨fun c st hc => hi.1 c st hc, fun ty st => hi.2 ty st⟩
theorem hyg_subst : ∀ args : Fun.Terms, namesAgreeArgs args = true → ∀ st, hygSubst args st = true
  | .nil, _ => fun _ => rfl
  | .cons term rest, hn => by
    simp only [namesAgreeArgs, Bool.and_eq_true] at hn
    have ht := (hyg_term term hn.1).2
    have hr := hyg_subst rest hn.2
    intro st
    unfold hygSubst
    split
    · exact hr _
    · split
      · rfl
      · simp only [ht, hr, Bool.true_and]
        hyg_close
theorem hyg_clauses : ∀ cs : Fun.Clauses, namesAgreeClauses cs = true →
    ∀ cont st, ConsOK cont → (∀ x ∈ clausesNames cs, x ∉ fvNames cont) →
      hygClauses cs cont st = true
  | .nil, _ => fun _ _ _ _ => rfl
  | .cons pol xtor names ctx body rest, hn => by
    simp only [namesAgreeClauses, Bool.and_eq_true, beq_iff_eq] at hn
    have hb := (hyg_term body hn.1.2).1
    have hr := hyg_clauses rest hn.2
    intro cont st hc hfv
    have hno : noCapture (ctx.map (·.var)) cont = true := by
      rw [noCapture_true, ← hn.1.1]
      exact fun x hx => hfv x (by simp [clausesNames, hx])
    have hrest : ∀ st1, hygClauses rest cont st1 = true :=
      fun st1 => hr cont st1 hc (fun x hx => hfv x (by simp [clausesNames, hx]))
    unfold hygClauses
    simp only [hno, hb _ _ hc, hrest, Bool.true_and]
    hyg_close
theorem hyg_coclauses : ∀ cs : Fun.Clauses, namesAgreeClauses cs = true →
    ∀ st, hygCoclauses cs st = true
  | .nil, _ => fun _ => rfl
  | .cons pol xtor names ctx body rest, hn => by
    simp only [namesAgreeClauses, Bool.and_eq_true] at hn
    have hb := (hyg_term body hn.1.2).1
    have hr := hyg_coclauses rest hn.2
    intro st
    unfold hygCoclauses
    split
    · rfl
    · simp only [hb _ _ (consOK_var _ _ _), hr, Bool.true_and]
      hyg_close
end

/-- C02 no capture, term level: for every term whose clause names agree with its typed clause
contexts (every output of the type checker), every consumer and every state, nowhere in
`compileWithCont t c st` is a consumer placed under a binder whose name occurs free in it. -/
theorem hygienic_cwc (t : Fun.Term) (hn : namesAgree t = true) (c : Core.Term)
    (st : CompileState) (hc : ConsOK c) : (hygBoth t).1 c st = true :=
  (hyg_term t hn).1 c st hc

/-- program level -/
def namesAgreeProg (p : Fun.CheckedProgram) : Bool := p.defs.all fun d => namesAgree d.body

theorem hygDefs_true (cts : List Core.TypeDecl) :
    ∀ (defs : List Fun.Def) (l : List String), (defs.all fun d => namesAgree d.body) = true →
      hygDefs cts defs l = true
  | [], _, _ => rfl
  | d :: rest, l, h => by
    simp only [List.all_cons, Bool.and_eq_true] at h
    unfold hygDefs
    have h1 : ∀ b : Bool, (hygDef b d cts l).1 = true := by
      intro b
      unfold hygDef
      simp only
      split
      · rfl
      · cases b
        · simp only [Bool.false_eq_true, if_false]
          split <;> exact hygienic_cwc d.body h.1 _ _ (consOK_var _ _ _)
        · simp only [if_true]
          split <;> exact hygienic_cwc d.body h.1 _ _ (consOK_mu _ _ _)
    simp only [h1, Bool.true_and]
    exact hygDefs_true cts rest _ h.2

theorem hygienic_prog (p : Fun.CheckedProgram) (h : namesAgreeProg p = true) :
    Hygienic p = true := by
  unfold Hygienic
  exact hygDefs_true _ _ _ h

end Scc.Fun2Core
