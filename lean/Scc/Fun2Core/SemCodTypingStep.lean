/-
  Scc.Fun2Core.SemCodTypingStep — PRESERVATION for the monomorphic state typing `STM`
  (Scc/Fun2Core/SemCodTyping.lean) of the Fun CEK machine on a checked program (`ProgM`): one step
  (`stepM_preserves`), finite runs (`FStepsM_preserves`), the initial state (`initStateM_typed`), and
  the values of pure terms / argument lists (`pureValM_typed`, `pureArgsM_typed`).
  Template: Scc/Fun/SafetyStep.lean, SafetyRun.lean, SafetyPure.lean (the polymorphic judgement `ST`);
  here declarations are looked up by `find?` (no substitution) and only preservation is proved.
-/
import Scc.Fun2Core.SemCodTypingLemmas

namespace Scc.Fun2Core.Sem
open Scc Scc.Fun2Core Scc.Fun2Core.Typed
open Scc.Fun.Typing (lookupCtx bindNames clauseXtors)
open Scc.Fun.Safety (bindNames_self)

/-- the outcome of a step from a well-typed state, as far as preservation is concerned -/
def NextM (P : Fun.CheckedProgram) : Fun.StepResult → Prop
  | .next s' _ => STM P s'
  | _ => True

theorem NextM.next {P : Fun.CheckedProgram} {s' : Fun.State} {o : Option (Bool × Fun.Word)}
    (h : STM P s') : NextM P (.next s' o) := h

/-! ## evaluation steps -/

theorem evalStepM {P : Fun.CheckedProgram} {ρ : Fun.Env} {k : Fun.Stack} {Γ : Fun.Ctx} {τ : Fun.Ty}
    (he : EnvTM P ρ Γ) (hk : KTM P k τ) :
    ∀ (t : Fun.Term), TypedM P t Γ τ → NextM P (Fun.evalStep P t ρ k)
  | .var x ty chi, ht => by
    obtain ⟨v, hv, hvt⟩ := he.var ht
    simp only [Fun.evalStep, hv]
    exact .next (.ret τ hvt hk)
  | .lit n, ht => by
    simp only [TypedM] at ht
    subst ht
    exact .next (.ret .i64 .int hk)
  | .op a o b, ht => by
    simp only [TypedM] at ht
    obtain ⟨rfl, ha, hb⟩ := ht
    exact .next (.eval Γ .i64 he ha (.cons (.opL Γ he hb) hk))
  | .ifc s a b t e an, ht => by
    simp only [TypedM] at ht
    obtain ⟨_, _, ha, hb, h1, h2⟩ := ht
    exact .next (.eval Γ .i64 he ha (.cons (.ifL Γ he hb h1 h2) hk))
  | .ifz s a t e an, ht => by
    simp only [TypedM] at ht
    obtain ⟨_, _, ha, h1, h2⟩ := ht
    exact .next (.eval Γ .i64 he ha (.cons (.ifZ Γ he h1 h2) hk))
  | .print nl a n an, ht => by
    simp only [TypedM] at ht
    obtain ⟨_, _, ha, hn⟩ := ht
    exact .next (.eval Γ .i64 he ha (.cons (.print Γ he hn) hk))
  | .letIn x σ bound body an, ht => by
    simp only [TypedM] at ht
    obtain ⟨_, _, hb, hi⟩ := ht
    simp only [Fun.evalStep]
    by_cases hcd : Fun.isCodataTy P σ = true
    · obtain ⟨v, hv, hvt⟩ := suspend_typedM he hcd bound hb
      simp only [hcd, if_true, hv]
      exact .next (.eval _ τ (.cons ⟨x, .prd, σ⟩ he (.prd rfl hvt)) hi hk)
    · simp only [hcd, Bool.false_eq_true, if_false]
      exact .next (.eval Γ σ he hb (.cons (.letF Γ (by simpa using hcd) he hi) hk))
  | .call f as an, ht => by
    simp only [TypedM] at ht
    obtain ⟨_, _, d, hd, hf, hr, has⟩ := ht
    exact .next (.args Γ [] d.ctx τ (.call d hd hf.symm rfl hr.symm) .nil he has hk)
  | .ctor c as an, ht => by
    simp only [TypedM] at ht
    obtain ⟨_, _, d, c', hd, hc, has⟩ := ht
    exact .next (.args Γ [] c'.args τ (.ctor d c' hd hc rfl) .nil he has hk)
  | .dtor s nm ta as an, ht => by
    simp only [TypedM] at ht
    obtain ⟨_, _, σ, d, sg, hsc, hd, hs, hc, has⟩ := ht
    exact .next (.eval Γ σ he hsc (.cons (.dtorScrut Γ d sg hd hs hc.symm he has) hk))
  | .case s ta cs an, ht => by
    simp only [TypedM] at ht
    obtain ⟨_, _, σ, d, hsc, hd, hcl, _⟩ := ht
    exact .next (.eval Γ σ he hsc (.cons (.caseF Γ d hd he hcl) hk))
  | .new cs an, ht => .next (.ret τ (.obj Γ an he ht) hk)
  | .label a body an, ht => by
    simp only [TypedM] at ht
    obtain ⟨_, _, hb⟩ := ht
    exact .next (.eval _ τ (.cons ⟨a, .cns, τ⟩ he (.cns rfl hk)) hb hk)
  | .goto a u an, ht => by
    simp only [TypedM] at ht
    obtain ⟨_, _, b, hl, hc, ha⟩ := ht
    obtain ⟨v, hv, hb⟩ := he.lookup _ _ hl
    obtain ⟨k', rfl, hk'⟩ := hb.cns_inv hc
    simp only [Fun.evalStep, hv]
    exact .next (.eval Γ b.ty he ha hk')
  | .exit u an, ht => by
    simp only [TypedM] at ht
    obtain ⟨_, _, ha⟩ := ht
    exact .next (.eval Γ .i64 he ha .exit)
  | .paren u, ht => by
    simp only [TypedM] at ht
    exact .next (.eval Γ τ he ht hk)

/-! ## returning a value to a frame -/

theorem retFrameM {P : Fun.CheckedProgram} (hP : ProgM P) {v : Fun.Value} {f : Fun.Frame}
    {k : Fun.Stack} {σ τ : Fun.Ty} (hv : VTM P v σ) (hf : FTM P f σ τ) (hk : KTM P k τ) :
    NextM P (Fun.retFrame v f k) := by
  cases hf with
  | opL Γ he hs =>
    obtain ⟨n, rfl⟩ := hv.int_inv
    exact .next (.eval Γ .i64 he hs (.cons .opR hk))
  | opR =>
    obtain ⟨n, rfl⟩ := hv.int_inv
    rename_i o a
    simp only [Fun.retFrame]
    cases har : Fun.arith o a n with
    | ok r => exact .next (.ret .i64 .int hk)
    | error w => trivial
  | ifL Γ he hs h1 h2 =>
    obtain ⟨n, rfl⟩ := hv.int_inv
    exact .next (.eval Γ .i64 he hs (.cons (.ifR Γ he h1 h2) hk))
  | ifR Γ he h1 h2 =>
    obtain ⟨n, rfl⟩ := hv.int_inv
    simp only [Fun.retFrame]
    split
    · exact .next (.eval Γ τ he h1 hk)
    · exact .next (.eval Γ τ he h2 hk)
  | ifZ Γ he h1 h2 =>
    obtain ⟨n, rfl⟩ := hv.int_inv
    simp only [Fun.retFrame]
    split
    · exact .next (.eval Γ τ he h1 hk)
    · exact .next (.eval Γ τ he h2 hk)
  | print Γ he hn =>
    obtain ⟨n, rfl⟩ := hv.int_inv
    exact .next (.eval Γ τ he hn hk)
  | letF Γ _ he hb =>
    exact .next (.eval _ τ (.cons ⟨_, .prd, σ⟩ he (.prd rfl hv)) hb hk)
  | arg Γ bsDone b bsTodo hh hdone hc hty _ he has =>
    exact .next (.args Γ (bsDone ++ [b]) bsTodo τ (by simpa using hh)
      (hdone.snoc (.prd hc (hty ▸ hv)) _ _) he has hk)
  | caseF Γ d hd he hcl =>
    obtain ⟨K, vs, c, rfl, hc, hvs⟩ := hv.data_inv hP hd
    simp only [Fun.retFrame]
    cases hfc : Fun.findClause K _ with
    | none => trivial
    | some cl =>
      obtain ⟨_, _, hb, hbind⟩ := clauseM_select he hcl hc hfc
      obtain ⟨ρ', h1, h2⟩ := hbind vs hvs
      simp only [h1]
      exact .next (.eval _ τ h2 hb hk)
  | dtorScrut Γ d sg hd hs hτ he has =>
    exact .next (.args Γ [] sg.args τ (.dtor d sg hd hs hv rfl hτ) .nil he has hk)
  | dtorApply d sg hd hs hτ hvs =>
    rcases hv.codata_inv hP hd with ⟨cs, ρ, Γ, an, rfl, he, hnew⟩ | ⟨t, ρ, Γ, rfl, he, ht⟩
    · simp only [Fun.retFrame]
      cases hfc : Fun.findClause _ cs with
      | none => trivial
      | some cl =>
        obtain ⟨Γ', _, _, _, _, _, hb, hbind⟩ := hv.obj_clause hd hs hfc
        obtain ⟨ρ', h1, h2⟩ := hbind _ hvs
        simp only [h1]
        exact .next (.eval _ τ h2 (hτ ▸ hb) hk)
    · exact .next (.eval Γ _ he ht (.cons (.dtorApply d sg hd hs hτ hvs) hk))

/-! ## argument lists -/

theorem applyHeadM {P : Fun.CheckedProgram} (hP : ProgM P) {h : Fun.ArgHead}
    {done : List Fun.Value} {k : Fun.Stack} {bs : Fun.Ctx} {τ : Fun.Ty} (hh : HTM P h bs τ)
    (hdone : VTsM P done bs) (hk : KTM P k τ) : NextM P (Fun.applyHead P h done k) := by
  cases hh with
  | call d hd hf hbs hτ =>
    subst hf; subst hbs; subst hτ
    obtain ⟨ρ', h1, h2⟩ := bindAll_typedM (d.ctx.map (·.var)) done d.ctx [] [] hdone (by simp) .nil
    rw [bindNames_self] at h2
    simp only [Fun.applyHead, findDef_of_mem hP hd, h1]
    exact .next (.eval _ d.retTy h2 (hP.defs d hd).body hk)
  | ctor d c hd hc hbs =>
    subst hbs
    exact .next (.ret τ (.con d c hd hc hdone) hk)
  | dtor d sg hd hs hv hbs hτ =>
    subst hbs
    exact .next (.ret _ hv (.cons (.dtorApply d sg hd hs hτ hdone) hk))

theorem argsStepM {P : Fun.CheckedProgram} (hP : ProgM P) {h : Fun.ArgHead}
    {done : List Fun.Value} {ρ : Fun.Env} {k : Fun.Stack} {Γ bsDone : Fun.Ctx} {τ : Fun.Ty}
    (hdone : VTsM P done bsDone) (he : EnvTM P ρ Γ) (hk : KTM P k τ) :
    ∀ (todo : Fun.Terms) (bsTodo : Fun.Ctx), HTM P h (bsDone ++ bsTodo) τ →
    ArgsM P todo Γ bsTodo → NextM P (Fun.argsStep P h done todo ρ k)
  | .nil, bsTodo, hh, has => by
    simp only [ArgsM] at has
    subst has
    simp only [Fun.argsStep]
    exact applyHeadM hP (by simpa using hh) hdone hk
  | .cons t r, bsTodo, hh, has => by
    simp only [ArgsM] at has
    obtain ⟨b, bs, rfl, hr, hb⟩ := has
    rcases hb with ⟨hc, ht⟩ | ⟨hc, x, b', rfl, hl, hc', hty⟩
    · rw [argsStep_cons, isCov_of_typed ht, getTypeM_of_typed P t Γ b.ty ht]
      simp only
      by_cases hcd : Fun.isCodataTy P b.ty = true
      · obtain ⟨v, hv, hvt⟩ := suspend_typedM he hcd t ht
        simp only [hcd, if_true, hv]
        exact .next (.args Γ (bsDone ++ [b]) bs τ (by simpa using hh)
          (hdone.snoc (.prd hc hvt) _ _) he hr hk)
      · simp only [hcd, Bool.false_eq_true, if_false]
        exact .next (.eval Γ b.ty he ht
          (.cons (.arg Γ bsDone b bs hh hdone hc rfl (by simpa using hcd) he hr) hk))
    · obtain ⟨v, hv, hb⟩ := he.lookup _ _ hl
      obtain ⟨c, rfl, hkc⟩ := hb.cns_inv hc'
      simp only [Fun.argsStep, hv]
      exact .next (.args Γ (bsDone ++ [b]) bs τ (by simpa using hh)
        (hdone.snoc (.cns hc (hty ▸ hkc)) _ _) he hr hk)

/-! ## one step, runs -/

theorem stepM_next {P : Fun.CheckedProgram} (hP : ProgM P) {s : Fun.State} (hs : STM P s) :
    NextM P (Fun.step P s) := by
  cases hs with
  | eval Γ τ he ht hk => exact evalStepM he hk _ ht
  | args Γ bsDone bsTodo τ hh hdone he has hk => exact argsStepM hP hdone he hk _ _ hh has
  | @ret v k τ hv hk =>
    cases hk with
    | nil =>
      obtain ⟨n, rfl⟩ := hv.int_inv
      trivial
    | exit =>
      obtain ⟨n, rfl⟩ := hv.int_inv
      trivial
    | cons hf hk' => exact retFrameM hP hv hf hk'

/-- PRESERVATION: a step from a well-typed state of a checked program leads to a well-typed state -/
theorem stepM_preserves {P : Fun.CheckedProgram} (hP : ProgM P) {s s' : Fun.State}
    {o : Option (Bool × Fun.Word)} (hs : STM P s) (h : Fun.step P s = .next s' o) : STM P s' := by
  have := stepM_next hP hs
  rw [h] at this
  exact this

/-- every state reached from a well-typed state is well-typed -/
theorem FStepsM_preserves {P : Fun.CheckedProgram} (hP : ProgM P) {s s' : Fun.State} {o : Out}
    {j : Nat} (h : FSteps P s s' o j) (hs : STM P s) : STM P s' := by
  induction h with
  | refl s => exact hs
  | silent h1 _ ih => exact ih (stepM_preserves hP hs h1)
  | emit h1 _ ih => exact ih (stepM_preserves hP hs h1)

/-! ## the initial state -/

theorem vtsM_ints {P : Fun.CheckedProgram} : ∀ (args : List Fun.Word) (bs : Fun.Ctx),
    (∀ b ∈ bs, b.chi = .prd ∧ b.ty = .i64) → args.length = bs.length →
    VTsM P (args.map .int) bs
  | [], [], _, _ => .nil
  | [], _ :: _, _, h => by simp at h
  | _ :: _, [], _, h => by simp at h
  | a :: as, b :: bs, hb, h => by
    obtain ⟨h1, h2⟩ := hb b (by simp)
    refine .cons (.prd h1 (h2 ▸ .int)) (vtsM_ints as bs (fun x hx => hb x (by simp [hx])) ?_)
    simpa using h

/-- the initial state is well-typed: `main` takes integer producers and returns an integer, one
argument per parameter -/
theorem initStateM_typed {P : Fun.CheckedProgram} (hP : ProgM P) {dm : Fun.Def}
    (hfind : Fun.findDef P "main" = some dm) (hsig : ∀ b ∈ dm.ctx, b.chi = .prd ∧ b.ty = .i64)
    (hret : dm.retTy = .i64) (args : List Fun.Word) (hlen : args.length = dm.ctx.length) :
    ∃ s, Fun.initState P args = .ok s ∧ STM P s := by
  obtain ⟨hmem, _⟩ := findDef_mem' hfind
  obtain ⟨ρ, h1, h2⟩ := bindAll_typedM (P := P) (dm.ctx.map (·.var)) (args.map .int) dm.ctx [] []
    (vtsM_ints args dm.ctx hsig hlen) (by simp) .nil
  rw [bindNames_self] at h2
  refine ⟨.eval dm.body ρ [], by simp [Fun.initState, hfind, h1], ?_⟩
  refine .eval dm.ctx dm.retTy h2 (hP.defs dm hmem).body ?_
  rw [hret]
  exact .nil

/-! ## pure terms and argument lists -/

mutual
  /-- a pure, typed term has a value of its type -/
  theorem pureValM_typed {P : Fun.CheckedProgram} (hP : ProgM P) {ρ : Fun.Env} {Γ : Fun.Ctx}
      (he : EnvTM P ρ Γ) : ∀ (t : Fun.Term) (τ : Fun.Ty), Fun.pureTerm t = true →
      TypedM P t Γ τ → ∃ v, pureVal P t ρ = some v ∧ VTM P v τ
    | .var x ty chi, τ, _, ht => by
      obtain ⟨v, hv, hvt⟩ := he.var ht
      exact ⟨v, by simpa [pureVal] using hv, hvt⟩
    | .lit n, τ, _, ht => by
      simp only [TypedM] at ht
      subst ht
      exact ⟨_, rfl, .int⟩
    | .op a o b, τ, hp, ht => by
      simp only [Fun.pureTerm, Bool.and_eq_true] at hp
      simp only [TypedM] at ht
      obtain ⟨rfl, ha, hb⟩ := ht
      obtain ⟨va, h1, hva⟩ := pureValM_typed hP he a .i64 hp.1.2 ha
      obtain ⟨vb, h2, hvb⟩ := pureValM_typed hP he b .i64 hp.2 hb
      obtain ⟨x, rfl⟩ := hva.int_inv
      obtain ⟨y, rfl⟩ := hvb.int_inv
      obtain ⟨r, hr⟩ := arith_ok_of_pure hp.1.1.1 hp.1.1.2 x y
      exact ⟨.int r, by simp [pureVal, h1, h2, hr, exceptToOption, Except.map], .int⟩
    | .ctor c as an, τ, hp, ht => by
      simp only [Fun.pureTerm] at hp
      simp only [TypedM] at ht
      obtain ⟨_, _, d, c', hd, hc, has⟩ := ht
      obtain ⟨vs, h1, hvs⟩ := pureArgsM_typed hP he as _ hp has
      exact ⟨.con c vs, by simp [pureVal, h1], .con d c' hd hc hvs⟩
    | .new cs an, τ, _, ht => ⟨_, rfl, .obj Γ an he ht⟩
    | .paren t, τ, hp, ht => by
      simp only [Fun.pureTerm] at hp
      simp only [TypedM] at ht
      obtain ⟨v, h1, hv⟩ := pureValM_typed hP he t τ hp ht
      exact ⟨v, by simpa [pureVal] using h1, hv⟩
    | .ifc .., _, hp, _ => by simp [Fun.pureTerm] at hp
    | .ifz .., _, hp, _ => by simp [Fun.pureTerm] at hp
    | .print .., _, hp, _ => by simp [Fun.pureTerm] at hp
    | .letIn .., _, hp, _ => by simp [Fun.pureTerm] at hp
    | .call .., _, hp, _ => by simp [Fun.pureTerm] at hp
    | .dtor .., _, hp, _ => by simp [Fun.pureTerm] at hp
    | .case .., _, hp, _ => by simp [Fun.pureTerm] at hp
    | .label .., _, hp, _ => by simp [Fun.pureTerm] at hp
    | .goto .., _, hp, _ => by simp [Fun.pureTerm] at hp
    | .exit .., _, hp, _ => by simp [Fun.pureTerm] at hp
  /-- a pure, typed argument list has values for the parameters -/
  theorem pureArgsM_typed {P : Fun.CheckedProgram} (hP : ProgM P) {ρ : Fun.Env} {Γ : Fun.Ctx}
      (he : EnvTM P ρ Γ) : ∀ (ts : Fun.Terms) (bs : Fun.Ctx), Fun.pureTerms ts = true →
      ArgsM P ts Γ bs → ∃ vs, pureArgs P ts ρ = some vs ∧ VTsM P vs bs
    | .nil, bs, _, has => by
      simp only [ArgsM] at has
      subst has
      exact ⟨[], rfl, .nil⟩
    | .cons t r, bs, hp, has => by
      simp only [Fun.pureTerms, Bool.and_eq_true] at hp
      rw [pureArgs_cons]
      simp only [ArgsM] at has
      obtain ⟨b, bs', rfl, hr, hb⟩ := has
      obtain ⟨vr, h2, hvr⟩ := pureArgsM_typed hP he r bs' hp.2 hr
      rcases hb with ⟨hc, ht⟩ | ⟨hc, x, b', rfl, hl, hc', hty⟩
      · have hav : ∃ v, argVal P t ρ = some v ∧ VTM P v b.ty := by
          simp only [argVal, argValWith, isCov_of_typed ht, getTypeM_of_typed P t Γ b.ty ht]
          by_cases hcd : Fun.isCodataTy P b.ty = true
          · obtain ⟨v, hv, hvt⟩ := suspend_typedM he hcd t ht
            exact ⟨v, by simp [hcd, hv, exceptToOption], hvt⟩
          · obtain ⟨v, hv, hvt⟩ := pureValM_typed hP he t b.ty hp.1 ht
            exact ⟨v, by simp [hcd, hv], hvt⟩
        obtain ⟨v, h1, hv⟩ := hav
        exact ⟨v :: vr, by simp [h1, h2], .cons (.prd hc hv) hvr⟩
      · obtain ⟨v, hv, hb⟩ := he.lookup _ _ hl
        obtain ⟨c, rfl, hkc⟩ := hb.cns_inv hc'
        exact ⟨.cont c :: vr, by simp [argVal, argValWith, isCov, hv, h2],
          .cons (.cns hc (hty ▸ hkc)) hvr⟩
end

/-- the machine evaluates a pure, typed term to a value of its type, silently, in ≥ 1 steps -/
theorem pure_evalM {P : Fun.CheckedProgram} (hP : ProgM P) {ρ : Fun.Env} {Γ : Fun.Ctx}
    (he : EnvTM P ρ Γ) {t : Fun.Term} {τ : Fun.Ty} (hp : Fun.pureTerm t = true)
    (ht : TypedM P t Γ τ) (k : Fun.Stack) :
    ∃ v j, 1 ≤ j ∧ FSteps P (.eval t ρ k) (.ret v k) [] j ∧ VTM P v τ := by
  obtain ⟨v, h1, hv⟩ := pureValM_typed hP he t τ hp ht
  obtain ⟨j, hj, fj⟩ := fun_pure P t ρ v k hp h1
  exact ⟨v, j, hj, fj, hv⟩

/-- the machine evaluates a pure, typed argument list to values for the parameters -/
theorem pure_argsM {P : Fun.CheckedProgram} (hP : ProgM P) {ρ : Fun.Env} {Γ : Fun.Ctx}
    (he : EnvTM P ρ Γ) {ts : Fun.Terms} {bs : Fun.Ctx} (hp : Fun.pureTerms ts = true)
    (has : ArgsM P ts Γ bs) (h : Fun.ArgHead) (done : List Fun.Value) (k : Fun.Stack) :
    ∃ vs j, FSteps P (.args h done ts ρ k) (.args h (done ++ vs) .nil ρ k) [] j ∧
      VTsM P vs bs := by
  obtain ⟨vs, h1, hvs⟩ := pureArgsM_typed hP he ts bs hp has
  obtain ⟨j, fj⟩ := fun_pureArgs P ts ρ vs h done k hp h1
  exact ⟨vs, j, fj, hvs⟩

end Scc.Fun2Core.Sem
