/-
  Scc.Fun2Core.SemBase — generic facts about the two fuel-indexed machines used by the semantic part
  of C02 (Fun CEK machine `Scc.Fun.runFrom`, Core ς-machine `Scc.Core.stepN`): finite step sequences,
  composition with the fuel-indexed runs, and the abstract "chunk simulation" theorem: a relation
  between Fun states and Core states such that from related states either the Fun machine stops
  after finitely many silent steps (and the Core machine stops with the same result if the result is
  one the properties speak about), or both machines advance to related states emitting the same
  output, yields the forward half of `ObsSame`.  (The backward half, SemBack.lean, uses the `cpos`
  component of a chunk: the Core machine advances or the Fun machine arrives at a smaller term.)
  Proof file; nothing here is executable model code.
-/
import Scc.Fun.Sem
import Scc.Core.Sem
import Scc.Fun2Core.Size

namespace Scc.Fun2Core.Sem
open Scc

abbrev Out := List (Bool × BitVec 64)

/-! ## finite step sequences of the Fun machine -/

/-- `j` steps of the Fun machine from `s` to `s'`, emitting `o` -/
inductive FSteps (p : Fun.CheckedProgram) : Fun.State → Fun.State → Out → Nat → Prop
  | refl (s) : FSteps p s s [] 0
  | silent {s s1 s' o j} : Fun.step p s = .next s1 none → FSteps p s1 s' o j →
      FSteps p s s' o (j + 1)
  | emit {s s1 s' e o j} : Fun.step p s = .next s1 (some e) → FSteps p s1 s' o j →
      FSteps p s s' (e :: o) (j + 1)

theorem FSteps.one {p s s'} (h : Fun.step p s = .next s' none) : FSteps p s s' [] 1 :=
  .silent h (.refl _)

theorem FSteps.oneEmit {p s s' e} (h : Fun.step p s = .next s' (some e)) : FSteps p s s' [e] 1 :=
  .emit h (.refl _)

theorem FSteps.trans {p s1 s2 s3 o1 o2 j1 j2} (h1 : FSteps p s1 s2 o1 j1)
    (h2 : FSteps p s2 s3 o2 j2) : FSteps p s1 s3 (o1 ++ o2) (j1 + j2) := by
  induction h1 with
  | refl s => simpa using h2
  | silent hs _ ih =>
    have := FSteps.silent hs (ih h2)
    rw [show ∀ a b : Nat, a + 1 + b = a + b + 1 by omega]
    exact this
  | emit hs _ ih =>
    have := FSteps.emit hs (ih h2)
    rw [show ∀ a b : Nat, a + 1 + b = a + b + 1 by omega]
    exact this

theorem runFrom_FSteps {p s s' o j} (h : FSteps p s s' o j) (n : Nat) (acc : Out) :
    Fun.runFrom p (j + n) s acc = Fun.runFrom p n s' (o.reverse ++ acc) := by
  induction h generalizing acc with
  | refl s => simp
  | @silent s s1 s' o j hs _ ih =>
    rw [show j + 1 + n = (j + n) + 1 by omega, Fun.runFrom, hs]
    exact ih acc
  | @emit s s1 s' e o j hs _ ih =>
    rw [show j + 1 + n = (j + n) + 1 by omega, Fun.runFrom, hs]
    simp only
    rw [ih]
    simp

/-- with less fuel than silent steps the run is out of fuel and has emitted nothing new -/
theorem runFrom_short {p s s' j} (h : FSteps p s s' [] j) (n : Nat) (hn : n ≤ j) (acc : Out) :
    Fun.runFrom p n s acc = ⟨acc.reverse, .outOfFuel⟩ := by
  generalize ho : ([] : Out) = o at h
  induction h generalizing n acc with
  | refl s =>
    have : n = 0 := by omega
    subst this; rfl
  | silent hs _ ih =>
    cases n with
    | zero => rfl
    | succ n =>
      rw [Fun.runFrom, hs]
      exact ih n (by omega) acc ho
  | emit hs _ ih => cases ho

theorem runFrom_zero (p s acc) : Fun.runFrom p 0 s acc = ⟨acc.reverse, .outOfFuel⟩ := rfl

/-! ## finite step sequences of the Core machine -/

/-- `i` steps of the Core machine -/
inductive CSteps (q : Core.Prog) : Core.State → Core.State → Nat → Prop
  | refl (S) : CSteps q S S 0
  | step {S S1 S' i} : Core.step q S = .next S1 → CSteps q S1 S' i → CSteps q S S' (i + 1)

theorem CSteps.one {q S S'} (h : Core.step q S = .next S') : CSteps q S S' 1 := .step h (.refl _)

theorem CSteps.trans {q S1 S2 S3 i1 i2} (h1 : CSteps q S1 S2 i1) (h2 : CSteps q S2 S3 i2) :
    CSteps q S1 S3 (i1 + i2) := by
  induction h1 with
  | refl S => simpa using h2
  | step hs _ ih =>
    rw [show ∀ a b : Nat, a + 1 + b = a + b + 1 by omega]
    exact .step hs (ih h2)

theorem stepN_CSteps {q S S' i} (h : CSteps q S S' i) (n : Nat) :
    Core.stepN q (i + n) S = Core.stepN q n S' := by
  induction h with
  | refl S => simp
  | @step S S1 S' i hs _ ih =>
    rw [show i + 1 + n = (i + n) + 1 by omega, Core.stepN, hs]
    exact ih

/-! ## results -/

/-- the outcomes the properties speak about, and their Core counterparts -/
inductive ResMatch : Fun.Result → Core.Res → Prop
  | done (v) : ResMatch (.done v) (.done v)
  | div : ResMatch (.stuck .divByZero) (.stuck .divByZero)
  | ovf : ResMatch (.stuck .overflow) (.stuck .overflow)

/-- a Fun step result that ends the run, as a `Result` -/
def finalOf : Fun.StepResult → Option Fun.Result
  | .next _ _ => none
  | .done v => some (.done v)
  | .stuck w => some (.stuck w)

def Finished : Fun.Result → Prop
  | .done _ => True
  | .stuck .divByZero => True
  | .stuck .overflow => True
  | _ => False

theorem runFrom_final {p s r} (h : finalOf (Fun.step p s) = some r) (n : Nat) (acc : Out) :
    Fun.runFrom p (n + 1) s acc = ⟨acc.reverse, r⟩ := by
  rw [Fun.runFrom]
  cases hs : Fun.step p s with
  | next s' o => rw [hs] at h; cases h
  | done v => rw [hs] at h; cases h; rfl
  | stuck w => rw [hs] at h; cases h; rfl

theorem stepN_final {q S r} (h : Core.step q S = .final r) (n : Nat) :
    Core.stepN q (n + 1) S = ⟨S.out, r⟩ := by
  rw [Core.stepN, h]

/-! ## the chunk simulation -/

/-- the last step of a chunk: none, or one step that may print -/
def Last (p : Fun.CheckedProgram) (s1 s' : Fun.State) (o : Out) : Prop :=
  (s' = s1 ∧ o = []) ∨ ∃ e, Fun.step p s1 = .next s' e ∧ o = e.toList

/-- the Fun machine stops after `j` silent steps with the result `r`, and if `r` is a result or an
arithmetic fault the Core machine stops with the same after finitely many silent steps -/
def FinalAlt (p : Fun.CheckedProgram) (q : Core.Prog) (s : Fun.State) (S : Core.State) : Prop :=
  ∃ j s1 r, FSteps p s s1 [] j ∧ finalOf (Fun.step p s1) = some r ∧
    (Finished r → ∃ i S1 r', CSteps q S S1 i ∧ S1.out = S.out ∧ Core.step q S1 = .final r' ∧
      ResMatch r r')

/-- the size of the term under evaluation (0 for the other states): the measure that decreases in
the chunks without a Core step -/
def msize : Fun.State → Nat
  | .eval t _ _ => funSize t
  | _ => 0

/-- both machines advance to related states: the Fun machine by `j` silent steps and possibly one
more step (which may print), the Core machine by any number of steps, emitting the same.
`strict`: the Fun machine really advances; `cpos`: the Core machine really advances, or the Fun
machine arrives at the evaluation of a term smaller than `μ` -/
def ContAlt (p : Fun.CheckedProgram) (q : Core.Prog) (R : Fun.State → Core.State → Prop)
    (strict cpos : Bool) (μ : Nat) (s : Fun.State) (S : Core.State) : Prop :=
  ∃ j s1 s' o i S', FSteps p s s1 [] j ∧ Last p s1 s' o ∧ (strict = true → 1 ≤ j ∨ s' ≠ s1 ∨ o ≠ []) ∧
    (cpos = true → 1 ≤ i ∨ msize s' < μ) ∧
    CSteps q S S' i ∧ S'.out = S.out ++ o ∧ R s' S'

/-- one chunk from the pair `(s, S)` -/
def Chunk (p : Fun.CheckedProgram) (q : Core.Prog) (R : Fun.State → Core.State → Prop)
    (strict cpos : Bool) (μ : Nat) (s : Fun.State) (S : Core.State) : Prop :=
  FinalAlt p q s S ∨ ContAlt p q R strict cpos μ s S

def ChunkSim (p : Fun.CheckedProgram) (q : Core.Prog) (R : Fun.State → Core.State → Prop) : Prop :=
  ∀ s S, R s S → Chunk p q R true true (msize s) s S

theorem Chunk.weaken {p q R c μ s S} (h : Chunk p q R true c μ s S) : Chunk p q R false c μ s S := by
  rcases h with h | ⟨j, s1, s', o, i, S', h1, h2, _, h3, h4, h5, h6⟩
  · exact .inl h
  · exact .inr ⟨j, s1, s', o, i, S', h1, h2, (fun h => by cases h), h3, h4, h5, h6⟩

theorem Chunk.weakenC {p q R b c μ μ' s S} (h : Chunk p q R b c μ s S) : Chunk p q R b false μ' s S := by
  rcases h with h | ⟨j, s1, s', o, i, S', h1, h2, h0, _, h4, h5, h6⟩
  · exact .inl h
  · exact .inr ⟨j, s1, s', o, i, S', h1, h2, h0, (fun h => by cases h), h4, h5, h6⟩

/-- a chunk after a silent prefix (on both sides) is a chunk; strict if the prefix is not empty -/
theorem Chunk.prefix {p q R b c c0 μ s S s0 S0 j0 i0} (hf : FSteps p s s0 [] j0) (hc : CSteps q S S0 i0)
    (hout : S0.out = S.out) (hj : b = true → 1 ≤ j0) (hi : c = true → 1 ≤ i0 ∨ c0 = true)
    (h : Chunk p q R false c0 μ s0 S0) :
    Chunk p q R b c μ s S := by
  rcases h with ⟨j, s1, r, h1, h2, h3⟩ | ⟨j, s1, s', o, i, S', h1, h2, _, h3, h4, h5, h6⟩
  · refine .inl ⟨j0 + j, s1, r, by simpa using hf.trans h1, h2, fun hfin => ?_⟩
    obtain ⟨i, S1, r', g1, g2, g3, g4⟩ := h3 hfin
    exact ⟨i0 + i, S1, r', hc.trans g1, by rw [g2, hout], g3, g4⟩
  · refine .inr ⟨j0 + j, s1, s', o, i0 + i, S', by simpa using hf.trans h1, h2, ?_, ?_, hc.trans h4,
      by rw [h5, hout], h6⟩
    · intro hb
      have := hj hb
      exact .inl (by omega)
    · intro hcc
      rcases hi hcc with h | h
      · exact .inl (by omega)
      · rcases h3 h with h | h
        · exact .inl (by omega)
        · exact .inr h

theorem stepN_out_zero (q S) : (Core.stepN q 0 S).out = S.out := rfl

theorem step_of_last_ne {p s1 s' o} (h : Last p s1 s' o) (hne : s' ≠ s1 ∨ o ≠ []) :
    ∃ e, Fun.step p s1 = .next s' e ∧ o = e.toList := by
  rcases h with ⟨h1, h2⟩ | h
  · rcases hne with h | h
    · exact absurd h1 h
    · exact absurd h2 h
  · exact h

/-- the forward half: every finished Fun run is matched, and every Fun trace is a prefix of a Core
trace -/
theorem chunkSim_forward {p q R} (hsim : ChunkSim p q R) :
    ∀ (n : Nat) (s : Fun.State) (S : Core.State) (acc : Out), R s S → S.out = acc.reverse →
      (Finished (Fun.runFrom p n s acc).res →
        ∃ m r', Core.stepN q m S = ⟨(Fun.runFrom p n s acc).out, r'⟩ ∧
          ResMatch (Fun.runFrom p n s acc).res r') ∧
      (∃ m, (Fun.runFrom p n s acc).out <+: (Core.stepN q m S).out) := by
  intro n
  induction n using Nat.strongRecOn with
  | _ n ih =>
    intro s S acc hR hout
    rcases hsim s S hR with ⟨j, s1, r, hf, hfin, hcore⟩ |
      ⟨j, s1, s', o, i, S', hf, hlast, hstrict, hcpos, hc, ho, hR'⟩
    · by_cases hn : n ≤ j
      · rw [runFrom_short hf n hn acc]
        exact ⟨fun h => h.elim, 0, by simp [stepN_out_zero, hout]⟩
      · obtain ⟨k, rfl⟩ : ∃ k, n = j + (k + 1) := ⟨n - j - 1, by omega⟩
        rw [runFrom_FSteps hf, runFrom_final hfin]
        simp only [List.reverse_nil, List.nil_append]
        constructor
        · intro hfi
          obtain ⟨i, S1, r', hc, ho, hs, hm⟩ := hcore hfi
          refine ⟨i + (0 + 1), r', ?_, hm⟩
          rw [stepN_CSteps hc, stepN_final hs, ho, hout]
        · exact ⟨0, by simp [stepN_out_zero, hout]⟩
    · by_cases hn : n ≤ j
      · by_cases hnj : n = j ∧ s' = s1 ∧ o = []
        · -- the chunk is exactly the `j` silent steps, and `1 ≤ j`
          obtain ⟨rfl, rfl, rfl⟩ := hnj
          have hj : 1 ≤ n := by
            rcases hstrict rfl with h | h | h
            · exact h
            · exact absurd rfl h
            · exact absurd rfl h
          have := runFrom_FSteps hf 0 acc
          simp only [Nat.add_zero, List.reverse_nil, List.nil_append] at this
          rw [this]
          simp only [List.append_nil] at ho
          have hout' : S'.out = acc.reverse := by rw [ho, hout]
          obtain ⟨h1, h2⟩ := ih 0 (by omega) s' S' acc hR' hout'
          constructor
          · intro hfi
            obtain ⟨m, r', hm, hr⟩ := h1 hfi
            exact ⟨i + m, r', by rw [stepN_CSteps hc, hm], hr⟩
          · obtain ⟨m, hm⟩ := h2
            exact ⟨i + m, by rw [stepN_CSteps hc]; exact hm⟩
        · rw [runFrom_short hf n hn acc]
          exact ⟨fun h => h.elim, 0, by simp [stepN_out_zero, hout]⟩
      · -- enough fuel for the whole chunk
        have htot : ∃ jt, FSteps p s s' o jt ∧ jt ≤ n ∧ 1 ≤ jt := by
          rcases hlast with ⟨h1, h2⟩ | ⟨e, he, ho'⟩
          · subst h1; subst h2
            have hj : 1 ≤ j := by
              rcases hstrict rfl with h | h | h
              · exact h
              · exact absurd rfl h
              · exact absurd rfl h
            exact ⟨j, hf, by omega, hj⟩
          · have h1 : FSteps p s1 s' o 1 := by
              subst ho'
              cases e with
              | none => exact .one he
              | some e => exact .oneEmit he
            have := hf.trans h1
            simp only [List.nil_append] at this
            exact ⟨j + 1, this, by omega, by omega⟩
        obtain ⟨jt, hft, hle, hpos⟩ := htot
        obtain ⟨k, rfl⟩ : ∃ k, n = jt + k := ⟨n - jt, by omega⟩
        rw [runFrom_FSteps hft]
        have hout' : S'.out = (o.reverse ++ acc).reverse := by simp [ho, hout]
        by_cases hk : k < jt + k
        · obtain ⟨h1, h2⟩ := ih k hk s' S' _ hR' hout'
          constructor
          · intro hfi
            obtain ⟨m, r', hm, hr⟩ := h1 hfi
            exact ⟨i + m, r', by rw [stepN_CSteps hc, hm], hr⟩
          · obtain ⟨m, hm⟩ := h2
            exact ⟨i + m, by rw [stepN_CSteps hc]; exact hm⟩
        · omega

end Scc.Fun2Core.Sem
