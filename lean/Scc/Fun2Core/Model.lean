/-
  Scc.Fun2Core.Model — executable model of the Fun → Core translation, transcribed from
    /repo/lang/fun2core/src/{compile,arguments,context,types,declaration,def,program}.rs,
    /repo/lang/fun2core/src/terms/*.rs,
    /repo/lang/fun/src/syntax/names.rs (fresh_name / fresh_var / fresh_covar),
    /repo/lang/fun/src/traits/used_binders.rs and the impls in fun/src/syntax/terms/*.rs,
    /repo/lang/core_lang/src/traits/typed_free_vars.rs and the impls in core_lang/src/syntax/**,
    /repo/lang/core_lang/src/syntax/types.rs (`is_codata`), terms/*.rs (`get_type`).
  Input: `Scc.Fun.CheckedProgram` (dump S1); output: `Scc.Core.Prog` (dump S2).
  Core imports only; executable; every function is structurally recursive.
  State of /repo: including the fixes ce30c7b (capture guard in let.rs / case.rs) and 2d51e38
  (goto.rs: type of the target covariable).

  Representation notes
  * `HashSet<String>` (used variables / used labels) is a `List String` with `insert` = cons if
    absent; only `contains`/`insert` are ever used on these sets, so iteration order is irrelevant.
  * `BTreeSet<ContextBinding>` is a strictly sorted list under the derived `Ord`:
    var (name, id), then chi (Prd < Cns), then ty (I64 < Decl (name, id)); Strings compare
    lexicographically by code point (= byte-wise for UTF-8).
  * `VecDeque<Def>` is a `List` (`push_front` = cons).
  * The Rust trait `Compile` has two methods; `compile` has a default body that calls
    `compile_with_cont` ON THE SAME TERM.  To stay structurally recursive the model computes both
    methods of a term at once (`compileBoth t : CwcFn × CompFn`); `compileWithCont`/`compile` are the
    two projections, and the per-constructor equations are the Rust method bodies.
  * A Rust `expect("Types should be annotated before translation")` is `Except.error "<site>"`.
-/
import Scc.Fun.Syntax
import Scc.Core.Syntax

namespace Scc.Fun2Core
open Scc

/-! ## names: fun/src/syntax/names.rs -/

/-- HashSet::insert on the list model -/
def setInsert (x : String) (s : List String) : List String :=
  if s.contains x then s else x :: s

/-- names.rs: fn fresh_name — the `while` loop; `fuel` = |used| + 1 always suffices (pigeonhole,
proved in `Scc.Fun2Core.Fresh`), so the `0` branch is unreachable from `freshName`. -/
def freshNameLoop (used : List String) (base : String) : Nat → Nat → String
  | 0, n => base ++ toString n
  | fuel + 1, n =>
    let newName := base ++ toString n
    if used.contains newName then freshNameLoop used base fuel (n + 1) else newName

-- names.rs: fn fresh_name (returns the name and the updated set)
def freshName (used : List String) (base : String) : String × List String :=
  let newName := freshNameLoop used base (used.length + 1) 0
  (newName, newName :: used)

/-! ## types.rs / context.rs -/

mutual
  /-- fun/src/syntax/types.rs: impl Print for Ty, with `allow_linebreaks = false`
  (`print_to_string(None)`): `i64`, `Name`, `Name[T1, T2]` -/
  def printTy : Fun.Ty → String
    | .i64 => "i64"
    | .decl n .nil => n
    | .decl n (.cons t r) => n ++ "[" ++ printTys (.cons t r) ++ "]"
  /-- printer/src/types.rs: fn print_comma_separated (no line breaks) -/
  def printTys : Fun.Tys → String
    | .nil => ""
    | .cons t .nil => printTy t
    | .cons t (.cons u r) => printTy t ++ ", " ++ printTys (.cons u r)
end

-- types.rs: fn compile_ty
def compileTy (ty : Fun.Ty) : Core.Ty :=
  match ty with
  | .i64 => .i64
  | .decl n a => .decl ⟨printTy (.decl n a), 0⟩

-- context.rs: fn compile_chi
def compileChi : Fun.Chi → Core.PC
  | .prd => .prd
  | .cns => .cns

-- context.rs: fn compile_context
def compileContext (ctx : Fun.Ctx) : Core.Ctx :=
  ctx.map fun b => ⟨⟨b.var, 0⟩, compileChi b.chi, compileTy b.ty⟩

/-- fun/src/syntax/context.rs: TypingContext::vars (as a set) -/
def ctxVars (ctx : Fun.Ctx) : List String :=
  ctx.foldl (fun acc b => setInsert b.var acc) []

/-! ## fun/src/traits/used_binders.rs and impls -/

mutual
  -- fun/src/syntax/terms/*.rs: fn used_binders
  def usedBinders : Fun.Term → List String → List String
    | .var _ _ _, used => used
    | .lit _, used => used
    | .op a _ b, used => usedBinders b (usedBinders a used)
    | .ifc _ a b t e _, used => usedBinders e (usedBinders t (usedBinders b (usedBinders a used)))
    | .ifz _ a t e _, used => usedBinders e (usedBinders t (usedBinders a used))
    | .print _ a n _, used => usedBinders n (usedBinders a used)
    | .letIn x _ b i _, used => usedBinders i (usedBinders b (setInsert x used))
    | .call _ args _, used => usedBindersArgs args used
    | .ctor _ args _, used => usedBindersArgs args used
    | .dtor s _ _ args _, used => usedBindersArgs args (usedBinders s used)
    | .case s _ cs _, used => usedBindersClauses cs (usedBinders s used)
    | .new cs _, used => usedBindersClauses cs used
    | .goto _ t _, used => usedBinders t used
    | .label a t _, used => usedBinders t (setInsert a used)
    | .exit t _, used => usedBinders t used
    | .paren t, used => usedBinders t used
  def usedBindersArgs : Fun.Terms → List String → List String
    | .nil, used => used
    | .cons t r, used => usedBindersArgs r (usedBinders t used)
  -- clause.rs: the `context_names` are inserted, then the body
  def usedBindersClauses : Fun.Clauses → List String → List String
    | .nil, used => used
    | .cons _ _ names _ body rest, used =>
      usedBindersClauses rest (usedBinders body (names.foldl (fun acc n => setInsert n acc) used))
end

/-- fun/src/syntax/terms/*.rs: fn get_type (OptTyped) -/
def getType : Fun.Term → Option Fun.Ty
  | .var _ ty _ => ty
  | .lit _ => some .i64
  | .op _ _ _ => some .i64
  | .ifc _ _ _ _ _ ty => ty
  | .ifz _ _ _ _ ty => ty
  | .print _ _ _ ty => ty
  | .letIn _ _ _ _ ty => ty
  | .call _ _ ty => ty
  | .ctor _ _ ty => ty
  | .dtor _ _ _ _ ty => ty
  | .case _ _ _ ty => ty
  | .new _ ty => ty
  | .goto _ _ ty => ty
  | .label _ _ ty => ty
  | .exit _ ty => ty
  | .paren t => getType t

/-! ## ordered set of typed free variables: core_lang/src/traits/typed_free_vars.rs -/

/-- derived `Ord` of `Identifier` (name, then id) -/
def cmpIdent (a b : Core.Ident) : Ordering :=
  if a.name < b.name then .lt
  else if b.name < a.name then .gt
  else compare a.id b.id

/-- derived `Ord` of `Chirality`: Prd < Cns -/
def cmpPC : Core.PC → Core.PC → Ordering
  | .prd, .prd => .eq
  | .prd, .cns => .lt
  | .cns, .prd => .gt
  | .cns, .cns => .eq

/-- derived `Ord` of core `Ty`: I64 < Decl -/
def cmpTy : Core.Ty → Core.Ty → Ordering
  | .i64, .i64 => .eq
  | .i64, .decl _ => .lt
  | .decl _, .i64 => .gt
  | .decl a, .decl b => cmpIdent a b

/-- derived `Ord` of `ContextBinding`: var, chi, ty -/
def cmpBinding (a b : Core.Binding) : Ordering :=
  match cmpIdent a.var b.var with
  | .lt => .lt
  | .gt => .gt
  | .eq =>
    match cmpPC a.chi b.chi with
    | .lt => .lt
    | .gt => .gt
    | .eq => cmpTy a.ty b.ty

/-- BTreeSet::insert -/
def bsetInsert (b : Core.Binding) : List Core.Binding → List Core.Binding
  | [] => [b]
  | x :: xs =>
    match cmpBinding b x with
    | .lt => b :: x :: xs
    | .eq => x :: xs
    | .gt => x :: bsetInsert b xs

/-- BTreeSet::remove -/
def bsetRemove (b : Core.Binding) : List Core.Binding → List Core.Binding
  | [] => []
  | x :: xs =>
    match cmpBinding b x with
    | .eq => xs
    | _ => x :: bsetRemove b xs

/-- BTreeSet::extend -/
def bsetExtend (vars : List Core.Binding) (add : List Core.Binding) : List Core.Binding :=
  add.foldl (fun acc b => bsetInsert b acc) vars

mutual
  -- core_lang/src/syntax/terms/{mod,xvar,op,mu,xtor,xcase}.rs: fn typed_free_vars
  def tfvTerm : Core.Term → List Core.Binding → List Core.Binding
    | .var pc v ty, vars => bsetInsert ⟨v, pc, ty⟩ vars
    | .lit _, vars => vars
    | .op a _ b, vars => tfvTerm b (tfvTerm a vars)
    | .mu pc v ty s, vars =>
      let varsStatement := tfvStmt s []
      let chi := match pc with | .prd => Core.PC.cns | .cns => Core.PC.prd
      bsetExtend vars (bsetRemove ⟨v, chi, ty⟩ varsStatement)
    | .xtor _ _ args _, vars => tfvArgs args vars
    | .xcase _ _ cs, vars => tfvClauses cs vars
  -- core_lang/src/syntax/arguments.rs: fn typed_free_vars
  def tfvArgs : Core.Args → List Core.Binding → List Core.Binding
    | .nil, vars => vars
    | .cons _ t r, vars => tfvArgs r (tfvTerm t vars)
  -- core_lang/src/syntax/terms/clause.rs: fn typed_free_vars
  def tfvClauses : Core.Clauses → List Core.Binding → List Core.Binding
    | .nil, vars => vars
    | .cons _ ctx body rest, vars =>
      let varsBody := tfvStmt body []
      let varsBody := ctx.foldl (fun acc b => bsetRemove b acc) varsBody
      tfvClauses rest (bsetExtend vars varsBody)
  -- core_lang/src/syntax/statements/{mod,cut,ifc,print,call,exit}.rs: fn typed_free_vars
  def tfvStmt : Core.Stmt → List Core.Binding → List Core.Binding
    | .cut _ p c, vars => tfvTerm c (tfvTerm p vars)
    | .ifc _ a b t e, vars => tfvStmt e (tfvStmt t (tfvTerm b (tfvTerm a vars)))
    | .ifz _ a t e, vars => tfvStmt e (tfvStmt t (tfvTerm a vars))
    | .print _ a n, vars => tfvStmt n (tfvTerm a vars)
    | .call _ args _, vars => tfvArgs args vars
    | .exit a _, vars => tfvTerm a vars
end

/-- core_lang/src/syntax/terms/*.rs: fn get_type (Typed for Term) -/
def coreGetType : Core.Term → Core.Ty
  | .var _ _ ty => ty
  | .lit _ => .i64
  | .op _ _ _ => .i64
  | .mu _ _ ty _ => ty
  | .xtor _ _ _ ty => ty
  | .xcase _ ty _ => ty

-- core_lang/src/syntax/types.rs: fn is_codata
def isCodata (ty : Core.Ty) (codataTypes : List Core.TypeDecl) : Bool :=
  match ty with
  | .i64 => false
  | .decl name => codataTypes.any fun d => d.name == name

/-! ## compile.rs -/

/-- compile.rs: struct CompileState -/
structure CompileState where
  usedVars : List String
  codataTypes : List Core.TypeDecl
  usedLabels : List String
  currentLabel : String
  liftedStatements : List Core.Def

/-- result of a state-threading computation that may hit an `expect` -/
abbrev Res (α : Type) : Type := Except String (α × CompileState)

-- compile.rs: CompileState::fresh_var
def freshVar (st : CompileState) : String × CompileState :=
  let r := freshName st.usedVars "x"
  (r.1, { st with usedVars := r.2 })

-- compile.rs: CompileState::fresh_covar
def freshCovar (st : CompileState) : String × CompileState :=
  let r := freshName st.usedVars "a"
  (r.1, { st with usedVars := r.2 })

/-- the bindings of the lifted label become the arguments of the call (compile.rs: fn share) -/
def bindingsToArgs : List Core.Binding → Core.Args
  | [] => .nil
  | b :: bs => .cons b.chi (.var b.chi b.var b.ty) (bindingsToArgs bs)

-- compile.rs: fn share
def share (cont : Core.Term) (st : CompileState) : Core.Term × CompileState :=
  -- if the consumer is a mu-tilde, we simply lift its body
  let r : (Core.Ident × Core.Ty × Core.Stmt) × CompileState :=
    match cont with
    | .mu _ v ty s => ((v, ty, s), st)
    | cont =>
      let fv := freshVar st
      let ty := coreGetType cont
      ((⟨fv.1, 0⟩, ty, .cut ty (.var .prd ⟨fv.1, 0⟩ ty) cont), fv.2)
  let var := r.1.1
  let ty := r.1.2.1
  let body := r.1.2.2
  let st := r.2
  let bindings := tfvStmt body []
  let args := bindingsToArgs bindings
  let nm := freshName st.usedLabels ("share_" ++ st.currentLabel ++ "_")
  let st := { st with usedLabels := nm.2,
                      liftedStatements := ⟨⟨nm.1, 0⟩, bindings, body⟩ :: st.liftedStatements }
  (.mu .cns var ty (.call ⟨nm.1, 0⟩ args ty), st)

/-- the test in `Case::compile_with_cont` / `IfC::compile_with_cont`: the consumer is a
(co)variable, or `μ~x.exit p` with `p` a variable or a literal -/
def isLeaf : Core.Term → Bool
  | .var _ _ _ => true
  | .mu _ _ _ (.exit (.var _ _ _) _) => true
  | .mu _ _ _ (.exit (.lit _) _) => true
  | _ => false

/-- type of `compile_with_cont` of one term -/
abbrev CwcFn : Type := Core.Term → CompileState → Res Core.Stmt
/-- type of `compile` of one term -/
abbrev CompFn : Type := Core.Ty → CompileState → Res Core.Term

/-- compile.rs: the default body of `Compile::compile` -/
def defaultCompile (cwc : CwcFn) : CompFn := fun ty st =>
  let nc := freshCovar st
  match cwc (.var .cns ⟨nc.1, 0⟩ ty) nc.2 with
  | .error e => .error e
  | .ok (s, st') => .ok (.mu .prd ⟨nc.1, 0⟩ ty s, st')

def noTy (site : String) : String := site ++ ": Types should be annotated before translation"

-- terms/ifc.rs + terms/op.rs: sort / operator translation
def compileSort : Fun.IfSort → Core.IfSort
  | .eq => .eq | .ne => .ne | .lt => .lt | .le => .le | .gt => .gt | .ge => .ge

def compileOp : Fun.BinOp → Core.BinOp
  | .div => .div | .prod => .prod | .rem => .rem | .sum => .sum | .sub => .sub

/-- push the continuation as last argument (`args.entries.push(cont.into())`) -/
def argsSnoc : Core.Args → Core.PC → Core.Term → Core.Args
  | .nil, pc, t => .cons pc t .nil
  | .cons p a r, pc, t => .cons p a (argsSnoc r pc t)

/-- arguments.rs: the first `match` arm of `compile_subst`: a covariable argument
`XVar { chi: Some(Cns), .. }` -/
def covarArg : Fun.Term → Option (String × Option Fun.Ty)
  | .var x ty (some .cns) => some (x, ty)
  | _ => none

-- compile.rs: fn binders_occur_free (typed free variables of `cont`, compared by NAME)
def bindersOccurFree (binders : List String) (cont : Core.Term) : Bool :=
  (tfvTerm cont []).any fun b => binders.contains b.var.name

/-- terms/let.rs, terms/case.rs (repaired): the guard at the start of `compile_with_cont`:
```text
if binders_occur_free(binders, cont) { return Cut { producer: self.compile(state, ty), ty, consumer: cont } }
… core …
```
`self.compile` is the default `μa.⟦self⟧_a` with a fresh `a`, which re-enters `compile_with_cont`
(and the guard) with the consumer `a`.  The re-entry can only be guarded again if the fresh `a` is
itself one of `binders`, which needs a binder that is not in the used-names set; every re-entry
uses a new fresh name, so the nesting depth is at most `|binders| + 1`.  The model unrolls this
recursion `fuel` times (`guarded` uses `|binders| + 2`); the `0` case is unreachable. -/
def guardedLvl (binders : List String) (ty : Option Fun.Ty) (site : String) (core : CwcFn) :
    Nat → CwcFn
  | 0 => fun _ _ => .error (site ++ ": guard recursion exhausted (unreachable)")
  | n + 1 => fun cont st =>
    if bindersOccurFree binders cont then
      match ty with
      | none => .error (noTy site)
      | some t =>
        let cty := compileTy t
        match defaultCompile (guardedLvl binders ty site core n) cty st with
        | .error e => .error e
        | .ok (p, st1) => .ok (.cut cty p cont, st1)
    else core cont st

def guarded (binders : List String) (ty : Option Fun.Ty) (site : String) (core : CwcFn) : CwcFn :=
  guardedLvl binders ty site core (binders.length + 2)

/-- terms/case.rs: all `context_names` of the clauses (`flat_map`) -/
def clausesNames : Fun.Clauses → List String
  | .nil => []
  | .cons _ _ names _ _ rest => names ++ clausesNames rest

def clausesLen : Fun.Clauses → Nat
  | .nil => 0
  | .cons _ _ _ _ _ r => clausesLen r + 1

mutual
  /-- both `Compile` methods of a term: `(compile_with_cont, compile)` — terms/*.rs -/
  def compileBoth : Fun.Term → CwcFn × CompFn
    -- terms/variable.rs
    | .var x ty _ =>
      (fun cont st =>
        match ty with
        | none => .error (noTy "variable.rs: XVar::compile_with_cont")
        | some t =>
          let ty := compileTy t
          .ok (.cut ty (.var .prd ⟨x, 0⟩ ty) cont, st),
       fun _ st =>
        match ty with
        | none => .error (noTy "variable.rs: XVar::compile")
        | some t => .ok (.var .prd ⟨x, 0⟩ (compileTy t), st))
    -- terms/lit.rs
    | .lit n =>
      (fun cont st => .ok (.cut .i64 (.lit n) cont, st),
       fun _ st => .ok (.lit n, st))
    -- terms/op.rs
    | .op a o b =>
      let mk : CompileState → Res Core.Term := fun st =>
        match (compileBoth a).2 .i64 st with
        | .error e => .error e
        | .ok (fst, st1) =>
          match (compileBoth b).2 .i64 st1 with
          | .error e => .error e
          | .ok (snd, st2) => .ok (.op fst (compileOp o) snd, st2)
      (fun cont st =>
        match mk st with
        | .error e => .error e
        | .ok (newOp, st') => .ok (.cut .i64 newOp cont, st'),
       fun _ st => mk st)
    -- terms/ifc.rs (snd = Some)
    | .ifc sort a b t e _ =>
      let cwc : CwcFn := fun cont st =>
        let r := if isLeaf cont then (cont, st) else share cont st
        match (compileBoth a).2 .i64 r.2 with
        | .error e => .error e
        | .ok (fst, st1) =>
          match (compileBoth b).2 .i64 st1 with
          | .error e => .error e
          | .ok (snd, st2) =>
            match (compileBoth t).1 r.1 st2 with
            | .error e => .error e
            | .ok (thenc, st3) =>
              match (compileBoth e).1 r.1 st3 with
              | .error e => .error e
              | .ok (elsec, st4) => .ok (.ifc (compileSort sort) fst snd thenc elsec, st4)
      (cwc, defaultCompile cwc)
    -- terms/ifc.rs (snd = None)
    | .ifz sort a t e _ =>
      let cwc : CwcFn := fun cont st =>
        let r := if isLeaf cont then (cont, st) else share cont st
        match (compileBoth a).2 .i64 r.2 with
        | .error e => .error e
        | .ok (fst, st1) =>
          match (compileBoth t).1 r.1 st1 with
          | .error e => .error e
          | .ok (thenc, st2) =>
            match (compileBoth e).1 r.1 st2 with
            | .error e => .error e
            | .ok (elsec, st3) => .ok (.ifz (compileSort sort) fst thenc elsec, st3)
      (cwc, defaultCompile cwc)
    -- terms/print.rs
    | .print nl a n _ =>
      let cwc : CwcFn := fun cont st =>
        match (compileBoth a).2 .i64 st with
        | .error e => .error e
        | .ok (arg, st1) =>
          match (compileBoth n).1 cont st1 with
          | .error e => .error e
          | .ok (next, st2) => .ok (.print nl arg next, st2)
      (cwc, defaultCompile cwc)
    -- terms/let.rs
    | .letIn x varTy bound body lty =>
      let core : CwcFn := fun cont st =>
        let ty := compileTy varTy
        match (compileBoth body).1 cont st with
        | .error e => .error e
        | .ok (inStmt, st1) =>
          let newCont : Core.Term := .mu .cns ⟨x, 0⟩ ty inStmt
          if isCodata ty st1.codataTypes then
            match (compileBoth bound).2 ty st1 with
            | .error e => .error e
            | .ok (p, st2) => .ok (.cut ty p newCont, st2)
          else
            (compileBoth bound).1 newCont st1
      let cwc : CwcFn := guarded [x] lty "let.rs: Let::compile_with_cont" core
      (cwc, defaultCompile cwc)
    -- terms/call.rs
    | .call name args retTy =>
      let cwc : CwcFn := fun cont st =>
        match compileSubst args st with
        | .error e => .error e
        | .ok (args', st1) =>
          match retTy with
          | none => .error (noTy "call.rs: Call::compile_with_cont")
          | some t => .ok (.call ⟨name, 0⟩ (argsSnoc args' .cns cont) (compileTy t), st1)
      (cwc, defaultCompile cwc)
    -- terms/constructor.rs
    | .ctor id args ty =>
      let comp : CompFn := fun _ st =>
        match compileSubst args st with
        | .error e => .error e
        | .ok (args', st1) =>
          match ty with
          | none => .error (noTy "constructor.rs: Constructor::compile")
          | some t => .ok (.xtor .prd ⟨id, 0⟩ args' (compileTy t), st1)
      (fun cont st =>
        match ty with
        | none => .error (noTy "constructor.rs: Constructor::compile_with_cont")
        | some t =>
          let cty := compileTy t
          match comp cty st with
          | .error e => .error e
          | .ok (p, st1) => .ok (.cut cty p cont, st1),
       comp)
    -- terms/destructor.rs
    | .dtor scrutinee id _ args _ =>
      let cwc : CwcFn := fun cont st =>
        match compileSubst args st with
        | .error e => .error e
        | .ok (args', st1) =>
          match getType scrutinee with
          | none => .error (noTy "destructor.rs: Destructor::compile_with_cont")
          | some t =>
            let newCont : Core.Term := .xtor .cns ⟨id, 0⟩ (argsSnoc args' .cns cont) (compileTy t)
            (compileBoth scrutinee).1 newCont st1
      (cwc, defaultCompile cwc)
    -- terms/case.rs
    | .case scrutinee _ clauses cty =>
      let core : CwcFn := fun cont st =>
        let r := if clausesLen clauses ≤ 1 || isLeaf cont then (cont, st) else share cont st
        match compileClauses clauses r.1 r.2 with
        | .error e => .error e
        | .ok (cs, st1) =>
          match getType scrutinee with
          | none => .error (noTy "case.rs: Case::compile_with_cont")
          | some t =>
            let newCont : Core.Term := .xcase .cns (compileTy t) cs
            (compileBoth scrutinee).1 newCont st1
      let cwc : CwcFn :=
        guarded (clausesNames clauses) cty "case.rs: Case::compile_with_cont (guard)" core
      (cwc, defaultCompile cwc)
    -- terms/new.rs
    | .new clauses ty =>
      let comp : CompFn := fun _ st =>
        match compileCoclauses clauses st with
        | .error e => .error e
        | .ok (cs, st1) =>
          match ty with
          | none => .error (noTy "new.rs: New::compile")
          | some t => .ok (.xcase .prd (compileTy t) cs, st1)
      (fun cont st =>
        match ty with
        | none => .error (noTy "new.rs: New::compile_with_cont")
        | some t =>
          let cty := compileTy t
          match comp cty st with
          | .error e => .error e
          | .ok (p, st1) => .ok (.cut cty p cont, st1),
       comp)
    -- terms/goto.rs (the target covariable has the type of the ARGUMENT)
    | .goto target t _ =>
      let cwc : CwcFn := fun _ st =>
        match getType t with
        | none => .error (noTy "goto.rs: Goto::compile_with_cont")
        | some gty => (compileBoth t).1 (.var .cns ⟨target, 0⟩ (compileTy gty)) st
      (cwc, defaultCompile cwc)
    -- terms/label.rs
    | .label a t ty =>
      let comp : CompFn := fun _ st =>
        match ty with
        | none => .error (noTy "label.rs: Label::compile")
        | some lty =>
          let varTy := compileTy lty
          match (compileBoth t).1 (.var .cns ⟨a, 0⟩ varTy) st with
          | .error e => .error e
          | .ok (s, st1) => .ok (.mu .prd ⟨a, 0⟩ varTy s, st1)
      (fun cont st =>
        match ty with
        | none => .error (noTy "label.rs: Label::compile_with_cont")
        | some lty =>
          let cty := compileTy lty
          match comp cty st with
          | .error e => .error e
          | .ok (p, st1) => .ok (.cut cty p cont, st1),
       comp)
    -- terms/exit.rs
    | .exit arg ty =>
      let cwc : CwcFn := fun _ st =>
        match (compileBoth arg).2 .i64 st with
        | .error e => .error e
        | .ok (a, st1) =>
          match ty with
          | none => .error (noTy "exit.rs: Exit::compile_with_cont")
          | some t => .ok (.exit a (compileTy t), st1)
      (cwc, defaultCompile cwc)
    -- terms/paren.rs
    | .paren inner =>
      (fun c st => (compileBoth inner).1 c st,
       fun ty st => (compileBoth inner).2 ty st)
  -- arguments.rs: fn compile_subst
  def compileSubst : Fun.Terms → CompileState → Res Core.Args
    | .nil, st => .ok (.nil, st)
    | .cons term rest, st =>
      match covarArg term with
      | some (x, ty) =>
        match ty with
        | none => .error (noTy "arguments.rs: compile_subst (covariable)")
        | some t =>
          match compileSubst rest st with
          | .error e => .error e
          | .ok (r, st1) => .ok (.cons .cns (.var .cns ⟨x, 0⟩ (compileTy t)) r, st1)
      | none =>
        match getType term with
        | none => .error (noTy "arguments.rs: compile_subst")
        | some t =>
          match (compileBoth term).2 (compileTy t) st with
          | .error e => .error e
          | .ok (p, st1) =>
            match compileSubst rest st1 with
            | .error e => .error e
            | .ok (r, st2) => .ok (.cons .prd p r, st2)
  -- terms/clause.rs: fn compile_clause, mapped over the clauses of a `case` with the same `cont`
  def compileClauses : Fun.Clauses → Core.Term → CompileState → Res Core.Clauses
    | .nil, _, st => .ok (.nil, st)
    | .cons _ xtor _ ctx body rest, cont, st =>
      match (compileBoth body).1 cont st with
      | .error e => .error e
      | .ok (b, st1) =>
        match compileClauses rest cont st1 with
        | .error e => .error e
        | .ok (r, st2) => .ok (.cons ⟨xtor, 0⟩ (compileContext ctx) b r, st2)
  -- terms/clause.rs: fn compile_coclause, mapped over the clauses of a `new`
  def compileCoclauses : Fun.Clauses → CompileState → Res Core.Clauses
    | .nil, st => .ok (.nil, st)
    | .cons _ xtor _ ctx body rest, st =>
      match getType body with
      | none => .error (noTy "clause.rs: compile_coclause")
      | some t =>
        let ty := compileTy t
        let nc := freshCovar st
        let newContext := compileContext ctx ++ [⟨⟨nc.1, 0⟩, .cns, ty⟩]
        match (compileBoth body).1 (.var .cns ⟨nc.1, 0⟩ ty) nc.2 with
        | .error e => .error e
        | .ok (b, st1) =>
          match compileCoclauses rest st1 with
          | .error e => .error e
          | .ok (r, st2) => .ok (.cons ⟨xtor, 0⟩ newContext b r, st2)
end

/-- compile.rs: Compile::compile_with_cont -/
def compileWithCont (t : Fun.Term) : Core.Term → CompileState → Res Core.Stmt :=
  (compileBoth t).1

/-- compile.rs: Compile::compile -/
def compile (t : Fun.Term) : Core.Ty → CompileState → Res Core.Term :=
  (compileBoth t).2

/-! ## declaration.rs -/

-- declaration.rs: fn compile_ctor
def compileCtor (c : Fun.CtorSig) : Core.XtorSig :=
  ⟨⟨c.name, 0⟩, compileContext c.args⟩

-- declaration.rs: fn compile_dtor
def compileDtor (d : Fun.DtorSig) : Core.XtorSig :=
  let newCovar := (freshName (ctxVars d.args) "a").1
  ⟨⟨d.name, 0⟩, compileContext d.args ++ [⟨⟨newCovar, 0⟩, .cns, compileTy d.contTy⟩]⟩

/-! ## def.rs -/

-- def.rs: fn compile_def (returns the deque and the updated `used_labels`)
def compileDef (d : Fun.Def) (codataTypes : List Core.TypeDecl) (usedLabels : List String) :
    Except String (List Core.Def × List String) :=
  let usedVars := ctxVars d.ctx
  let context := compileContext d.ctx
  let usedVars := usedBinders d.body usedVars
  let st : CompileState := ⟨usedVars, codataTypes, usedLabels, d.name, []⟩
  let nc := freshCovar st
  match getType d.body with
  | none => .error (noTy "def.rs: compile_def")
  | some t =>
    let ty := compileTy t
    match compileWithCont d.body (.var .cns ⟨nc.1, 0⟩ ty) nc.2 with
    | .error e => .error e
    | .ok (body, st') =>
      let context := context ++ [⟨⟨nc.1, 0⟩, .cns, compileTy d.retTy⟩]
      .ok (⟨⟨d.name, 0⟩, context, body⟩ :: st'.liftedStatements, st'.usedLabels)

-- def.rs: fn compile_main
def compileMain (d : Fun.Def) (codataTypes : List Core.TypeDecl) (usedLabels : List String) :
    Except String (List Core.Def × List String) :=
  let usedVars := ctxVars d.ctx
  let context := compileContext d.ctx
  let usedVars := usedBinders d.body usedVars
  let st : CompileState := ⟨usedVars, codataTypes, usedLabels, d.name, []⟩
  let nv := freshVar st
  match getType d.body with
  | none => .error (noTy "def.rs: compile_main")
  | some t =>
    let ty := compileTy t
    let cont : Core.Term := .mu .cns ⟨nv.1, 0⟩ ty (.exit (.var .prd ⟨nv.1, 0⟩ ty) ty)
    match compileWithCont d.body cont nv.2 with
    | .error e => .error e
    | .ok (body, st') =>
      .ok (⟨⟨d.name, 0⟩, context, body⟩ :: st'.liftedStatements, st'.usedLabels)

/-! ## program.rs -/

/-- program.rs: the `for def in prog.defs` loop of `compile_prog`; `acc` is `defs_translated` -/
def compileDefs (codataTypes : List Core.TypeDecl) :
    List Fun.Def → List String → List Core.Def → Except String (List Core.Def)
  | [], _, acc => .ok acc
  | d :: rest, usedLabels, acc =>
    if d.name == "main" then
      match compileMain d codataTypes usedLabels with
      | .error e => .error e
      | .ok (ds, usedLabels') => compileDefs codataTypes rest usedLabels' (ds ++ acc)
    else
      match compileDef d codataTypes usedLabels with
      | .error e => .error e
      | .ok (ds, usedLabels') => compileDefs codataTypes rest usedLabels' (acc ++ ds)

-- program.rs: fn compile_prog
def compileProg (p : Fun.CheckedProgram) : Except String Core.Prog :=
  let dataTypes : List Core.TypeDecl :=
    p.dataTypes.map fun d => ⟨⟨d.name, 0⟩, d.ctors.map compileCtor⟩
  let codataTypes : List Core.TypeDecl :=
    p.codataTypes.map fun d => ⟨⟨d.name, 0⟩, d.dtors.map compileDtor⟩
  let usedLabels := p.defs.foldl (fun acc d => setInsert d.name acc) []
  match compileDefs codataTypes p.defs usedLabels [] with
  | .error e => .error e
  | .ok defs => .ok ⟨defs, dataTypes, codataTypes, 0⟩

/-! ## line driver -/

/-- input: the text of an S1 dump `(checked …)`; output `OK <S2 dump>` | `PANIC <site>` | `ERR …`.
`datas`/`codatas` are produced in the order of the input lists. -/
def runLine (dumpS1 : String) : String :=
  match Sexp.parse dumpS1 with
  | none => "ERR sexp"
  | some sx =>
    match Fun.readChecked (dumpS1.length + 10) sx with
    | none => "ERR read"
    | some p =>
      match compileProg p with
      | .error e => "PANIC " ++ e
      | .ok q => "OK " ++ q.toSexp.render

end Scc.Fun2Core
