/-
  Scc.Fun2Core.SemCodTyping — typing of the states of the Fun CEK machine (`Scc.Fun.step`) against the
  MONOMORPHIC annotated typing `TypedM` of checked programs (Scc/Fun2Core/TypedSrc.lean; established
  for the checker's output by `checkProgram_progM`, Scc/Fun2Core/TypedCheck.lean).

  Why a second state typing besides `Scc.Fun.Safety.ST` (which types states against the SOURCE
  program, templates + substitution): the semantic part of C02 for codata needs to know that the
  machine's by-name test `isCodataTy p' τ` (= "the printed type names an instance declaration in
  `p'.codataTypes`", which is also what the Core machine's `isCodata` tests on the translation) is
  TRUE at the type of every destructor scrutinee and agrees with the shape of the stack: a term of
  type τ is evaluated on a stack whose top frame is a destructor frame iff `isCodataTy p' τ`
  (`KTM.kind`).  In the monomorphic judgement "τ is a codata type" IS `codataDecl P τ = some _`,
  i.e. `isCodataTy`; in the polymorphic one it is "an instance of a declared template", and the
  completeness of the instance declarations is exactly what `TypedM` adds.

  Judgements (P the CHECKED program):
    VTM v τ, BTM v b, VTsM vs bs, EnvTM ρ Γ, HTM h bs τ, FTM f σ τ, KTM k τ, STM s
  as in Scc/Fun/SafetyTyping.lean, with `TypedM` / `ArgsM` / `ClausesM` in place of `ATyped` / … and
  two extra side conditions that the machine guarantees and the polymorphic judgement does not
  record: a `letF` frame and an `arg` frame expect a value of a type that is NOT codata
  (`isCodataTy P σ = false`: the machine suspends codata-typed bound terms and arguments instead of
  pushing these frames).
  Proof file: `Prop`-valued definitions only.
-/
import Scc.Fun.Sem
import Scc.Fun2Core.TypedSrc

namespace Scc.Fun2Core.Sem
open Scc Scc.Fun2Core.Typed
open Scc.Fun.Typing (lookupCtx bindNames clauseXtors)

/-- the top frame of the stack is a destructor frame: the stack expects a codata value -/
def kkind : Fun.Stack → Bool
  | .dtorScrut .. :: _ => true
  | .dtorApply .. :: _ => true
  | _ => false

mutual
  /-- `VTM P v τ`: the value `v` has the (monomorphic) type τ -/
  inductive VTM (P : Fun.CheckedProgram) : Fun.Value → Fun.Ty → Prop
    | int {n} : VTM P (.int n) .i64
    | con {K vs τ} (d : Fun.Data) (c : Fun.CtorSig) : dataDecl P τ = some d →
        d.ctors.find? (fun c => c.name = K) = some c → VTsM P vs c.args → VTM P (.con K vs) τ
    | obj {cs ρ τ} (Γ : Fun.Ctx) (an : Option Fun.Ty) : EnvTM P ρ Γ → TypedM P (.new cs an) Γ τ →
        VTM P (.obj cs ρ) τ
    | thunk {t ρ τ} (Γ : Fun.Ctx) : Fun.isCodataTy P τ = true → EnvTM P ρ Γ → TypedM P t Γ τ →
        VTM P (.thunk t ρ) τ
  /-- a value for a binding: a typed value for a producer, a typed continuation for a consumer -/
  inductive BTM (P : Fun.CheckedProgram) : Fun.Value → Fun.Binding → Prop
    | prd {v b} : b.chi = .prd → VTM P v b.ty → BTM P v b
    | cns {k b} : b.chi = .cns → KTM P k b.ty → BTM P (.cont k) b
  inductive VTsM (P : Fun.CheckedProgram) : List Fun.Value → Fun.Ctx → Prop
    | nil : VTsM P [] []
    | cons {v vs b bs} : BTM P v b → VTsM P vs bs → VTsM P (v :: vs) (b :: bs)
  /-- environments grow at the head, contexts at the end -/
  inductive EnvTM (P : Fun.CheckedProgram) : Fun.Env → Fun.Ctx → Prop
    | nil : EnvTM P [] []
    | cons {ρ Γ v} (b : Fun.Binding) : EnvTM P ρ Γ → BTM P v b →
        EnvTM P ((b.var, v) :: ρ) (Γ ++ [b])
  /-- `HTM P h bs τ`: with arguments for the parameters `bs` the head `h` yields a τ -/
  inductive HTM (P : Fun.CheckedProgram) : Fun.ArgHead → Fun.Ctx → Fun.Ty → Prop
    | call {f bs τ} (d : Fun.Def) : d ∈ P.defs → f = d.name → bs = d.ctx → τ = d.retTy →
        HTM P (.call f) bs τ
    | ctor {K bs τ} (d : Fun.Data) (c : Fun.CtorSig) : dataDecl P τ = some d →
        d.ctors.find? (fun c => c.name = K) = some c → bs = c.args → HTM P (.ctor K) bs τ
    | dtor {v nm bs τ σ} (d : Fun.Codata) (sg : Fun.DtorSig) : codataDecl P σ = some d →
        d.dtors.find? (fun c => c.name = nm) = some sg → VTM P v σ → bs = sg.args →
        τ = sg.contTy → HTM P (.dtor v nm) bs τ
  /-- `FTM P f σ τ`: the frame `f` takes a σ and passes a τ on -/
  inductive FTM (P : Fun.CheckedProgram) : Fun.Frame → Fun.Ty → Fun.Ty → Prop
    | opL {o snd ρ} (Γ : Fun.Ctx) : EnvTM P ρ Γ → TypedM P snd Γ .i64 →
        FTM P (.opL o snd ρ) .i64 .i64
    | opR {o a} : FTM P (.opR o a) .i64 .i64
    | ifL {s snd t e ρ τ} (Γ : Fun.Ctx) : EnvTM P ρ Γ → TypedM P snd Γ .i64 → TypedM P t Γ τ →
        TypedM P e Γ τ → FTM P (.ifL s snd t e ρ) .i64 τ
    | ifR {s a t e ρ τ} (Γ : Fun.Ctx) : EnvTM P ρ Γ → TypedM P t Γ τ → TypedM P e Γ τ →
        FTM P (.ifR s a t e ρ) .i64 τ
    | ifZ {s t e ρ τ} (Γ : Fun.Ctx) : EnvTM P ρ Γ → TypedM P t Γ τ → TypedM P e Γ τ →
        FTM P (.ifZ s t e ρ) .i64 τ
    | print {nl next ρ τ} (Γ : Fun.Ctx) : EnvTM P ρ Γ → TypedM P next Γ τ →
        FTM P (.print nl next ρ) .i64 τ
    | letF {x body ρ σ τ} (Γ : Fun.Ctx) : Fun.isCodataTy P σ = false → EnvTM P ρ Γ →
        TypedM P body (Γ ++ [⟨x, .prd, σ⟩]) τ → FTM P (.letF x body ρ) σ τ
    | arg {h done todo ρ σ τ} (Γ : Fun.Ctx) (bsDone : Fun.Ctx) (b : Fun.Binding) (bsTodo : Fun.Ctx) :
        HTM P h (bsDone ++ b :: bsTodo) τ → VTsM P done bsDone → b.chi = .prd → b.ty = σ →
        Fun.isCodataTy P σ = false → EnvTM P ρ Γ → ArgsM P todo Γ bsTodo →
        FTM P (.arg h done todo ρ) σ τ
    | caseF {cs ρ σ τ} (Γ : Fun.Ctx) (d : Fun.Data) : dataDecl P σ = some d → EnvTM P ρ Γ →
        ClausesM P cs Γ d.ctors τ → FTM P (.caseF cs ρ) σ τ
    | dtorScrut {nm args ρ σ τ} (Γ : Fun.Ctx) (d : Fun.Codata) (sg : Fun.DtorSig) :
        codataDecl P σ = some d → d.dtors.find? (fun c => c.name = nm) = some sg →
        τ = sg.contTy → EnvTM P ρ Γ → ArgsM P args Γ sg.args → FTM P (.dtorScrut nm args ρ) σ τ
    | dtorApply {nm vs σ τ} (d : Fun.Codata) (sg : Fun.DtorSig) : codataDecl P σ = some d →
        d.dtors.find? (fun c => c.name = nm) = some sg → τ = sg.contTy → VTsM P vs sg.args →
        FTM P (.dtorApply nm vs) σ τ
  /-- `KTM P k τ`: the stack `k` takes a τ; the program's answer is an integer -/
  inductive KTM (P : Fun.CheckedProgram) : Fun.Stack → Fun.Ty → Prop
    | nil : KTM P [] .i64
    | exit {k} : KTM P (.exitF :: k) .i64
    | cons {f k σ τ} : FTM P f σ τ → KTM P k τ → KTM P (f :: k) σ
end

/-- well-typed machine states (monomorphic) -/
inductive STM (P : Fun.CheckedProgram) : Fun.State → Prop
  | eval {t ρ k} (Γ : Fun.Ctx) (τ : Fun.Ty) : EnvTM P ρ Γ → TypedM P t Γ τ → KTM P k τ →
      STM P (.eval t ρ k)
  | ret {v k} (τ : Fun.Ty) : VTM P v τ → KTM P k τ → STM P (.ret v k)
  | args {h done todo ρ k} (Γ : Fun.Ctx) (bsDone bsTodo : Fun.Ctx) (τ : Fun.Ty) :
      HTM P h (bsDone ++ bsTodo) τ → VTsM P done bsDone → EnvTM P ρ Γ → ArgsM P todo Γ bsTodo →
      KTM P k τ → STM P (.args h done todo ρ k)

end Scc.Fun2Core.Sem
