/-
  Scc.Fun2Core.SemCod4 — `ret_cd`: the Fun machine returns a codata value to a stack whose top frame
  is a destructor frame; the Core machine is about to send the related destructor value to the
  related producer value (`State.invoke`).  Both enter the body of the clause of the closure (the
  Fun machine first evaluates the pure arguments of a `dtorScrut` frame: the Core machine has done
  that before).  The kind of the continuation of the destructor (codata or not) agrees with the type
  of the clause body by the monomorphic typing of the machine state (`STM`, `KTM.kind`).
-/
import Scc.Fun2Core.SemCod3

namespace Scc.Fun2Core.Sem
open Scc Scc.Fun2Core.Typed

variable {q : Core.Prog} {p : Fun.CheckedProgram}

theorem step_dtorApply_obj (p : Fun.CheckedProgram) (d : String) (vs : List Fun.Value)
    (cs : Fun.Clauses) (envc : Fun.Env) (k : Fun.Stack) :
    Fun.step p (.ret (.obj cs envc) (.dtorApply d vs :: k)) =
      (match Fun.findClause d cs with
        | none => .stuck (.noClause d)
        | some cl =>
          match Fun.bindAll cl.names vs envc with
          | none => .stuck (.arity d)
          | some env' => .next (.eval cl.body env' k) none) := rfl

/-- a consumer variable bound to a consumer value of the kind of its type -/
theorem crel_var {n : Nat} {k : Fun.Stack} {cv : CVal} {ρ : CEnv} {a : Core.Ident}
    {ty : Core.Ty} (hk : KAny (GP p) p q n k cv) (hl : Core.Env.lookup ρ a = .ok cv)
    (hkind : Core.isCodata q.codataTypes ty = kkind k) :
    CRel (GP p) p q n k (.var .cns a ty) ρ := by
  have hb : BoundOn (tfvTerm (.var .cns a ty) []) ρ := fun b hb => by
    rw [mem_tfv_var] at hb; subst hb; exact ⟨_, hl⟩
  cases hk with
  | nc hk =>
    exact .mk (by simpa [Core.cnsVal] using hl) hk trivial hb
      (by simp only [coreGetType]; rw [hkind, hk.kk])
  | cd hk =>
    exact .mkD (by simpa [Core.cnsVal] using hl) hk trivial hb
      (by simp only [coreGetType]; rw [hkind, hk.kk])

/-- the cut `⟨μa.s | c⟩` binds the covariable `a` to a consumer value related to the stack: at a
type that is not codata to the value of `c` (one step), at a codata type the `μ` is suspended, the
consumer is forced, and the thunk is entered with `a` bound to the destructor value -/
theorem bind_cont (X : Ctx p q) {n : Nat} {k : Fun.Stack} {c : Core.Term} {ρ0 ρ : CEnv}
    (hr : CRel (GP p) p q n k c ρ0) (hag : AgreeOn (tfvTerm c []) ρ0 ρ) {cty : Core.Ty}
    (hkind : Core.isCodata q.codataTypes cty = kkind k) (a : Core.Ident) (ty : Core.Ty)
    (s1 : Core.Stmt) (out : Out) :
    ∃ i n' ρ' cv, CSteps q ⟨.cut cty (.mu .prd a ty s1) c, ρ, out, n⟩ ⟨s1, (a, cv) :: ρ', out, n'⟩ i ∧
      1 ≤ i ∧ n ≤ n' ∧ SigExt n ρ ρ' ∧ KAny (GP p) p q n' k cv := by
  cases hkk : kkind k with
  | false =>
    rw [hkk] at hkind
    have hck : Core.isCodata q.codataTypes (coreGetType c) = false := by rw [← hr.kk]; exact hkk
    have hrρ := hr.agree hag
    cases hrρ with
    | @mk _ _ _ cv hcv hk hi hb' _ =>
      have hs := step_cut_mu (q := q) (cty := cty) (ty := ty) hkind
        (a := a) (s := s1) (ρ := ρ) (out := out) (n := n) hi hcv .prd
      exact ⟨1, n, ρ, cv, .one hs, Nat.le_refl _, Nat.le_refl _, .refl _ _, .nc hk⟩
    | mkD _ _ _ _ hty' => rw [hty'] at hck; cases hck
    | dtor _ _ _ _ _ _ _ _ _ _ _ hty' => simp only [coreGetType] at hck; rw [hty'] at hck; cases hck
  | true =>
    rw [hkk] at hkind
    have hck : Core.isCodata q.codataTypes (coreGetType c) = true := by rw [← hr.kk]; exact hkk
    obtain ⟨i, S1, ρ1, pv, d, Vs, hcs, ho, hm1, hext, hpv, hs, hk⟩ :=
      force_cr X hr hck (cty := cty) (P := .mu .prd a ty s1) (ρ := ρ) (out := out) (m := n)
        hkind trivial (Nat.le_refl n) hag (prdOK_mu _ _ _ _ _ _)
    simp only [Core.prdVal, Except.ok.injEq] at hpv
    subst hpv
    rw [invoke_thunk] at hs
    have hlast : CSteps q S1 ⟨s1, (a, .dtor ⟨d, 0⟩ Vs) :: ρ1, out, S1.fresh⟩ 1 := by
      refine .one ?_
      rw [hs, ho]
    exact ⟨i + 1, S1.fresh, ρ1, _, hcs.trans hlast, by omega, hm1, hext, .cd hk⟩

set_option maxHeartbeats 400000 in
/-- the closure meets `□.d(vs)` -/
theorem ret_cd_apply (X : Ctx p q) {n : Nat} {k' : Fun.Stack} {d : String} {vs : List Fun.Value}
    {Vs : List CVal} {cv : CVal} (hvl : VRelL (GP p) p q n vs Vs) (hka : KAny (GP p) p q n k' cv)
    {v : Fun.Value} {pv : CVal} {S : Core.State}
    (hv : VRel (GP p) p q n v pv) (hn : n ≤ S.fresh)
    (hs : Core.step q S = S.invoke pv ⟨d, 0⟩ (Vs ++ [cv]))
    (hT : STM p (.ret v (.dtorApply d vs :: k'))) :
    Chunk p q (R p q) true true μ (.ret v (.dtorApply d vs :: k')) S := by
  cases hv with
  | int a => exact .inl ⟨0, _, .stuck .notCodata, .refl _, rfl, fun h => h.elim⟩
  | con _ => exact .inl ⟨0, _, .stuck .notCodata, .refl _, rfl, fun h => h.elim⟩
  | cont _ => exact .inl ⟨0, _, .stuck .notCodata, .refl _, rfl, fun h => h.elim⟩
  | @obj cs envc ρ0c ρc cs'c hgood hcc hec hbdc hagc' =>
    have hstep := step_dtorApply_obj p d vs cs envc k'
    cases hf : Fun.findClause d cs with
    | none =>
      rw [hf] at hstep
      exact .inl ⟨0, _, .stuck (.noClause d), .refl _, by rw [hstep]; rfl, fun h => h.elim⟩
    | some cl =>
      rw [hf] at hstep
      simp only at hstep
      cases hbA : Fun.bindAll cl.names vs envc with
      | none =>
        rw [hbA] at hstep
        exact .inl ⟨0, _, .stuck (.arity d), .refl _, by rw [hstep]; rfl, fun h => h.elim⟩
      | some env' =>
        rw [hbA] at hstep
        obtain ⟨hgb, hnd, hnames⟩ := hgood d cl hf
        obtain ⟨stc, stc', hcomp, hstokc, hcnc⟩ := hcc
        obtain ⟨b', sa, sb, τb, hgtb, hfind, hcb, hfs1, hfs2, htfv⟩ :=
          coclauses_find fs_stepRel d cs stc cs'c stc' cl hcomp hf
        obtain ⟨hm1, hm2, hm3, hm4⟩ := findClause_mem cs d cl hf
        -- typing: the body of the clause has the type the rest of the stack expects
        have hkind : Fun.isCodataTy p τb = kkind k' := by
          cases hT with
          | ret σ hvt hkt =>
            cases hkt with
            | cons hft hkt' =>
              cases hft with
              | dtorApply D sg hD hsg hτ hvs =>
                obtain ⟨Γ, _, _, _, _, _, hbody, _⟩ := hvt.obj_clause hD hsg hf
                have h1 := getTypeM_of_typed p _ _ _ hbody
                rw [hgtb] at h1
                cases h1
                subst hτ
                exact KTM.kind X.progM hkt'
        have ha_fresh := freshCovar_not_mem sa
        have ha_sig := freshCovar_ne_sig sa
        have hsub1 : ∀ x ∈ stc.usedVars, x ∈ sa.usedVars := hfs1.sub
        -- binders and the covariable
        have hctxvar : ∀ bb ∈ compileContext cl.ctx, ∃ x ∈ cl.names, bb.var = ⟨x, 0⟩ := by
          intro bb hbb
          simp only [compileContext, List.mem_map] at hbb
          obtain ⟨fb, hfb, rfl⟩ := hbb
          exact ⟨fb.var, by rw [← hnames]; exact List.mem_map.2 ⟨fb, hfb, rfl⟩, rfl⟩
        have hanot : ∀ bb ∈ compileContext cl.ctx,
            bb.var ≠ (⟨(freshCovar sa).1, 0⟩ : Core.Ident) := by
          intro bb hbb e
          obtain ⟨x, hx, e'⟩ := hctxvar bb hbb
          rw [e'] at e
          have : x = (freshCovar sa).1 := by
            have := congrArg Core.Ident.name e
            simpa using this
          exact ha_fresh (this ▸ hsub1 x (hcnc.bd x (hm3 x hx)))
        -- bind on the ideal environment of the closure
        have hbA' : Fun.bindAll (cl.ctx.map (·.var)) vs envc = some env' := by
          rw [hnames]; exact hbA
        have hec' : EnvRel (GP p) p q S.fresh
            ((fv cl.body).filter (fun x => !(cl.ctx.map (·.var)).contains x)) envc
            ((⟨(freshCovar sa).1, 0⟩, cv) :: ρ0c) := by
          refine ((hec.mono hn).sub fun x hx =>
            hm1 x (by rw [← hnames]; exact hx)).agree fun y hy => lookup_cons_ne ?_ _ _
          intro e
          have : (freshCovar sa).1 = y := by cases e; rfl
          exact ha_fresh (this ▸ hsub1 y (hcnc.fv y (hm1 y (by rw [← hnames]; exact hy))))
        obtain ⟨ρ0n, hbind0, he'⟩ := EnvRel.bindAll (G := GP p) (q := q) (xs := fv cl.body)
          hec' (hvl.mono hn) (by rw [hnames]; exact hnd) hbA'
        have hlen : (compileContext cl.ctx).length = Vs.length := bind_length _ _ _ _ hbind0
        obtain ⟨ρn, hbind1⟩ := bind_ok_of_length (compileContext cl.ctx) Vs
          ((⟨(freshCovar sa).1, 0⟩, cv) :: ρc) hlen
        have hbind1' : Core.Env.bind ρc (compileContext cl.ctx ++
            [⟨⟨(freshCovar sa).1, 0⟩, .cns, compileTy τb⟩]) (Vs ++ [cv]) = .ok ρn := by
          rw [bind_snoc _ _ _ _ _ hlen]; exact hbind1
        have hcore : Core.step q S = .next { S with stmt := b', env := ρn } := by
          rw [hs]
          simp only [Core.State.invoke, Core.State.select, hfind, hbind1', Core.State.goto]
        have hla : Core.Env.lookup ρ0n ⟨(freshCovar sa).1, 0⟩ = .ok cv := by
          rw [bind_lookup_not_mem hbind0 hanot]
          exact lookup_cons_self _ _ _
        refine .inr ⟨0, _, .eval cl.body env' k', [], 1, _, .refl _,
          .inr ⟨none, hstep, rfl⟩, (fun _ => .inr (.inl (by intro h; cases h))), (fun _ => .inl (by omega)),
          .one hcore, by simp, ?_⟩
        refine SRel.eval (c := .var .cns ⟨(freshCovar sa).1, 0⟩ (compileTy τb)) (ρ0 := ρ0n)
          hgb ?_ he' ?_ ?_ ?_
        · refine ⟨(freshCovar sa).2, sb, hcb, hstokc.of_fresh hfs2.1, ?_, ?_⟩
          · refine ⟨fun x hx => ?_, fun x hx => ?_, ?_⟩
            · rw [freshCovar_used]
              refine List.mem_cons_of_mem _ (hsub1 x ?_)
              by_cases hxn : x ∈ cl.names
              · exact hcnc.bd x (hm3 x hxn)
              · exact hcnc.fv x (hm1 x (List.mem_filter.2 ⟨hx, by simpa using hxn⟩))
            · rw [freshCovar_used]
              exact List.mem_cons_of_mem _ (hsub1 x (hcnc.bd x (hm2 x hx)))
            · rw [freshCovar_used]
              simp only [List.mem_cons, not_or]
              exact ⟨fun e => ha_sig e.symm, hfs1.2 hcnc.nosig⟩
          · intro b hb
            simp only [occTerm, List.mem_singleton] at hb
            subst hb
            exact .inr ⟨ha_sig, by rw [freshCovar_used]; exact List.mem_cons_self⟩
        · exact crel_var (hka.mono hn) hla (by rw [X.cod τb]; exact hkind)
        · refine bind_bound hbind0 fun y hy hne => ?_
          by_cases hya : y.var = ⟨(freshCovar sa).1, 0⟩
          · exact ⟨cv, by rw [hya]; exact lookup_cons_self _ _ _⟩
          · rw [lookup_cons_ne (fun e => hya e.symm)]
            refine hbdc y (htfv y hy fun bb hbb e => ?_)
            rcases List.mem_append.1 hbb with h | h
            · exact hne bb h (by rw [e])
            · simp only [List.mem_singleton] at h
              subst h
              exact hya (by rw [← e])
        · refine bind_agree hbind0 hbind1 fun y hy hne => ?_
          by_cases hya : y.var = ⟨(freshCovar sa).1, 0⟩
          · rw [hya, lookup_cons_self, lookup_cons_self]
          · rw [lookup_cons_ne (fun e => hya e.symm), lookup_cons_ne (fun e => hya e.symm)]
            refine hagc' y (htfv y hy fun bb hbb e => ?_)
            rcases List.mem_append.1 hbb with h | h
            · exact hne bb h (by rw [e])
            · simp only [List.mem_singleton] at h
              subst h
              exact hya (by rw [← e])

/-- **returning a codata value**: the Fun machine returns `v` to a stack `k` that expects a codata
value; the next step of the Core machine sends the destructor value related to `k` to the value
related to `v` -/
theorem ret_cd (X : Ctx p q) {n : Nat} {k : Fun.Stack} {d : String} {Vs : List CVal}
    (hk : KRelD (GP p) p q n k (.dtor ⟨d, 0⟩ Vs)) {v : Fun.Value} {pv : CVal} {S : Core.State}
    (hv : VRel (GP p) p q n v pv) (hn : n ≤ S.fresh)
    (hs : Core.step q S = S.invoke pv ⟨d, 0⟩ Vs) (hT : STM p (.ret v k)) :
    Chunk p q (R p q) true true μ (.ret v k) S := by
  generalize hcv : Core.Val.dtor (S := Core.Stmt) (C := Core.Clauses) ⟨d, 0⟩ Vs = cv at hk
  cases hk with
  | dtorA hvl hka =>
    cases hcv
    exact ret_cd_apply X hvl hka hv hn hs hT
  | @dtorS d' args env vs Vs' k' cv' hpt hpa hvl hka =>
    cases hcv
    have f1 : FSteps p (.ret v (.dtorScrut d args env :: k')) (.args (.dtor v d) [] args env k') [] 1 :=
      .one rfl
    obtain ⟨j2, fj2⟩ := fun_pureArgs p args env vs (.dtor v d) [] k' hpt hpa
    have f2' : FSteps p (.args (.dtor v d) ([] ++ vs) .nil env k') (.ret v (.dtorApply d vs :: k')) [] 1 :=
      .one rfl
    have f12 := (f1.trans fj2).trans f2'
    simp only [List.append_nil, List.nil_append] at f12
    refine Chunk.prefix f12 (.refl _) rfl (fun _ => by omega) (fun h => .inr h) ?_
    exact (ret_cd_apply X hvl hka hv hn hs (FStepsM_preserves X.progM f12 hT)).weaken
  | shared _ _ _ _ _ => cases hcv
  | eta _ _ _ _ _ _ _ _ => cases hcv

end Scc.Fun2Core.Sem
