/-
  Scc.Fun2Core.SemSim4 — the program-level context of the simulation (`Ctx`), returning a value to a
  `case` continuation (`ret_case`) and to a `μ~` continuation (`ret_mu`, by induction on the relation
  of continuations), and passing the value of a focused producer to the consumer (`pass_chunk`).
-/
import Scc.Fun2Core.SemSim3
import Scc.Fun2Core.SemClauses
import Scc.Fun2Core.SemBind
import Scc.Fun2Core.SemCodTypingStep

namespace Scc.Fun2Core.Sem
open Scc

variable {q : Core.Prog} {p : Fun.CheckedProgram}

/-- what the simulation needs to know about the source program and its translation -/
structure Ctx (p : Fun.CheckedProgram) (q : Core.Prog) : Prop where
  cod : CodOK p q
  /-- the checked program is typed (monomorphic, annotated typing: what the checker guarantees) -/
  progM : Typed.ProgM p
  /-- definition names of the translation are pairwise distinct -/
  nodup : (q.defs.map (·.name)).Nodup
  /-- the body of a translated definition mentions only its parameters -/
  closed : ∀ D ∈ q.defs, ∀ b ∈ tfvStmt D.body [], ∃ b' ∈ D.ctx, b'.var = b.var
  /-- every definition other than `main` is translated with a fresh continuation parameter -/
  defs : ∀ f d, Fun.findDef p f = some d → f ≠ "main" →
    ∃ D a τ τ', D ∈ q.defs ∧ D.name = ⟨f, 0⟩ ∧
      D.ctx = compileContext d.ctx ++ [⟨⟨a, 0⟩, .cns, τ⟩] ∧
      Compiled q 0 d.body (.var .cns ⟨a, 0⟩ τ') D.body ∧
      (∃ τb, getType d.body = some τb ∧ τ' = compileTy τb) ∧ good p d.body = true ∧
      a ∉ d.ctx.map (·.var) ∧ (d.ctx.map (·.var)).Nodup ∧ (∀ x ∈ fv d.body, x ∈ d.ctx.map (·.var))

theorem find_of_mem_nodup {D : Core.Def} : ∀ {defs : List Core.Def}, D ∈ defs →
    (defs.map (·.name)).Nodup → defs.find? (fun d => d.name = D.name) = some D
  | [], h, _ => by simp at h
  | d :: ds, h, hn => by
    simp only [List.map_cons, List.nodup_cons] at hn
    rcases List.mem_cons.1 h with rfl | h
    · simp
    · have hne : d.name ≠ D.name := by
        intro e
        exact hn.1 (e ▸ List.mem_map.2 ⟨D, h, rfl⟩)
      simp only [List.find?_cons, hne, decide_false]
      exact find_of_mem_nodup h hn.2

theorem ConsNames.mono_st {c : Core.Term} {st st' : CompileState} {n : Nat} (h : ConsNames c st n)
    (hs : ∀ x ∈ st.usedVars, x ∈ st'.usedVars) : ConsNames c st' n := by
  intro b hb
  rcases h b hb with h | ⟨h1, h2⟩
  · exact .inl h
  · exact .inr ⟨h1, hs _ h2⟩

theorem step_ret_case (p : Fun.CheckedProgram) (K : String) (vs : List Fun.Value) (cs : Fun.Clauses)
    (env : Fun.Env) (k : Fun.Stack) :
    Fun.step p (.ret (.con K vs) (.caseF cs env :: k)) =
      (match Fun.findClause K cs with
        | none => .stuck (.noClause K)
        | some cl =>
          match Fun.bindAll cl.names vs env with
          | none => .stuck (.arity K)
          | some env' => .next (.eval cl.body env' k) none) := rfl

/-- a constructor value meets a `case` continuation -/
theorem ret_case {n : Nat} {k : Fun.Stack} {ρ ρ1 : CEnv} {cs' : Core.Clauses}
    (h : KRel (GP p) p q n k (.case ρ cs')) {v : Fun.Value} {V : CVal} {S : Core.State}
    (hv : VRel (GP p) p q n v V) (hn : n ≤ S.fresh) (ha : AgreeOn (tfvClauses cs' []) ρ ρ1)
    (hs : Core.step q S = S.pass V (.case ρ1 cs')) :
    Chunk p q (R p q) true true μ (.ret v k) S := by
  cases h with
  | @caseF cs env k' ρ0 _ c _ hgood hcc he hr hy hbd hag =>
    cases hv with
    | int a => exact .inl ⟨0, _, .stuck .notData, .refl _, rfl, fun h => h.elim⟩
    | cont _ => exact .inl ⟨0, _, .stuck .notData, .refl _, rfl, fun h => h.elim⟩
    | obj _ _ _ _ _ => exact .inl ⟨0, _, .stuck .notData, .refl _, rfl, fun h => h.elim⟩
    | @con K vs Vs hl =>
      have hstep := step_ret_case p K vs cs env k'
      cases hf : Fun.findClause K cs with
      | none =>
        rw [hf] at hstep
        exact .inl ⟨0, _, .stuck (.noClause K), .refl _, by rw [hstep]; rfl, fun h => h.elim⟩
      | some cl =>
        rw [hf] at hstep
        simp only at hstep
        cases hbA : Fun.bindAll cl.names vs env with
        | none =>
          rw [hbA] at hstep
          exact .inl ⟨0, _, .stuck (.arity K), .refl _, by rw [hstep]; rfl, fun h => h.elim⟩
        | some env' =>
          rw [hbA] at hstep
          obtain ⟨hg, hnd, hnames⟩ := hgood K cl hf
          obtain ⟨st, st', hcomp, hstok, hcn, hcons⟩ := hcc
          obtain ⟨b', st1, st2, hfind, hcb, hfs1, hfs2, htfv⟩ :=
            clauses_find fs_stepRel K cs c st cs' st' cl hcomp hf
          obtain ⟨hm1, hm2, hm3, hm4⟩ := findClause_mem cs K cl hf
          -- bind on the ideal environment
          have hbA' : Fun.bindAll (cl.ctx.map (·.var)) vs env = some env' := by rw [hnames]; exact hbA
          obtain ⟨ρ0', hbind0, he'⟩ := EnvRel.bindAll (G := GP p) (q := q) (xs := fv cl.body)
            (he.sub fun x hx => hm1 x (by rw [← hnames]; exact hx)) hl (by rw [hnames]; exact hnd) hbA'
          -- bind on the actual environment
          obtain ⟨ρ1', hbind1⟩ := bind_ok_of_length (compileContext cl.ctx) Vs ρ1
            (bind_length _ _ _ _ hbind0)
          have hcore : Core.step q S = .next { S with stmt := b', env := ρ1' } := by
            rw [hs]
            simp only [Core.State.pass, Core.State.select, hfind, hbind1, Core.State.goto]
          -- the binders are not free in the consumer
          have hctxvar : ∀ bb ∈ compileContext cl.ctx, ∃ x ∈ cl.names, bb.var = ⟨x, 0⟩ := by
            intro bb hbb
            simp only [compileContext, List.mem_map] at hbb
            obtain ⟨fb, hfb, rfl⟩ := hbb
            exact ⟨fb.var, by rw [← hnames]; exact List.mem_map.2 ⟨fb, hfb, rfl⟩, rfl⟩
          have hcfree : ∀ b ∈ tfvTerm c [], ∀ bb ∈ compileContext cl.ctx, bb.var ≠ b.var := by
            intro b hb bb hbb e
            obtain ⟨x, hx, e'⟩ := hctxvar bb hbb
            rw [e'] at e
            exact hy b hb (by rw [← e]) (by rw [← e]; exact hm4 x hx)
          have hsub1 : ∀ x ∈ st.usedVars, x ∈ st1.usedVars := used_sub_of_fresh hfs1.1
          refine .inr ⟨0, _, .eval cl.body env' k', [], 1, _, .refl _, .inr ⟨none, hstep, rfl⟩,
            (fun _ => .inr (.inl (by intro h; cases h))), (fun _ => .inl (Nat.le_refl 1)), .one hcore, by simp, ?_⟩
          refine SRel.eval (ρ0 := ρ0') (c := c) hg ?_ (he'.mono hn) ?_ ?_ ?_
          · refine ⟨st1, st2, hcb, hstok.of_fresh hfs2.1, ⟨fun x hx => ?_, fun x hx => ?_, hfs1.2 hcn.nosig⟩,
              (hcons.mono hn).mono_st hsub1⟩
            · by_cases hxn : x ∈ cl.names
              · exact hsub1 x (hcn.bd x (hm3 x hxn))
              · exact hsub1 x (hcn.fv x (hm1 x (List.mem_filter.2 ⟨hx, by simpa using hxn⟩)))
            · exact hsub1 x (hcn.bd x (hm2 x hx))
          · refine (hr.mono hn).agree fun b hb => ?_
            exact bind_lookup_not_mem hbind0 (hcfree b hb)
          · refine bind_bound hbind0 fun y hy' hne => ?_
            exact hbd y (htfv y hy' fun bb hbb e => hne bb hbb (by rw [e]))
          · refine bind_agree hbind0 hbind1 fun y hy' hne => ?_
            have hmem := htfv y hy' fun bb hbb e => hne bb hbb (by rw [e])
            exact (hag.trans ha) y hmem

end Scc.Fun2Core.Sem
