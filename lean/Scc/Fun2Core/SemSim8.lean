/-
  Scc.Fun2Core.SemSim8 — the capture guard (`guarded`), and the simulation of `let`, `case`,
  `label`, `goto`.
-/
import Scc.Fun2Core.SemSim7
import Scc.Fun2Core.SemOcc
import Scc.Fun2Core.HygieneProofs

namespace Scc.Fun2Core.Sem
open Scc

variable {q : Core.Prog} {p : Fun.CheckedProgram}

/-! ## padding the ideal environment -/

theorem lookup_append_ok {ρ ρe : CEnv} {z : Core.Ident} {V : CVal}
    (h : Core.Env.lookup ρ z = .ok V) : Core.Env.lookup (ρ ++ ρe) z = .ok V := by
  induction ρ with
  | nil => simp [Core.Env.lookup] at h
  | cons e r ih =>
    obtain ⟨y, W⟩ := e
    simp only [List.cons_append, lookup_cons] at h ⊢
    split
    · rename_i hy; simpa [hy] using h
    · rename_i hy; simp only [hy, if_false] at h; exact ih h

theorem lookup_append_pad (ρ : CEnv) (bs : List Core.Binding) {b : Core.Binding} (hb : b ∈ bs) :
    ∃ V, Core.Env.lookup (ρ ++ bs.map (fun b => (b.var, Core.Val.int 0))) b.var = .ok V := by
  induction ρ with
  | nil =>
    induction bs with
    | nil => simp at hb
    | cons b' bs ih =>
      simp only [List.nil_append, List.map_cons, lookup_cons]
      split
      · exact ⟨_, rfl⟩
      · rcases List.mem_cons.1 hb with rfl | h
        · rename_i hne; exact absurd rfl hne
        · simpa using ih h
  | cons e r ih =>
    obtain ⟨y, W⟩ := e
    simp only [List.cons_append, lookup_cons]
    split
    · exact ⟨W, rfl⟩
    · exact ih

/-- the ideal environment can be padded so that any given variables are bound -/
theorem ideal_pad (bs : List Core.Binding) {n : Nat} {xs : List String} {env : Fun.Env}
    {ρ0 ρ : CEnv} {k : Fun.Stack} {c : Core.Term} {sb : List Core.Binding}
    (he : EnvRel (GP p) p q n xs env ρ0) (hr : CRel (GP p) p q n k c ρ0) (hbd : BoundOn sb ρ0)
    (hag : AgreeOn sb ρ0 ρ) :
    ∃ ρ0p, EnvRel (GP p) p q n xs env ρ0p ∧ CRel (GP p) p q n k c ρ0p ∧ BoundOn sb ρ0p ∧ AgreeOn sb ρ0p ρ ∧
      BoundOn bs ρ0p := by
  refine ⟨ρ0 ++ bs.map (fun b => (b.var, Core.Val.int 0)), ?_, ?_, ?_, ?_, ?_⟩
  · refine .of_get fun y hy => ?_
    obtain ⟨v, V, h1, h2, h3⟩ := he.get hy
    exact ⟨v, V, h1, lookup_append_ok h2, h3⟩
  · refine hr.agree fun b hb => ?_
    obtain ⟨V, hV⟩ := hr.bound b hb
    rw [lookup_append_ok hV, hV]
  · intro b hb
    obtain ⟨V, hV⟩ := hbd b hb
    exact ⟨V, lookup_append_ok hV⟩
  · intro b hb
    obtain ⟨V, hV⟩ := hbd b hb
    rw [hag b hb, lookup_append_ok hV, hV]
  · intro b hb
    exact lookup_append_pad ρ0 bs hb

/-! ## names of consumers built by the translation -/

theorem consNames_mu {t : Fun.Term} {c : Core.Term} {st : CompileState} {s : Core.Stmt}
    {st' : CompileState} {n : Nat} (h : compileWithCont t c st = .ok (s, st'))
    (htn : TermNames t st) (hcn : ConsNames c st n) (x : Core.Ident) (ty : Core.Ty) :
    ConsNames (.mu .cns x ty s) st' n := by
  intro b hb
  simp only [occTerm] at hb
  rcases occ_cwc t h htn.fv htn.bd b hb with h1 | h1
  · exact (hcn.mono_st (fs_cwc h).sub) b h1
  · exact .inr ⟨fun e => cwc_noSig h htn.nosig (e ▸ h1), h1⟩

theorem consNames_xcase {cs : Fun.Clauses} {c : Core.Term} {st : CompileState} {cs' : Core.Clauses}
    {st' : CompileState} {n : Nat} (h : compileClauses cs c st = .ok (cs', st'))
    (htn : ClausesNames cs st) (hcn : ConsNames c st n) (ty : Core.Ty) :
    ConsNames (.xcase .cns ty cs') st' n := by
  have hfs : FS st st' := (rel_clauses fs_stepRel cs) c st cs' st' h
  intro b hb
  simp only [occTerm] at hb
  rcases occ_clauses cs h htn.fv htn.bd b hb with h1 | h1
  · exact (hcn.mono_st hfs.sub) b h1
  · exact .inr ⟨fun e => hfs.2 htn.nosig (e ▸ h1), h1⟩

/-! ## the capture guard -/

/-- simulation through the capture guard of `let` / `case`: on the guarded path the Core machine
first binds the fresh covariable to the value of the consumer (at a codata type: it forces the
consumer and binds the covariable to the destructor value) -/
theorem guard_sim (X : Ctx p q) {binders : List String} {ty : Option Fun.Ty} {site : String}
    {core : CwcFn} {c : Core.Term} {st : CompileState} {s : Core.Stmt} {st' : CompileState}
    {n : Nat} {k : Fun.Stack} {env : Fun.Env} {ρ0 ρ : CEnv} {out : Out} {sf : Fun.State} {b : Bool}
    (xs : List String) {t0 : Fun.Ty}
    (hcomp : guarded binders ty site core c st = .ok (s, st')) (hty : ty = some t0)
    (hkind : Core.isCodata q.codataTypes (compileTy t0) = kkind k) (hnosig : sig ∉ st.usedVars)
    (hbu : ∀ x ∈ binders, x ∈ st.usedVars) (hxs : ∀ x ∈ xs, x ∈ st.usedVars)
    (hcn : ConsNames c st n) (he : EnvRel (GP p) p q n xs env ρ0) (hr : CRel (GP p) p q n k c ρ0)
    (hbd : BoundOn (tfvStmt s []) ρ0) (hag : AgreeOn (tfvStmt s []) ρ0 ρ)
    (Hcore : ∀ n' c' st1 s' ρ0' ρ', n ≤ n' → core c' st1 = .ok (s', st') → FS st st1 →
      ConsNames c' st1 n' → (∀ b ∈ tfvTerm c' [], b.var.name ∉ binders) →
      EnvRel (GP p) p q n' xs env ρ0' → CRel (GP p) p q n' k c' ρ0' → BoundOn (tfvStmt s' []) ρ0' →
      AgreeOn (tfvStmt s' []) ρ0' ρ' → Chunk p q (R p q) b cp μ sf ⟨s', ρ', out, n'⟩) :
    Chunk p q (R p q) b cp μ sf ⟨s, ρ, out, n⟩ := by
  rw [guarded_eq_of_binders_used binders ty site core c st hbu] at hcomp
  by_cases hbo : bindersOccurFree binders c = true
  · rw [if_pos hbo] at hcomp
    subst hty
    simp only at hcomp
    cases hx : core (.var .cns ⟨(freshCovar st).1, 0⟩ (compileTy t0)) (freshCovar st).2 with
    | error e => simp [hx] at hcomp
    | ok r =>
      obtain ⟨s1, st1⟩ := r
      simp only [hx, Except.ok.injEq, Prod.mk.injEq] at hcomp
      obtain ⟨rfl, rfl⟩ := hcomp
      have hagc : AgreeOn (tfvTerm c []) ρ0 ρ := hag.mono fun y hy => mem_tfv_cut.2 (.inr hy)
      have ha_fresh := freshCovar_not_mem st
      have ha_sig := freshCovar_ne_sig st
      have hbd1 : BoundOn ((tfvStmt s1 []).filter (·.var ≠ ⟨(freshCovar st).1, 0⟩)) ρ0 :=
        hbd.mono fun y hy => by
          obtain ⟨h1, h2⟩ := List.mem_filter.1 hy
          exact mem_tfv_cut.2 (.inl (mem_tfv_mu_of h1 (by simpa using h2)))
      have hag1 : AgreeOn ((tfvStmt s1 []).filter (·.var ≠ ⟨(freshCovar st).1, 0⟩)) ρ0 ρ :=
        hag.mono fun y hy => by
          obtain ⟨h1, h2⟩ := List.mem_filter.1 hy
          exact mem_tfv_cut.2 (.inl (mem_tfv_mu_of h1 (by simpa using h2)))
      have hcn1 : ∀ m, ConsNames (.var .cns ⟨(freshCovar st).1, 0⟩ (compileTy t0)) (freshCovar st).2 m := by
        intro m b hb
        simp only [occTerm, List.mem_singleton] at hb
        subst hb
        exact .inr ⟨ha_sig, by rw [freshCovar_used]; exact List.mem_cons_self⟩
      have hnb : ∀ b ∈ tfvTerm (.var .cns ⟨(freshCovar st).1, 0⟩ (compileTy t0)) [],
          b.var.name ∉ binders := by
        intro b hb hmem
        rw [mem_tfv_var] at hb
        subst hb
        exact ha_fresh (hbu _ hmem)
      have hxne : ∀ y ∈ xs, (⟨(freshCovar st).1, 0⟩ : Core.Ident) ≠ ⟨y, 0⟩ := by
        intro y hy e
        have : (freshCovar st).1 = y := by cases e; rfl
        exact ha_fresh (this ▸ hxs y hy)
      cases hkk : kkind k with
      | false =>
        rw [hkk] at hkind
        have hrρ := hr.agree hagc
        have hck := hr.tyOK hkk
        cases hrρ with
        | @mk _ _ _ cv hcv hk hi hb' _ =>
          have hs := step_cut_mu (q := q) (cty := compileTy t0) (ty := compileTy t0) hkind
            (a := ⟨(freshCovar st).1, 0⟩) (s := s1) (ρ := ρ) (out := out) (n := n) hi hcv .prd
          refine Chunk.prefixCore (.one hs) rfl (Hcore n _ _ _ ((⟨(freshCovar st).1, 0⟩, cv) :: ρ0) _
            (Nat.le_refl n) hx (fs_stepRel.freshCovar st) (hcn1 n) hnb ?_ ?_ ?_ ?_)
          · exact he.agree fun y hy => lookup_cons_ne (hxne y hy) _ _
          · exact .mk (by simp [Core.cnsVal, lookup_cons]) hk trivial
              (fun b hb => by rw [mem_tfv_var] at hb; subst hb; exact ⟨_, lookup_cons_self _ _ _⟩) hkind
          · exact BoundOn.cons hbd1
          · exact AgreeOn.cons hag1
        | mkD _ _ _ _ hty' => rw [hty'] at hck; cases hck
        | dtor _ _ _ _ _ _ _ _ _ _ _ hty' => simp only [coreGetType] at hck; rw [hty'] at hck; cases hck
      | true =>
        rw [hkk] at hkind
        have hck : Core.isCodata q.codataTypes (coreGetType c) = true := by rw [← hr.kk]; exact hkk
        obtain ⟨i, S1, ρ1, pv, d, Vs, hcs, ho, hm1, hext, hpv, hs, hk⟩ :=
          force_cr X hr hck (cty := compileTy t0)
            (P := .mu .prd ⟨(freshCovar st).1, 0⟩ (compileTy t0) s1) (ρ := ρ) (out := out) (m := n)
            hkind trivial (Nat.le_refl n) hagc (prdOK_mu _ _ _ _ _ _)
        simp only [Core.prdVal, Except.ok.injEq] at hpv
        subst hpv
        rw [invoke_thunk] at hs
        have hlast : CSteps q S1 ⟨s1, (⟨(freshCovar st).1, 0⟩, .dtor ⟨d, 0⟩ Vs) :: ρ1, out, S1.fresh⟩ 1 := by
          refine .one ?_
          rw [hs, ho]
        obtain ⟨ρ01, hext0, hagx⟩ := hext.agree (ρ0 := ρ0)
        refine Chunk.prefixCore (hcs.trans hlast) rfl
          (Hcore S1.fresh _ _ _ ((⟨(freshCovar st).1, 0⟩, .dtor ⟨d, 0⟩ Vs) :: ρ01) _ hm1 hx
            (fs_stepRel.freshCovar st) (hcn1 _) hnb ?_ ?_ ?_ ?_)
        · refine ((he.mono hm1).sigExt hext0 fun y hy e => hnosig (e ▸ hxs y hy)).agree
            fun y hy => lookup_cons_ne (hxne y hy) _ _
        · exact .mkD (by simp [Core.cnsVal, lookup_cons]) hk trivial
            (fun b hb => by rw [mem_tfv_var] at hb; subst hb; exact ⟨_, lookup_cons_self _ _ _⟩) hkind
        · exact BoundOn.cons (hbd1.sigExt hext0)
        · exact AgreeOn.cons (hagx _ hag1)
  · rw [if_neg hbo] at hcomp
    have hbo' : bindersOccurFree binders c = false := by simpa using hbo
    refine Hcore n c st s ρ0 ρ (Nat.le_refl n) hcomp (fs_stepRel.refl st) hcn ?_ he hr hbd hag
    intro b hb hmem
    exact (bindersOccurFree_false.1 hbo') _ hmem (List.mem_map.2 ⟨b, hb, rfl⟩)

end Scc.Fun2Core.Sem
