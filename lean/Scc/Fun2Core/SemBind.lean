/-
  Scc.Fun2Core.SemBind — binding a list of names to values on both machines: `Scc.Fun.bindAll`
  (later names shadow earlier ones) and `Scc.Core.Env.bind` (earlier binders shadow later ones) give
  related environments when the names are pairwise distinct.
-/
import Scc.Fun2Core.SemRelLemmas
import Scc.Fun2Core.SemTfv

namespace Scc.Fun2Core.Sem
open Scc

variable {G : Fun.Term → Prop} {q : Core.Prog} {p : Fun.CheckedProgram}

/-! ## the Fun side -/

/-- first value bound to `y` in the parallel lists -/
def zipL (y : String) : List String → List Fun.Value → Option Fun.Value
  | x :: xs, v :: vs => if y = x then some v else zipL y xs vs
  | _, _ => none

theorem zipL_none_of_not_mem {y : String} : ∀ (xs : List String) (vs : List Fun.Value),
    y ∉ xs → zipL y xs vs = none
  | [], _, _ => by simp [zipL]
  | x :: xs, [], _ => by simp [zipL]
  | x :: xs, v :: vs, h => by
    simp only [List.mem_cons, not_or] at h
    simp [zipL, h.1, zipL_none_of_not_mem xs vs h.2]

theorem fun_lookup_cons (y x : String) (v : Fun.Value) (env : Fun.Env) :
    Fun.lookup y ((x, v) :: env) = if y = x then some v else Fun.lookup y env := by
  simp only [Fun.lookup]
  by_cases h : y = x <;> simp [h]

theorem bindAll_lookup : ∀ (names : List String) (vs : List Fun.Value) (env env' : Fun.Env),
    Fun.bindAll names vs env = some env' → names.Nodup → ∀ y,
      Fun.lookup y env' = (match zipL y names vs with
        | some v => some v
        | none => Fun.lookup y env)
  | [], [], env, env', h, _, y => by
    simp only [Fun.bindAll, Option.some.injEq] at h
    subst h
    simp [zipL]
  | [], _ :: _, _, _, h, _, _ => by simp [Fun.bindAll] at h
  | _ :: _, [], _, _, h, _, _ => by simp [Fun.bindAll] at h
  | x :: xs, v :: vs, env, env', h, hn, y => by
    simp only [Fun.bindAll] at h
    simp only [List.nodup_cons] at hn
    rw [bindAll_lookup xs vs _ env' h hn.2 y]
    by_cases hy : y = x
    · subst hy
      simp [zipL, zipL_none_of_not_mem xs vs hn.1, fun_lookup_cons]
    · simp only [zipL, hy, if_false]
      cases zipL y xs vs with
      | some w => rfl
      | none => simp [fun_lookup_cons, hy]

theorem bindAll_length : ∀ (names : List String) (vs : List Fun.Value) (env env' : Fun.Env),
    Fun.bindAll names vs env = some env' → names.length = vs.length
  | [], [], _, _, _ => rfl
  | [], _ :: _, _, _, h => by simp [Fun.bindAll] at h
  | _ :: _, [], _, _, h => by simp [Fun.bindAll] at h
  | x :: xs, v :: vs, env, env', h => by
    simp only [Fun.bindAll] at h
    simp [bindAll_length xs vs _ env' h]

/-! ## the Core side -/

def zipC (z : Core.Ident) : Core.Ctx → List CVal → Option CVal
  | b :: bs, V :: Vs => if b.var = z then some V else zipC z bs Vs
  | _, _ => none

theorem bind_lookup : ∀ (ctx : Core.Ctx) (Vs : List CVal) (ρ ρ' : CEnv),
    Core.Env.bind ρ ctx Vs = .ok ρ' → ∀ z,
      Core.Env.lookup ρ' z = (match zipC z ctx Vs with
        | some V => .ok V
        | none => Core.Env.lookup ρ z)
  | [], [], ρ, ρ', h, z => by
    simp only [Core.Env.bind, Except.ok.injEq] at h
    subst h
    simp [zipC]
  | [], _ :: _, _, _, h, _ => by simp [Core.Env.bind] at h
  | _ :: _, [], _, _, h, _ => by simp [Core.Env.bind] at h
  | b :: bs, V :: Vs, ρ, ρ', h, z => by
    simp only [Core.Env.bind] at h
    cases hr : Core.Env.bind ρ bs Vs with
    | error e => simp [hr] at h
    | ok ρ1 =>
      simp only [hr, Except.ok.injEq] at h
      subst h
      rw [lookup_cons]
      by_cases hz : b.var = z
      · simp [zipC, hz]
      · simp only [hz, if_false, zipC]
        exact bind_lookup bs Vs ρ ρ1 hr z

theorem bind_ok_of_length : ∀ (ctx : Core.Ctx) (Vs : List CVal) (ρ : CEnv),
    ctx.length = Vs.length → ∃ ρ', Core.Env.bind ρ ctx Vs = .ok ρ'
  | [], [], ρ, _ => ⟨ρ, rfl⟩
  | [], _ :: _, _, h => by simp at h
  | _ :: _, [], _, h => by simp at h
  | b :: bs, V :: Vs, ρ, h => by
    obtain ⟨ρ1, h1⟩ := bind_ok_of_length bs Vs ρ (by simpa using h)
    exact ⟨(b.var, V) :: ρ1, by simp [Core.Env.bind, h1]⟩

/-! ## both sides -/

theorem VRelL.length {n : Nat} : ∀ {vs : List Fun.Value} {Vs : List CVal},
    VRelL G p q n vs Vs → vs.length = Vs.length
  | _, _, .nil _ => rfl
  | _, _, .cons _ h => by simp [VRelL.length h]

/-- corresponding positions of the parallel lists hold related values -/
theorem zip_rel {n : Nat} (y : String) : ∀ (ctx : Fun.Ctx) (vs : List Fun.Value) (Vs : List CVal),
    VRelL G p q n vs Vs → ctx.length = vs.length →
    (zipL y (ctx.map (·.var)) vs = none ∧ zipC ⟨y, 0⟩ (compileContext ctx) Vs = none) ∨
    ∃ v V, zipL y (ctx.map (·.var)) vs = some v ∧ zipC ⟨y, 0⟩ (compileContext ctx) Vs = some V ∧
      VRel G p q n v V
  | [], [], _, .nil _, _ => .inl ⟨rfl, rfl⟩
  | [], _ :: _, _, _, h => by simp at h
  | _ :: _, [], _, _, h => by simp at h
  | b :: bs, v :: vs, _, .cons (V := V) (Vs := Vs) hv hr, h => by
    by_cases hy : y = b.var
    · exact .inr ⟨v, V, by simp [zipL, hy], by simp [zipC, compileContext, hy], hv⟩
    · have hy' : ¬ (⟨b.var, 0⟩ : Core.Ident) = ⟨y, 0⟩ := by
        intro e; cases e; exact hy rfl
      rcases zip_rel y bs vs Vs hr (by simpa using h) with ⟨h1, h2⟩ | ⟨v', V', h1, h2, h3⟩
      · left
        constructor
        · simp only [List.map_cons, zipL, hy, if_false]; exact h1
        · simp only [compileContext, List.map_cons, zipC, hy', if_false]
          exact h2
      · right
        refine ⟨v', V', ?_, ?_, h3⟩
        · simp only [List.map_cons, zipL, hy, if_false]; exact h1
        · simp only [compileContext, List.map_cons, zipC, hy', if_false]
          exact h2

theorem compileContext_length (ctx : Fun.Ctx) : (compileContext ctx).length = ctx.length := by
  simp [compileContext]

/-- binding the parameters of a clause / definition on both sides -/
theorem EnvRel.bindAll {n : Nat} {xs : List String} {env env' : Fun.Env} {ρ0 : CEnv}
    {ctx : Fun.Ctx} {vs : List Fun.Value} {Vs : List CVal}
    (he : EnvRel G p q n (xs.filter (fun x => !(ctx.map (·.var)).contains x)) env ρ0)
    (hv : VRelL G p q n vs Vs) (hn : (ctx.map (·.var)).Nodup)
    (hb : Fun.bindAll (ctx.map (·.var)) vs env = some env') :
    ∃ ρ0', Core.Env.bind ρ0 (compileContext ctx) Vs = .ok ρ0' ∧ EnvRel G p q n xs env' ρ0' := by
  have hlen := bindAll_length _ _ _ _ hb
  simp only [List.length_map] at hlen
  obtain ⟨ρ0', hρ⟩ := bind_ok_of_length (compileContext ctx) Vs ρ0
    (by rw [compileContext_length, hlen, hv.length])
  refine ⟨ρ0', hρ, .of_get fun y hy => ?_⟩
  rw [bindAll_lookup _ _ _ _ hb hn y, bind_lookup _ _ _ _ hρ ⟨y, 0⟩]
  rcases zip_rel (G := G) (q := q) y ctx vs Vs hv hlen with ⟨h1, h2⟩ | ⟨v, V, h1, h2, h3⟩
  · rw [h1, h2]
    have hnot : y ∉ ctx.map (·.var) := by
      intro hmem
      -- a bound name has a value in the zipped lists
      have : ∀ (bs : Fun.Ctx) (ws : List Fun.Value), bs.length = ws.length → y ∈ bs.map (·.var) →
          zipL y (bs.map (·.var)) ws ≠ none := by
        intro bs
        induction bs with
        | nil => intro ws _ h; simp at h
        | cons b bs ih =>
          intro ws hl h
          cases ws with
          | nil => simp at hl
          | cons w ws =>
            by_cases hyb : y = b.var
            · simp [zipL, hyb]
            · simp only [List.map_cons, zipL, hyb, if_false]
              exact ih ws (by simpa using hl) (by simpa [hyb] using h)
      exact this ctx vs hlen hmem h1
    exact he.get (List.mem_filter.2 ⟨hy, by simpa using hnot⟩)
  · rw [h1, h2]
    exact ⟨v, V, rfl, rfl, h3⟩

/-! ## agreement and boundness after binding -/

theorem zipC_none_of_not_mem {z : Core.Ident} : ∀ (ctx : Core.Ctx) (Vs : List CVal),
    (∀ b ∈ ctx, b.var ≠ z) → zipC z ctx Vs = none
  | [], _, _ => by simp [zipC]
  | b :: bs, [], _ => by simp [zipC]
  | b :: bs, V :: Vs, h => by
    have h1 : b.var ≠ z := h b (by simp)
    simp only [zipC, h1, if_false]
    exact zipC_none_of_not_mem bs Vs (fun b' hb' => h b' (by simp [hb']))

theorem zipC_some_of_mem {z : Core.Ident} : ∀ (ctx : Core.Ctx) (Vs : List CVal),
    ctx.length = Vs.length → (∃ b ∈ ctx, b.var = z) → ∃ V, zipC z ctx Vs = some V
  | [], _, _, h => by simp at h
  | b :: bs, [], hl, _ => by simp at hl
  | b :: bs, V :: Vs, hl, h => by
    by_cases hb : b.var = z
    · exact ⟨V, by simp [zipC, hb]⟩
    · simp only [zipC, hb, if_false]
      refine zipC_some_of_mem bs Vs (by simpa using hl) ?_
      obtain ⟨b', hb', e⟩ := h
      rcases List.mem_cons.1 hb' with rfl | h'
      · exact absurd e hb
      · exact ⟨b', h', e⟩

theorem bind_length : ∀ (ctx : Core.Ctx) (Vs : List CVal) (ρ ρ' : CEnv),
    Core.Env.bind ρ ctx Vs = .ok ρ' → ctx.length = Vs.length
  | [], [], _, _, _ => rfl
  | [], _ :: _, _, _, h => by simp [Core.Env.bind] at h
  | _ :: _, [], _, _, h => by simp [Core.Env.bind] at h
  | b :: bs, V :: Vs, ρ, ρ', h => by
    simp only [Core.Env.bind] at h
    cases hr : Core.Env.bind ρ bs Vs with
    | error e => simp [hr] at h
    | ok ρ1 => simp [bind_length bs Vs ρ ρ1 hr]

/-- binding the same values on two environments that agree away from the binders -/
theorem bind_agree {ctx : Core.Ctx} {Vs : List CVal} {ρa ρb ρa' ρb' : CEnv} {bs : List Core.Binding}
    (ha : Core.Env.bind ρa ctx Vs = .ok ρa') (hb : Core.Env.bind ρb ctx Vs = .ok ρb')
    (h : ∀ y ∈ bs, (∀ bb ∈ ctx, bb.var ≠ y.var) → Core.Env.lookup ρb y.var = Core.Env.lookup ρa y.var) :
    AgreeOn bs ρa' ρb' := by
  intro y hy
  rw [bind_lookup _ _ _ _ ha, bind_lookup _ _ _ _ hb]
  cases hz : zipC y.var ctx Vs with
  | some V => rfl
  | none =>
    refine h y hy fun bb hbb e => ?_
    obtain ⟨V, hV⟩ := zipC_some_of_mem ctx Vs (bind_length _ _ _ _ ha) ⟨bb, hbb, e⟩
    rw [hz] at hV
    cases hV

theorem bind_bound {ctx : Core.Ctx} {Vs : List CVal} {ρa ρa' : CEnv} {bs : List Core.Binding}
    (ha : Core.Env.bind ρa ctx Vs = .ok ρa')
    (h : ∀ y ∈ bs, (∀ bb ∈ ctx, bb.var ≠ y.var) → ∃ V, Core.Env.lookup ρa y.var = .ok V) :
    BoundOn bs ρa' := by
  intro y hy
  rw [bind_lookup _ _ _ _ ha]
  cases hz : zipC y.var ctx Vs with
  | some V => exact ⟨V, rfl⟩
  | none =>
    refine h y hy fun bb hbb e => ?_
    obtain ⟨V, hV⟩ := zipC_some_of_mem ctx Vs (bind_length _ _ _ _ ha) ⟨bb, hbb, e⟩
    rw [hz] at hV
    cases hV

theorem bind_lookup_not_mem {ctx : Core.Ctx} {Vs : List CVal} {ρa ρa' : CEnv} {z : Core.Ident}
    (ha : Core.Env.bind ρa ctx Vs = .ok ρa') (h : ∀ bb ∈ ctx, bb.var ≠ z) :
    Core.Env.lookup ρa' z = Core.Env.lookup ρa z := by
  rw [bind_lookup _ _ _ _ ha, zipC_none_of_not_mem ctx Vs h]

end Scc.Fun2Core.Sem
