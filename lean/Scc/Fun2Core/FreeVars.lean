/-
  Scc.Fun2Core.FreeVars — facts about the ordered-set model of `BTreeSet<ContextBinding>` and
  `typed_free_vars`: the derived order is a strict linear order, `insert` keeps the list strictly
  sorted (hence duplicate-free), and the typed free variables of a statement are among its
  variable occurrences.  Used for the arity bound of lifted definitions (C19).
-/
import Scc.Fun2Core.Model

namespace Scc.Fun2Core
open Scc

/-! ## the derived order -/

theorem cmpIdent_eq {a b : Core.Ident} (h : cmpIdent a b = .eq) : a = b := by
  unfold cmpIdent at h
  split at h
  · simp at h
  · split at h
    · simp at h
    · rename_i h1 h2
      have hn : a.name = b.name := String.le_antisymm (String.not_lt.1 h2) (String.not_lt.1 h1)
      have hi : a.id = b.id := by
        rcases Nat.lt_trichotomy a.id b.id with h | h | h
        · simp [compare, compareOfLessAndEq, h] at *
        · exact h
        · have : ¬ a.id < b.id := by omega
          have : a.id ≠ b.id := by omega
          simp [compare, compareOfLessAndEq, *] at *
      cases a; cases b; simp_all

theorem cmpIdent_lt_iff {a b : Core.Ident} :
    cmpIdent a b = .lt ↔ a.name < b.name ∨ (a.name = b.name ∧ a.id < b.id) := by
  unfold cmpIdent
  split
  · rename_i h; simp [h]
  · rename_i h1
    split
    · rename_i h2
      simp only [reduceCtorEq, false_iff, not_or, not_and]
      exact ⟨h1, fun e => by rw [e] at h2; exact absurd h2 (String.lt_irrefl _)⟩
    · rename_i h2
      have hn : a.name = b.name := String.le_antisymm (String.not_lt.1 h2) (String.not_lt.1 h1)
      rw [Nat.compare_eq_lt]
      simp [hn]

theorem cmpIdent_gt_iff {a b : Core.Ident} : cmpIdent a b = .gt ↔ cmpIdent b a = .lt := by
  rw [cmpIdent_lt_iff]
  unfold cmpIdent
  split
  · rename_i h
    simp only [reduceCtorEq, false_iff, not_or, not_and]
    exact ⟨String.lt_asymm h, fun e => by rw [e] at h; exact absurd h (String.lt_irrefl _)⟩
  · rename_i h1
    split
    · rename_i h2; simp [h2]
    · rename_i h2
      have hn : a.name = b.name := String.le_antisymm (String.not_lt.1 h2) (String.not_lt.1 h1)
      rw [Nat.compare_eq_gt]
      simp [hn]

theorem cmpIdent_lt_trans {a b c : Core.Ident} (h1 : cmpIdent a b = .lt) (h2 : cmpIdent b c = .lt) :
    cmpIdent a c = .lt := by
  rw [cmpIdent_lt_iff] at *
  rcases h1 with h1 | ⟨e1, h1⟩ <;> rcases h2 with h2 | ⟨e2, h2⟩
  · exact .inl (String.lt_trans h1 h2)
  · exact .inl (e2 ▸ h1)
  · exact .inl (e1 ▸ h2)
  · exact .inr ⟨e1.trans e2, Nat.lt_trans h1 h2⟩

theorem cmpIdent_lt_irrefl (a : Core.Ident) : cmpIdent a a ≠ .lt := by
  rw [Ne, cmpIdent_lt_iff]
  simp

theorem cmpPC_eq {a b : Core.PC} (h : cmpPC a b = .eq) : a = b := by
  cases a <;> cases b <;> simp_all [cmpPC]
theorem cmpPC_gt_iff {a b : Core.PC} : cmpPC a b = .gt ↔ cmpPC b a = .lt := by
  cases a <;> cases b <;> simp [cmpPC]
theorem cmpPC_lt_trans {a b c : Core.PC} (h1 : cmpPC a b = .lt) (h2 : cmpPC b c = .lt) :
    cmpPC a c = .lt := by
  cases a <;> cases b <;> cases c <;> simp_all [cmpPC]
theorem cmpPC_lt_irrefl (a : Core.PC) : cmpPC a a ≠ .lt := by cases a <;> simp [cmpPC]

theorem cmpTy_eq {a b : Core.Ty} (h : cmpTy a b = .eq) : a = b := by
  cases a <;> cases b <;> simp_all [cmpTy]
  exact cmpIdent_eq h
theorem cmpTy_gt_iff {a b : Core.Ty} : cmpTy a b = .gt ↔ cmpTy b a = .lt := by
  cases a <;> cases b <;> simp [cmpTy]
  exact cmpIdent_gt_iff
theorem cmpTy_lt_trans {a b c : Core.Ty} (h1 : cmpTy a b = .lt) (h2 : cmpTy b c = .lt) :
    cmpTy a c = .lt := by
  cases a <;> cases b <;> cases c <;> simp_all [cmpTy]
  exact cmpIdent_lt_trans h1 h2
theorem cmpTy_lt_irrefl (a : Core.Ty) : cmpTy a a ≠ .lt := by
  cases a <;> simp [cmpTy]
  exact cmpIdent_lt_irrefl _

/-- `a < b` in the derived order of `ContextBinding` -/
def bLt (a b : Core.Binding) : Prop := cmpBinding a b = .lt

theorem cmpBinding_lt_iff {a b : Core.Binding} :
    cmpBinding a b = .lt ↔
      cmpIdent a.var b.var = .lt ∨ (a.var = b.var ∧ (cmpPC a.chi b.chi = .lt ∨
        (a.chi = b.chi ∧ cmpTy a.ty b.ty = .lt))) := by
  unfold cmpBinding
  split
  · rename_i h; simp [h]
  · rename_i h
    have : a.var ≠ b.var := fun e => by
      rw [cmpIdent_gt_iff, e] at h; exact cmpIdent_lt_irrefl _ h
    simp [h, this]
  · rename_i h
    have e := cmpIdent_eq h
    simp only [e, true_and]
    split
    · rename_i h2; simp [h2]
    · rename_i h2
      have : a.chi ≠ b.chi := fun e => by
        rw [cmpPC_gt_iff, e] at h2; exact cmpPC_lt_irrefl _ h2
      simp [h2, this, cmpIdent_lt_irrefl]
    · rename_i h2
      have e2 := cmpPC_eq h2
      simp [e2, cmpIdent_lt_irrefl, cmpPC_lt_irrefl]

theorem cmpBinding_eq {a b : Core.Binding} (h : cmpBinding a b = .eq) : a = b := by
  unfold cmpBinding at h
  split at h
  · simp at h
  · simp at h
  · rename_i h1
    split at h
    · simp at h
    · simp at h
    · rename_i h2
      have := cmpIdent_eq h1; have := cmpPC_eq h2; have := cmpTy_eq h
      cases a; cases b; simp_all

theorem cmpBinding_gt {a b : Core.Binding} (h : cmpBinding a b = .gt) : bLt b a := by
  unfold bLt
  rw [cmpBinding_lt_iff]
  unfold cmpBinding at h
  split at h
  · simp at h
  · rename_i h1; exact .inl (cmpIdent_gt_iff.1 h1)
  · rename_i h1
    have e1 := cmpIdent_eq h1
    split at h
    · simp at h
    · rename_i h2; exact .inr ⟨e1.symm, .inl (cmpPC_gt_iff.1 h2)⟩
    · rename_i h2
      exact .inr ⟨e1.symm, .inr ⟨(cmpPC_eq h2).symm, cmpTy_gt_iff.1 h⟩⟩

theorem bLt_trans {a b c : Core.Binding} (h1 : bLt a b) (h2 : bLt b c) : bLt a c := by
  unfold bLt at *
  rw [cmpBinding_lt_iff] at *
  rcases h1 with h1 | ⟨e1, h1⟩ <;> rcases h2 with h2 | ⟨e2, h2⟩
  · exact .inl (cmpIdent_lt_trans h1 h2)
  · exact .inl (e2 ▸ h1)
  · exact .inl (e1 ▸ h2)
  · refine .inr ⟨e1.trans e2, ?_⟩
    rcases h1 with h1 | ⟨f1, h1⟩ <;> rcases h2 with h2 | ⟨f2, h2⟩
    · exact .inl (cmpPC_lt_trans h1 h2)
    · exact .inl (f2 ▸ h1)
    · exact .inl (f1 ▸ h2)
    · exact .inr ⟨f1.trans f2, cmpTy_lt_trans h1 h2⟩

theorem bLt_irrefl (a : Core.Binding) : ¬ bLt a a := by
  unfold bLt
  rw [cmpBinding_lt_iff]
  simp [cmpIdent_lt_irrefl, cmpPC_lt_irrefl, cmpTy_lt_irrefl]

/-! ## the ordered set operations -/

/-- strictly sorted = the invariant of a `BTreeSet` -/
def BSorted (l : List Core.Binding) : Prop := l.Pairwise bLt

theorem BSorted.nodup {l : List Core.Binding} (h : BSorted l) : l.Nodup :=
  List.Pairwise.imp (fun {a b} hab e => by subst e; exact bLt_irrefl _ hab) h

theorem mem_bsetInsert {y b : Core.Binding} :
    ∀ {l : List Core.Binding}, y ∈ bsetInsert b l → y = b ∨ y ∈ l
  | [], h => by simpa [bsetInsert] using h
  | x :: xs, h => by
    unfold bsetInsert at h
    split at h
    · simpa using h
    · exact .inr h
    · rcases List.mem_cons.1 h with h | h
      · exact .inr (by simp [h])
      · rcases mem_bsetInsert h with h | h
        · exact .inl h
        · exact .inr (by simp [h])

theorem bsetInsert_sorted {b : Core.Binding} :
    ∀ {l : List Core.Binding}, BSorted l → BSorted (bsetInsert b l)
  | [], _ => by simp [bsetInsert, BSorted]
  | x :: xs, h => by
    unfold bsetInsert
    have hx := List.pairwise_cons.1 h
    split
    · rename_i hlt
      refine List.pairwise_cons.2 ⟨?_, h⟩
      intro y hy
      rcases List.mem_cons.1 hy with rfl | hy
      · exact hlt
      · exact bLt_trans hlt (hx.1 y hy)
    · exact h
    · rename_i hgt
      refine List.pairwise_cons.2 ⟨?_, bsetInsert_sorted hx.2⟩
      intro y hy
      rcases mem_bsetInsert hy with rfl | hy
      · exact cmpBinding_gt hgt
      · exact hx.1 y hy

theorem mem_bsetRemove {y b : Core.Binding} :
    ∀ {l : List Core.Binding}, y ∈ bsetRemove b l → y ∈ l
  | [], h => by simp [bsetRemove] at h
  | x :: xs, h => by
    unfold bsetRemove at h
    split at h
    · exact List.mem_cons_of_mem _ h
    · rcases List.mem_cons.1 h with h | h
      · simp [h]
      · exact List.mem_cons_of_mem _ (mem_bsetRemove h)

theorem mem_foldl_bsetRemove {y : Core.Binding} (ctx : List Core.Binding) :
    ∀ {l : List Core.Binding}, y ∈ ctx.foldl (fun acc b => bsetRemove b acc) l → y ∈ l := by
  induction ctx with
  | nil => exact fun h => h
  | cons b bs ih => exact fun h => mem_bsetRemove (ih h)

theorem mem_bsetExtend {y : Core.Binding} (add : List Core.Binding) :
    ∀ {vars : List Core.Binding}, y ∈ bsetExtend vars add → y ∈ vars ∨ y ∈ add := by
  unfold bsetExtend
  induction add with
  | nil => exact fun h => .inl h
  | cons b bs ih =>
    intro vars h
    rcases ih h with h | h
    · rcases mem_bsetInsert h with h | h
      · exact .inr (by simp [h])
      · exact .inl h
    · exact .inr (by simp [h])

theorem bsetExtend_sorted (add : List Core.Binding) :
    ∀ {vars : List Core.Binding}, BSorted vars → BSorted (bsetExtend vars add) := by
  unfold bsetExtend
  induction add with
  | nil => exact fun h => h
  | cons b bs ih => exact fun h => ih (bsetInsert_sorted h)

/-! ## variable occurrences and typed free variables -/

mutual
  /-- all (co)variable occurrences of a Core term, as typed bindings (binders ignored) -/
  def occTerm : Core.Term → List Core.Binding
    | .var pc v ty => [⟨v, pc, ty⟩]
    | .lit _ => []
    | .op a _ b => occTerm a ++ occTerm b
    | .mu _ _ _ s => occStmt s
    | .xtor _ _ args _ => occArgs args
    | .xcase _ _ cs => occClauses cs
  def occArgs : Core.Args → List Core.Binding
    | .nil => []
    | .cons _ t r => occTerm t ++ occArgs r
  def occClauses : Core.Clauses → List Core.Binding
    | .nil => []
    | .cons _ _ body rest => occStmt body ++ occClauses rest
  def occStmt : Core.Stmt → List Core.Binding
    | .cut _ p c => occTerm p ++ occTerm c
    | .ifc _ a b t e => occTerm a ++ occTerm b ++ occStmt t ++ occStmt e
    | .ifz _ a t e => occTerm a ++ occStmt t ++ occStmt e
    | .print _ a n => occTerm a ++ occStmt n
    | .call _ args _ => occArgs args
    | .exit a _ => occTerm a
end

mutual
theorem tfvTerm_spec : ∀ (t : Core.Term) (vars : List Core.Binding),
    (BSorted vars → BSorted (tfvTerm t vars)) ∧
    (∀ y ∈ tfvTerm t vars, y ∈ vars ∨ y ∈ occTerm t)
  | .var pc v ty, vars => by
    refine ⟨fun h => bsetInsert_sorted h, fun y hy => ?_⟩
    rcases mem_bsetInsert (by simpa [tfvTerm] using hy) with h | h
    · exact .inr (by simp [occTerm, h])
    · exact .inl h
  | .lit _, vars => ⟨fun h => h, fun y hy => .inl hy⟩
  | .op a _ b, vars => by
    have ha := tfvTerm_spec a vars
    have hb := tfvTerm_spec b (tfvTerm a vars)
    refine ⟨fun h => hb.1 (ha.1 h), fun y hy => ?_⟩
    rcases hb.2 y hy with h | h
    · rcases ha.2 y h with h | h
      · exact .inl h
      · exact .inr (by simp [occTerm, h])
    · exact .inr (by simp [occTerm, h])
  | .mu pc v ty s, vars => by
    have hs := tfvStmt_spec s []
    refine ⟨fun h => bsetExtend_sorted _ h, fun y hy => ?_⟩
    rcases mem_bsetExtend _ (by simpa [tfvTerm] using hy) with h | h
    · exact .inl h
    · rcases hs.2 y (mem_bsetRemove h) with h | h
      · simp at h
      · exact .inr (by simpa [occTerm] using h)
  | .xtor _ _ args _, vars => by
    have := tfvArgs_spec args vars
    exact ⟨this.1, fun y hy => by simpa [occTerm] using this.2 y hy⟩
  | .xcase _ _ cs, vars => by
    have := tfvClauses_spec cs vars
    exact ⟨this.1, fun y hy => by simpa [occTerm] using this.2 y hy⟩
theorem tfvArgs_spec : ∀ (a : Core.Args) (vars : List Core.Binding),
    (BSorted vars → BSorted (tfvArgs a vars)) ∧
    (∀ y ∈ tfvArgs a vars, y ∈ vars ∨ y ∈ occArgs a)
  | .nil, vars => ⟨fun h => h, fun y hy => .inl hy⟩
  | .cons _ t r, vars => by
    have ht := tfvTerm_spec t vars
    have hr := tfvArgs_spec r (tfvTerm t vars)
    refine ⟨fun h => hr.1 (ht.1 h), fun y hy => ?_⟩
    rcases hr.2 y hy with h | h
    · rcases ht.2 y h with h | h
      · exact .inl h
      · exact .inr (by simp [occArgs, h])
    · exact .inr (by simp [occArgs, h])
theorem tfvClauses_spec : ∀ (c : Core.Clauses) (vars : List Core.Binding),
    (BSorted vars → BSorted (tfvClauses c vars)) ∧
    (∀ y ∈ tfvClauses c vars, y ∈ vars ∨ y ∈ occClauses c)
  | .nil, vars => ⟨fun h => h, fun y hy => .inl hy⟩
  | .cons _ ctx body rest, vars => by
    have hb := tfvStmt_spec body []
    have hr := tfvClauses_spec rest
      (bsetExtend vars (ctx.foldl (fun acc b => bsetRemove b acc) (tfvStmt body [])))
    refine ⟨fun h => hr.1 (bsetExtend_sorted _ h), fun y hy => ?_⟩
    rcases hr.2 y hy with h | h
    · rcases mem_bsetExtend _ h with h | h
      · exact .inl h
      · rcases hb.2 y (mem_foldl_bsetRemove ctx h) with h | h
        · simp at h
        · exact .inr (by simp [occClauses, h])
    · exact .inr (by simp [occClauses, h])
theorem tfvStmt_spec : ∀ (s : Core.Stmt) (vars : List Core.Binding),
    (BSorted vars → BSorted (tfvStmt s vars)) ∧
    (∀ y ∈ tfvStmt s vars, y ∈ vars ∨ y ∈ occStmt s)
  | .cut _ p c, vars => by
    have hp := tfvTerm_spec p vars
    have hc := tfvTerm_spec c (tfvTerm p vars)
    refine ⟨fun h => hc.1 (hp.1 h), fun y hy => ?_⟩
    rcases hc.2 y hy with h | h
    · rcases hp.2 y h with h | h
      · exact .inl h
      · exact .inr (by simp [occStmt, h])
    · exact .inr (by simp [occStmt, h])
  | .ifc _ a b t e, vars => by
    have ha := tfvTerm_spec a vars
    have hb := tfvTerm_spec b (tfvTerm a vars)
    have ht := tfvStmt_spec t (tfvTerm b (tfvTerm a vars))
    have he := tfvStmt_spec e (tfvStmt t (tfvTerm b (tfvTerm a vars)))
    refine ⟨fun h => he.1 (ht.1 (hb.1 (ha.1 h))), fun y hy => ?_⟩
    rcases he.2 y hy with h | h
    · rcases ht.2 y h with h | h
      · rcases hb.2 y h with h | h
        · rcases ha.2 y h with h | h
          · exact .inl h
          · exact .inr (by simp [occStmt, h])
        · exact .inr (by simp [occStmt, h])
      · exact .inr (by simp [occStmt, h])
    · exact .inr (by simp [occStmt, h])
  | .ifz _ a t e, vars => by
    have ha := tfvTerm_spec a vars
    have ht := tfvStmt_spec t (tfvTerm a vars)
    have he := tfvStmt_spec e (tfvStmt t (tfvTerm a vars))
    refine ⟨fun h => he.1 (ht.1 (ha.1 h)), fun y hy => ?_⟩
    rcases he.2 y hy with h | h
    · rcases ht.2 y h with h | h
      · rcases ha.2 y h with h | h
        · exact .inl h
        · exact .inr (by simp [occStmt, h])
      · exact .inr (by simp [occStmt, h])
    · exact .inr (by simp [occStmt, h])
  | .print _ a n, vars => by
    have ha := tfvTerm_spec a vars
    have hn := tfvStmt_spec n (tfvTerm a vars)
    refine ⟨fun h => hn.1 (ha.1 h), fun y hy => ?_⟩
    rcases hn.2 y hy with h | h
    · rcases ha.2 y h with h | h
      · exact .inl h
      · exact .inr (by simp [occStmt, h])
    · exact .inr (by simp [occStmt, h])
  | .call _ args _, vars => by
    have := tfvArgs_spec args vars
    exact ⟨this.1, fun y hy => by simpa [occStmt] using this.2 y hy⟩
  | .exit a _, vars => by
    have := tfvTerm_spec a vars
    exact ⟨this.1, fun y hy => by simpa [occStmt] using this.2 y hy⟩
end

/-- the typed free variables of a statement: duplicate-free, among its variable occurrences -/
theorem tfvStmt_nil (s : Core.Stmt) :
    (tfvStmt s []).Nodup ∧ ∀ y ∈ tfvStmt s [], y ∈ occStmt s := by
  have := tfvStmt_spec s []
  refine ⟨(this.1 List.Pairwise.nil).nodup, fun y hy => ?_⟩
  rcases this.2 y hy with h | h
  · simp at h
  · exact h


/-! ## exact membership in the ordered-set operations -/

theorem cmpBinding_refl (b : Core.Binding) : cmpBinding b b = .eq := by
  cases h : cmpBinding b b with
  | eq => rfl
  | lt => exact absurd h (bLt_irrefl b)
  | gt => exact absurd (cmpBinding_gt h) (bLt_irrefl b)

theorem mem_bsetInsert_iff {y b : Core.Binding} :
    ∀ {l : List Core.Binding}, y ∈ bsetInsert b l ↔ y = b ∨ y ∈ l
  | [] => by simp [bsetInsert]
  | x :: xs => by
    unfold bsetInsert
    split
    · simp
    · rename_i h
      have := cmpBinding_eq h
      subst this
      simp
    · simp only [List.mem_cons, mem_bsetInsert_iff (l := xs)]
      constructor
      · rintro (h | h | h) <;> simp [h]
      · rintro (h | h | h) <;> simp [h]

theorem mem_bsetRemove_of_ne {y b : Core.Binding} (hne : y ≠ b) :
    ∀ {l : List Core.Binding}, y ∈ l → y ∈ bsetRemove b l
  | [], h => by simp at h
  | x :: xs, h => by
    unfold bsetRemove
    split
    · rename_i he
      have := cmpBinding_eq he
      subst this
      rcases List.mem_cons.1 h with h | h
      · exact absurd h hne
      · exact h
    · rcases List.mem_cons.1 h with h | h
      · simp [h]
      · exact List.mem_cons_of_mem _ (mem_bsetRemove_of_ne hne h)

theorem ne_of_mem_bsetRemove {y b : Core.Binding} :
    ∀ {l : List Core.Binding}, BSorted l → y ∈ bsetRemove b l → y ≠ b
  | [], _, h => by simp [bsetRemove] at h
  | x :: xs, hs, h => by
    have hx := List.pairwise_cons.1 hs
    unfold bsetRemove at h
    split at h
    · rename_i he
      have := cmpBinding_eq he
      subst this
      intro e
      subst e
      exact bLt_irrefl _ (hx.1 _ h)
    · rename_i hne
      rcases List.mem_cons.1 h with h | h
      · subst h
        intro e
        subst e
        exact hne (cmpBinding_refl _)
      · exact ne_of_mem_bsetRemove hx.2 h

theorem mem_bsetExtend_of_mem {y : Core.Binding} (add : List Core.Binding) :
    ∀ {vars : List Core.Binding}, (y ∈ vars ∨ y ∈ add) → y ∈ bsetExtend vars add := by
  unfold bsetExtend
  induction add with
  | nil => intro vars h; simpa using h
  | cons b bs ih =>
    intro vars h
    simp only [List.foldl_cons]
    apply ih
    rcases h with h | h
    · exact .inl (mem_bsetInsert_iff.2 (.inr h))
    · rcases List.mem_cons.1 h with h | h
      · exact .inl (mem_bsetInsert_iff.2 (.inl h))
      · exact .inr h

mutual
/-- the accumulator only adds: `typed_free_vars(t, acc) ⊆ acc ∪ typed_free_vars(t, ∅)` -/
theorem tfvTerm_acc : ∀ (t : Core.Term) (acc : List Core.Binding) (y : Core.Binding),
    y ∈ tfvTerm t acc → y ∈ acc ∨ y ∈ tfvTerm t []
  | .var pc v ty, acc, y, h => by
    simp only [tfvTerm, mem_bsetInsert_iff] at *
    rcases h with h | h
    · exact .inr (.inl h)
    · exact .inl h
  | .lit _, acc, y, h => .inl h
  | .op a _ b, acc, y, h => by
    simp only [tfvTerm] at *
    rcases tfvTerm_acc b _ y h with h | h
    · rcases tfvTerm_acc a _ y h with h | h
      · exact .inl h
      · exact .inr (tfvTerm_mono b _ y h)
    · exact .inr (tfvTerm_sub b _ y h)
  | .mu pc v ty s, acc, y, h => by
    simp only [tfvTerm] at *
    rcases mem_bsetExtend _ h with h | h
    · exact .inl h
    · exact .inr (mem_bsetExtend_of_mem _ (.inr h))
  | .xtor _ _ args _, acc, y, h => by
    simp only [tfvTerm] at *
    exact tfvArgs_acc args acc y h
  | .xcase _ _ cs, acc, y, h => by
    simp only [tfvTerm] at *
    exact tfvClauses_acc cs acc y h
/-- monotone in the accumulator -/
theorem tfvTerm_mono : ∀ (t : Core.Term) (acc : List Core.Binding) (y : Core.Binding),
    y ∈ acc → y ∈ tfvTerm t acc
  | .var pc v ty, acc, y, h => by simp only [tfvTerm, mem_bsetInsert_iff]; exact .inr h
  | .lit _, acc, y, h => h
  | .op a _ b, acc, y, h => by
    simp only [tfvTerm]; exact tfvTerm_mono b _ y (tfvTerm_mono a _ y h)
  | .mu pc v ty s, acc, y, h => by
    simp only [tfvTerm]; exact mem_bsetExtend_of_mem _ (.inl h)
  | .xtor _ _ args _, acc, y, h => by simp only [tfvTerm]; exact tfvArgs_mono args acc y h
  | .xcase _ _ cs, acc, y, h => by simp only [tfvTerm]; exact tfvClauses_mono cs acc y h
/-- a bigger accumulator gives a bigger result -/
theorem tfvTerm_sub : ∀ (t : Core.Term) (acc : List Core.Binding) (y : Core.Binding),
    y ∈ tfvTerm t [] → y ∈ tfvTerm t acc
  | .var pc v ty, acc, y, h => by
    simp only [tfvTerm, mem_bsetInsert_iff] at *
    rcases h with h | h
    · exact .inl h
    · simp at h
  | .lit _, acc, y, h => by simp [tfvTerm] at h
  | .op a _ b, acc, y, h => by
    simp only [tfvTerm] at *
    rcases tfvTerm_acc b _ y h with h | h
    · exact tfvTerm_mono b _ y (tfvTerm_sub a acc y h)
    · exact tfvTerm_sub b _ y h
  | .mu pc v ty s, acc, y, h => by
    simp only [tfvTerm] at *
    rcases mem_bsetExtend _ h with h | h
    · simp at h
    · exact mem_bsetExtend_of_mem _ (.inr h)
  | .xtor _ _ args _, acc, y, h => by simp only [tfvTerm] at *; exact tfvArgs_sub args acc y h
  | .xcase _ _ cs, acc, y, h => by simp only [tfvTerm] at *; exact tfvClauses_sub cs acc y h
theorem tfvArgs_acc : ∀ (a : Core.Args) (acc : List Core.Binding) (y : Core.Binding),
    y ∈ tfvArgs a acc → y ∈ acc ∨ y ∈ tfvArgs a []
  | .nil, acc, y, h => .inl h
  | .cons _ t r, acc, y, h => by
    simp only [tfvArgs] at *
    rcases tfvArgs_acc r _ y h with h | h
    · rcases tfvTerm_acc t _ y h with h | h
      · exact .inl h
      · exact .inr (tfvArgs_mono r _ y h)
    · exact .inr (tfvArgs_sub r _ y h)
theorem tfvArgs_mono : ∀ (a : Core.Args) (acc : List Core.Binding) (y : Core.Binding),
    y ∈ acc → y ∈ tfvArgs a acc
  | .nil, acc, y, h => h
  | .cons _ t r, acc, y, h => by
    simp only [tfvArgs]; exact tfvArgs_mono r _ y (tfvTerm_mono t _ y h)
theorem tfvArgs_sub : ∀ (a : Core.Args) (acc : List Core.Binding) (y : Core.Binding),
    y ∈ tfvArgs a [] → y ∈ tfvArgs a acc
  | .nil, acc, y, h => by simp [tfvArgs] at h
  | .cons _ t r, acc, y, h => by
    simp only [tfvArgs] at *
    rcases tfvArgs_acc r _ y h with h | h
    · exact tfvArgs_mono r _ y (tfvTerm_sub t acc y h)
    · exact tfvArgs_sub r _ y h
theorem tfvClauses_acc : ∀ (c : Core.Clauses) (acc : List Core.Binding) (y : Core.Binding),
    y ∈ tfvClauses c acc → y ∈ acc ∨ y ∈ tfvClauses c []
  | .nil, acc, y, h => .inl h
  | .cons _ ctx body rest, acc, y, h => by
    simp only [tfvClauses] at *
    rcases tfvClauses_acc rest _ y h with h | h
    · rcases mem_bsetExtend _ h with h | h
      · exact .inl h
      · exact .inr (tfvClauses_mono rest _ y (mem_bsetExtend_of_mem _ (.inr h)))
    · exact .inr (tfvClauses_sub rest _ y h)
theorem tfvClauses_mono : ∀ (c : Core.Clauses) (acc : List Core.Binding) (y : Core.Binding),
    y ∈ acc → y ∈ tfvClauses c acc
  | .nil, acc, y, h => h
  | .cons _ ctx body rest, acc, y, h => by
    simp only [tfvClauses]
    exact tfvClauses_mono rest _ y (mem_bsetExtend_of_mem _ (.inl h))
theorem tfvClauses_sub : ∀ (c : Core.Clauses) (acc : List Core.Binding) (y : Core.Binding),
    y ∈ tfvClauses c [] → y ∈ tfvClauses c acc
  | .nil, acc, y, h => by simp [tfvClauses] at h
  | .cons _ ctx body rest, acc, y, h => by
    simp only [tfvClauses] at *
    rcases tfvClauses_acc rest _ y h with h | h
    · rcases mem_bsetExtend _ h with h | h
      · simp at h
      · exact tfvClauses_mono rest _ y (mem_bsetExtend_of_mem _ (.inr h))
    · exact tfvClauses_sub rest _ y h
end

theorem mem_tfvArgs_bindingsToArgs {y : Core.Binding} :
    ∀ (bs acc : List Core.Binding), y ∈ tfvArgs (bindingsToArgs bs) acc ↔ y ∈ acc ∨ y ∈ bs
  | [], acc => by simp [bindingsToArgs, tfvArgs]
  | b :: bs, acc => by
    cases b
    simp only [bindingsToArgs, tfvArgs, tfvTerm, mem_tfvArgs_bindingsToArgs bs, mem_bsetInsert_iff,
      List.mem_cons]
    constructor
    · rintro ((h | h) | h) <;> simp [h]
    · rintro (h | h | h) <;> simp [h]

/-- the consumer returned by `share` has no more typed free variables than the shared consumer
(for a consumer, i.e. not a `μ` with producer flag) -/
theorem tfv_share_subset (c : Core.Term) (st : CompileState)
    (hc : ∀ v ty s, c ≠ .mu .prd v ty s) :
    ∀ y ∈ tfvTerm (share c st).1 [], y ∈ tfvTerm c [] := by
  intro y hy
  unfold share at hy
  split at hy
  · rename_i pc v ty s
    have hpc : pc = .cns := by
      cases pc
      · exact absurd rfl (hc v ty s)
      · rfl
    subst hpc
    simp only [tfvTerm, tfvStmt] at hy ⊢
    rcases mem_bsetExtend _ hy with h | h
    · simp at h
    · have hsorted : BSorted (tfvArgs (bindingsToArgs (tfvStmt s [])) []) :=
        (tfvArgs_spec _ []).1 List.Pairwise.nil
      have hne := ne_of_mem_bsetRemove hsorted h
      have hm := (mem_tfvArgs_bindingsToArgs _ _).1 (mem_bsetRemove h)
      simp only [List.not_mem_nil, false_or] at hm
      exact mem_bsetExtend_of_mem _ (.inr (mem_bsetRemove_of_ne hne hm))
  · simp only [tfvTerm, tfvStmt] at hy
    rcases mem_bsetExtend _ hy with h | h
    · simp at h
    · have hsorted : BSorted (tfvArgs (bindingsToArgs (tfvTerm c
          (bsetInsert ⟨⟨(freshVar st).1, 0⟩, .prd, coreGetType c⟩ []))) []) :=
        (tfvArgs_spec _ []).1 List.Pairwise.nil
      have hne := ne_of_mem_bsetRemove hsorted h
      have hm := (mem_tfvArgs_bindingsToArgs _ _).1 (mem_bsetRemove h)
      simp only [List.not_mem_nil, false_or] at hm
      rcases tfvTerm_acc c _ y hm with h1 | h1
      · simp only [bsetInsert, List.mem_singleton] at h1
        exact absurd h1 hne
      · exact h1

end Scc.Fun2Core
