/-
  Scc.Fun2Core.TypedSrc — the typing judgement on CHECKED Fun programs that the translation to Core
  relies on (C12, link fun2core).  `Scc.Fun.Typing.WT` speaks about the SOURCE program (templates,
  substitution, no annotations); fun2core reads the ANNOTATIONS of the checker's output and the
  monomorphic instance declarations `dataTypes` / `codataTypes` (named by the printed type, e.g.
  `List[i64]`).  `TypedM P Γ t τ` says: `t` has type `τ` in `Γ` w.r.t. the instance declarations and the
  definitions of the checked program `P`, and every annotation of `t` (`ty`, `chi`, clause contexts) is
  the one the derivation dictates; the clauses of a `case` / `new` are those of the declaration, in
  declaration order (the checker reorders them).
  Proof file: definitions in `Prop` only, nothing executable.
-/
import Scc.Fun2Core.Model
import Scc.Fun.Typing

namespace Scc.Fun2Core.Typed
open Scc Scc.Fun2Core
open Scc.Fun.Typing (lookupCtx bindNames clauseXtors)

/-- the instance declaration of a data type: the first declaration named by the printed type -/
def dataDecl (P : Fun.CheckedProgram) : Fun.Ty → Option Fun.Data
  | .i64 => none
  | .decl n a => P.dataTypes.find? fun d => d.name = printTy (.decl n a)

def codataDecl (P : Fun.CheckedProgram) : Fun.Ty → Option Fun.Codata
  | .i64 => none
  | .decl n a => P.codataTypes.find? fun d => d.name = printTy (.decl n a)

/-- the type is `i64` or has an instance declaration (data or codata) in the checked program -/
def TyIn (P : Fun.CheckedProgram) (τ : Fun.Ty) : Prop :=
  τ = .i64 ∨ (dataDecl P τ).isSome = true ∨ (codataDecl P τ).isSome = true

mutual
  /-- `t` (annotated) has type `τ` in `Γ`; `τ` is instantiated (`TyIn`) -/
  def TypedM (P : Fun.CheckedProgram) : Fun.Term → Fun.Ctx → Fun.Ty → Prop
    | .var x ty chi, Γ, τ =>
      TyIn P τ ∧ ty = some τ ∧ chi = some .prd ∧ ∃ b, lookupCtx Γ x = some b ∧ b.chi = .prd ∧ b.ty = τ
    | .lit _, _, τ => τ = .i64
    | .op a _ b, Γ, τ => τ = .i64 ∧ TypedM P a Γ .i64 ∧ TypedM P b Γ .i64
    | .ifc _ a b t e an, Γ, τ =>
      TyIn P τ ∧ an = some τ ∧ TypedM P a Γ .i64 ∧ TypedM P b Γ .i64 ∧ TypedM P t Γ τ ∧ TypedM P e Γ τ
    | .ifz _ a t e an, Γ, τ =>
      TyIn P τ ∧ an = some τ ∧ TypedM P a Γ .i64 ∧ TypedM P t Γ τ ∧ TypedM P e Γ τ
    | .print _ a n an, Γ, τ => TyIn P τ ∧ an = some τ ∧ TypedM P a Γ .i64 ∧ TypedM P n Γ τ
    | .letIn x σ b i an, Γ, τ =>
      TyIn P τ ∧ an = some τ ∧ TypedM P b Γ σ ∧ TypedM P i (Γ ++ [⟨x, .prd, σ⟩]) τ
    | .call f args an, Γ, τ =>
      TyIn P τ ∧ an = some τ ∧ ∃ d, d ∈ P.defs ∧ d.name = f ∧ d.retTy = τ ∧ ArgsM P args Γ d.ctx
    | .ctor k args an, Γ, τ =>
      TyIn P τ ∧ an = some τ ∧ ∃ d c, dataDecl P τ = some d ∧
        d.ctors.find? (fun c => c.name = k) = some c ∧ ArgsM P args Γ c.args
    | .dtor s k _ args an, Γ, τ =>
      TyIn P τ ∧ an = some τ ∧ ∃ σ d sg, TypedM P s Γ σ ∧ codataDecl P σ = some d ∧
        d.dtors.find? (fun c => c.name = k) = some sg ∧ sg.contTy = τ ∧ ArgsM P args Γ sg.args
    | .case s _ cs an, Γ, τ =>
      TyIn P τ ∧ an = some τ ∧ ∃ σ d, TypedM P s Γ σ ∧ dataDecl P σ = some d ∧
        ClausesM P cs Γ d.ctors τ ∧ clauseXtors cs = d.ctors.map (·.name)
    | .new cs an, Γ, τ =>
      TyIn P τ ∧ an = some τ ∧ ∃ d, codataDecl P τ = some d ∧ CoclausesM P cs Γ d.dtors ∧
        clauseXtors cs = d.dtors.map (·.name)
    | .label a t an, Γ, τ => TyIn P τ ∧ an = some τ ∧ TypedM P t (Γ ++ [⟨a, .cns, τ⟩]) τ
    | .goto a t an, Γ, τ =>
      TyIn P τ ∧ an = some τ ∧ ∃ b, lookupCtx Γ a = some b ∧ b.chi = .cns ∧ TypedM P t Γ b.ty
    | .exit t an, Γ, τ => TyIn P τ ∧ an = some τ ∧ TypedM P t Γ .i64
    | .paren t, Γ, τ => TypedM P t Γ τ
  /-- the arguments match the parameter list: a producer parameter takes a term of its type, a consumer
  parameter a covariable (annotated `chi = cns`) of its type -/
  def ArgsM (P : Fun.CheckedProgram) : Fun.Terms → Fun.Ctx → Fun.Ctx → Prop
    | .nil, _, bs => bs = []
    | .cons t r, Γ, bs =>
      ∃ b bs', bs = b :: bs' ∧ ArgsM P r Γ bs' ∧
        ((b.chi = .prd ∧ TypedM P t Γ b.ty) ∨
         (b.chi = .cns ∧ ∃ x b', t = .var x (some b.ty) (some .cns) ∧ lookupCtx Γ x = some b' ∧
            b'.chi = .cns ∧ b'.ty = b.ty))
  /-- clauses of a `case`: each is for a constructor of the type, binds distinct names with the
  constructor's parameter types (recorded in the clause context), and its body has type `τ` -/
  def ClausesM (P : Fun.CheckedProgram) : Fun.Clauses → Fun.Ctx → List Fun.CtorSig → Fun.Ty → Prop
    | .nil, _, _, _ => True
    | .cons _ x ns ctx body rest, Γ, sigs, τ =>
      (∃ c, sigs.find? (fun c => c.name = x) = some c ∧ ns.Nodup ∧ ns.length = c.args.length ∧
        ctx = bindNames ns c.args ∧ TypedM P body (Γ ++ ctx) τ) ∧ ClausesM P rest Γ sigs τ
  /-- clauses of a `new`: the body has the destructor's return type -/
  def CoclausesM (P : Fun.CheckedProgram) : Fun.Clauses → Fun.Ctx → List Fun.DtorSig → Prop
    | .nil, _, _ => True
    | .cons _ x ns ctx body rest, Γ, sigs =>
      (∃ c, sigs.find? (fun c => c.name = x) = some c ∧ ns.Nodup ∧ ns.length = c.args.length ∧
        ctx = bindNames ns c.args ∧ TypedM P body (Γ ++ ctx) c.contTy) ∧ CoclausesM P rest Γ sigs
end

/-- a definition of the checked program is well-typed: distinct parameters, typed body -/
structure DefM (P : Fun.CheckedProgram) (d : Fun.Def) : Prop where
  params : (d.ctx.map (·.var)).Nodup
  body : TypedM P d.body d.ctx d.retTy

/-- the checked program is well-typed (monomorphic, annotated): distinct definition names, every
definition typed, no type name declared both as data and as codata, the constructor / destructor names of
a declaration pairwise distinct -/
structure ProgM (P : Fun.CheckedProgram) : Prop where
  defNames : (P.defs.map (·.name)).Nodup
  defs : ∀ d ∈ P.defs, DefM P d
  disjoint : ∀ d ∈ P.dataTypes, ∀ c ∈ P.codataTypes, d.name ≠ c.name
  ctorsNodup : ∀ d ∈ P.dataTypes, (d.ctors.map (·.name)).Nodup
  dtorsNodup : ∀ d ∈ P.codataTypes, (d.dtors.map (·.name)).Nodup

/-! ## consequences used by the translation -/

/-- `get_type` (fun2core reads it for scrutinees, `goto` arguments, call arguments, clause bodies)
returns the type of the derivation -/
theorem getType_of_typed (P : Fun.CheckedProgram) : ∀ (t : Fun.Term) (Γ : Fun.Ctx) (τ : Fun.Ty),
    TypedM P t Γ τ → getType t = some τ
  | .var _ _ _, _, _, h => by simp only [TypedM] at h; simp [getType, h.2.1]
  | .lit _, _, _, h => by simp only [TypedM] at h; simp [getType, h]
  | .op _ _ _, _, _, h => by simp only [TypedM] at h; simp [getType, h.1]
  | .ifc _ _ _ _ _ _, _, _, h => by simp only [TypedM] at h; simp [getType, h.2.1]
  | .ifz _ _ _ _ _, _, _, h => by simp only [TypedM] at h; simp [getType, h.2.1]
  | .print _ _ _ _, _, _, h => by simp only [TypedM] at h; simp [getType, h.2.1]
  | .letIn _ _ _ _ _, _, _, h => by simp only [TypedM] at h; simp [getType, h.2.1]
  | .call _ _ _, _, _, h => by simp only [TypedM] at h; simp [getType, h.2.1]
  | .ctor _ _ _, _, _, h => by simp only [TypedM] at h; simp [getType, h.2.1]
  | .dtor _ _ _ _ _, _, _, h => by simp only [TypedM] at h; simp [getType, h.2.1]
  | .case _ _ _ _, _, _, h => by simp only [TypedM] at h; simp [getType, h.2.1]
  | .new _ _, _, _, h => by simp only [TypedM] at h; simp [getType, h.2.1]
  | .label _ _ _, _, _, h => by simp only [TypedM] at h; simp [getType, h.2.1]
  | .goto _ _ _, _, _, h => by simp only [TypedM] at h; simp [getType, h.2.1]
  | .exit _ _, _, _, h => by simp only [TypedM] at h; simp [getType, h.2.1]
  | .paren t, Γ, τ, h => by
    simp only [TypedM] at h
    simpa [getType] using getType_of_typed P t Γ τ h

/-- the type of a typed term is instantiated -/
theorem tyIn_of_typed (P : Fun.CheckedProgram) : ∀ (t : Fun.Term) (Γ : Fun.Ctx) (τ : Fun.Ty),
    TypedM P t Γ τ → TyIn P τ
  | .var _ _ _, _, _, h => by simp only [TypedM] at h; exact h.1
  | .lit _, _, _, h => by simp only [TypedM] at h; exact .inl h
  | .op _ _ _, _, _, h => by simp only [TypedM] at h; exact .inl h.1
  | .ifc _ _ _ _ _ _, _, _, h => by simp only [TypedM] at h; exact h.1
  | .ifz _ _ _ _ _, _, _, h => by simp only [TypedM] at h; exact h.1
  | .print _ _ _ _, _, _, h => by simp only [TypedM] at h; exact h.1
  | .letIn _ _ _ _ _, _, _, h => by simp only [TypedM] at h; exact h.1
  | .call _ _ _, _, _, h => by simp only [TypedM] at h; exact h.1
  | .ctor _ _ _, _, _, h => by simp only [TypedM] at h; exact h.1
  | .dtor _ _ _ _ _, _, _, h => by simp only [TypedM] at h; exact h.1
  | .case _ _ _ _, _, _, h => by simp only [TypedM] at h; exact h.1
  | .new _ _, _, _, h => by simp only [TypedM] at h; exact h.1
  | .label _ _ _, _, _, h => by simp only [TypedM] at h; exact h.1
  | .goto _ _ _, _, _, h => by simp only [TypedM] at h; exact h.1
  | .exit _ _, _, _, h => by simp only [TypedM] at h; exact h.1
  | .paren t, Γ, τ, h => by
    simp only [TypedM] at h
    exact tyIn_of_typed P t Γ τ h

/-- a typed term is not a covariable argument (`arguments.rs` takes the producer branch) -/
theorem covarArg_of_typed (P : Fun.CheckedProgram) {t : Fun.Term} {Γ : Fun.Ctx} {τ : Fun.Ty}
    (h : TypedM P t Γ τ) : covarArg t = none := by
  cases t with
  | var x ty chi =>
    simp only [TypedM] at h
    obtain ⟨_, _, rfl, _⟩ := h
    rfl
  | _ => rfl

end Scc.Fun2Core.Typed
