/-
  Scc.Fun.CheckComplete4 — completeness of the checker model, part 4: programs.
  A well-typed program (`WT p`, identifier-like names) is accepted: `build_symbol_table`,
  `check_type_params`, the declaration checks, every definition and the final collection succeed.
-/
import Scc.Fun.CheckComplete3

namespace Scc.Fun.Check
open Scc.Fun.Typing

/-! ## `build_symbol_table` -/

theorem buildCtors_total : ∀ (cs : List CtorSig) (st : SymbolTable),
    ((st.ctorTemplates ++ cs.map (fun c => (c.name, c.args))).map Prod.fst).Nodup →
    ∃ st', buildCtors cs st = .ok st'
  | [], st, _ => ⟨st, rfl⟩
  | c :: r, st, h => by
    have hget : st.ctorTemplates.get? c.name = none := by
      apply AList.get?_none_of_not_mem_keys
      simp only [List.map_cons, List.map_append, List.nodup_append] at h
      intro hm
      exact h.2.2 _ hm c.name (by simp) rfl
    have hc : st.ctorTemplates.contains c.name = false := by simp [AList.contains, hget]
    simp only [buildCtors, hc, Bool.false_eq_true, if_false]
    apply buildCtors_total r
    rw [AList.insert_of_get?_none hget]
    simpa using h

theorem buildDtors_total : ∀ (cs : List DtorSig) (st : SymbolTable),
    ((st.dtorTemplates ++ cs.map (fun s => (s.name, (s.args, s.contTy)))).map Prod.fst).Nodup →
    ∃ st', buildDtors cs st = .ok st'
  | [], st, _ => ⟨st, rfl⟩
  | c :: r, st, h => by
    have hget : st.dtorTemplates.get? c.name = none := by
      apply AList.get?_none_of_not_mem_keys
      simp only [List.map_cons, List.map_append, List.nodup_append] at h
      intro hm
      exact h.2.2 _ hm c.name (by simp) rfl
    have hc : st.dtorTemplates.contains c.name = false := by simp [AList.contains, hget]
    simp only [buildDtors, hc, Bool.false_eq_true, if_false]
    apply buildDtors_total r
    rw [AList.insert_of_get?_none hget]
    simpa using h

theorem nodup_append_left {α : Type} {a b : List α} (h : (a ++ b).Nodup) : a.Nodup :=
  (List.nodup_append.mp h).1

theorem not_mem_of_nodup_append_cons {α : Type} {a b : List α} {x : α}
    (h : (a ++ x :: b).Nodup) : x ∉ a := by
  intro hm
  exact (List.nodup_append.mp h).2.2 x hm x (by simp) rfl

theorem buildDecls_total : ∀ (ds done : List Decl) (st : SymbolTable), Built st done →
    (((done ++ ds).filterMap defEntry).map Prod.fst).Nodup →
    (((done ++ ds).filterMap tmplEntry).map Prod.fst).Nodup →
    (((done ++ ds).flatMap ctorEntries).map Prod.fst).Nodup →
    (((done ++ ds).flatMap dtorEntries).map Prod.fst).Nodup →
    ∃ st', buildDecls ds st = .ok st'
  | [], _, st, _, _, _, _, _ => ⟨st, rfl⟩
  | d :: r, done, st, b, n1, n2, n3, n4 => by
    have hstep : ∃ st1, buildDecl d st = .ok st1 := by
      cases d with
      | defn f =>
        have hget : st.defs.get? f.name = none := by
          apply AList.get?_none_of_not_mem_keys
          rw [b.defs]
          simp only [List.filterMap_append, List.filterMap_cons, defEntry, List.map_append,
            List.map_cons] at n1
          exact not_mem_of_nodup_append_cons n1
        have hc : st.defs.contains f.name = false := by simp [AList.contains, hget]
        exact ⟨_, by simp only [buildDecl, hc, Bool.false_eq_true, if_false] <;> rfl⟩
      | data dd =>
        have hget : st.typeTemplates.get? dd.name = none := by
          apply AList.get?_none_of_not_mem_keys
          rw [b.tmpl]
          simp only [List.filterMap_append, List.filterMap_cons, tmplEntry, List.map_append,
            List.map_cons] at n2
          exact not_mem_of_nodup_append_cons n2
        have hc : st.typeTemplates.contains dd.name = false := by simp [AList.contains, hget]
        simp only [buildDecl, hc, Bool.false_eq_true, if_false]
        apply buildCtors_total
        simp only
        rw [b.ctors]
        simp only [List.flatMap_append, List.flatMap_cons, ctorEntries, List.map_append] at n3 ⊢
        rw [← List.append_assoc] at n3
        exact nodup_append_left n3
      | codata dd =>
        have hget : st.typeTemplates.get? dd.name = none := by
          apply AList.get?_none_of_not_mem_keys
          rw [b.tmpl]
          simp only [List.filterMap_append, List.filterMap_cons, tmplEntry, List.map_append,
            List.map_cons] at n2
          exact not_mem_of_nodup_append_cons n2
        have hc : st.typeTemplates.contains dd.name = false := by simp [AList.contains, hget]
        simp only [buildDecl, hc, Bool.false_eq_true, if_false]
        apply buildDtors_total
        simp only
        rw [b.dtors]
        simp only [List.flatMap_append, List.flatMap_cons, dtorEntries, List.map_append] at n4 ⊢
        rw [← List.append_assoc] at n4
        exact nodup_append_left n4
    obtain ⟨st1, h1⟩ := hstep
    have b1 := buildDecl_ok b h1
    obtain ⟨st', h'⟩ := buildDecls_total r (done ++ [d]) st1 b1 (by simpa using n1)
      (by simpa using n2) (by simpa using n3) (by simpa using n4)
    exact ⟨st', by simp [buildDecls, h1, h']⟩

theorem buildDecls_total_of_declsOk {p : Program} (ok : DeclsOk p) :
    ∃ st, buildDecls p.decls {} = .ok st ∧ Built st p.decls := by
  obtain ⟨st, h⟩ := buildDecls_total p.decls [] {} built_empty
    (by rw [List.nil_append, defEntry_keys]; exact ok.defNamesNodup)
    (by rw [List.nil_append, tmplEntry_keys]; exact ok.typeNamesNodup)
    (by rw [List.nil_append, ctorEntries_keys]; exact ok.ctorNamesNodup)
    (by rw [List.nil_append, dtorEntries_keys]; exact ok.dtorNamesNodup)
  exact ⟨st, h, by simpa using buildDecls_ok p.decls [] {} st built_empty h⟩

/-! ## `check_type_params` and the declaration checks -/

theorem paramsNotTemplates_total {T : AList (Polarity × List String × List String)} :
    ∀ (ps : List String), (∀ a ∈ ps, a ∉ T.map Prod.fst) → paramsNotTemplates T ps = .ok ()
  | [], _ => rfl
  | a :: r, h => by
    have hc : T.contains a = false := by
      simp [AList.contains, AList.get?_none_of_not_mem_keys (h a (by simp))]
    simp only [paramsNotTemplates, hc, Bool.false_eq_true, if_false]
    exact paramsNotTemplates_total r (fun x hx => h x (by simp [hx]))

theorem checkTypeParams_total {T : AList (Polarity × List String × List String)} :
    ∀ (l : AList (Polarity × List String × List String)),
    (∀ n pol params xs, (n, (pol, params, xs)) ∈ l →
      params.Nodup ∧ ∀ a ∈ params, a ∉ T.map Prod.fst) →
    checkTypeParams T l = .ok ()
  | [], _ => rfl
  | (n, (pol, params, xs)) :: r, h => by
    obtain ⟨h1, h2⟩ := h n pol params xs (by simp)
    simp only [checkTypeParams, namesNoDups_complete params [] h1 (fun x _ hx => by cases hx),
      paramsNotTemplates_total params h2]
    exact checkTypeParams_total r (fun n' pol' params' xs' hm => h n' pol' params' xs' (by simp [hm]))

theorem checkTyTemplate_total {p : Program} {st : SymbolTable} (b : Built st p.decls) {t : Ty}
    {ps : List String} (h : TyScoped p ps t) : checkTyTemplate t st ps = .ok () := by
  cases t with
  | i64 => rfl
  | decl n args =>
    simp only [checkTyTemplate]
    cases hget : st.typeTemplates.get? n with
    | some v => rfl
    | none =>
      simp only [TyScoped] at h
      rcases h with h | h
      · exfalso
        rw [mem_typeNames_iff b] at h
        exact AList.not_mem_keys_of_get?_none hget h
      · have hc : ps.contains n = true := List.contains_iff_mem.mpr h
        simp only [hc, if_true]

theorem ctxCheckTemplate_total {p : Program} {st : SymbolTable} (b : Built st p.decls)
    {ps : List String} : ∀ (c : Ctx), (∀ x ∈ c, TyScoped p ps x.ty) →
    ctxCheckTemplate c st ps = .ok ()
  | [], _ => rfl
  | y :: r, h => by
    simp only [ctxCheckTemplate, checkTyTemplate_total b (h y (by simp))]
    exact ctxCheckTemplate_total b r (fun x hx => h x (by simp [hx]))

theorem checkCtorSigs_total {p : Program} {st : SymbolTable} (b : Built st p.decls)
    {ps : List String} : ∀ (cs : List CtorSig), (∀ c ∈ cs, ∀ x ∈ c.args, TyScoped p ps x.ty) →
    checkCtorSigs st ps cs = .ok ()
  | [], _ => rfl
  | c :: r, h => by
    simp only [checkCtorSigs, ctxCheckTemplate_total b c.args (h c (by simp))]
    exact checkCtorSigs_total b r (fun x hx => h x (by simp [hx]))

theorem checkDtorSigs_total {p : Program} {st : SymbolTable} (b : Built st p.decls)
    {ps : List String} : ∀ (cs : List DtorSig),
    (∀ c ∈ cs, (∀ x ∈ c.args, TyScoped p ps x.ty) ∧ TyScoped p ps c.contTy) →
    checkDtorSigs st ps cs = .ok ()
  | [], _ => rfl
  | c :: r, h => by
    simp only [checkDtorSigs, ctxCheckTemplate_total b c.args (h c (by simp)).1,
      checkTyTemplate_total b (h c (by simp)).2]
    exact checkDtorSigs_total b r (fun x hx => h x (by simp [hx]))

theorem checkTypeDecls_total {p : Program} {st : SymbolTable} (b : Built st p.decls)
    (ok : DeclsOk p) : ∀ (ds : List Decl), (∀ d ∈ ds, d ∈ p.decls) →
    ∃ fs, checkTypeDecls ds st = .ok fs
  | [], _ => ⟨[], rfl⟩
  | .data d :: r, h => by
    obtain ⟨fs, hr⟩ := checkTypeDecls_total b ok r (fun x hx => h x (by simp [hx]))
    have hd : d ∈ datas p := mem_datas.mpr (h _ (by simp))
    exact ⟨fs, by simp only [checkTypeDecls, checkDataDecl,
      checkCtorSigs_total b d.ctors (ok.dataSigs d hd), hr] <;> rfl⟩
  | .codata d :: r, h => by
    obtain ⟨fs, hr⟩ := checkTypeDecls_total b ok r (fun x hx => h x (by simp [hx]))
    have hd : d ∈ codatas p := mem_codatas.mpr (h _ (by simp))
    exact ⟨fs, by simp only [checkTypeDecls, checkCodataDecl,
      checkDtorSigs_total b d.dtors (ok.codataSigs d hd), hr] <;> rfl⟩
  | .defn f :: r, h => by
    obtain ⟨fs, hr⟩ := checkTypeDecls_total b ok r (fun x hx => h x (by simp [hx]))
    exact ⟨f :: fs, by simp only [checkTypeDecls, hr] <;> rfl⟩

/-! ## definitions -/

theorem ctxNoDups_complete : ∀ (c : Ctx) (seen : List String), (c.map (·.var)).Nodup →
    (∀ x ∈ c.map (·.var), x ∉ seen) → ctxNoDups c seen = .ok ()
  | [], _, _, _ => rfl
  | b :: r, seen, hn, hs => by
    simp only [List.map_cons, List.nodup_cons] at hn
    have hb : seen.contains b.var = false := by
      simpa using hs b.var (by simp)
    simp only [ctxNoDups, hb, Bool.false_eq_true, if_false]
    apply ctxNoDups_complete r (b.var :: seen) hn.2
    intro x hx
    simp only [List.mem_cons, not_or]
    exact ⟨fun h => hn.1 (h ▸ hx), hs x (by simp [hx])⟩

theorem ctxCheck_complete {p : Program} (ok : DeclsOk p) (hp : programNamesOk p = true) :
    ∀ (c : Ctx) (st : SymbolTable), Inv p st → ctxNamesOk c = true → (∀ b ∈ c, WfTy p b.ty) →
    ∃ st', ctxCheck c st = .ok st'
  | [], st, _, _, _ => ⟨st, rfl⟩
  | b :: r, st, inv, hn, hwf => by
    have hb : tyNamesOk b.ty = true := ctxNamesOk_mem hn (by simp)
    have hr : ctxNamesOk r = true := by
      simp only [ctxNamesOk, List.all_cons, Bool.and_eq_true] at hn; exact hn.2
    obtain ⟨st1, h1⟩ := checkTy_complete ok hp b.ty st inv hb (hwf b (by simp))
    obtain ⟨inv1, _, _, _⟩ := checkTy_sound ok hp b.ty st st1 inv hb h1
    obtain ⟨st2, h2⟩ := ctxCheck_complete ok hp r st1 inv1 hr (fun x hx => hwf x (by simp [hx]))
    exact ⟨st2, by simp [ctxCheck, h1, h2]⟩

theorem checkDef_complete {p : Program} (ok : DeclsOk p) (hp : programNamesOk p = true)
    {f : Def} {st : SymbolTable} (hf : f ∈ defs p) (dok : DefOk p f) (inv : Inv p st) :
    ∃ r, checkDef f st = .ok r := by
  obtain ⟨g1, g2, g3⟩ := def_namesOk hp hf
  have h0 := ctxNoDups_complete f.ctx [] dok.params (fun x _ hx => by cases hx)
  obtain ⟨st1, h1⟩ := ctxCheck_complete ok hp f.ctx st inv g1 dok.paramTys
  obtain ⟨inv1, _, _⟩ := ctxCheck_sound ok hp f.ctx st st1 inv g1 h1
  obtain ⟨st2, h2⟩ := checkTy_complete ok hp f.retTy st1 inv1 g2 dok.retTy
  obtain ⟨inv2, _, _, in2⟩ := checkTy_sound ok hp f.retTy st1 st2 inv1 g2 h2
  obtain ⟨b', st3, h3⟩ := checkTerm_complete ok hp f.body g3 f.ctx f.retTy dok.body st2 inv2 g1 g2 in2
  exact ⟨_, by simp only [checkDef, h0, h1, h2, h3] <;> rfl⟩

theorem checkDefs_complete {p : Program} (ok : DeclsOk p) (hp : programNamesOk p = true) :
    ∀ (fs : List Def) (st : SymbolTable), (∀ f ∈ fs, f ∈ defs p) → (∀ f ∈ fs, DefOk p f) →
    Inv p st → ∃ r, checkDefs fs st = .ok r
  | [], st, _, _, _ => ⟨_, rfl⟩
  | f :: r, st, hsub, hok, inv => by
    obtain ⟨⟨f', st1⟩, h1⟩ := checkDef_complete ok hp (hsub f (by simp)) (hok f (by simp)) inv
    obtain ⟨inv1, _⟩ := checkDef_sound ok hp (hsub f (by simp)) inv h1
    obtain ⟨⟨r', st2⟩, h2⟩ := checkDefs_complete ok hp r st1 (fun x hx => hsub x (by simp [hx]))
      (fun x hx => hok x (by simp [hx])) inv1
    exact ⟨_, by simp only [checkDefs, h1, h2] <;> rfl⟩

/-! ## collecting the instances never panics on a consistent table -/

theorem collectCtors_total {st : SymbolTable} {ta : Tys} : ∀ (xs : List String),
    (∀ x ∈ xs, ∃ v, st.ctors.get? (instName x ta) = some v) → ∃ l, collectCtors st ta xs = .ok l
  | [], _ => ⟨[], rfl⟩
  | x :: r, h => by
    obtain ⟨v, hv⟩ := h x (by simp)
    obtain ⟨l, hl⟩ := collectCtors_total r (fun y hy => h y (by simp [hy]))
    exact ⟨_, by simp only [collectCtors, hv, hl] <;> rfl⟩

theorem collectDtors_total {st : SymbolTable} {ta : Tys} : ∀ (xs : List String),
    (∀ x ∈ xs, ∃ v, st.dtors.get? (instName x ta) = some v) → ∃ l, collectDtors st ta xs = .ok l
  | [], _ => ⟨[], rfl⟩
  | x :: r, h => by
    obtain ⟨⟨v1, v2⟩, hv⟩ := h x (by simp)
    obtain ⟨l, hl⟩ := collectDtors_total r (fun y hy => h y (by simp [hy]))
    exact ⟨_, by simp only [collectDtors, hv, hl] <;> rfl⟩

theorem collectTypes_total {p : Program} {st : SymbolTable} (inv : Inv p st) :
    ∀ (types : AList (Polarity × Tys × List String)), (∀ e ∈ types, e ∈ st.types) →
    ∃ r, collectTypes st types = .ok r
  | [], _ => ⟨_, rfl⟩
  | (name, (.data, ta, xs)) :: r, h => by
    obtain ⟨_, _, g3⟩ := inv.types name .data ta xs (h _ (by simp))
    obtain ⟨⟨ds, cs⟩, hr⟩ := collectTypes_total inv r (fun e he => h e (by simp [he]))
    rcases g3 with ⟨_, d, hd, _, rfl, _, hcs⟩ | ⟨hpol, _⟩
    · obtain ⟨l, hl⟩ := collectCtors_total (st := st) (ta := ta) (d.ctors.map (·.name)) (by
        intro x hx
        obtain ⟨c, hc, rfl⟩ := List.mem_map.mp hx
        exact ⟨_, hcs c hc⟩)
      exact ⟨_, by simp only [collectTypes, hl, hr] <;> rfl⟩
    · cases hpol
  | (name, (.codata, ta, xs)) :: r, h => by
    obtain ⟨_, _, g3⟩ := inv.types name .codata ta xs (h _ (by simp))
    obtain ⟨⟨ds, cs⟩, hr⟩ := collectTypes_total inv r (fun e he => h e (by simp [he]))
    rcases g3 with ⟨hpol, _⟩ | ⟨_, d, hd, _, rfl, _, hcs⟩
    · cases hpol
    · obtain ⟨l, hl⟩ := collectDtors_total (st := st) (ta := ta) (d.dtors.map (·.name)) (by
        intro x hx
        obtain ⟨c, hc, rfl⟩ := List.mem_map.mp hx
        exact ⟨_, hcs c hc⟩)
      exact ⟨_, by simp only [collectTypes, hl, hr] <;> rfl⟩

/-! ## the whole program -/

theorem checkProgramR_complete {p : Program} (hp : programNamesOk p = true) (w : WT p) :
    ∃ p', checkProgramR p = .ok p' := by
  have ok := w.decls
  obtain ⟨st0, hbuild, b⟩ := buildDecls_total_of_declsOk ok
  have hparams : checkTypeParams st0.typeTemplates st0.typeTemplates = .ok () := by
    apply checkTypeParams_total
    intro n pol params xs hm
    rcases (built_inv b).tmpl n pol params xs hm with ⟨_, d, hd, _, rfl, _⟩ | ⟨_, d, hd, _, rfl, _⟩
    · exact ⟨(ok.dataParams d hd).1,
        fun a ha hn => (ok.dataParams d hd).2 a ha ((mem_typeNames_iff b a).mpr hn)⟩
    · exact ⟨(ok.codataParams d hd).1,
        fun a ha hn => (ok.codataParams d hd).2 a ha ((mem_typeNames_iff b a).mpr hn)⟩
  obtain ⟨fs, hdecls⟩ := checkTypeDecls_total b ok p.decls (fun d hd => hd)
  obtain ⟨_, hfs⟩ := declsOk_of_checks b hparams hdecls
  subst hfs
  obtain ⟨⟨fs', st1⟩, hdefs⟩ := checkDefs_complete ok hp (defs p) st0 (fun f hf => hf) w.defs
    (built_inv b)
  obtain ⟨inv1, _⟩ := checkDefs_sound ok hp (defs p) fs' st0 st1 (fun f hf => hf) (built_inv b) hdefs
  obtain ⟨⟨ds, cs⟩, hcollect⟩ := collectTypes_total inv1 st1.types (fun e he => he)
  exact ⟨_, by simp only [checkProgramR, buildSymbolTable, hbuild, hparams, checkWithTable, hdecls,
    hdefs, hcollect] <;> rfl⟩

end Scc.Fun.Check
