/-
  Scc.Fun.ParseInRange — C16-T3: what lexer + parser accept is in the image of the grammar
  (`InRangeProg`) and all its names are identifiers of the right case (`NamesOkProg`); together with
  the zero-edge conditions this gives the side condition `ProgOk` of T1.  Proof file.
-/
import Scc.Fun.ParseRoundtrip
import Scc.Fun.ParseProofs

namespace Scc.Fun.Print
open Scc.Fun.Lex Scc.Fun.Parse

/-! ## the lexer produces well-formed name tokens -/

/-- well-formed name tokens -/
def TokWf : Token → Prop
  | .lower w => lowerName w = true
  | .upper w => upperName w = true
  | _ => True

def AllWf (ts : List Token) : Prop := ∀ t ∈ ts, TokWf t

@[simp] theorem allWf_nil : AllWf [] := by intro t h; cases h
@[simp] theorem allWf_cons {t : Token} {r : List Token} : AllWf (t :: r) ↔ TokWf t ∧ AllWf r := by
  simp [AllWf]

def isName : Token → Bool
  | .lower _ | .upper _ => true
  | _ => false

theorem tokWf_of_not_name {t : Token} (h : isName t = false) : TokWf t := by
  cases t <;> simp [isName] at h <;> trivial

theorem afterCmp_not_name {c : IfSort} {rest : List Char} {t : Token} {r : List Char}
    (h : afterCmp c rest = .tok t r) : isName t = false := by
  unfold afterCmp at h
  split at h <;> (cases h; rfl)

theorem afterZero_not_name {rest : List Char} {t : Token} {r : List Char}
    (h : afterZero rest = .tok t r) : isName t = false := by
  unfold afterZero at h
  split at h <;> (cases h; rfl)

theorem ite_elim {p : Prop} [Decidable p] {α : Type} {a b x : α} {Q : Prop}
    (h : (if p then a else b) = x) (ha : a = x → Q) (hb : b = x → Q) : Q := by
  split at h
  · exact ha h
  · exact hb h

theorem lexStep_sym_not_name {c : Char} {cs : List Char} {t : Token} {r : List Char}
    (hws : isWs c = false) (hl : isLowerC c = false) (hu : isUpperC c = false)
    (h : lexStep (c :: cs) = .tok t r) : isName t = false := by
  unfold lexStep at h
  simp only [hws, hl, hu, Bool.false_eq_true, if_false] at h
  repeat' (first
    | (cases h <;> rfl)
    | exact afterZero_not_name h
    | exact afterCmp_not_name h
    | (refine ite_elim h ?_ ?_ <;> clear h <;> intro h)
    | split at h)

theorem all_takeWhile {p : Char → Bool} (l : List Char) : (l.takeWhile p).all p = true := by
  induction l with
  | nil => rfl
  | cons a l ih =>
    simp only [List.takeWhile_cons]
    split
    · rename_i h; simp [h, ih]
    · rfl

theorem lexStep_lower_eq {c : Char} {cs : List Char} (hc : isLowerC c = true) :
    lexStep (c :: cs) = match kwOf (c :: cs.takeWhile isIdC) with
      | some k => .tok (.kw k) (cs.dropWhile isIdC)
      | none => .tok (.lower (c :: cs.takeWhile isIdC)) (cs.dropWhile isIdC) := by
  unfold lexStep
  simp only [lower_not_ws hc, hc, if_true, Bool.false_eq_true, if_false]
  rfl

theorem lexStep_upper_eq {c : Char} {cs : List Char} (hc : isUpperC c = true) :
    lexStep (c :: cs) = .tok (.upper (c :: cs.takeWhile isIdC)) (cs.dropWhile isIdC) := by
  unfold lexStep
  simp only [upper_not_ws hc, upper_not_lower hc, hc, if_true, Bool.false_eq_true, if_false]

/-- every token the lexer delivers is well formed -/
theorem lexStep_wf {cs : List Char} {t : Token} {r : List Char} (h : lexStep cs = .tok t r) : TokWf t := by
  cases cs with
  | nil => have e : lexStep [] = .invalid := rfl; rw [e] at h; cases h
  | cons c cs =>
    by_cases hws : isWs c = true
    · rw [lexStep_ws hws] at h; cases h
    · simp only [Bool.not_eq_true] at hws
      by_cases hl : isLowerC c = true
      · rw [lexStep_lower_eq hl] at h
        split at h
        · cases h; trivial
        · rename_i hk
          cases h
          simp only [TokWf, lowerName, hl, all_takeWhile, hk, Option.isNone_none, Bool.and_self]
      · simp only [Bool.not_eq_true] at hl
        by_cases hu : isUpperC c = true
        · rw [lexStep_upper_eq hu] at h
          cases h
          simp only [TokWf, upperName, hu, all_takeWhile, Bool.and_self]
        · simp only [Bool.not_eq_true] at hu
          exact tokWf_of_not_name (lexStep_sym_not_name hws hl hu h)

theorem lexLoop_wf : ∀ (f : Nat) (cs : List Char), AllWf (lexLoop f cs)
  | _, [] => by simp [lexLoop]
  | 0, _ :: _ => by simp [lexLoop, TokWf]
  | f + 1, c :: cs => by
    unfold lexLoop
    split
    · rename_i t r h; exact allWf_cons.mpr ⟨lexStep_wf h, lexLoop_wf f r⟩
    · exact lexLoop_wf f _
    · simp [TokWf]

theorem lexStream_wf (cs : List Char) : AllWf (lexStream cs) := lexLoop_wf _ _

/-! ## names and zero edges separately -/

mutual
  /-- every name in the term is an identifier of the right case and no keyword -/
  def NamesOk : Term → Prop
    | .var x _ _ => lowerName x.toList = true
    | .lit _ => True
    | .op a _ b => NamesOk a ∧ NamesOk b
    | .ifc _ a b t e _ => NamesOk a ∧ NamesOk b ∧ NamesOk t ∧ NamesOk e
    | .ifz _ a t e _ => NamesOk a ∧ NamesOk t ∧ NamesOk e
    | .print _ a n _ => NamesOk a ∧ NamesOk n
    | .letIn x ty b i _ => lowerName x.toList = true ∧ WfTy ty ∧ NamesOk b ∧ NamesOk i
    | .call f as _ => lowerName f.toList = true ∧ NamesOks as
    | .ctor k as _ => upperName k.toList = true ∧ NamesOks as
    | .dtor s d tas as _ => NamesOk s ∧ lowerName d.toList = true ∧ WfTys tas ∧ NamesOks as
    | .case s tas cs _ => NamesOk s ∧ WfTys tas ∧ NamesOkCs cs
    | .new cs _ => NamesOkCs cs
    | .label a t _ => lowerName a.toList = true ∧ NamesOk t
    | .goto a t _ => lowerName a.toList = true ∧ NamesOk t
    | .exit t _ => NamesOk t
    | .paren t => NamesOk t
  def NamesOks : Terms → Prop
    | .nil => True
    | .cons t r => NamesOk t ∧ NamesOks r
  def NamesOkCs : Clauses → Prop
    | .nil => True
    | .cons p x ns _ b r =>
      xtorName p x = true ∧ (∀ n ∈ ns, lowerName n.toList = true) ∧ NamesOk b ∧ NamesOkCs r
end

mutual
  /-- the zero-edge conditions alone (defect D3): no comparison whose first operand ends with the
  literal `0` or whose second operand starts with it -/
  def ZeroEdgeOk : Term → Prop
    | .var .. => True
    | .lit _ => True
    | .op a _ b => ZeroEdgeOk a ∧ ZeroEdgeOk b
    | .ifc _ a b t e _ =>
      ZeroEdgeOk a ∧ ZeroEdgeOk b ∧ ZeroEdgeOk t ∧ ZeroEdgeOk e ∧ endsZero a = false ∧ startsZero b = false
    | .ifz _ a t e _ => ZeroEdgeOk a ∧ ZeroEdgeOk t ∧ ZeroEdgeOk e ∧ endsZero a = false
    | .print _ a n _ => ZeroEdgeOk a ∧ ZeroEdgeOk n
    | .letIn _ _ b i _ => ZeroEdgeOk b ∧ ZeroEdgeOk i
    | .call _ as _ => ZeroEdgeOks as
    | .ctor _ as _ => ZeroEdgeOks as
    | .dtor s _ _ as _ => ZeroEdgeOk s ∧ ZeroEdgeOks as
    | .case s _ cs _ => ZeroEdgeOk s ∧ ZeroEdgeOkCs cs
    | .new cs _ => ZeroEdgeOkCs cs
    | .label _ t _ => ZeroEdgeOk t
    | .goto _ t _ => ZeroEdgeOk t
    | .exit t _ => ZeroEdgeOk t
    | .paren t => ZeroEdgeOk t
  def ZeroEdgeOks : Terms → Prop
    | .nil => True
    | .cons t r => ZeroEdgeOk t ∧ ZeroEdgeOks r
  def ZeroEdgeOkCs : Clauses → Prop
    | .nil => True
    | .cons _ _ _ _ b r => ZeroEdgeOk b ∧ ZeroEdgeOkCs r
end

mutual
  theorem printOk_of : (t : Term) → NamesOk t → ZeroEdgeOk t → PrintOk t
    | .var .., h, _ => by simpa [PrintOk, NamesOk] using h
    | .lit _, _, _ => trivial
    | .op a _ b, h, z => by
      simp only [NamesOk, ZeroEdgeOk, PrintOk] at *
      exact ⟨printOk_of a h.1 z.1, printOk_of b h.2 z.2⟩
    | .ifc _ a b t e _, h, z => by
      simp only [NamesOk, ZeroEdgeOk, PrintOk] at *
      exact ⟨printOk_of a h.1 z.1, printOk_of b h.2.1 z.2.1, printOk_of t h.2.2.1 z.2.2.1,
        printOk_of e h.2.2.2 z.2.2.2.1, z.2.2.2.2.1, z.2.2.2.2.2⟩
    | .ifz _ a t e _, h, z => by
      simp only [NamesOk, ZeroEdgeOk, PrintOk] at *
      exact ⟨printOk_of a h.1 z.1, printOk_of t h.2.1 z.2.1, printOk_of e h.2.2 z.2.2.1, z.2.2.2⟩
    | .print _ a n _, h, z => by
      simp only [NamesOk, ZeroEdgeOk, PrintOk] at *
      exact ⟨printOk_of a h.1 z.1, printOk_of n h.2 z.2⟩
    | .letIn x ty b i _, h, z => by
      simp only [NamesOk, ZeroEdgeOk, PrintOk] at *
      exact ⟨h.1, h.2.1, printOk_of b h.2.2.1 z.1, printOk_of i h.2.2.2 z.2⟩
    | .call f as _, h, z => by
      simp only [NamesOk, ZeroEdgeOk, PrintOk] at *
      exact ⟨h.1, printOks_of as h.2 z⟩
    | .ctor k as _, h, z => by
      simp only [NamesOk, ZeroEdgeOk, PrintOk] at *
      exact ⟨h.1, printOks_of as h.2 z⟩
    | .dtor s d tas as _, h, z => by
      simp only [NamesOk, ZeroEdgeOk, PrintOk] at *
      exact ⟨printOk_of s h.1 z.1, h.2.1, h.2.2.1, printOks_of as h.2.2.2 z.2⟩
    | .case s tas cs _, h, z => by
      simp only [NamesOk, ZeroEdgeOk, PrintOk] at *
      exact ⟨printOk_of s h.1 z.1, h.2.1, printOkCs_of cs h.2.2 z.2⟩
    | .new cs _, h, z => by
      simp only [NamesOk, ZeroEdgeOk, PrintOk] at *
      exact printOkCs_of cs h z
    | .label a t _, h, z => by
      simp only [NamesOk, ZeroEdgeOk, PrintOk] at *
      exact ⟨h.1, printOk_of t h.2 z⟩
    | .goto a t _, h, z => by
      simp only [NamesOk, ZeroEdgeOk, PrintOk] at *
      exact ⟨h.1, printOk_of t h.2 z⟩
    | .exit t _, h, z => by
      simp only [NamesOk, ZeroEdgeOk, PrintOk] at *
      exact printOk_of t h z
    | .paren t, h, z => by
      simp only [NamesOk, ZeroEdgeOk, PrintOk] at *
      exact printOk_of t h z
  theorem printOks_of : (as : Terms) → NamesOks as → ZeroEdgeOks as → PrintOks as
    | .nil, _, _ => trivial
    | .cons t r, h, z => by
      simp only [NamesOks, ZeroEdgeOks, PrintOks] at *
      exact ⟨printOk_of t h.1 z.1, printOks_of r h.2 z.2⟩
  theorem printOkCs_of : (cs : Clauses) → NamesOkCs cs → ZeroEdgeOkCs cs → PrintOkCs cs
    | .nil, _, _ => trivial
    | .cons p x ns c b r, h, z => by
      simp only [NamesOkCs, ZeroEdgeOkCs, PrintOkCs] at *
      exact ⟨h.1, h.2.1, printOk_of b h.2.2.1 z.1, printOkCs_of r h.2.2.2 z.2⟩
end


/-! ## postconditions of the parser functions -/

/-- postcondition of a parser function -/
def Post {α : Type} (Q : α → Prop) (o : Outcome α) : Prop := ∀ a, o = .ok a → Q a

theorem Post.bind {α β : Type} {Q : α → Prop} {R : β → Prop} {o : Outcome α} {f : α → Outcome β}
    (ho : Post Q o) (hf : ∀ a, Q a → Post R (f a)) : Post R (o.bind f) := by
  cases o with
  | ok a => exact hf a (ho a rfl)
  | diag c => intro b h; cases h
  | panic s => intro b h; cases h

theorem post_failAt {α : Type} {Q : α → Prop} (x : List Token) : Post Q (failAt x : Outcome α) := by
  unfold failAt; split <;> (intro a h; cases h)

theorem post_ok {α : Type} {Q : α → Prop} {a : α} (h : Q a) : Post Q (.ok a) := by
  intro b hb; cases hb; exact h

theorem post_diag {α : Type} {Q : α → Prop} {c : DiagCode} : Post Q (.diag c : Outcome α) := by
  intro b hb; cases hb

theorem post_panic {α : Type} {Q : α → Prop} {c : PanicSite} : Post Q (.panic c : Outcome α) := by
  intro b hb; cases hb

theorem post_expect (t : Token) (ts : List Token) (h : AllWf ts) : Post AllWf (expect t ts) := by
  unfold expect
  split
  · split
    · apply post_ok; exact (allWf_cons.mp h).2
    · exact post_failAt _
  · exact post_failAt _

/-- result with remaining input -/
abbrev PQ {α : Type} (P : α → Prop) : α × List Token → Prop := fun x => P x.1 ∧ AllWf x.2

/-- side goals `AllWf r` -/
macro "wf_side" : tactic => `(tactic| (first
  | assumption
  | (simp only [allWf_cons, TokWf, PQ] at *; simp [*])))

/-- a successful leaf `Outcome.ok (x, r)`: unfold the postcondition and simplify with the hypotheses -/
syntax "post_leaf" "[" Lean.Parser.Tactic.simpLemma,* "]" : tactic
macro_rules
  | `(tactic| post_leaf [$ls,*]) => `(tactic| (
      apply post_ok
      simp only [allWf_cons, TokWf, PQ, $ls,*] at *
      (try dsimp only at *)
      first
        | (simp [String.toList_ofList, $ls,*, *]; done)
        | (simp [String.toList_ofList, $ls,*, *]; first | assumption | grind)))

macro "post_bind_with" h:term : tactic => `(tactic| (
  refine Post.bind $h ?_
  first | (intro ⟨_, _⟩ ⟨_, _⟩) | (intro _ _)
  try simp only []))

macro "post_bind_expect" : tactic => `(tactic| (
  refine Post.bind (post_expect _ _ (by wf_side)) ?_
  intro _ _
  try simp only []))

theorem post_ty : ∀ fuel ts, AllWf ts →
    Post (PQ WfTy) (parseTy fuel ts) ∧ Post (PQ WfTys) (parseTys fuel ts) := by
  intro fuel
  induction fuel with
  | zero => intro ts _; exact ⟨by unfold parseTy; exact post_diag, by unfold parseTys; exact post_diag⟩
  | succ n ih =>
    intro ts hts
    have leaf : ∀ {α : Type} {Q : α → Prop} {a : α}, Q a → Post Q (.ok a) := post_ok
    constructor
    · unfold parseTy
      repeat' (first
        | exact post_failAt _ | exact post_diag
        | post_leaf [WfTy, WfTys]
        | post_bind_with (ih _ (by wf_side)).2 | split)
    · unfold parseTys
      repeat' (first
        | exact post_failAt _ | exact post_diag
        | post_leaf [WfTy, WfTys]
        | post_bind_with (ih _ (by wf_side)).1
        | post_bind_with (ih _ (by wf_side)).2 | split)

theorem post_parseTy (fuel : Nat) (ts : List Token) (h : AllWf ts) : Post (PQ WfTy) (parseTy fuel ts) :=
  (post_ty fuel ts h).1
theorem post_parseTys (fuel : Nat) (ts : List Token) (h : AllWf ts) : Post (PQ WfTys) (parseTys fuel ts) :=
  (post_ty fuel ts h).2

theorem post_parseOptTyArgs (fuel : Nat) (ts : List Token) (h : AllWf ts) :
    Post (PQ WfTys) (parseOptTyArgs fuel ts) := by
  unfold parseOptTyArgs
  split
  · exact post_parseTys _ _ (by wf_side)
  · apply post_ok; exact ⟨trivial, h⟩

abbrev LowerNames (ns : List String) : Prop := ∀ n ∈ ns, lowerName n.toList = true
abbrev UpperNames (ns : List String) : Prop := ∀ n ∈ ns, upperName n.toList = true

theorem post_parseNames : ∀ fuel ts, AllWf ts → Post (PQ LowerNames) (parseNames fuel ts) := by
  intro fuel
  induction fuel with
  | zero => intro ts _; unfold parseNames; exact post_diag
  | succ n ih =>
    intro ts hts
    unfold parseNames
    repeat' (first
      | exact post_failAt _ | exact post_diag
      | post_leaf [LowerNames]
      | post_bind_with (ih _ (by wf_side)) | split)

theorem post_parseOptNames (fuel : Nat) (ts : List Token) (h : AllWf ts) :
    Post (PQ LowerNames) (parseOptNames fuel ts) := by
  unfold parseOptNames
  split
  · exact post_parseNames _ _ (by wf_side)
  · apply post_ok; exact ⟨fun n hn => (by cases hn), h⟩

theorem post_parseTyNames : ∀ fuel ts, AllWf ts → Post (PQ UpperNames) (parseTyNames fuel ts) := by
  intro fuel
  induction fuel with
  | zero => intro ts _; unfold parseTyNames; exact post_diag
  | succ n ih =>
    intro ts hts
    unfold parseTyNames
    repeat' (first
      | exact post_failAt _ | exact post_diag
      | post_leaf [UpperNames]
      | post_bind_with (ih _ (by wf_side)) | split)

theorem post_parseOptTyNames (fuel : Nat) (ts : List Token) (h : AllWf ts) :
    Post (PQ UpperNames) (parseOptTyNames fuel ts) := by
  unfold parseOptTyNames
  split
  · exact post_parseTyNames _ _ (by wf_side)
  · apply post_ok; exact ⟨fun n hn => (by cases hn), h⟩

abbrev WfCtx (c : Ctx) : Prop := ∀ b ∈ c, WfBinding b

theorem post_parseBinding (fuel : Nat) (ts : List Token) (h : AllWf ts) :
    Post (PQ WfBinding) (parseBinding fuel ts) := by
  unfold parseBinding
  repeat' (first
    | exact post_failAt _ | exact post_diag
    | post_leaf [WfBinding]
    | post_bind_with (post_parseTy _ _ (by wf_side)) | split)

theorem post_parseBindings : ∀ fuel ts, AllWf ts → Post (PQ WfCtx) (parseBindings fuel ts) := by
  intro fuel
  induction fuel with
  | zero => intro ts _; unfold parseBindings; exact post_diag
  | succ n ih =>
    intro ts hts
    unfold parseBindings
    repeat' (first
      | exact post_failAt _ | exact post_diag
      | post_leaf [WfCtx]
      | post_bind_with (post_parseBinding _ _ (by wf_side))
      | post_bind_with (ih _ (by wf_side)) | split)

theorem post_parseOptCtx (fuel : Nat) (ts : List Token) (h : AllWf ts) :
    Post (PQ WfCtx) (parseOptCtx fuel ts) := by
  unfold parseOptCtx
  split
  · exact post_parseBindings _ _ (by wf_side)
  · apply post_ok; exact ⟨fun n hn => (by cases hn), h⟩


theorem Post.mono {α : Type} {Q R : α → Prop} {o : Outcome α} (h : Post Q o) (hqr : ∀ a, Q a → R a) :
    Post R o := fun a ha => hqr a (h a ha)

theorem level_lit (n : Int) : level (.lit n) = 1 := rfl
theorem level_var (x : String) (a : Option Ty) (b : Option Chi) : level (.var x a b) = 1 := rfl
theorem level_call (f : String) (a : Terms) (b : Option Ty) : level (.call f a b) = 1 := rfl
theorem level_paren (t : Term) : level (.paren t) = 1 := rfl
theorem level_new (c : Clauses) (b : Option Ty) : level (.new c b) = 2 := rfl
theorem level_ctor (k : String) (a : Terms) (b : Option Ty) : level (.ctor k a b) = 2 := rfl
theorem level_dtor (s : Term) (d : String) (ta : Tys) (a : Terms) (b : Option Ty) :
    level (.dtor s d ta a b) = 2 := rfl
theorem level_case (s : Term) (ta : Tys) (c : Clauses) (b : Option Ty) : level (.case s ta c b) = 2 := rfl
theorem level_ifc (s : IfSort) (a b t e : Term) (ty : Option Ty) : level (.ifc s a b t e ty) = 3 := rfl
theorem level_ifz (s : IfSort) (a t e : Term) (ty : Option Ty) : level (.ifz s a t e ty) = 3 := rfl
theorem level_label (a : String) (t : Term) (ty : Option Ty) : level (.label a t ty) = 3 := rfl
theorem level_goto (a : String) (t : Term) (ty : Option Ty) : level (.goto a t ty) = 3 := rfl
theorem level_exit (t : Term) (ty : Option Ty) : level (.exit t ty) = 3 := rfl
theorem level_op (a : Term) (o : BinOp) (b : Term) : level (.op a o b) = 3 := rfl
theorem level_letIn (x : String) (vt : Ty) (b i : Term) (ty : Option Ty) : level (.letIn x vt b i ty) = 3 := rfl
theorem level_print (nl : Bool) (a n : Term) (ty : Option Ty) : level (.print nl a n ty) = 4 := rfl

/-- in the image of the grammar, with proper names -/
def GoodT (t : Term) : Prop := InRange t ∧ NamesOk t

theorem post_parseNum (mode : LiteralMode) (neg : Bool) (ds : List Char) (r : List Token) :
    Post (fun n => -(i64Max : Int) ≤ n ∧ n ≤ (i64Max : Int)) (parseNum mode neg ds r) := by
  unfold parseNum
  split
  · exact post_failAt _
  · split
    · simp only []
      split
      · apply post_ok
        cases neg <;> simp <;> omega
      · cases mode
        · exact post_panic
        · exact post_diag
    · exact post_failAt _

structure PostIH (mode : LiteralMode) (n : Nat) : Prop where
  t1 : ∀ ts, AllWf ts → Post (PQ fun t => GoodT t ∧ level t ≤ 1) (parseTerm1 mode n ts)
  args : ∀ ts, AllWf ts → Post (PQ fun as => InRanges as ∧ NamesOks as) (parseArgs mode n ts)
  cls : ∀ pol ts, AllWf ts →
    Post (PQ fun cs => InRangeCs pol cs ∧ NamesOkCs cs) (parseClauses mode pol n ts)
  post : ∀ t ts, AllWf ts → GoodT t → level t ≤ 2 →
    Post (PQ fun t' => GoodT t' ∧ level t' ≤ 2) (parsePostfix mode n t ts)
  braced : ∀ ts, AllWf ts → Post (PQ GoodT) (parseBraced mode n ts)
  thenElse : ∀ ts, AllWf ts → Post (PQ fun te => GoodT te.1 ∧ GoodT te.2) (parseThenElse mode n ts)
  term : ∀ b ts, AllWf ts →
    Post (PQ fun t => GoodT t ∧ (b = false → level t ≤ 3)) (parseTerm mode n b ts)

/-- side goals about the syntax tree built so far -/
macro "good_side" : tactic => `(tactic| (
  simp only [allWf_cons, TokWf, PQ, GoodT] at *
  (try dsimp only at *)
  first
    | (simp [GoodT, InRange, NamesOk, NamesOks, NamesOkCs, InRanges, InRangeCs, level_lit, level_var, level_call, level_paren, level_new, level_ctor, level_dtor, level_case, level_ifc, level_ifz, level_label, level_goto, level_exit, level_op, level_letIn, level_print, xtorName,
        String.toList_ofList, *]; done)
    | (simp [GoodT, InRange, NamesOk, NamesOks, NamesOkCs, InRanges, InRangeCs, level_lit, level_var, level_call, level_paren, level_new, level_ctor, level_dtor, level_case, level_ifc, level_ifz, level_label, level_goto, level_exit, level_op, level_letIn, level_print, xtorName,
        String.toList_ofList, *]; first | assumption | omega | grind)
    | omega
    | assumption))

macro "post_tleaf" : tactic => `(tactic| (apply post_ok; good_side))

macro "post_num" : tactic => `(tactic| (
  refine Post.bind (post_parseNum _ _ _ _) ?_
  intro _ _
  try simp only []))

macro "post_go" ih:ident : tactic => `(tactic| repeat' (first
  | exact post_failAt _
  | exact post_diag
  | post_tleaf
  | post_num
  | post_bind_expect
  | post_bind_with (($ih).t1 _ (by wf_side))
  | post_bind_with (($ih).args _ (by wf_side))
  | post_bind_with (($ih).cls _ _ (by wf_side))
  | post_bind_with (($ih).braced _ (by wf_side))
  | post_bind_with (($ih).thenElse _ (by wf_side))
  | post_bind_with (($ih).term _ _ (by wf_side))
  | post_bind_with (post_parseTy _ _ (by wf_side))
  | post_bind_with (post_parseOptTyArgs _ _ (by wf_side))
  | post_bind_with (post_parseOptNames _ _ (by wf_side))
  | exact ($ih).post _ _ (by wf_side) (by good_side) (by good_side)
  | (refine Post.mono (($ih).post _ _ (by wf_side) (by good_side) (by good_side)) ?_
     intro ⟨_, _⟩ ⟨⟨_, _⟩, _⟩
     good_side)
  | split))

set_option maxHeartbeats 400000 in
theorem post_terms (mode : LiteralMode) : ∀ n, PostIH mode n := by
  intro n
  induction n with
  | zero =>
    constructor <;> intros <;> first
      | (unfold parseTerm1; exact post_diag) | (unfold parseArgs; exact post_diag)
      | (unfold parseClauses; exact post_diag) | (unfold parsePostfix; exact post_diag)
      | (unfold parseBraced; exact post_diag) | (unfold parseThenElse; exact post_diag)
      | (unfold parseTerm; exact post_diag)
  | succ n ih =>
    constructor
    · intro ts hts; unfold parseTerm1; post_go ih
    · intro ts hts; unfold parseArgs; post_go ih
    · intro pol ts hts; unfold parseClauses; post_go ih
    · intro t ts hts hg hl; unfold parsePostfix; post_go ih
    · intro ts hts; unfold parseBraced; post_go ih
    · intro ts hts; unfold parseThenElse; post_go ih
    · intro b ts hts; unfold parseTerm; post_go ih


/-! ## declarations and programs -/

abbrev WfCtorSigs (cs : List CtorSig) : Prop := ∀ c ∈ cs, WfCtorSig c
abbrev WfDtorSigs (ds : List DtorSig) : Prop := ∀ d ∈ ds, WfDtorSig d

theorem post_parseCtorSigs : ∀ fuel ts, AllWf ts → Post (PQ WfCtorSigs) (parseCtorSigs fuel ts) := by
  intro fuel
  induction fuel with
  | zero => intro ts _; unfold parseCtorSigs; exact post_diag
  | succ n ih =>
    intro ts hts
    unfold parseCtorSigs
    repeat' (first
      | exact post_failAt _ | exact post_diag
      | post_leaf [WfCtorSigs, WfCtorSig, WfCtx]
      | post_bind_with (post_parseOptCtx _ _ (by wf_side))
      | post_bind_with (ih _ (by wf_side)) | split)

theorem post_parseDtorSigs : ∀ fuel ts, AllWf ts → Post (PQ WfDtorSigs) (parseDtorSigs fuel ts) := by
  intro fuel
  induction fuel with
  | zero => intro ts _; unfold parseDtorSigs; exact post_diag
  | succ n ih =>
    intro ts hts
    unfold parseDtorSigs
    repeat' (first
      | exact post_failAt _ | exact post_diag
      | post_leaf [WfDtorSigs, WfDtorSig, WfCtx]
      | post_bind_expect
      | post_bind_with (post_parseOptCtx _ _ (by wf_side))
      | post_bind_with (post_parseTy _ _ (by wf_side))
      | post_bind_with (ih _ (by wf_side)) | split)

/-- names of a declaration are identifiers -/
def NamesOkDecl : Decl → Prop
  | .data d => upperName d.name.toList = true ∧ (∀ n ∈ d.typeParams, upperName n.toList = true) ∧
      ∀ c ∈ d.ctors, WfCtorSig c
  | .codata d => upperName d.name.toList = true ∧ (∀ n ∈ d.typeParams, upperName n.toList = true) ∧
      ∀ c ∈ d.dtors, WfDtorSig c
  | .defn d => lowerName d.name.toList = true ∧ (∀ b ∈ d.ctx, WfBinding b) ∧ WfTy d.retTy ∧ NamesOk d.body

def ZeroEdgeOkDecl : Decl → Prop
  | .defn d => ZeroEdgeOk d.body
  | _ => True

theorem wfDecl_of {d : Decl} (hn : NamesOkDecl d) (hz : ZeroEdgeOkDecl d) : WfDecl d := by
  cases d with
  | data d => exact hn
  | codata d => exact hn
  | defn d => exact ⟨hn.1, hn.2.1, hn.2.2.1, printOk_of _ hn.2.2.2 hz⟩

def NamesOkProg (p : Program) : Prop := ∀ d ∈ p.decls, NamesOkDecl d
def ZeroEdgeOkProg (p : Program) : Prop := ∀ d ∈ p.decls, ZeroEdgeOkDecl d

theorem progOk_of {p : Program} (hn : NamesOkProg p) (hz : ZeroEdgeOkProg p) : ProgOk p :=
  fun d hd => wfDecl_of (hn d hd) (hz d hd)

theorem post_parseDecl (mode : LiteralMode) (fuel : Nat) (ts : List Token) (hts : AllWf ts) :
    Post (PQ fun d => InRangeDecl d ∧ NamesOkDecl d) (parseDecl mode fuel ts) := by
  unfold parseDecl
  repeat' (first
    | exact post_failAt _ | exact post_diag
    | post_leaf [InRangeDecl, NamesOkDecl, WfCtorSigs, WfDtorSigs, WfCtx, UpperNames, GoodT]
    | post_bind_expect
    | post_bind_with (post_parseOptCtx _ _ (by wf_side))
    | post_bind_with (post_parseTy _ _ (by wf_side))
    | post_bind_with (post_parseOptTyNames _ _ (by wf_side))
    | post_bind_with (post_parseCtorSigs _ _ (by wf_side))
    | post_bind_with (post_parseDtorSigs _ _ (by wf_side))
    | post_bind_with ((post_terms mode _).braced _ (by wf_side))
    | split)

theorem post_parseDecls (mode : LiteralMode) (fuel : Nat) : ∀ n ts, AllWf ts →
    Post (fun ds => ∀ d ∈ ds, InRangeDecl d ∧ NamesOkDecl d) (parseDecls mode fuel n ts) := by
  intro n
  induction n with
  | zero =>
    intro ts _
    cases ts with
    | nil => unfold parseDecls; exact post_ok (fun d hd => by cases hd)
    | cons t r => unfold parseDecls; exact post_diag
  | succ n ih =>
    intro ts hts
    cases ts with
    | nil => unfold parseDecls; exact post_ok (fun d hd => by cases hd)
    | cons t r =>
      unfold parseDecls
      refine Post.bind (post_parseDecl mode fuel _ hts) ?_
      intro ⟨d, r'⟩ ⟨hd, hr'⟩
      refine Post.bind (ih r' hr') ?_
      intro ds hds
      apply post_ok
      intro x hx
      cases hx with
      | head => exact hd
      | tail _ h => exact hds x h

/-- C16-T3 on tokens: what the parser accepts from well-formed tokens is in the image of the grammar
and has proper names. -/
theorem parseTokens_good {mode : LiteralMode} {ts : List Token} {p : Program} (hts : AllWf ts)
    (h : parseTokens mode ts = .ok p) : InRangeProg p ∧ NamesOkProg p := by
  have hp : Post (fun p => InRangeProg p ∧ NamesOkProg p) (parseTokens mode ts) := by
    unfold parseTokens
    refine Post.bind (post_parseDecls mode _ _ ts hts) ?_
    intro ds hds
    apply post_ok
    exact ⟨fun d hd => (hds d hd).1, fun d hd => (hds d hd).2⟩
  exact hp p h

/-- C16-T3: what lexer and parser accept is in the image of the grammar and has proper names. -/
theorem parseChars_good {mode : LiteralMode} {cs : List Char} {p : Program}
    (h : parseChars mode cs = .ok p) : InRangeProg p ∧ NamesOkProg p :=
  parseTokens_good (lexStream_wf cs) h


end Scc.Fun.Print
