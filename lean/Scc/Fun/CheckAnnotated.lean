/-
  Scc.Fun.CheckAnnotated — the checker's output is fully annotated (property C15, theorem (c)):
  every `ty`/`chi` field is `some _` and every clause carries the typed context of its binders.
  Structural induction over the term, with a loop lemma for `clauseLoop`.
-/
import Scc.Fun.CheckInv
import Scc.Fun.Typing

namespace Scc.Fun.Check
open Scc.Fun.Typing

/-! ## list facts for the clause loop -/

theorem mem_of_mem_swapRemove {α : Type} {l : List α} {i : Nat} {x : α}
    (h : x ∈ swapRemove l i) : x ∈ l := by
  unfold swapRemove at h
  split at h
  · exact h
  · rename_i last hl
    rcases List.mem_or_eq_of_mem_set h with h | rfl
    · exact List.dropLast_subset _ h
    · exact List.mem_of_getLast? hl

theorem addTypes_ok {names : List String} {sig ctx : Ctx} (h : addTypes names sig = .ok ctx) :
    names.length = sig.length ∧ ctx = (names.zip sig).map (fun (n, b) => { b with var := n }) := by
  simp only [addTypes] at h
  split at h
  · cases h
  · cases h
    rename_i hne
    exact ⟨by simpa [bne] using hne, rfl⟩

theorem addTypes_vars {names : List String} {sig ctx : Ctx} (h : addTypes names sig = .ok ctx) :
    ctx.map (·.var) = names := by
  obtain ⟨hl, rfl⟩ := addTypes_ok h
  rw [List.map_map]
  have : ((fun b : Binding => b.var) ∘ fun (x : String × Binding) => { x.2 with var := x.1 })
      = Prod.fst := by
    funext x; rfl
  rw [this]
  exact List.map_fst_zip (by omega)

/-! ## annotated -/

/-- a checking closure only returns annotated terms -/
def AnnK (k : Checker) : Prop := ∀ st Γ τ t' st', k st Γ τ = .ok (t', st') → annotated t' = true

def AnnClause (c : Clause) : Prop := c.ctx.map (·.var) = c.names ∧ annotated c.body = true

theorem annotatedClauses_ofList : ∀ (l : List Clause), (∀ c ∈ l, AnnClause c) →
    annotatedClauses (Clauses.ofList l) = true
  | [], _ => by simp [Clauses.ofList, annotatedClauses]
  | c :: r, h => by
    have hc := h c (by simp)
    have hr := annotatedClauses_ofList r (fun x hx => h x (by simp [hx]))
    simp only [Clauses.ofList, annotatedClauses, Bool.and_eq_true, beq_iff_eq]
    exact ⟨⟨hc.1, hc.2⟩, hr⟩

theorem clauseLoop_annotated {sigOf missing checkRet tyArgs Γ} : ∀ (xtors : List String) (ks : List ClauseK)
    (acc : List Clause) (st : SymbolTable) (out : List Clause) (left : List ClauseK)
    (st' : SymbolTable),
    (∀ k ∈ ks, AnnK k.body) → (∀ c ∈ acc, AnnClause c) →
    clauseLoop sigOf missing checkRet tyArgs Γ xtors ks acc st = .ok (out, left, st') →
    ∀ c ∈ out, AnnClause c
  | [], ks, acc, st, out, left, st', _, hacc, h => by
    obtain ⟨rfl, _, _⟩ := clauseLoop_nil_ok h
    intro c hc
    exact hacc c (by simpa using hc)
  | x :: rest, ks, acc, st, out, left, st', hks, hacc, h => by
    obtain ⟨pos, k, sig, bodyTy, st0, ctxClause, body', st1, _, hk, _, _, _, hadd, hbody, hrest⟩ :=
      clauseLoop_cons_ok h
    have hkmem : k ∈ ks := List.mem_of_getElem? hk
    refine clauseLoop_annotated rest _ _ _ _ _ _ ?_ ?_ hrest
    · intro k' hk'
      exact hks k' (mem_of_mem_swapRemove hk')
    · intro c hc
      rcases List.mem_cons.mp hc with rfl | hc
      · exact ⟨addTypes_vars hadd, hks k hkmem _ _ _ _ _ hbody⟩
      · exact hacc c hc

mutual
  theorem checkTerm_annotated : ∀ (t : Term), AnnK (checkTerm t)
    | .var x ty chi => by
      intro st Γ τ t' st' h
      obtain ⟨_, _, _, _, _, _, rfl⟩ := checkTerm_var_ok h
      simp [annotated]
    | .lit n => by
      intro st Γ τ t' st' h
      obtain ⟨_, rfl⟩ := checkTerm_lit_ok h
      simp [annotated]
    | .op a o b => by
      intro st Γ τ t' st' h
      obtain ⟨_, _, _, _, _, ha, hb, rfl⟩ := checkTerm_op_ok h
      simp [annotated, checkTerm_annotated a _ _ _ _ _ ha, checkTerm_annotated b _ _ _ _ _ hb]
    | .ifc s a b t e an => by
      intro st Γ τ t' st' h
      obtain ⟨_, _, _, _, _, _, _, ha, hb, ht, he, rfl⟩ := checkTerm_ifc_ok h
      simp [annotated, checkTerm_annotated a _ _ _ _ _ ha, checkTerm_annotated b _ _ _ _ _ hb,
        checkTerm_annotated t _ _ _ _ _ ht, checkTerm_annotated e _ _ _ _ _ he]
    | .ifz s a t e an => by
      intro st Γ τ t' st' h
      obtain ⟨_, _, _, _, _, ha, ht, he, rfl⟩ := checkTerm_ifz_ok h
      simp [annotated, checkTerm_annotated a _ _ _ _ _ ha,
        checkTerm_annotated t _ _ _ _ _ ht, checkTerm_annotated e _ _ _ _ _ he]
    | .print nl a n an => by
      intro st Γ τ t' st' h
      obtain ⟨_, _, _, ha, hn, rfl⟩ := checkTerm_print_ok h
      simp [annotated, checkTerm_annotated a _ _ _ _ _ ha, checkTerm_annotated n _ _ _ _ _ hn]
    | .letIn x σ bound body an => by
      intro st Γ τ t' st' h
      obtain ⟨_, _, _, _, _, hb, hi, rfl⟩ := checkTerm_letIn_ok h
      simp [annotated, checkTerm_annotated bound _ _ _ _ _ hb, checkTerm_annotated body _ _ _ _ _ hi]
    | .call f args an => by
      intro st Γ τ t' st' h
      obtain ⟨_, _, _, _, _, _, _, ha, rfl⟩ := checkTerm_call_ok h
      simp [annotated, checkArgs_annotated args _ _ _ _ _ ha]
    | .ctor id args an => by
      intro st Γ τ t' st' h
      obtain ⟨_, _, _, _, _, _, _, _, _, _, _, ha, _, rfl⟩ := checkTerm_ctor_ok h
      simp [annotated, checkArgs_annotated args _ _ _ _ _ ha]
    | .dtor scrut id tyArgs args an => by
      intro st Γ τ t' st' h
      obtain ⟨_, _, _, _, _, _, _, _, _, _, hs, _, _, ha, _, rfl⟩ := checkTerm_dtor_ok h
      simp [annotated, checkTerm_annotated scrut _ _ _ _ _ hs, checkArgs_annotated args _ _ _ _ _ ha]
    | .case scrut tyArgs cs an => by
      intro st Γ τ t' st' h
      obtain ⟨_, _, _, _, _, _, _, _, _, _, _, _, _, _, hs, hl, rfl⟩ := checkTerm_case_ok h
      have := clauseLoop_annotated _ _ _ _ _ _ _ (clauseCheckers_annotated cs) (by simp) hl
      simp [annotated, checkTerm_annotated scrut _ _ _ _ _ hs, annotatedClauses_ofList _ this]
    | .new cs an => by
      intro st Γ τ t' st' h
      obtain ⟨_, _, _, _, _, _, _, hl, rfl⟩ := checkTerm_new_ok h
      have := clauseLoop_annotated _ _ _ _ _ _ _ (clauseCheckers_annotated cs) (by simp) hl
      simp [annotated, annotatedClauses_ofList _ this]
    | .label a body an => by
      intro st Γ τ t' st' h
      obtain ⟨_, hb, rfl⟩ := checkTerm_label_ok h
      simp [annotated, checkTerm_annotated body _ _ _ _ _ hb]
    | .goto a arg an => by
      intro st Γ τ t' st' h
      obtain ⟨_, _, _, _, _, hb, rfl⟩ := checkTerm_goto_ok h
      simp [annotated, checkTerm_annotated arg _ _ _ _ _ hb]
    | .exit arg an => by
      intro st Γ τ t' st' h
      obtain ⟨_, hb, rfl⟩ := checkTerm_exit_ok h
      simp [annotated, checkTerm_annotated arg _ _ _ _ _ hb]
    | .paren inner => by
      intro st Γ τ t' st' h
      obtain ⟨_, hb, rfl⟩ := checkTerm_paren_ok h
      simp [annotated, checkTerm_annotated inner _ _ _ _ _ hb]
  theorem checkArgs_annotated : ∀ (ts : Terms) (bs : List Binding) (st : SymbolTable) (Γ : Ctx)
      (ts' : Terms) (st' : SymbolTable), checkArgs ts bs st Γ = .ok (ts', st') →
      annotatedArgs ts' = true
    | .nil, bs, st, Γ, ts', st', h => by
      obtain ⟨rfl, _⟩ := checkArgs_nil_ok h
      simp [annotatedArgs]
    | .cons t ts, [], st, Γ, ts', st', h => by
      obtain ⟨rfl, _⟩ := checkArgs_cons_nil_ok h
      simp [annotatedArgs]
    | .cons t ts, b :: bs, st, Γ, ts', st', h => by
      cases hb : b.chi with
      | prd =>
        obtain ⟨_, _, _, _, _, ht, hr, rfl⟩ := checkArgs_cons_prd_ok hb h
        simp [annotatedArgs, checkTerm_annotated t _ _ _ _ _ ht, checkArgs_annotated ts _ _ _ _ _ hr]
      | cns =>
        obtain ⟨_, _, _, _, _, _, _, hc, hr, rfl⟩ := checkArgs_cons_cns_ok hb h
        obtain ⟨_, _, _, _, _, _, rfl⟩ := checkCovarArg_ok hc
        simp [annotatedArgs, annotated, checkArgs_annotated ts _ _ _ _ _ hr]
  theorem clauseCheckers_annotated : ∀ (cs : Clauses), ∀ k ∈ clauseCheckers cs, AnnK k.body
    | .nil => by simp [clauseCheckers]
    | .cons p x ns c b r => by
      intro k hk
      simp only [clauseCheckers, List.mem_cons] at hk
      rcases hk with rfl | hk
      · exact checkTerm_annotated b
      · exact clauseCheckers_annotated r k hk
end

/-! ## programs -/

theorem checkDefs_annotated : ∀ (fs fs' : List Def) (st st' : SymbolTable),
    checkDefs fs st = .ok (fs', st') → ∀ f' ∈ fs', annotated f'.body = true
  | [], fs', st, st', h => by
    simp only [checkDefs] at h; cases h; simp
  | f :: r, fs', st, st', h => by
    simp only [checkDefs] at h
    split at h
    · cases h
    · rename_i f1 st1 h1
      split at h
      · cases h
      · rename_i r1 st2 h2
        cases h
        intro x hx
        rcases List.mem_cons.mp hx with rfl | hx
        · simp only [checkDef] at h1
          split at h1
          · cases h1
          · split at h1
            · cases h1
            · split at h1
              · cases h1
              · split at h1
                · cases h1
                · rename_i body' st3 h4
                  cases h1
                  exact checkTerm_annotated f.body _ _ _ _ _ h4
        · exact checkDefs_annotated r r1 st1 _ h2 x hx

theorem checkProgramR_annotated {p : Program} {p' : CheckedProgram}
    (h : checkProgramR p = .ok p') : annotatedProgram p' = true := by
  simp only [checkProgramR] at h
  split at h
  · cases h
  · simp only [checkWithTable] at h
    split at h
    · cases h
    · split at h
      · cases h
      · rename_i fs' st1 hdefs
        split at h
        · cases h
        · cases h
          simp only [annotatedProgram, List.all_eq_true]
          exact checkDefs_annotated _ _ _ _ hdefs

theorem checkProgram_ok_iff {p : Program} {p' : CheckedProgram} :
    checkProgram p = .ok p' ↔ checkProgramR p = .ok p' := by
  simp only [checkProgram]
  constructor
  · intro h
    split at h
    · cases h; assumption
    · cases h
    · cases h
  · intro h; rw [h]

end Scc.Fun.Check
