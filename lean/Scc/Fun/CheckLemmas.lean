/-
  Scc.Fun.CheckLemmas — helper lemmas about the checker model `Scc.Fun.Check`:
  * printed type names are injective (`printTyC_inj`, `instName_inj`) when the names are identifiers
    (no `[`, `]`, `,`; not the keyword `i64`);
  * `str::replace` recovers the template name from an instance name (`removeAll_instName`);
  * association-list facts.
-/
import Scc.Fun.Check

namespace Scc.Fun.Check

/-! ## names -/

/-- characters that delimit names inside a printed type -/
def isDelim (c : Char) : Bool := c == '[' || c == ']' || c == ','

/-- a name as the lexer produces it (`[a-zA-Z][a-zA-Z0-9_]*`) in particular satisfies this:
no bracket, comma or space, and it is not the keyword `i64` -/
def nameOk (s : String) : Bool :=
  s.toList.all (fun c => !(isDelim c || c == ' ')) && s.toList != ['i', '6', '4']

mutual
  def tyNamesOk : Ty → Bool
    | .i64 => true
    | .decl n args => nameOk n && tysNamesOk args
  def tysNamesOk : Tys → Bool
    | .nil => true
    | .cons t r => tyNamesOk t && tysNamesOk r
end

theorem nameOk_noDelim {s : String} (h : nameOk s = true) : ∀ c ∈ s.toList, isDelim c = false := by
  intro c hc
  simp only [nameOk, Bool.and_eq_true, List.all_eq_true] at h
  have := h.1 c hc
  simp only [Bool.not_eq_true', Bool.or_eq_false_iff] at this
  exact this.1

theorem nameOk_ne_i64 {s : String} (h : nameOk s = true) : s.toList ≠ ['i', '6', '4'] := by
  simp only [nameOk, Bool.and_eq_true] at h
  simpa using h.2

/-- "empty or starts with a delimiter" -/
def StartsDelim (r : List Char) : Prop := r = [] ∨ ∃ c cs, r = c :: cs ∧ isDelim c = true

/-- "empty or starts with `,` or `]`": what can follow a printed type -/
def StartsFollow (r : List Char) : Prop := r = [] ∨ ∃ c cs, r = c :: cs ∧ (c = ',' ∨ c = ']')

theorem StartsFollow.startsDelim {r : List Char} (h : StartsFollow r) : StartsDelim r := by
  rcases h with h | ⟨c, cs, h, hc⟩
  · exact .inl h
  · refine .inr ⟨c, cs, h, ?_⟩
    rcases hc with rfl | rfl <;> decide

/-- splitting `name ++ rest` at the first delimiter is unique -/
theorem name_split_unique : ∀ (n1 n2 r1 r2 : List Char),
    (∀ c ∈ n1, isDelim c = false) → (∀ c ∈ n2, isDelim c = false) →
    StartsDelim r1 → StartsDelim r2 → n1 ++ r1 = n2 ++ r2 → n1 = n2 ∧ r1 = r2
  | [], [], _, _, _, _, _, _, h => ⟨rfl, by simpa using h⟩
  | [], c :: n2, r1, r2, _, h2, s1, _, h => by
    exfalso
    rcases s1 with rfl | ⟨d, ds, rfl, hd⟩
    · simp at h
    · simp only [List.nil_append, List.cons_append, List.cons.injEq] at h
      have := h2 c (by simp)
      rw [← h.1] at this
      simp [this] at hd
  | c :: n1, [], r1, r2, h1, _, _, s2, h => by
    exfalso
    rcases s2 with rfl | ⟨d, ds, rfl, hd⟩
    · simp at h
    · simp only [List.nil_append, List.cons_append, List.cons.injEq] at h
      have := h1 c (by simp)
      rw [h.1] at this
      simp [this] at hd
  | c :: n1, d :: n2, r1, r2, h1, h2, s1, s2, h => by
    simp only [List.cons_append, List.cons.injEq] at h
    have ih := name_split_unique n1 n2 r1 r2 (fun x hx => h1 x (by simp [hx]))
      (fun x hx => h2 x (by simp [hx])) s1 s2 h.2
    exact ⟨by rw [h.1, ih.1], ih.2⟩

theorem printTysTailC_startsFollow (ts : Tys) (r : List Char) :
    StartsFollow (printTysTailC ts ++ r) := by
  cases ts with
  | nil => exact .inr ⟨']', r, by simp [printTysTailC], .inr rfl⟩
  | cons t rest => exact .inr ⟨',', ' ' :: (printTyC t ++ printTysTailC rest) ++ r, by simp [printTysTailC], .inl rfl⟩

theorem printTyArgsC_startsDelim (ts : Tys) (r : List Char) (hr : StartsFollow r) :
    StartsDelim (printTyArgsC ts ++ r) := by
  cases ts with
  | nil => simpa [printTyArgsC] using hr.startsDelim
  | cons t rest => exact .inr ⟨'[', (printTyC t ++ printTysTailC rest) ++ r, by simp [printTyArgsC], by decide⟩

private theorem i64_noDelim : ∀ c ∈ ['i', '6', '4'], isDelim c = false := by decide

mutual
  /-- printing is injective, even followed by arbitrary continuations that start with `,` / `]` -/
  theorem printTyC_inj_aux : ∀ (t u : Ty) (r1 r2 : List Char), tyNamesOk t = true →
      tyNamesOk u = true → StartsFollow r1 → StartsFollow r2 →
      printTyC t ++ r1 = printTyC u ++ r2 → t = u ∧ r1 = r2
    | .i64, .i64, r1, r2, _, _, _, _, h => by
      simp only [printTyC, List.cons_append, List.nil_append, List.cons.injEq, true_and] at h
      exact ⟨rfl, h⟩
    | .i64, .decl n args, r1, r2, _, hu, s1, s2, h => by
      exfalso
      simp only [tyNamesOk, Bool.and_eq_true] at hu
      simp only [printTyC, List.append_assoc] at h
      have := name_split_unique ['i', '6', '4'] n.toList r1 (printTyArgsC args ++ r2) i64_noDelim
        (nameOk_noDelim hu.1) s1.startsDelim (printTyArgsC_startsDelim _ _ s2) h
      exact nameOk_ne_i64 hu.1 this.1.symm
    | .decl n args, .i64, r1, r2, ht, _, s1, s2, h => by
      exfalso
      simp only [tyNamesOk, Bool.and_eq_true] at ht
      simp only [printTyC, List.append_assoc] at h
      have := name_split_unique n.toList ['i', '6', '4'] (printTyArgsC args ++ r1) r2
        (nameOk_noDelim ht.1) i64_noDelim (printTyArgsC_startsDelim _ _ s1) s2.startsDelim h
      exact nameOk_ne_i64 ht.1 this.1
    | .decl n args, .decl m args', r1, r2, ht, hu, s1, s2, h => by
      simp only [tyNamesOk, Bool.and_eq_true] at ht hu
      simp only [printTyC, List.append_assoc] at h
      have h1 := name_split_unique n.toList m.toList (printTyArgsC args ++ r1) (printTyArgsC args' ++ r2)
        (nameOk_noDelim ht.1) (nameOk_noDelim hu.1) (printTyArgsC_startsDelim _ _ s1)
        (printTyArgsC_startsDelim _ _ s2) h
      have h2 := printTyArgsC_inj_aux args args' r1 r2 ht.2 hu.2 s1 s2 h1.2
      have hn : n = m := String.toList_inj.mp h1.1
      exact ⟨by rw [hn, h2.1], h2.2⟩
  theorem printTyArgsC_inj_aux : ∀ (a b : Tys) (r1 r2 : List Char), tysNamesOk a = true →
      tysNamesOk b = true → StartsFollow r1 → StartsFollow r2 →
      printTyArgsC a ++ r1 = printTyArgsC b ++ r2 → a = b ∧ r1 = r2
    | .nil, .nil, _, _, _, _, _, _, h => by simpa [printTyArgsC] using h
    | .nil, .cons t r, r1, r2, _, _, s1, _, h => by
      exfalso
      simp only [printTyArgsC, List.nil_append, List.cons_append] at h
      rcases s1 with rfl | ⟨c, cs, rfl, hc⟩
      · simp at h
      · simp only [List.cons.injEq] at h
        rcases hc with rfl | rfl <;> simp at h
    | .cons t r, .nil, r1, r2, _, _, _, s2, h => by
      exfalso
      simp only [printTyArgsC, List.nil_append, List.cons_append] at h
      rcases s2 with rfl | ⟨c, cs, rfl, hc⟩
      · simp at h
      · simp only [List.cons.injEq] at h
        rcases hc with rfl | rfl <;> simp at h
    | .cons t r, .cons u s, r1, r2, ha, hb, _, _, h => by
      simp only [tysNamesOk, Bool.and_eq_true] at ha hb
      simp only [printTyArgsC, List.cons_append, List.cons.injEq, true_and, List.append_assoc] at h
      have h1 := printTyC_inj_aux t u (printTysTailC r ++ r1) (printTysTailC s ++ r2) ha.1 hb.1
        (printTysTailC_startsFollow _ _) (printTysTailC_startsFollow _ _) h
      have h2 := printTysTailC_inj_aux r s r1 r2 ha.2 hb.2 h1.2
      exact ⟨by rw [h1.1, h2.1], h2.2⟩
  theorem printTysTailC_inj_aux : ∀ (a b : Tys) (r1 r2 : List Char), tysNamesOk a = true →
      tysNamesOk b = true → printTysTailC a ++ r1 = printTysTailC b ++ r2 → a = b ∧ r1 = r2
    | .nil, .nil, _, _, _, _, h => by simpa [printTysTailC] using h
    | .nil, .cons t r, _, _, _, _, h => by simp [printTysTailC] at h
    | .cons t r, .nil, _, _, _, _, h => by simp [printTysTailC] at h
    | .cons t r, .cons u s, r1, r2, ha, hb, h => by
      simp only [tysNamesOk, Bool.and_eq_true] at ha hb
      simp only [printTysTailC, List.cons_append, List.cons.injEq, true_and, List.append_assoc] at h
      have h1 := printTyC_inj_aux t u (printTysTailC r ++ r1) (printTysTailC s ++ r2) ha.1 hb.1
        (printTysTailC_startsFollow _ _) (printTysTailC_startsFollow _ _) h
      have h2 := printTysTailC_inj_aux r s r1 r2 ha.2 hb.2 h1.2
      exact ⟨by rw [h1.1, h2.1], h2.2⟩
end

theorem printTyC_inj {t u : Ty} (ht : tyNamesOk t = true) (hu : tyNamesOk u = true)
    (h : printTyC t = printTyC u) : t = u := by
  have := printTyC_inj_aux t u [] [] ht hu (.inl rfl) (.inl rfl) (by simpa using h)
  exact this.1

theorem printTy_inj {t u : Ty} (ht : tyNamesOk t = true) (hu : tyNamesOk u = true)
    (h : printTy t = printTy u) : t = u :=
  printTyC_inj ht hu (String.ofList_inj.mp h)

theorem printTyArgs_inj {a b : Tys} (ha : tysNamesOk a = true) (hb : tysNamesOk b = true)
    (h : printTyArgs a = printTyArgs b) : a = b := by
  have h' : printTyArgsC a = printTyArgsC b := String.ofList_inj.mp h
  exact (printTyArgsC_inj_aux a b [] [] ha hb (.inl rfl) (.inl rfl) (by simpa using h')).1

/-- instance names (`Cons[i64]`, `List[i64]`) determine the base name and the type arguments -/
theorem instName_inj {x y : String} {a b : Tys} (hx : nameOk x = true) (hy : nameOk y = true)
    (ha : tysNamesOk a = true) (hb : tysNamesOk b = true) (h : instName x a = instName y b) :
    x = y ∧ a = b := by
  have h' : x.toList ++ printTyArgsC a = y.toList ++ printTyArgsC b := by
    have := congrArg String.toList h
    simpa [instName, printTyArgs, String.toList_append, String.toList_ofList] using this
  have h1 := name_split_unique x.toList y.toList (printTyArgsC a) (printTyArgsC b)
    (nameOk_noDelim hx) (nameOk_noDelim hy)
    (by simpa using printTyArgsC_startsDelim a [] (.inl rfl))
    (by simpa using printTyArgsC_startsDelim b [] (.inl rfl)) h'
  have h2 := printTyArgsC_inj_aux a b [] [] ha hb (.inl rfl) (.inl rfl) (by simpa using h1.2)
  exact ⟨String.toList_inj.mp h1.1, h2.1⟩

end Scc.Fun.Check
