/-
  Scc.Fun.Parse — model of the Fun parser (`fun::parser::parse_module`).

  Source: /repo/lang/fun/src/parser/fun.lalrpop (LALR(1), lalrpop 0.20.2), parser/{mod,result}.rs.
  The grammar is conflict-free, hence unambiguous; this file is a total recursive-descent parser for
  the same language that builds the same trees (`Scc.Fun.Program`, spans dropped).  It has the
  correct-prefix property (it fails at the first token after which the input read so far is no
  viable prefix), which is what an LR parser reports:
    * P-001 `InvalidToken`      the failing "token" is the lexer error (`Token.bad`),
    * P-002 `UnrecognizedEof`   the input ended,
    * P-003 `UnrecognizedToken` otherwise.
  (P-004 `ExtraToken` is never produced by a lalrpop parser without error recovery; P-005 `User` is
  the code a repaired literal action would return.)

  The ONE panic site of the real parser: `Num: i64::from_str(s).unwrap()`.  The action runs when the
  LALR automaton reduces `Num -> NUM`, i.e. when the token after the literal is in the (merged)
  look-ahead set of that state; this set was read off the real parser (`numFollow`).  If the next
  token is not in the set the parser reports P-003/P-002 without running the action, and if the
  lexer fails on the next token it reports P-001.  `LiteralMode` selects what an out-of-range
  literal does at that point: `panicOnOverflow` (the code as it is) or `diagOnOverflow` (repaired
  code: `ParseError::User`, P-005).

  Fuel: all mutually recursive functions recurse structurally on a fuel argument; `fuelFor` tokens
  is always enough (each nesting level is entered by consuming a token); running out of fuel is
  reported as the distinct outcome `Outcome.diag .fuel`, never confused with a real diagnostic.
  Core imports only; executable.
-/
import Scc.Fun.Lex

namespace Scc.Fun.Parse
open Scc.Fun.Lex

inductive LiteralMode where
  | panicOnOverflow | diagOnOverflow
  deriving DecidableEq, Repr

inductive DiagCode where
  | p001 | p002 | p003 | p004 | p005
  | fuel   -- model artefact (unreachable with `fuelFor`), not a code of the real parser
  deriving DecidableEq, Repr

def DiagCode.show : DiagCode → String
  | .p001 => "P-001" | .p002 => "P-002" | .p003 => "P-003" | .p004 => "P-004" | .p005 => "P-005"
  | .fuel => "FUEL"

/-- panic sites of the parser -/
inductive PanicSite where
  | literal   -- fun.lalrpop `Num: i64::from_str(s).unwrap()`
  deriving DecidableEq, Repr

inductive Outcome (α : Type) where
  | ok (a : α)
  | diag (code : DiagCode)
  | panic (site : PanicSite)
  deriving Repr

def Outcome.isPanic {α : Type} : Outcome α → Bool
  | .panic _ => true
  | _ => false

def Outcome.isOk {α : Type} : Outcome α → Bool
  | .ok _ => true
  | _ => false

/-- `o.bind f` -/
@[inline] def Outcome.bind {α β : Type} (o : Outcome α) (f : α → Outcome β) : Outcome β :=
  match o with
  | .ok a => f a
  | .diag c => .diag c
  | .panic s => .panic s

/-- the parse error raised when the next token (head of `ts`) cannot be shifted -/
def failAt {α : Type} (ts : List Token) : Outcome α :=
  match ts with
  | [] => .diag .p002
  | .bad :: _ => .diag .p001
  | _ :: _ => .diag .p003

/-- consume exactly the token `t` -/
def expect (t : Token) (ts : List Token) : Outcome (List Token) :=
  match ts with
  | t' :: r => if t' = t then .ok r else failAt ts
  | [] => failAt ts

/-! ## literals -/

def digitVal (c : Char) : Nat := c.toNat - 48

/-- value of a digit string (`i64::from_str` on `[0-9]+` before the range check) -/
def digitsToNat (ds : List Char) : Nat := ds.foldl (fun acc c => 10 * acc + digitVal c) 0

def i64Max : Nat := 9223372036854775807

/-- Look-ahead set of the LALR state `Num -> NUM .` (all occurrences of `Num` share one state):
everything that can follow a `Term1` somewhere in the grammar. -/
def numFollow : Token → Bool
  | .rparen | .comma | .rbrace | .lbrace | .semi | .dot => true
  | .cmp _ | .zcmpL _ => true
  | .plus | .minus | .star | .slash | .percent => true
  | _ => false

/-- `Num` (+ the negation of `Lit`): `i64::from_str(s).unwrap()`, then `-n` for the second
alternative of `Lit`.  `rest` is the input after the digits. -/
def parseNum (mode : LiteralMode) (neg : Bool) (ds : List Char) (rest : List Token) : Outcome Int :=
  match rest with
  | [] => failAt rest
  | t :: _ =>
    if numFollow t then
      let n := digitsToNat ds
      if n ≤ i64Max then .ok (if neg then -(Int.ofNat n) else Int.ofNat n)
      else match mode with
        | .panicOnOverflow => .panic .literal
        | .diagOnOverflow => .diag .p005
    else failAt rest

/-! ## types, contexts (no terms inside) -/

mutual
  /-- `Ty` -/
  def parseTy : Nat → List Token → Outcome (Ty × List Token)
    | 0, _ => .diag .fuel
    | fuel + 1, ts =>
      match ts with
      | .kw .i64 :: r => .ok (.i64, r)
      | .upper n :: .lbrack :: r =>
        (parseTys fuel r).bind fun (as, r') => .ok (.decl (String.ofList n) as, r')
      | .upper n :: r => .ok (.decl (String.ofList n) .nil, r)
      | _ => failAt ts
  /-- `Comma<Ty> "]"` (after the opening bracket) -/
  def parseTys : Nat → List Token → Outcome (Tys × List Token)
    | 0, _ => .diag .fuel
    | fuel + 1, ts =>
      match ts with
      | .rbrack :: r => .ok (.nil, r)
      | _ =>
        (parseTy fuel ts).bind fun (t, r) =>
          match r with
          | .comma :: r' => (parseTys fuel r').bind fun (as, r'') => .ok (.cons t as, r'')
          | .rbrack :: r' => .ok (.cons t .nil, r')
          | _ => failAt r
end

/-- `OptTypeArgs` -/
def parseOptTyArgs (fuel : Nat) (ts : List Token) : Outcome (Tys × List Token) :=
  match ts with
  | .lbrack :: r => parseTys fuel r
  | _ => .ok (.nil, ts)

/-- `Comma<Name> ")"` (after the opening parenthesis) -/
def parseNames : Nat → List Token → Outcome (List String × List Token)
  | 0, _ => .diag .fuel
  | fuel + 1, ts =>
    match ts with
    | .rparen :: r => .ok ([], r)
    | .lower x :: .comma :: r => (parseNames fuel r).bind fun (xs, r') => .ok (String.ofList x :: xs, r')
    | .lower x :: .rparen :: r => .ok ([String.ofList x], r)
    | .lower _ :: r => failAt r
    | _ => failAt ts

/-- `OptNameContext` -/
def parseOptNames (fuel : Nat) (ts : List Token) : Outcome (List String × List Token) :=
  match ts with
  | .lparen :: r => parseNames fuel r
  | _ => .ok ([], ts)

/-- `Comma<TypeName> "]"` (after the opening bracket) -/
def parseTyNames : Nat → List Token → Outcome (List String × List Token)
  | 0, _ => .diag .fuel
  | fuel + 1, ts =>
    match ts with
    | .rbrack :: r => .ok ([], r)
    | .upper x :: .comma :: r => (parseTyNames fuel r).bind fun (xs, r') => .ok (String.ofList x :: xs, r')
    | .upper x :: .rbrack :: r => .ok ([String.ofList x], r)
    | .upper _ :: r => failAt r
    | _ => failAt ts

/-- `OptTypeContext` -/
def parseOptTyNames (fuel : Nat) (ts : List Token) : Outcome (List String × List Token) :=
  match ts with
  | .lbrack :: r => parseTyNames fuel r
  | _ => .ok ([], ts)

/-- `Binding` -/
def parseBinding (fuel : Nat) (ts : List Token) : Outcome (Binding × List Token) :=
  match ts with
  | .lower x :: .colon :: r => (parseTy fuel r).bind fun (t, r') => .ok (⟨String.ofList x, .prd, t⟩, r')
  | .lower x :: .colonCns :: r => (parseTy fuel r).bind fun (t, r') => .ok (⟨String.ofList x, .cns, t⟩, r')
  | .lower _ :: r => failAt r
  | _ => failAt ts

/-- `Comma<Binding> ")"` (after the opening parenthesis) -/
def parseBindings : Nat → List Token → Outcome (Ctx × List Token)
  | 0, _ => .diag .fuel
  | fuel + 1, ts =>
    match ts with
    | .rparen :: r => .ok ([], r)
    | _ =>
      (parseBinding fuel ts).bind fun (b, r) =>
        match r with
        | .comma :: r' => (parseBindings fuel r').bind fun (bs, r'') => .ok (b :: bs, r'')
        | .rparen :: r' => .ok ([b], r')
        | _ => failAt r

/-- `OptContext` -/
def parseOptCtx (fuel : Nat) (ts : List Token) : Outcome (Ctx × List Token) :=
  match ts with
  | .lparen :: r => parseBindings fuel r
  | _ => .ok ([], ts)

/-! ## terms -/

def binOpOf : Token → Option BinOp
  | .plus => some .sum | .minus => some .sub | .star => some .prod | .slash => some .div
  | .percent => some .rem | _ => none

/-- sort of the mirrored zero comparisons `if 0 c t` (IfZRight, IfNZRight, IfLZRight = `0\s*>`,
IfLEZRight = `0\s*>=`, IfGZRight = `0\s*<`, IfGEZRight = `0\s*<=`) -/
def mirrorSort : IfSort → IfSort
  | .eq => .eq | .ne => .ne | .gt => .lt | .ge => .le | .lt => .gt | .le => .ge

mutual
  /-- `Term1`: `Lit | XVar | Call | Term0` -/
  def parseTerm1 (mode : LiteralMode) : Nat → List Token → Outcome (Term × List Token)
    | 0, _ => .diag .fuel
    | fuel + 1, ts =>
      match ts with
      | .num ds :: r => (parseNum mode false ds r).bind fun n => .ok (.lit n, r)
      | .minus :: .num ds :: r => (parseNum mode true ds r).bind fun n => .ok (.lit n, r)
      | .minus :: r => failAt r
      | .lower x :: .lparen :: r =>
        (parseArgs mode fuel r).bind fun (as, r') => .ok (.call (String.ofList x) as none, r')
      | .lower x :: r => .ok (.var (String.ofList x) none none, r)
      | .lparen :: r =>
        (parseTerm mode fuel true r).bind fun (t, r') =>
          (expect .rparen r').bind fun r'' => .ok (.paren t, r'')
      | _ => failAt ts

  /-- `Comma<Term> ")"` (after the opening parenthesis) -/
  def parseArgs (mode : LiteralMode) : Nat → List Token → Outcome (Terms × List Token)
    | 0, _ => .diag .fuel
    | fuel + 1, ts =>
      match ts with
      | .rparen :: r => .ok (.nil, r)
      | _ =>
        (parseTerm mode fuel true ts).bind fun (t, r) =>
          match r with
          | .comma :: r' => (parseArgs mode fuel r').bind fun (as, r'') => .ok (.cons t as, r'')
          | .rparen :: r' => .ok (.cons t .nil, r')
          | _ => failAt r

  /-- `Comma<Clause> "}"` resp. `Comma<Coclause> "}"` (after the opening brace) -/
  def parseClauses (mode : LiteralMode) (pol : Polarity) : Nat → List Token → Outcome (Clauses × List Token)
    | 0, _ => .diag .fuel
    | fuel + 1, ts =>
      match ts with
      | .rbrace :: r => .ok (.nil, r)
      | t :: r0 =>
        let xtor : Option (List Char) := match pol, t with
          | .data, .upper x => some x
          | .codata, .lower x => some x
          | _, _ => none
        match xtor with
        | none => failAt ts
        | some x =>
          (parseOptNames fuel r0).bind fun (ns, r1) =>
            (expect .fatArrow r1).bind fun r2 =>
              (parseTerm mode fuel true r2).bind fun (b, r3) =>
                match r3 with
                | .comma :: r4 =>
                  (parseClauses mode pol fuel r4).bind fun (cs, r5) =>
                    .ok (.cons pol (String.ofList x) ns [] b cs, r5)
                | .rbrace :: r4 => .ok (.cons pol (String.ofList x) ns [] b .nil, r4)
                | _ => failAt r3
      | [] => failAt ts

  /-- the postfix chain of `Term2`: `t . dtor[..](..)` and `t . case[..] {..}`, left-nested -/
  def parsePostfix (mode : LiteralMode) : Nat → Term → List Token → Outcome (Term × List Token)
    | 0, _, _ => .diag .fuel
    | fuel + 1, t, ts =>
      match ts with
      | .dot :: .kw .case_ :: r =>
        (parseOptTyArgs fuel r).bind fun (tas, r1) =>
          (expect .lbrace r1).bind fun r2 =>
            (parseClauses mode .data fuel r2).bind fun (cs, r3) =>
              parsePostfix mode fuel (.case t tas cs none) r3
      | .dot :: .lower d :: r =>
        (parseOptTyArgs fuel r).bind fun (tas, r1) =>
          match r1 with
          | .lparen :: r2 =>
            (parseArgs mode fuel r2).bind fun (as, r3) =>
              parsePostfix mode fuel (.dtor t (String.ofList d) tas as none) r3
          | _ => parsePostfix mode fuel (.dtor t (String.ofList d) tas .nil none) r1
      | .dot :: r => failAt r
      | _ => .ok (t, ts)

  /-- `"{" Term "}"` -/
  def parseBraced (mode : LiteralMode) : Nat → List Token → Outcome (Term × List Token)
    | 0, _ => .diag .fuel
    | fuel + 1, ts =>
      (expect .lbrace ts).bind fun r =>
        (parseTerm mode fuel true r).bind fun (t, r') =>
          (expect .rbrace r').bind fun r'' => .ok (t, r'')

  /-- `"{" Term "}" "else" "{" Term "}"` -/
  def parseThenElse (mode : LiteralMode) : Nat → List Token → Outcome ((Term × Term) × List Token)
    | 0, _ => .diag .fuel
    | fuel + 1, ts =>
      (parseBraced mode fuel ts).bind fun (t, r) =>
        (expect (.kw .else_) r).bind fun r' =>
          (parseBraced mode fuel r').bind fun (e, r'') => .ok ((t, e), r'')

  /-- `Term` (`allowPrint = true`) resp. `Term3` (`allowPrint = false`) -/
  def parseTerm (mode : LiteralMode) : Nat → Bool → List Token → Outcome (Term × List Token)
    | 0, _, _ => .diag .fuel
    | fuel + 1, allowPrint, ts =>
      match ts with
      -- PrintI64 / PrintLnI64
      | .kw .printI64 :: r =>
        if allowPrint then
          (expect .lparen r).bind fun r1 =>
            (parseTerm mode fuel true r1).bind fun (a, r2) =>
              (expect .rparen r2).bind fun r3 =>
                (expect .semi r3).bind fun r4 =>
                  (parseTerm mode fuel true r4).bind fun (n, r5) => .ok (.print false a n none, r5)
        else failAt ts
      | .kw .printlnI64 :: r =>
        if allowPrint then
          (expect .lparen r).bind fun r1 =>
            (parseTerm mode fuel true r1).bind fun (a, r2) =>
              (expect .rparen r2).bind fun r3 =>
                (expect .semi r3).bind fun r4 =>
                  (parseTerm mode fuel true r4).bind fun (n, r5) => .ok (.print true a n none, r5)
        else failAt ts
      -- the 6 right-zero forms  `if 0 c Term {..} else {..}`
      | .kw .if_ :: .zcmpR c :: r =>
        (parseTerm mode fuel true r).bind fun (t, r1) =>
          (parseThenElse mode fuel r1).bind fun ((th, el), r2) =>
            .ok (.ifz (mirrorSort c) t th el none, r2)
      -- the 6 binary forms and the 6 left-zero forms
      | .kw .if_ :: r =>
        (parseTerm mode fuel true r).bind fun (a, r1) =>
          match r1 with
          | .cmp c :: r2 =>
            (parseTerm mode fuel true r2).bind fun (b, r3) =>
              (parseThenElse mode fuel r3).bind fun ((th, el), r4) =>
                .ok (.ifc c a b th el none, r4)
          | .zcmpL c :: r2 =>
            (parseThenElse mode fuel r2).bind fun ((th, el), r3) =>
              .ok (.ifz c a th el none, r3)
          | _ => failAt r1
      -- Label
      | .kw .label :: .lower a :: r =>
        (parseBraced mode fuel r).bind fun (t, r') => .ok (.label (String.ofList a) t none, r')
      | .kw .label :: r => failAt r
      -- Goto
      | .kw .goto :: .lower a :: .lparen :: r =>
        (parseTerm mode fuel true r).bind fun (t, r') =>
          (expect .rparen r').bind fun r'' => .ok (.goto (String.ofList a) t none, r'')
      | .kw .goto :: .lower _ :: r => failAt r
      | .kw .goto :: r => failAt r
      -- Exit
      | .kw .exit :: r =>
        (parseTerm mode fuel true r).bind fun (t, r') => .ok (.exit t none, r')
      -- Let
      | .kw .let_ :: .lower x :: .colon :: r =>
        (parseTy fuel r).bind fun (ty, r1) =>
          (expect .assign r1).bind fun r2 =>
            (parseTerm mode fuel false r2).bind fun (b, r3) =>
              (expect .semi r3).bind fun r4 =>
                (parseTerm mode fuel true r4).bind fun (i, r5) =>
                  .ok (.letIn (String.ofList x) ty b i none, r5)
      | .kw .let_ :: .lower _ :: r => failAt r
      | .kw .let_ :: r => failAt r
      -- Term2 starting with New / Constructor
      | .kw .new_ :: r =>
        (expect .lbrace r).bind fun r1 =>
          (parseClauses mode .codata fuel r1).bind fun (cs, r2) =>
            parsePostfix mode fuel (.new cs none) r2
      | .upper k :: .lparen :: r =>
        (parseArgs mode fuel r).bind fun (as, r1) =>
          parsePostfix mode fuel (.ctor (String.ofList k) as none) r1
      | .upper k :: r => parsePostfix mode fuel (.ctor (String.ofList k) .nil none) r
      -- Term1, then either `BinOp Term1` (Op, a Term3) or the postfix chain (Term2)
      | _ =>
        (parseTerm1 mode fuel ts).bind fun (a, r) =>
          match r with
          | [] => .ok (a, r)
          | t :: r1 =>
            match binOpOf t with
            | some o => (parseTerm1 mode fuel r1).bind fun (b, r2) => .ok (.op a o b, r2)
            | none => parsePostfix mode fuel a r
end

/-! ## declarations -/

/-- `Comma<Ctor> "}"` (after the opening brace) -/
def parseCtorSigs : Nat → List Token → Outcome (List CtorSig × List Token)
  | 0, _ => .diag .fuel
  | fuel + 1, ts =>
    match ts with
    | .rbrace :: r => .ok ([], r)
    | .upper k :: r0 =>
      (parseOptCtx fuel r0).bind fun (c, r) =>
        match r with
        | .comma :: r' => (parseCtorSigs fuel r').bind fun (cs, r'') => .ok (⟨String.ofList k, c⟩ :: cs, r'')
        | .rbrace :: r' => .ok ([⟨String.ofList k, c⟩], r')
        | _ => failAt r
    | _ => failAt ts

/-- `Comma<Dtor> "}"` (after the opening brace) -/
def parseDtorSigs : Nat → List Token → Outcome (List DtorSig × List Token)
  | 0, _ => .diag .fuel
  | fuel + 1, ts =>
    match ts with
    | .rbrace :: r => .ok ([], r)
    | .lower d :: r0 =>
      (parseOptCtx fuel r0).bind fun (c, r1) =>
        (expect .colon r1).bind fun r2 =>
          (parseTy fuel r2).bind fun (ty, r) =>
            match r with
            | .comma :: r' =>
              (parseDtorSigs fuel r').bind fun (ds, r'') => .ok (⟨String.ofList d, c, ty⟩ :: ds, r'')
            | .rbrace :: r' => .ok ([⟨String.ofList d, c, ty⟩], r')
            | _ => failAt r
    | _ => failAt ts

/-- `Declaration` -/
def parseDecl (mode : LiteralMode) (fuel : Nat) (ts : List Token) : Outcome (Decl × List Token) :=
  match ts with
  | .kw .def_ :: .lower f :: r =>
    (parseOptCtx fuel r).bind fun (c, r1) =>
      (expect .colon r1).bind fun r2 =>
        (parseTy fuel r2).bind fun (ty, r3) =>
          (parseBraced mode fuel r3).bind fun (b, r4) => .ok (.defn ⟨String.ofList f, c, ty, b⟩, r4)
  | .kw .def_ :: r => failAt r
  | .kw .data :: .upper n :: r =>
    (parseOptTyNames fuel r).bind fun (ps, r1) =>
      (expect .lbrace r1).bind fun r2 =>
        (parseCtorSigs fuel r2).bind fun (cs, r3) => .ok (.data ⟨String.ofList n, ps, cs⟩, r3)
  | .kw .data :: r => failAt r
  | .kw .codata :: .upper n :: r =>
    (parseOptTyNames fuel r).bind fun (ps, r1) =>
      (expect .lbrace r1).bind fun r2 =>
        (parseDtorSigs fuel r2).bind fun (ds, r3) => .ok (.codata ⟨String.ofList n, ps, ds⟩, r3)
  | .kw .codata :: r => failAt r
  | _ => failAt ts

/-- `Prog: Declaration*` -/
def parseDecls (mode : LiteralMode) (fuel : Nat) : Nat → List Token → Outcome (List Decl)
  | _, [] => .ok []
  | 0, _ :: _ => .diag .fuel
  | n + 1, ts =>
    (parseDecl mode fuel ts).bind fun (d, r) =>
      (parseDecls mode fuel n r).bind fun ds => .ok (d :: ds)

/-- fuel that suffices for `n` tokens -/
def fuelFor (n : Nat) : Nat := 4 * n + 8

/-- the parser on a token stream (`Token.bad` marks a lexer error) -/
def parseTokens (mode : LiteralMode) (ts : List Token) : Outcome Program :=
  (parseDecls mode (fuelFor ts.length) (ts.length + 1) ts).bind fun ds => .ok ⟨ds⟩

/-- parser/mod.rs: fn parse_module (on the characters of the source text) -/
def parseChars (mode : LiteralMode) (cs : List Char) : Outcome Program :=
  parseTokens mode (lexStream cs)

def parse (mode : LiteralMode) (src : String) : Outcome Program := parseChars mode src.toList

/-- driver entry: `OK <S0 dump>` | `DIAG P-00x` | `PANIC literal` (the code as it is) -/
def runLineParse (src : String) : String :=
  match parse .panicOnOverflow src with
  | .ok p => "OK " ++ p.toSexp.render
  | .diag c => "DIAG " ++ c.show
  | .panic .literal => "PANIC literal"

def runLineParseFixed (src : String) : String :=
  match parse .diagOnOverflow src with
  | .ok p => "OK " ++ p.toSexp.render
  | .diag c => "DIAG " ++ c.show
  | .panic .literal => "PANIC literal"

end Scc.Fun.Parse
