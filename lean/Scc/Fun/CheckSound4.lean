/-
  Scc.Fun.CheckSound4 — soundness of the checker model, part 4: terms.
  `checkTerm t st Γ τ = ok (t', st')` (with a consistent table, identifier-like names) implies
  `HasType p Γ t τ` and `Erases t' t`, and the table stays consistent.
-/
import Scc.Fun.CheckSound3

namespace Scc.Fun.Check
open Scc.Fun.Typing

/-! ## small facts -/

theorem removeAllFuel_instName : ∀ (n pat : List Char) (fuel : Nat) (ps : List Char),
    pat = '[' :: ps → (∀ c ∈ n, isDelim c = false) → (n ++ pat).length ≤ fuel →
    removeAllFuel fuel (n ++ pat) pat = n
  | [], pat, fuel, ps, hpat, _, hf => by
    subst hpat
    cases fuel with
    | zero => simp at hf
    | succ f =>
      have hd : ∀ (l : List Char), dropPrefix? l l = some [] := by
        intro l; induction l with
        | nil => rfl
        | cons c l ih => simp [dropPrefix?, ih]
      simp only [List.nil_append, removeAllFuel, hd]
      cases f <;> simp [removeAllFuel]
  | c :: n, pat, fuel, ps, hpat, hn, hf => by
    subst hpat
    cases fuel with
    | zero => simp at hf
    | succ f =>
      have hc : c ≠ '[' := by
        intro h; have := hn c (by simp); rw [h] at this; revert this; decide
      simp only [List.cons_append, removeAllFuel, dropPrefix?, hc, if_false]
      rw [removeAllFuel_instName n _ f ps rfl (fun x hx => hn x (by simp [hx]))
        (by simp only [List.cons_append, List.length_cons] at hf; omega)]

theorem printTyArgsC_nil_or_bracket (a : Tys) :
    printTyArgsC a = [] ∨ ∃ ps, printTyArgsC a = '[' :: ps := by
  cases a with
  | nil => exact .inl rfl
  | cons t r => exact .inr ⟨_, rfl⟩

/-- `name.replace(&type_args.print_to_string(None), "")` gives back the template name -/
theorem removeAll_instName {n : String} (a : Tys) (hn : nameOk n = true) :
    removeAll (instName n a) (printTyArgs a) = n := by
  unfold removeAll
  rcases printTyArgsC_nil_or_bracket a with h | ⟨ps, h⟩
  · have : printTyArgs a = "" := by simp [printTyArgs, h]
    simp [this, instName]
  · have h1 : (printTyArgs a).toList = '[' :: ps := by simp [printTyArgs, h]
    have h2 : (instName n a).toList = n.toList ++ '[' :: ps := by
      simp [instName, String.toList_append, h1]
    rw [h1, h2]
    simp only [List.isEmpty_cons, Bool.false_eq_true, if_false]
    rw [removeAllFuel_instName n.toList _ _ ps rfl (nameOk_noDelim hn) (Nat.le_refl _)]
    exact String.ofList_toList

theorem lookupTyForXtor_ok {pol : Polarity} : ∀ (types : AList (Polarity × Tys × List String))
    (xtor : String) (r : Ty × List String), lookupTyForXtor pol types xtor = some r →
    ∃ key ta xs x, (key, (pol, ta, xs)) ∈ types ∧ x ∈ xs ∧ instName x ta = xtor ∧
      r = (.decl (removeAll key (printTyArgs ta)) ta, xs)
  | [], _, _, h => by simp [lookupTyForXtor] at h
  | (name, (p', tyArgs, xtors)) :: rest, xtor, r, h => by
    simp only [lookupTyForXtor] at h
    split at h
    · rename_i hc
      cases h
      simp only [Bool.and_eq_true, List.any_eq_true, decide_eq_true_eq] at hc
      obtain ⟨hp, x, hx, hxe⟩ := hc
      have hp' : p' = pol := by
        cases p' <;> cases pol <;> first | rfl | (revert hp; decide)
      subst hp'
      exact ⟨name, tyArgs, xtors, x, by simp, hx, hxe, rfl⟩
    · obtain ⟨key, ta, xs, x, hm, hx, hxe, hr⟩ := lookupTyForXtor_ok rest xtor r h
      exact ⟨key, ta, xs, x, by simp [hm], hx, hxe, hr⟩

theorem findTemplateForXtor_ok {pol : Polarity} :
    ∀ (tmpl : AList (Polarity × List String × List String)) (xtor name : String) (xs : List String),
    findTemplateForXtor pol tmpl xtor = some (name, xs) →
    ∃ params, (name, (pol, params, xs)) ∈ tmpl ∧ xtor ∈ xs
  | [], _, _, _, h => by simp [findTemplateForXtor] at h
  | (n, (p', params, xtors)) :: rest, xtor, name, xs, h => by
    simp only [findTemplateForXtor] at h
    split at h
    · rename_i hc
      cases h
      simp only [Bool.and_eq_true, List.contains_iff_mem] at hc
      have hp' : p' = pol := by
        cases p' <;> cases pol <;> first | rfl | (have := hc.1; revert this; decide)
      subst hp'
      exact ⟨params, by simp, hc.2⟩
    · obtain ⟨params, hm, hx⟩ := findTemplateForXtor_ok rest xtor name xs h
      exact ⟨params, by simp [hm], hx⟩

theorem toList_ofList_clauses : ∀ (l : List Clause), (Clauses.ofList l).toList = l
  | [] => rfl
  | c :: r => by simp [Clauses.ofList, Clauses.toList, toList_ofList_clauses r]

theorem ofList_toList_clauses : ∀ (cs : Clauses), Clauses.ofList cs.toList = cs
  | .nil => rfl
  | .cons p x ns c b r => by simp [Clauses.ofList, Clauses.toList, ofList_toList_clauses r]

/-! ## equality and annotations -/

theorem checkEquality_sound {p : Program} (ok : DeclsOk p) (hp : programNamesOk p = true)
    {st st' : SymbolTable} {e g : Ty} (inv : Inv p st) (he : tyNamesOk e = true)
    (h : checkEquality st e g = .ok st') :
    Inv p st' ∧ Ext st st' ∧ e = g ∧ WfTy p e ∧ InstIn st' e := by
  obtain ⟨st1, h1, h2, rfl⟩ := checkEquality_ok h
  obtain ⟨inv1, ext1, wf, _⟩ := checkTy_sound ok hp e st st1 inv he h1
  obtain ⟨inv2, ext2, _, hin⟩ := checkTy_sound ok hp e st1 st' inv1 he h2
  exact ⟨inv2, ext1.trans ext2, rfl, wf, hin⟩

theorem checkAnnot_sound {p : Program} (ok : DeclsOk p) (hp : programNamesOk p = true)
    {st st' : SymbolTable} {ty : Option Ty} {found : Ty} (inv : Inv p st)
    (hty : ∀ t, ty = some t → tyNamesOk t = true) (h : checkAnnot st ty found = .ok st') :
    Inv p st' ∧ Ext st st' ∧ ∀ t, ty = some t → t = found := by
  rcases checkAnnot_ok h with ⟨rfl, rfl⟩ | ⟨t, rfl, h⟩
  · exact ⟨inv, Ext.refl _, by simp⟩
  · obtain ⟨inv1, ext1, heq, _, _⟩ := checkEquality_sound ok hp inv (hty t rfl) h
    exact ⟨inv1, ext1, by intro t' ht'; cases ht'; exact heq⟩

theorem not_beq_some_cns {chi : Option Chi} (h : ¬ (chi == some Chi.cns) = true) :
    chi ≠ some .cns := by
  intro hc; subst hc; exact h (by decide)

theorem not_beq_some_prd {chi : Option Chi} (h : ¬ (chi == some Chi.prd) = true) :
    chi ≠ some .prd := by
  intro hc; subst hc; exact h (by decide)

/-! ## resolving the type of a destructor call / a case from the xtor name -/

theorem resolveXtorTy_codata_sound {p : Program} (ok : DeclsOk p) (hp : programNamesOk p = true)
    {st st1 : SymbolTable} {id : String} {tyArgs : Tys} {ty : Ty} {xs : List String}
    (inv : Inv p st) (hid : nameOk id = true) (hta : tysNamesOk tyArgs = true)
    (h : resolveXtorTy .codata st id tyArgs = .ok ((ty, xs), st1)) :
    Inv p st1 ∧ Ext st st1 ∧ ∃ d ∈ codatas p, ∃ s ∈ d.dtors, s.name = id ∧
      ty = .decl d.name tyArgs ∧ xs = d.dtors.map (·.name) ∧ WfTy p ty ∧
      (instName d.name tyArgs, (Polarity.codata, tyArgs, xs)) ∈ st1.types := by
  rcases resolveXtorTy_ok h with ⟨hl, rfl⟩ | ⟨_, name, xs', hf, hc, hr⟩
  · obtain ⟨key, ta, xs', x, hm, hx, hxe, hr⟩ := lookupTyForXtor_ok _ _ _ hl
    cases hr
    obtain ⟨g1, g2, g3⟩ := inv.types _ _ _ _ hm
    rcases g3 with ⟨hpol, _⟩ | ⟨_, d, hd, rfl, rfl, hlen, _⟩
    · cases hpol
    · obtain ⟨s, hs, rfl⟩ := List.mem_map.mp hx
      obtain ⟨rfl, rfl⟩ := instName_inj ((codata_namesOk hp hd).2 s hs).1 hid g1 hta hxe
      rw [removeAll_instName _ (codata_namesOk hp hd).1]
      exact ⟨inv, Ext.refl _, d, hd, s, hs, rfl, rfl, rfl, .codata d _ hd hlen g2, hm⟩
  · cases hr
    obtain ⟨params, hm, hx⟩ := findTemplateForXtor_ok _ _ _ _ hf
    rcases inv.tmpl _ _ _ _ hm with ⟨hpol, _⟩ | ⟨_, d, hd, rfl, rfl, rfl⟩
    · cases hpol
    · obtain ⟨s, hs, rfl⟩ := List.mem_map.mp hx
      have hgood : tyNamesOk (.decl d.name tyArgs) = true := by
        simp [tyNamesOk, (codata_namesOk hp hd).1, hta]
      obtain ⟨inv1, ext1, wf, pol', xs'', hin⟩ := checkTy_sound ok hp _ st st1 inv hgood hc
      refine ⟨inv1, ext1, d, hd, s, hs, rfl, rfl, rfl, wf, ?_⟩
      obtain ⟨g1, _, g3⟩ := inv1.types _ _ _ _ hin
      rcases g3 with ⟨rfl, d', hd', hk, _⟩ | ⟨rfl, d', hd', hk, rfl, _⟩
      · obtain ⟨hn, _⟩ := instName_inj (codata_namesOk hp hd).1 (data_namesOk hp hd').1 hta hta hk
        exact absurd hn.symm (data_codata_disjoint ok hd' hd)
      · obtain ⟨hn, _⟩ := instName_inj (codata_namesOk hp hd).1 (codata_namesOk hp hd').1 hta hta hk
        cases codata_unique ok hd hd' hn
        exact hin

theorem resolveXtorTy_data_sound {p : Program} (ok : DeclsOk p) (hp : programNamesOk p = true)
    {st st1 : SymbolTable} {id : String} {tyArgs : Tys} {ty : Ty} {xs : List String}
    (inv : Inv p st) (hid : nameOk id = true) (hta : tysNamesOk tyArgs = true)
    (h : resolveXtorTy .data st id tyArgs = .ok ((ty, xs), st1)) :
    Inv p st1 ∧ Ext st st1 ∧ ∃ d ∈ datas p, ∃ s ∈ d.ctors, s.name = id ∧
      ty = .decl d.name tyArgs ∧ xs = d.ctors.map (·.name) ∧ WfTy p ty ∧
      (instName d.name tyArgs, (Polarity.data, tyArgs, xs)) ∈ st1.types := by
  rcases resolveXtorTy_ok h with ⟨hl, rfl⟩ | ⟨_, name, xs', hf, hc, hr⟩
  · obtain ⟨key, ta, xs', x, hm, hx, hxe, hr⟩ := lookupTyForXtor_ok _ _ _ hl
    cases hr
    obtain ⟨g1, g2, g3⟩ := inv.types _ _ _ _ hm
    rcases g3 with ⟨_, d, hd, rfl, rfl, hlen, _⟩ | ⟨hpol, _⟩
    · obtain ⟨s, hs, rfl⟩ := List.mem_map.mp hx
      obtain ⟨rfl, rfl⟩ := instName_inj ((data_namesOk hp hd).2 s hs).1 hid g1 hta hxe
      rw [removeAll_instName _ (data_namesOk hp hd).1]
      exact ⟨inv, Ext.refl _, d, hd, s, hs, rfl, rfl, rfl, .data d _ hd hlen g2, hm⟩
    · cases hpol
  · cases hr
    obtain ⟨params, hm, hx⟩ := findTemplateForXtor_ok _ _ _ _ hf
    rcases inv.tmpl _ _ _ _ hm with ⟨_, d, hd, rfl, rfl, rfl⟩ | ⟨hpol, _⟩
    · obtain ⟨s, hs, rfl⟩ := List.mem_map.mp hx
      have hgood : tyNamesOk (.decl d.name tyArgs) = true := by
        simp [tyNamesOk, (data_namesOk hp hd).1, hta]
      obtain ⟨inv1, ext1, wf, pol', xs'', hin⟩ := checkTy_sound ok hp _ st st1 inv hgood hc
      refine ⟨inv1, ext1, d, hd, s, hs, rfl, rfl, rfl, wf, ?_⟩
      obtain ⟨g1, _, g3⟩ := inv1.types _ _ _ _ hin
      rcases g3 with ⟨rfl, d', hd', hk, rfl, _⟩ | ⟨rfl, d', hd', hk, _⟩
      · obtain ⟨hn, _⟩ := instName_inj (data_namesOk hp hd).1 (data_namesOk hp hd').1 hta hta hk
        cases data_unique ok hd hd' hn
        exact hin
      · obtain ⟨hn, _⟩ := instName_inj (data_namesOk hp hd).1 (codata_namesOk hp hd').1 hta hta hk
        exact absurd hn (data_codata_disjoint ok hd hd')
    · cases hpol

end Scc.Fun.Check
