/-
  Scc.Fun.CheckSound2 — soundness of the checker model, part 2: the symbol-table invariant `Inv`
  (every instance in the table is the substitution instance of a declaration of the program),
  its preservation by `create_instance`, and soundness of `checkTy`.
-/
import Scc.Fun.CheckSound1

namespace Scc.Fun.Check
open Scc.Fun.Typing

/-! ## list facts -/

theorem filterMap_nodup_inj {α β : Type} {f : α → Option β} : ∀ {l : List α} {a b : α} {x : β},
    (l.filterMap f).Nodup → a ∈ l → b ∈ l → f a = some x → f b = some x → a = b
  | [], _, _, _, _, ha, _, _, _ => by cases ha
  | c :: l, a, b, x, hn, ha, hb, fa, fb => by
    rcases List.mem_cons.mp ha with rfl | ha' <;> rcases List.mem_cons.mp hb with rfl | hb'
    · rfl
    · exfalso
      simp only [List.filterMap_cons, fa, List.nodup_cons] at hn
      exact hn.1 (List.mem_filterMap.mpr ⟨b, hb', fb⟩)
    · exfalso
      simp only [List.filterMap_cons, fb, List.nodup_cons] at hn
      exact hn.1 (List.mem_filterMap.mpr ⟨a, ha', fa⟩)
    · have hn' : (l.filterMap f).Nodup := by
        simp only [List.filterMap_cons] at hn
        split at hn
        · exact hn
        · exact (List.nodup_cons.mp hn).2
      exact filterMap_nodup_inj hn' ha' hb' fa fb

theorem map_nodup_inj {α β : Type} {f : α → β} : ∀ {l : List α} {a b : α},
    (l.map f).Nodup → a ∈ l → b ∈ l → f a = f b → a = b
  | [], _, _, _, ha, _, _ => by cases ha
  | c :: l, a, b, hn, ha, hb, hab => by
    simp only [List.map_cons, List.nodup_cons] at hn
    rcases List.mem_cons.mp ha with rfl | ha' <;> rcases List.mem_cons.mp hb with rfl | hb'
    · rfl
    · exact absurd (List.mem_map.mpr ⟨b, hb', hab.symm⟩) hn.1
    · exact absurd (List.mem_map.mpr ⟨a, ha', hab⟩) hn.1
    · exact map_nodup_inj hn.2 ha' hb' hab

theorem flatMap_nodup_inner {α β : Type} {f : α → List β} : ∀ {l : List α} {a : α},
    (l.flatMap f).Nodup → a ∈ l → (f a).Nodup
  | [], _, _, ha => by cases ha
  | c :: l, a, hn, ha => by
    simp only [List.flatMap_cons, List.nodup_append] at hn
    rcases List.mem_cons.mp ha with rfl | ha'
    · exact hn.1
    · exact flatMap_nodup_inner hn.2.1 ha'

theorem flatMap_nodup_inj {α β : Type} {f : α → List β} : ∀ {l : List α} {a b : α} {x : β},
    (l.flatMap f).Nodup → a ∈ l → b ∈ l → x ∈ f a → x ∈ f b → a = b
  | [], _, _, _, _, ha, _, _, _ => by cases ha
  | c :: l, a, b, x, hn, ha, hb, xa, xb => by
    simp only [List.flatMap_cons, List.nodup_append] at hn
    rcases List.mem_cons.mp ha with rfl | ha' <;> rcases List.mem_cons.mp hb with rfl | hb'
    · rfl
    · exact absurd rfl (hn.2.2 x xa x (List.mem_flatMap.mpr ⟨b, hb', xb⟩))
    · exact absurd rfl (hn.2.2 x xb x (List.mem_flatMap.mpr ⟨a, ha', xa⟩))
    · exact flatMap_nodup_inj hn.2.1 ha' hb' xa xb

/-! ## consequences of `DeclsOk` -/

theorem mem_datas {p : Program} {d : Data} : d ∈ datas p ↔ Decl.data d ∈ p.decls := by
  simp only [datas, List.mem_filterMap]
  constructor
  · rintro ⟨a, ha, h⟩
    cases a <;> simp at h
    subst h; exact ha
  · intro h; exact ⟨_, h, rfl⟩

theorem mem_codatas {p : Program} {d : Codata} : d ∈ codatas p ↔ Decl.codata d ∈ p.decls := by
  simp only [codatas, List.mem_filterMap]
  constructor
  · rintro ⟨a, ha, h⟩
    cases a <;> simp at h
    subst h; exact ha
  · intro h; exact ⟨_, h, rfl⟩

theorem mem_defs {p : Program} {d : Def} : d ∈ defs p ↔ Decl.defn d ∈ p.decls := by
  simp only [defs, List.mem_filterMap]
  constructor
  · rintro ⟨a, ha, h⟩
    cases a <;> simp at h
    subst h; exact ha
  · intro h; exact ⟨_, h, rfl⟩

theorem data_unique {p : Program} (ok : DeclsOk p) {d d' : Data} (h : d ∈ datas p) (h' : d' ∈ datas p)
    (hn : d.name = d'.name) : d = d' := by
  have := filterMap_nodup_inj ok.typeNamesNodup (mem_datas.mp h) (mem_datas.mp h')
    (x := d.name) rfl (by simp [hn])
  cases this; rfl

theorem codata_unique {p : Program} (ok : DeclsOk p) {d d' : Codata} (h : d ∈ codatas p)
    (h' : d' ∈ codatas p) (hn : d.name = d'.name) : d = d' := by
  have := filterMap_nodup_inj ok.typeNamesNodup (mem_codatas.mp h) (mem_codatas.mp h')
    (x := d.name) rfl (by simp [hn])
  cases this; rfl

theorem data_codata_disjoint {p : Program} (ok : DeclsOk p) {d : Data} {d' : Codata}
    (h : d ∈ datas p) (h' : d' ∈ codatas p) : d.name ≠ d'.name := by
  intro hn
  have := filterMap_nodup_inj ok.typeNamesNodup (mem_datas.mp h) (mem_codatas.mp h')
    (x := d.name) rfl (by simp [hn])
  cases this

theorem ctor_unique {p : Program} (ok : DeclsOk p) {d d' : Data} {c c' : CtorSig}
    (h : d ∈ datas p) (hc : c ∈ d.ctors) (h' : d' ∈ datas p) (hc' : c' ∈ d'.ctors)
    (hn : c.name = c'.name) : d = d' ∧ c = c' := by
  have hd : d = d' := flatMap_nodup_inj ok.ctorNamesNodup h h' (x := c.name)
    (List.mem_map.mpr ⟨c, hc, rfl⟩) (List.mem_map.mpr ⟨c', hc', hn.symm⟩)
  subst hd
  exact ⟨rfl, map_nodup_inj (flatMap_nodup_inner (f := fun d : Data => d.ctors.map (·.name)) ok.ctorNamesNodup h) hc hc' hn⟩

theorem dtor_unique {p : Program} (ok : DeclsOk p) {d d' : Codata} {c c' : DtorSig}
    (h : d ∈ codatas p) (hc : c ∈ d.dtors) (h' : d' ∈ codatas p) (hc' : c' ∈ d'.dtors)
    (hn : c.name = c'.name) : d = d' ∧ c = c' := by
  have hd : d = d' := flatMap_nodup_inj ok.dtorNamesNodup h h' (x := c.name)
    (List.mem_map.mpr ⟨c, hc, rfl⟩) (List.mem_map.mpr ⟨c', hc', hn.symm⟩)
  subst hd
  exact ⟨rfl, map_nodup_inj (flatMap_nodup_inner (f := fun d : Codata => d.dtors.map (·.name)) ok.dtorNamesNodup h) hc hc' hn⟩

/-! ## consequences of `programNamesOk` -/

theorem data_namesOk {p : Program} (hp : programNamesOk p = true) {d : Data} (h : d ∈ datas p) :
    nameOk d.name = true ∧ ∀ c ∈ d.ctors, nameOk c.name = true ∧ ctxNamesOk c.args = true := by
  have := List.all_eq_true.mp hp _ (mem_datas.mp h)
  simp only [declNamesOk, Bool.and_eq_true, List.all_eq_true] at this
  exact this

theorem codata_namesOk {p : Program} (hp : programNamesOk p = true) {d : Codata}
    (h : d ∈ codatas p) : nameOk d.name = true ∧
      ∀ s ∈ d.dtors, nameOk s.name = true ∧ ctxNamesOk s.args = true ∧ tyNamesOk s.contTy = true := by
  have := List.all_eq_true.mp hp _ (mem_codatas.mp h)
  simp only [declNamesOk, Bool.and_eq_true, List.all_eq_true] at this
  exact ⟨this.1, fun s hs => ⟨(this.2 s hs).1.1, (this.2 s hs).1.2, (this.2 s hs).2⟩⟩

theorem def_namesOk {p : Program} (hp : programNamesOk p = true) {d : Def} (h : d ∈ defs p) :
    ctxNamesOk d.ctx = true ∧ tyNamesOk d.retTy = true ∧ termNamesOk d.body = true := by
  have := List.all_eq_true.mp hp _ (mem_defs.mp h)
  simp only [declNamesOk, Bool.and_eq_true] at this
  exact ⟨this.1.1, this.1.2, this.2⟩

/-- the substitution the checker uses for an instance -/
abbrev instMap (params : List String) (args : Tys) : List (String × Ty) := params.zip args.toList

/-! ## names after substitution -/

theorem mappingsGet_mem : ∀ (m : List (String × Ty)) (n : String) (t : Ty),
    mappingsGet m n = some t → ∃ k, (k, t) ∈ m
  | [], _, _, h => by simp [mappingsGet] at h
  | (k, v) :: r, n, t, h => by
    simp only [mappingsGet] at h
    split at h
    · rename_i t' ht
      cases h
      obtain ⟨k', hk'⟩ := mappingsGet_mem r n t ht
      exact ⟨k', by simp [hk']⟩
    · split at h
      · cases h; exact ⟨k, by simp⟩
      · cases h

mutual
  theorem substTy_namesOk (m : List (String × Ty)) (hm : ∀ e ∈ m, tyNamesOk e.2 = true) :
      ∀ (t : Ty), tyNamesOk t = true → tyNamesOk (substTy m t) = true
    | .i64, _ => by simp [substTy, tyNamesOk]
    | .decl n args, h => by
      simp only [tyNamesOk, Bool.and_eq_true] at h
      simp only [substTy]
      split
      · rename_i t ht
        obtain ⟨k, hk⟩ := mappingsGet_mem m n t ht
        exact hm _ hk
      · simp only [tyNamesOk, Bool.and_eq_true]
        exact ⟨h.1, substTys_namesOk m hm args h.2⟩
  theorem substTys_namesOk (m : List (String × Ty)) (hm : ∀ e ∈ m, tyNamesOk e.2 = true) :
      ∀ (ts : Tys), tysNamesOk ts = true → tysNamesOk (substTys m ts) = true
    | .nil, _ => by simp [substTys, tysNamesOk]
    | .cons t r, h => by
      simp only [tysNamesOk, Bool.and_eq_true] at h
      simp only [substTys, tysNamesOk, Bool.and_eq_true]
      exact ⟨substTy_namesOk m hm t h.1, substTys_namesOk m hm r h.2⟩
end

theorem tysNamesOk_mem : ∀ (ts : Tys), tysNamesOk ts = true → ∀ t ∈ ts.toList, tyNamesOk t = true
  | .nil, _, t, ht => by simp [Tys.toList] at ht
  | .cons u r, h, t, ht => by
    simp only [tysNamesOk, Bool.and_eq_true] at h
    simp only [Tys.toList, List.mem_cons] at ht
    rcases ht with rfl | ht
    · exact h.1
    · exact tysNamesOk_mem r h.2 t ht

theorem instMap_namesOk {params : List String} {ta : Tys} (h : tysNamesOk ta = true) :
    ∀ e ∈ instMap params ta, tyNamesOk e.2 = true := by
  intro e he
  obtain ⟨k, t⟩ := e
  exact tysNamesOk_mem ta h t (List.of_mem_zip he).2

theorem substCtx_namesOk {m : List (String × Ty)} (hm : ∀ e ∈ m, tyNamesOk e.2 = true) {c : Ctx}
    (h : ctxNamesOk c = true) : ctxNamesOk (substCtx m c) = true := by
  simp only [ctxNamesOk, substCtx, List.all_map, List.all_eq_true] at *
  intro b hb
  exact substTy_namesOk m hm b.ty (h b hb)

theorem bindNames_namesOk {names : List String} {sig : Ctx} (h : ctxNamesOk sig = true) :
    ctxNamesOk (bindNames names sig) = true := by
  simp only [ctxNamesOk, bindNames, List.all_map, List.all_eq_true] at *
  intro e he
  obtain ⟨n, b⟩ := e
  exact h b (List.of_mem_zip he).2

/-! ## the invariant -/

structure Inv (p : Program) (st : SymbolTable) : Prop where
  defs : ∀ f c r, st.defs.get? f = some (c, r) → ∃ d ∈ defs p, d.name = f ∧ d.ctx = c ∧ d.retTy = r
  tmpl : ∀ n pol params xs, (n, (pol, params, xs)) ∈ st.typeTemplates →
    (pol = .data ∧ ∃ d ∈ datas p, d.name = n ∧ d.typeParams = params ∧ xs = d.ctors.map (·.name)) ∨
    (pol = .codata ∧ ∃ d ∈ codatas p, d.name = n ∧ d.typeParams = params ∧
      xs = d.dtors.map (·.name))
  defsC : ∀ d ∈ Typing.defs p, st.defs.get? d.name = some (d.ctx, d.retTy)
  tmplDataC : ∀ d ∈ datas p,
    st.typeTemplates.get? d.name = some (.data, d.typeParams, d.ctors.map (·.name))
  tmplCodataC : ∀ d ∈ codatas p,
    st.typeTemplates.get? d.name = some (.codata, d.typeParams, d.dtors.map (·.name))
  ctorTmpl : ∀ d ∈ datas p, ∀ c ∈ d.ctors, st.ctorTemplates.get? c.name = some c.args
  dtorTmpl : ∀ d ∈ codatas p, ∀ s ∈ d.dtors, st.dtorTemplates.get? s.name = some (s.args, s.contTy)
  ctorsOk : ∀ k sig, st.ctors.get? k = some sig → ctxNamesOk sig = true
  dtorsOk : ∀ k sig ret, st.dtors.get? k = some (sig, ret) →
    ctxNamesOk sig = true ∧ tyNamesOk ret = true
  types : ∀ key pol ta xs, (key, (pol, ta, xs)) ∈ st.types → tysNamesOk ta = true ∧ WfTys p ta ∧
    ((pol = .data ∧ ∃ d ∈ datas p, key = instName d.name ta ∧ xs = d.ctors.map (·.name) ∧
        ta.toList.length = d.typeParams.length ∧
        ∀ c ∈ d.ctors, st.ctors.get? (instName c.name ta) =
          some (substCtx (instMap d.typeParams ta) c.args)) ∨
     (pol = .codata ∧ ∃ d ∈ codatas p, key = instName d.name ta ∧ xs = d.dtors.map (·.name) ∧
        ta.toList.length = d.typeParams.length ∧
        ∀ s ∈ d.dtors, st.dtors.get? (instName s.name ta) =
          some (substCtx (instMap d.typeParams ta) s.args, substTy (instMap d.typeParams ta) s.contTy)))

/-- `st'` extends `st`: same declarations, every instance is still there -/
structure Ext (st st' : SymbolTable) : Prop where
  defs : st'.defs = st.defs
  typeTemplates : st'.typeTemplates = st.typeTemplates
  ctorTemplates : st'.ctorTemplates = st.ctorTemplates
  dtorTemplates : st'.dtorTemplates = st.dtorTemplates
  types : ∀ e ∈ st.types, e ∈ st'.types

theorem Ext.refl (st : SymbolTable) : Ext st st := ⟨rfl, rfl, rfl, rfl, fun _ h => h⟩

theorem Ext.trans {a b c : SymbolTable} (h1 : Ext a b) (h2 : Ext b c) : Ext a c :=
  ⟨h2.defs.trans h1.defs, h2.typeTemplates.trans h1.typeTemplates,
    h2.ctorTemplates.trans h1.ctorTemplates, h2.dtorTemplates.trans h1.dtorTemplates,
    fun e h => h2.types e (h1.types e h)⟩

/-- same base argument list: the base names decide -/
theorem instName_left_inj {x y : String} {a : Tys} (h : instName x a = instName y a) : x = y := by
  have := congrArg String.toList h
  simp only [instName, String.toList_append] at this
  exact String.toList_inj.mp (List.append_cancel_right this)

/-! ## `create_instance` -/

theorem insertCtorInstances_ok (m : List (String × Ty)) (tyArgs : Tys) :
    ∀ (cs : List CtorSig) (st st2 : SymbolTable),
    (∀ c ∈ cs, st.ctorTemplates.get? c.name = some c.args) →
    (cs.map (·.name)).Nodup →
    insertCtorInstances m tyArgs (cs.map (·.name)) st = .ok st2 →
    st2.defs = st.defs ∧ st2.dtors = st.dtors ∧ st2.types = st.types ∧
    st2.ctorTemplates = st.ctorTemplates ∧ st2.dtorTemplates = st.dtorTemplates ∧
    st2.typeTemplates = st.typeTemplates ∧
    (∀ c ∈ cs, st2.ctors.get? (instName c.name tyArgs) = some (substCtx m c.args)) ∧
    (∀ k, (∀ c ∈ cs, instName c.name tyArgs ≠ k) → st2.ctors.get? k = st.ctors.get? k) ∧
    (∀ k sig, st2.ctors.get? k = some sig →
      st.ctors.get? k = some sig ∨ ∃ c ∈ cs, sig = substCtx m c.args)
  | [], st, st2, _, _, h => by
    simp only [List.map_nil, insertCtorInstances] at h
    cases h
    simp
  | c0 :: r, st, st2, htm, hnd, h => by
    simp only [List.map_cons, insertCtorInstances, htm c0 (by simp)] at h
    simp only [List.map_cons, List.nodup_cons] at hnd
    have ih := insertCtorInstances_ok m tyArgs r _ st2
      (fun c hc => by simpa using htm c (by simp [hc])) hnd.2 h
    obtain ⟨h1, h2, h3, h4, h5, h6, h7, h8, h9⟩ := ih
    refine ⟨h1, h2, h3, h4, h5, h6, ?_, ?_, ?_⟩
    · intro c hc
      rcases List.mem_cons.mp hc with rfl | hc
      · rw [h8]
        · simp [AList.get?_insert]
        · intro c' hc' heq
          exact hnd.1 (List.mem_map.mpr ⟨c', hc', instName_left_inj heq⟩)
      · exact h7 c hc
    · intro k hk
      rw [h8 k (fun c hc => hk c (by simp [hc]))]
      have : instName c0.name tyArgs ≠ k := hk c0 (by simp)
      simp [AList.get?_insert, this]
    · intro k sig hk
      rcases h9 k sig hk with h | ⟨c, hc, rfl⟩
      · simp only [AList.get?_insert] at h
        split at h
        · cases h; exact .inr ⟨c0, by simp, rfl⟩
        · exact .inl h
      · exact .inr ⟨c, by simp [hc], rfl⟩

theorem insertDtorInstances_ok (m : List (String × Ty)) (tyArgs : Tys) :
    ∀ (cs : List DtorSig) (st st2 : SymbolTable),
    (∀ c ∈ cs, st.dtorTemplates.get? c.name = some (c.args, c.contTy)) →
    (cs.map (·.name)).Nodup →
    insertDtorInstances m tyArgs (cs.map (·.name)) st = .ok st2 →
    st2.defs = st.defs ∧ st2.ctors = st.ctors ∧ st2.types = st.types ∧
    st2.ctorTemplates = st.ctorTemplates ∧ st2.dtorTemplates = st.dtorTemplates ∧
    st2.typeTemplates = st.typeTemplates ∧
    (∀ c ∈ cs, st2.dtors.get? (instName c.name tyArgs) =
      some (substCtx m c.args, substTy m c.contTy)) ∧
    (∀ k, (∀ c ∈ cs, instName c.name tyArgs ≠ k) → st2.dtors.get? k = st.dtors.get? k) ∧
    (∀ k v, st2.dtors.get? k = some v →
      st.dtors.get? k = some v ∨ ∃ c ∈ cs, v = (substCtx m c.args, substTy m c.contTy))
  | [], st, st2, _, _, h => by
    simp only [List.map_nil, insertDtorInstances] at h
    cases h
    simp
  | c0 :: r, st, st2, htm, hnd, h => by
    simp only [List.map_cons, insertDtorInstances, htm c0 (by simp)] at h
    simp only [List.map_cons, List.nodup_cons] at hnd
    have ih := insertDtorInstances_ok m tyArgs r _ st2
      (fun c hc => by simpa using htm c (by simp [hc])) hnd.2 h
    obtain ⟨h1, h2, h3, h4, h5, h6, h7, h8, h9⟩ := ih
    refine ⟨h1, h2, h3, h4, h5, h6, ?_, ?_, ?_⟩
    · intro c hc
      rcases List.mem_cons.mp hc with rfl | hc
      · rw [h8]
        · simp [AList.get?_insert]
        · intro c' hc' heq
          exact hnd.1 (List.mem_map.mpr ⟨c', hc', instName_left_inj heq⟩)
      · exact h7 c hc
    · intro k hk
      rw [h8 k (fun c hc => hk c (by simp [hc]))]
      have : instName c0.name tyArgs ≠ k := hk c0 (by simp)
      simp [AList.get?_insert, this]
    · intro k v hk
      rcases h9 k v hk with h | ⟨c, hc, rfl⟩
      · simp only [AList.get?_insert] at h
        split at h
        · cases h; exact .inr ⟨c0, by simp, rfl⟩
        · exact .inl h
      · exact .inr ⟨c, by simp [hc], rfl⟩

theorem createInstance_data_inv {p : Program} (ok : DeclsOk p) (hp : programNamesOk p = true)
    {st st' : SymbolTable} {d : Data} {args : Tys} (inv : Inv p st) (hd : d ∈ datas p)
    (hargs : tysNamesOk args = true) (hwf : WfTys p args)
    (hlen : args.toList.length = d.typeParams.length)
    (h : createInstanceRest (instName d.name args) args .data d.typeParams (d.ctors.map (·.name)) st
      = .ok st') :
    Inv p st' ∧ Ext st st' ∧
      (instName d.name args, (Polarity.data, args, d.ctors.map (·.name))) ∈ st'.types := by
  simp only [createInstanceRest] at h
  split at h
  · cases h
  · rename_i st2 h2
    cases h
    have hnd : (d.ctors.map (·.name)).Nodup :=
      flatMap_nodup_inner (f := fun d : Data => d.ctors.map (·.name)) ok.ctorNamesNodup hd
    obtain ⟨e1, e2, e3, e4, e5, e6, hnew, hold, horig⟩ :=
      insertCtorInstances_ok _ _ d.ctors st st2 (inv.ctorTmpl d hd) hnd h2
    have hkeep : ∀ d' ∈ datas p, ∀ ta', tysNamesOk ta' = true → ∀ c' ∈ d'.ctors,
        st.ctors.get? (instName c'.name ta') = some (substCtx (instMap d'.typeParams ta') c'.args) →
        st2.ctors.get? (instName c'.name ta') =
          some (substCtx (instMap d'.typeParams ta') c'.args) := by
      intro d' hd' ta' hta' c' hc' hget
      by_cases hex : ∃ c ∈ d.ctors, instName c.name args = instName c'.name ta'
      · obtain ⟨c, hc, heq⟩ := hex
        obtain ⟨hn, ha⟩ := instName_inj ((data_namesOk hp hd).2 c hc).1
          ((data_namesOk hp hd').2 c' hc').1 hargs hta' heq
        obtain ⟨rfl, rfl⟩ := ctor_unique ok hd hc hd' hc' hn
        subst ha
        exact hnew c hc
      · rw [hold _ (fun c hc heq => hex ⟨c, hc, heq⟩)]
        exact hget
    refine ⟨⟨?_, ?_, ?_, ?_, ?_, ?_, ?_, ?_, ?_, ?_⟩, ⟨?_, ?_, ?_, ?_, ?_⟩, ?_⟩
    · intro f c r hf
      exact inv.defs f c r (by simpa [e1] using hf)
    · intro n pol params xs hm
      exact inv.tmpl n pol params xs (by simpa [e6] using hm)
    · intro d' hd'
      simpa [e1] using inv.defsC d' hd'
    · intro d' hd'
      simpa [e6] using inv.tmplDataC d' hd'
    · intro d' hd'
      simpa [e6] using inv.tmplCodataC d' hd'
    · intro d' hd' c hc
      simpa [e4] using inv.ctorTmpl d' hd' c hc
    · intro d' hd' c hc
      simpa [e5] using inv.dtorTmpl d' hd' c hc
    · intro k sig hk
      rcases horig k sig hk with h | ⟨c, hc, rfl⟩
      · exact inv.ctorsOk k sig h
      · exact substCtx_namesOk (instMap_namesOk hargs) ((data_namesOk hp hd).2 c hc).2
    · intro k sig ret hk
      exact inv.dtorsOk k sig ret (by simpa [e2] using hk)
    · intro key pol ta xs hm
      simp only at hm
      rcases AList.mem_insert hm with heq | hm
      · cases heq
        refine ⟨hargs, hwf, .inl ⟨rfl, d, hd, rfl, rfl, hlen, ?_⟩⟩
        intro c hc
        exact hnew c hc
      · rw [e3] at hm
        obtain ⟨g1, g2, g3⟩ := inv.types key pol ta xs hm
        refine ⟨g1, g2, ?_⟩
        rcases g3 with ⟨rfl, d', hd', hk, hx, hl, hcs⟩ | ⟨rfl, d', hd', hk, hx, hl, hcs⟩
        · exact .inl ⟨rfl, d', hd', hk, hx, hl, fun c hc => hkeep d' hd' ta g1 c hc (hcs c hc)⟩
        · exact .inr ⟨rfl, d', hd', hk, hx, hl, fun c hc => by simpa [e2] using hcs c hc⟩
    · simp [e1]
    · simp [e6]
    · simp [e4]
    · simp [e5]
    · intro e he
      simp only
      rw [e3]
      by_cases hk : e.1 = instName d.name args
      · obtain ⟨key, pol, ta, xs⟩ := e
        simp only at hk
        subst hk
        obtain ⟨g1, _, g3⟩ := inv.types _ pol ta xs he
        rcases g3 with ⟨rfl, d', hd', hk, hx, _, _⟩ | ⟨rfl, d', hd', hk, _, _, _⟩
        · obtain ⟨hn, ha⟩ := instName_inj (data_namesOk hp hd).1 (data_namesOk hp hd').1 hargs g1 hk
          have := data_unique ok hd hd' hn
          subst this; subst ha; subst hx
          exact AList.mem_insert_self _ _ _
        · obtain ⟨hn, _⟩ := instName_inj (data_namesOk hp hd).1 (codata_namesOk hp hd').1 hargs g1 hk
          exact absurd hn (data_codata_disjoint ok hd hd')
      · exact AList.mem_insert_of_ne he hk
    · exact AList.mem_insert_self _ _ _

theorem createInstance_codata_inv {p : Program} (ok : DeclsOk p) (hp : programNamesOk p = true)
    {st st' : SymbolTable} {d : Codata} {args : Tys} (inv : Inv p st) (hd : d ∈ codatas p)
    (hargs : tysNamesOk args = true) (hwf : WfTys p args)
    (hlen : args.toList.length = d.typeParams.length)
    (h : createInstanceRest (instName d.name args) args .codata d.typeParams (d.dtors.map (·.name)) st
      = .ok st') :
    Inv p st' ∧ Ext st st' ∧
      (instName d.name args, (Polarity.codata, args, d.dtors.map (·.name))) ∈ st'.types := by
  simp only [createInstanceRest] at h
  split at h
  · cases h
  · rename_i st2 h2
    cases h
    have hnd : (d.dtors.map (·.name)).Nodup :=
      flatMap_nodup_inner (f := fun d : Codata => d.dtors.map (·.name)) ok.dtorNamesNodup hd
    obtain ⟨e1, e2, e3, e4, e5, e6, hnew, hold, horig⟩ :=
      insertDtorInstances_ok _ _ d.dtors st st2 (inv.dtorTmpl d hd) hnd h2
    have hkeep : ∀ d' ∈ codatas p, ∀ ta', tysNamesOk ta' = true → ∀ c' ∈ d'.dtors,
        st.dtors.get? (instName c'.name ta') = some (substCtx (instMap d'.typeParams ta') c'.args,
          substTy (instMap d'.typeParams ta') c'.contTy) →
        st2.dtors.get? (instName c'.name ta') =
          some (substCtx (instMap d'.typeParams ta') c'.args,
            substTy (instMap d'.typeParams ta') c'.contTy) := by
      intro d' hd' ta' hta' c' hc' hget
      by_cases hex : ∃ c ∈ d.dtors, instName c.name args = instName c'.name ta'
      · obtain ⟨c, hc, heq⟩ := hex
        obtain ⟨hn, ha⟩ := instName_inj ((codata_namesOk hp hd).2 c hc).1
          ((codata_namesOk hp hd').2 c' hc').1 hargs hta' heq
        obtain ⟨rfl, rfl⟩ := dtor_unique ok hd hc hd' hc' hn
        subst ha
        exact hnew c hc
      · rw [hold _ (fun c hc heq => hex ⟨c, hc, heq⟩)]
        exact hget
    refine ⟨⟨?_, ?_, ?_, ?_, ?_, ?_, ?_, ?_, ?_, ?_⟩, ⟨?_, ?_, ?_, ?_, ?_⟩, ?_⟩
    · intro f c r hf
      exact inv.defs f c r (by simpa [e1] using hf)
    · intro n pol params xs hm
      exact inv.tmpl n pol params xs (by simpa [e6] using hm)
    · intro d' hd'
      simpa [e1] using inv.defsC d' hd'
    · intro d' hd'
      simpa [e6] using inv.tmplDataC d' hd'
    · intro d' hd'
      simpa [e6] using inv.tmplCodataC d' hd'
    · intro d' hd' c hc
      simpa [e4] using inv.ctorTmpl d' hd' c hc
    · intro d' hd' c hc
      simpa [e5] using inv.dtorTmpl d' hd' c hc
    · intro k sig hk
      exact inv.ctorsOk k sig (by simpa [e2] using hk)
    · intro k sig ret hk
      rcases horig k (sig, ret) hk with h | ⟨c, hc, heq⟩
      · exact inv.dtorsOk k sig ret h
      · cases heq
        have := (codata_namesOk hp hd).2 c hc
        exact ⟨substCtx_namesOk (instMap_namesOk hargs) this.2.1,
          substTy_namesOk _ (instMap_namesOk hargs) _ this.2.2⟩
    · intro key pol ta xs hm
      simp only at hm
      rcases AList.mem_insert hm with heq | hm
      · cases heq
        refine ⟨hargs, hwf, .inr ⟨rfl, d, hd, rfl, rfl, hlen, ?_⟩⟩
        intro c hc
        exact hnew c hc
      · rw [e3] at hm
        obtain ⟨g1, g2, g3⟩ := inv.types key pol ta xs hm
        refine ⟨g1, g2, ?_⟩
        rcases g3 with ⟨rfl, d', hd', hk, hx, hl, hcs⟩ | ⟨rfl, d', hd', hk, hx, hl, hcs⟩
        · exact .inl ⟨rfl, d', hd', hk, hx, hl, fun c hc => by simpa [e2] using hcs c hc⟩
        · exact .inr ⟨rfl, d', hd', hk, hx, hl, fun c hc => hkeep d' hd' ta g1 c hc (hcs c hc)⟩
    · simp [e1]
    · simp [e6]
    · simp [e4]
    · simp [e5]
    · intro e he
      simp only
      rw [e3]
      by_cases hk : e.1 = instName d.name args
      · obtain ⟨key, pol, ta, xs⟩ := e
        simp only at hk
        subst hk
        obtain ⟨g1, _, g3⟩ := inv.types _ pol ta xs he
        rcases g3 with ⟨rfl, d', hd', hk, _, _, _⟩ | ⟨rfl, d', hd', hk, hx, _, _⟩
        · obtain ⟨hn, _⟩ := instName_inj (codata_namesOk hp hd).1 (data_namesOk hp hd').1 hargs g1 hk
          exact absurd hn.symm (data_codata_disjoint ok hd' hd)
        · obtain ⟨hn, ha⟩ := instName_inj (codata_namesOk hp hd).1 (codata_namesOk hp hd').1 hargs g1 hk
          have := codata_unique ok hd hd' hn
          subst this; subst ha; subst hx
          exact AList.mem_insert_self _ _ _
      · exact AList.mem_insert_of_ne he hk
    · exact AList.mem_insert_self _ _ _

/-! ## soundness of `checkTy` -/

/-- the instance a declared type denotes is in the table -/
def InstIn (st : SymbolTable) : Ty → Prop
  | .i64 => True
  | .decl n a => ∃ pol xs, (instName n a, (pol, a, xs)) ∈ st.types

theorem InstIn.ext {st st' : SymbolTable} {τ : Ty} (h : InstIn st τ) (e : Ext st st') :
    InstIn st' τ := by
  cases τ with
  | i64 => trivial
  | decl n a =>
    obtain ⟨pol, xs, hm⟩ := h
    exact ⟨pol, xs, e.types _ hm⟩

mutual
  theorem checkTy_sound {p : Program} (ok : DeclsOk p) (hp : programNamesOk p = true) :
      ∀ (τ : Ty) (st st' : SymbolTable), Inv p st → tyNamesOk τ = true → checkTy τ st = .ok st' →
      Inv p st' ∧ Ext st st' ∧ WfTy p τ ∧ InstIn st' τ
    | .i64, st, st', inv, _, h => by
      simp only [checkTy] at h
      cases h
      exact ⟨inv, Ext.refl _, .i64, trivial⟩
    | .decl name args, st, st', inv, hn, h => by
      simp only [tyNamesOk, Bool.and_eq_true] at hn
      simp only [checkTy] at h
      split at h
      · -- the instance exists
        rename_i v hget
        cases h
        obtain ⟨pol, ta, xs⟩ := v
        have hm := AList.mem_of_get? hget
        obtain ⟨g1, g2, g3⟩ := inv.types _ pol ta xs hm
        rcases g3 with ⟨rfl, d, hd, hk, _, hl, _⟩ | ⟨rfl, d, hd, hk, _, hl, _⟩
        · obtain ⟨rfl, rfl⟩ := instName_inj hn.1 (data_namesOk hp hd).1 hn.2 g1 hk
          exact ⟨inv, Ext.refl _, .data d _ hd hl g2, ⟨_, _, hm⟩⟩
        · obtain ⟨rfl, rfl⟩ := instName_inj hn.1 (codata_namesOk hp hd).1 hn.2 g1 hk
          exact ⟨inv, Ext.refl _, .codata d _ hd hl g2, ⟨_, _, hm⟩⟩
      · split at h
        · cases h
        · rename_i pol params xtors htm
          split at h
          · cases h
          · rename_i hlen
            split at h
            · cases h
            · rename_i st1 hargs
              obtain ⟨inv1, ext1, wf1⟩ := checkTys_sound ok hp args st st1 inv hn.2 hargs
              have hlen' : args.toList.length = params.length := by
                simpa [tysLength, bne] using hlen
              rcases inv.tmpl _ _ _ _ (AList.mem_of_get? htm) with
                ⟨rfl, d, hd, rfl, rfl, rfl⟩ | ⟨rfl, d, hd, rfl, rfl, rfl⟩
              · obtain ⟨inv2, ext2, hin⟩ :=
                  createInstance_data_inv ok hp inv1 hd hn.2 wf1 hlen' h
                exact ⟨inv2, ext1.trans ext2, .data d _ hd hlen' wf1, ⟨_, _, hin⟩⟩
              · obtain ⟨inv2, ext2, hin⟩ :=
                  createInstance_codata_inv ok hp inv1 hd hn.2 wf1 hlen' h
                exact ⟨inv2, ext1.trans ext2, .codata d _ hd hlen' wf1, ⟨_, _, hin⟩⟩
  theorem checkTys_sound {p : Program} (ok : DeclsOk p) (hp : programNamesOk p = true) :
      ∀ (ts : Tys) (st st' : SymbolTable), Inv p st → tysNamesOk ts = true →
      checkTys ts st = .ok st' → Inv p st' ∧ Ext st st' ∧ WfTys p ts
    | .nil, st, st', inv, _, h => by
      simp only [checkTys] at h
      cases h
      exact ⟨inv, Ext.refl _, .nil⟩
    | .cons t r, st, st', inv, hn, h => by
      simp only [tysNamesOk, Bool.and_eq_true] at hn
      simp only [checkTys] at h
      split at h
      · cases h
      · rename_i st1 h1
        obtain ⟨inv1, ext1, wf1, _⟩ := checkTy_sound ok hp t st st1 inv hn.1 h1
        obtain ⟨inv2, ext2, wf2⟩ := checkTys_sound ok hp r st1 st' inv1 hn.2 h
        exact ⟨inv2, ext1.trans ext2, .cons wf1 wf2⟩
end

end Scc.Fun.Check
