/-
  Scc.Fun.Typing — declarative typing of Fun programs (the SPECIFICATION side of property C15).
  Written from the language definition (type declarations are templates, instantiated by substitution;
  terms are checked against a type in a context of producer / consumer bindings), independently of the
  checker's data structures: no symbol table, no printed names, no clause reordering, no state.
  Core imports only (`Scc.Fun.Syntax`).

  `WT p`        : what the checker is meant to accept (and, `Props/C15.lean`, everything it accepts is `WT`).
  `WTstrict p`  : `WT p` and, in addition, the types inside the type declarations are arity-correct
                  (the checker does not look at them until they are used; see the findings in C15.lean).

  Judgements (Γ : Ctx is a list of bindings `x :prd τ` / `a :cns τ`, the rightmost binding of a name wins):
    WfTy p τ                 τ is `i64` or a declared type applied to the right number of well-formed types
    HasType p Γ t τ          term t checks against τ
    ArgsTyped p Γ ts bs      argument list ts matches the parameter list bs (a `cns` parameter takes a
                             covariable, by name)
    ClausesTyped p Γ sigs cs every clause of cs binds the right number of distinct names and its body
                             checks against the type `sigs` gives for its xtor
-/
import Scc.Fun.Syntax

namespace Scc.Fun.Typing

/-! ## declarations of a program -/

def datas (p : Program) : List Data :=
  p.decls.filterMap fun | .data d => some d | _ => none

def codatas (p : Program) : List Codata :=
  p.decls.filterMap fun | .codata d => some d | _ => none

def defs (p : Program) : List Def :=
  p.decls.filterMap fun | .defn d => some d | _ => none

/-- names of all declared types (data and codata live in one name space) -/
def typeNames (p : Program) : List String :=
  p.decls.filterMap fun | .data d => some d.name | .codata d => some d.name | .defn _ => none

/-! ## substitution of type parameters -/

mutual
  /-- `τ[σ]`: a type whose head is a type parameter is replaced (its arguments, if any, are ignored —
  `WTstrict` forbids them) -/
  def tsubst (σ : List (String × Ty)) : Ty → Ty
    | .i64 => .i64
    | .decl n args =>
      match σ.lookup n with
      | some t => t
      | none => .decl n (tsubsts σ args)
  def tsubsts (σ : List (String × Ty)) : Tys → Tys
    | .nil => .nil
    | .cons t r => .cons (tsubst σ t) (tsubsts σ r)
end

def csubst (σ : List (String × Ty)) (c : Ctx) : Ctx :=
  c.map fun b => { b with ty := tsubst σ b.ty }

/-- the substitution `params ↦ args` of an instance -/
def instSubst (params : List String) (args : Tys) : List (String × Ty) := params.zip args.toList

/-! ## contexts -/

/-- the binding a name refers to: the rightmost one (shadowing) -/
def lookupCtx (Γ : Ctx) (x : String) : Option Binding :=
  Γ.reverse.find? fun b => b.var = x

/-- the binders `names` of a clause with the chiralities and types of the xtor signature `sig` -/
def bindNames (names : List String) (sig : Ctx) : Ctx :=
  (names.zip sig).map fun (n, b) => { b with var := n }

/-! ## well-formed types -/

mutual
  inductive WfTy (p : Program) : Ty → Prop
    | i64 : WfTy p .i64
    | data (d : Data) (args : Tys) : d ∈ datas p → args.toList.length = d.typeParams.length →
        WfTys p args → WfTy p (.decl d.name args)
    | codata (d : Codata) (args : Tys) : d ∈ codatas p → args.toList.length = d.typeParams.length →
        WfTys p args → WfTy p (.decl d.name args)
  inductive WfTys (p : Program) : Tys → Prop
    | nil : WfTys p .nil
    | cons {t : Ty} {r : Tys} : WfTy p t → WfTys p r → WfTys p (.cons t r)
end

/-! ## terms -/

def clauseXtors (cs : Clauses) : List String := cs.toList.map (·.xtor)

mutual
  inductive HasType (p : Program) : Ctx → Term → Ty → Prop
    /-- a variable is a producer binding of the expected type; an annotation must agree -/
    | var {Γ x ty chi τ} (b : Binding) :
        lookupCtx Γ x = some b → b.chi = .prd → b.ty = τ → WfTy p τ →
        chi ≠ some .cns → (∀ t, ty = some t → t = τ) →
        HasType p Γ (.var x ty chi) τ
    | lit {Γ n} : HasType p Γ (.lit n) .i64
    | op {Γ a o b} : HasType p Γ a .i64 → HasType p Γ b .i64 → HasType p Γ (.op a o b) .i64
    | ifc {Γ s a b t e an τ} : HasType p Γ a .i64 → HasType p Γ b .i64 →
        HasType p Γ t τ → HasType p Γ e τ → HasType p Γ (.ifc s a b t e an) τ
    | ifz {Γ s a t e an τ} : HasType p Γ a .i64 →
        HasType p Γ t τ → HasType p Γ e τ → HasType p Γ (.ifz s a t e an) τ
    | print {Γ nl a n an τ} : HasType p Γ a .i64 → HasType p Γ n τ → HasType p Γ (.print nl a n an) τ
    | letIn {Γ x σ bound body an τ} : WfTy p σ → HasType p Γ bound σ →
        HasType p (Γ ++ [⟨x, .prd, σ⟩]) body τ → HasType p Γ (.letIn x σ bound body an) τ
    /-- a call of a top-level definition -/
    | call {Γ args an} (d : Def) : d ∈ defs p → WfTy p d.retTy →
        ArgsTyped p Γ args d.ctx → HasType p Γ (.call d.name args an) d.retTy
    /-- constructor `K(args)` of the instance `D[targs]` of a data type -/
    | ctor {Γ args an targs} (d : Data) (c : CtorSig) : d ∈ datas p → c ∈ d.ctors →
        WfTy p (.decl d.name targs) →
        ArgsTyped p Γ args (csubst (instSubst d.typeParams targs) c.args) →
        HasType p Γ (.ctor c.name args an) (.decl d.name targs)
    /-- destructor call `scrut.d[targs](args)` -/
    | dtor {Γ scrut targs args an} (d : Codata) (s : DtorSig) : d ∈ codatas p → s ∈ d.dtors →
        WfTy p (.decl d.name targs) → HasType p Γ scrut (.decl d.name targs) →
        ArgsTyped p Γ args (csubst (instSubst d.typeParams targs) s.args) →
        WfTy p (tsubst (instSubst d.typeParams targs) s.contTy) →
        HasType p Γ (.dtor scrut s.name targs args an) (tsubst (instSubst d.typeParams targs) s.contTy)
    /-- pattern match `scrut.case[targs] { K(xs) => body, .. }`: exactly one clause per constructor
    (in any order), at least one clause -/
    | case {Γ scrut targs cs an τ} (d : Data) : d ∈ datas p → cs ≠ .nil →
        (clauseXtors cs).Perm (d.ctors.map (·.name)) →
        WfTy p (.decl d.name targs) → HasType p Γ scrut (.decl d.name targs) →
        ClausesTyped p Γ
          (d.ctors.map fun c => (c.name, csubst (instSubst d.typeParams targs) c.args, τ)) cs →
        HasType p Γ (.case scrut targs cs an) τ
    /-- copattern match `new { d(xs) => body, .. }`: exactly one clause per destructor; the
    instantiated return types are well-formed (automatic under `WTstrict`) -/
    | new {Γ cs an targs} (d : Codata) : d ∈ codatas p →
        (clauseXtors cs).Perm (d.dtors.map (·.name)) →
        WfTy p (.decl d.name targs) →
        (∀ s ∈ d.dtors, WfTy p (tsubst (instSubst d.typeParams targs) s.contTy)) →
        ClausesTyped p Γ
          (d.dtors.map fun s => (s.name, csubst (instSubst d.typeParams targs) s.args,
            tsubst (instSubst d.typeParams targs) s.contTy)) cs →
        HasType p Γ (.new cs an) (.decl d.name targs)
    | label {Γ a body an τ} : HasType p (Γ ++ [⟨a, .cns, τ⟩]) body τ → HasType p Γ (.label a body an) τ
    /-- `goto a (arg)` has any type; `a` is a covariable of a well-formed type -/
    | goto {Γ a arg an τ} (b : Binding) : lookupCtx Γ a = some b → b.chi = .cns → WfTy p b.ty →
        HasType p Γ arg b.ty → HasType p Γ (.goto a arg an) τ
    /-- `exit arg` has any type -/
    | exit {Γ arg an τ} : HasType p Γ arg .i64 → HasType p Γ (.exit arg an) τ
    | paren {Γ t τ} : HasType p Γ t τ → HasType p Γ (.paren t) τ
  inductive ArgsTyped (p : Program) : Ctx → Terms → Ctx → Prop
    | nil {Γ} : ArgsTyped p Γ .nil []
    /-- a producer parameter takes a term of its type -/
    | prd {Γ t ts} {b : Binding} {bs : Ctx} : b.chi = .prd → WfTy p b.ty → HasType p Γ t b.ty →
        ArgsTyped p Γ ts bs → ArgsTyped p Γ (.cons t ts) (b :: bs)
    /-- a consumer parameter takes the name of a covariable of its type -/
    | cns {Γ x ty chi ts} {b : Binding} {bs : Ctx} (b' : Binding) : b.chi = .cns →
        lookupCtx Γ x = some b' → b'.chi = .cns → b'.ty = b.ty → WfTy p b.ty →
        chi ≠ some .prd → (∀ t, ty = some t → t = b.ty) →
        ArgsTyped p Γ ts bs → ArgsTyped p Γ (.cons (.var x ty chi) ts) (b :: bs)
  inductive ClausesTyped (p : Program) : Ctx → List (String × Ctx × Ty) → Clauses → Prop
    | nil {Γ sigs} : ClausesTyped p Γ sigs .nil
    | cons {Γ sigs pol x ns c body rest} (sig : Ctx) (bodyTy : Ty) : (x, sig, bodyTy) ∈ sigs →
        ns.Nodup → ns.length = sig.length → HasType p (Γ ++ bindNames ns sig) body bodyTy →
        ClausesTyped p Γ sigs rest → ClausesTyped p Γ sigs (.cons pol x ns c body rest)
end

/-! ## declarations and programs -/

/-- a type inside a type declaration mentions only declared types and the declaration's parameters
(this is all the checker asks of a declaration) -/
def TyScoped (p : Program) (params : List String) : Ty → Prop
  | .i64 => True
  | .decl n _ => n ∈ typeNames p ∨ n ∈ params

mutual
  /-- the arity-correct version: a parameter takes no arguments, a declared type the right number -/
  inductive TyWfIn (p : Program) (params : List String) : Ty → Prop
    | i64 : TyWfIn p params .i64
    | param {n} : n ∈ params → TyWfIn p params (.decl n .nil)
    | data (d : Data) (args : Tys) : d ∈ datas p → args.toList.length = d.typeParams.length →
        TysWfIn p params args → TyWfIn p params (.decl d.name args)
    | codata (d : Codata) (args : Tys) : d ∈ codatas p → args.toList.length = d.typeParams.length →
        TysWfIn p params args → TyWfIn p params (.decl d.name args)
  inductive TysWfIn (p : Program) (params : List String) : Tys → Prop
    | nil : TysWfIn p params .nil
    | cons {t : Ty} {r : Tys} : TyWfIn p params t → TysWfIn p params r → TysWfIn p params (.cons t r)
end

structure DeclsOk (p : Program) : Prop where
  /-- no two definitions, no two types, no two constructors, no two destructors share a name -/
  defNamesNodup : ((defs p).map (·.name)).Nodup
  typeNamesNodup : (typeNames p).Nodup
  ctorNamesNodup : ((datas p).flatMap fun d => d.ctors.map (·.name)).Nodup
  dtorNamesNodup : ((codatas p).flatMap fun d => d.dtors.map (·.name)).Nodup
  /-- type parameters are distinct and distinct from the declared types -/
  dataParams : ∀ d ∈ datas p, d.typeParams.Nodup ∧ ∀ a ∈ d.typeParams, a ∉ typeNames p
  codataParams : ∀ d ∈ codatas p, d.typeParams.Nodup ∧ ∀ a ∈ d.typeParams, a ∉ typeNames p
  /-- signatures mention declared types and parameters only -/
  dataSigs : ∀ d ∈ datas p, ∀ c ∈ d.ctors, ∀ b ∈ c.args, TyScoped p d.typeParams b.ty
  codataSigs : ∀ d ∈ codatas p, ∀ s ∈ d.dtors,
    (∀ b ∈ s.args, TyScoped p d.typeParams b.ty) ∧ TyScoped p d.typeParams s.contTy

structure DefOk (p : Program) (d : Def) : Prop where
  params : (d.ctx.map (·.var)).Nodup
  paramTys : ∀ b ∈ d.ctx, WfTy p b.ty
  retTy : WfTy p d.retTy
  body : HasType p d.ctx d.body d.retTy

/-- well-typed program -/
structure WT (p : Program) : Prop where
  decls : DeclsOk p
  defs : ∀ d ∈ defs p, DefOk p d

/-- arity-correct type declarations -/
structure DeclsWf (p : Program) : Prop where
  dataSigs : ∀ d ∈ datas p, ∀ c ∈ d.ctors, ∀ b ∈ c.args, TyWfIn p d.typeParams b.ty
  codataSigs : ∀ d ∈ codatas p, ∀ s ∈ d.dtors,
    (∀ b ∈ s.args, TyWfIn p d.typeParams b.ty) ∧ TyWfIn p d.typeParams s.contTy

def WTstrict (p : Program) : Prop := WT p ∧ DeclsWf p

/-! ## "the same program up to annotations and clause order" -/

mutual
  /-- `Erases t' t`: `t'` is `t` with other annotations (`ty`, `chi`, clause contexts) and with the
  clauses of every `case` / `new` in another order -/
  inductive Erases : Term → Term → Prop
    | var {x ty chi ty' chi'} : Erases (.var x ty' chi') (.var x ty chi)
    | lit {n} : Erases (.lit n) (.lit n)
    | op {a a' o b b'} : Erases a' a → Erases b' b → Erases (.op a' o b') (.op a o b)
    | ifc {s a a' b b' t t' e e' an an'} : Erases a' a → Erases b' b → Erases t' t → Erases e' e →
        Erases (.ifc s a' b' t' e' an') (.ifc s a b t e an)
    | ifz {s a a' t t' e e' an an'} : Erases a' a → Erases t' t → Erases e' e →
        Erases (.ifz s a' t' e' an') (.ifz s a t e an)
    | print {nl a a' n n' an an'} : Erases a' a → Erases n' n →
        Erases (.print nl a' n' an') (.print nl a n an)
    | letIn {x σ b b' i i' an an'} : Erases b' b → Erases i' i →
        Erases (.letIn x σ b' i' an') (.letIn x σ b i an)
    | call {f args args' an an'} : ArgsErase args' args → Erases (.call f args' an') (.call f args an)
    | ctor {k args args' an an'} : ArgsErase args' args → Erases (.ctor k args' an') (.ctor k args an)
    | dtor {s s' d ta args args' an an'} : Erases s' s → ArgsErase args' args →
        Erases (.dtor s' d ta args' an') (.dtor s d ta args an)
    | case {s s' ta cs cs' an an'} : Erases s' s → ClausesErase cs' cs →
        Erases (.case s' ta cs' an') (.case s ta cs an)
    | new {cs cs' an an'} : ClausesErase cs' cs → Erases (.new cs' an') (.new cs an)
    | label {a t t' an an'} : Erases t' t → Erases (.label a t' an') (.label a t an)
    | goto {a t t' an an'} : Erases t' t → Erases (.goto a t' an') (.goto a t an)
    | exit {t t' an an'} : Erases t' t → Erases (.exit t' an') (.exit t an)
    | paren {t t'} : Erases t' t → Erases (.paren t') (.paren t)
  inductive ArgsErase : Terms → Terms → Prop
    | nil : ArgsErase .nil .nil
    | cons {t t' r r'} : Erases t' t → ArgsErase r' r → ArgsErase (.cons t' r') (.cons t r)
  /-- the first clause of the left list is one of the clauses on the right (same polarity, xtor and
  binder names, erased body); the others correspond to the remaining ones -/
  inductive ClausesErase : Clauses → Clauses → Prop
    | nil : ClausesErase .nil .nil
    | cons {pol x ns c c' b b' r' cs} (pre post : List Clause) :
        cs.toList = pre ++ ⟨pol, x, ns, c, b⟩ :: post → Erases b' b →
        ClausesErase r' (Clauses.ofList (pre ++ post)) → ClausesErase (.cons pol x ns c' b' r') cs
end

/-- the definitions of the checked program are those of the source program, in the same order, with
the same signature and an erasure-equal body -/
inductive DefsErase : List Def → List Def → Prop
  | nil : DefsErase [] []
  | cons {d' d : Def} {r' r : List Def} : d'.name = d.name → d'.ctx = d.ctx → d'.retTy = d.retTy →
      Erases d'.body d.body → DefsErase r' r → DefsErase (d' :: r') (d :: r)

/-- every type declaration of the checked program is the instance of a declared template at
well-formed type arguments (its name is the printed instance name, e.g. `List[i64]`; `render` is the
printing function of type arguments) -/
def InstancesOf (render : Tys → String) (p : Program) (p' : CheckedProgram) : Prop :=
  (∀ d' ∈ p'.dataTypes, ∃ d ∈ datas p, ∃ ta, WfTys p ta ∧ ta.toList.length = d.typeParams.length ∧
    d'.name = d.name ++ render ta ∧ d'.typeParams = [] ∧
    d'.ctors = d.ctors.map fun c => ⟨c.name, csubst (instSubst d.typeParams ta) c.args⟩) ∧
  (∀ d' ∈ p'.codataTypes, ∃ d ∈ codatas p, ∃ ta, WfTys p ta ∧
    ta.toList.length = d.typeParams.length ∧
    d'.name = d.name ++ render ta ∧ d'.typeParams = [] ∧
    d'.dtors = d.dtors.map fun s => ⟨s.name, csubst (instSubst d.typeParams ta) s.args,
      tsubst (instSubst d.typeParams ta) s.contTy⟩)

/-! ## annotated trees (the checker's output, the input fun2core relies on) -/

mutual
  /-- every `ty` / `chi` annotation is filled and every clause carries the typed context of its
  binders (fun2core `expect("Types should be annotated")`) -/
  def annotated : Term → Bool
    | .var _ ty chi => ty.isSome && chi.isSome
    | .lit _ => true
    | .op a _ b => annotated a && annotated b
    | .ifc _ a b t e ty => ty.isSome && annotated a && annotated b && annotated t && annotated e
    | .ifz _ a t e ty => ty.isSome && annotated a && annotated t && annotated e
    | .print _ a n ty => ty.isSome && annotated a && annotated n
    | .letIn _ _ b i ty => ty.isSome && annotated b && annotated i
    | .call _ args ty => ty.isSome && annotatedArgs args
    | .ctor _ args ty => ty.isSome && annotatedArgs args
    | .dtor s _ _ args ty => ty.isSome && annotated s && annotatedArgs args
    | .case s _ cs ty => ty.isSome && annotated s && annotatedClauses cs
    | .new cs ty => ty.isSome && annotatedClauses cs
    | .label _ t ty => ty.isSome && annotated t
    | .goto _ t ty => ty.isSome && annotated t
    | .exit t ty => ty.isSome && annotated t
    | .paren t => annotated t
  def annotatedArgs : Terms → Bool
    | .nil => true
    | .cons t r => annotated t && annotatedArgs r
  def annotatedClauses : Clauses → Bool
    | .nil => true
    | .cons _ _ ns ctx b r => (ctx.map (·.var) == ns) && annotated b && annotatedClauses r
end

def annotatedProgram (p : CheckedProgram) : Bool := p.defs.all fun d => annotated d.body

end Scc.Fun.Typing
