/-
  Scc.Fun.CheckSound3 — soundness of the checker model, part 3: context lookups, name hygiene of
  substituted signatures, the specification of the clause loop (`position` / `swap_remove`).
-/
import Scc.Fun.CheckSound2
import Scc.Fun.CheckAnnotated

namespace Scc.Fun.Check
open Scc.Fun.Typing

/-! ## context lookups -/

theorem lookupVarRev_ok : ∀ (l : List Binding) (x : String) (τ : Ty), lookupVarRev l x = .ok τ →
    ∃ b, l.find? (fun b => b.var = x) = some b ∧ b.chi = .prd ∧ b.ty = τ ∧ b ∈ l
  | [], _, _, h => by simp [lookupVarRev] at h
  | b :: r, x, τ, h => by
    simp only [lookupVarRev] at h
    split at h
    · rename_i hx
      split at h
      · cases h
      · rename_i hc
        cases h
        refine ⟨b, by simp [List.find?, hx], ?_, rfl, by simp⟩
        cases hb : b.chi with
        | prd => rfl
        | cns => exfalso; rw [hb] at hc; exact hc (by decide)
    · rename_i hx
      obtain ⟨b', h1, h2, h3, h4⟩ := lookupVarRev_ok r x τ h
      exact ⟨b', by simp [List.find?, hx, h1], h2, h3, by simp [h4]⟩

theorem lookupVar_ok {Γ : Ctx} {x : String} {τ : Ty} (h : lookupVar Γ x = .ok τ) :
    ∃ b, lookupCtx Γ x = some b ∧ b.chi = .prd ∧ b.ty = τ ∧ b ∈ Γ := by
  obtain ⟨b, h1, h2, h3, h4⟩ := lookupVarRev_ok _ _ _ h
  exact ⟨b, h1, h2, h3, by simpa using h4⟩

theorem lookupCovarRev_ok : ∀ (l : List Binding) (x : String) (τ : Ty), lookupCovarRev l x = .ok τ →
    ∃ b, l.find? (fun b => b.var = x) = some b ∧ b.chi = .cns ∧ b.ty = τ ∧ b ∈ l
  | [], _, _, h => by simp [lookupCovarRev] at h
  | b :: r, x, τ, h => by
    simp only [lookupCovarRev] at h
    split at h
    · rename_i hx
      split at h
      · cases h
      · rename_i hc
        cases h
        refine ⟨b, by simp [List.find?, hx], ?_, rfl, by simp⟩
        cases hb : b.chi with
        | cns => rfl
        | prd => exfalso; rw [hb] at hc; exact hc (by decide)
    · rename_i hx
      obtain ⟨b', h1, h2, h3, h4⟩ := lookupCovarRev_ok r x τ h
      exact ⟨b', by simp [List.find?, hx, h1], h2, h3, by simp [h4]⟩

theorem lookupCovar_ok {Γ : Ctx} {x : String} {τ : Ty} (h : lookupCovar Γ x = .ok τ) :
    ∃ b, lookupCtx Γ x = some b ∧ b.chi = .cns ∧ b.ty = τ ∧ b ∈ Γ := by
  obtain ⟨b, h1, h2, h3, h4⟩ := lookupCovarRev_ok _ _ _ h
  exact ⟨b, h1, h2, h3, by simpa using h4⟩

theorem ctxNamesOk_mem {Γ : Ctx} (h : ctxNamesOk Γ = true) {b : Binding} (hb : b ∈ Γ) :
    tyNamesOk b.ty = true :=
  List.all_eq_true.mp h b hb

theorem ctxNamesOk_append {Γ Δ : Ctx} (h1 : ctxNamesOk Γ = true) (h2 : ctxNamesOk Δ = true) :
    ctxNamesOk (Γ ++ Δ) = true := by
  simp only [ctxNamesOk, List.all_append, Bool.and_eq_true]
  exact ⟨h1, h2⟩

/-! ## `no_dups`, `add_types` -/

theorem namesNoDups_ok : ∀ (l seen : List String), namesNoDups l seen = .ok () →
    l.Nodup ∧ ∀ x ∈ l, x ∉ seen
  | [], _, _ => by simp
  | b :: r, seen, h => by
    simp only [namesNoDups] at h
    split at h
    · cases h
    · rename_i hb
      obtain ⟨h1, h2⟩ := namesNoDups_ok r (b :: seen) h
      have hb' : b ∉ seen := by simpa using hb
      refine ⟨List.nodup_cons.mpr ⟨fun hm => (h2 b hm) (by simp), h1⟩, ?_⟩
      intro x hx
      rcases List.mem_cons.mp hx with rfl | hx
      · exact hb'
      · exact fun hs => h2 x hx (by simp [hs])

theorem addTypes_bindNames {names : List String} {sig ctx : Ctx} (h : addTypes names sig = .ok ctx) :
    names.length = sig.length ∧ ctx = bindNames names sig := by
  obtain ⟨h1, h2⟩ := addTypes_ok h
  exact ⟨h1, h2⟩

/-! ## `swap_remove` is a permutation -/

theorem swapRemove_perm {α : Type} {ks : List α} {pos : Nat} {k : α} (h : ks[pos]? = some k) :
    (k :: swapRemove ks pos).Perm ks := by
  obtain ⟨hlt, hk⟩ := List.getElem?_eq_some_iff.mp h
  unfold swapRemove
  cases hl : ks.getLast? with
  | none =>
    have : ks = [] := by simpa using hl
    subst this; simp at hlt
  | some last =>
    obtain ⟨init, rfl⟩ := List.getLast?_eq_some_iff.mp hl
    simp only [List.dropLast_concat]
    simp only [List.length_append, List.length_singleton] at hlt
    by_cases hp : pos < init.length
    · have hk' : init[pos] = k := by
        rw [← hk]; simp [List.getElem_append_left hp]
      rw [List.set_eq_take_append_cons_drop, if_pos hp]
      have hinit : init = init.take pos ++ k :: init.drop (pos + 1) := by
        rw [← hk', List.getElem_cons_drop hp, List.take_append_drop]
      have h1 : (k :: (init.take pos ++ last :: init.drop (pos + 1))).Perm
          (k :: last :: (init.take pos ++ init.drop (pos + 1))) :=
        List.Perm.cons _ List.perm_middle
      have h2 : (init ++ [last]).Perm (last :: k :: (init.take pos ++ init.drop (pos + 1))) := by
        refine (List.perm_append_singleton _ _).trans (List.Perm.cons _ ?_)
        conv => lhs; rw [hinit]
        exact List.perm_middle
      exact h1.trans ((List.Perm.swap _ _ _).trans h2.symm)
    · have hp' : pos = init.length := by omega
      subst hp'
      have hk' : k = last := by
        rw [← hk]; simp
      subst hk'
      rw [List.set_eq_of_length_le (Nat.le_refl _)]
      exact (List.perm_append_singleton _ _).symm

/-! ## specification of the clause loop -/

/-- what a checking closure guarantees; `Q Γ τ t'` is the property of the checked term -/
def SoundK (p : Program) (Q : Ctx → Ty → Term → Prop) (k : Checker) : Prop :=
  ∀ st Γ τ t' st', Inv p st → ctxNamesOk Γ = true → tyNamesOk τ = true →
    k st Γ τ = .ok (t', st') → Inv p st' ∧ Ext st st' ∧ Q Γ τ t'

/-- what is known about a clause `k` the loop has picked and checked into `o` -/
structure PickedOk (p : Program) (Q : Clause → Ctx → Ty → Term → Prop)
    (sigOf : SymbolTable → String → Option (Ctx × Ty)) (checkRet : Bool) (tyArgs : Tys) (Γ : Ctx)
    (st0 : SymbolTable) (k : ClauseK) (o : Clause) : Prop where
  pol : o.pol = k.src.pol
  xtor : o.xtor = k.src.xtor
  names : o.names = k.src.names
  ex : ∃ st1 sig bodyTy, Inv p st1 ∧ Ext st0 st1 ∧
    sigOf st1 (instName k.src.xtor tyArgs) = some (sig, bodyTy) ∧
    (checkRet = true → WfTy p bodyTy) ∧
    k.src.names.Nodup ∧ k.src.names.length = sig.length ∧ o.ctx = bindNames k.src.names sig ∧
    Q k.src (Γ ++ o.ctx) bodyTy o.body

theorem PickedOk.rebase {p Q sigOf checkRet tyArgs Γ st0 st1 k o}
    (h : PickedOk p Q sigOf checkRet tyArgs Γ st1 k o) (e : Ext st0 st1) :
    PickedOk p Q sigOf checkRet tyArgs Γ st0 k o := by
  obtain ⟨h1, h2, h3, st2, sig, bodyTy, g1, g2, g3⟩ := h
  exact ⟨h1, h2, h3, st2, sig, bodyTy, g1, e.trans g2, g3⟩

theorem clauseLoop_spec {p : Program} (ok : DeclsOk p) (hp : programNamesOk p = true)
    {Q : Clause → Ctx → Ty → Term → Prop}
    {sigOf : SymbolTable → String → Option (Ctx × Ty)} {missing : String} {checkRet : Bool}
    {tyArgs : Tys} {Γ : Ctx}
    (hΓ : ctxNamesOk Γ = true)
    (hsig : ∀ st n sig bodyTy, Inv p st → sigOf st n = some (sig, bodyTy) →
      ctxNamesOk sig = true ∧ tyNamesOk bodyTy = true) :
    ∀ (xtors : List String) (ks : List ClauseK) (acc : List Clause) (st : SymbolTable)
      (out : List Clause) (left : List ClauseK) (st' : SymbolTable),
    (∀ k ∈ ks, SoundK p (Q k.src) k.body) → Inv p st →
    clauseLoop sigOf missing checkRet tyArgs Γ xtors ks acc st = .ok (out, left, st') →
    Inv p st' ∧ Ext st st' ∧ ∃ picked : List (ClauseK × Clause),
      out = acc.reverse ++ picked.map Prod.snd ∧ (picked.map Prod.fst ++ left).Perm ks ∧
      picked.map (fun ko => ko.1.src.xtor) = xtors ∧
      ∀ ko ∈ picked, PickedOk p Q sigOf checkRet tyArgs Γ st ko.1 ko.2
  | [], ks, acc, st, out, left, st', _, inv, h => by
    obtain ⟨rfl, rfl, rfl⟩ := clauseLoop_nil_ok h
    exact ⟨inv, Ext.refl _, [], by simp, by simp, rfl, by simp⟩
  | x :: rest, ks, acc, st, out, left, st', hks, inv, h => by
    obtain ⟨pos, k, sig, bodyTy, st0, ctxClause, body', st1, hpos, hk, hs, hret, hnd, hadd, hbody,
      hrest⟩ := clauseLoop_cons_ok h
    have hkmem : k ∈ ks := List.mem_of_getElem? hk
    obtain ⟨hlen, rfl⟩ := addTypes_bindNames hadd
    obtain ⟨gsig, gty⟩ := hsig st _ sig bodyTy inv hs
    have hst0 : Inv p st0 ∧ Ext st st0 ∧ (checkRet = true → WfTy p bodyTy) := by
      cases checkRet with
      | false =>
        simp only [Bool.false_eq_true, if_false] at hret
        cases hret
        exact ⟨inv, Ext.refl _, by simp⟩
      | true =>
        simp only [if_true] at hret
        obtain ⟨i0, e0, w0, _⟩ := checkTy_sound ok hp bodyTy st st0 inv gty hret
        exact ⟨i0, e0, fun _ => w0⟩
    obtain ⟨inv0, ext0, wfret⟩ := hst0
    obtain ⟨inv1, ext1, hQ⟩ := hks k hkmem st0 _ _ _ _ inv0
      (ctxNamesOk_append hΓ (bindNames_namesOk gsig)) gty hbody
    obtain ⟨inv2, ext2, picked, hout, hperm, hx, hpk⟩ :=
      clauseLoop_spec ok hp hΓ hsig rest _ _ st1 out left st'
        (fun k' hk' => hks k' (mem_of_mem_swapRemove hk')) inv1 hrest
    have hkx : k.src.xtor = x := by
      obtain ⟨hlt, hpx, _⟩ := List.findIdx?_eq_some_iff_getElem.mp hpos
      obtain ⟨_, hk'⟩ := List.getElem?_eq_some_iff.mp hk
      rw [hk'] at hpx
      simpa using hpx
    refine ⟨inv2, (ext0.trans ext1).trans ext2,
      (k, ⟨k.src.pol, k.src.xtor, k.src.names, bindNames k.src.names sig, body'⟩) :: picked,
      ?_, ?_, ?_, ?_⟩
    · rw [hout]; simp
    · simp only [List.map_cons, List.cons_append]
      exact (List.Perm.cons _ hperm).trans (swapRemove_perm hk)
    · simp [hkx, hx]
    · intro ko hko
      rcases List.mem_cons.mp hko with rfl | hko
      · exact ⟨rfl, rfl, rfl, st, sig, bodyTy, inv, Ext.refl _, by rw [hkx]; exact hs, wfret,
          (namesNoDups_ok _ _ hnd).1, hlen, rfl, hQ⟩
      · exact (hpk ko hko).rebase (ext0.trans ext1)

end Scc.Fun.Check
