/-
  Scc.Fun.MainCall — the decidable condition "no definition of the program CALLS `main`".

  Why it exists: fun2core translates `main` without a continuation parameter (def.rs `compile_main`: the body
  is translated with the consumer `μ~x. exit x`), while call.rs appends a continuation argument to EVERY
  call. A program that calls `main` (e.g. `def main(n) { if n == 0 { 0 } else { 1 + main(n - 1) } }`)
  is accepted by the checker, translated to an ill-typed Core program (arity mismatch), and the compiled
  program exits inside the inner activation (result 0 instead of 3).  This is a genuine defect of /repo
  (finding D13, known finding `fun2core:main-called` of C02 / C01 / C12); the condition below is the
  hypothesis under which the semantic theorems about fun2core are stated, and the key by which the checks
  recognise the known finding.
-/
import Scc.Fun.Syntax

namespace Scc.Fun

mutual
  /-- does the term contain a call of the top-level function `main`? -/
  def Term.callsMain : Term → Bool
    | .var _ _ _ => false
    | .lit _ => false
    | .op a _ b => a.callsMain || b.callsMain
    | .ifc _ a b t e _ => a.callsMain || b.callsMain || t.callsMain || e.callsMain
    | .ifz _ a t e _ => a.callsMain || t.callsMain || e.callsMain
    | .print _ a n _ => a.callsMain || n.callsMain
    | .letIn _ _ b body _ => b.callsMain || body.callsMain
    | .call name args _ => name == "main" || args.callsMain
    | .ctor _ args _ => args.callsMain
    | .dtor s _ _ args _ => s.callsMain || args.callsMain
    | .case s _ cs _ => s.callsMain || cs.callsMain
    | .new cs _ => cs.callsMain
    | .label _ b _ => b.callsMain
    | .goto _ a _ => a.callsMain
    | .exit a _ => a.callsMain
    | .paren t => t.callsMain
  def Terms.callsMain : Terms → Bool
    | .nil => false
    | .cons t r => t.callsMain || r.callsMain
  def Clauses.callsMain : Clauses → Bool
    | .nil => false
    | .cons _ _ _ _ b r => b.callsMain || r.callsMain
end

/-- no definition of the checked program calls `main` -/
def noMainCall (p : CheckedProgram) : Bool := p.defs.all (fun d => !d.body.callsMain)

/-- line driver: input = S1 dump; `OK true|false` -/
def noMainCallLine (dump : String) : String :=
  match Sexp.parse dump with
  | none => "ERR sexp"
  | some sx =>
    match readChecked (dump.length + 10) sx with
    | none => "ERR read"
    | some p => "OK " ++ toString (noMainCall p)

end Scc.Fun
