/-
  Scc.Fun.CheckComplete2 — completeness of the checker model, part 2: table lookups find the
  instances / templates that exist, and the clause loop consumes exactly the clauses when their xtors
  are a permutation of the declared ones.
-/
import Scc.Fun.CheckComplete1

namespace Scc.Fun.Check
open Scc.Fun.Typing

theorem polarity_beq_self (pol : Polarity) : (pol == pol) = true := by cases pol <;> rfl

theorem lookupTyForXtor_some {pol : Polarity} : ∀ (types : AList (Polarity × Tys × List String))
    (key : String) (ta : Tys) (xs : List String) (x : String),
    (key, (pol, ta, xs)) ∈ types → x ∈ xs → ∃ r, lookupTyForXtor pol types (instName x ta) = some r
  | [], _, _, _, _, hm, _ => by cases hm
  | (name, (p', tyArgs, xtors)) :: rest, key, ta, xs, x, hm, hx => by
    simp only [lookupTyForXtor]
    split
    · exact ⟨_, rfl⟩
    · rename_i hc
      rcases List.mem_cons.mp hm with he | hm
      · exfalso
        cases he
        apply hc
        simp only [Bool.and_eq_true, polarity_beq_self, List.any_eq_true, decide_eq_true_eq, true_and]
        exact ⟨x, hx, rfl⟩
      · exact lookupTyForXtor_some rest key ta xs x hm hx

theorem findTemplateForXtor_some {pol : Polarity} :
    ∀ (tmpl : AList (Polarity × List String × List String)) (n : String) (params xs : List String)
      (x : String), (n, (pol, params, xs)) ∈ tmpl → x ∈ xs →
      ∃ r, findTemplateForXtor pol tmpl x = some r
  | [], _, _, _, _, hm, _ => by cases hm
  | (n0, (p', params0, xtors)) :: rest, n, params, xs, x, hm, hx => by
    simp only [findTemplateForXtor]
    split
    · exact ⟨_, rfl⟩
    · rename_i hc
      rcases List.mem_cons.mp hm with he | hm
      · exfalso
        cases he
        apply hc
        simp [polarity_beq_self, hx]
      · exact findTemplateForXtor_some rest n params xs x hm hx

theorem resolveXtorTy_codata_complete {p : Program} (ok : DeclsOk p) (hp : programNamesOk p = true)
    {st : SymbolTable} {d : Codata} {s : DtorSig} {tyArgs : Tys} (inv : Inv p st)
    (hd : d ∈ codatas p) (hs : s ∈ d.dtors) (hta : tysNamesOk tyArgs = true)
    (hwf : WfTy p (.decl d.name tyArgs)) :
    ∃ r st1, resolveXtorTy .codata st s.name tyArgs = .ok (r, st1) := by
  simp only [resolveXtorTy]
  cases hl : lookupTyForXtor .codata st.types (instName s.name tyArgs) with
  | some r => exact ⟨r, st, rfl⟩
  | none =>
    simp only [lookupTyTemplateForXtor]
    have hm := AList.mem_of_get? (inv.tmplCodataC d hd)
    obtain ⟨⟨name, xs⟩, hf⟩ := findTemplateForXtor_some _ _ _ _ s.name hm
      (List.mem_map.mpr ⟨s, hs, rfl⟩)
    rw [hf]
    simp only
    obtain ⟨params, hm', hx⟩ := findTemplateForXtor_ok _ _ _ _ hf
    rcases inv.tmpl _ _ _ _ hm' with ⟨hpol, _⟩ | ⟨_, d', hd', rfl, _, rfl⟩
    · cases hpol
    · obtain ⟨s', hs', hn⟩ := List.mem_map.mp hx
      obtain ⟨rfl, _⟩ := dtor_unique ok hd' hs' hd hs hn
      have hgood : tyNamesOk (.decl d'.name tyArgs) = true := by
        simp [tyNamesOk, (codata_namesOk hp hd).1, hta]
      obtain ⟨st1, h1⟩ := checkTy_complete ok hp _ st inv hgood hwf
      rw [h1]
      exact ⟨_, _, rfl⟩

theorem resolveXtorTy_data_complete {p : Program} (ok : DeclsOk p) (hp : programNamesOk p = true)
    {st : SymbolTable} {d : Data} {s : CtorSig} {tyArgs : Tys} (inv : Inv p st)
    (hd : d ∈ datas p) (hs : s ∈ d.ctors) (hta : tysNamesOk tyArgs = true)
    (hwf : WfTy p (.decl d.name tyArgs)) :
    ∃ r st1, resolveXtorTy .data st s.name tyArgs = .ok (r, st1) := by
  simp only [resolveXtorTy]
  cases hl : lookupTyForXtor .data st.types (instName s.name tyArgs) with
  | some r => exact ⟨r, st, rfl⟩
  | none =>
    simp only [lookupTyTemplateForXtor]
    have hm := AList.mem_of_get? (inv.tmplDataC d hd)
    obtain ⟨⟨name, xs⟩, hf⟩ := findTemplateForXtor_some _ _ _ _ s.name hm
      (List.mem_map.mpr ⟨s, hs, rfl⟩)
    rw [hf]
    simp only
    obtain ⟨params, hm', hx⟩ := findTemplateForXtor_ok _ _ _ _ hf
    rcases inv.tmpl _ _ _ _ hm' with ⟨_, d', hd', rfl, _, rfl⟩ | ⟨hpol, _⟩
    · obtain ⟨s', hs', hn⟩ := List.mem_map.mp hx
      obtain ⟨rfl, _⟩ := ctor_unique ok hd' hs' hd hs hn
      have hgood : tyNamesOk (.decl d'.name tyArgs) = true := by
        simp [tyNamesOk, (data_namesOk hp hd).1, hta]
      obtain ⟨st1, h1⟩ := checkTy_complete ok hp _ st inv hgood hwf
      rw [h1]
      exact ⟨_, _, rfl⟩
    · cases hpol

/-! ## `no_dups`, `add_types` -/

theorem namesNoDups_complete : ∀ (l seen : List String), l.Nodup → (∀ x ∈ l, x ∉ seen) →
    namesNoDups l seen = .ok ()
  | [], _, _, _ => rfl
  | b :: r, seen, hn, hs => by
    simp only [List.nodup_cons] at hn
    have hb : seen.contains b = false := by
      simpa using hs b (by simp)
    simp only [namesNoDups, hb, Bool.false_eq_true, if_false]
    apply namesNoDups_complete r (b :: seen) hn.2
    intro x hx
    simp only [List.mem_cons, not_or]
    exact ⟨fun h => hn.1 (h ▸ hx), hs x (by simp [hx])⟩

theorem addTypes_complete {names : List String} {sig : Ctx} (h : names.length = sig.length) :
    addTypes names sig = .ok (bindNames names sig) := by
  simp [addTypes, h, bindNames]

/-! ## the clause loop -/

/-- a checking closure accepts whatever is typed (given that the instance of the expected type
exists) -/
def CompleteK (p : Program) (t : Term) (k : Checker) : Prop :=
  ∀ Γ τ, HasType p Γ t τ → ∀ st, Inv p st → ctxNamesOk Γ = true → tyNamesOk τ = true →
    InstIn st τ → ∃ t' st', k st Γ τ = .ok (t', st')

theorem clauseLoop_complete {p : Program} (ok : DeclsOk p) (hp : programNamesOk p = true)
    {sigOf : SymbolTable → String → Option (Ctx × Ty)} {missing : String} {checkRet : Bool}
    {tyArgs : Tys} {Γ : Ctx} (hΓ : ctxNamesOk Γ = true) (st0 : SymbolTable) :
    ∀ (xtors : List String) (ks : List ClauseK) (acc : List Clause) (st : SymbolTable),
    (ks.map (fun k => k.src.xtor)).Perm xtors →
    (∀ k ∈ ks, SoundK p (ClauseQ p k.src) k.body) →
    (∀ k ∈ ks, CompleteK p k.src.body k.body) →
    Inv p st → Ext st0 st →
    (∀ k ∈ ks, ∀ st1, Inv p st1 → Ext st0 st1 → ∃ sig bodyTy,
      sigOf st1 (instName k.src.xtor tyArgs) = some (sig, bodyTy) ∧ ctxNamesOk sig = true ∧
      tyNamesOk bodyTy = true ∧ (if checkRet then WfTy p bodyTy else InstIn st1 bodyTy) ∧
      k.src.names.Nodup ∧ k.src.names.length = sig.length ∧
      HasType p (Γ ++ bindNames k.src.names sig) k.src.body bodyTy) →
    ∃ out st', clauseLoop sigOf missing checkRet tyArgs Γ xtors ks acc st = .ok (out, [], st')
  | [], ks, acc, st, hperm, _, _, _, _, _ => by
    have : ks = [] := by
      have := hperm.eq_nil
      simpa using this
    subst this
    exact ⟨_, _, rfl⟩
  | x :: rest, ks, acc, st, hperm, hsound, hcompl, inv, ext, hstep => by
    have hxin : x ∈ ks.map (fun k => k.src.xtor) := hperm.symm.subset (by simp)
    obtain ⟨kx, hkx, hkxx⟩ := List.mem_map.mp hxin
    cases hfind : ks.findIdx? (fun k => k.src.xtor = x) with
    | none =>
      exfalso
      have := List.findIdx?_eq_none_iff.mp hfind kx hkx
      simp [hkxx] at this
    | some pos =>
      obtain ⟨hlt, hpx, _⟩ := List.findIdx?_eq_some_iff_getElem.mp hfind
      have hget : ks[pos]? = some ks[pos] := List.getElem?_eq_getElem hlt
      have hkmem : ks[pos] ∈ ks := List.getElem_mem hlt
      have hkx' : ks[pos].src.xtor = x := by simpa using hpx
      obtain ⟨sig, bodyTy, hs, gsig, gty, hret, hnd, hlen, hty⟩ := hstep _ hkmem st inv ext
      rw [hkx'] at hs
      -- the optional check of the return type
      have hck : ∃ stc, (if checkRet then checkTy bodyTy st else .ok st) = .ok stc ∧ Inv p stc ∧
          Ext st stc ∧ InstIn stc bodyTy := by
        cases checkRet with
        | true =>
          simp only [if_true] at hret ⊢
          obtain ⟨stc, hc⟩ := checkTy_complete ok hp bodyTy st inv gty hret
          obtain ⟨i1, e1, _, in1⟩ := checkTy_sound ok hp bodyTy st stc inv gty hc
          exact ⟨stc, hc, i1, e1, in1⟩
        | false =>
          simp only [Bool.false_eq_true, if_false] at hret ⊢
          exact ⟨st, rfl, inv, Ext.refl _, hret⟩
      obtain ⟨stc, hc, invc, extc, hin⟩ := hck
      have hctx : ctxNamesOk (Γ ++ bindNames ks[pos].src.names sig) = true :=
        ctxNamesOk_append hΓ (bindNames_namesOk gsig)
      obtain ⟨body', st1, hbody⟩ := hcompl _ hkmem _ _ hty stc invc hctx gty hin
      obtain ⟨inv1, ext1, _⟩ := hsound _ hkmem stc _ _ _ _ invc hctx gty hbody
      have hperm' : ((swapRemove ks pos).map (fun k => k.src.xtor)).Perm rest := by
        have h1 := (swapRemove_perm hget).map (fun k => k.src.xtor)
        simp only [List.map_cons, hkx'] at h1
        exact (h1.trans hperm).cons_inv
      have ext01 : Ext st0 st1 := (ext.trans extc).trans ext1
      obtain ⟨out, st', hrest⟩ := clauseLoop_complete (missing := missing) ok hp hΓ st0 rest
        (swapRemove ks pos)
        (⟨ks[pos].src.pol, ks[pos].src.xtor, ks[pos].src.names, bindNames ks[pos].src.names sig,
          body'⟩ :: acc) st1 hperm'
        (fun k hk => hsound k (mem_of_mem_swapRemove hk))
        (fun k hk => hcompl k (mem_of_mem_swapRemove hk)) inv1 ext01
        (fun k hk => hstep k (mem_of_mem_swapRemove hk))
      have hnn : namesNoDups ks[pos].src.names [] = .ok () :=
        namesNoDups_complete _ [] hnd (fun x _ h => by cases h)
      refine ⟨out, st', ?_⟩
      simp only [clauseLoop, hfind, hget, hs, hc, hnn, addTypes_complete hlen, hbody]
      exact hrest

end Scc.Fun.Check
