/-
  Scc.Fun.Syntax — the surface language Fun, as in /repo/lang/fun/src/syntax/** (source spans
  dropped), with reader/writer for the S-expression dump format of /verif/harness/src/dump_fun.rs.
  Core imports only; executable.

  Representation notes: `Vec<Term>` (arguments), `Vec<Clause>`, `Vec<Ty>` (type arguments) are the
  dedicated list types `Terms`, `Clauses`, `Tys` of a mutual inductive, so that recursion over
  syntax is structural; `Option<Rc<Term>>` of `IfC.snd` is split into constructors `ifc` / `ifz`.
  Annotation fields filled by the type checker (`ty`, `chi`, clause `context`) are kept, as
  `Option`s, because fun2core reads them.
-/
import Scc.Sexp

namespace Scc.Fun

mutual
  inductive Ty where
    | i64
    | decl (name : String) (args : Tys)
  inductive Tys where
    | nil
    | cons (t : Ty) (rest : Tys)
end

instance : Inhabited Ty := ⟨.i64⟩

def Tys.toList : Tys → List Ty
  | .nil => []
  | .cons t r => t :: r.toList

def Tys.ofList : List Ty → Tys
  | [] => .nil
  | t :: r => .cons t (Tys.ofList r)

mutual
  def Ty.beq : Ty → Ty → Bool
    | .i64, .i64 => true
    | .decl n a, .decl m b => n == m && Tys.beq a b
    | _, _ => false
  def Tys.beq : Tys → Tys → Bool
    | .nil, .nil => true
    | .cons t r, .cons u s => Ty.beq t u && Tys.beq r s
    | _, _ => false
end

instance : BEq Ty := ⟨Ty.beq⟩
instance : BEq Tys := ⟨Tys.beq⟩

/-- chirality of a binding (fun/src/syntax/context.rs) -/
inductive Chi where
  | prd | cns
  deriving DecidableEq, Repr, BEq, Inhabited

structure Binding where
  var : String
  chi : Chi
  ty : Ty
  deriving Inhabited

instance : BEq Binding := ⟨fun a b => a.var == b.var && a.chi == b.chi && a.ty == b.ty⟩

abbrev Ctx := List Binding

inductive BinOp where
  | div | prod | rem | sum | sub
  deriving DecidableEq, Repr, BEq, Inhabited

inductive IfSort where
  | eq | ne | lt | le | gt | ge
  deriving DecidableEq, Repr, BEq, Inhabited

inductive Polarity where
  | data | codata
  deriving DecidableEq, Repr, BEq, Inhabited

mutual
  inductive Term where
    | var (x : String) (ty : Option Ty) (chi : Option Chi)
    | lit (n : Int)
    | op (fst : Term) (o : BinOp) (snd : Term)
    | ifc (sort : IfSort) (fst : Term) (snd : Term) (thenc : Term) (elsec : Term) (ty : Option Ty)
    | ifz (sort : IfSort) (fst : Term) (thenc : Term) (elsec : Term) (ty : Option Ty)
    | print (newline : Bool) (arg : Term) (next : Term) (ty : Option Ty)
    | letIn (x : String) (varTy : Ty) (bound : Term) (body : Term) (ty : Option Ty)
    | call (name : String) (args : Terms) (retTy : Option Ty)
    | ctor (id : String) (args : Terms) (ty : Option Ty)
    | dtor (scrutinee : Term) (id : String) (tyArgs : Tys) (args : Terms) (ty : Option Ty)
    | case (scrutinee : Term) (tyArgs : Tys) (clauses : Clauses) (ty : Option Ty)
    | new (clauses : Clauses) (ty : Option Ty)
    | label (a : String) (body : Term) (ty : Option Ty)
    | goto (a : String) (arg : Term) (ty : Option Ty)
    | exit (arg : Term) (ty : Option Ty)
    | paren (inner : Term)
  inductive Terms where
    | nil
    | cons (t : Term) (rest : Terms)
  inductive Clauses where
    | nil
    | cons (pol : Polarity) (xtor : String) (names : List String) (ctx : Ctx) (body : Term)
        (rest : Clauses)
end

instance : Inhabited Term := ⟨.lit 0⟩

def Terms.toList : Terms → List Term
  | .nil => []
  | .cons t r => t :: r.toList

def Terms.ofList : List Term → Terms
  | [] => .nil
  | t :: r => .cons t (Terms.ofList r)

structure Clause where
  pol : Polarity
  xtor : String
  names : List String
  ctx : Ctx
  body : Term

def Clauses.toList : Clauses → List Clause
  | .nil => []
  | .cons p x n c b r => ⟨p, x, n, c, b⟩ :: r.toList

def Clauses.ofList : List Clause → Clauses
  | [] => .nil
  | c :: cs => .cons c.pol c.xtor c.names c.ctx c.body (Clauses.ofList cs)

structure CtorSig where
  name : String
  args : Ctx

structure DtorSig where
  name : String
  args : Ctx
  contTy : Ty

structure Data where
  name : String
  typeParams : List String
  ctors : List CtorSig

structure Codata where
  name : String
  typeParams : List String
  dtors : List DtorSig

structure Def where
  name : String
  ctx : Ctx
  retTy : Ty
  body : Term

inductive Decl where
  | data (d : Data)
  | codata (d : Codata)
  | defn (d : Def)

/-- parser output -/
structure Program where
  decls : List Decl

/-- type checker output (fun/src/syntax/program.rs CheckedProgram) -/
structure CheckedProgram where
  dataTypes : List Data
  codataTypes : List Codata
  defs : List Def

/-! ## writer -/

section
open Sexp

mutual
  def Ty.toSexp : Ty → Sexp
    | .i64 => .atom "i64"
    | .decl n a => node "ty" (.str n :: a.toSexps)
  def Tys.toSexps : Tys → List Sexp
    | .nil => []
    | .cons t r => t.toSexp :: r.toSexps
end

def otyToSexp : Option Ty → Sexp
  | none => .atom "none"
  | some t => t.toSexp

def Chi.toSexp : Chi → Sexp
  | .prd => .atom "prd" | .cns => .atom "cns"

def Binding.toSexp (b : Binding) : Sexp := node "b" [.str b.var, b.chi.toSexp, b.ty.toSexp]

def ctxToSexp (c : Ctx) : Sexp := node "ctx" (c.map Binding.toSexp)

def BinOp.sym : BinOp → String
  | .div => "/" | .prod => "*" | .rem => "%" | .sum => "+" | .sub => "-"

def IfSort.sym : IfSort → String
  | .eq => "eq" | .ne => "ne" | .lt => "lt" | .le => "le" | .gt => "gt" | .ge => "ge"

mutual
  def Term.toSexp : Term → Sexp
    | .var x t c => node "var" [.str x, otyToSexp t,
        (match c with | none => .atom "none" | some c => c.toSexp)]
    | .lit n => node "lit" [int n]
    | .op a o b => node "op" [.atom o.sym, a.toSexp, b.toSexp]
    | .ifc s a b t e ty => node "ifc" [.atom s.sym, a.toSexp, b.toSexp, t.toSexp, e.toSexp, otyToSexp ty]
    | .ifz s a t e ty => node "ifc" [.atom s.sym, a.toSexp, .atom "none", t.toSexp, e.toSexp, otyToSexp ty]
    | .print nl a n ty => node "print" [.atom (if nl then "nl" else "nonl"), a.toSexp, n.toSexp, otyToSexp ty]
    | .letIn x vt b i ty => node "let" [.str x, vt.toSexp, b.toSexp, i.toSexp, otyToSexp ty]
    | .call f a ty => node "call" [.str f, node "args" a.toSexps, otyToSexp ty]
    | .ctor k a ty => node "ctor" [.str k, node "args" a.toSexps, otyToSexp ty]
    | .dtor s d ta a ty => node "dtor" [s.toSexp, .str d, node "tyargs" ta.toSexps, node "args" a.toSexps, otyToSexp ty]
    | .case s ta cs ty => node "case" [s.toSexp, node "tyargs" ta.toSexps, node "clauses" cs.toSexps, otyToSexp ty]
    | .new cs ty => node "new" [node "clauses" cs.toSexps, otyToSexp ty]
    | .label a t ty => node "label" [.str a, t.toSexp, otyToSexp ty]
    | .goto a t ty => node "goto" [.str a, t.toSexp, otyToSexp ty]
    | .exit t ty => node "exit" [t.toSexp, otyToSexp ty]
    | .paren t => node "paren" [t.toSexp]
  def Terms.toSexps : Terms → List Sexp
    | .nil => []
    | .cons t r => t.toSexp :: r.toSexps
  def Clauses.toSexps : Clauses → List Sexp
    | .nil => []
    | .cons p x ns c b r =>
      node "clause" [.atom (match p with | .data => "data" | .codata => "codata"), .str x,
        node "names" (ns.map .str), ctxToSexp c, b.toSexp] :: r.toSexps
end

def Data.toSexp (d : Data) : Sexp :=
  node "data" (.str d.name :: node "tparams" (d.typeParams.map .str) ::
    d.ctors.map fun c => node "ctor" [.str c.name, ctxToSexp c.args])

def Codata.toSexp (d : Codata) : Sexp :=
  node "codata" (.str d.name :: node "tparams" (d.typeParams.map .str) ::
    d.dtors.map fun c => node "dtor" [.str c.name, ctxToSexp c.args, c.contTy.toSexp])

def Def.toSexp (d : Def) : Sexp :=
  node "def" [.str d.name, ctxToSexp d.ctx, d.retTy.toSexp, d.body.toSexp]

def Program.toSexp (p : Program) : Sexp :=
  node "prog" (p.decls.map fun
    | .data d => d.toSexp
    | .codata d => d.toSexp
    | .defn d => d.toSexp)

def CheckedProgram.toSexp (p : CheckedProgram) : Sexp :=
  node "checked" [node "datas" (p.dataTypes.map Data.toSexp),
    node "codatas" (p.codataTypes.map Codata.toSexp), node "defs" (p.defs.map Def.toSexp)]

end

/-! ## reader -/

mutual
  def readTy : Nat → Sexp → Option Ty
    | 0, _ => none
    | _, .atom "i64" => some .i64
    | fuel + 1, s =>
      match s.tagged "ty" with
      | some (n :: args) => do pure (.decl (← n.asStr) (← readTys fuel args))
      | _ => none
  def readTys : Nat → List Sexp → Option Tys
    | 0, _ => none
    | _, [] => some .nil
    | fuel + 1, t :: r => do pure (.cons (← readTy fuel t) (← readTys fuel r))
end

def readOTy (fuel : Nat) : Sexp → Option (Option Ty)
  | .atom "none" => some none
  | s => (readTy fuel s).map some

def readChi : Sexp → Option Chi
  | .atom "prd" => some .prd
  | .atom "cns" => some .cns
  | _ => none

def readBinding (fuel : Nat) (s : Sexp) : Option Binding :=
  match s.tagged "b" with
  | some [v, c, t] => do pure ⟨← v.asStr, ← readChi c, ← readTy fuel t⟩
  | _ => none

def readCtx (fuel : Nat) (s : Sexp) : Option Ctx := do
  let items ← s.tagged "ctx"
  items.mapM (readBinding fuel)

def readBinOp : Sexp → Option BinOp
  | .atom "/" => some .div | .atom "*" => some .prod | .atom "%" => some .rem
  | .atom "+" => some .sum | .atom "-" => some .sub | _ => none

def readIfSort : Sexp → Option IfSort
  | .atom "eq" => some .eq | .atom "ne" => some .ne | .atom "lt" => some .lt
  | .atom "le" => some .le | .atom "gt" => some .gt | .atom "ge" => some .ge | _ => none

mutual
  def readTerm : Nat → Sexp → Option Term
    | 0, _ => none
    | fuel + 1, s =>
      match s.headOf with
      | some ("var", [x, t, c]) => do
        let c' ← match c with
          | .atom "none" => some none
          | y => (readChi y).map some
        pure (.var (← x.asStr) (← readOTy fuel t) c')
      | some ("lit", [n]) => do pure (.lit (← n.asInt))
      | some ("op", [o, a, b]) => do pure (.op (← readTerm fuel a) (← readBinOp o) (← readTerm fuel b))
      | some ("ifc", [srt, a, .atom "none", t, e, ty]) => do
        pure (.ifz (← readIfSort srt) (← readTerm fuel a) (← readTerm fuel t) (← readTerm fuel e) (← readOTy fuel ty))
      | some ("ifc", [srt, a, b, t, e, ty]) => do
        pure (.ifc (← readIfSort srt) (← readTerm fuel a) (← readTerm fuel b) (← readTerm fuel t)
          (← readTerm fuel e) (← readOTy fuel ty))
      | some ("print", [nl, a, n, ty]) => do
        pure (.print ((← nl.asAtom) == "nl") (← readTerm fuel a) (← readTerm fuel n) (← readOTy fuel ty))
      | some ("let", [x, vt, b, i, ty]) => do
        pure (.letIn (← x.asStr) (← readTy fuel vt) (← readTerm fuel b) (← readTerm fuel i) (← readOTy fuel ty))
      | some ("call", [f, a, ty]) => do
        pure (.call (← f.asStr) (← readTerms fuel (← a.tagged "args")) (← readOTy fuel ty))
      | some ("ctor", [k, a, ty]) => do
        pure (.ctor (← k.asStr) (← readTerms fuel (← a.tagged "args")) (← readOTy fuel ty))
      | some ("dtor", [sc, d, ta, a, ty]) => do
        pure (.dtor (← readTerm fuel sc) (← d.asStr) (← readTys fuel (← ta.tagged "tyargs"))
          (← readTerms fuel (← a.tagged "args")) (← readOTy fuel ty))
      | some ("case", [sc, ta, cs, ty]) => do
        pure (.case (← readTerm fuel sc) (← readTys fuel (← ta.tagged "tyargs"))
          (← readClauses fuel (← cs.tagged "clauses")) (← readOTy fuel ty))
      | some ("new", [cs, ty]) => do
        pure (.new (← readClauses fuel (← cs.tagged "clauses")) (← readOTy fuel ty))
      | some ("label", [a, t, ty]) => do pure (.label (← a.asStr) (← readTerm fuel t) (← readOTy fuel ty))
      | some ("goto", [a, t, ty]) => do pure (.goto (← a.asStr) (← readTerm fuel t) (← readOTy fuel ty))
      | some ("exit", [t, ty]) => do pure (.exit (← readTerm fuel t) (← readOTy fuel ty))
      | some ("paren", [t]) => do pure (.paren (← readTerm fuel t))
      | _ => none
  def readTerms : Nat → List Sexp → Option Terms
    | 0, _ => none
    | _, [] => some .nil
    | fuel + 1, t :: r => do pure (.cons (← readTerm fuel t) (← readTerms fuel r))
  def readClauses : Nat → List Sexp → Option Clauses
    | 0, _ => none
    | _, [] => some .nil
    | fuel + 1, c :: cs =>
      match c.tagged "clause" with
      | some [p, x, ns, ctx, b] => do
        let pol ← match p with
          | .atom "data" => some Polarity.data
          | .atom "codata" => some Polarity.codata
          | _ => none
        let names ← (← ns.tagged "names").mapM Sexp.asStr
        pure (.cons pol (← x.asStr) names (← readCtx fuel ctx) (← readTerm fuel b) (← readClauses fuel cs))
      | _ => none
end

def readStrs (s : Sexp) (tag : String) : Option (List String) := do
  (← s.tagged tag).mapM Sexp.asStr

def readData (fuel : Nat) (s : Sexp) : Option Data :=
  match s.tagged "data" with
  | some (n :: tp :: cs) => do
    let ctors ← cs.mapM fun c =>
      match c.tagged "ctor" with
      | some [cn, a] => do pure (⟨← cn.asStr, ← readCtx fuel a⟩ : CtorSig)
      | _ => none
    pure ⟨← n.asStr, ← readStrs tp "tparams", ctors⟩
  | _ => none

def readCodata (fuel : Nat) (s : Sexp) : Option Codata :=
  match s.tagged "codata" with
  | some (n :: tp :: ds) => do
    let dtors ← ds.mapM fun c =>
      match c.tagged "dtor" with
      | some [dn, a, t] => do pure (⟨← dn.asStr, ← readCtx fuel a, ← readTy fuel t⟩ : DtorSig)
      | _ => none
    pure ⟨← n.asStr, ← readStrs tp "tparams", dtors⟩
  | _ => none

def readDef (fuel : Nat) (s : Sexp) : Option Def :=
  match s.tagged "def" with
  | some [n, c, t, b] => do pure ⟨← n.asStr, ← readCtx fuel c, ← readTy fuel t, ← readTerm fuel b⟩
  | _ => none

def readProgram (fuel : Nat) (s : Sexp) : Option Program := do
  let items ← s.tagged "prog"
  let decls ← items.mapM fun d =>
    match d.headOf with
    | some ("data", _) => (readData fuel d).map Decl.data
    | some ("codata", _) => (readCodata fuel d).map Decl.codata
    | some ("def", _) => (readDef fuel d).map Decl.defn
    | _ => none
  pure ⟨decls⟩

def readChecked (fuel : Nat) (s : Sexp) : Option CheckedProgram :=
  match s.tagged "checked" with
  | some [ds, cs, fs] => do
    pure ⟨← (← ds.tagged "datas").mapM (readData fuel), ← (← cs.tagged "codatas").mapM (readCodata fuel),
      ← (← fs.tagged "defs").mapM (readDef fuel)⟩
  | _ => none

end Scc.Fun
