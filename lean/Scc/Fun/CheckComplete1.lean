/-
  Scc.Fun.CheckComplete1 — completeness of the checker model, part 1: a well-formed type is accepted
  by `checkTy` (instances are created on demand), `checkEquality` of a well-formed type with itself
  succeeds.
-/
import Scc.Fun.CheckSound6
import Scc.Fun.TypingLemmas

namespace Scc.Fun.Check
open Scc.Fun.Typing

theorem wfTy_decl_inv' {p : Program} {n : String} {args : Tys} (h : WfTy p (.decl n args)) :
    (∃ d ∈ datas p, d.name = n ∧ args.toList.length = d.typeParams.length ∧ WfTys p args) ∨
    (∃ d ∈ codatas p, d.name = n ∧ args.toList.length = d.typeParams.length ∧ WfTys p args) := by
  generalize ht : Ty.decl n args = t at h
  cases h with
  | i64 => cases ht
  | data d a hd hl hw => cases ht; exact .inl ⟨d, hd, rfl, hl, hw⟩
  | codata d a hd hl hw => cases ht; exact .inr ⟨d, hd, rfl, hl, hw⟩

theorem insertCtorInstances_total (m : List (String × Ty)) (tyArgs : Tys) :
    ∀ (cs : List CtorSig) (st : SymbolTable),
    (∀ c ∈ cs, st.ctorTemplates.get? c.name = some c.args) →
    ∃ st2, insertCtorInstances m tyArgs (cs.map (·.name)) st = .ok st2
  | [], st, _ => ⟨st, by simp [insertCtorInstances]⟩
  | c :: r, st, h => by
    simp only [List.map_cons, insertCtorInstances, h c (by simp)]
    exact insertCtorInstances_total m tyArgs r _ (fun x hx => by simpa using h x (by simp [hx]))

theorem insertDtorInstances_total (m : List (String × Ty)) (tyArgs : Tys) :
    ∀ (cs : List DtorSig) (st : SymbolTable),
    (∀ c ∈ cs, st.dtorTemplates.get? c.name = some (c.args, c.contTy)) →
    ∃ st2, insertDtorInstances m tyArgs (cs.map (·.name)) st = .ok st2
  | [], st, _ => ⟨st, by simp [insertDtorInstances]⟩
  | c :: r, st, h => by
    simp only [List.map_cons, insertDtorInstances, h c (by simp)]
    exact insertDtorInstances_total m tyArgs r _ (fun x hx => by simpa using h x (by simp [hx]))

mutual
  theorem checkTy_complete {p : Program} (ok : DeclsOk p) (hp : programNamesOk p = true) :
      ∀ (τ : Ty) (st : SymbolTable), Inv p st → tyNamesOk τ = true → WfTy p τ →
      ∃ st', checkTy τ st = .ok st'
    | .i64, st, _, _, _ => ⟨st, by simp [checkTy]⟩
    | .decl n args, st, inv, hn, hwf => by
      simp only [tyNamesOk, Bool.and_eq_true] at hn
      simp only [checkTy]
      cases hget : st.types.get? (instName n args) with
      | some v => exact ⟨st, rfl⟩
      | none =>
        simp only
        rcases wfTy_decl_inv' hwf with ⟨d, hd, rfl, hl, hw⟩ | ⟨d, hd, rfl, hl, hw⟩
        · rw [inv.tmplDataC d hd]
          simp only
          have hlen : ¬ (tysLength args != d.typeParams.length) = true := by
            simp [tysLength, hl]
          simp only [hlen]
          obtain ⟨st1, h1⟩ := checkTys_complete ok hp args st inv hn.2 hw
          obtain ⟨inv1, _, _⟩ := checkTys_sound ok hp args st st1 inv hn.2 h1
          rw [h1]
          simp only [createInstanceRest]
          obtain ⟨st2, h2⟩ := insertCtorInstances_total (d.typeParams.zip args.toList) args d.ctors
            st1 (inv1.ctorTmpl d hd)
          rw [h2]
          exact ⟨_, rfl⟩
        · rw [inv.tmplCodataC d hd]
          simp only
          have hlen : ¬ (tysLength args != d.typeParams.length) = true := by
            simp [tysLength, hl]
          simp only [hlen]
          obtain ⟨st1, h1⟩ := checkTys_complete ok hp args st inv hn.2 hw
          obtain ⟨inv1, _, _⟩ := checkTys_sound ok hp args st st1 inv hn.2 h1
          rw [h1]
          simp only [createInstanceRest]
          obtain ⟨st2, h2⟩ := insertDtorInstances_total (d.typeParams.zip args.toList) args d.dtors
            st1 (inv1.dtorTmpl d hd)
          rw [h2]
          exact ⟨_, rfl⟩
  theorem checkTys_complete {p : Program} (ok : DeclsOk p) (hp : programNamesOk p = true) :
      ∀ (ts : Tys) (st : SymbolTable), Inv p st → tysNamesOk ts = true → WfTys p ts →
      ∃ st', checkTys ts st = .ok st'
    | .nil, st, _, _, _ => ⟨st, by simp [checkTys]⟩
    | .cons t r, st, inv, hn, hwf => by
      simp only [tysNamesOk, Bool.and_eq_true] at hn
      cases hwf with
      | cons ht hr =>
        obtain ⟨st1, h1⟩ := checkTy_complete ok hp t st inv hn.1 ht
        obtain ⟨inv1, _, _, _⟩ := checkTy_sound ok hp t st st1 inv hn.1 h1
        obtain ⟨st2, h2⟩ := checkTys_complete ok hp r st1 inv1 hn.2 hr
        exact ⟨st2, by simp [checkTys, h1, h2]⟩
end

/-- `check_equality(τ, τ)` succeeds on a well-formed type; afterwards its instance exists -/
theorem checkEquality_complete {p : Program} (ok : DeclsOk p) (hp : programNamesOk p = true)
    {st : SymbolTable} {τ : Ty} (inv : Inv p st) (hn : tyNamesOk τ = true) (hwf : WfTy p τ) :
    ∃ st', checkEquality st τ τ = .ok st' := by
  obtain ⟨st1, h1⟩ := checkTy_complete ok hp τ st inv hn hwf
  obtain ⟨inv1, _, _, _⟩ := checkTy_sound ok hp τ st st1 inv hn h1
  obtain ⟨st2, h2⟩ := checkTy_complete ok hp τ st1 inv1 hn hwf
  refine ⟨st2, ?_⟩
  have hne : ¬ (τ != τ) = true := (Ty.not_bne_iff τ τ).mpr rfl
  simp [checkEquality, h1, h2, hne]

theorem checkAnnot_complete {p : Program} (ok : DeclsOk p) (hp : programNamesOk p = true)
    {st : SymbolTable} {ty : Option Ty} {found : Ty} (inv : Inv p st)
    (hn : tyNamesOk found = true) (hwf : WfTy p found) (hann : ∀ t, ty = some t → t = found) :
    ∃ st', checkAnnot st ty found = .ok st' := by
  cases ty with
  | none => exact ⟨st, rfl⟩
  | some t =>
    have := hann t rfl
    subst this
    exact checkEquality_complete ok hp inv hn hwf

end Scc.Fun.Check
