/-
  Scc.Fun.SemTests — non-vacuity tests of the Fun reference machine (Scc/Fun/Sem.lean).
  The dumps are stage S1 of programs in /verif/gen/corpus/sem (harness output, verbatim); the
  expected lines were cross-checked against the natively run x86-64 code (see x86run.py), except
  `d01` where the compiled code is wrong (variable capture in fun2core) and the machine is right.
  `example … := by decide` where the kernel can reduce; `#guard` (compiled evaluation, adds no
  axioms) for the tests that go through the S-expression reader.
-/
import Scc.Fun.Sem

namespace Scc.Fun.SemTests
open Scc.Fun

/-! ### kernel-checked examples on directly constructed syntax -/

def v (x : String) : Term := .var x (some .i64) (some .prd)

/-- `def main(n: i64): i64 { let x: i64 = n * 2; println_i64(x); x + 1 }` -/
def tiny : CheckedProgram :=
  { dataTypes := [], codataTypes := [],
    defs := [⟨"main", [⟨"n", .prd, .i64⟩], .i64,
      .letIn "x" .i64 (.op (v "n") .prod (.lit 2))
        (.print true (v "x") (.op (v "x") .sum (.lit 1)) (some .i64)) (some .i64)⟩] }

/-- `def main(a: i64, b: i64): i64 { a / b }` -/
def divProg : CheckedProgram :=
  { dataTypes := [], codataTypes := [],
    defs := [⟨"main", [⟨"a", .prd, .i64⟩, ⟨"b", .prd, .i64⟩], .i64, .op (v "a") .div (v "b")⟩] }

/-- `def main(): i64 { label a { 1 + (goto a (exit 7)) } }` -/
def exitProg : CheckedProgram :=
  { dataTypes := [], codataTypes := [],
    defs := [⟨"main", [], .i64,
      .label "a" (.op (.lit 1) .sum (.paren (.goto "a" (.exit (.lit 7) (some .i64)) (some .i64)))) (some .i64)⟩] }

def isDone (b : Behaviour) (out : List (Bool × Int)) (r : Int) : Bool :=
  b.out.map (fun (nl, w) => (nl, w.toInt)) == out &&
  match b.res with | .done w => w.toInt == r | _ => false

def isStuck (b : Behaviour) (why : String) : Bool :=
  match b.res with | .stuck w => w.toString == why | _ => false

example : isDone (run tiny [21#64] 100) [(true, 42)] 43 = true := by decide
example : isDone (run tiny [(BitVec.intMin 64)] 100) [(true, 0)] 1 = true := by decide  -- wraps
example : Sequenced tiny = true := by decide
example : isDone (run divProg [BitVec.ofInt 64 (-7), 2#64] 100) [] (-3) = true := by decide
example : isStuck (run divProg [5#64, 0#64] 100) "divByZero" = true := by decide
example : isStuck (run divProg [BitVec.intMin 64, BitVec.ofInt 64 (-1)] 100) "overflow" = true := by decide
example : isStuck (run divProg [5#64] 100) "arity(main)" = true := by decide
example : isDone (run exitProg [] 100) [] 7 = true := by decide
example : (match (run tiny [21#64] 3).res with | .outOfFuel => true | _ => false) = true := by decide

/-! ### tests through the reader (`runLine`) -/

/-- lexical scoping (D1 witness program): f(100,[1]) = 101, where the compiled code gives 2 (d01_capture_let_case.sc, args `100`) -/
def d01_capture_let_case : String :=
  "(checked (datas (data \"List[i64]\" (tparams) (ctor \"Nil\" (ctx)) (ctor \"Cons\" (ctx (b \"x\" prd i64) (b \"xs\" prd (ty \"List\" i64)))))) (codatas) (defs (def \"f\" (ctx (b \"x\" prd i64) (b \"l\" prd (ty \"List\" i64))) i64 (let \"y\" i64 (case (var \"l\" (ty \"List\" i64) prd) (tyargs i64) (clauses (clause data \"Nil\" (names) (ctx) (lit 0)) (clause data \"Cons\" (names \"x\" \"xs\") (ctx (b \"x\" prd i64) (b \"xs\" prd (ty \"List\" i64))) (var \"x\" i64 prd))) i64) (op + (var \"y\" i64 prd) (var \"x\" i64 prd)) i64)) (def \"main\" (ctx (b \"n\" prd i64)) i64 (let \"r\" i64 (call \"f\" (args (var \"n\" i64 prd) (ctor \"Cons\" (args (lit 1) (ctor \"Nil\" (args) (ty \"List\" i64))) (ty \"List\" i64))) i64) (print nl (var \"r\" i64 prd) (var \"r\" i64 prd) i64) i64))))"
#guard runLine d01_capture_let_case "100" 100000 == "OK out=[1:101] res=done:101"
#guard sequencedLine d01_capture_let_case == "OK true"

/-- a continuation escaping in a closure is resumed after its label returned (s28_reentrant_continuation.sc, args `7`) -/
def s28_reentrant_continuation : String :=
  "(checked (datas (data \"P\" (tparams) (ctor \"MkP\" (ctx (b \"v\" prd i64) (b \"f\" prd (ty \"Fun\" i64 i64)))))) (codatas (codata \"Fun[i64, i64]\" (tparams) (dtor \"apply\" (ctx (b \"x\" prd i64)) i64))) (defs (def \"main\" (ctx (b \"n\" prd i64)) i64 (let \"p\" (ty \"P\") (label \"k\" (ctor \"MkP\" (args (lit 0) (new (clauses (clause codata \"apply\" (names \"x\") (ctx (b \"x\" prd i64)) (goto \"k\" (ctor \"MkP\" (args (var \"x\" i64 prd) (new (clauses (clause codata \"apply\" (names \"y\") (ctx (b \"y\" prd i64)) (op + (var \"y\" i64 prd) (lit 1)))) (ty \"Fun\" i64 i64))) (ty \"P\")) i64))) (ty \"Fun\" i64 i64))) (ty \"P\")) (ty \"P\")) (case (var \"p\" (ty \"P\") prd) (tyargs) (clauses (clause data \"MkP\" (names \"v\" \"f\") (ctx (b \"v\" prd i64) (b \"f\" prd (ty \"Fun\" i64 i64))) (print nl (var \"v\" i64 prd) (ifc eq (var \"v\" i64 prd) none (dtor (var \"f\" (ty \"Fun\" i64 i64) prd) \"apply\" (tyargs i64 i64) (args (var \"n\" i64 prd)) i64) (let \"w\" i64 (dtor (var \"f\" (ty \"Fun\" i64 i64) prd) \"apply\" (tyargs i64 i64) (args (var \"v\" i64 prd)) i64) (print nl (var \"w\" i64 prd) (var \"w\" i64 prd) i64) i64) i64) i64))) i64) i64))))"
#guard runLine s28_reentrant_continuation "7" 100000 == "OK out=[1:0,1:7,1:8] res=done:8"
#guard sequencedLine s28_reentrant_continuation == "OK true"

/-- method bodies run at every invocation (s08_lazy_pair_effects.sc, args ``) -/
def s08_lazy_pair_effects : String :=
  "(checked (datas) (codatas (codata \"LazyPair[i64, i64]\" (tparams) (dtor \"fst\" (ctx) i64) (dtor \"snd\" (ctx) i64))) (defs (def \"use\" (ctx (b \"p\" prd (ty \"LazyPair\" i64 i64))) i64 (let \"a\" i64 (dtor (var \"p\" (ty \"LazyPair\" i64 i64) prd) \"fst\" (tyargs i64 i64) (args) i64) (let \"b\" i64 (dtor (var \"p\" (ty \"LazyPair\" i64 i64) prd) \"fst\" (tyargs i64 i64) (args) i64) (op + (var \"a\" i64 prd) (var \"b\" i64 prd)) i64) i64)) (def \"main\" (ctx) i64 (let \"p\" (ty \"LazyPair\" i64 i64) (new (clauses (clause codata \"fst\" (names) (ctx) (print nonl (lit 1) (lit 10) i64)) (clause codata \"snd\" (names) (ctx) (print nonl (lit 2) (lit 20) i64))) (ty \"LazyPair\" i64 i64)) (print nl (lit 0) (let \"r\" i64 (call \"use\" (args (var \"p\" (ty \"LazyPair\" i64 i64) prd)) i64) (print nl (var \"r\" i64 prd) (var \"r\" i64 prd) i64) i64) i64) i64))))"
#guard runLine s08_lazy_pair_effects "" 100000 == "OK out=[1:0,0:1,0:1,1:20] res=done:20"
#guard sequencedLine s08_lazy_pair_effects == "OK true"

/-- by name: the codata-typed let of a call re-runs the call per destructor; unused thunk never runs (n03_thunk_rerun.sc, args ``) -/
def n03_thunk_rerun : String :=
  "(checked (datas) (codatas (codata \"Fun[i64, i64]\" (tparams) (dtor \"apply\" (ctx (b \"x\" prd i64)) i64))) (defs (def \"mk\" (ctx (b \"n\" prd i64)) (ty \"Fun\" i64 i64) (print nonl (var \"n\" i64 prd) (new (clauses (clause codata \"apply\" (names \"x\") (ctx (b \"x\" prd i64)) (op + (var \"x\" i64 prd) (var \"n\" i64 prd)))) (ty \"Fun\" i64 i64)) (ty \"Fun\" i64 i64))) (def \"main\" (ctx) i64 (let \"f\" (ty \"Fun\" i64 i64) (call \"mk\" (args (lit 7)) (ty \"Fun\" i64 i64)) (print nl (lit 0) (let \"a\" i64 (dtor (var \"f\" (ty \"Fun\" i64 i64) prd) \"apply\" (tyargs i64 i64) (args (lit 1)) i64) (let \"b\" i64 (dtor (var \"f\" (ty \"Fun\" i64 i64) prd) \"apply\" (tyargs i64 i64) (args (lit 2)) i64) (print nl (op + (var \"a\" i64 prd) (var \"b\" i64 prd)) (let \"g\" (ty \"Fun\" i64 i64) (call \"mk\" (args (lit 8)) (ty \"Fun\" i64 i64)) (op + (var \"a\" i64 prd) (var \"b\" i64 prd)) i64) i64) i64) i64) i64) i64))))"
#guard runLine n03_thunk_rerun "" 100000 == "OK out=[1:0,0:7,0:7,1:17] res=done:17"
#guard sequencedLine n03_thunk_rerun == "OK false"

/-- a suspended label captures the destructor of each invocation (n05_thunk_label.sc, args ``) -/
def n05_thunk_label : String :=
  "(checked (datas) (codatas (codata \"Fun[i64, i64]\" (tparams) (dtor \"apply\" (ctx (b \"x\" prd i64)) i64))) (defs (def \"main\" (ctx) i64 (let \"f\" (ty \"Fun\" i64 i64) (label \"a\" (print nonl (lit 1) (goto \"a\" (new (clauses (clause codata \"apply\" (names \"x\") (ctx (b \"x\" prd i64)) (op * (var \"x\" i64 prd) (lit 2)))) (ty \"Fun\" i64 i64)) (ty \"Fun\" i64 i64)) (ty \"Fun\" i64 i64)) (ty \"Fun\" i64 i64)) (let \"a\" i64 (dtor (var \"f\" (ty \"Fun\" i64 i64) prd) \"apply\" (tyargs i64 i64) (args (lit 10)) i64) (let \"b\" i64 (dtor (var \"f\" (ty \"Fun\" i64 i64) prd) \"apply\" (tyargs i64 i64) (args (var \"a\" i64 prd)) i64) (print nl (var \"b\" i64 prd) (var \"b\" i64 prd) i64) i64) i64) i64))))"
#guard runLine n05_thunk_label "" 100000 == "OK out=[0:1,0:1,1:40] res=done:40"
#guard sequencedLine n05_thunk_label == "OK false"

/-- truncating division (s03_divrem_neg.sc, args `-7,2`) -/
def s03_divrem_neg : String :=
  "(checked (datas) (codatas) (defs (def \"main\" (ctx (b \"a\" prd i64) (b \"b\" prd i64)) i64 (let \"q\" i64 (op / (var \"a\" i64 prd) (var \"b\" i64 prd)) (let \"r\" i64 (op % (var \"a\" i64 prd) (var \"b\" i64 prd)) (print nonl (var \"q\" i64 prd) (print nonl (var \"r\" i64 prd) (print nl (op + (paren (op * (var \"q\" i64 prd) (var \"b\" i64 prd))) (var \"r\" i64 prd)) (let \"q2\" i64 (op / (var \"a\" i64 prd) (paren (op - (lit 0) (var \"b\" i64 prd)))) (let \"r2\" i64 (op % (var \"a\" i64 prd) (paren (op - (lit 0) (var \"b\" i64 prd)))) (print nonl (var \"q2\" i64 prd) (print nl (var \"r2\" i64 prd) (let \"q3\" i64 (op / (paren (op - (lit 0) (var \"a\" i64 prd))) (paren (op - (lit 0) (var \"b\" i64 prd)))) (let \"r3\" i64 (op % (paren (op - (lit 0) (var \"a\" i64 prd))) (paren (op - (lit 0) (var \"b\" i64 prd)))) (print nonl (var \"q3\" i64 prd) (print nl (var \"r3\" i64 prd) (op + (var \"q\" i64 prd) (var \"r\" i64 prd)) i64) i64) i64) i64) i64) i64) i64) i64) i64) i64) i64) i64) i64))))"
#guard runLine s03_divrem_neg "-7,2" 100000 == "OK out=[0:-3,0:-1,1:-7,0:3,1:-1,0:-3,1:1] res=done:-4"
#guard sequencedLine s03_divrem_neg == "OK true"

/-- exit discards the stack; result 300 (s13_exit_in_let_and_closure.sc, args `0`) -/
def s13_exit_in_let_and_closure : String :=
  "(checked (datas) (codatas (codata \"Fun[i64, i64]\" (tparams) (dtor \"apply\" (ctx (b \"x\" prd i64)) i64))) (defs (def \"call\" (ctx (b \"f\" prd (ty \"Fun\" i64 i64)) (b \"v\" prd i64)) i64 (let \"r\" i64 (dtor (var \"f\" (ty \"Fun\" i64 i64) prd) \"apply\" (tyargs i64 i64) (args (var \"v\" i64 prd)) i64) (print nl (var \"r\" i64 prd) (op + (var \"r\" i64 prd) (lit 1)) i64) i64)) (def \"main\" (ctx (b \"n\" prd i64)) i64 (let \"a\" i64 (call \"call\" (args (new (clauses (clause codata \"apply\" (names \"x\") (ctx (b \"x\" prd i64)) (op + (var \"x\" i64 prd) (lit 5)))) (ty \"Fun\" i64 i64)) (lit 1)) i64) (let \"b\" i64 (call \"call\" (args (new (clauses (clause codata \"apply\" (names \"x\") (ctx (b \"x\" prd i64)) (ifc eq (var \"x\" i64 prd) (var \"n\" i64 prd) (print nonl (var \"a\" i64 prd) (exit (lit 300) i64) i64) (var \"x\" i64 prd) i64))) (ty \"Fun\" i64 i64)) (lit 0)) i64) (print nl (var \"b\" i64 prd) (var \"b\" i64 prd) i64) i64) i64))))"
#guard runLine s13_exit_in_let_and_closure "0" 100000 == "OK out=[1:6,0:7] res=done:300"
#guard sequencedLine s13_exit_in_let_and_closure == "OK true"

/-- goto out of nested binders (s10_goto_nested_binders.sc, args `5`) -/
def s10_goto_nested_binders : String :=
  "(checked (datas (data \"List[i64]\" (tparams) (ctor \"Nil\" (ctx)) (ctor \"Cons\" (ctx (b \"x\" prd i64) (b \"xs\" prd (ty \"List\" i64)))))) (codatas) (defs (def \"main\" (ctx (b \"n\" prd i64)) i64 (let \"base\" i64 (op * (var \"n\" i64 prd) (lit 10)) (let \"r\" i64 (label \"out\" (let \"x\" i64 (op + (var \"n\" i64 prd) (lit 1)) (let \"l\" (ty \"List\" i64) (ctor \"Cons\" (args (var \"x\" i64 prd) (ctor \"Cons\" (args (var \"base\" i64 prd) (ctor \"Nil\" (args) (ty \"List\" i64))) (ty \"List\" i64))) (ty \"List\" i64)) (case (var \"l\" (ty \"List\" i64) prd) (tyargs i64) (clauses (clause data \"Nil\" (names) (ctx) (lit 0)) (clause data \"Cons\" (names \"y\" \"ys\") (ctx (b \"y\" prd i64) (b \"ys\" prd (ty \"List\" i64))) (let \"z\" i64 (op * (var \"y\" i64 prd) (lit 2)) (case (var \"ys\" (ty \"List\" i64) prd) (tyargs i64) (clauses (clause data \"Nil\" (names) (ctx) (lit 1)) (clause data \"Cons\" (names \"w\" \"ws\") (ctx (b \"w\" prd i64) (b \"ws\" prd (ty \"List\" i64))) (let \"base\" i64 (lit 7) (goto \"out\" (op + (paren (op + (var \"z\" i64 prd) (var \"w\" i64 prd))) (var \"base\" i64 prd)) i64) i64))) i64) i64))) i64) i64) i64) i64) (print nl (var \"r\" i64 prd) (print nl (var \"base\" i64 prd) (op + (var \"r\" i64 prd) (var \"base\" i64 prd)) i64) i64) i64) i64))))"
#guard runLine s10_goto_nested_binders "5" 100000 == "OK out=[1:69,1:50] res=done:119"
#guard sequencedLine s10_goto_nested_binders == "OK true"

#guard runLine s10_goto_nested_binders "5" 10 == "OK out=[] res=outOfFuel"
#guard runLine s10_goto_nested_binders "" 10 == "OK out=[] res=stuck:arity(main)"
#guard runLine s10_goto_nested_binders "x" 10 == "ERR args"
#guard runLine "(checked" "" 10 == "ERR sexp"
#guard runLine s03_divrem_neg "1,0" 1000 == "OK out=[] res=stuck:divByZero"
#guard runLine s03_divrem_neg "-9223372036854775808,-1" 1000 == "OK out=[] res=stuck:overflow"

end Scc.Fun.SemTests
