/-
  Scc.Fun.SafetyLemmas — lemmas for the type-safety proof of the Fun machine: what the proof needs
  of the pair (source program, checked program) (`AWT`), environments and contexts, binding of
  parameters, canonical forms of values, clause lookup.
-/
import Scc.Fun.SafetyTyping
import Scc.Fun.CheckSound2

namespace Scc.Fun.Safety
open Scc.Fun Scc.Fun.Typing Scc.Fun.Check

/-! ## the checked program against the source program -/

/-- what type safety needs of a checked program `p'` (run by the machine) and its source `p`
(whose declarations type the values); established for the checker's output in
Scc/Fun/SafetyCheck.lean -/
structure AWT (p : Program) (p' : CheckedProgram) : Prop where
  decls : DeclsOk p
  /-- the machine suspends (by name) only at codata types -/
  codata_sound : ∀ τ, WfTy p τ → isCodataTy p' τ = true →
    ∃ d ∈ codatas p, ∃ targs, τ = .decl d.name targs
  /-- every definition of the source is found by the machine, with the same signature and an
  annotated, typed body -/
  defs : ∀ d ∈ defs p, ∃ d', findDef p' d.name = some d' ∧ d'.ctx = d.ctx ∧ d'.retTy = d.retTy ∧
    ATyped p d.ctx d'.body d.retTy
  defs_back : ∀ d' ∈ p'.defs, ∃ d ∈ Typing.defs p, d.name = d'.name
  /-- definition names are pairwise distinct -/
  defNames : (p'.defs.map (·.name)).Nodup
  /-- every definition of the checked program has pairwise distinct parameters of well-formed
  types and an annotated, typed body -/
  defs_typed : ∀ d' ∈ p'.defs, (d'.ctx.map (·.var)).Nodup ∧ (∀ b ∈ d'.ctx, WfTy p b.ty) ∧
    WfTy p d'.retTy ∧ ATyped p d'.ctx d'.body d'.retTy

/-! ## contexts and environments -/

theorem lookupCtx_append_single (Γ : Ctx) (b : Binding) (x : String) :
    lookupCtx (Γ ++ [b]) x = if b.var = x then some b else lookupCtx Γ x := by
  simp only [lookupCtx, List.reverse_append, List.reverse_cons, List.reverse_nil, List.nil_append,
    List.cons_append, List.find?_cons]
  by_cases h : b.var = x <;> simp [h]

theorem lookup_cons (x y : String) (v : Value) (ρ : Env) :
    lookup x ((y, v) :: ρ) = if y = x then some v else lookup x ρ := by
  simp only [lookup]
  by_cases h : y = x
  · subst h; simp
  · have : (x == y) = false := by
      simp only [beq_eq_false_iff_ne, ne_eq]
      exact fun e => h e.symm
    simp [h, this]

theorem EnvT.lookup {p : Program} {x : String} {b : Binding} : ∀ (ρ : Env) (Γ : Ctx),
    EnvT p ρ Γ → lookupCtx Γ x = some b → ∃ v, lookup x ρ = some v ∧ BT p v b
  | [], _, h, hl => by
    cases h
    simp [lookupCtx] at hl
  | (y, v) :: ρ, _, h, hl => by
    cases h with
    | cons b0 he hb =>
      rw [lookupCtx_append_single] at hl
      rw [lookup_cons]
      by_cases hx : b0.var = x
      · simp only [hx, if_true, Option.some.injEq] at hl ⊢
        subst hl
        exact ⟨v, rfl, hb⟩
      · simp only [hx, if_false] at hl ⊢
        exact EnvT.lookup ρ _ he hl

theorem BT.rename {p : Program} {v : Value} {b b' : Binding} (h : BT p v b)
    (hc : b'.chi = b.chi) (ht : b'.ty = b.ty) : BT p v b' := by
  cases h with
  | prd h1 h2 => exact .prd (hc.trans h1) (ht ▸ h2)
  | cns h1 h2 => exact .cns (hc.trans h1) (ht ▸ h2)

theorem BT.prd_inv {p : Program} {v : Value} {b : Binding} (h : BT p v b) (hc : b.chi = .prd) :
    VT p v b.ty := by
  cases h with
  | prd _ h2 => exact h2
  | cns h1 _ => rw [hc] at h1; cases h1

theorem BT.cns_inv {p : Program} {v : Value} {b : Binding} (h : BT p v b) (hc : b.chi = .cns) :
    ∃ k, v = .cont k ∧ KT p k b.ty := by
  cases h with
  | prd h1 _ => rw [hc] at h1; cases h1
  | cns _ h2 => exact ⟨_, rfl, h2⟩

theorem VTs.length {p : Program} : ∀ (vs : List Value) (bs : Ctx), VTs p vs bs →
    vs.length = bs.length
  | [], _, h => by cases h; rfl
  | v :: vs, _, h => by
    cases h with
    | cons _ hr => simp [VTs.length vs _ hr]

theorem VTs.snoc {p : Program} {v : Value} {b : Binding} (hb : BT p v b) :
    ∀ (vs : List Value) (bs : Ctx), VTs p vs bs → VTs p (vs ++ [v]) (bs ++ [b])
  | [], _, h => by cases h; exact .cons hb .nil
  | w :: vs, _, h => by
    cases h with
    | cons hw hr => exact .cons hw (VTs.snoc hb vs _ hr)

theorem bindNames_cons (n : String) (ns : List String) (b : Binding) (bs : Ctx) :
    bindNames (n :: ns) (b :: bs) = { b with var := n } :: bindNames ns bs := rfl

theorem bindNames_self : ∀ (c : Ctx), bindNames (c.map (·.var)) c = c
  | [] => rfl
  | b :: r => by
    simp only [List.map_cons, bindNames_cons, bindNames_self r]

/-- binding parameters to typed values succeeds and gives a typed environment -/
theorem bindAll_typed {p : Program} : ∀ (names : List String) (vs : List Value) (bs : Ctx)
    (ρ : Env) (Γ : Ctx), VTs p vs bs → names.length = bs.length → EnvT p ρ Γ →
    ∃ ρ', bindAll names vs ρ = some ρ' ∧ EnvT p ρ' (Γ ++ bindNames names bs)
  | [], vs, bs, ρ, Γ, hv, hl, he => by
    cases bs with
    | nil =>
      cases hv
      exact ⟨ρ, rfl, by simpa [bindNames] using he⟩
    | cons b bs => simp at hl
  | n :: ns, vs, bs, ρ, Γ, hv, hl, he => by
    cases bs with
    | nil => simp at hl
    | cons b bs =>
      cases hv with
      | cons hb hr =>
        rename_i v vs'
        have he' : EnvT p ((n, v) :: ρ) (Γ ++ [{ b with var := n }]) :=
          EnvT.cons { b with var := n } he (hb.rename rfl rfl)
        obtain ⟨ρ', h1, h2⟩ := bindAll_typed ns vs' bs _ _ hr (by simpa using hl) he'
        refine ⟨ρ', by simpa [bindAll] using h1, ?_⟩
        rw [bindNames_cons]
        simpa using h2

/-! ## canonical forms -/

theorem ATyped.new_inv {p : Program} {Γ : Ctx} {cs : Clauses} {an : Option Ty} {τ : Ty}
    (h : ATyped p Γ (.new cs an) τ) :
    ∃ d ∈ codatas p, ∃ targs, τ = .decl d.name targs ∧
      (clauseXtors cs).Perm (d.dtors.map (·.name)) ∧
      AClauses p Γ (d.dtors.map fun s => (s.name, csubst (instSubst d.typeParams targs) s.args,
        tsubst (instSubst d.typeParams targs) s.contTy)) cs := by
  cases h with
  | new d hd hp _ _ hc => exact ⟨d, hd, _, rfl, hp, hc⟩

/-- an integer-typed value is an integer -/
theorem VT.int_inv {p : Program} {v : Value} (h : VT p v .i64) : ∃ n, v = .int n := by
  generalize hτ : Ty.i64 = τ at h
  cases h with
  | int => exact ⟨_, rfl⟩
  | con d c _ _ _ _ h5 _ => rw [h5] at hτ; cases hτ
  | obj Γ an _ h2 =>
    obtain ⟨d, _, targs, h, _⟩ := h2.new_inv
    rw [h] at hτ; cases hτ
  | thunk Γ d _ h2 _ _ => rw [h2] at hτ; cases hτ

/-- a value of a data type is a constructor of that type applied to typed values -/
theorem VT.data_inv {p : Program} (ok : DeclsOk p) {v : Value} {d : Data} {targs : Tys}
    (hd : d ∈ datas p) (h : VT p v (.decl d.name targs)) :
    ∃ c ∈ d.ctors, ∃ vs, v = .con c.name vs ∧
      VTs p vs (csubst (instSubst d.typeParams targs) c.args) := by
  generalize hτ : Ty.decl d.name targs = τ at h
  cases h with
  | int => cases hτ
  | con d' c hd' hc _ hK h5 hvs =>
    rw [h5] at hτ
    injection hτ with hn ha
    have := data_unique ok hd hd' hn
    subst this; subst ha; subst hK
    exact ⟨c, hc, _, rfl, hvs⟩
  | obj Γ an _ h2 =>
    obtain ⟨d', hd', targs', h, _⟩ := h2.new_inv
    rw [h] at hτ
    injection hτ with hn _
    exact absurd hn (data_codata_disjoint ok hd hd')
  | thunk Γ d' hd' h2 _ _ =>
    rw [h2] at hτ
    injection hτ with hn _
    exact absurd hn (data_codata_disjoint ok hd hd')

/-- a value of a codata type is a closure or a thunk -/
theorem VT.codata_inv {p : Program} (ok : DeclsOk p) {v : Value} {d : Codata} {targs : Tys}
    (hd : d ∈ codatas p) (h : VT p v (.decl d.name targs)) :
    (∃ cs ρ Γ an, v = .obj cs ρ ∧ EnvT p ρ Γ ∧ ATyped p Γ (.new cs an) (.decl d.name targs)) ∨
    (∃ t ρ Γ, v = .thunk t ρ ∧ EnvT p ρ Γ ∧ ATyped p Γ t (.decl d.name targs)) := by
  generalize hτ : Ty.decl d.name targs = τ at h
  cases h with
  | int => cases hτ
  | con d' c hd' hc _ hK h5 hvs =>
    rw [h5] at hτ
    injection hτ with hn _
    exact absurd hn.symm (data_codata_disjoint ok hd' hd)
  | obj Γ an h1 h2 => subst hτ; exact .inl ⟨_, _, Γ, an, rfl, h1, h2⟩
  | thunk Γ d' hd' h2 h3 h4 => subst hτ; exact .inr ⟨_, _, Γ, rfl, h3, h4⟩

/-! ## clauses -/

theorem findClause_of_mem : ∀ (cs : Clauses) (x : String), x ∈ clauseXtors cs →
    ∃ cl, findClause x cs = some cl
  | .nil, x, h => by simp [clauseXtors, Clauses.toList] at h
  | .cons pol y ns c b r, x, h => by
    simp only [findClause]
    by_cases hxy : (x == y) = true
    · simp [hxy]
    · simp only [hxy, Bool.false_eq_true, if_false]
      apply findClause_of_mem r x
      simp only [clauseXtors, Clauses.toList, List.map_cons, List.mem_cons] at h
      rcases h with h | h
      · subst h; simp at hxy
      · exact h

theorem AClauses.find {p : Program} {Γ : Ctx} {sigs : List (String × Ctx × Ty)} {x : String}
    {cl : Clause} : ∀ (cs : Clauses), AClauses p Γ sigs cs → findClause x cs = some cl →
    ∃ sig bodyTy, (x, sig, bodyTy) ∈ sigs ∧ cl.names.length = sig.length ∧
      ATyped p (Γ ++ bindNames cl.names sig) cl.body bodyTy
  | .nil, _, h => by simp [findClause] at h
  | .cons pol y ns c b r, hc, h => by
    cases hc with
    | cons sig bodyTy hm _ hl hb hr =>
      simp only [findClause] at h
      by_cases hxy : (x == y) = true
      · simp only [hxy, if_true, Option.some.injEq] at h
        subst h
        have : x = y := by simpa using hxy
        subst this
        exact ⟨sig, bodyTy, hm, hl, hb⟩
      · simp only [hxy, Bool.false_eq_true, if_false] at h
        exact AClauses.find r hr h

end Scc.Fun.Safety
