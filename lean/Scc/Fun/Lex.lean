/-
  Scc.Fun.Lex — model of the lexer of the Fun parser.

  Source: the `match { … }` block of /repo/lang/fun/src/parser/fun.lalrpop (lalrpop 0.20.2 built-in
  lexer) and lalrpop-util-0.20.2/src/lexer.rs (`Matcher::next`): one multi-pattern DFA over ALL token
  patterns (`MatchKind::All`), so at every position the LONGEST match of any pattern is taken; among
  the patterns matching at that length the one with the highest index wins, and the generated table
  lists the regexes first and the literal strings last, i.e. a literal (keyword) beats the identifier
  regex at equal length.  Patterns marked `=> { }` (whitespace `\s*`, `//` comments) are skipped; an
  empty longest match (only `\s*` matches, with length 0) or no match is `InvalidToken` (P-001).

  `\s` is the Unicode `White_Space` class of the regex crate:
  U+0009–U+000D, U+0020, U+0085, U+00A0, U+1680, U+2000–U+200A, U+2028, U+2029, U+202F, U+205F, U+3000
  (modelled exactly, see `isWs`).  Identifier/number classes are ASCII only.

  The lexer works on `List Char`; identifier and number tokens carry their text as `List Char`
  (strings do not reduce in the kernel).  Core imports only; executable.
-/
import Scc.Fun.Syntax

namespace Scc.Fun.Lex

/-- keywords (literal strings of the `match` block that are matched by the identifier regex too) -/
inductive Kw where
  | label | goto | exit | if_ | else_ | printI64 | printlnI64 | let_ | case_ | new_
  | def_ | data | codata | i64
  deriving DecidableEq, Repr, Inhabited

/-- Tokens of the `match` block.  `cmp c` is one of `== != < <= > >=`; `zcmpL c` is the regex token
`c\s*0` (e.g. `==\s*0`), `zcmpR c` is `0\s*c` (e.g. `0\s*==`).  `bad` is not a token: it marks the
position at which the real lexer returns `InvalidToken`; it is always the last element. -/
inductive Token where
  | lparen | rparen | lbrace | rbrace | lbrack | rbrack
  | semi | fatArrow | comma | colon | colonCns | dot | assign
  | cmp (c : IfSort) | zcmpL (c : IfSort) | zcmpR (c : IfSort)
  | plus | star | minus | slash | percent
  | lower (s : List Char) | upper (s : List Char) | num (digits : List Char)
  | kw (k : Kw)
  | bad
  deriving DecidableEq, Repr, Inhabited

/-! ## character classes -/

/-- `\s` of the Rust regex crate in Unicode mode -/
def isWs (c : Char) : Bool :=
  let n := c.toNat
  (9 ≤ n && n ≤ 13) || n == 32 || n == 0x85 || n == 0xA0 || n == 0x1680
    || (0x2000 ≤ n && n ≤ 0x200A) || n == 0x2028 || n == 0x2029 || n == 0x202F || n == 0x205F
    || n == 0x3000

def isLowerC (c : Char) : Bool := 97 ≤ c.toNat && c.toNat ≤ 122
def isUpperC (c : Char) : Bool := 65 ≤ c.toNat && c.toNat ≤ 90
def isDigitC (c : Char) : Bool := 48 ≤ c.toNat && c.toNat ≤ 57
/-- `[a-zA-Z0-9_]` -/
def isIdC (c : Char) : Bool := isLowerC c || isUpperC c || isDigitC c || c.toNat == 95
/-- `\n` or `\r` -/
def isNl (c : Char) : Bool := c.toNat == 10 || c.toNat == 13

/-- the literal keywords; a maximal identifier-regex match equal to one of them is that keyword -/
def kwOf (s : List Char) : Option Kw :=
  if s = ['l','a','b','e','l'] then some .label
  else if s = ['g','o','t','o'] then some .goto
  else if s = ['e','x','i','t'] then some .exit
  else if s = ['i','f'] then some .if_
  else if s = ['e','l','s','e'] then some .else_
  else if s = ['p','r','i','n','t','_','i','6','4'] then some .printI64
  else if s = ['p','r','i','n','t','l','n','_','i','6','4'] then some .printlnI64
  else if s = ['l','e','t'] then some .let_
  else if s = ['c','a','s','e'] then some .case_
  else if s = ['n','e','w'] then some .new_
  else if s = ['d','e','f'] then some .def_
  else if s = ['d','a','t','a'] then some .data
  else if s = ['c','o','d','a','t','a'] then some .codata
  else if s = ['i','6','4'] then some .i64
  else none

def Kw.chars : Kw → List Char
  | .label => ['l','a','b','e','l']
  | .goto => ['g','o','t','o']
  | .exit => ['e','x','i','t']
  | .if_ => ['i','f']
  | .else_ => ['e','l','s','e']
  | .printI64 => ['p','r','i','n','t','_','i','6','4']
  | .printlnI64 => ['p','r','i','n','t','l','n','_','i','6','4']
  | .let_ => ['l','e','t']
  | .case_ => ['c','a','s','e']
  | .new_ => ['n','e','w']
  | .def_ => ['d','e','f']
  | .data => ['d','a','t','a']
  | .codata => ['c','o','d','a','t','a']
  | .i64 => ['i','6','4']

/-! ## one step of `Matcher::next` -/

/-- result of matching at the head of a non-empty input -/
inductive LexStep where
  | tok (t : Token) (rest : List Char)
  | skip (rest : List Char)
  | invalid

/-- After a comparison symbol `c` (already consumed): `c\s*0` is longer than `c`. -/
def afterCmp (c : IfSort) (rest : List Char) : LexStep :=
  match rest.dropWhile isWs with
  | '0' :: r => .tok (.zcmpL c) r
  | _ => .tok (.cmp c) rest

/-- After a leading `0` (already consumed): the six tokens `0\s*c`; `0\s*<=` is longer than `0\s*<`.
If none matches the number regex `0|[1-9][0-9]*` gives the one-character match `0`. -/
def afterZero (rest : List Char) : LexStep :=
  match rest.dropWhile isWs with
  | '=' :: '=' :: r => .tok (.zcmpR .eq) r
  | '!' :: '=' :: r => .tok (.zcmpR .ne) r
  | '<' :: '=' :: r => .tok (.zcmpR .le) r
  | '<' :: r => .tok (.zcmpR .lt) r
  | '>' :: '=' :: r => .tok (.zcmpR .ge) r
  | '>' :: r => .tok (.zcmpR .gt) r
  | _ => .tok (.num ['0']) rest

/-- the comment regex `//(([^ \n\r]| [^\|\n\r])[^\n\r]*)?[\n\r]*`, after the leading `//`:
longest match.  Note that `// |…` and `// ` followed by a line end do NOT enter the optional
group: only `//` (plus directly following line ends) is skipped and the rest of the line is lexed
as ordinary input. -/
def afterSlashSlash (rest : List Char) : List Char :=
  match rest with
  | ' ' :: c :: r =>
    if isNl c || c == '|' then rest.dropWhile isNl   -- group not entered; `[\n\r]*` matches nothing
    else ((c :: r).dropWhile (fun x => !isNl x)).dropWhile isNl
  | c :: r =>
    if isNl c || c == ' ' then rest.dropWhile isNl
    else ((c :: r).dropWhile (fun x => !isNl x)).dropWhile isNl
  | [] => []

/-- lalrpop-util lexer.rs: `Matcher::next`, one iteration of the loop on non-empty input -/
def lexStep : List Char → LexStep
  | [] => .invalid
  | c :: cs =>
    if isWs c then .skip (cs.dropWhile isWs)
    else if isLowerC c then
      let w := c :: cs.takeWhile isIdC
      let r := cs.dropWhile isIdC
      match kwOf w with
      | some k => .tok (.kw k) r
      | none => .tok (.lower w) r
    else if isUpperC c then .tok (.upper (c :: cs.takeWhile isIdC)) (cs.dropWhile isIdC)
    else if c == '0' then afterZero cs
    else if isDigitC c then .tok (.num (c :: cs.takeWhile isDigitC)) (cs.dropWhile isDigitC)
    else if c == '(' then .tok .lparen cs
    else if c == ')' then .tok .rparen cs
    else if c == '{' then .tok .lbrace cs
    else if c == '}' then .tok .rbrace cs
    else if c == '[' then .tok .lbrack cs
    else if c == ']' then .tok .rbrack cs
    else if c == ';' then .tok .semi cs
    else if c == ',' then .tok .comma cs
    else if c == '.' then .tok .dot cs
    else if c == '+' then .tok .plus cs
    else if c == '*' then .tok .star cs
    else if c == '-' then .tok .minus cs
    else if c == '%' then .tok .percent cs
    else if c == '/' then
      match cs with
      | '/' :: r => .skip (afterSlashSlash r)
      | _ => .tok .slash cs
    else if c == ':' then
      match cs.dropWhile isWs with
      | 'c' :: 'n' :: 's' :: r => .tok .colonCns r
      | _ => .tok .colon cs
    else if c == '=' then
      match cs with
      | '=' :: r => afterCmp .eq r
      | '>' :: r => .tok .fatArrow r
      | _ => .tok .assign cs
    else if c == '!' then
      match cs with
      | '=' :: r => afterCmp .ne r
      | _ => .invalid
    else if c == '<' then
      match cs with
      | '=' :: r => afterCmp .le r
      | _ => afterCmp .lt cs
    else if c == '>' then
      match cs with
      | '=' :: r => afterCmp .ge r
      | _ => afterCmp .gt cs
    else .invalid

/-- The token stream the parser pulls, with `Token.bad` appended at the first `InvalidToken`.
Fuel: every step consumes at least one character, `fuel = length` suffices (`lexStream`). -/
def lexLoop : Nat → List Char → List Token
  | _, [] => []
  | 0, _ :: _ => [.bad]
  | fuel + 1, cs =>
    match lexStep cs with
    | .tok t r => t :: lexLoop fuel r
    | .skip r => lexLoop fuel r
    | .invalid => [.bad]

def lexStream (cs : List Char) : List Token := lexLoop cs.length cs

/-- the lexer's only error: `ParseError::InvalidToken` (code P-001) -/
inductive LexError where
  | invalidToken
  deriving DecidableEq, Repr

def lexChars (cs : List Char) : Except LexError (List Token) :=
  let ts := lexStream cs
  if ts.contains .bad then .error .invalidToken else .ok ts

def lex (s : String) : Except LexError (List Token) := lexChars s.toList

/-! ## rendering of tokens (for test output) -/

def sortChars : IfSort → List Char
  | .eq => ['=','='] | .ne => ['!','='] | .lt => ['<'] | .le => ['<','='] | .gt => ['>']
  | .ge => ['>','=']

def Token.chars : Token → List Char
  | .lparen => ['('] | .rparen => [')'] | .lbrace => ['{'] | .rbrace => ['}']
  | .lbrack => ['['] | .rbrack => [']'] | .semi => [';'] | .fatArrow => ['=','>']
  | .comma => [','] | .colon => [':'] | .colonCns => [':','c','n','s'] | .dot => ['.']
  | .assign => ['='] | .cmp c => sortChars c | .zcmpL c => sortChars c ++ ['0'] | .zcmpR c => '0' :: sortChars c
  | .plus => ['+'] | .star => ['*'] | .minus => ['-'] | .slash => ['/'] | .percent => ['%']
  | .lower s => s | .upper s => s | .num d => d | .kw k => k.chars
  | .bad => ['<','b','a','d','>']

def Token.show (t : Token) : String := String.ofList t.chars

end Scc.Fun.Lex
