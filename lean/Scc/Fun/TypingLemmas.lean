/-
  Scc.Fun.TypingLemmas — facts about the declarative typing relation `Scc.Fun.Typing` alone (no
  checker): inversion lemmas, "every subterm of a typed term is typed", "every variable of a typed term
  is bound".  They carry the mutation lemmas of `Props/C15.lean`.
-/
import Scc.Fun.Typing

namespace Scc.Fun.Typing

/-! ## subterms and binders -/

mutual
  /-- the term and all its descendants (arguments, scrutinees, clause bodies, ..) -/
  def subterms : Term → List Term
    | .var x ty chi => [.var x ty chi]
    | .lit n => [.lit n]
    | .op a o b => .op a o b :: (subterms a ++ subterms b)
    | .ifc s a b t e an => .ifc s a b t e an :: (subterms a ++ subterms b ++ subterms t ++ subterms e)
    | .ifz s a t e an => .ifz s a t e an :: (subterms a ++ subterms t ++ subterms e)
    | .print nl a n an => .print nl a n an :: (subterms a ++ subterms n)
    | .letIn x σ b i an => .letIn x σ b i an :: (subterms b ++ subterms i)
    | .call f args an => .call f args an :: subtermsArgs args
    | .ctor k args an => .ctor k args an :: subtermsArgs args
    | .dtor s d ta args an => .dtor s d ta args an :: (subterms s ++ subtermsArgs args)
    | .case s ta cs an => .case s ta cs an :: (subterms s ++ subtermsClauses cs)
    | .new cs an => .new cs an :: subtermsClauses cs
    | .label a t an => .label a t an :: subterms t
    | .goto a t an => .goto a t an :: subterms t
    | .exit t an => .exit t an :: subterms t
    | .paren t => .paren t :: subterms t
  def subtermsArgs : Terms → List Term
    | .nil => []
    | .cons t r => subterms t ++ subtermsArgs r
  def subtermsClauses : Clauses → List Term
    | .nil => []
    | .cons _ _ _ _ b r => subterms b ++ subtermsClauses r
end

mutual
  /-- names bound inside a term: `let` variables, labels, clause binders -/
  def boundNames : Term → List String
    | .var _ _ _ => []
    | .lit _ => []
    | .op a _ b => boundNames a ++ boundNames b
    | .ifc _ a b t e _ => boundNames a ++ boundNames b ++ boundNames t ++ boundNames e
    | .ifz _ a t e _ => boundNames a ++ boundNames t ++ boundNames e
    | .print _ a n _ => boundNames a ++ boundNames n
    | .letIn x _ b i _ => x :: (boundNames b ++ boundNames i)
    | .call _ args _ => boundNamesArgs args
    | .ctor _ args _ => boundNamesArgs args
    | .dtor s _ _ args _ => boundNames s ++ boundNamesArgs args
    | .case s _ cs _ => boundNames s ++ boundNamesClauses cs
    | .new cs _ => boundNamesClauses cs
    | .label a t _ => a :: boundNames t
    | .goto _ t _ => boundNames t
    | .exit t _ => boundNames t
    | .paren t => boundNames t
  def boundNamesArgs : Terms → List String
    | .nil => []
    | .cons t r => boundNames t ++ boundNamesArgs r
  def boundNamesClauses : Clauses → List String
    | .nil => []
    | .cons _ _ ns _ b r => ns ++ boundNames b ++ boundNamesClauses r
end

def TypedSomewhere (p : Program) (t : Term) : Prop := ∃ Γ τ, HasType p Γ t τ

def IsVar : Term → Prop
  | .var _ _ _ => True
  | _ => False

theorem subterms_self : ∀ (t : Term), t ∈ subterms t := by
  intro t; cases t <;> simp [subterms]

/-! ## every subterm of a typed term is typed (or is a covariable argument) -/

mutual
  theorem typed_subterms {p : Program} : ∀ (u : Term) (Γ : Ctx) (τ : Ty) (t : Term),
      HasType p Γ u τ → t ∈ subterms u → TypedSomewhere p t ∨ IsVar t
    | .var x ty chi, Γ, τ, t, h, ht => by
      simp only [subterms, List.mem_singleton] at ht; subst ht; exact .inl ⟨Γ, τ, h⟩
    | .lit n, Γ, τ, t, h, ht => by
      simp only [subterms, List.mem_singleton] at ht; subst ht; exact .inl ⟨Γ, τ, h⟩
    | .op a o b, Γ, τ, t, h, ht => by
      simp only [subterms, List.mem_cons, List.mem_append] at ht
      rcases ht with rfl | ht | ht
      · exact .inl ⟨Γ, τ, h⟩
      · cases h with | op ha hb => exact typed_subterms a _ _ t ha ht
      · cases h with | op ha hb => exact typed_subterms b _ _ t hb ht
    | .ifc s a b th e an, Γ, τ, t, h, ht => by
      simp only [subterms, List.mem_cons, List.mem_append] at ht
      rcases ht with rfl | ((ht | ht) | ht) | ht
      · exact .inl ⟨Γ, τ, h⟩
      · cases h with | ifc ha hb hth he => exact typed_subterms a _ _ t ha ht
      · cases h with | ifc ha hb hth he => exact typed_subterms b _ _ t hb ht
      · cases h with | ifc ha hb hth he => exact typed_subterms th _ _ t hth ht
      · cases h with | ifc ha hb hth he => exact typed_subterms e _ _ t he ht
    | .ifz s a th e an, Γ, τ, t, h, ht => by
      simp only [subterms, List.mem_cons, List.mem_append] at ht
      rcases ht with rfl | (ht | ht) | ht
      · exact .inl ⟨Γ, τ, h⟩
      · cases h with | ifz ha hth he => exact typed_subterms a _ _ t ha ht
      · cases h with | ifz ha hth he => exact typed_subterms th _ _ t hth ht
      · cases h with | ifz ha hth he => exact typed_subterms e _ _ t he ht
    | .print nl a n an, Γ, τ, t, h, ht => by
      simp only [subterms, List.mem_cons, List.mem_append] at ht
      rcases ht with rfl | ht | ht
      · exact .inl ⟨Γ, τ, h⟩
      · cases h with | print ha hn => exact typed_subterms a _ _ t ha ht
      · cases h with | print ha hn => exact typed_subterms n _ _ t hn ht
    | .letIn x σ b i an, Γ, τ, t, h, ht => by
      simp only [subterms, List.mem_cons, List.mem_append] at ht
      rcases ht with rfl | ht | ht
      · exact .inl ⟨Γ, τ, h⟩
      · cases h with | letIn _ hb hi => exact typed_subterms b _ _ t hb ht
      · cases h with | letIn _ hb hi => exact typed_subterms i _ _ t hi ht
    | .call f args an, Γ, τ, t, h, ht => by
      simp only [subterms, List.mem_cons] at ht
      rcases ht with rfl | ht
      · exact .inl ⟨Γ, τ, h⟩
      · cases h with | call d _ _ ha => exact typed_subterms_args args _ _ t ha ht
    | .ctor k args an, Γ, τ, t, h, ht => by
      simp only [subterms, List.mem_cons] at ht
      rcases ht with rfl | ht
      · exact .inl ⟨Γ, τ, h⟩
      · cases h with | ctor d c _ _ _ ha => exact typed_subterms_args args _ _ t ha ht
    | .dtor s d ta args an, Γ, τ, t, h, ht => by
      simp only [subterms, List.mem_cons, List.mem_append] at ht
      rcases ht with rfl | ht | ht
      · exact .inl ⟨Γ, τ, h⟩
      · cases h with | dtor d s' _ _ _ hs ha _ => exact typed_subterms s _ _ t hs ht
      · cases h with | dtor d s' _ _ _ hs ha _ => exact typed_subterms_args args _ _ t ha ht
    | .case s ta cs an, Γ, τ, t, h, ht => by
      simp only [subterms, List.mem_cons, List.mem_append] at ht
      rcases ht with rfl | ht | ht
      · exact .inl ⟨Γ, τ, h⟩
      · cases h with | case d _ _ _ _ hs hc => exact typed_subterms s _ _ t hs ht
      · cases h with | case d _ _ _ _ hs hc => exact typed_subterms_clauses cs _ _ t hc ht
    | .new cs an, Γ, τ, t, h, ht => by
      simp only [subterms, List.mem_cons] at ht
      rcases ht with rfl | ht
      · exact .inl ⟨Γ, τ, h⟩
      · cases h with | new d _ _ _ _ hc => exact typed_subterms_clauses cs _ _ t hc ht
    | .label a b an, Γ, τ, t, h, ht => by
      simp only [subterms, List.mem_cons] at ht
      rcases ht with rfl | ht
      · exact .inl ⟨Γ, τ, h⟩
      · cases h with | label hb => exact typed_subterms b _ _ t hb ht
    | .goto a b an, Γ, τ, t, h, ht => by
      simp only [subterms, List.mem_cons] at ht
      rcases ht with rfl | ht
      · exact .inl ⟨Γ, τ, h⟩
      · cases h with | goto bd _ _ _ hb => exact typed_subterms b _ _ t hb ht
    | .exit b an, Γ, τ, t, h, ht => by
      simp only [subterms, List.mem_cons] at ht
      rcases ht with rfl | ht
      · exact .inl ⟨Γ, τ, h⟩
      · cases h with | exit hb => exact typed_subterms b _ _ t hb ht
    | .paren b, Γ, τ, t, h, ht => by
      simp only [subterms, List.mem_cons] at ht
      rcases ht with rfl | ht
      · exact .inl ⟨Γ, τ, h⟩
      · cases h with | paren hb => exact typed_subterms b _ _ t hb ht
  theorem typed_subterms_args {p : Program} : ∀ (ts : Terms) (Γ : Ctx) (bs : Ctx) (t : Term),
      ArgsTyped p Γ ts bs → t ∈ subtermsArgs ts → TypedSomewhere p t ∨ IsVar t
    | .nil, _, _, t, _, ht => by simp [subtermsArgs] at ht
    | .cons u r, Γ, bs, t, h, ht => by
      simp only [subtermsArgs, List.mem_append] at ht
      cases h with
      | prd _ _ hu hr =>
        rcases ht with ht | ht
        · exact typed_subterms u _ _ t hu ht
        · exact typed_subterms_args r _ _ t hr ht
      | cns b' _ _ _ _ _ _ _ hr =>
        rcases ht with ht | ht
        · simp only [subterms, List.mem_singleton] at ht
          subst ht; exact .inr trivial
        · exact typed_subterms_args r _ _ t hr ht
  theorem typed_subterms_clauses {p : Program} : ∀ (cs : Clauses) (Γ : Ctx)
      (sigs : List (String × Ctx × Ty)) (t : Term),
      ClausesTyped p Γ sigs cs → t ∈ subtermsClauses cs → TypedSomewhere p t ∨ IsVar t
    | .nil, _, _, t, _, ht => by simp [subtermsClauses] at ht
    | .cons pol x ns c b r, Γ, sigs, t, h, ht => by
      simp only [subtermsClauses, List.mem_append] at ht
      cases h with
      | cons sig bodyTy _ _ _ hb hr =>
        rcases ht with ht | ht
        · exact typed_subterms b _ _ t hb ht
        · exact typed_subterms_clauses r _ _ t hr ht
end

/-! ## the context of a subterm only contains names of the outer context or binders on the way -/

theorem lookupCtx_some {Γ : Ctx} {x : String} {b : Binding} (h : lookupCtx Γ x = some b) :
    b ∈ Γ ∧ b.var = x := by
  unfold lookupCtx at h
  have h1 := List.mem_of_find?_eq_some h
  have h2 := List.find?_some h
  exact ⟨by simpa using h1, by simpa using h2⟩

theorem lookupCtx_name_mem {Γ : Ctx} {x : String} {b : Binding} (h : lookupCtx Γ x = some b) :
    x ∈ Γ.map (·.var) := by
  obtain ⟨h1, h2⟩ := lookupCtx_some h
  exact List.mem_map.mpr ⟨b, h1, h2⟩

/-- `t` is typed as a term, or accepted as a covariable argument, in a context whose names are all
among `names` -/
def TypedIn (p : Program) (names : List String) (t : Term) : Prop :=
  ∃ Γ', ((∃ τ', HasType p Γ' t τ') ∨
      (∃ x ty chi b, t = .var x ty chi ∧ lookupCtx Γ' x = some b ∧ b.chi = .cns)) ∧
    ∀ y ∈ Γ'.map (·.var), y ∈ names

theorem TypedIn.mono {p : Program} {n1 n2 : List String} {t : Term} (h : TypedIn p n1 t)
    (hs : ∀ y ∈ n1, y ∈ n2) : TypedIn p n2 t := by
  obtain ⟨Γ', h1, h2⟩ := h
  exact ⟨Γ', h1, fun y hy => hs y (h2 y hy)⟩

theorem bindNames_vars_subset {ns : List String} {sig : Ctx} :
    ∀ y ∈ (bindNames ns sig).map (·.var), y ∈ ns := by
  intro y hy
  simp only [bindNames, List.map_map, List.mem_map] at hy
  obtain ⟨⟨n, b⟩, hm, rfl⟩ := hy
  exact (List.of_mem_zip hm).1

mutual
  theorem typedIn_subterms {p : Program} : ∀ (u : Term) (Γ : Ctx) (τ : Ty) (t : Term),
      HasType p Γ u τ → t ∈ subterms u → TypedIn p (Γ.map (·.var) ++ boundNames u) t
    | .var x ty chi, Γ, τ, t, h, ht => by
      simp only [subterms, List.mem_singleton] at ht; subst ht
      exact ⟨Γ, .inl ⟨τ, h⟩, fun y hy => by simp [hy]⟩
    | .lit n, Γ, τ, t, h, ht => by
      simp only [subterms, List.mem_singleton] at ht; subst ht
      exact ⟨Γ, .inl ⟨τ, h⟩, fun y hy => by simp [hy]⟩
    | .op a o b, Γ, τ, t, h, ht => by
      simp only [subterms, List.mem_cons, List.mem_append] at ht
      rcases ht with rfl | ht | ht
      · exact ⟨Γ, .inl ⟨τ, h⟩, fun y hy => by simp [hy]⟩
      · cases h with | op ha hb =>
          exact (typedIn_subterms a _ _ t ha ht).mono (by simp [boundNames] <;> grind)
      · cases h with | op ha hb =>
          exact (typedIn_subterms b _ _ t hb ht).mono (by simp [boundNames] <;> grind)
    | .ifc s a b th e an, Γ, τ, t, h, ht => by
      simp only [subterms, List.mem_cons, List.mem_append] at ht
      rcases ht with rfl | ((ht | ht) | ht) | ht
      · exact ⟨Γ, .inl ⟨τ, h⟩, fun y hy => by simp [hy]⟩
      · cases h with | ifc ha hb hth he =>
          exact (typedIn_subterms a _ _ t ha ht).mono (by simp [boundNames] <;> grind)
      · cases h with | ifc ha hb hth he =>
          exact (typedIn_subterms b _ _ t hb ht).mono (by simp [boundNames] <;> grind)
      · cases h with | ifc ha hb hth he =>
          exact (typedIn_subterms th _ _ t hth ht).mono (by simp [boundNames] <;> grind)
      · cases h with | ifc ha hb hth he =>
          exact (typedIn_subterms e _ _ t he ht).mono (by simp [boundNames] <;> grind)
    | .ifz s a th e an, Γ, τ, t, h, ht => by
      simp only [subterms, List.mem_cons, List.mem_append] at ht
      rcases ht with rfl | (ht | ht) | ht
      · exact ⟨Γ, .inl ⟨τ, h⟩, fun y hy => by simp [hy]⟩
      · cases h with | ifz ha hth he =>
          exact (typedIn_subterms a _ _ t ha ht).mono (by simp [boundNames] <;> grind)
      · cases h with | ifz ha hth he =>
          exact (typedIn_subterms th _ _ t hth ht).mono (by simp [boundNames] <;> grind)
      · cases h with | ifz ha hth he =>
          exact (typedIn_subterms e _ _ t he ht).mono (by simp [boundNames] <;> grind)
    | .print nl a n an, Γ, τ, t, h, ht => by
      simp only [subterms, List.mem_cons, List.mem_append] at ht
      rcases ht with rfl | ht | ht
      · exact ⟨Γ, .inl ⟨τ, h⟩, fun y hy => by simp [hy]⟩
      · cases h with | print ha hn =>
          exact (typedIn_subterms a _ _ t ha ht).mono (by simp [boundNames] <;> grind)
      · cases h with | print ha hn =>
          exact (typedIn_subterms n _ _ t hn ht).mono (by simp [boundNames] <;> grind)
    | .letIn x σ b i an, Γ, τ, t, h, ht => by
      simp only [subterms, List.mem_cons, List.mem_append] at ht
      rcases ht with rfl | ht | ht
      · exact ⟨Γ, .inl ⟨τ, h⟩, fun y hy => by simp [hy]⟩
      · cases h with | letIn _ hb hi =>
          exact (typedIn_subterms b _ _ t hb ht).mono (by simp [boundNames] <;> grind)
      · cases h with | letIn _ hb hi =>
          exact (typedIn_subterms i _ _ t hi ht).mono (by simp [boundNames] <;> grind)
    | .call f args an, Γ, τ, t, h, ht => by
      simp only [subterms, List.mem_cons] at ht
      rcases ht with rfl | ht
      · exact ⟨Γ, .inl ⟨τ, h⟩, fun y hy => by simp [hy]⟩
      · cases h with | call d _ _ ha =>
          exact (typedIn_subterms_args args _ _ t ha ht).mono (by simp [boundNames])
    | .ctor k args an, Γ, τ, t, h, ht => by
      simp only [subterms, List.mem_cons] at ht
      rcases ht with rfl | ht
      · exact ⟨Γ, .inl ⟨τ, h⟩, fun y hy => by simp [hy]⟩
      · cases h with | ctor d c _ _ _ ha =>
          exact (typedIn_subterms_args args _ _ t ha ht).mono (by simp [boundNames])
    | .dtor s d ta args an, Γ, τ, t, h, ht => by
      simp only [subterms, List.mem_cons, List.mem_append] at ht
      rcases ht with rfl | ht | ht
      · exact ⟨Γ, .inl ⟨τ, h⟩, fun y hy => by simp [hy]⟩
      · cases h with | dtor d s' _ _ _ hs ha _ =>
          exact (typedIn_subterms s _ _ t hs ht).mono (by simp [boundNames] <;> grind)
      · cases h with | dtor d s' _ _ _ hs ha _ =>
          exact (typedIn_subterms_args args _ _ t ha ht).mono (by simp [boundNames] <;> grind)
    | .case s ta cs an, Γ, τ, t, h, ht => by
      simp only [subterms, List.mem_cons, List.mem_append] at ht
      rcases ht with rfl | ht | ht
      · exact ⟨Γ, .inl ⟨τ, h⟩, fun y hy => by simp [hy]⟩
      · cases h with | case d _ _ _ _ hs hc =>
          exact (typedIn_subterms s _ _ t hs ht).mono (by simp [boundNames] <;> grind)
      · cases h with | case d _ _ _ _ hs hc =>
          exact (typedIn_subterms_clauses cs _ _ t hc ht).mono (by simp [boundNames] <;> grind)
    | .new cs an, Γ, τ, t, h, ht => by
      simp only [subterms, List.mem_cons] at ht
      rcases ht with rfl | ht
      · exact ⟨Γ, .inl ⟨τ, h⟩, fun y hy => by simp [hy]⟩
      · cases h with | new d _ _ _ _ hc =>
          exact (typedIn_subterms_clauses cs _ _ t hc ht).mono (by simp [boundNames])
    | .label a b an, Γ, τ, t, h, ht => by
      simp only [subterms, List.mem_cons] at ht
      rcases ht with rfl | ht
      · exact ⟨Γ, .inl ⟨τ, h⟩, fun y hy => by simp [hy]⟩
      · cases h with | label hb =>
          exact (typedIn_subterms b _ _ t hb ht).mono (by simp [boundNames] <;> grind)
    | .goto a b an, Γ, τ, t, h, ht => by
      simp only [subterms, List.mem_cons] at ht
      rcases ht with rfl | ht
      · exact ⟨Γ, .inl ⟨τ, h⟩, fun y hy => by simp [hy]⟩
      · cases h with | goto bd _ _ _ hb =>
          exact (typedIn_subterms b _ _ t hb ht).mono (by simp [boundNames])
    | .exit b an, Γ, τ, t, h, ht => by
      simp only [subterms, List.mem_cons] at ht
      rcases ht with rfl | ht
      · exact ⟨Γ, .inl ⟨τ, h⟩, fun y hy => by simp [hy]⟩
      · cases h with | exit hb =>
          exact (typedIn_subterms b _ _ t hb ht).mono (by simp [boundNames])
    | .paren b, Γ, τ, t, h, ht => by
      simp only [subterms, List.mem_cons] at ht
      rcases ht with rfl | ht
      · exact ⟨Γ, .inl ⟨τ, h⟩, fun y hy => by simp [hy]⟩
      · cases h with | paren hb =>
          exact (typedIn_subterms b _ _ t hb ht).mono (by simp [boundNames])
  theorem typedIn_subterms_args {p : Program} : ∀ (ts : Terms) (Γ : Ctx) (bs : Ctx) (t : Term),
      ArgsTyped p Γ ts bs → t ∈ subtermsArgs ts → TypedIn p (Γ.map (·.var) ++ boundNamesArgs ts) t
    | .nil, _, _, t, _, ht => by simp [subtermsArgs] at ht
    | .cons u r, Γ, bs, t, h, ht => by
      simp only [subtermsArgs, List.mem_append] at ht
      cases h with
      | prd _ _ hu hr =>
        rcases ht with ht | ht
        · exact (typedIn_subterms u _ _ t hu ht).mono (by simp [boundNamesArgs] <;> grind)
        · exact (typedIn_subterms_args r _ _ t hr ht).mono (by simp [boundNamesArgs] <;> grind)
      | cns b' _ hl hc _ _ _ _ hr =>
        rcases ht with ht | ht
        · simp only [subterms, List.mem_singleton] at ht
          subst ht
          exact ⟨Γ, .inr ⟨_, _, _, b', rfl, hl, hc⟩, fun y hy => by simp [hy]⟩
        · exact (typedIn_subterms_args r _ _ t hr ht).mono (by simp [boundNamesArgs] <;> grind)
  theorem typedIn_subterms_clauses {p : Program} : ∀ (cs : Clauses) (Γ : Ctx)
      (sigs : List (String × Ctx × Ty)) (t : Term),
      ClausesTyped p Γ sigs cs → t ∈ subtermsClauses cs →
      TypedIn p (Γ.map (·.var) ++ boundNamesClauses cs) t
    | .nil, _, _, t, _, ht => by simp [subtermsClauses] at ht
    | .cons pol x ns c b r, Γ, sigs, t, h, ht => by
      simp only [subtermsClauses, List.mem_append] at ht
      cases h with
      | cons sig bodyTy _ _ _ hb hr =>
        rcases ht with ht | ht
        · refine (typedIn_subterms b _ _ t hb ht).mono ?_
          intro y hy
          simp only [List.map_append, List.mem_append, boundNamesClauses] at hy ⊢
          rcases hy with (hy | hy) | hy
          · exact .inl hy
          · exact .inr (.inl (.inl (bindNames_vars_subset y hy)))
          · exact .inr (.inl (.inr hy))
        · exact (typedIn_subterms_clauses r _ _ t hr ht).mono (by simp [boundNamesClauses] <;> grind)
end

/-! ## list facts -/

theorem map_nodup_inj' {α β : Type} {f : α → β} : ∀ {l : List α} {a b : α},
    (l.map f).Nodup → a ∈ l → b ∈ l → f a = f b → a = b
  | [], _, _, _, ha, _, _ => by cases ha
  | c :: l, a, b, hn, ha, hb, hab => by
    simp only [List.map_cons, List.nodup_cons] at hn
    rcases List.mem_cons.mp ha with rfl | ha' <;> rcases List.mem_cons.mp hb with rfl | hb'
    · rfl
    · exact absurd (List.mem_map.mpr ⟨b, hb', hab.symm⟩) hn.1
    · exact absurd (List.mem_map.mpr ⟨a, ha', hab⟩) hn.1
    · exact map_nodup_inj' hn.2 ha' hb' hab

theorem flatMap_nodup_inj' {α β : Type} {f : α → List β} : ∀ {l : List α} {a b : α} {x : β},
    (l.flatMap f).Nodup → a ∈ l → b ∈ l → x ∈ f a → x ∈ f b → a = b
  | [], _, _, _, _, ha, _, _, _ => by cases ha
  | c :: l, a, b, x, hn, ha, hb, xa, xb => by
    simp only [List.flatMap_cons, List.nodup_append] at hn
    rcases List.mem_cons.mp ha with rfl | ha' <;> rcases List.mem_cons.mp hb with rfl | hb'
    · rfl
    · exact absurd rfl (hn.2.2 x xa x (List.mem_flatMap.mpr ⟨b, hb', xb⟩))
    · exact absurd rfl (hn.2.2 x xb x (List.mem_flatMap.mpr ⟨a, ha', xa⟩))
    · exact flatMap_nodup_inj' hn.2.1 ha' hb' xa xb

theorem flatMap_nodup_inner' {α β : Type} {f : α → List β} : ∀ {l : List α} {a : α},
    (l.flatMap f).Nodup → a ∈ l → (f a).Nodup
  | [], _, _, ha => by cases ha
  | c :: l, a, hn, ha => by
    simp only [List.flatMap_cons, List.nodup_append] at hn
    rcases List.mem_cons.mp ha with rfl | ha'
    · exact hn.1
    · exact flatMap_nodup_inner' hn.2.1 ha'

/-! ## inversion lemmas used by the mutation lemmas -/

theorem def_unique {p : Program} (ok : DeclsOk p) {d d' : Def} (h : d ∈ defs p) (h' : d' ∈ defs p)
    (hn : d.name = d'.name) : d = d' :=
  map_nodup_inj' ok.defNamesNodup h h' hn

theorem ctor_data_unique {p : Program} (ok : DeclsOk p) {d d' : Data} {c c' : CtorSig}
    (h : d ∈ datas p) (hc : c ∈ d.ctors) (h' : d' ∈ datas p) (hc' : c' ∈ d'.ctors)
    (hn : c.name = c'.name) : d = d' ∧ c = c' := by
  have hd : d = d' := flatMap_nodup_inj' ok.ctorNamesNodup h h' (x := c.name)
    (List.mem_map.mpr ⟨c, hc, rfl⟩) (List.mem_map.mpr ⟨c', hc', hn.symm⟩)
  subst hd
  exact ⟨rfl, map_nodup_inj' (flatMap_nodup_inner' (f := fun d : Data => d.ctors.map (·.name))
    ok.ctorNamesNodup h) hc hc' hn⟩

theorem dtor_codata_unique {p : Program} (ok : DeclsOk p) {d d' : Codata} {c c' : DtorSig}
    (h : d ∈ codatas p) (hc : c ∈ d.dtors) (h' : d' ∈ codatas p) (hc' : c' ∈ d'.dtors)
    (hn : c.name = c'.name) : d = d' ∧ c = c' := by
  have hd : d = d' := flatMap_nodup_inj' ok.dtorNamesNodup h h' (x := c.name)
    (List.mem_map.mpr ⟨c, hc, rfl⟩) (List.mem_map.mpr ⟨c', hc', hn.symm⟩)
  subst hd
  exact ⟨rfl, map_nodup_inj' (flatMap_nodup_inner' (f := fun d : Codata => d.dtors.map (·.name))
    ok.dtorNamesNodup h) hc hc' hn⟩

theorem argsTyped_length {p : Program} : ∀ (ts : Terms) (Γ : Ctx) (bs : Ctx),
    ArgsTyped p Γ ts bs → ts.toList.length = bs.length
  | .nil, _, _, h => by cases h; rfl
  | .cons t r, Γ, bs, h => by
    cases h with
    | prd _ _ _ hr => simp [Terms.toList, argsTyped_length r _ _ hr]
    | cns _ _ _ _ _ _ _ _ hr => simp [Terms.toList, argsTyped_length r _ _ hr]

/-- the i-th argument for a producer parameter is typed at that parameter's type -/
theorem argsTyped_get {p : Program} : ∀ (ts : Terms) (Γ : Ctx) (bs : Ctx) (i : Nat) (t : Term)
    (b : Binding), ArgsTyped p Γ ts bs → ts.toList[i]? = some t → bs[i]? = some b → b.chi = .prd →
    HasType p Γ t b.ty
  | .nil, _, _, i, t, b, _, ht, _, _ => by simp [Terms.toList] at ht
  | .cons u r, Γ, bs, i, t, b, h, ht, hb, hchi => by
    cases h with
    | prd hc _ hu hr =>
      cases i with
      | zero =>
        simp only [Terms.toList, List.getElem?_cons_zero, Option.some.injEq] at ht hb
        subst ht; subst hb; exact hu
      | succ j =>
        simp only [Terms.toList, List.getElem?_cons_succ] at ht hb
        exact argsTyped_get r _ _ j t b hr ht hb hchi
    | cns _ hc _ _ _ _ _ _ hr =>
      cases i with
      | zero =>
        simp only [List.getElem?_cons_zero, Option.some.injEq] at hb
        subst hb; rw [hc] at hchi; cases hchi
      | succ j =>
        simp only [Terms.toList, List.getElem?_cons_succ] at ht hb
        exact argsTyped_get r _ _ j t b hr ht hb hchi

theorem csubst_length (σ : List (String × Ty)) (c : Ctx) : (csubst σ c).length = c.length := by
  simp [csubst]

theorem hasType_lit_inv {p : Program} {Γ : Ctx} {n : Int} {τ : Ty} (h : HasType p Γ (.lit n) τ) :
    τ = .i64 := by cases h; rfl

theorem hasType_op_inv {p : Program} {Γ : Ctx} {a b : Term} {o : BinOp} {τ : Ty}
    (h : HasType p Γ (.op a o b) τ) : τ = .i64 := by cases h; rfl

theorem hasType_ctor_inv {p : Program} {Γ : Ctx} {k : String} {args : Terms} {an : Option Ty} {τ : Ty}
    (h : HasType p Γ (.ctor k args an) τ) :
    ∃ d ∈ datas p, ∃ c ∈ d.ctors, c.name = k ∧ ∃ targs, τ = .decl d.name targs ∧
      args.toList.length = c.args.length := by
  cases h with
  | ctor d c hd hc _ ha =>
    exact ⟨d, hd, c, hc, rfl, _, rfl, by rw [argsTyped_length _ _ _ ha, csubst_length]⟩

theorem hasType_new_inv {p : Program} {Γ : Ctx} {cs : Clauses} {an : Option Ty} {τ : Ty}
    (h : HasType p Γ (.new cs an) τ) :
    ∃ d ∈ codatas p, ∃ targs, τ = .decl d.name targs ∧ (clauseXtors cs).Perm (d.dtors.map (·.name)) := by
  cases h with
  | new d hd hp _ _ _ => exact ⟨d, hd, _, rfl, hp⟩

theorem hasType_call_inv {p : Program} (ok : DeclsOk p) {Γ : Ctx} {d : Def} {args : Terms}
    {an : Option Ty} {τ : Ty} (hd : d ∈ defs p) (h : HasType p Γ (.call d.name args an) τ) :
    τ = d.retTy ∧ ArgsTyped p Γ args d.ctx := by
  generalize hf : d.name = f at h
  cases h with
  | call d' hd' _ ha =>
    have := def_unique ok hd hd' hf
    subst this
    exact ⟨rfl, ha⟩

theorem hasType_case_inv {p : Program} {Γ : Ctx} {s : Term} {ta : Tys} {cs : Clauses}
    {an : Option Ty} {τ : Ty} (h : HasType p Γ (.case s ta cs an) τ) :
    cs ≠ .nil ∧ ∃ d ∈ datas p, (clauseXtors cs).Perm (d.ctors.map (·.name)) ∧
      WfTy p (.decl d.name ta) ∧
      ClausesTyped p Γ
        (d.ctors.map fun c => (c.name, csubst (instSubst d.typeParams ta) c.args, τ)) cs := by
  cases h with
  | case d hd hne hp hwf _ hc => exact ⟨hne, d, hd, hp, hwf, hc⟩

theorem hasType_dtor_inv {p : Program} {Γ : Ctx} {s : Term} {id : String} {ta : Tys} {args : Terms}
    {an : Option Ty} {τ : Ty} (h : HasType p Γ (.dtor s id ta args an) τ) :
    ∃ d ∈ codatas p, ∃ sg ∈ d.dtors, sg.name = id ∧ WfTy p (.decl d.name ta) ∧
      args.toList.length = sg.args.length ∧ τ = tsubst (instSubst d.typeParams ta) sg.contTy := by
  cases h with
  | dtor d sg hd hs hwf _ ha _ =>
    exact ⟨d, hd, sg, hs, rfl, hwf, by rw [argsTyped_length _ _ _ ha, csubst_length], rfl⟩

theorem wfTy_decl_inv {p : Program} {n : String} {args : Tys} (h : WfTy p (.decl n args)) :
    (∃ d ∈ datas p, d.name = n ∧ args.toList.length = d.typeParams.length) ∨
    (∃ d ∈ codatas p, d.name = n ∧ args.toList.length = d.typeParams.length) := by
  generalize ht : Ty.decl n args = t at h
  cases h with
  | i64 => cases ht
  | data d a hd hl _ => cases ht; exact .inl ⟨d, hd, rfl, hl⟩
  | codata d a hd hl _ => cases ht; exact .inr ⟨d, hd, rfl, hl⟩

/-- a clause of a typed clause list binds as many names as its xtor has parameters -/
theorem clausesTyped_mem {p : Program} : ∀ (cs : Clauses) (Γ : Ctx)
    (sigs : List (String × Ctx × Ty)) (c : Clause), ClausesTyped p Γ sigs cs → c ∈ cs.toList →
    ∃ sig bodyTy, (c.xtor, sig, bodyTy) ∈ sigs ∧ c.names.Nodup ∧ c.names.length = sig.length ∧
      HasType p (Γ ++ bindNames c.names sig) c.body bodyTy
  | .nil, _, _, c, _, hc => by simp [Clauses.toList] at hc
  | .cons pol x ns cx b r, Γ, sigs, c, h, hc => by
    cases h with
    | cons sig bodyTy hm hnd hl hb hr =>
      simp only [Clauses.toList, List.mem_cons] at hc
      rcases hc with rfl | hc
      · exact ⟨sig, bodyTy, hm, hnd, hl, hb⟩
      · exact clausesTyped_mem r _ _ c hr hc

end Scc.Fun.Typing
