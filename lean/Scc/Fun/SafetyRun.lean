/-
  Scc.Fun.SafetyRun — type safety of whole runs of the Fun machine: from a well-typed state the
  run never ends in a stuck state other than the two arithmetic faults (`runFrom_safe`), every state
  reached is well-typed (`runFrom_reach`), and the initial state of a program whose `main` takes
  integer parameters and returns an integer is well-typed (`initState_typed`).
-/
import Scc.Fun.SafetyStep

namespace Scc.Fun.Safety
open Scc.Fun Scc.Fun.Typing

/-- the arithmetic faults: the only ways a checked program gets stuck -/
def ArithFault : Why → Prop
  | .divByZero => True
  | .overflow => True
  | _ => False

theorem ArithFault.iff {w : Why} : ArithFault w ↔ w = .divByZero ∨ w = .overflow := by
  cases w <;> simp [ArithFault]

/-- preservation -/
theorem step_preserves {p : Program} {p' : CheckedProgram} (W : AWT p p') {s s' : State}
    {o : Option (Bool × Word)} (hs : ST p s) (h : step p' s = .next s' o) : ST p s' := by
  have := step_safe W hs
  rw [h] at this
  cases this with
  | next h' => exact h'

/-- progress -/
theorem step_progress {p : Program} {p' : CheckedProgram} (W : AWT p p') {s : State}
    (hs : ST p s) {w : Why} (h : step p' s = .stuck w) : ArithFault w := by
  have := step_safe W hs
  rw [h] at this
  cases this <;> trivial

theorem runFrom_safe {p : Program} {p' : CheckedProgram} (W : AWT p p') :
    ∀ (fuel : Nat) (s : State) (acc : List (Bool × Word)), ST p s →
    ∀ w, (runFrom p' fuel s acc).res = .stuck w → ArithFault w
  | 0, _, _, _, w, h => by simp [runFrom] at h
  | fuel + 1, s, acc, hs, w, h => by
    simp only [runFrom] at h
    have hsafe := step_safe W hs
    cases hst : step p' s with
    | next s' o =>
      rw [hst] at hsafe h
      cases hsafe with
      | next h' =>
        cases o with
        | none => exact runFrom_safe W fuel s' acc h' w h
        | some e => exact runFrom_safe W fuel s' (e :: acc) h' w h
    | done v => rw [hst] at h; simp at h
    | stuck w' =>
      rw [hst] at h
      simp only [Result.stuck.injEq] at h
      subst h
      exact step_progress W hs hst

/-- a typed environment for integer arguments -/
theorem vts_ints {p : Program} : ∀ (args : List Word) (bs : Ctx),
    (∀ b ∈ bs, b.chi = .prd ∧ b.ty = .i64) → args.length = bs.length →
    VTs p (args.map .int) bs
  | [], [], _, _ => .nil
  | [], _ :: _, _, h => by simp at h
  | _ :: _, [], _, h => by simp at h
  | a :: as, b :: bs, hb, h => by
    obtain ⟨h1, h2⟩ := hb b (by simp)
    refine .cons (.prd h1 (h2 ▸ .int)) (vts_ints as bs (fun x hx => hb x (by simp [hx])) ?_)
    simpa using h

/-- the initial state is well-typed: `main` is a definition whose parameters are integer producers
and whose result is an integer, and there is one argument per parameter -/
theorem initState_typed {p : Program} {p' : CheckedProgram} (W : AWT p p') {dm : Def}
    (hfind : findDef p' "main" = some dm) (hsig : ∀ b ∈ dm.ctx, b.chi = .prd ∧ b.ty = .i64)
    (hret : dm.retTy = .i64) (args : List Word) (hlen : args.length = dm.ctx.length) :
    ∃ s, initState p' args = .ok s ∧ ST p s := by
  have hmem : dm ∈ p'.defs ∧ dm.name = "main" := by
    unfold findDef at hfind
    exact ⟨List.mem_of_find?_eq_some hfind, by simpa using List.find?_some hfind⟩
  obtain ⟨d, hd, hname⟩ := W.defs_back dm hmem.1
  obtain ⟨d', hfd, hctx, hretd, hbody⟩ := W.defs d hd
  rw [hname, hmem.2, hfind] at hfd
  cases hfd
  obtain ⟨ρ, h1, h2⟩ := bindAll_typed (p := p) (dm.ctx.map (·.var)) (args.map .int) dm.ctx [] []
    (vts_ints args dm.ctx hsig hlen) (by simp) .nil
  rw [bindNames_self] at h2
  refine ⟨.eval dm.body ρ [], by simp [initState, hfind, h1], ?_⟩
  rw [← hctx] at hbody
  refine .eval dm.ctx d.retTy h2 hbody ?_
  rw [← hretd, hret]
  exact .nil

end Scc.Fun.Safety
