/-
  Scc.Fun.PrintProofs — towards C16-T1 (`layout_independent`): every rendering of the piece stream
  of the printer model (Scc.Fun.Print), for any layout choice, is lexed (Scc.Fun.Lex) to the token
  sequence `tokens`.  Proof file.

  Method: `Emits ps ts P` says that every rendering `s` of the pieces `ps`, followed by any
  continuation `k` that is itself spelled by tokens and satisfies `P`, is spelled by `ts` followed by
  the continuation's tokens (`Spells`, LexProofs).  `P` is the condition the LAST token of `ps` puts
  on what follows (`okAfter`).  Pieces are composed with `Emits.seq`, whose side condition asks that
  the first pieces of the right part establish the condition of the left part.
-/
import Scc.Fun.LexProofs
import Scc.Fun.Print

namespace Scc.Fun.Print
open Scc.Fun.Lex Scc.Fun.Parse

/-! ## renderings -/

theorem renders_append {p q : List Piece} {s : List Char} :
    Renders (p ++ q) s ↔ ∃ s1 s2, s = s1 ++ s2 ∧ Renders p s1 ∧ Renders q s2 := by
  constructor
  · intro h
    induction p generalizing s with
    | nil => exact ⟨[], s, rfl, .nil, h⟩
    | cons a p ih =>
      cases h with
      | text t hr => obtain ⟨s1, s2, rfl, h1, h2⟩ := ih hr; exact ⟨t ++ s1, s2, by simp, .text t h1, h2⟩
      | space hr => obtain ⟨s1, s2, rfl, h1, h2⟩ := ih hr; exact ⟨' ' :: s1, s2, by simp, .space h1, h2⟩
      | lineFlat hr => obtain ⟨s1, s2, rfl, h1, h2⟩ := ih hr; exact ⟨' ' :: s1, s2, by simp, .lineFlat h1, h2⟩
      | lineBreak k hr =>
        obtain ⟨s1, s2, rfl, h1, h2⟩ := ih hr; exact ⟨newline k ++ s1, s2, by simp, .lineBreak k h1, h2⟩
      | lineFlat_ hr => obtain ⟨s1, s2, rfl, h1, h2⟩ := ih hr; exact ⟨s1, s2, rfl, .lineFlat_ h1, h2⟩
      | lineBreak_ k hr =>
        obtain ⟨s1, s2, rfl, h1, h2⟩ := ih hr; exact ⟨newline k ++ s1, s2, by simp, .lineBreak_ k h1, h2⟩
      | hardline k hr =>
        obtain ⟨s1, s2, rfl, h1, h2⟩ := ih hr; exact ⟨newline k ++ s1, s2, by simp, .hardline k h1, h2⟩
  · rintro ⟨s1, s2, rfl, h1, h2⟩
    induction h1 with
    | nil => exact h2
    | text t _ ih => simpa using Renders.text t ih
    | space _ ih => exact .space ih
    | lineFlat _ ih => exact .lineFlat ih
    | lineBreak k _ ih => simpa using Renders.lineBreak k ih
    | lineFlat_ _ ih => exact .lineFlat_ ih
    | lineBreak_ k _ ih => simpa using Renders.lineBreak_ k ih
    | hardline k _ ih => simpa using Renders.hardline k ih

theorem renders_nil {s : List Char} : Renders [] s ↔ s = [] := by
  constructor
  · intro h; cases h; rfl
  · rintro rfl; exact .nil

/-- a piece that only produces white space -/
def Piece.isGap : Piece → Bool
  | .text _ => false
  | _ => true

theorem gap_newline' (k : Nat) : Gap (newline k) := gap_newline k

/-- a gap piece renders to a gap -/
theorem renders_gapPiece {p : Piece} {s : List Char} (hp : p.isGap = true) (h : Renders [p] s) :
    Gap s := by
  cases h with
  | text t _ => simp [Piece.isGap] at hp
  | space hr => cases hr; exact gap_space
  | lineFlat hr => cases hr; exact gap_space
  | lineBreak k hr => cases hr; simpa using gap_newline' k
  | lineFlat_ hr => cases hr; exact Gap.nil
  | lineBreak_ k hr => cases hr; simpa using gap_newline' k
  | hardline k hr => cases hr; simpa using gap_newline' k

theorem renders_text {t s : List Char} (h : Renders [.text t] s) : s = t := by
  cases h with
  | text t hr => cases hr; simp

/-! ## the `Emits` judgment -/

def Emits (ps : List Piece) (ts : List Token) (P : List Char → Prop) : Prop :=
  ∀ s k tsk, Renders ps s → Spells tsk k → P k → Spells (ts ++ tsk) (s ++ k)

theorem Emits.nil : Emits [] [] (fun _ => True) := by
  intro s k tsk hr hk _
  cases hr
  simpa using hk

theorem Emits.gap {p : Piece} (hp : p.isGap = true) : Emits [p] [] (fun _ => True) := by
  intro s k tsk hr hk _
  simpa using Spells.gap (renders_gapPiece hp hr) hk

theorem Emits.text {t : Token} {txt : List Char} (ht : TokText t txt) :
    Emits [.text txt] [t] (fun k => okAfter t k = true) := by
  intro s k tsk hr hk ok
  rw [renders_text hr]
  exact Spells.text ht ok hk

theorem Emits.seq {p1 p2 : List Piece} {t1 t2 : List Token} {P1 P2 : List Char → Prop}
    (h1 : Emits p1 t1 P1) (h2 : Emits p2 t2 P2)
    (hlink : ∀ s2 k, Renders p2 s2 → P2 k → P1 (s2 ++ k)) : Emits (p1 ++ p2) (t1 ++ t2) P2 := by
  intro s k tsk hr hk hP
  obtain ⟨s1, s2, rfl, hr1, hr2⟩ := renders_append.mp hr
  have h2' := h2 s2 k tsk hr2 hk hP
  have h1' := h1 s1 (s2 ++ k) (t2 ++ tsk) hr1 h2' (hlink s2 k hr2 hP)
  simpa using h1'

theorem Emits.weaken {ps : List Piece} {ts : List Token} {P P' : List Char → Prop}
    (h : Emits ps ts P) (hw : ∀ k, P' k → P k) : Emits ps ts P' :=
  fun s k tsk hr hk hp => h s k tsk hr hk (hw k hp)

theorem Emits.cast {ps ps' : List Piece} {ts ts' : List Token} {P : List Char → Prop}
    (h : Emits ps ts P) (hp : ps = ps') (ht : ts = ts') : Emits ps' ts' P := hp ▸ ht ▸ h

/-- sequencing when the left part puts no condition on what follows -/
theorem Emits.seqT {p1 p2 : List Piece} {t1 t2 : List Token} {P2 : List Char → Prop}
    (h1 : Emits p1 t1 (fun _ => True)) (h2 : Emits p2 t2 P2) : Emits (p1 ++ p2) (t1 ++ t2) P2 :=
  h1.seq h2 (fun _ _ _ _ => trivial)

/-! ## safe continuations -/

/-- characters that can follow any term-final token without changing how it is lexed -/
def isSafeC (c : Char) : Bool :=
  c == '(' || c == ')' || c == '{' || c == '}' || c == '[' || c == ']' || c == ',' || c == ';'
    || c == '.' || c == '+' || c == '-' || c == '*' || c == '/' || c == '%' || c == ':'

/-- after optional white space the input ends or continues with a safe character -/
def safeNext (k : List Char) : Bool :=
  match k.dropWhile isWs with
  | [] => true
  | c :: _ => isSafeC c

/-- tokens a term, type or name can end with -/
def EndTok : Token → Prop
  | .lower _ | .upper _ | .kw _ | .num _ | .rparen | .rbrace | .rbrack => True
  | _ => False

theorem safeC_cases {c : Char} (h : isSafeC c = true) :
    c = '(' ∨ c = ')' ∨ c = '{' ∨ c = '}' ∨ c = '[' ∨ c = ']' ∨ c = ',' ∨ c = ';' ∨ c = '.' ∨
      c = '+' ∨ c = '-' ∨ c = '*' ∨ c = '/' ∨ c = '%' ∨ c = ':' := by
  simpa [isSafeC, or_assoc] using h

theorem safeC_not_id {c : Char} (h : isSafeC c = true) : isIdC c = false := by
  rcases safeC_cases h with rfl | rfl | rfl | rfl | rfl | rfl | rfl | rfl | rfl | rfl | rfl | rfl | rfl | rfl | rfl <;> decide

theorem safeC_not_digit {c : Char} (h : isSafeC c = true) : isDigitC c = false := by
  rcases safeC_cases h with rfl | rfl | rfl | rfl | rfl | rfl | rfl | rfl | rfl | rfl | rfl | rfl | rfl | rfl | rfl <;> decide

theorem safeC_not_ws {c : Char} (h : isSafeC c = true) : isWs c = false := by
  rcases safeC_cases h with rfl | rfl | rfl | rfl | rfl | rfl | rfl | rfl | rfl | rfl | rfl | rfl | rfl | rfl | rfl <;> decide

theorem safeC_not_cmp {c : Char} {r : List Char} (h : isSafeC c = true) : startsCmp (c :: r) = false := by
  rcases safeC_cases h with rfl | rfl | rfl | rfl | rfl | rfl | rfl | rfl | rfl | rfl | rfl | rfl | rfl | rfl | rfl <;> simp [startsCmp]

theorem ws_not_id {c : Char} (h : isWs c = true) : isIdC c = false := by
  simp only [isWs, Bool.or_eq_true, Bool.and_eq_true, decide_eq_true_eq, beq_iff_eq] at h
  simp only [isIdC, isLowerC, isUpperC, isDigitC, Bool.or_eq_false_iff, Bool.and_eq_false_iff,
    decide_eq_false_iff_not, beq_eq_false_iff_ne]
  omega

theorem ws_not_digit {c : Char} (h : isWs c = true) : isDigitC c = false := by
  simp only [isWs, Bool.or_eq_true, Bool.and_eq_true, decide_eq_true_eq, beq_iff_eq] at h
  simp only [isDigitC, Bool.and_eq_false_iff, decide_eq_false_iff_not]
  omega

theorem notHead_of_safeNext {p : Char → Bool} {k : List Char} (hws : ∀ c, isWs c = true → p c = false)
    (hsafe : ∀ c, isSafeC c = true → p c = false) (h : safeNext k = true) : notHead p k = true := by
  cases k with
  | nil => rfl
  | cons c r =>
    simp only [notHead, Bool.not_eq_true']
    by_cases hc : isWs c = true
    · exact hws c hc
    · simp only [safeNext, List.dropWhile_cons, hc, Bool.false_eq_true, if_false] at h
      exact hsafe c h

theorem okAfter_of_safeNext {t : Token} {k : List Char} (ht : EndTok t) (h : safeNext k = true) :
    okAfter t k = true := by
  have hid := notHead_of_safeNext (p := isIdC) (fun _ => ws_not_id) (fun _ => safeC_not_id) h
  cases t <;> simp only [EndTok] at ht <;> simp only [okAfter, hid]
  case num ds =>
    have hd := notHead_of_safeNext (p := isDigitC) (fun _ => ws_not_digit) (fun _ => safeC_not_digit) h
    simp only [hd, Bool.true_and, Bool.or_eq_true, Bool.not_eq_true', bne_iff_ne]
    right
    unfold safeNext at h
    split at h
    · rename_i heq; rw [heq]; rfl
    · rename_i c r heq; rw [heq]; exact safeC_not_cmp h

/-- `EndTok` tokens other than the number `0` may be followed by a space and anything -/
theorem okAfter_space {t : Token} {r : List Char} (ht : EndTok t) (h0 : t ≠ .num ['0']) :
    okAfter t (' ' :: r) = true := by
  cases t <;> simp only [EndTok] at ht <;> simp [okAfter, notHead] <;> try decide
  case num ds =>
    constructor
    · decide
    · left; intro h; exact h0 (by rw [h])

theorem dropWhile_gap_append {g r : List Char} (hg : Gap g) :
    (g ++ r).dropWhile isWs = r.dropWhile isWs := by
  induction g with
  | nil => rfl
  | cons c g ih => simp only [List.cons_append, List.dropWhile_cons, hg.head, if_true]; exact ih hg.tail

theorem safeNext_gap {g r : List Char} (hg : Gap g) : safeNext (g ++ r) = safeNext r := by
  unfold safeNext; rw [dropWhile_gap_append hg]

theorem safeNext_safe {c : Char} {r : List Char} (h : isSafeC c = true) : safeNext (c :: r) = true := by
  simp [safeNext, safeC_not_ws h, h]

/-- every rendering of `ps` (followed by anything) starts, after optional white space, with a safe
character -/
def SafeStart (ps : List Piece) : Prop := ∀ s k, Renders ps s → safeNext (s ++ k) = true

theorem SafeStart.text {c : Char} {w : List Char} (h : isSafeC c = true) : SafeStart [.text (c :: w)] := by
  intro s k hr
  rw [renders_text hr]
  exact safeNext_safe h

theorem SafeStart.append_left {p q : List Piece} (h : SafeStart p) : SafeStart (p ++ q) := by
  intro s k hr
  obtain ⟨s1, s2, rfl, h1, _⟩ := renders_append.mp hr
  simpa using h s1 (s2 ++ k) h1

theorem SafeStart.gap_then {p : Piece} {q : List Piece} (hp : p.isGap = true) (h : SafeStart q) :
    SafeStart ([p] ++ q) := by
  intro s k hr
  obtain ⟨s1, s2, rfl, h1, h2⟩ := renders_append.mp hr
  rw [List.append_assoc, safeNext_gap (renders_gapPiece hp h1)]
  exact h s2 k h2


/-! ## numbers -/

theorem isDigitC_of_isDigit {c : Char} (h : c.isDigit = true) : isDigitC c = true := by
  have h' := Char.isDigit_iff_toNat.mp h
  have e0 : '0'.toNat = 48 := by decide
  have e9 : '9'.toNat = 57 := by decide
  rw [e0, e9] at h'
  simp only [isDigitC, Bool.and_eq_true, decide_eq_true_eq]
  exact h'

theorem natDigits_all_digit (n : Nat) : ∀ c ∈ natDigits n, isDigitC c = true := fun _ hc =>
  isDigitC_of_isDigit (Nat.isDigit_of_mem_toDigits (by decide) (by decide) hc)

theorem digitChar_ne_zero {n : Nat} (h0 : 0 < n) (h : n < 10) : Nat.digitChar n ≠ '0' := by
  have : n = 1 ∨ n = 2 ∨ n = 3 ∨ n = 4 ∨ n = 5 ∨ n = 6 ∨ n = 7 ∨ n = 8 ∨ n = 9 := by omega
  rcases this with rfl | rfl | rfl | rfl | rfl | rfl | rfl | rfl | rfl <;> decide

theorem natDigits_head (n : Nat) (h0 : 0 < n) : ∃ c w, natDigits n = c :: w ∧ c ≠ '0' := by
  induction n using Nat.strongRecOn with
  | _ n ih =>
    unfold natDigits
    rw [Nat.toDigits_eq_if (by decide)]
    split
    · exact ⟨_, [], rfl, digitChar_ne_zero h0 (by assumption)⟩
    · obtain ⟨c, w, hc, hne⟩ := ih (n / 10) (Nat.div_lt_self h0 (by decide)) (Nat.div_pos (by omega) (by decide))
      unfold natDigits at hc
      exact ⟨c, w ++ [Nat.digitChar (n % 10)], by rw [hc]; rfl, hne⟩

theorem natDigits_zero : natDigits 0 = ['0'] := by decide

/-- the decimal representation of a natural number is a spelling of its number token -/
theorem natDigits_tokText (n : Nat) : TokText (.num (natDigits n)) (natDigits n) := by
  by_cases h0 : n = 0
  · subst h0; rw [natDigits_zero]; exact .zero
  · obtain ⟨c, w, hc, hne⟩ := natDigits_head n (by omega)
    have hall := natDigits_all_digit n
    rw [hc] at hall ⊢
    exact .num c w (hall c List.mem_cons_self) hne (fun d hd => hall d (List.mem_cons_of_mem _ hd))

theorem natDigits_eq_zero {n : Nat} (h : natDigits n = ['0']) : n = 0 := by
  by_cases h0 : n = 0
  · exact h0
  · obtain ⟨c, w, hc, hne⟩ := natDigits_head n (by omega)
    rw [hc] at h
    cases h
    exact absurd rfl hne


/-! ## names -/

/-- `[a-z][a-zA-Z0-9_]*`, not a keyword -/
def lowerName (w : List Char) : Bool :=
  match w with
  | [] => false
  | c :: r => isLowerC c && r.all isIdC && (kwOf (c :: r)).isNone

/-- `[A-Z][a-zA-Z0-9_]*` -/
def upperName (w : List Char) : Bool :=
  match w with
  | [] => false
  | c :: r => isUpperC c && r.all isIdC

theorem lower_tokText {w : List Char} (h : lowerName w = true) : TokText (.lower w) w := by
  cases w with
  | nil => simp [lowerName] at h
  | cons c r =>
    simp only [lowerName, Bool.and_eq_true, List.all_eq_true, Option.isNone_iff_eq_none] at h
    exact .lower c r h.1.1 h.1.2 h.2

theorem upper_tokText {w : List Char} (h : upperName w = true) : TokText (.upper w) w := by
  cases w with
  | nil => simp [upperName] at h
  | cons c r =>
    simp only [upperName, Bool.and_eq_true, List.all_eq_true] at h
    exact .upper c r h.1 h.2

/-- the condition "not followed by an identifier character" -/
abbrev NoId : List Char → Prop := fun k => notHead isIdC k = true
/-- the condition "followed, after optional white space, by a safe character or the end" -/
abbrev Safe : List Char → Prop := fun k => safeNext k = true

theorem safe_noId {k : List Char} (h : Safe k) : NoId k :=
  notHead_of_safeNext (fun _ => ws_not_id) (fun _ => safeC_not_id) h

theorem lowerE {w : List Char} (h : lowerName w = true) : Emits [.text w] [.lower w] NoId :=
  (Emits.text (lower_tokText h)).weaken (fun _ hk => by simpa [okAfter] using hk)

theorem upperE {w : List Char} (h : upperName w = true) : Emits [.text w] [.upper w] NoId :=
  (Emits.text (upper_tokText h)).weaken (fun _ hk => by simpa [okAfter] using hk)

theorem kwE (k : Kw) : Emits [.text k.chars] [.kw k] NoId :=
  (Emits.text (.kw k)).weaken (fun _ hk => by simpa [okAfter] using hk)

/-- a symbol token that puts no condition on what follows -/
theorem symE {t : Token} {txt : List Char} (ht : TokText t txt) (hok : ∀ k, okAfter t k = true) :
    Emits [.text txt] [t] (fun _ => True) :=
  (Emits.text ht).weaken (fun k _ => hok k)

theorem lparenE : Emits [.text ['(']] [.lparen] (fun _ => True) := symE .lparen (fun _ => rfl)
theorem rparenE : Emits [.text [')']] [.rparen] (fun _ => True) := symE .rparen (fun _ => rfl)
theorem lbraceE : Emits [.text ['{']] [.lbrace] (fun _ => True) := symE .lbrace (fun _ => rfl)
theorem rbraceE : Emits [.text ['}']] [.rbrace] (fun _ => True) := symE .rbrace (fun _ => rfl)
theorem lbrackE : Emits [.text ['[']] [.lbrack] (fun _ => True) := symE .lbrack (fun _ => rfl)
theorem rbrackE : Emits [.text [']']] [.rbrack] (fun _ => True) := symE .rbrack (fun _ => rfl)
theorem commaE : Emits [.text [',']] [.comma] (fun _ => True) := symE .comma (fun _ => rfl)
theorem semiE : Emits [.text [';']] [.semi] (fun _ => True) := symE .semi (fun _ => rfl)
theorem dotE : Emits [.text ['.']] [.dot] (fun _ => True) := symE .dot (fun _ => rfl)
theorem fatArrowE : Emits [.text ['=', '>']] [.fatArrow] (fun _ => True) := symE .fatArrow (fun _ => rfl)

/-- weakening of the trivial condition -/
theorem Emits.any {ps : List Piece} {ts : List Token} (h : Emits ps ts (fun _ => True))
    (P : List Char → Prop) : Emits ps ts P := h.weaken (fun _ _ => trivial)

/-! ## computing piece streams -/

@[simp] theorem pieces_cat (a b : Doc) : pieces (a ++ b) = pieces a ++ pieces b := rfl
@[simp] theorem pieces_group (d : Doc) : pieces (.group d) = pieces d := rfl
@[simp] theorem pieces_nest (n : Int) (d : Doc) : pieces (.nest n d) = pieces d := rfl
@[simp] theorem pieces_align (d : Doc) : pieces (.align d) = pieces d := rfl
@[simp] theorem pieces_nil : pieces .nil = [] := rfl
@[simp] theorem pieces_text (s : List Char) : pieces (.text s) = [.text s] := rfl
@[simp] theorem pieces_space : pieces .space = [.space] := rfl
@[simp] theorem pieces_line : pieces .line = [.line] := rfl
@[simp] theorem pieces_line_ : pieces .line_ = [.line_] := rfl
@[simp] theorem pieces_hardline : pieces .hardline = [.hardline] := rfl

@[simp] theorem pieces_enclose (l r : List Char) (d : Doc) :
    pieces (Doc.enclose l r d) = [.text l] ++ pieces d ++ [.text r] := rfl
@[simp] theorem pieces_parens (d : Doc) : pieces (Doc.parens d) = [.text ['(']] ++ pieces d ++ [.text [')']] := rfl
@[simp] theorem pieces_brackets (d : Doc) : pieces (Doc.brackets d) = [.text ['[']] ++ pieces d ++ [.text [']']] := rfl
@[simp] theorem pieces_braces (d : Doc) : pieces (Doc.bracesAnno d) = [.text ['{']] ++ pieces d ++ [.text ['}']] := rfl
@[simp] theorem pieces_softBlock (cfg : PrintCfg) (d : Doc) :
    pieces (softBlock cfg d) = [.line_] ++ pieces d ++ [.line_] := rfl
@[simp] theorem pieces_kwDoc (k : Kw) : pieces (kwDoc k) = [.text k.chars] := rfl

theorem pieces_commaSep_cons2 (d d' : Doc) (ds : List Doc) :
    pieces (commaSep (d :: d' :: ds)) = pieces d ++ ([.text [',']] ++ ([.line] ++ pieces (commaSep (d' :: ds)))) := by
  simp [commaSep, Doc.intersperse, COMMA]

theorem pieces_commaSep_one (d : Doc) : pieces (commaSep [d]) = pieces d := by
  simp [commaSep, Doc.intersperse]

theorem pieces_commaSep_nil : pieces (commaSep []) = [] := by
  simp [commaSep, Doc.intersperse]

/-! ## types -/

mutual
  def WfTy : Ty → Prop
    | .i64 => True
    | .decl n as => upperName n.toList = true ∧ WfTys as
  def WfTys : Tys → Prop
    | .nil => True
    | .cons t r => WfTy t ∧ WfTys r
end

/-- the tokens of a non-empty comma separated type list -/
def tysToks : Tys → List Token
  | .nil => []
  | .cons t r => tyToks t ++ tysRestToks r

theorem SafeStart.comma (q : List Piece) : SafeStart ([.text [',']] ++ q) :=
  (SafeStart.text (c := ',') (w := []) (by decide)).append_left

mutual
  theorem tyE (cfg : PrintCfg) : (t : Ty) → WfTy t →
      Emits (pieces (tyDoc cfg t)) (tyToks t) NoId
    | .i64, _ => by
      simpa [tyDoc, tyToks] using kwE .i64
    | .decl n .nil, h => by
      simp only [WfTy] at h
      simpa [tyDoc, tyArgsDoc, tyToks, tyArgToks] using upperE h.1
    | .decl n (.cons t r), h => by
      simp only [WfTy] at h
      have hl := tysE cfg (.cons t r) h.2
      have e : Emits ([.text n.toList] ++ ([.text ['[']] ++ ([.line_] ++ (pieces (commaSep (tysDocs cfg (.cons t r)))
            ++ ([.line_] ++ [.text [']']])))))
          ([.upper n.toList] ++ ([.lbrack] ++ ([] ++ (tysToks (.cons t r) ++ ([] ++ [.rbrack]))))) NoId := by
        refine (upperE h.1).seq ?_ (fun s k hr _ => ?_)
        · refine lbrackE.seqT ((Emits.gap rfl).seqT (hl.seq (((Emits.gap rfl).seqT rbrackE).any _) ?_))
          intro s k hr _
          exact (SafeStart.gap_then (p := .line_) rfl (SafeStart.text (c := ']') (w := []) (by decide))) s k hr
        · obtain ⟨s1, s2, rfl, h1, _⟩ := renders_append.mp hr
          rw [renders_text h1]; rfl
      refine e.cast ?_ ?_
      · simp [tyDoc, tyArgsDoc, tysDocs]
      · simp [tyToks, tyArgToks, tysToks]
  theorem tysE (cfg : PrintCfg) : (ts : Tys) → WfTys ts →
      Emits (pieces (commaSep (tysDocs cfg ts))) (tysToks ts) Safe
    | .nil, _ => by
      simpa [tysDocs, tysToks, pieces_commaSep_nil] using Emits.nil.any Safe
    | .cons t .nil, h => by
      simp only [WfTys] at h
      have := (tyE cfg t h.1).weaken (fun k (hk : Safe k) => safe_noId hk)
      simpa [tysDocs, tysToks, tysRestToks, pieces_commaSep_one] using this
    | .cons t (.cons t' r), h => by
      simp only [WfTys] at h
      have h1 := (tyE cfg t h.1).weaken (fun k (hk : Safe k) => safe_noId hk)
      have h2 := tysE cfg (.cons t' r) ⟨h.2.1, h.2.2⟩
      have e := h1.seq (commaE.seqT ((Emits.gap (p := .line) rfl).seqT h2)) (fun s k hr _ => SafeStart.comma _ s k hr)
      refine e.cast ?_ ?_
      · simp [tysDocs, pieces_commaSep_cons2]
      · simp [tysToks, tysRestToks]
end


/-! ## small fused pieces -/

/-- a token whose text is followed by a space piece -/
theorem textSpaceE {t : Token} {txt : List Char} (ht : TokText t txt)
    (hok : ∀ r, okAfter t (' ' :: r) = true) : Emits ([.text txt] ++ [.space]) [t] (fun _ => True) := by
  refine (Emits.text ht).seq (Emits.gap (p := .space) rfl) (fun s k hr _ => ?_)
  cases hr with
  | space hr' => cases hr'; exact hok _

theorem kwSpaceE (k : Kw) : Emits ([.text k.chars] ++ [.space]) [.kw k] (fun _ => True) :=
  textSpaceE (.kw k) (fun _ => by simp [okAfter, notHead]; decide)

/-- `c`, a space and `0` are lexed as ONE token `c\s*0` -/
theorem zcmpE (c : IfSort) :
    Emits ([.text (sortChars c)] ++ ([.space] ++ [.text ['0']])) [.zcmpL c] (fun _ => True) := by
  intro s k tsk hr hk _
  obtain ⟨s1, s2, rfl, h1, h2⟩ := renders_append.mp hr
  obtain ⟨s3, s4, rfl, h3, h4⟩ := renders_append.mp h2
  rw [renders_text h1, renders_text h4]
  cases h3 with
  | space h3' =>
    cases h3'
    have := Spells.text (TokText.zcmpL c [' '] gap_space) (rest := k) rfl hk
    simpa using this

/-- `:`, a space and `cns` are lexed as ONE token `:\s*cns` -/
theorem colonCnsE :
    Emits ([.text [':']] ++ ([.space] ++ [.text ['c', 'n', 's']])) [.colonCns] (fun _ => True) := by
  intro s k tsk hr hk _
  obtain ⟨s1, s2, rfl, h1, h2⟩ := renders_append.mp hr
  obtain ⟨s3, s4, rfl, h3, h4⟩ := renders_append.mp h2
  rw [renders_text h1, renders_text h4]
  cases h3 with
  | space h3' =>
    cases h3'
    have := Spells.text (TokText.colonCns [' '] gap_space) (rest := k) rfl hk
    simpa using this

/-- literals: `-n` is printed as one atom and lexed as two tokens -/
theorem litE (n : Int) :
    Emits [.text (intChars n)] (litToks n) (fun k => okAfter (.num (natDigits n.natAbs)) k = true) := by
  cases n with
  | ofNat m => exact Emits.text (natDigits_tokText m)
  | negSucc m =>
    intro s k tsk hr hk ok
    rw [renders_text hr]
    have h1 := Spells.text (natDigits_tokText (m + 1)) ok hk
    have h2 := Spells.text TokText.minus (rest := natDigits (m + 1) ++ k) rfl h1
    simpa [intChars, litToks] using h2

theorem SafeStart.lineText {p : Piece} {c : Char} (hp : p.isGap = true) (hc : isSafeC c = true)
    (q : List Piece) : SafeStart ([p] ++ ([.text [c]] ++ q)) :=
  SafeStart.gap_then hp (SafeStart.text (w := []) hc).append_left

theorem SafeStart.text1 {c : Char} (hc : isSafeC c = true) (q : List Piece) :
    SafeStart ([.text [c]] ++ q) := (SafeStart.text (w := []) hc).append_left

/-- `{ line X line }` -/
theorem bracedE {px : List Piece} {tx : List Token} {P : List Char → Prop} (hx : Emits px tx P)
    (hP : ∀ k, safeNext k = true → P k) :
    Emits ([.text ['{']] ++ ([.line] ++ (px ++ ([.line] ++ [.text ['}']]))))
      ([.lbrace] ++ (tx ++ [.rbrace])) (fun _ => True) := by
  refine lbraceE.seqT ?_
  have := (Emits.gap (p := .line) rfl).seqT (hx.seq ((Emits.gap (p := .line) rfl).seqT rbraceE) ?_)
  · simpa using this
  · intro s k hr _
    refine hP _ ?_
    have := SafeStart.lineText (p := .line) (c := '}') rfl (by decide) [] s k
    simp only [List.append_nil] at this
    exact this hr

/-- `{ hardline X hardline }` -/
theorem bracedHardE {px : List Piece} {tx : List Token} {P : List Char → Prop} (hx : Emits px tx P)
    (hP : ∀ k, safeNext k = true → P k) :
    Emits ([.text ['{']] ++ ([.hardline] ++ (px ++ ([.hardline] ++ [.text ['}']]))))
      ([.lbrace] ++ (tx ++ [.rbrace])) (fun _ => True) := by
  refine lbraceE.seqT ?_
  have := (Emits.gap (p := .hardline) rfl).seqT (hx.seq ((Emits.gap (p := .hardline) rfl).seqT rbraceE) ?_)
  · simpa using this
  · intro s k hr _
    refine hP _ ?_
    have := SafeStart.lineText (p := .hardline) (c := '}') rfl (by decide) [] s k
    simp only [List.append_nil] at this
    exact this hr

/-- `( line_ X line_ )` -/
theorem parenBlockE {px : List Piece} {tx : List Token} {P : List Char → Prop} (hx : Emits px tx P)
    (hP : ∀ k, safeNext k = true → P k) :
    Emits ([.text ['(']] ++ ([.line_] ++ (px ++ ([.line_] ++ [.text [')']]))))
      ([.lparen] ++ (tx ++ [.rparen])) (fun _ => True) := by
  refine lparenE.seqT ?_
  have := (Emits.gap (p := .line_) rfl).seqT (hx.seq ((Emits.gap (p := .line_) rfl).seqT rparenE) ?_)
  · simpa using this
  · intro s k hr _
    refine hP _ ?_
    have := SafeStart.lineText (p := .line_) (c := ')') rfl (by decide) [] s k
    simp only [List.append_nil] at this
    exact this hr

/-- `[ line_ X line_ ]` -/
theorem bracketBlockE {px : List Piece} {tx : List Token} {P : List Char → Prop} (hx : Emits px tx P)
    (hP : ∀ k, safeNext k = true → P k) :
    Emits ([.text ['[']] ++ ([.line_] ++ (px ++ ([.line_] ++ [.text [']']]))))
      ([.lbrack] ++ (tx ++ [.rbrack])) (fun _ => True) := by
  refine lbrackE.seqT ?_
  have := (Emits.gap (p := .line_) rfl).seqT (hx.seq ((Emits.gap (p := .line_) rfl).seqT rbrackE) ?_)
  · simpa using this
  · intro s k hr _
    refine hP _ ?_
    have := SafeStart.lineText (p := .line_) (c := ']') rfl (by decide) [] s k
    simp only [List.append_nil] at this
    exact this hr

/-! ## side conditions on terms -/

/-- the rightmost leaf of the term (the last thing printed) is the literal `0` -/
def endsZero : Term → Bool
  | .lit n => n == 0
  | .op _ _ b => endsZero b
  | .print _ _ n _ => endsZero n
  | .letIn _ _ _ i _ => endsZero i
  | .exit t _ => endsZero t
  | _ => false

/-- the leftmost leaf of the term (the first thing printed) is the literal `0` -/
def startsZero : Term → Bool
  | .lit n => n == 0
  | .op a _ _ => startsZero a
  | .dtor s _ _ _ _ => startsZero s
  | .case s _ _ _ => startsZero s
  | _ => false

def xtorName (p : Polarity) (x : String) : Bool :=
  match p with
  | .data => upperName x.toList
  | .codata => lowerName x.toList

mutual
  /-- `PrintOk t`: (1) every name is an identifier of the right case and no keyword; (2) the zero
  edge conditions (defect D3): the first operand of a comparison does not END with the literal `0`
  and the second operand does not START with it. -/
  def PrintOk : Term → Prop
    | .var x _ _ => lowerName x.toList = true
    | .lit _ => True
    | .op a _ b => PrintOk a ∧ PrintOk b
    | .ifc _ a b t e _ =>
      PrintOk a ∧ PrintOk b ∧ PrintOk t ∧ PrintOk e ∧ endsZero a = false ∧ startsZero b = false
    | .ifz _ a t e _ => PrintOk a ∧ PrintOk t ∧ PrintOk e ∧ endsZero a = false
    | .print _ a n _ => PrintOk a ∧ PrintOk n
    | .letIn x ty b i _ => lowerName x.toList = true ∧ WfTy ty ∧ PrintOk b ∧ PrintOk i
    | .call f as _ => lowerName f.toList = true ∧ PrintOks as
    | .ctor k as _ => upperName k.toList = true ∧ PrintOks as
    | .dtor s d tas as _ => PrintOk s ∧ lowerName d.toList = true ∧ WfTys tas ∧ PrintOks as
    | .case s tas cs _ => PrintOk s ∧ WfTys tas ∧ PrintOkCs cs
    | .new cs _ => PrintOkCs cs
    | .label a t _ => lowerName a.toList = true ∧ PrintOk t
    | .goto a t _ => lowerName a.toList = true ∧ PrintOk t
    | .exit t _ => PrintOk t
    | .paren t => PrintOk t
  def PrintOks : Terms → Prop
    | .nil => True
    | .cons t r => PrintOk t ∧ PrintOks r
  def PrintOkCs : Clauses → Prop
    | .nil => True
    | .cons p x ns _ b r =>
      xtorName p x = true ∧ (∀ n ∈ ns, lowerName n.toList = true) ∧ PrintOk b ∧ PrintOkCs r
end

/-- the last token of the printed term -/
def lastTok : Term → Token
  | .var x _ _ => .lower x.toList
  | .lit n => .num (natDigits n.natAbs)
  | .op _ _ b => lastTok b
  | .ifc .. => .rbrace
  | .ifz .. => .rbrace
  | .print _ _ n _ => lastTok n
  | .letIn _ _ _ i _ => lastTok i
  | .call .. => .rparen
  | .ctor k .nil _ => .upper k.toList
  | .ctor _ (.cons ..) _ => .rparen
  | .dtor _ d .nil .nil _ => .lower d.toList
  | .dtor _ _ (.cons ..) .nil _ => .rbrack
  | .dtor _ _ _ (.cons ..) _ => .rparen
  | .case .. => .rbrace
  | .new .. => .rbrace
  | .label .. => .rbrace
  | .goto .. => .rparen
  | .exit t _ => lastTok t
  | .paren _ => .rparen

theorem lastTok_end : (t : Term) → EndTok (lastTok t)
  | .var .. | .lit .. | .ifc .. | .ifz .. | .call .. | .case .. | .new .. | .label .. | .goto ..
  | .paren .. => trivial
  | .op _ _ b => by simpa [lastTok] using lastTok_end b
  | .print _ _ n _ => by simpa [lastTok] using lastTok_end n
  | .letIn _ _ _ i _ => by simpa [lastTok] using lastTok_end i
  | .exit t _ => by simpa [lastTok] using lastTok_end t
  | .ctor _ .nil _ => trivial
  | .ctor _ (.cons ..) _ => trivial
  | .dtor _ _ .nil .nil _ => trivial
  | .dtor _ _ (.cons ..) .nil _ => trivial
  | .dtor _ _ .nil (.cons ..) _ => trivial
  | .dtor _ _ (.cons ..) (.cons ..) _ => trivial

theorem lastTok_zero : (t : Term) → lastTok t = .num ['0'] → endsZero t = true
  | .lit n, h => by
    simp only [lastTok, Token.num.injEq] at h
    have := natDigits_eq_zero h
    simp only [endsZero, beq_iff_eq]
    omega
  | .op _ _ b, h => by simpa [endsZero] using lastTok_zero b (by simpa [lastTok] using h)
  | .print _ _ n _, h => by simpa [endsZero] using lastTok_zero n (by simpa [lastTok] using h)
  | .letIn _ _ _ i _, h => by simpa [endsZero] using lastTok_zero i (by simpa [lastTok] using h)
  | .exit t _, h => by simpa [endsZero] using lastTok_zero t (by simpa [lastTok] using h)
  | .var .., h | .ifc .., h | .ifz .., h | .call .., h | .case .., h | .new .., h | .label .., h
  | .goto .., h | .paren .., h => by simp [lastTok] at h
  | .ctor _ .nil _, h => by simp [lastTok] at h
  | .ctor _ (.cons ..) _, h => by simp [lastTok] at h
  | .dtor _ _ .nil .nil _, h => by simp [lastTok] at h
  | .dtor _ _ (.cons ..) .nil _, h => by simp [lastTok] at h
  | .dtor _ _ .nil (.cons ..) _, h => by simp [lastTok] at h
  | .dtor _ _ (.cons ..) (.cons ..) _, h => by simp [lastTok] at h

/-- a term that does not end with the literal `0` may be followed by a space and anything -/
theorem okAfter_lastTok_space {t : Term} (h : endsZero t = false) (r : List Char) :
    okAfter (lastTok t) (' ' :: r) = true :=
  okAfter_space (lastTok_end t) (fun h0 => by rw [lastTok_zero t h0] at h; cases h)


/-! ## the first character of a printed term -/

theorem head_cons {c : Char} {w : List Char} {q : List Piece} {s : List Char}
    (h : Renders (.text (c :: w) :: q) s) : ∃ r, s = c :: r := by
  cases h with
  | text _ hr => exact ⟨_, rfl⟩

theorem lowerName_cons {w : List Char} (h : lowerName w = true) :
    ∃ c r, w = c :: r ∧ isLowerC c = true := by
  cases w with
  | nil => simp [lowerName] at h
  | cons c r =>
    simp only [lowerName, Bool.and_eq_true] at h
    exact ⟨c, r, rfl, h.1.1⟩

theorem upperName_cons {w : List Char} (h : upperName w = true) :
    ∃ c r, w = c :: r ∧ isUpperC c = true := by
  cases w with
  | nil => simp [upperName] at h
  | cons c r =>
    simp only [upperName, Bool.and_eq_true] at h
    exact ⟨c, r, rfl, h.1⟩

theorem lower_ne_zero {c : Char} (h : isLowerC c = true) : c ≠ '0' := by
  intro h0; subst h0; exact absurd h (by decide)

theorem upper_ne_zero {c : Char} (h : isUpperC c = true) : c ≠ '0' := by
  intro h0; subst h0; exact absurd h (by decide)

/-- what a rendering starts with: a non-blank character, which is `0` only for a leading literal 0 -/
def HeadOk (t : Term) (s : List Char) : Prop :=
  ∃ c r, s = c :: r ∧ isWs c = false ∧ (c = '0' → startsZero t = true)

theorem headOk_lower {t : Term} {w : List Char} {q : List Piece} {s : List Char}
    (hw : lowerName w = true) (h : Renders (.text w :: q) s) : HeadOk t s := by
  obtain ⟨c, r, rfl, hc⟩ := lowerName_cons hw
  obtain ⟨r', rfl⟩ := head_cons h
  exact ⟨c, r', rfl, lower_not_ws hc, fun h0 => absurd h0 (lower_ne_zero hc)⟩

theorem headOk_upper {t : Term} {w : List Char} {q : List Piece} {s : List Char}
    (hw : upperName w = true) (h : Renders (.text w :: q) s) : HeadOk t s := by
  obtain ⟨c, r, rfl, hc⟩ := upperName_cons hw
  obtain ⟨r', rfl⟩ := head_cons h
  exact ⟨c, r', rfl, upper_not_ws hc, fun h0 => absurd h0 (upper_ne_zero hc)⟩

theorem headOk_kw {t : Term} (k : Kw) {q : List Piece} {s : List Char}
    (h : Renders (.text k.chars :: q) s) : HeadOk t s := by
  cases k <;> (obtain ⟨r', rfl⟩ := head_cons h; exact ⟨_, r', rfl, by decide, fun h0 => absurd h0 (by decide)⟩)

theorem headOk_sub {t a : Term} {p q : List Piece} {s : List Char}
    (ih : ∀ s, Renders p s → HeadOk a s) (hz : startsZero a = startsZero t)
    (h : Renders (p ++ q) s) : HeadOk t s := by
  obtain ⟨s1, s2, rfl, h1, _⟩ := renders_append.mp h
  obtain ⟨c, r, rfl, hc, h0⟩ := ih s1 h1
  exact ⟨c, r ++ s2, rfl, hc, fun h => hz ▸ h0 h⟩

theorem intChars_head (n : Int) : ∃ c r, intChars n = c :: r ∧ isWs c = false ∧ (c = '0' → n = 0) := by
  cases n with
  | ofNat m =>
    by_cases h0 : m = 0
    · subst h0; exact ⟨'0', [], by decide, by decide, fun _ => rfl⟩
    · obtain ⟨c, w, hc, hne⟩ := natDigits_head m (by omega)
      have hd := natDigits_all_digit m c (by rw [hc]; exact List.mem_cons_self)
      exact ⟨c, w, by simpa [intChars] using hc, digit_not_ws hd, fun h => absurd h hne⟩
  | negSucc m => exact ⟨'-', _, rfl, by decide, fun h => absurd h (by decide)⟩

theorem term_head (cfg : PrintCfg) : (t : Term) → PrintOk t →
    ∀ s, Renders (pieces (termDoc cfg t)) s → HeadOk t s
  | .var x _ _, h, s, hr => by
    simp only [PrintOk] at h
    simp only [termDoc, pieces_text] at hr
    exact headOk_lower h hr
  | .lit n, _, s, hr => by
    simp only [termDoc, pieces_text] at hr
    obtain ⟨c, r, hc, hws, h0⟩ := intChars_head n
    rw [renders_text hr, hc]
    exact ⟨c, r, rfl, hws, fun h => by simp [startsZero, h0 h]⟩
  | .op a o b, h, s, hr => by
    simp only [PrintOk] at h
    simp only [termDoc, pieces_cat, pieces_group, List.append_assoc] at hr
    exact headOk_sub (term_head cfg a h.1) (by simp [startsZero]) hr
  | .ifc .., _, s, hr => by
    simp only [termDoc, pieces_cat, pieces_kwDoc, List.append_assoc, List.singleton_append] at hr
    exact headOk_kw _ hr
  | .ifz .., _, s, hr => by
    simp only [termDoc, pieces_cat, pieces_kwDoc, List.append_assoc, List.singleton_append] at hr
    exact headOk_kw _ hr
  | .print .., _, s, hr => by
    simp only [termDoc, pieces_cat, pieces_kwDoc, List.append_assoc, List.singleton_append] at hr
    exact headOk_kw _ hr
  | .letIn .., _, s, hr => by
    simp only [termDoc, pieces_cat, pieces_kwDoc, List.append_assoc, List.singleton_append] at hr
    exact headOk_kw _ hr
  | .call f as _, h, s, hr => by
    simp only [PrintOk] at h
    simp only [termDoc, pieces_cat, pieces_text, List.singleton_append] at hr
    exact headOk_lower h.1 hr
  | .ctor k as _, h, s, hr => by
    simp only [PrintOk] at h
    simp only [termDoc, pieces_cat, pieces_text, List.singleton_append] at hr
    exact headOk_upper h.1 hr
  | .dtor a d tas as _, h, s, hr => by
    simp only [PrintOk] at h
    simp only [termDoc] at hr
    split at hr <;>
      (simp only [pieces_cat, pieces_align, pieces_nest, List.append_assoc] at hr
       exact headOk_sub (term_head cfg a h.1) (by simp [startsZero]) hr)
  | .case a tas cs _, h, s, hr => by
    simp only [PrintOk] at h
    simp only [termDoc] at hr
    split at hr <;>
      (simp only [pieces_cat, pieces_align, pieces_nest, List.append_assoc] at hr
       exact headOk_sub (term_head cfg a h.1) (by simp [startsZero]) hr)
  | .new .., _, s, hr => by
    simp only [termDoc, pieces_cat, pieces_kwDoc, List.singleton_append] at hr
    exact headOk_kw _ hr
  | .label .., _, s, hr => by
    simp only [termDoc, pieces_cat, pieces_kwDoc, List.append_assoc, List.singleton_append] at hr
    exact headOk_kw _ hr
  | .goto .., _, s, hr => by
    simp only [termDoc, pieces_cat, pieces_kwDoc, List.append_assoc, List.singleton_append] at hr
    exact headOk_kw _ hr
  | .exit .., _, s, hr => by
    simp only [termDoc, pieces_cat, pieces_kwDoc, List.singleton_append] at hr
    exact headOk_kw _ hr
  | .paren t, _, s, hr => by
    simp only [termDoc, parenBlock, pieces_parens, List.singleton_append] at hr
    obtain ⟨r', rfl⟩ := head_cons hr
    exact ⟨_, r', rfl, by decide, fun h0 => absurd h0 (by decide)⟩


/-! ## comma separated lists -/

theorem commaSepListE {α : Type} (d : α → Doc) (tk : α → List Token) : (xs : List α) →
    (∀ x ∈ xs, Emits (pieces (d x)) (tk x) Safe) →
    Emits (pieces (commaSep (xs.map d))) (joinToks [.comma] (xs.map tk)) Safe
  | [], _ => by simpa [pieces_commaSep_nil, joinToks] using Emits.nil.any Safe
  | [x], h => by simpa [pieces_commaSep_one, joinToks] using h x (by simp)
  | x :: y :: r, h => by
    have h1 := h x (by simp)
    have h2 := commaSepListE d tk (y :: r) (fun z hz => h z (by simp [List.mem_cons] at hz ⊢; right; exact hz))
    have e := h1.seq (commaE.seqT ((Emits.gap (p := .line) rfl).seqT h2)) (fun s k hr _ => SafeStart.comma _ s k hr)
    refine e.cast ?_ ?_
    · simp [pieces_commaSep_cons2]
    · simp [joinToks]

/-- `OptTypeArgs` -/
theorem tyArgsE (cfg : PrintCfg) : (tas : Tys) → WfTys tas →
    Emits (pieces (tyArgsDoc cfg tas)) (tyArgToks tas) (fun _ => True)
  | .nil, _ => by simpa [tyArgsDoc, tyArgToks] using Emits.nil
  | .cons t r, h => by
    have e := bracketBlockE (tysE cfg (.cons t r) h) (fun _ hk => hk)
    refine e.cast ?_ ?_
    · simp [tyArgsDoc, tysDocs]
    · simp [tyArgToks, tysToks]

/-- `OptNameContext` -/
theorem namesE (cfg : PrintCfg) (ns : List String) (h : ∀ n ∈ ns, lowerName n.toList = true) :
    Emits (pieces (namesDoc cfg ns)) (namesToks ns) (fun _ => True) := by
  cases ns with
  | nil => simpa [namesDoc, namesToks] using Emits.nil
  | cons n r =>
    have hl := commaSepListE (fun n : String => Doc.text n.toList) (fun n => [Token.lower n.toList]) (n :: r)
      (fun x hx => (lowerE (h x hx)).weaken (fun k hk => safe_noId hk))
    have e := parenBlockE hl (fun _ hk => hk)
    refine e.cast ?_ ?_
    · simp [namesDoc]
    · simp [namesToks]

/-- a constructor/destructor name at the head of a clause -/
theorem xtorE {p : Polarity} {x : String} (h : xtorName p x = true) :
    Emits [.text x.toList] [xtorTok p x] NoId := by
  cases p
  · exact upperE h
  · exact lowerE h

theorem binOpE (o : BinOp) : Emits (pieces (binOpDoc o) ++ [.space]) [binOpTok o] (fun _ => True) := by
  cases o <;> simp only [binOpDoc, binOpTok, pieces_text]
  · exact textSpaceE .slash (fun _ => by simp [okAfter, notHead])
  · exact textSpaceE .star (fun _ => rfl)
  · exact textSpaceE .percent (fun _ => rfl)
  · exact textSpaceE .plus (fun _ => rfl)
  · exact textSpaceE .minus (fun _ => rfl)

theorem binOp_safeStart (o : BinOp) (q : List Piece) :
    SafeStart ([.space] ++ ((pieces (binOpDoc o) ++ [.space]) ++ q)) := by
  refine SafeStart.gap_then rfl (SafeStart.append_left (SafeStart.append_left ?_))
  cases o <;> simp only [binOpDoc, pieces_text] <;> exact SafeStart.text (w := []) (by decide)


/-! ## terms -/

/-- the condition the last token of a printed term puts on what follows -/
abbrev TermP (t : Term) : List Char → Prop := fun k => okAfter (lastTok t) k = true

theorem termP_of_safe (t : Term) (k : List Char) (h : safeNext k = true) : TermP t k :=
  okAfter_of_safeNext (lastTok_end t) h

theorem noId_text {c : Char} {w : List Char} {q : List Piece} (hc : isIdC c = false) :
    ∀ s k, Renders ([.text (c :: w)] ++ q) s → NoId (s ++ k) := by
  intro s k hr
  obtain ⟨s1, s2, rfl, h1, _⟩ := renders_append.mp hr
  rw [renders_text h1]
  simp [NoId, notHead, hc]

theorem noId_space {q : List Piece} : ∀ s k, Renders ([.space] ++ q) s → NoId (s ++ k) := by
  intro s k hr
  obtain ⟨s1, s2, rfl, h1, _⟩ := renders_append.mp hr
  cases h1 with
  | space h => cases h; simp [NoId, notHead]; decide

theorem renders_space_append {q : List Piece} {s : List Char} (h : Renders ([.space] ++ q) s) :
    ∃ s', s = ' ' :: s' ∧ Renders q s' := by
  obtain ⟨s1, s2, rfl, h1, h2⟩ := renders_append.mp h
  cases h1 with
  | space hh => rw [renders_nil.mp hh]; exact ⟨s2, by simp, h2⟩

/-- a comparison symbol followed by a space and a non-blank character other than `0` -/
theorem okAfter_cmp_space {c : IfSort} {ch : Char} {r : List Char} (hws : isWs ch = false)
    (h0 : ch ≠ '0') : okAfter (.cmp c) (' ' :: ch :: r) = true := by
  have hsp : isWs ' ' = true := by decide
  cases c <;> simp [okAfter, notHead, hsp, hws, h0]

/-- the first character of a printed type: an upper case letter or `i` -/
theorem ty_head (cfg : PrintCfg) (t : Ty) (h : WfTy t) (s : List Char)
    (hr : Renders (pieces (tyDoc cfg t)) s) : ∃ c r, s = c :: r ∧ isWs c = false ∧ c ≠ 'c' := by
  cases t with
  | i64 =>
    simp only [tyDoc, pieces_kwDoc] at hr
    rw [renders_text hr]
    exact ⟨'i', _, rfl, by decide, by decide⟩
  | decl n as =>
    simp only [WfTy] at h
    obtain ⟨c, w, hn, hc⟩ := upperName_cons h.1
    simp only [tyDoc, pieces_cat, pieces_text, hn] at hr
    obtain ⟨s1, s2, rfl, h1, _⟩ := renders_append.mp hr
    rw [renders_text h1]
    refine ⟨c, w ++ s2, rfl, upper_not_ws hc, ?_⟩
    intro h'; subst h'; exact absurd hc (by decide)

/-- `:` followed by a space and a type -/
theorem okAfter_colon_ty (cfg : PrintCfg) (t : Ty) (h : WfTy t) {q : List Piece} (s k : List Char)
    (hr : Renders ([.space] ++ (pieces (tyDoc cfg t) ++ q)) s) : okAfter .colon (s ++ k) = true := by
  obtain ⟨s', rfl, hr'⟩ := renders_space_append hr
  obtain ⟨s1, s2, rfl, h1, _⟩ := renders_append.mp hr'
  obtain ⟨c, r, rfl, hws, hc⟩ := ty_head cfg t h s1 h1
  have hsp : isWs ' ' = true := by decide
  simp only [okAfter, List.cons_append, List.dropWhile_cons, hsp, hws, if_true, Bool.false_eq_true, if_false]
  cases hcc : startsCns (c :: (r ++ s2 ++ k)) with
  | false => rfl
  | true =>
    unfold startsCns at hcc
    split at hcc
    · rename_i heq; injection heq with h1 _; exact absurd h1 hc
    · cases hcc

/-- optional argument list in parentheses (constructor and destructor arguments) -/
def optArgsDoc (cfg : PrintCfg) (as : Terms) : Doc :=
  Doc.group (match as with
    | .nil => Doc.nil
    | _ => Doc.parens (argsDoc cfg as))

def optArgsToks : Terms → List Token
  | .nil => []
  | .cons t r => .lparen :: termsToks (.cons t r) ++ [.rparen]

theorem optArgsE (cfg : PrintCfg) (as : Terms)
    (hl : Emits (pieces (commaSep (termsDocs cfg as))) (termsToks as) Safe) :
    Emits (pieces (optArgsDoc cfg as)) (optArgsToks as) (fun _ => True) := by
  cases as with
  | nil => simpa [optArgsDoc, optArgsToks] using Emits.nil
  | cons t r =>
    refine (parenBlockE hl (fun _ hk => hk)).cast ?_ ?_
    · simp [optArgsDoc, argsDoc, termsDocs]
    · simp [optArgsToks]

/-- mandatory argument list of a call -/
theorem callArgsE (cfg : PrintCfg) (as : Terms)
    (hl : Emits (pieces (commaSep (termsDocs cfg as))) (termsToks as) Safe) :
    Emits (pieces (Doc.parens (argsDoc cfg as))) ([.lparen] ++ (termsToks as ++ [.rparen])) (fun _ => True) := by
  cases as with
  | nil =>
    refine (lparenE.seqT rparenE).cast ?_ ?_
    · simp [argsDoc]
    · simp [termsToks]
  | cons t r =>
    refine (parenBlockE hl (fun _ hk => hk)).cast ?_ ?_
    · simp [argsDoc, termsDocs]
    · simp

/-- `d[..](..)` after the dot of a destructor -/
theorem dtorTailE (cfg : PrintCfg) (s : Term) (d : String) (tas : Tys) (as : Terms) (ty : Option Ty)
    (hd : lowerName d.toList = true) (htas : WfTys tas)
    (hl : Emits (pieces (commaSep (termsDocs cfg as))) (termsToks as) Safe) :
    Emits ([.text d.toList] ++ (pieces (tyArgsDoc cfg tas) ++ pieces (optArgsDoc cfg as)))
      ([.lower d.toList] ++ (tyArgToks tas ++ optArgsToks as)) (TermP (.dtor s d tas as ty)) := by
  have ha := optArgsE cfg as hl
  have ht := tyArgsE cfg tas htas
  cases tas with
  | nil =>
    cases as with
    | nil =>
      refine (lowerE hd).cast ?_ ?_
      · simp [tyArgsDoc, optArgsDoc]
      · simp [tyArgToks, optArgsToks]
    | cons a r =>
      refine (((lowerE hd).seq ha ?_).any _).cast ?_ ?_
      · intro s2 k hr _
        simp only [optArgsDoc, argsDoc, pieces_group, pieces_parens, List.append_assoc] at hr
        exact noId_text (by decide) s2 k hr
      · simp [tyArgsDoc]
      · simp [tyArgToks]
  | cons t r =>
    have hlink : ∀ s2 k, Renders (pieces (tyArgsDoc cfg (.cons t r)) ++ pieces (optArgsDoc cfg as)) s2 → True →
        NoId (s2 ++ k) := by
      intro s2 k hr _
      simp only [tyArgsDoc, pieces_group, pieces_brackets, List.append_assoc] at hr
      exact noId_text (by decide) s2 k hr
    cases as with
    | nil => exact ((lowerE hd).seq (ht.seqT ha) hlink).any _
    | cons a r' => exact ((lowerE hd).seq (ht.seqT ha) hlink).any _

/-- clause.rs: one clause, given the body -/
theorem clauseE (cfg : PrintCfg) (p : Polarity) (x : String) (ns : List String) (b : Term)
    (hx : xtorName p x = true) (hns : ∀ n ∈ ns, lowerName n.toList = true)
    (hb : Emits (pieces (termDoc cfg b)) (termToks b) (TermP b)) :
    Emits (pieces (clauseDoc cfg x ns (termDoc cfg b)))
      ([xtorTok p x] ++ (namesToks ns ++ ([.fatArrow] ++ termToks b))) (TermP b) := by
  have e := (xtorE hx).seq ((namesE cfg ns hns).seqT ((Emits.gap (p := .space) rfl).seqT
    (fatArrowE.seqT ((Emits.gap (p := .line) rfl).seqT hb)))) ?_
  · refine e.cast ?_ ?_
    · simp [clauseDoc, FAT_ARROW]
    · simp
  · intro s2 k hr _
    cases ns with
    | nil =>
      simp only [namesDoc, pieces_nil, List.nil_append] at hr
      exact noId_space s2 k hr
    | cons n r =>
      simp only [namesDoc, pieces_group, pieces_parens, List.append_assoc] at hr
      exact noId_text (by decide) s2 k hr


/-- clause.rs: fn print_clauses, given the clause list -/
theorem clausesBlockE (cfg : PrintCfg) (cs : Clauses)
    (hl : Emits (pieces (Doc.intersperse (COMMA ++ .hardline) (clausesDocs cfg cs))) (clausesToks cs) Safe) :
    Emits (pieces (clausesBlockDoc cfg cs)) ([.lbrace] ++ (clausesToks cs ++ [.rbrace])) (fun _ => True) := by
  match cs, hl with
  | .nil, _ =>
    refine (lbraceE.seqT ((Emits.gap (p := .space) rfl).seqT rbraceE)).cast ?_ ?_
    · simp [clausesBlockDoc]
    · simp [clausesToks]
  | .cons p x ns c b .nil, hl =>
    refine (bracedE hl (fun _ hk => hk)).cast ?_ ?_
    · simp [clausesBlockDoc, clausesDocs, Doc.intersperse]
    · simp
  | .cons p x ns c b (.cons p2 x2 ns2 c2 b2 r), hl =>
    refine (bracedHardE hl (fun _ hk => hk)).cast ?_ ?_
    · simp [clausesBlockDoc, clausesDocs]
    · simp

/-- the two spellings of the dot of a destructor/case: with and without the soft break -/
theorem dotE' (b : Bool) : Emits ((if b then [] else [.line_]) ++ [.text ['.']]) [.dot] (fun _ => True) := by
  cases b
  · simpa using (Emits.gap (p := .line_) rfl).seqT dotE
  · simpa using dotE

theorem dot_safeStart (b : Bool) (q : List Piece) :
    SafeStart (((if b then [] else [.line_]) ++ [.text ['.']]) ++ q) := by
  cases b
  · simpa using SafeStart.lineText (p := .line_) (c := '.') rfl (by decide) q
  · simpa using SafeStart.text1 (c := '.') (by decide) q

theorem brace_safeStart (q r : List Piece) :
    SafeStart ([.space] ++ (([.text ['{']] ++ q) ++ r)) :=
  SafeStart.gap_then rfl (SafeStart.text1 (by decide) q).append_left


/-- `{ X } else { Y }` -/
theorem thenElseE (cfg : PrintCfg) (t e : Term)
    (ht : Emits (pieces (termDoc cfg t)) (termToks t) (TermP t))
    (he : Emits (pieces (termDoc cfg e)) (termToks e) (TermP e)) :
    Emits (pieces (bracedBlock cfg (termDoc cfg t)) ++ ([.space] ++ (([.text Kw.else_.chars] ++ [.space])
        ++ pieces (bracedBlock cfg (termDoc cfg e)))))
      (([.lbrace] ++ (termToks t ++ [.rbrace])) ++ ([] ++ ([.kw .else_] ++ ([.lbrace] ++ (termToks e ++ [.rbrace])))))
      (fun _ => True) := by
  have bt := bracedE ht (termP_of_safe t)
  have be := bracedE he (termP_of_safe e)
  refine ((bt.seqT ((Emits.gap (p := .space) rfl).seqT ((kwSpaceE .else_).seqT be)))).cast ?_ rfl
  simp [bracedBlock]

theorem thenElse_safeStart (cfg : PrintCfg) (t : Doc) (q : List Piece) :
    SafeStart ([.space] ++ (pieces (bracedBlock cfg t) ++ q)) := by
  have := brace_safeStart ([.line] ++ (pieces t ++ ([.line] ++ [.text ['}']]))) q
  simpa [bracedBlock] using this

set_option maxHeartbeats 400000 in
mutual
  theorem termE (cfg : PrintCfg) : (t : Term) → PrintOk t →
      Emits (pieces (termDoc cfg t)) (termToks t) (TermP t)
    | .var x _ _, h => by
      simp only [PrintOk] at h
      refine (Emits.text (lower_tokText h)).cast ?_ ?_
      · simp [termDoc]
      · simp [termToks]
    | .lit n, _ => by
      refine (litE n).cast ?_ ?_
      · simp [termDoc]
      · simp [termToks]
    | .op a o b, h => by
      simp only [PrintOk] at h
      have e := (termE cfg a h.1).seq ((Emits.gap (p := .space) rfl).seqT ((binOpE o).seqT (termE cfg b h.2)))
        (fun s k hr _ => termP_of_safe a _ (binOp_safeStart o _ s k hr))
      refine e.cast ?_ ?_
      · simp [termDoc]
      · simp [termToks]
    | .ifc c a b t e _, h => by
      simp only [PrintOk] at h
      obtain ⟨ha, hb, ht, he, hza, hzb⟩ := h
      have tail := thenElseE cfg t e (termE cfg t ht) (termE cfg e he)
      have eb := (termE cfg b hb).seq ((Emits.gap (p := .space) rfl).seqT tail)
        (fun s k hr _ => termP_of_safe b _ (thenElse_safeStart cfg _ _ s k hr))
      have ecmp := (Emits.text (TokText.cmp c)).seq ((Emits.gap (p := .space) rfl).seqT eb) (by
        intro s2 k hr _
        obtain ⟨s', rfl, hr'⟩ := renders_space_append hr
        obtain ⟨s1, s3, rfl, h1, _⟩ := renders_append.mp hr'
        obtain ⟨ch, r, rfl, hws, h0⟩ := term_head cfg b hb s1 h1
        have hne : ch ≠ '0' := fun hc => by rw [h0 hc] at hzb; cases hzb
        simpa using okAfter_cmp_space (c := c) (r := r ++ s3 ++ k) hws hne)
      have ea := (termE cfg a ha).seq ((Emits.gap (p := .space) rfl).seqT ecmp) (by
        intro s2 k hr _
        obtain ⟨s', rfl, _⟩ := renders_space_append hr
        exact okAfter_lastTok_space hza _)
      refine (((kwSpaceE .if_).seqT ea).any _).cast ?_ ?_
      · simp [termDoc, sortDoc]
      · simp [termToks]
    | .ifz c a t e _, h => by
      simp only [PrintOk] at h
      obtain ⟨ha, ht, he, hza⟩ := h
      have tail := thenElseE cfg t e (termE cfg t ht) (termE cfg e he)
      have ez := (zcmpE c).seqT ((Emits.gap (p := .space) rfl).seqT tail)
      have ea := (termE cfg a ha).seq ((Emits.gap (p := .space) rfl).seqT ez) (by
        intro s2 k hr _
        obtain ⟨s', rfl, _⟩ := renders_space_append hr
        exact okAfter_lastTok_space hza _)
      refine (((kwSpaceE .if_).seqT ea).any _).cast ?_ ?_
      · simp [termDoc, sortDoc, ZERO]
      · simp [termToks]
    | .print nl a n _, h => by
      simp only [PrintOk] at h
      have pa := parenBlockE (termE cfg a h.1) (termP_of_safe a)
      have e := (kwE (if nl then .printlnI64 else .printI64)).seq
        (pa.seqT (semiE.seqT ((Emits.gap (p := .hardline) rfl).seqT (termE cfg n h.2))))
        (fun s k hr _ => by
          simp only [List.append_assoc] at hr
          exact noId_text (by decide) s k hr)
      refine e.cast ?_ ?_
      · simp [termDoc, parenBlock, SEMI]
      · simp [termToks]
    | .letIn x ty b i _, h => by
      simp only [PrintOk] at h
      obtain ⟨hx, hty, hb, hi⟩ := h
      have eb := (termE cfg b hb).seq (semiE.seqT ((Emits.gap (p := .hardline) rfl).seqT (termE cfg i hi)))
        (fun s k hr _ => termP_of_safe b _ (SafeStart.text1 (c := ';') (by decide) _ s k hr))
      have eas := (textSpaceE TokText.assign (fun _ => by simp [okAfter, notHead])).seqT eb
      have ety := (tyE cfg ty hty).seq ((Emits.gap (p := .space) rfl).seqT eas)
        (fun s k hr _ => noId_space s k hr)
      have ecol := (Emits.text TokText.colon).seq ((Emits.gap (p := .space) rfl).seqT ety)
        (fun s k hr _ => okAfter_colon_ty cfg ty hty s k hr)
      have ex := (lowerE hx).seq ecol (fun s k hr _ => by
        simp only [List.append_assoc] at hr
        exact noId_text (by decide) s k hr)
      refine ((kwSpaceE .let_).seqT ex).cast ?_ ?_
      · simp [termDoc, COLON, EQ, SEMI]
      · simp [termToks]
    | .call f as _, h => by
      simp only [PrintOk] at h
      have ea := callArgsE cfg as (argsE cfg as h.2)
      have e := (lowerE h.1).seq ea (fun s k hr _ => by
        simp only [pieces_parens, List.append_assoc] at hr
        exact noId_text (by decide) s k hr)
      refine (e.any _).cast ?_ ?_
      · simp [termDoc]
      · simp [termToks]
    | .ctor k as ty, h => by
      simp only [PrintOk] at h
      have ea := optArgsE cfg as (argsE cfg as h.2)
      match as, ea with
      | .nil, _ =>
        refine (upperE h.1).cast ?_ ?_
        · simp [termDoc]
        · simp [termToks]
      | .cons a r, ea =>
        have e := (upperE h.1).seq ea (fun s k hr _ => by
          simp only [optArgsDoc, pieces_group, pieces_parens, List.append_assoc] at hr
          exact noId_text (by decide) s k hr)
        refine (e.any _).cast ?_ ?_
        · simp [termDoc, optArgsDoc]
        · simp [termToks, optArgsToks]
    | .dtor s d tas as ty, h => by
      simp only [PrintOk] at h
      obtain ⟨hs, hd, htas, has⟩ := h
      have tl := dtorTailE cfg s d tas as ty hd htas (argsE cfg as has)
      have e := (termE cfg s hs).seq ((dotE' (dtorShort cfg s)).seqT tl)
        (fun s2 k hr _ => termP_of_safe s _ (dot_safeStart _ _ s2 k hr))
      refine e.cast ?_ ?_
      · cases hsh : dtorShort cfg s <;> cases as <;> simp [termDoc, hsh, optArgsDoc, DOT]
      · cases as <;> simp [termToks, optArgsToks]
    | .case s tas cs _, h => by
      simp only [PrintOk] at h
      obtain ⟨hs, htas, hcs⟩ := h
      have bl := clausesBlockE cfg cs (clausesE cfg cs hcs)
      have ek := (kwE .case_).seq ((tyArgsE cfg tas htas).seqT ((Emits.gap (p := .space) rfl).seqT bl))
        (fun s2 k hr _ => by
          cases tas with
          | nil =>
            simp only [tyArgsDoc, pieces_nil, List.nil_append] at hr
            exact noId_space s2 k hr
          | cons t r =>
            simp only [tyArgsDoc, pieces_group, pieces_brackets, List.append_assoc] at hr
            exact noId_text (by decide) s2 k hr)
      have e := (termE cfg s hs).seq ((dotE' (!isDtor s)).seqT ek)
        (fun s2 k hr _ => termP_of_safe s _ (dot_safeStart _ _ s2 k hr))
      refine (e.any _).cast ?_ ?_
      · cases hsh : isDtor s <;> simp [termDoc, hsh, DOT]
      · simp [termToks]
    | .new cs _, h => by
      simp only [PrintOk] at h
      have bl := clausesBlockE cfg cs (clausesE cfg cs h)
      refine (((kwSpaceE .new_).seqT bl).any _).cast ?_ ?_
      · simp [termDoc]
      · simp [termToks]
    | .label a t _, h => by
      simp only [PrintOk] at h
      have bt := bracedE (termE cfg t h.2) (termP_of_safe t)
      have ea := (lowerE h.1).seq ((Emits.gap (p := .space) rfl).seqT bt) (fun s k hr _ => noId_space s k hr)
      refine (((kwSpaceE .label).seqT ea).any _).cast ?_ ?_
      · simp [termDoc, bracedBlock]
      · simp [termToks]
    | .goto a t _, h => by
      simp only [PrintOk] at h
      have bt := parenBlockE (termE cfg t h.2) (termP_of_safe t)
      have ea := (lowerE h.1).seq ((Emits.gap (p := .space) rfl).seqT bt) (fun s k hr _ => noId_space s k hr)
      refine (((kwSpaceE .goto).seqT ea).any _).cast ?_ ?_
      · simp [termDoc, parenBlock]
      · simp [termToks]
    | .exit t _, h => by
      simp only [PrintOk] at h
      have e := (kwSpaceE .exit).seqT (termE cfg t h)
      refine e.cast ?_ ?_
      · simp [termDoc]
      · simp [termToks]
    | .paren t, h => by
      simp only [PrintOk] at h
      have e := (parenBlockE (termE cfg t h) (termP_of_safe t)).any (TermP (.paren t))
      refine e.cast ?_ ?_
      · simp [termDoc, parenBlock]
      · simp [termToks]
  theorem argsE (cfg : PrintCfg) : (as : Terms) → PrintOks as →
      Emits (pieces (commaSep (termsDocs cfg as))) (termsToks as) Safe
    | .nil, _ => by
      simpa [termsDocs, termsToks, pieces_commaSep_nil] using Emits.nil.any Safe
    | .cons t .nil, h => by
      simp only [PrintOks] at h
      have := (termE cfg t h.1).weaken (fun k (hk : Safe k) => termP_of_safe t k hk)
      simpa [termsDocs, termsToks, pieces_commaSep_one] using this
    | .cons t (.cons t' r), h => by
      simp only [PrintOks] at h
      have h1 := (termE cfg t h.1).weaken (fun k (hk : Safe k) => termP_of_safe t k hk)
      have h2 := argsE cfg (.cons t' r) ⟨h.2.1, h.2.2⟩
      have e := h1.seq (commaE.seqT ((Emits.gap (p := .line) rfl).seqT h2))
        (fun s k hr _ => SafeStart.comma _ s k hr)
      refine e.cast ?_ ?_
      · simp [termsDocs, pieces_commaSep_cons2]
      · simp [termsToks]
  theorem clausesE (cfg : PrintCfg) : (cs : Clauses) → PrintOkCs cs →
      Emits (pieces (Doc.intersperse (COMMA ++ .hardline) (clausesDocs cfg cs))) (clausesToks cs) Safe
    | .nil, _ => by
      simpa [clausesDocs, clausesToks, Doc.intersperse] using Emits.nil.any Safe
    | .cons p x ns c b .nil, h => by
      simp only [PrintOkCs] at h
      have := (clauseE cfg p x ns b h.1 h.2.1 (termE cfg b h.2.2.1)).weaken
        (fun k (hk : Safe k) => termP_of_safe b k hk)
      refine this.cast ?_ ?_
      · simp [clausesDocs, Doc.intersperse]
      · simp [clausesToks]
    | .cons p x ns c b (.cons p2 x2 ns2 c2 b2 r), h => by
      simp only [PrintOkCs] at h
      have h1 := (clauseE cfg p x ns b h.1 h.2.1 (termE cfg b h.2.2.1)).weaken
        (fun k (hk : Safe k) => termP_of_safe b k hk)
      have h2 := clausesE cfg (.cons p2 x2 ns2 c2 b2 r) h.2.2.2
      have e := h1.seq (commaE.seqT ((Emits.gap (p := .hardline) rfl).seqT h2))
        (fun s k hr _ => SafeStart.comma _ s k hr)
      refine e.cast ?_ ?_
      · simp [clausesDocs, Doc.intersperse, COMMA]
      · simp [clausesToks]
end


/-! ## declarations -/

def WfBinding (b : Binding) : Prop := lowerName b.var.toList = true ∧ WfTy b.ty

theorem bindingE (cfg : PrintCfg) (b : Binding) (h : WfBinding b) :
    Emits (pieces (bindingDoc cfg b)) (bindingToks b) NoId := by
  obtain ⟨x, chi, ty⟩ := b
  obtain ⟨hx, hty⟩ := h
  cases chi with
  | prd =>
    have ecol := (Emits.text TokText.colon).seq ((Emits.gap (p := .space) rfl).seqT (tyE cfg ty hty))
      (fun s k hr _ => by
        have := okAfter_colon_ty cfg ty hty (q := []) s k (by simpa using hr)
        exact this)
    have e := (lowerE hx).seq ecol (fun s k hr _ => by
      try simp only [List.append_assoc] at hr
      exact noId_text (by decide) s k hr)
    refine e.cast ?_ ?_
    · simp [bindingDoc, COLON]
    · simp [bindingToks]
  | cns =>
    have e := (lowerE hx).seq (colonCnsE.seqT ((Emits.gap (p := .space) rfl).seqT (tyE cfg ty hty)))
      (fun s k hr _ => by
        try simp only [List.append_assoc] at hr
        exact noId_text (by decide) s k hr)
    refine e.cast ?_ ?_
    · simp [bindingDoc, COLON, CNS]
    · simp [bindingToks]

/-- a non-empty context without the enclosing parentheses -/
theorem ctxListE (cfg : PrintCfg) (c : Ctx) (h : ∀ b ∈ c, WfBinding b) :
    Emits (pieces (commaSep (c.map (bindingDoc cfg)))) (ctxToks c) Safe :=
  commaSepListE (bindingDoc cfg) bindingToks c
    (fun b hb => (bindingE cfg b (h b hb)).weaken (fun _ hk => safe_noId hk))

def WfCtorSig (c : CtorSig) : Prop := upperName c.name.toList = true ∧ ∀ b ∈ c.args, WfBinding b
def WfDtorSig (d : DtorSig) : Prop :=
  lowerName d.name.toList = true ∧ (∀ b ∈ d.args, WfBinding b) ∧ WfTy d.contTy

theorem ctorSigE (cfg : PrintCfg) (c : CtorSig) (h : WfCtorSig c) :
    Emits (pieces (ctorSigDoc cfg c)) (ctorSigToks c) Safe := by
  obtain ⟨name, args⟩ := c
  obtain ⟨hn, hargs⟩ := h
  cases args with
  | nil =>
    refine ((upperE hn).weaken (fun _ hk => safe_noId hk)).cast ?_ ?_
    · simp [ctorSigDoc, ctxDoc]
    · simp [ctorSigToks]
  | cons b r =>
    have ea := parenBlockE (ctxListE cfg (b :: r) hargs) (fun _ hk => hk)
    have e := (upperE hn).seq (ea.any Safe) (fun s k hr _ => by
      try simp only [List.append_assoc] at hr
      exact noId_text (by decide) s k hr)
    refine e.cast ?_ ?_
    · simp [ctorSigDoc, ctxDoc]
    · simp [ctorSigToks]

theorem dtorSigE (cfg : PrintCfg) (d : DtorSig) (h : WfDtorSig d) :
    Emits (pieces (dtorSigDoc cfg d)) (dtorSigToks d) Safe := by
  obtain ⟨name, args, ty⟩ := d
  obtain ⟨hn, hargs, hty⟩ := h
  have ecol := (Emits.text TokText.colon).seq ((Emits.gap (p := .space) rfl).seqT
      ((tyE cfg ty hty).weaken (fun _ (hk : Safe _) => safe_noId hk)))
    (fun s k hr _ => by
      have := okAfter_colon_ty cfg ty hty (q := []) s k (by simpa using hr)
      exact this)
  cases args with
  | nil =>
    have e := (lowerE hn).seq ecol (fun s k hr _ => by
      try simp only [List.append_assoc] at hr
      exact noId_text (by decide) s k hr)
    refine e.cast ?_ ?_
    · simp [dtorSigDoc, ctxDoc, COLON]
    · simp [dtorSigToks]
  | cons b r =>
    have ea := parenBlockE (ctxListE cfg (b :: r) hargs) (fun _ hk => hk)
    have e := (lowerE hn).seq (ea.seqT ecol) (fun s k hr _ => by
      try simp only [List.append_assoc] at hr
      exact noId_text (by decide) s k hr)
    refine e.cast ?_ ?_
    · simp [dtorSigDoc, ctxDoc, COLON]
    · simp [dtorSigToks]

theorem pieces_intersperse_commaLine (ds : List Doc) :
    pieces (Doc.intersperse (COMMA ++ .line) ds) = pieces (commaSep ds) := by
  match ds with
  | [] => simp [Doc.intersperse, commaSep]
  | [d] => simp [Doc.intersperse, commaSep]
  | d :: d' :: r =>
    have ih := pieces_intersperse_commaLine (d' :: r)
    simp only [pieces_commaSep_cons2, Doc.intersperse, pieces_cat]
    rw [ih]
    simp [COMMA]

/-- the braces of `data`/`codata` declarations -/
theorem sigBlockE {α : Type} (cfg : PrintCfg) (d : α → Doc) (tk : α → List Token) (xs : List α)
    (h : ∀ x ∈ xs, Emits (pieces (d x)) (tk x) Safe) :
    Emits (pieces (sigBlock cfg (xs.map d))) ([.lbrace] ++ (joinToks [.comma] (xs.map tk) ++ [.rbrace]))
      (fun _ => True) := by
  cases xs with
  | nil =>
    refine (lbraceE.seqT ((Emits.gap (p := .space) rfl).seqT rbraceE)).cast ?_ ?_
    · simp [sigBlock]
    · simp [joinToks]
  | cons x r =>
    refine (bracedE (commaSepListE d tk (x :: r) h) (fun _ hk => hk)).cast ?_ ?_
    · simp [sigBlock, pieces_intersperse_commaLine]
    · simp

/-- `OptTypeContext` -/
theorem tyParamsE (cfg : PrintCfg) (ns : List String) (h : ∀ n ∈ ns, upperName n.toList = true) :
    Emits (pieces (tyParamsDoc cfg ns)) (tyParamsToks ns) (fun _ => True) := by
  cases ns with
  | nil => simpa [tyParamsDoc, tyParamsToks] using Emits.nil
  | cons n r =>
    have hl := commaSepListE (fun n : String => Doc.text n.toList) (fun n => [Token.upper n.toList]) (n :: r)
      (fun x hx => (upperE (h x hx)).weaken (fun k hk => safe_noId hk))
    refine (bracketBlockE hl (fun _ hk => hk)).cast ?_ ?_
    · simp [tyParamsDoc]
    · simp [tyParamsToks]

theorem tyParams_noId (cfg : PrintCfg) (ns : List String) (q : List Piece) :
    ∀ s k, Renders (pieces (tyParamsDoc cfg ns) ++ ([.space] ++ q)) s → NoId (s ++ k) := by
  intro s k hr
  cases ns with
  | nil =>
    simp only [tyParamsDoc, pieces_nil, List.nil_append] at hr
    exact noId_space s k hr
  | cons n r =>
    simp only [tyParamsDoc, pieces_group, pieces_brackets, List.append_assoc] at hr
    exact noId_text (by decide) s k hr

def WfDecl : Decl → Prop
  | .data d => upperName d.name.toList = true ∧ (∀ n ∈ d.typeParams, upperName n.toList = true) ∧
      ∀ c ∈ d.ctors, WfCtorSig c
  | .codata d => upperName d.name.toList = true ∧ (∀ n ∈ d.typeParams, upperName n.toList = true) ∧
      ∀ c ∈ d.dtors, WfDtorSig c
  | .defn d => lowerName d.name.toList = true ∧ (∀ b ∈ d.ctx, WfBinding b) ∧ WfTy d.retTy ∧ PrintOk d.body

theorem declE (cfg : PrintCfg) (d : Decl) (h : WfDecl d) :
    Emits (pieces (declDoc cfg d)) (declToks d) (fun _ => True) := by
  cases d with
  | data d =>
    obtain ⟨hn, hps, hcs⟩ := h
    have bl := sigBlockE cfg (ctorSigDoc cfg) ctorSigToks d.ctors (fun c hc => ctorSigE cfg c (hcs c hc))
    have en := (upperE hn).seq ((tyParamsE cfg d.typeParams hps).seqT ((Emits.gap (p := .space) rfl).seqT bl))
      (fun s k hr _ => tyParams_noId cfg _ _ s k hr)
    refine (((kwSpaceE .data).seqT en).any _).cast ?_ ?_
    · simp [declDoc, dataDoc]
    · simp [declToks]
  | codata d =>
    obtain ⟨hn, hps, hcs⟩ := h
    have bl := sigBlockE cfg (dtorSigDoc cfg) dtorSigToks d.dtors (fun c hc => dtorSigE cfg c (hcs c hc))
    have en := (upperE hn).seq ((tyParamsE cfg d.typeParams hps).seqT ((Emits.gap (p := .space) rfl).seqT bl))
      (fun s k hr _ => tyParams_noId cfg _ _ s k hr)
    refine (((kwSpaceE .codata).seqT en).any _).cast ?_ ?_
    · simp [declDoc, codataDoc]
    · simp [declToks]
  | defn d =>
    obtain ⟨hn, hctx, hty, hb⟩ := h
    have body := bracedHardE (termE cfg d.body hb) (termP_of_safe d.body)
    have ety := (tyE cfg d.retTy hty).seq ((Emits.gap (p := .space) rfl).seqT body)
      (fun s k hr _ => noId_space s k hr)
    have ecol := (Emits.text TokText.colon).seq ((Emits.gap (p := .space) rfl).seqT ety)
      (fun s k hr _ => okAfter_colon_ty cfg d.retTy hty s k hr)
    have ectx : Emits (pieces (Doc.parens (ctxDoc cfg d.ctx))) ([.lparen] ++ (ctxToks d.ctx ++ [.rparen]))
        (fun _ => True) := by
      cases hc : d.ctx with
      | nil =>
        refine (lparenE.seqT rparenE).cast ?_ ?_
        · simp [ctxDoc]
        · simp [ctxToks, joinToks]
      | cons b r =>
        refine (parenBlockE (ctxListE cfg (b :: r) (hc ▸ hctx)) (fun _ hk => hk)).cast ?_ ?_
        · simp [ctxDoc]
        · simp
    have en := (lowerE hn).seq (ectx.seqT ecol) (fun s k hr _ => by
      simp only [pieces_parens, List.append_assoc] at hr
      exact noId_text (by decide) s k hr)
    refine ((kwSpaceE .def_).seqT en).cast ?_ ?_
    · simp [declDoc, defDoc, COLON]
    · simp [declToks]

/-- every declaration is well formed for printing -/
def ProgOk (p : Program) : Prop := ∀ d ∈ p.decls, WfDecl d

theorem declsE (cfg : PrintCfg) : (ds : List Decl) → (∀ d ∈ ds, WfDecl d) →
    Emits (pieces (Doc.intersperse (.line ++ .line) (ds.map (declDoc cfg)))) ((ds.map declToks).flatten)
      (fun _ => True)
  | [], _ => by simpa [Doc.intersperse] using Emits.nil
  | [d], h => by simpa [Doc.intersperse] using declE cfg d (h d (by simp))
  | d :: d' :: r, h => by
    have h1 := declE cfg d (h d (by simp))
    have h2 := declsE cfg (d' :: r) (fun z hz => h z (by simp [List.mem_cons] at hz ⊢; right; exact hz))
    have e := h1.seqT ((Emits.gap (p := .line) rfl).seqT ((Emits.gap (p := .line) rfl).seqT h2))
    refine e.cast ?_ ?_
    · simp [Doc.intersperse]
    · simp

/-- C16-T1 on the level of `Spells`: every rendering of the piece stream of a well-formed program is
spelled by its token sequence. -/
theorem print_spells (cfg : PrintCfg) (p : Program) (h : ProgOk p) (s : List Char)
    (hr : Renders (print cfg p) s) : Spells (tokens p) s := by
  have e := declsE cfg p.decls h
  have := e s [] [] hr (Spells.nil Gap.nil) trivial
  simpa [tokens] using this

/-- C16-T1 `layout_independent` for programs. -/
theorem lex_print (cfg : PrintCfg) (p : Program) (h : ProgOk p) (s : List Char)
    (hr : Renders (print cfg p) s) : lexChars s = .ok (tokens p) :=
  lexChars_spells (print_spells cfg p h s hr)

/-- the same for a single term -/
theorem lex_printTerm (cfg : PrintCfg) (t : Term) (h : PrintOk t) (s : List Char)
    (hr : Renders (printTerm cfg t) s) : lexChars s = .ok (termToks t) := by
  have := termE cfg t h s [] [] hr (Spells.nil Gap.nil) (by
    show okAfter (lastTok t) [] = true
    exact okAfter_of_safeNext (lastTok_end t) rfl)
  exact lexChars_spells (by simpa using this)


/-- the rendering function is one of the renderings of the relation -/
theorem renders_renderFrom (choice : Nat → Option Nat) : ∀ (ps : List Piece) (i : Nat),
    Renders ps (renderFrom choice i ps)
  | [], _ => .nil
  | .text s :: r, i => .text s (renders_renderFrom choice r (i + 1))
  | .space :: r, i => .space (renders_renderFrom choice r (i + 1))
  | .line :: r, i => by
    simp only [renderFrom]
    cases choice i with
    | none => exact .lineFlat (renders_renderFrom choice r (i + 1))
    | some k => exact .lineBreak k (renders_renderFrom choice r (i + 1))
  | .line_ :: r, i => by
    simp only [renderFrom]
    cases choice i with
    | none => exact .lineFlat_ (renders_renderFrom choice r (i + 1))
    | some k => exact .lineBreak_ k (renders_renderFrom choice r (i + 1))
  | .hardline :: r, i => .hardline _ (renders_renderFrom choice r (i + 1))

theorem renders_renderWith (choice : Nat → Option Nat) (ps : List Piece) :
    Renders ps (renderWith choice ps) := renders_renderFrom choice ps 0

/-! ## the `pretty` layout is one of the layout choices -/

/-- the pieces of a command stack of `best` -/
def stackPieces : List (Nat × Mode × Doc) → List Piece
  | [] => []
  | (_, _, d) :: cs => pieces d ++ stackPieces cs

def stackSize : List (Nat × Mode × Doc) → Nat
  | [] => 0
  | (_, _, d) :: cs => 2 * d.size + stackSize cs

theorem doc_size_pos (d : Doc) : 0 < d.size := by
  cases d <;> simp [Doc.size] <;> omega

/-- `best` appends (in reverse) a rendering of the pieces of its command stack -/
theorem best_renders (width : Nat) : ∀ (fuel : Nat) (cmds : List (Nat × Mode × Doc)) (pos : Nat)
    (acc : List Char), stackSize cmds < fuel →
    ∃ s, Renders (stackPieces cmds) s ∧ best width fuel cmds pos acc = s.reverse ++ acc := by
  intro fuel
  induction fuel with
  | zero => intro cmds pos acc h; omega
  | succ n ih =>
    intro cmds pos acc h
    match cmds with
    | [] => exact ⟨[], .nil, by simp [best]⟩
    | (ind, mode, d) :: cs =>
      have hp := doc_size_pos d
      cases d with
      | nil =>
        obtain ⟨s, hs, he⟩ := ih cs pos acc (by simp [stackSize, Doc.size] at h ⊢; omega)
        exact ⟨s, by simpa [stackPieces] using hs, by simp [best, he]⟩
      | text t =>
        obtain ⟨s, hs, he⟩ := ih cs (pos + t.length) (t.reverse ++ acc) (by simp [stackSize, Doc.size] at h ⊢; omega)
        exact ⟨t ++ s, by simpa [stackPieces] using Renders.text t hs, by simp [best, he]⟩
      | space =>
        obtain ⟨s, hs, he⟩ := ih cs (pos + 1) (' ' :: acc) (by simp [stackSize, Doc.size] at h ⊢; omega)
        exact ⟨' ' :: s, by simpa [stackPieces] using Renders.space hs, by simp [best, he]⟩
      | hardline =>
        obtain ⟨s, hs, he⟩ := ih cs ind ((newline ind).reverse ++ acc) (by simp [stackSize, Doc.size] at h ⊢; omega)
        exact ⟨newline ind ++ s, by simpa [stackPieces] using Renders.hardline ind hs, by simp [best, he]⟩
      | line =>
        cases mode with
        | brk =>
          obtain ⟨s, hs, he⟩ := ih cs ind ((newline ind).reverse ++ acc) (by simp [stackSize, Doc.size] at h ⊢; omega)
          exact ⟨newline ind ++ s, by simpa [stackPieces] using Renders.lineBreak ind hs, by simp [best, he]⟩
        | flat =>
          obtain ⟨s, hs, he⟩ := ih cs (pos + 1) (' ' :: acc) (by simp [stackSize, Doc.size] at h ⊢; omega)
          exact ⟨' ' :: s, by simpa [stackPieces] using Renders.lineFlat hs, by simp [best, he]⟩
      | line_ =>
        cases mode with
        | brk =>
          obtain ⟨s, hs, he⟩ := ih cs ind ((newline ind).reverse ++ acc) (by simp [stackSize, Doc.size] at h ⊢; omega)
          exact ⟨newline ind ++ s, by simpa [stackPieces] using Renders.lineBreak_ ind hs, by simp [best, he]⟩
        | flat =>
          obtain ⟨s, hs, he⟩ := ih cs pos acc (by simp [stackSize, Doc.size] at h ⊢; omega)
          exact ⟨s, by simpa [stackPieces] using Renders.lineFlat_ hs, by simp [best, he]⟩
      | cat a b =>
        obtain ⟨s, hs, he⟩ := ih ((ind, mode, a) :: (ind, mode, b) :: cs) pos acc
          (by simp [stackSize, Doc.size] at h ⊢; omega)
        exact ⟨s, by simpa [stackPieces, pieces] using hs, by simp [best, he]⟩
      | group d =>
        have key : ∀ m', ∃ s, Renders (stackPieces ((ind, mode, Doc.group d) :: cs)) s ∧
            best width n ((ind, m', d) :: cs) pos acc = s.reverse ++ acc := by
          intro m'
          obtain ⟨s, hs, he⟩ := ih ((ind, m', d) :: cs) pos acc (by simp [stackSize, Doc.size] at h ⊢; omega)
          exact ⟨s, by simpa [stackPieces, pieces] using hs, he⟩
        cases mode with
        | flat => obtain ⟨s, hs, he⟩ := key .flat; exact ⟨s, hs, by simp [best, he]⟩
        | brk =>
          obtain ⟨s, hs, he⟩ := key
            (if fitting width (n + 1) [d] (cs.map fun c => c.2.2) .flat pos then .flat else .brk)
          exact ⟨s, hs, by simp only [best]; exact he⟩
      | nest off d =>
        obtain ⟨s, hs, he⟩ := ih ((nestInd ind off, mode, d) :: cs) pos acc
          (by simp [stackSize, Doc.size] at h ⊢; omega)
        exact ⟨s, by simpa [stackPieces, pieces] using hs, by simp [best, he]⟩
      | align d =>
        obtain ⟨s, hs, he⟩ := ih ((pos, mode, d) :: cs) pos acc
          (by simp [stackSize, Doc.size] at h ⊢; omega)
        exact ⟨s, by simpa [stackPieces, pieces] using hs, by simp [best, he]⟩

/-- the layout computed by the `pretty` algorithm is a rendering of the piece stream -/
theorem renderDoc_renders (width : Nat) (d : Doc) : Renders (pieces d) (renderDoc width d) := by
  obtain ⟨s, hs, he⟩ := best_renders width (2 * d.size + 2) [(0, .brk, d)] 0 [] (by simp [stackSize])
  unfold renderDoc
  rw [he]
  simpa [stackPieces] using hs

theorem renderPretty_renders (cfg : PrintCfg) (p : Program) :
    Renders (print cfg p) (renderPretty cfg p) := renderDoc_renders _ _


end Scc.Fun.Print
