/-
  Scc.Fun.Sem — the reference semantics of the surface language Fun as an executable abstract
  machine (SPEC layer for properties C01 / C02; core imports only).

  This file is NOT a model of any compiler pass.  It is the independent, direct meaning of a
  type-checked Fun program (`CheckedProgram`, dump S1 of the harness): "64-bit wrapping arithmetic,
  truncating division, eager evaluation of integers and data, by-name evaluation of codata,
  first-class labels, immediate termination on exit" (property C01).  The language was read from
  /repo/lang/fun/src/parser/fun.lalrpop, /repo/lang/fun/src/syntax/terms/*.rs and
  /repo/lang/fun/src/typing/check.rs; the intended evaluation order was cross-read from
  /repo/lang/fun2core/src/terms/*.rs, /repo/lang/core_lang/src/traits/focus.rs and
  /repo/lang/core2axcut/src/statements/cut.rs (see "Relation to the translation" below).

  The machine (CEK): a state is a control term with its environment and a continuation stack
  (`State.eval`), a value returned to a stack (`State.ret`), or an argument list under evaluation
  (`State.args`).  `step` is a total, non-recursive function, so the semantics is deterministic by
  construction.

  Values
  * `int n`            a 64-bit integer,
  * `con K vs`         a constructor applied to values (data),
  * `obj clauses ρ`    the closure of `new { d(x..) => t, .. }` (codata value),
  * `thunk t ρ`        a suspended codata-typed term (codata, by name): it is re-run, in ρ, at
                       EVERY destructor invocation on it, with the destructor as its continuation,
  * `cont K`           a first-class continuation = a captured stack (labels, `:cns` parameters).

  Scoping is lexical: environments are association lists searched from the most recent binding;
  variables, covariables and labels share ONE namespace (as in the type checker:
  context.rs `lookup_var`/`lookup_covar` search a single list from the right).  A definition body
  runs in an environment holding only its parameters.

  Evaluation
  * integers and data are evaluated eagerly, left to right: operands of operators and
    comparisons, arguments of calls / constructors / destructors, the bound term of a `let`;
  * `+ - *` wrap modulo 2^64; `/` `%` are truncating signed division/remainder and are STUCK
    (`divByZero`) on a zero divisor and (`overflow`) on MIN / -1 and MIN % -1; comparisons are signed;
  * codata is by name: a codata-typed term in BINDING or ARGUMENT position (the bound term of a
    `let x : T = t` with T a codata type; a codata-typed argument of a call, constructor or
    destructor) is not evaluated.  If (after stripping parentheses) it is a variable, the variable's
    value is passed on; if it is a `new`, its closure is built; every other term (call,
    destructor, if, case, let, print, label, goto, exit) is suspended as `thunk t ρ`.  A codata
    term in EVALUATION position (body of a definition or clause, branch, scrutinee of a destructor)
    is evaluated normally.  A destructor invocation `v.d(vs)` on an `obj` runs the clause for `d`;
    on a `thunk t ρ` it runs `t` in `ρ` with the frame "apply d(vs)" still on the stack, so whatever
    codata value `t` returns receives the destructor.  A thunk is itself a legitimate codata value: it
    is passed around, stored in constructors and returned from functions without being forced;
    only a destructor forces it, and nothing is memoised (effects of `t` happen once per invocation);
  * `label a { t }` binds `a` to the current stack and evaluates `t`; `goto a (t)` evaluates `t`
    with the stack captured in `a` (the current stack is discarded); a covariable parameter
    `k :cns T` receives a `cont`; a covariable argument passes the `cont` it is bound to;
  * `print_i64(t); u` / `println_i64(t); u` evaluates `t`, appends `(newline?, value)` to the trace
    and continues with `u`;
  * `exit t` evaluates `t` on an EMPTY stack with a final `exit` frame: the program stops with
    `done v` whatever the stack was;
  * the program result is otherwise the integer returned by `main` to the empty stack.
  * Destructor `s.d(args)`: the scrutinee `s` is evaluated first (to a codata value, possibly a
    thunk), then the arguments left to right, then the destructor is invoked.

  Relation to the translation (what was checked against fun2core + focusing + shrinking).
  fun2core translates a term in argument/binding position with `compile` (a producer: variables,
  literals, operators, constructors, `new` stay; everything else becomes `μa.⟦t⟧_a`); focusing lifts
  non-variable arguments left to right into cuts `⟨p | μ~x.s⟩`; such a cut runs the producer first
  at integer and data types (eager, left to right) and the consumer first at codata types: there
  `x` is bound to the unevaluated producer, which shrinking turns into an object whose every
  method re-runs the `μ`-body with the destructor as continuation — exactly `thunk`.  A `let` at a
  codata type is translated to such a cut directly (let.rs), at other types to `⟦t₁⟧_{μ~x.⟦t₂⟧}`.
  The only place where the compiler's order of EFFECTS differs from "left to right, scrutinee first"
  is the destructor: the arguments of `s.d(args)` are lifted before a scrutinee that is a
  variable, call or destructor is run (`f(y).d(print…)`: the print precedes the call), but after
  the effects of a scrutinee that is a print / let / if / case.  Hence this semantics is CLAIMED as
  the reference only on the decidable fragment `Sequenced` of property C02 (below); outside it the
  machine is still defined (left to right, scrutinee first) but the reference is the Core machine on
  the translation.

  `Sequenced p` (C02: "call, constructor, destructor and operator arguments and codata-typed
  bindings are pure and terminating"): every argument of a call, constructor, destructor or
  operator and every codata-typed `let`-bound term is PURE = built from variables (and covariables),
  literals, `+ - *` on pure terms, constructors of pure terms, `new` (a value; its clause bodies must
  again be sequenced) and parentheses.  `/` and `%` are NOT pure (they can get stuck, and getting
  stuck is an effect whose position relative to other effects would matter); they may of course
  occur where a general term may occur (`let q : i64 = a / b; ..`) with pure operands.  On `Sequenced`
  programs no `thunk` is ever created, so by-name and by-value coincide there.
-/
import Scc.Fun.Syntax

namespace Scc.Fun

abbrev Word := BitVec 64

/-! ## values, frames, states -/

mutual
  inductive Value where
    | int (n : Word)
    | con (name : String) (args : List Value)
    | obj (clauses : Clauses) (env : List (String × Value))
    | thunk (t : Term) (env : List (String × Value))
    | cont (k : List Frame)

  /-- what the evaluated arguments are for -/
  inductive ArgHead where
    | call (f : String)
    | ctor (k : String)
    | dtor (scrutinee : Value) (d : String)

  /-- continuation frames; a frame that still has terms to evaluate carries their environment -/
  inductive Frame where
    /-- `□ o snd` -/
    | opL (o : BinOp) (snd : Term) (env : List (String × Value))
    /-- `a o □` -/
    | opR (o : BinOp) (a : Word)
    /-- `if □ ~ snd {t} else {e}` -/
    | ifL (sort : IfSort) (snd thenc elsec : Term) (env : List (String × Value))
    /-- `if a ~ □ {t} else {e}` -/
    | ifR (sort : IfSort) (a : Word) (thenc elsec : Term) (env : List (String × Value))
    /-- `if □ ~ 0 {t} else {e}` -/
    | ifZ (sort : IfSort) (thenc elsec : Term) (env : List (String × Value))
    /-- `print(□); next` -/
    | print (newline : Bool) (next : Term) (env : List (String × Value))
    /-- `let x = □; body` (integer and data types only) -/
    | letF (x : String) (body : Term) (env : List (String × Value))
    /-- `head(done.., □, todo..)` -/
    | arg (head : ArgHead) (done : List Value) (todo : Terms) (env : List (String × Value))
    /-- `□.case { clauses }` -/
    | caseF (clauses : Clauses) (env : List (String × Value))
    /-- `□.d(args)`, arguments not yet evaluated -/
    | dtorScrut (d : String) (args : Terms) (env : List (String × Value))
    /-- `□.d(vs)`, ready to be invoked -/
    | dtorApply (d : String) (vs : List Value)
    /-- `exit □` -/
    | exitF
end

abbrev Env := List (String × Value)
abbrev Stack := List Frame

instance : Inhabited Value := ⟨.int 0⟩

inductive State where
  | eval (t : Term) (env : Env) (k : Stack)
  | ret (v : Value) (k : Stack)
  | args (head : ArgHead) (done : List Value) (todo : Terms) (env : Env) (k : Stack)

/-- reasons for being stuck; only `divByZero` and `overflow` are reachable from well-typed programs
    started with the right number of arguments -/
inductive Why where
  | divByZero
  | overflow
  | unbound (x : String)
  | unknownDef (f : String)
  | arity (what : String)
  | noClause (xtor : String)
  | notInt (what : String)
  | notData
  | notCodata
  | notCont (x : String)
  | untyped

def Why.toString : Why → String
  | .divByZero => "divByZero"
  | .overflow => "overflow"
  | .unbound x => "unbound(" ++ x ++ ")"
  | .unknownDef f => "unknownDef(" ++ f ++ ")"
  | .arity w => "arity(" ++ w ++ ")"
  | .noClause x => "noClause(" ++ x ++ ")"
  | .notInt w => "notInt(" ++ w ++ ")"
  | .notData => "notData"
  | .notCodata => "notCodata"
  | .notCont x => "notCont(" ++ x ++ ")"
  | .untyped => "untyped"

inductive StepResult where
  /-- one transition, possibly emitting one print event `(newline?, value)` -/
  | next (s : State) (out : Option (Bool × Word))
  | done (v : Word)
  | stuck (why : Why)

/-! ## static helpers -/

/-- the printed name of a type = the name of its monomorphic instance (`List[i64]`,
    `Fun[i64, List[i64]]`), as in fun/src/syntax/types.rs `impl Print for Ty` -/
def tyName : Nat → Ty → String
  | 0, _ => "?"
  | _, .i64 => "i64"
  | fuel + 1, .decl n args =>
    match args.toList with
    | [] => n
    | l => n ++ "[" ++ ", ".intercalate (l.map (tyName fuel)) ++ "]"

/-- nesting depth of a type (fuel for `tyName`) -/
def tyDepth : Ty → Nat
  | .i64 => 1
  | .decl _ args => 1 + go args
where
  go : Tys → Nat
    | .nil => 0
    | .cons t r => Nat.max (tyDepth t) (go r)

def isCodataTy (p : CheckedProgram) : Ty → Bool
  | .i64 => false
  | ty => let n := tyName (tyDepth ty + 1) ty; p.codataTypes.any (fun d => d.name == n)

/-- the type annotation of a term (fun/src/syntax/terms/*.rs `impl OptTyped`) -/
def Term.getType : Term → Option Ty
  | .var _ ty _ => ty
  | .lit _ => some .i64
  | .op .. => some .i64
  | .ifc _ _ _ _ _ ty => ty
  | .ifz _ _ _ _ ty => ty
  | .print _ _ _ ty => ty
  | .letIn _ _ _ _ ty => ty
  | .call _ _ ty => ty
  | .ctor _ _ ty => ty
  | .dtor _ _ _ _ ty => ty
  | .case _ _ _ ty => ty
  | .new _ ty => ty
  | .label _ _ ty => ty
  | .goto _ _ ty => ty
  | .exit _ ty => ty
  | .paren t => t.getType

def lookup (x : String) : Env → Option Value
  | [] => none
  | (y, v) :: r => if x == y then some v else lookup x r

def findDef (p : CheckedProgram) (f : String) : Option Def :=
  p.defs.find? (fun d => d.name == f)

def findClause (x : String) : Clauses → Option Clause
  | .nil => none
  | .cons pol y ns ctx b r => if x == y then some ⟨pol, y, ns, ctx, b⟩ else findClause x r

/-- bind names to values positionally (later names shadow earlier ones and the old environment) -/
def bindAll : List String → List Value → Env → Option Env
  | [], [], env => some env
  | x :: xs, v :: vs, env => bindAll xs vs ((x, v) :: env)
  | _, _, _ => none

/-! ## arithmetic -/

def arith (o : BinOp) (a b : Word) : Except Why Word :=
  match o with
  | .sum => .ok (a + b)
  | .sub => .ok (a - b)
  | .prod => .ok (a * b)
  | .div =>
    if b == 0 then .error .divByZero
    else if a == BitVec.intMin 64 && b == -1 then .error .overflow
    else .ok (BitVec.sdiv a b)
  | .rem =>
    if b == 0 then .error .divByZero
    else if a == BitVec.intMin 64 && b == -1 then .error .overflow
    else .ok (BitVec.srem a b)

def compare (s : IfSort) (a b : Word) : Bool :=
  match s with
  | .eq => a == b
  | .ne => a != b
  | .lt => BitVec.slt a b
  | .le => BitVec.sle a b
  | .gt => BitVec.slt b a
  | .ge => BitVec.sle b a

/-! ## the machine -/

/-- a codata-typed term in binding/argument position: variables are looked up, `new` is a value,
    everything else is suspended -/
def suspend : Term → Env → Except Why Value
  | .paren t, env => suspend t env
  | .var x _ _, env =>
    match lookup x env with
    | some v => .ok v
    | none => .error (.unbound x)
  | .new cs _, env => .ok (.obj cs env)
  | t, env => .ok (.thunk t env)

/-- all arguments are values: perform the call / build the constructor / invoke the destructor -/
def applyHead (p : CheckedProgram) (h : ArgHead) (vs : List Value) (k : Stack) : StepResult :=
  match h with
  | .call f =>
    match findDef p f with
    | none => .stuck (.unknownDef f)
    | some d =>
      match bindAll (d.ctx.map (·.var)) vs [] with
      | none => .stuck (.arity f)
      | some env => .next (.eval d.body env k) none
  | .ctor c => .next (.ret (.con c vs) k) none
  | .dtor v d => .next (.ret v (.dtorApply d vs :: k)) none

/-- return the value `v` to the frame `f` (the rest of the stack is `k`) -/
def retFrame (v : Value) (f : Frame) (k : Stack) : StepResult :=
  match f, v with
  | .opL o snd env, .int a => .next (.eval snd env (.opR o a :: k)) none
  | .opL .., _ => .stuck (.notInt "operand")
  | .opR o a, .int b =>
    match arith o a b with
    | .ok r => .next (.ret (.int r) k) none
    | .error w => .stuck w
  | .opR .., _ => .stuck (.notInt "operand")
  | .ifL s snd t e env, .int a => .next (.eval snd env (.ifR s a t e env :: k)) none
  | .ifL .., _ => .stuck (.notInt "if")
  | .ifR s a t e env, .int b => .next (.eval (if compare s a b then t else e) env k) none
  | .ifR .., _ => .stuck (.notInt "if")
  | .ifZ s t e env, .int a => .next (.eval (if compare s a 0 then t else e) env k) none
  | .ifZ .., _ => .stuck (.notInt "if")
  | .print nl next env, .int a => .next (.eval next env k) (some (nl, a))
  | .print .., _ => .stuck (.notInt "print")
  | .letF x body env, v => .next (.eval body ((x, v) :: env) k) none
  | .arg h done todo env, v => .next (.args h (done ++ [v]) todo env k) none
  | .caseF cs env, .con c vs =>
    match findClause c cs with
    | none => .stuck (.noClause c)
    | some cl =>
      match bindAll cl.names vs env with
      | none => .stuck (.arity c)
      | some env' => .next (.eval cl.body env' k) none
  | .caseF .., _ => .stuck .notData
  | .dtorScrut d as env, v => .next (.args (.dtor v d) [] as env k) none
  | .dtorApply d vs, .obj cs env =>
    match findClause d cs with
    | none => .stuck (.noClause d)
    | some cl =>
      match bindAll cl.names vs env with
      | none => .stuck (.arity d)
      | some env' => .next (.eval cl.body env' k) none
  -- by name: re-run the suspended term; its value will meet the same destructor frame
  | .dtorApply d vs, .thunk t env => .next (.eval t env (.dtorApply d vs :: k)) none
  | .dtorApply .., _ => .stuck .notCodata
  | .exitF, .int a => .done a
  | .exitF, _ => .stuck (.notInt "exit")

def evalStep (p : CheckedProgram) (t : Term) (env : Env) (k : Stack) : StepResult :=
  match t with
  | .var x _ _ =>
    match lookup x env with
    | some v => .next (.ret v k) none
    | none => .stuck (.unbound x)
  | .lit n => .next (.ret (.int (BitVec.ofInt 64 n)) k) none
  | .op a o b => .next (.eval a env (.opL o b env :: k)) none
  | .ifc s a b t e _ => .next (.eval a env (.ifL s b t e env :: k)) none
  | .ifz s a t e _ => .next (.eval a env (.ifZ s t e env :: k)) none
  | .print nl a next _ => .next (.eval a env (.print nl next env :: k)) none
  | .letIn x ty bound body _ =>
    if isCodataTy p ty then
      match suspend bound env with
      | .ok v => .next (.eval body ((x, v) :: env) k) none
      | .error w => .stuck w
    else .next (.eval bound env (.letF x body env :: k)) none
  | .call f as _ => .next (.args (.call f) [] as env k) none
  | .ctor c as _ => .next (.args (.ctor c) [] as env k) none
  | .dtor s d _ as _ => .next (.eval s env (.dtorScrut d as env :: k)) none
  | .case s _ cs _ => .next (.eval s env (.caseF cs env :: k)) none
  | .new cs _ => .next (.ret (.obj cs env) k) none
  | .label a body _ => .next (.eval body ((a, .cont k) :: env) k) none
  | .goto a u _ =>
    match lookup a env with
    | some (.cont k') => .next (.eval u env k') none
    | some _ => .stuck (.notCont a)
    | none => .stuck (.unbound a)
  | .exit u _ => .next (.eval u env [.exitF]) none
  | .paren u => .next (.eval u env k) none

/-- next argument: covariables and codata-typed arguments are not evaluated -/
def argsStep (p : CheckedProgram) (h : ArgHead) (done : List Value) (todo : Terms) (env : Env)
    (k : Stack) : StepResult :=
  match todo with
  | .nil => applyHead p h done k
  | .cons (.var x _ (some .cns)) rest =>
    match lookup x env with
    | some (.cont c) => .next (.args h (done ++ [.cont c]) rest env k) none
    | some _ => .stuck (.notCont x)
    | none => .stuck (.unbound x)
  | .cons t rest =>
    match t.getType with
    | none => .stuck .untyped
    | some ty =>
      if isCodataTy p ty then
        match suspend t env with
        | .ok v => .next (.args h (done ++ [v]) rest env k) none
        | .error w => .stuck w
      else .next (.eval t env (.arg h done rest env :: k)) none

def step (p : CheckedProgram) : State → StepResult
  | .eval t env k => evalStep p t env k
  | .args h done todo env k => argsStep p h done todo env k
  | .ret v [] =>
    match v with
    | .int a => .done a
    | _ => .stuck (.notInt "main")
  | .ret v (f :: k) => retFrame v f k

/-! ## running -/

inductive Result where
  | done (v : Word)
  | stuck (why : Why)
  | outOfFuel

structure Behaviour where
  /-- the print trace `(newline?, value)`, in order -/
  out : List (Bool × Word)
  res : Result

def runFrom (p : CheckedProgram) : Nat → State → List (Bool × Word) → Behaviour
  | 0, _, acc => ⟨acc.reverse, .outOfFuel⟩
  | fuel + 1, s, acc =>
    match step p s with
    | .next s' none => runFrom p fuel s' acc
    | .next s' (some o) => runFrom p fuel s' (o :: acc)
    | .done v => ⟨acc.reverse, .done v⟩
    | .stuck w => ⟨acc.reverse, .stuck w⟩

def initState (p : CheckedProgram) (args : List Word) : Except Why State :=
  match findDef p "main" with
  | none => .error (.unknownDef "main")
  | some d =>
    match bindAll (d.ctx.map (·.var)) (args.map .int) [] with
    | none => .error (.arity "main")
    | some env => .ok (.eval d.body env [])

/-- the behaviour of `p` on `args` within `fuel` machine steps -/
def run (p : CheckedProgram) (args : List Word) (fuel : Nat) : Behaviour :=
  match initState p args with
  | .error w => ⟨[], .stuck w⟩
  | .ok s => runFrom p fuel s []

/-! ## the fragment `Sequenced` of property C02 -/

mutual
  /-- pure and terminating by construction: variables, literals, `+ - *`, constructors, `new`,
      parentheses -/
  def pureTerm : Term → Bool
    | .var .. => true
    | .lit _ => true
    | .op a o b => o != .div && o != .rem && pureTerm a && pureTerm b
    | .ctor _ as _ => pureTerms as
    | .new _ _ => true
    | .paren t => pureTerm t
    | _ => false
  def pureTerms : Terms → Bool
    | .nil => true
    | .cons t r => pureTerm t && pureTerms r
end

mutual
  def seqTerm (p : CheckedProgram) : Term → Bool
    | .var .. => true
    | .lit _ => true
    | .op a _ b => pureTerm a && pureTerm b && seqTerm p a && seqTerm p b
    | .ifc _ a b t e _ => seqTerm p a && seqTerm p b && seqTerm p t && seqTerm p e
    | .ifz _ a t e _ => seqTerm p a && seqTerm p t && seqTerm p e
    | .print _ a n _ => seqTerm p a && seqTerm p n
    | .letIn _ ty b i _ => (!isCodataTy p ty || pureTerm b) && seqTerm p b && seqTerm p i
    | .call _ as _ => pureTerms as && seqTerms p as
    | .ctor _ as _ => pureTerms as && seqTerms p as
    | .dtor s _ _ as _ => seqTerm p s && pureTerms as && seqTerms p as
    | .case s _ cs _ => seqTerm p s && seqClauses p cs
    | .new cs _ => seqClauses p cs
    | .label _ t _ => seqTerm p t
    | .goto _ t _ => seqTerm p t
    | .exit t _ => seqTerm p t
    | .paren t => seqTerm p t
  def seqTerms (p : CheckedProgram) : Terms → Bool
    | .nil => true
    | .cons t r => seqTerm p t && seqTerms p r
  def seqClauses (p : CheckedProgram) : Clauses → Bool
    | .nil => true
    | .cons _ _ _ _ b r => seqTerm p b && seqClauses p r
end

/-- C02's fragment: arguments of calls, constructors, destructors and operators and codata-typed
    bound terms are pure -/
def Sequenced (p : CheckedProgram) : Bool :=
  p.defs.all (fun d => seqTerm p d.body)

/-! ## line interface -/

def showWord (w : Word) : String := toString w.toInt

def Result.render : Result → String
  | .done v => "done:" ++ showWord v
  | .stuck w => "stuck:" ++ w.toString
  | .outOfFuel => "outOfFuel"

def Behaviour.render (b : Behaviour) : String :=
  "out=[" ++ ",".intercalate (b.out.map fun (nl, v) => (if nl then "1:" else "0:") ++ showWord v)
    ++ "] res=" ++ b.res.render

/-- the bytes a native run writes for this trace (C20's decimal rendering), as a string -/
def renderTrace (out : List (Bool × Word)) : String :=
  String.join (out.map fun (nl, v) => showWord v ++ (if nl then "\n" else ""))

def parseArgWords (s : String) : Option (List Word) :=
  let s := s.trimAscii.toString
  if s.isEmpty then some []
  else (s.splitOn ",").mapM fun a => (a.trimAscii.toString.toInt?).map (BitVec.ofInt 64)

def readCheckedText (dumpS1 : String) : Except String CheckedProgram :=
  match Sexp.parse dumpS1 with
  | none => .error "ERR sexp"
  | some sx =>
    match readChecked (dumpS1.length + 10) sx with
    | none => .error "ERR read"
    | some p => .ok p

/-- `dumpS1`: the S-expression of the checked program (harness stage S1, without the `S1 OK `
    prefix); `args`: comma-separated signed decimals.
    Reply: `OK out=[1:55,0:-73] res=done:300` | `… res=stuck:<why>` | `… res=outOfFuel` | `ERR …` -/
def runLine (dumpS1 : String) (args : String) (fuel : Nat) : String :=
  match readCheckedText dumpS1 with
  | .error e => e
  | .ok p =>
    match parseArgWords args with
    | none => "ERR args"
    | some as => "OK " ++ (run p as fuel).render

/-- `OK true` / `OK false`: is the program in the fragment `Sequenced`? -/
def sequencedLine (dumpS1 : String) : String :=
  match readCheckedText dumpS1 with
  | .error e => e
  | .ok p => "OK " ++ toString (Sequenced p)

end Scc.Fun
