/-
  Scc.Fun.SafetySeq — on `Sequenced` programs the Fun machine never creates a thunk (the claim of
  Scc/Fun/Sem.lean: "On `Sequenced` programs no `thunk` is ever created, so by-name and by-value
  coincide there").  `NTs p' s`: no value anywhere in the state `s` (control environment, stack frames,
  captured continuations, closures, constructor arguments) is a `thunk`, every term still to be run is
  `seqTerm`, and every pending argument list is pure.  The invariant is preserved by every step from a
  WELL-TYPED state (`step_nt`): typing is what makes a pure term of codata type a variable or a `new`
  (`ATyped.pureS_of_codata`), whose suspension is a value.
-/
import Scc.Fun.SafetyPure
import Scc.Fun.SafetyClosed

namespace Scc.Fun.Safety
open Scc.Fun Scc.Fun.Typing Scc.Fun.Check Scc.Fun2Core.Sem

mutual
  inductive NTv (p' : CheckedProgram) : Value → Prop
    | int {n} : NTv p' (.int n)
    | con {K vs} : NTvs p' vs → NTv p' (.con K vs)
    | obj {cs ρ} : seqClauses p' cs = true → NTenv p' ρ → NTv p' (.obj cs ρ)
    | cont {k} : NTk p' k → NTv p' (.cont k)
  inductive NTvs (p' : CheckedProgram) : List Value → Prop
    | nil : NTvs p' []
    | cons {v vs} : NTv p' v → NTvs p' vs → NTvs p' (v :: vs)
  inductive NTenv (p' : CheckedProgram) : Env → Prop
    | nil : NTenv p' []
    | cons {x v ρ} : NTv p' v → NTenv p' ρ → NTenv p' ((x, v) :: ρ)
  inductive NTh (p' : CheckedProgram) : ArgHead → Prop
    | call {f} : NTh p' (.call f)
    | ctor {c} : NTh p' (.ctor c)
    | dtor {v d} : NTv p' v → NTh p' (.dtor v d)
  inductive NTf (p' : CheckedProgram) : Frame → Prop
    | opL {o snd ρ} : seqTerm p' snd = true → NTenv p' ρ → NTf p' (.opL o snd ρ)
    | opR {o a} : NTf p' (.opR o a)
    | ifL {s snd t e ρ} : seqTerm p' snd = true → seqTerm p' t = true → seqTerm p' e = true →
        NTenv p' ρ → NTf p' (.ifL s snd t e ρ)
    | ifR {s a t e ρ} : seqTerm p' t = true → seqTerm p' e = true → NTenv p' ρ →
        NTf p' (.ifR s a t e ρ)
    | ifZ {s t e ρ} : seqTerm p' t = true → seqTerm p' e = true → NTenv p' ρ →
        NTf p' (.ifZ s t e ρ)
    | print {nl next ρ} : seqTerm p' next = true → NTenv p' ρ → NTf p' (.print nl next ρ)
    | letF {x body ρ} : seqTerm p' body = true → NTenv p' ρ → NTf p' (.letF x body ρ)
    | arg {h done todo ρ} : NTh p' h → NTvs p' done → pureTerms todo = true →
        seqTerms p' todo = true → NTenv p' ρ → NTf p' (.arg h done todo ρ)
    | caseF {cs ρ} : seqClauses p' cs = true → NTenv p' ρ → NTf p' (.caseF cs ρ)
    | dtorScrut {d args ρ} : pureTerms args = true → seqTerms p' args = true → NTenv p' ρ →
        NTf p' (.dtorScrut d args ρ)
    | dtorApply {d vs} : NTvs p' vs → NTf p' (.dtorApply d vs)
    | exitF : NTf p' .exitF
  inductive NTk (p' : CheckedProgram) : Stack → Prop
    | nil : NTk p' []
    | cons {f k} : NTf p' f → NTk p' k → NTk p' (f :: k)
end

/-- thunk-free, sequenced states -/
inductive NTs (p' : CheckedProgram) : State → Prop
  | eval {t ρ k} : seqTerm p' t = true → NTenv p' ρ → NTk p' k → NTs p' (.eval t ρ k)
  | ret {v k} : NTv p' v → NTk p' k → NTs p' (.ret v k)
  | args {h done todo ρ k} : NTh p' h → NTvs p' done → pureTerms todo = true →
      seqTerms p' todo = true → NTenv p' ρ → NTk p' k → NTs p' (.args h done todo ρ k)

inductive NTnext (p' : CheckedProgram) : StepResult → Prop
  | next {s' o} : NTs p' s' → NTnext p' (.next s' o)
  | done {a} : NTnext p' (.done a)
  | stuck {w} : NTnext p' (.stuck w)

/-! ## lemmas -/

theorem lookup_nt {p' : CheckedProgram} {x : String} {v : Value} : ∀ (ρ : Env), NTenv p' ρ →
    lookup x ρ = some v → NTv p' v
  | [], _, h => by simp [lookup] at h
  | (y, w) :: ρ, hρ, h => by
    cases hρ with
    | cons hw hr =>
      rw [lookup_cons] at h
      by_cases hy : y = x
      · simp only [hy, if_true, Option.some.injEq] at h
        subst h; exact hw
      · simp only [hy, if_false] at h
        exact lookup_nt ρ hr h

theorem bindAll_nt {p' : CheckedProgram} : ∀ (names : List String) (vs : List Value) (ρ ρ' : Env),
    NTvs p' vs → NTenv p' ρ → bindAll names vs ρ = some ρ' → NTenv p' ρ'
  | [], [], ρ, ρ', _, hρ, h => by simp only [bindAll, Option.some.injEq] at h; subst h; exact hρ
  | [], _ :: _, _, _, _, _, h => by simp [bindAll] at h
  | _ :: _, [], _, _, _, _, h => by simp [bindAll] at h
  | n :: ns, v :: vs, ρ, ρ', hv, hρ, h => by
    cases hv with
    | cons h1 h2 =>
      simp only [bindAll] at h
      exact bindAll_nt ns vs _ ρ' h2 (.cons h1 hρ) h

theorem NTvs.snoc {p' : CheckedProgram} {v : Value} (hv : NTv p' v) : ∀ (vs : List Value),
    NTvs p' vs → NTvs p' (vs ++ [v])
  | [], _ => .cons hv .nil
  | w :: vs, h => by
    cases h with
    | cons h1 h2 => exact .cons h1 (NTvs.snoc hv vs h2)

theorem findClause_seq {p' : CheckedProgram} {x : String} {cl : Clause} : ∀ (cs : Clauses),
    seqClauses p' cs = true → findClause x cs = some cl → seqTerm p' cl.body = true
  | .nil, _, h => by simp [findClause] at h
  | .cons pol y ns c b r, hs, h => by
    simp only [seqClauses, Bool.and_eq_true] at hs
    simp only [findClause] at h
    by_cases hxy : (x == y) = true
    · simp only [hxy, if_true, Option.some.injEq] at h
      subst h; exact hs.1
    · simp only [hxy, Bool.false_eq_true, if_false] at h
      exact findClause_seq r hs.2 h

/-- the suspension of a variable or a `new` is a thunk-free value -/
theorem suspend_nt {p' : CheckedProgram} {ρ : Env} {v : Value} (hρ : NTenv p' ρ) : ∀ (t : Term),
    pureS t = true → seqTerm p' t = true → suspend t ρ = .ok v → NTv p' v
  | .paren t, hp, hs, h => by
    simp only [suspend] at h
    exact suspend_nt hρ t (by simpa [pureS] using hp) (by simpa [seqTerm] using hs) h
  | .var x _ _, _, _, h => by
    simp only [suspend] at h
    cases hl : lookup x ρ with
    | none => simp [hl] at h
    | some w =>
      simp only [hl, Except.ok.injEq] at h
      subst h
      exact lookup_nt ρ hρ hl
  | .new cs _, _, hs, h => by
    simp only [suspend, Except.ok.injEq] at h
    subst h
    exact .obj (by simpa [seqTerm] using hs) hρ
  | .lit _, hp, _, _ => by simp [pureS] at hp
  | .op .., hp, _, _ => by simp [pureS] at hp
  | .ifc .., hp, _, _ => by simp [pureS] at hp
  | .ifz .., hp, _, _ => by simp [pureS] at hp
  | .print .., hp, _, _ => by simp [pureS] at hp
  | .letIn .., hp, _, _ => by simp [pureS] at hp
  | .call .., hp, _, _ => by simp [pureS] at hp
  | .ctor .., hp, _, _ => by simp [pureS] at hp
  | .dtor .., hp, _, _ => by simp [pureS] at hp
  | .case .., hp, _, _ => by simp [pureS] at hp
  | .label .., hp, _, _ => by simp [pureS] at hp
  | .goto .., hp, _, _ => by simp [pureS] at hp
  | .exit .., hp, _, _ => by simp [pureS] at hp

/-! ## the steps -/

theorem evalStep_nt {p : Program} {p' : CheckedProgram} (W : AWT p p') {ρ : Env} {k : Stack}
    {Γ : Ctx} {τ : Ty} (hρ : NTenv p' ρ) (hk : NTk p' k) :
    ∀ (t : Term), ATyped p Γ t τ → seqTerm p' t = true → NTnext p' (evalStep p' t ρ k)
  | .var x ty chi, _, _ => by
    simp only [evalStep]
    cases hl : lookup x ρ with
    | none => exact .stuck
    | some v => exact .next (.ret (lookup_nt ρ hρ hl) hk)
  | .lit n, _, _ => .next (.ret .int hk)
  | .op a o b, _, hs => by
    simp only [seqTerm, Bool.and_eq_true] at hs
    exact .next (.eval hs.1.2 hρ (.cons (.opL hs.2 hρ) hk))
  | .ifc s a b t e an, _, hs => by
    simp only [seqTerm, Bool.and_eq_true] at hs
    exact .next (.eval hs.1.1.1 hρ (.cons (.ifL hs.1.1.2 hs.1.2 hs.2 hρ) hk))
  | .ifz s a t e an, _, hs => by
    simp only [seqTerm, Bool.and_eq_true] at hs
    exact .next (.eval hs.1.1 hρ (.cons (.ifZ hs.1.2 hs.2 hρ) hk))
  | .print nl a n an, _, hs => by
    simp only [seqTerm, Bool.and_eq_true] at hs
    exact .next (.eval hs.1 hρ (.cons (.print hs.2 hρ) hk))
  | .letIn x σ bound body an, ht, hs => by
    simp only [seqTerm, Bool.and_eq_true, Bool.or_eq_true, Bool.not_eq_true'] at hs
    simp only [evalStep]
    by_cases hcd : isCodataTy p' σ = true
    · simp only [hcd, if_true]
      cases ht with
      | letIn hw hb _ =>
        obtain ⟨d, hd, targs, hσ⟩ := W.codata_sound σ hw hcd
        subst hσ
        have hpure : pureTerm bound = true := by
          rcases hs.1.1 with h | h
          · rw [hcd] at h; cases h
          · exact h
        have hps := ATyped.pureS_of_codata W.decls hd bound hb hpure
        cases hsu : suspend bound ρ with
        | error w => exact .stuck
        | ok v => exact .next (.eval hs.2 (.cons (suspend_nt hρ bound hps hs.1.2 hsu) hρ) hk)
    · simp only [hcd, Bool.false_eq_true, if_false]
      exact .next (.eval hs.1.2 hρ (.cons (.letF hs.2 hρ) hk))
  | .call f as an, _, hs => by
    simp only [seqTerm, Bool.and_eq_true] at hs
    exact .next (.args .call .nil hs.1 hs.2 hρ hk)
  | .ctor c as an, _, hs => by
    simp only [seqTerm, Bool.and_eq_true] at hs
    exact .next (.args .ctor .nil hs.1 hs.2 hρ hk)
  | .dtor s nm ta as an, _, hs => by
    simp only [seqTerm, Bool.and_eq_true] at hs
    exact .next (.eval hs.1.1 hρ (.cons (.dtorScrut hs.1.2 hs.2 hρ) hk))
  | .case s ta cs an, _, hs => by
    simp only [seqTerm, Bool.and_eq_true] at hs
    exact .next (.eval hs.1 hρ (.cons (.caseF hs.2 hρ) hk))
  | .new cs an, _, hs => .next (.ret (.obj (by simpa [seqTerm] using hs) hρ) hk)
  | .label a body an, _, hs =>
    .next (.eval (by simpa [seqTerm] using hs) (.cons (.cont hk) hρ) hk)
  | .goto a u an, _, hs => by
    simp only [evalStep]
    cases hl : lookup a ρ with
    | none => exact .stuck
    | some v =>
      cases v with
      | cont k' =>
        have := lookup_nt ρ hρ hl
        cases this with
        | cont hk' => exact .next (.eval (by simpa [seqTerm] using hs) hρ hk')
      | _ => exact .stuck
  | .exit u an, _, hs =>
    .next (.eval (by simpa [seqTerm] using hs) hρ (.cons .exitF .nil))
  | .paren u, _, hs => .next (.eval (by simpa [seqTerm] using hs) hρ hk)

theorem clause_nt {p' : CheckedProgram} {cs : Clauses} {ρ : Env} {x : String} {vs : List Value}
    {k : Stack} (hcs : seqClauses p' cs = true) (hρ : NTenv p' ρ) (hvs : NTvs p' vs)
    (hk : NTk p' k) :
    NTnext p' (match findClause x cs with
      | none => .stuck (.noClause x)
      | some cl =>
        match bindAll cl.names vs ρ with
        | none => .stuck (.arity x)
        | some env' => .next (.eval cl.body env' k) none) := by
  cases hf : findClause x cs with
  | none => exact .stuck
  | some cl =>
    simp only
    cases hb : bindAll cl.names vs ρ with
    | none => exact .stuck
    | some ρ' => exact .next (.eval (findClause_seq cs hcs hf) (bindAll_nt _ _ _ _ hvs hρ hb) hk)

theorem retFrame_nt {p' : CheckedProgram} {v : Value} {f : Frame} {k : Stack} (hv : NTv p' v)
    (hf : NTf p' f) (hk : NTk p' k) : NTnext p' (retFrame v f k) := by
  cases hf with
  | opL hs hρ =>
    cases v with
    | int a => exact .next (.eval hs hρ (.cons .opR hk))
    | _ => exact .stuck
  | @opR o a =>
    cases v with
    | int b =>
      simp only [retFrame]
      cases arith o a b with
      | ok r => exact .next (.ret .int hk)
      | error w => exact .stuck
    | _ => exact .stuck
  | ifL h1 h2 h3 hρ =>
    cases v with
    | int a => exact .next (.eval h1 hρ (.cons (.ifR h2 h3 hρ) hk))
    | _ => exact .stuck
  | ifR h2 h3 hρ =>
    cases v with
    | int a =>
      simp only [retFrame]
      split
      · exact .next (.eval h2 hρ hk)
      · exact .next (.eval h3 hρ hk)
    | _ => exact .stuck
  | ifZ h2 h3 hρ =>
    cases v with
    | int a =>
      simp only [retFrame]
      split
      · exact .next (.eval h2 hρ hk)
      · exact .next (.eval h3 hρ hk)
    | _ => exact .stuck
  | print h1 hρ =>
    cases v with
    | int a => exact .next (.eval h1 hρ hk)
    | _ => exact .stuck
  | letF h1 hρ => exact .next (.eval h1 (.cons hv hρ) hk)
  | arg hh hd hp hs hρ => exact .next (.args hh (hd.snoc hv _) hp hs hρ hk)
  | caseF hcs hρ =>
    cases hv with
    | con hvs => exact clause_nt hcs hρ hvs hk
    | _ => exact .stuck
  | dtorScrut hp hs hρ => exact .next (.args (.dtor hv) .nil hp hs hρ hk)
  | dtorApply hvs =>
    cases hv with
    | obj hcs hρ => exact clause_nt hcs hρ hvs hk
    | _ => exact .stuck
  | exitF =>
    cases v with
    | int a => exact .done
    | _ => exact .stuck

theorem applyHead_nt {p' : CheckedProgram} (hseq : Sequenced p' = true) {h : ArgHead}
    {done : List Value} {k : Stack} (hh : NTh p' h) (hd : NTvs p' done) (hk : NTk p' k) :
    NTnext p' (applyHead p' h done k) := by
  cases hh with
  | @call f =>
    simp only [applyHead]
    cases hf : findDef p' f with
    | none => exact .stuck
    | some d =>
      simp only
      cases hb : bindAll (d.ctx.map (·.var)) done [] with
      | none => exact .stuck
      | some ρ' =>
        have hmem : d ∈ p'.defs := by
          unfold findDef at hf
          exact List.mem_of_find?_eq_some hf
        have hs : seqTerm p' d.body = true := by
          simp only [Sequenced, List.all_eq_true] at hseq
          exact hseq d hmem
        exact .next (.eval hs (bindAll_nt _ _ _ _ hd .nil hb) hk)
  | ctor => exact .next (.ret (.con hd) hk)
  | dtor hv => exact .next (.ret hv (.cons (.dtorApply hd) hk))

theorem argsStep_nt {p : Program} {p' : CheckedProgram} (W : AWT p p')
    (hseq : Sequenced p' = true) {h : ArgHead} {done : List Value} {todo : Terms} {ρ : Env}
    {k : Stack} {Γ bs : Ctx} (has : AArgs p Γ todo bs) (hh : NTh p' h) (hd : NTvs p' done)
    (hp : pureTerms todo = true) (hs : seqTerms p' todo = true) (hρ : NTenv p' ρ)
    (hk : NTk p' k) : NTnext p' (argsStep p' h done todo ρ k) := by
  cases has with
  | nil =>
    simp only [argsStep]
    exact applyHead_nt hseq hh hd hk
  | @prd _ t ts b bs' hc hw ht hr =>
    simp only [pureTerms, Bool.and_eq_true] at hp
    simp only [seqTerms, Bool.and_eq_true] at hs
    rw [argsStep_cons_prd _ _ _ _ _ _ _ ht.not_cov, ht.getType]
    simp only
    by_cases hcd : isCodataTy p' b.ty = true
    · simp only [hcd, if_true]
      obtain ⟨d, hdd, targs, hσ⟩ := W.codata_sound _ hw hcd
      rw [hσ] at ht
      have hps := ATyped.pureS_of_codata W.decls hdd t ht hp.1
      cases hsu : suspend t ρ with
      | error w => exact .stuck
      | ok v => exact .next (.args hh (hd.snoc (suspend_nt hρ t hps hs.1 hsu) _) hp.2 hs.2 hρ hk)
    · simp only [hcd, Bool.false_eq_true, if_false]
      exact .next (.eval hs.1 hρ (.cons (.arg hh hd hp.2 hs.2 hρ) hk))
  | @cns _ x ts b bs' b' _ _ _ _ _ _ =>
    simp only [pureTerms, Bool.and_eq_true] at hp
    simp only [seqTerms, Bool.and_eq_true] at hs
    simp only [argsStep]
    cases hl : lookup x ρ with
    | none => exact .stuck
    | some v =>
      cases v with
      | cont c => exact .next (.args hh (hd.snoc (lookup_nt ρ hρ hl) _) hp.2 hs.2 hρ hk)
      | _ => exact .stuck

/-- one step from a well-typed, thunk-free, sequenced state of a `Sequenced` program -/
theorem step_nt {p : Program} {p' : CheckedProgram} (W : AWT p p') (hseq : Sequenced p' = true)
    {s : State} (hs : ST p s) (hn : NTs p' s) : NTnext p' (step p' s) := by
  cases hn with
  | eval h1 hρ hk =>
    cases hs with
    | eval Γ τ _ ht _ => exact evalStep_nt W hρ hk _ ht h1
  | args hh hd hp hsq hρ hk =>
    cases hs with
    | args Γ bsDone bsTodo τ _ _ _ has _ => exact argsStep_nt W hseq has hh hd hp hsq hρ hk
  | @ret v k hv hk =>
    cases hk with
    | nil =>
      cases v with
      | int a => exact .done
      | _ => exact .stuck
    | cons hf hk' => exact retFrame_nt hv hf hk'

theorem step_nt_preserves {p : Program} {p' : CheckedProgram} (W : AWT p p')
    (hseq : Sequenced p' = true) {s s' : State} {o : Option (Bool × Word)} (hs : ST p s)
    (hn : NTs p' s) (h : step p' s = .next s' o) : NTs p' s' := by
  have := step_nt W hseq hs hn
  rw [h] at this
  cases this with
  | next h' => exact h'

theorem FSteps_nt {p : Program} {p' : CheckedProgram} (W : AWT p p') (hseq : Sequenced p' = true)
    {s s' : State} {o : Out} {j : Nat} (h : FSteps p' s s' o j) (hs : ST p s) (hn : NTs p' s) :
    NTs p' s' := by
  induction h with
  | refl s => exact hn
  | silent h1 _ ih => exact ih (step_preserves W hs h1) (step_nt_preserves W hseq hs hn h1)
  | emit h1 _ ih => exact ih (step_preserves W hs h1) (step_nt_preserves W hseq hs hn h1)

theorem ntvs_ints {p' : CheckedProgram} : ∀ (args : List Word), NTvs p' (args.map .int)
  | [] => .nil
  | _ :: r => .cons .int (ntvs_ints r)

/-- the initial state of a `Sequenced` program is thunk-free -/
theorem initState_nt {p' : CheckedProgram} (hseq : Sequenced p' = true) {args : List Word}
    {s : State} (h : initState p' args = .ok s) : NTs p' s := by
  simp only [initState] at h
  cases hf : findDef p' "main" with
  | none => simp [hf] at h
  | some d =>
    simp only [hf] at h
    cases hb : bindAll (d.ctx.map (·.var)) (args.map .int) [] with
    | none => simp [hb] at h
    | some ρ =>
      simp only [hb, Except.ok.injEq] at h
      subst h
      have hmem : d ∈ p'.defs := by
        unfold findDef at hf
        exact List.mem_of_find?_eq_some hf
      have hs : seqTerm p' d.body = true := by
        simp only [Sequenced, List.all_eq_true] at hseq
        exact hseq d hmem
      exact .eval hs (bindAll_nt _ _ _ _ (ntvs_ints args) .nil hb) .nil

end Scc.Fun.Safety
