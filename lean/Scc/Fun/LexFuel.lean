/-
  Scc.Fun.LexFuel — the fuel of the lexer model (Scc.Fun.Lex.lexLoop) is always enough: every step of
  `lexStep` on a non-empty input consumes at least one character, hence the token stream does not depend
  on the fuel once it is at least the number of characters (`lexStream` passes exactly that), and the
  out-of-fuel branch `lexLoop 0 (_ :: _) = [.bad]` is never the reason for a `Token.bad`.  Proof file.
-/
import Scc.Fun.Lex

namespace Scc.Fun.Lex

/-- the remaining input of a step is shorter than `n` -/
def LexStep.Shorter (n : Nat) : LexStep → Prop
  | .tok _ r => r.length < n
  | .skip r => r.length < n
  | .invalid => True

theorem length_dropWhile_le (p : Char → Bool) (l : List Char) : (l.dropWhile p).length ≤ l.length :=
  (List.dropWhile_sublist p).length_le

theorem afterCmp_shorter (c : IfSort) (rest : List Char) :
    (afterCmp c rest).Shorter (rest.length + 1) := by
  unfold afterCmp
  have := length_dropWhile_le isWs rest
  split
  · rename_i r h; rw [h] at this; simp only [List.length_cons] at this
    show r.length < _; omega
  · exact Nat.lt_succ_self _

theorem afterZero_shorter (rest : List Char) : (afterZero rest).Shorter (rest.length + 1) := by
  unfold afterZero
  have := length_dropWhile_le isWs rest
  split <;> first
    | exact Nat.lt_succ_self _
    | (show List.length _ < _
       rw [‹List.dropWhile isWs rest = _›] at this; simp only [List.length_cons] at this; omega)

theorem afterSlashSlash_le (rest : List Char) : (afterSlashSlash rest).length ≤ rest.length := by
  unfold afterSlashSlash
  split
  · split
    · exact length_dropWhile_le _ _
    · exact Nat.le_trans (length_dropWhile_le _ _)
        (Nat.le_trans (length_dropWhile_le _ _) (by simp))
  · split
    · exact length_dropWhile_le _ _
    · exact Nat.le_trans (length_dropWhile_le _ _) (length_dropWhile_le _ _)
  · exact Nat.le_refl _

theorem LexStep.Shorter.mono {n m : Nat} {s : LexStep} (h : s.Shorter n) (hm : n ≤ m) : s.Shorter m := by
  cases s with
  | tok t r => exact Nat.lt_of_lt_of_le h hm
  | skip r => exact Nat.lt_of_lt_of_le h hm
  | invalid => exact trivial

theorem shorter_tok {n : Nat} {t : Token} {r : List Char} (h : r.length < n) :
    (LexStep.tok t r).Shorter n := h
theorem shorter_skip {n : Nat} {r : List Char} (h : r.length < n) : (LexStep.skip r).Shorter n := h

theorem Shorter.ite' {n : Nat} {c : Prop} [Decidable c] {a b : LexStep} (ha : a.Shorter n) (hb : b.Shorter n) :
    (if c then a else b).Shorter n := by split <;> assumption

/-- one step on a non-empty input consumes at least one character -/
theorem lexStep_shorter (c : Char) (cs : List Char) :
    (lexStep (c :: cs)).Shorter (cs.length + 1) := by
  have hws := length_dropWhile_le isWs cs
  have hid := length_dropWhile_le isIdC cs
  have hdg := length_dropWhile_le isDigitC cs
  unfold lexStep
  split
  · exact trivial
  · rename_i heq; cases heq
    repeat' (first
      | refine Shorter.ite' ?_ ?_
      | exact trivial
      | exact shorter_tok (by omega)
      | exact shorter_skip (by omega)
      | exact afterZero_shorter _
      | exact afterCmp_shorter _ _)
    · show LexStep.Shorter _ (match kwOf _ with | some k => _ | none => _)
      split <;> exact shorter_tok (by omega)
    · split
      · have := afterSlashSlash_le ‹List Char›
        exact shorter_skip (by simp only [List.length_cons]; omega)
      · exact shorter_tok (by omega)
    · split
      · rename_i h; rw [h] at hws; simp only [List.length_cons] at hws
        exact shorter_tok (by omega)
      · exact shorter_tok (by omega)
    all_goals
      split <;> first
        | exact trivial
        | exact afterCmp_shorter _ _
        | exact (afterCmp_shorter _ _).mono (by (try simp only [List.length_cons]); omega)
        | exact shorter_tok (by (try simp only [List.length_cons]); omega)

/-- **Fuel independence of the lexer**: any two fuels that are at least the number of characters give the
same token stream. -/
theorem lexLoop_fuel_indep : ∀ (f g : Nat) (cs : List Char), cs.length ≤ f → cs.length ≤ g →
    lexLoop f cs = lexLoop g cs := by
  intro f
  induction f with
  | zero =>
    intro g cs hf _
    cases cs with
    | nil => cases g <;> rfl
    | cons c r => simp at hf
  | succ f ih =>
    intro g cs hf hg
    cases cs with
    | nil => cases g <;> rfl
    | cons c r =>
      cases g with
      | zero => simp at hg
      | succ g =>
        have hs := lexStep_shorter c r
        simp only [List.length_cons] at hf hg
        unfold lexLoop
        cases h : lexStep (c :: r) with
        | tok t r' =>
          rw [h] at hs
          have : r'.length < r.length + 1 := hs
          simp only []
          rw [ih g r' (by omega) (by omega)]
        | skip r' =>
          rw [h] at hs
          have : r'.length < r.length + 1 := hs
          simp only []
          exact ih g r' (by omega) (by omega)
        | invalid => rfl

/-- `lexStream` is `lexLoop` with any sufficient fuel -/
theorem lexLoop_eq_lexStream (f : Nat) (cs : List Char) (hf : cs.length ≤ f) :
    lexLoop f cs = lexStream cs :=
  lexLoop_fuel_indep f cs.length cs hf (Nat.le_refl _)

/-- the fuel-free recursion equations of the token stream: `lexStream` is the unfolding of `lexStep`
until the input is empty or invalid — no trace of the fuel is left -/
theorem lexStream_nil : lexStream [] = [] := rfl

theorem lexStream_cons (c : Char) (cs : List Char) :
    lexStream (c :: cs) =
      match lexStep (c :: cs) with
      | .tok t r => t :: lexStream r
      | .skip r => lexStream r
      | .invalid => [.bad] := by
  have hs := lexStep_shorter c cs
  show lexLoop (cs.length + 1) (c :: cs) = _
  unfold lexLoop
  cases h : lexStep (c :: cs) with
  | tok t r =>
    rw [h] at hs
    have : r.length < cs.length + 1 := hs
    simp only []
    rw [lexLoop_eq_lexStream _ _ (by omega)]
  | skip r =>
    rw [h] at hs
    have : r.length < cs.length + 1 := hs
    simp only []
    exact lexLoop_eq_lexStream _ _ (by omega)
  | invalid => rfl

end Scc.Fun.Lex
