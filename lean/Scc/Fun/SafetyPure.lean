/-
  Scc.Fun.SafetyPure — kind-level safety of PURE terms (the side condition of `Fun.Sequenced`: the
  arguments of calls, constructors, destructors and operators are pure): in a well-typed environment
  a pure, typed term HAS a value (`Fun2Core.Sem.pureVal`, the big-step value function of
  Scc/Fun2Core/SemPure.lean, is never `none`), the value has the type of the term, and the machine
  computes it in finitely many silent steps without getting stuck; the same for argument lists
  (`pureArgs`).  Canonical forms (`VT.kind`): a value of type `i64` is an integer, a value of a data
  type is a constructor value, a value of a codata type is a closure or a thunk.
-/
import Scc.Fun.SafetyRun
import Scc.Fun2Core.SemPure

namespace Scc.Fun.Safety
open Scc.Fun Scc.Fun.Typing Scc.Fun.Check Scc.Fun2Core.Sem

theorem isCov_none {t : Term} (h : ∀ x ty, t ≠ .var x ty (some .cns)) : isCov t = none := by
  cases t with
  | var x ty chi =>
    cases chi with
    | none => rfl
    | some c =>
      cases c with
      | prd => rfl
      | cns => exact absurd rfl (h x ty)
  | _ => rfl

mutual
  /-- a pure, typed term has a value of its type -/
  theorem pureVal_typed {p : Program} {p' : CheckedProgram} (W : AWT p p') {ρ : Env} {Γ : Ctx}
      (he : EnvT p ρ Γ) : ∀ (t : Term) (τ : Ty), pureTerm t = true → ATyped p Γ t τ →
      ∃ v, pureVal p' t ρ = some v ∧ VT p v τ
    | .var x ty chi, τ, _, ht => by
      cases ht with
      | var b hl hc hty _ =>
        obtain ⟨v, hv, hb⟩ := he.lookup _ _ hl
        exact ⟨v, by simpa [pureVal] using hv, hty ▸ hb.prd_inv hc⟩
    | .lit n, τ, _, ht => by
      cases ht
      exact ⟨_, rfl, .int⟩
    | .op a o b, τ, hp, ht => by
      simp only [pureTerm, Bool.and_eq_true] at hp
      cases ht with
      | op ha hb =>
        obtain ⟨va, h1, hva⟩ := pureVal_typed W he a .i64 hp.1.2 ha
        obtain ⟨vb, h2, hvb⟩ := pureVal_typed W he b .i64 hp.2 hb
        obtain ⟨x, rfl⟩ := hva.int_inv
        obtain ⟨y, rfl⟩ := hvb.int_inv
        obtain ⟨r, hr⟩ := arith_ok_of_pure hp.1.1.1 hp.1.1.2 x y
        exact ⟨.int r, by simp [pureVal, h1, h2, hr, exceptToOption, Except.map], .int⟩
    | .ctor c as an, τ, hp, ht => by
      simp only [pureTerm] at hp
      cases ht with
      | ctor d c hd hc hw has =>
        obtain ⟨vs, h1, hvs⟩ := pureArgs_typed W he as _ hp has
        exact ⟨.con c.name vs, by simp [pureVal, h1], .con d c hd hc hw rfl rfl hvs⟩
    | .new cs an, τ, _, ht => ⟨_, rfl, .obj Γ an he ht⟩
    | .paren t, τ, hp, ht => by
      simp only [pureTerm] at hp
      cases ht with
      | paren h =>
        obtain ⟨v, h1, hv⟩ := pureVal_typed W he t τ hp h
        exact ⟨v, by simpa [pureVal] using h1, hv⟩
    | .ifc .., _, hp, _ => by simp [pureTerm] at hp
    | .ifz .., _, hp, _ => by simp [pureTerm] at hp
    | .print .., _, hp, _ => by simp [pureTerm] at hp
    | .letIn .., _, hp, _ => by simp [pureTerm] at hp
    | .call .., _, hp, _ => by simp [pureTerm] at hp
    | .dtor .., _, hp, _ => by simp [pureTerm] at hp
    | .case .., _, hp, _ => by simp [pureTerm] at hp
    | .label .., _, hp, _ => by simp [pureTerm] at hp
    | .goto .., _, hp, _ => by simp [pureTerm] at hp
    | .exit .., _, hp, _ => by simp [pureTerm] at hp
  /-- a pure, typed argument list has values for the parameters -/
  theorem pureArgs_typed {p : Program} {p' : CheckedProgram} (W : AWT p p') {ρ : Env} {Γ : Ctx}
      (he : EnvT p ρ Γ) : ∀ (ts : Terms) (bs : Ctx), pureTerms ts = true → AArgs p Γ ts bs →
      ∃ vs, pureArgs p' ts ρ = some vs ∧ VTs p vs bs
    | .nil, bs, _, has => by
      cases has
      exact ⟨[], rfl, .nil⟩
    | .cons t r, bs, hp, has => by
      simp only [pureTerms, Bool.and_eq_true] at hp
      rw [pureArgs_cons]
      cases has with
      | @prd _ _ _ b bs' hc hw ht hr =>
        obtain ⟨vr, h2, hvr⟩ := pureArgs_typed W he r bs' hp.2 hr
        have hav : ∃ v, argVal p' t ρ = some v ∧ VT p v b.ty := by
          simp only [argVal, argValWith, isCov_none ht.not_cov, ht.getType]
          by_cases hcd : isCodataTy p' b.ty = true
          · obtain ⟨d, hd, targs, hσ⟩ := W.codata_sound _ hw hcd
            obtain ⟨v, hv, hvt⟩ := suspend_typed he hd hσ t ht
            exact ⟨v, by simp [hcd, hv, exceptToOption], hvt⟩
          · obtain ⟨v, hv, hvt⟩ := pureVal_typed W he t b.ty hp.1 ht
            exact ⟨v, by simp [hcd, hv], hvt⟩
        obtain ⟨v, h1, hv⟩ := hav
        exact ⟨v :: vr, by simp [h1, h2], .cons (.prd hc hv) hvr⟩
      | @cns _ x _ b bs' b' hc hl hc' hty _ hr =>
        obtain ⟨vr, h2, hvr⟩ := pureArgs_typed W he r bs' hp.2 hr
        obtain ⟨v, hv, hb⟩ := he.lookup _ _ hl
        obtain ⟨c, rfl, hkc⟩ := hb.cns_inv hc'
        exact ⟨.cont c :: vr, by simp [argVal, argValWith, isCov, hv, h2],
          .cons (.cns hc (hty ▸ hkc)) hvr⟩
end

/-- the machine evaluates a pure, typed term to a value of its type, silently, in ≥ 1 steps, never
stuck -/
theorem pure_eval_safe {p : Program} {p' : CheckedProgram} (W : AWT p p') {ρ : Env} {Γ : Ctx}
    (he : EnvT p ρ Γ) {t : Term} {τ : Ty} (hp : pureTerm t = true) (ht : ATyped p Γ t τ)
    (k : Stack) : ∃ v j, 1 ≤ j ∧ FSteps p' (.eval t ρ k) (.ret v k) [] j ∧ VT p v τ := by
  obtain ⟨v, h1, hv⟩ := pureVal_typed W he t τ hp ht
  obtain ⟨j, hj, fj⟩ := fun_pure p' t ρ v k hp h1
  exact ⟨v, j, hj, fj, hv⟩

/-- the machine evaluates a pure, typed argument list to values for the parameters -/
theorem pure_args_safe {p : Program} {p' : CheckedProgram} (W : AWT p p') {ρ : Env} {Γ : Ctx}
    (he : EnvT p ρ Γ) {ts : Terms} {bs : Ctx} (hp : pureTerms ts = true) (has : AArgs p Γ ts bs)
    (h : ArgHead) (done : List Value) (k : Stack) :
    ∃ vs j, FSteps p' (.args h done ts ρ k) (.args h (done ++ vs) .nil ρ k) [] j ∧ VTs p vs bs := by
  obtain ⟨vs, h1, hvs⟩ := pureArgs_typed W he ts bs hp has
  obtain ⟨j, fj⟩ := fun_pureArgs p' ts ρ vs h done k hp h1
  exact ⟨vs, j, fj, hvs⟩

/-- canonical forms, all kinds at once -/
theorem VT.kind {p : Program} (ok : DeclsOk p) {v : Value} {τ : Ty} (hw : WfTy p τ)
    (h : VT p v τ) :
    (τ = .i64 ∧ ∃ n, v = .int n) ∨
    (∃ d ∈ datas p, ∃ targs, τ = .decl d.name targs ∧ ∃ c ∈ d.ctors, ∃ vs, v = .con c.name vs ∧
      VTs p vs (csubst (instSubst d.typeParams targs) c.args)) ∨
    (∃ d ∈ codatas p, ∃ targs, τ = .decl d.name targs ∧
      ((∃ cs ρ, v = .obj cs ρ) ∨ (∃ t ρ, v = .thunk t ρ))) := by
  cases hw with
  | i64 => exact .inl ⟨rfl, h.int_inv⟩
  | data d args hd _ _ =>
    obtain ⟨c, hc, vs, hv, hvs⟩ := h.data_inv ok hd
    exact .inr (.inl ⟨d, hd, args, rfl, c, hc, vs, hv, hvs⟩)
  | codata d args hd _ _ =>
    refine .inr (.inr ⟨d, hd, args, rfl, ?_⟩)
    rcases h.codata_inv ok hd with ⟨cs, ρ, _, _, hv, _⟩ | ⟨t, ρ, _, hv, _⟩
    · exact .inl ⟨cs, ρ, hv⟩
    · exact .inr ⟨t, ρ, hv⟩

/-- every state reached from a well-typed state is well-typed -/
theorem FSteps_preserves {p : Program} {p' : CheckedProgram} (W : AWT p p') {s s' : State}
    {o : Out} {j : Nat} (h : FSteps p' s s' o j) (hs : ST p s) : ST p s' := by
  induction h with
  | refl s => exact hs
  | silent h1 _ ih => exact ih (step_preserves W hs h1)
  | emit h1 _ ih => exact ih (step_preserves W hs h1)

end Scc.Fun.Safety
