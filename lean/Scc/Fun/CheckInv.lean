/-
  Scc.Fun.CheckInv — inversion lemmas for the checker model: what a successful run of
  `checkTerm` / `checkArgs` / `checkEquality` / .. consists of.  Used by the proofs of C15.
-/
import Scc.Fun.CheckLemmas

namespace Scc.Fun.Check

/-! ## structural equality of types is equality -/

mutual
  theorem Ty.beq_iff : ∀ (a b : Ty), Ty.beq a b = true ↔ a = b
    | .i64, .i64 => by simp [Ty.beq]
    | .i64, .decl _ _ => by simp [Ty.beq]
    | .decl _ _, .i64 => by simp [Ty.beq]
    | .decl n a, .decl m b => by
      simp only [Ty.beq, Bool.and_eq_true, beq_iff_eq, Tys.beq_iff a b, Ty.decl.injEq]
  theorem Tys.beq_iff : ∀ (a b : Tys), Tys.beq a b = true ↔ a = b
    | .nil, .nil => by simp [Tys.beq]
    | .nil, .cons _ _ => by simp [Tys.beq]
    | .cons _ _, .nil => by simp [Tys.beq]
    | .cons t r, .cons u s => by
      simp only [Tys.beq, Bool.and_eq_true, Ty.beq_iff t u, Tys.beq_iff r s, Tys.cons.injEq]
end

theorem Ty.not_bne_iff (a b : Ty) : ¬ ((a != b) = true) ↔ a = b := by
  have : (a == b) = Ty.beq a b := rfl
  simp [bne, this, ← Ty.beq_iff]

macro "inv_split" h:ident : tactic =>
  `(tactic| ((repeat' split at $h:ident) <;> (try (cases $h:ident; done))))

/-! ## helpers -/

theorem eq_nil_of_not_not_isEmpty {α : Type} {l : List α} (h : ¬ (!l.isEmpty) = true) : l = [] := by
  cases l <;> simp_all

theorem checkEquality_ok {st e g st'} (h : checkEquality st e g = .ok st') :
    ∃ st1, checkTy e st = .ok st1 ∧ checkTy g st1 = .ok st' ∧ e = g := by
  simp only [checkEquality] at h
  inv_split h
  cases h
  exact ⟨_, ‹_›, ‹_›, (Ty.not_bne_iff _ _).mp ‹_›⟩

theorem checkAnnot_ok {st ty found st'} (h : checkAnnot st ty found = .ok st') :
    (ty = none ∧ st' = st) ∨ ∃ t, ty = some t ∧ checkEquality st t found = .ok st' := by
  cases ty with
  | none => simp only [checkAnnot] at h; cases h; exact .inl ⟨rfl, rfl⟩
  | some t => exact .inr ⟨t, rfl, h⟩

theorem checkCovarArg_ok {st Γ x ty chi bty t' st'}
    (h : checkCovarArg st Γ x ty chi bty = .ok (t', st')) :
    ¬ (chi == some Chi.prd) = true ∧ ∃ found st1, lookupCovar Γ x = .ok found ∧
      checkAnnot st ty found = .ok st1 ∧ checkEquality st1 bty found = .ok st' ∧
      t' = .var x (some found) (some .cns) := by
  simp only [checkCovarArg] at h
  inv_split h
  cases h
  exact ⟨‹_›, _, _, ‹_›, ‹_›, ‹_›, rfl⟩

theorem resolveXtorTy_ok {pol st xtor tyArgs r st'}
    (h : resolveXtorTy pol st xtor tyArgs = .ok (r, st')) :
    (lookupTyForXtor pol st.types (instName xtor tyArgs) = some r ∧ st' = st) ∨
    (lookupTyForXtor pol st.types (instName xtor tyArgs) = none ∧
      ∃ name xtors, findTemplateForXtor pol st.typeTemplates xtor = some (name, xtors) ∧
        checkTy (.decl name tyArgs) st = .ok st' ∧ r = (.decl name tyArgs, xtors)) := by
  simp only [resolveXtorTy] at h
  split at h
  · cases h; exact .inl ⟨‹_›, rfl⟩
  · refine .inr ⟨‹_›, ?_⟩
    simp only [lookupTyTemplateForXtor] at h
    inv_split h
    cases h
    exact ⟨_, _, ‹_›, ‹_›, rfl⟩

/-! ## terms -/

theorem checkTerm_var_ok {x ty chi} {st Γ τ t' st'}
    (h : checkTerm (.var x ty chi) st Γ τ = .ok (t', st')) :
    ¬ (chi == some Chi.cns) = true ∧ ∃ found st1, lookupVar Γ x = .ok found ∧
      checkAnnot st ty found = .ok st1 ∧
      checkEquality st1 τ found = .ok st' ∧ t' = .var x (some τ) (some .prd) := by
  simp only [checkTerm] at h
  inv_split h
  cases h
  exact ⟨‹_›, _, _, ‹_›, ‹_›, ‹_›, rfl⟩

theorem checkTerm_lit_ok {n} {st Γ τ t' st'} (h : checkTerm (.lit n) st Γ τ = .ok (t', st')) :
    checkEquality st τ .i64 = .ok st' ∧ t' = .lit n := by
  simp only [checkTerm] at h
  inv_split h
  cases h
  exact ⟨‹_›, rfl⟩

theorem checkTerm_op_ok {a b : Term} {o st Γ τ t' st'}
    (h : checkTerm (.op a o b) st Γ τ = .ok (t', st')) :
    ∃ st1 a' st2 b', checkEquality st .i64 τ = .ok st1 ∧ checkTerm a st1 Γ .i64 = .ok (a', st2) ∧
      checkTerm b st2 Γ .i64 = .ok (b', st') ∧ t' = .op a' o b' := by
  simp only [checkTerm] at h
  inv_split h
  cases h
  exact ⟨_, _, _, _, ‹_›, ‹_›, ‹_›, rfl⟩

theorem checkTerm_ifc_ok {s} {a b t e : Term} {an st Γ τ t' st'}
    (h : checkTerm (.ifc s a b t e an) st Γ τ = .ok (t', st')) :
    ∃ a' st1 b' st2 th' st3 e', checkTerm a st Γ .i64 = .ok (a', st1) ∧
      checkTerm b st1 Γ .i64 = .ok (b', st2) ∧ checkTerm t st2 Γ τ = .ok (th', st3) ∧
      checkTerm e st3 Γ τ = .ok (e', st') ∧ t' = .ifc s a' b' th' e' (some τ) := by
  simp only [checkTerm] at h
  inv_split h
  cases h
  exact ⟨_, _, _, _, _, _, _, ‹_›, ‹_›, ‹_›, ‹_›, rfl⟩

theorem checkTerm_ifz_ok {s} {a t e : Term} {an st Γ τ t' st'}
    (h : checkTerm (.ifz s a t e an) st Γ τ = .ok (t', st')) :
    ∃ a' st1 th' st3 e', checkTerm a st Γ .i64 = .ok (a', st1) ∧
      checkTerm t st1 Γ τ = .ok (th', st3) ∧
      checkTerm e st3 Γ τ = .ok (e', st') ∧ t' = .ifz s a' th' e' (some τ) := by
  simp only [checkTerm] at h
  inv_split h
  cases h
  exact ⟨_, _, _, _, _, ‹_›, ‹_›, ‹_›, rfl⟩

theorem checkTerm_print_ok {nl} {a n : Term} {an st Γ τ t' st'}
    (h : checkTerm (.print nl a n an) st Γ τ = .ok (t', st')) :
    ∃ a' st1 n', checkTerm a st Γ .i64 = .ok (a', st1) ∧
      checkTerm n st1 Γ τ = .ok (n', st') ∧ t' = .print nl a' n' (some τ) := by
  simp only [checkTerm] at h
  inv_split h
  cases h
  exact ⟨_, _, _, ‹_›, ‹_›, rfl⟩

theorem checkTerm_letIn_ok {x σ} {bound body : Term} {an st Γ τ t' st'}
    (h : checkTerm (.letIn x σ bound body an) st Γ τ = .ok (t', st')) :
    ∃ st1 bound' st2 body', checkTy σ st = .ok st1 ∧ checkTerm bound st1 Γ σ = .ok (bound', st2) ∧
      checkTerm body st2 (Γ ++ [⟨x, .prd, σ⟩]) τ = .ok (body', st') ∧
      t' = .letIn x σ bound' body' (some τ) := by
  simp only [checkTerm] at h
  inv_split h
  cases h
  exact ⟨_, _, _, _, ‹_›, ‹_›, ‹_›, rfl⟩

theorem checkTerm_call_ok {f args an st Γ τ t' st'}
    (h : checkTerm (.call f args an) st Γ τ = .ok (t', st')) :
    ∃ types retTy st1 args', st.defs.get? f = some (types, retTy) ∧
      checkEquality st τ retTy = .ok st1 ∧ ¬ (types.length != termsLength args) = true ∧
      checkArgs args types st1 Γ = .ok (args', st') ∧ t' = .call f args' (some τ) := by
  simp only [checkTerm] at h
  inv_split h
  cases h
  exact ⟨_, _, _, _, ‹_›, ‹_›, ‹_›, ‹_›, rfl⟩

theorem checkTerm_ctor_ok {id args an st Γ τ t' st'}
    (h : checkTerm (.ctor id args an) st Γ τ = .ok (t', st')) :
    ∃ name tyArgs types ty xs args' st1, τ = .decl name tyArgs ∧
      st.ctors.get? (instName id tyArgs) = some types ∧
      lookupTyForXtor .data st.types (instName id tyArgs) = some (ty, xs) ∧
      ¬ (types.length != termsLength args) = true ∧
      checkArgs args types st Γ = .ok (args', st1) ∧ checkEquality st1 τ ty = .ok st' ∧
      t' = .ctor id args' (some τ) := by
  simp only [checkTerm] at h
  inv_split h
  cases h
  exact ⟨_, _, _, _, _, _, _, rfl, ‹_›, ‹_›, ‹_›, ‹_›, ‹_›, rfl⟩

theorem checkTerm_dtor_ok {scrut id tyArgs args an st Γ τ t' st'}
    (h : checkTerm (.dtor scrut id tyArgs args an) st Γ τ = .ok (t', st')) :
    ∃ ty xs st1 scrut' st2 types retTy args' st3,
      resolveXtorTy .codata st id tyArgs = .ok ((ty, xs), st1) ∧
      checkTerm scrut st1 Γ ty = .ok (scrut', st2) ∧
      st2.dtors.get? (instName id tyArgs) = some (types, retTy) ∧
      ¬ (types.length != termsLength args) = true ∧
      checkArgs args types st2 Γ = .ok (args', st3) ∧ checkEquality st3 τ retTy = .ok st' ∧
      t' = .dtor scrut' id tyArgs args' (some τ) := by
  simp only [checkTerm] at h
  inv_split h
  cases h
  exact ⟨_, _, _, _, _, _, _, _, _, ‹_›, ‹_›, ‹_›, ‹_›, ‹_›, ‹_›, rfl⟩

theorem checkTerm_case_ok {scrut tyArgs cs an st Γ τ t' st'}
    (h : checkTerm (.case scrut tyArgs cs an) st Γ τ = .ok (t', st')) :
    ∃ pol0 xtor0 ns0 c0 b0 r0 ty expectedCtors st1 scrut' st2 newClauses,
      cs = .cons pol0 xtor0 ns0 c0 b0 r0 ∧
      resolveXtorTy .data st xtor0 tyArgs = .ok ((ty, expectedCtors), st1) ∧
      checkTerm scrut st1 Γ ty = .ok (scrut', st2) ∧
      clauseLoop (fun s n => (s.ctors.get? n).map fun sig => (sig, τ)) "T-015" false tyArgs Γ
        expectedCtors (clauseCheckers cs) [] st2 = .ok (newClauses, [], st') ∧
      t' = .case scrut' tyArgs (Clauses.ofList newClauses) (some τ) := by
  simp only [checkTerm] at h
  inv_split h
  cases h
  have := eq_nil_of_not_not_isEmpty ‹¬ _›
  subst this
  exact ⟨_, _, _, _, _, _, _, _, _, _, _, _, rfl, ‹_›, ‹_›, ‹_›, rfl⟩

theorem checkTerm_new_ok {cs an st Γ τ t' st'}
    (h : checkTerm (.new cs an) st Γ τ = .ok (t', st')) :
    ∃ name tyArgs ta expectedDtors newClauses, τ = .decl name tyArgs ∧
      st.types.get? (instName name tyArgs) = some (.codata, ta, expectedDtors) ∧
      clauseLoop (fun s n => s.dtors.get? n) "T-010" true tyArgs Γ expectedDtors (clauseCheckers cs) [] st
        = .ok (newClauses, [], st') ∧
      t' = .new (Clauses.ofList newClauses) (some τ) := by
  simp only [checkTerm] at h
  inv_split h
  cases h
  have := eq_nil_of_not_not_isEmpty ‹¬ _›
  subst this
  exact ⟨_, _, _, _, _, rfl, ‹_›, ‹_›, rfl⟩

theorem checkTerm_label_ok {a} {body : Term} {an st Γ τ t' st'}
    (h : checkTerm (.label a body an) st Γ τ = .ok (t', st')) :
    ∃ body', checkTerm body st (Γ ++ [⟨a, .cns, τ⟩]) τ = .ok (body', st') ∧
      t' = .label a body' (some τ) := by
  simp only [checkTerm] at h
  inv_split h
  cases h
  exact ⟨_, ‹_›, rfl⟩

theorem checkTerm_goto_ok {a} {arg : Term} {an st Γ τ t' st'}
    (h : checkTerm (.goto a arg an) st Γ τ = .ok (t', st')) :
    ∃ contTy st0 arg', lookupCovar Γ a = .ok contTy ∧ checkTy contTy st = .ok st0 ∧
      checkTerm arg st0 Γ contTy = .ok (arg', st') ∧ t' = .goto a arg' (some τ) := by
  simp only [checkTerm] at h
  inv_split h
  cases h
  exact ⟨_, _, _, ‹_›, ‹_›, ‹_›, rfl⟩

theorem checkTerm_exit_ok {arg : Term} {an st Γ τ t' st'}
    (h : checkTerm (.exit arg an) st Γ τ = .ok (t', st')) :
    ∃ arg', checkTerm arg st Γ .i64 = .ok (arg', st') ∧ t' = .exit arg' (some τ) := by
  simp only [checkTerm] at h
  inv_split h
  cases h
  exact ⟨_, ‹_›, rfl⟩

theorem checkTerm_paren_ok {inner : Term} {st Γ τ t' st'}
    (h : checkTerm (.paren inner) st Γ τ = .ok (t', st')) :
    ∃ inner', checkTerm inner st Γ τ = .ok (inner', st') ∧ t' = .paren inner' := by
  simp only [checkTerm] at h
  inv_split h
  cases h
  exact ⟨_, ‹_›, rfl⟩

/-! ## arguments -/

theorem checkArgs_nil_ok {bs st Γ ts' st'} (h : checkArgs .nil bs st Γ = .ok (ts', st')) :
    ts' = .nil ∧ st' = st := by
  simp only [checkArgs] at h
  cases h; exact ⟨rfl, rfl⟩

theorem checkArgs_cons_nil_ok {t ts st Γ ts' st'} (h : checkArgs (.cons t ts) [] st Γ = .ok (ts', st')) :
    ts' = .nil ∧ st' = st := by
  simp only [checkArgs] at h
  cases h; exact ⟨rfl, rfl⟩

theorem checkArgs_cons_prd_ok {t ts} {b : Binding} {bs st Γ ts' st'} (hb : b.chi = .prd)
    (h : checkArgs (.cons t ts) (b :: bs) st Γ = .ok (ts', st')) :
    ∃ st1 t' st2 rest', checkTy b.ty st = .ok st1 ∧ checkTerm t st1 Γ b.ty = .ok (t', st2) ∧
      checkArgs ts bs st2 Γ = .ok (rest', st') ∧ ts' = .cons t' rest' := by
  simp only [checkArgs, hb] at h
  have hc : (Chi.prd == Chi.cns) = false := by decide
  simp only [hc, Bool.false_eq_true, if_false] at h
  split at h
  · cases h
  · rename_i heq
    split at h
    · cases h
    · rename_i heq2
      cases h
      split at heq
      · cases heq
      · exact ⟨_, _, _, _, ‹_›, heq, heq2, rfl⟩

theorem checkArgs_cons_cns_ok {t ts} {b : Binding} {bs st Γ ts' st'} (hb : b.chi = .cns)
    (h : checkArgs (.cons t ts) (b :: bs) st Γ = .ok (ts', st')) :
    ∃ x ty chi t' st2 rest', t = .var x ty chi ∧
      checkCovarArg st Γ x ty chi b.ty = .ok (t', st2) ∧
      checkArgs ts bs st2 Γ = .ok (rest', st') ∧ ts' = .cons t' rest' := by
  simp only [checkArgs, hb] at h
  have hc : (Chi.cns == Chi.cns) = true := by decide
  simp only [hc, if_true] at h
  split at h
  · cases h
  · rename_i heq
    split at h
    · cases h
    · rename_i heq2
      cases h
      split at heq
      · exact ⟨_, _, _, _, _, _, rfl, heq, heq2, rfl⟩
      · cases heq

/-! ## the clause loop -/

theorem clauseLoop_nil_ok {sigOf missing checkRet tyArgs Γ ks acc st out left st'}
    (h : clauseLoop sigOf missing checkRet tyArgs Γ [] ks acc st = .ok (out, left, st')) :
    out = acc.reverse ∧ left = ks ∧ st' = st := by
  simp only [clauseLoop] at h
  cases h; exact ⟨rfl, rfl, rfl⟩

theorem clauseLoop_cons_ok {sigOf missing checkRet tyArgs Γ xtor rest ks acc st out left st'}
    (h : clauseLoop sigOf missing checkRet tyArgs Γ (xtor :: rest) ks acc st = .ok (out, left, st')) :
    ∃ pos k sig bodyTy st0 ctxClause body' st1,
      ks.findIdx? (fun k => k.src.xtor = xtor) = some pos ∧ ks[pos]? = some k ∧
      sigOf st (instName xtor tyArgs) = some (sig, bodyTy) ∧
      (if checkRet then checkTy bodyTy st else .ok st) = .ok st0 ∧
      namesNoDups k.src.names [] = .ok () ∧ addTypes k.src.names sig = .ok ctxClause ∧
      k.body st0 (Γ ++ ctxClause) bodyTy = .ok (body', st1) ∧
      clauseLoop sigOf missing checkRet tyArgs Γ rest (swapRemove ks pos)
        (⟨k.src.pol, k.src.xtor, k.src.names, ctxClause, body'⟩ :: acc) st1 = .ok (out, left, st') := by
  simp only [clauseLoop] at h
  split at h
  · cases h
  · split at h
    · cases h
    · split at h
      · cases h
      · split at h
        · cases h
        · split at h
          · cases h
          · split at h
            · cases h
            · split at h
              · cases h
              · exact ⟨_, _, _, _, _, _, _, _, ‹_›, ‹_›, ‹_›, ‹_›, ‹_›, ‹_›, ‹_›, h⟩

end Scc.Fun.Check
