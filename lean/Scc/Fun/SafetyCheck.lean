/-
  Scc.Fun.SafetyCheck — the checker's OUTPUT is `ATyped` (Scc/Fun/SafetyTyping.lean): every node
  of a checked term carries the annotations the abstract machine reads, and they are the types of the
  declarative typing.  Same induction as `checkTerm_sound` (Scc/Fun/CheckSound5.lean, which relates the
  SOURCE term to `HasType`), with the property of the result stated on the output term; then the
  program level: an accepted program and its source satisfy `AWT` (`checkProgram_AWT`).
-/
import Scc.Fun.SafetyLemmas
import Scc.Fun.CheckSound6

namespace Scc.Fun.Check
open Scc.Fun.Typing Scc.Fun.Safety

/-- result property of checking a term: the output is typed, with its annotations -/
def AQ (p : Program) : Ctx → Ty → Term → Prop := fun Γ τ t' => ATyped p Γ t' τ

/-! ## from the loop result to the clause judgement -/

theorem aclauses_ofList {p : Program} {Γ : Ctx} {sigs : List (String × Ctx × Ty)} :
    ∀ (l : List Clause),
    (∀ c ∈ l, ∃ sig bodyTy, (c.xtor, sig, bodyTy) ∈ sigs ∧ c.names.Nodup ∧
      c.names.length = sig.length ∧ c.ctx = bindNames c.names sig ∧
      ATyped p (Γ ++ bindNames c.names sig) c.body bodyTy) →
    AClauses p Γ sigs (Clauses.ofList l)
  | [], _ => .nil
  | c :: r, h => by
    obtain ⟨sig, bodyTy, h1, h2, h3, h4, h5⟩ := h c (by simp)
    simp only [Clauses.ofList]
    rw [h4]
    exact .cons sig bodyTy h1 h2 h3 h5 (aclauses_ofList r (fun c hc => h c (by simp [hc])))

theorem clauses_postA {p : Program} {Γ : Ctx} {tyArgs : Tys}
    {sigOf : SymbolTable → String → Option (Ctx × Ty)} {checkRet : Bool} {st2 : SymbolTable}
    {xtors : List String} {sigs : List (String × Ctx × Ty)} {picked : List (ClauseK × Clause)}
    (hx : picked.map (fun ko => ko.1.src.xtor) = xtors)
    (hp : ∀ ko ∈ picked, PickedOk p (fun _ => AQ p) sigOf checkRet tyArgs Γ st2 ko.1 ko.2)
    (hres : ∀ st1 x sig bodyTy, Inv p st1 → Ext st2 st1 → x ∈ xtors →
      sigOf st1 (instName x tyArgs) = some (sig, bodyTy) → (x, sig, bodyTy) ∈ sigs) :
    clauseXtors (Clauses.ofList (picked.map Prod.snd)) = xtors ∧
      AClauses p Γ sigs (Clauses.ofList (picked.map Prod.snd)) := by
  refine ⟨?_, ?_⟩
  · rw [← hx]
    simp only [clauseXtors, toList_ofList_clauses, List.map_map]
    apply List.map_congr_left
    intro ko hko
    exact (hp ko hko).xtor
  · apply aclauses_ofList
    intro c hc
    obtain ⟨⟨k, o⟩, hko, rfl⟩ := List.mem_map.mp hc
    obtain ⟨_, h2, h3, st1, sig, bodyTy, inv1, ext1, hs, _, hnd, hlen, hctx, hQ⟩ := hp _ hko
    have hxm : k.src.xtor ∈ xtors := by
      rw [← hx]; exact List.mem_map.mpr ⟨(k, o), hko, rfl⟩
    simp only at h2 h3 hctx hQ ⊢
    refine ⟨sig, bodyTy, ?_, ?_, ?_, ?_, ?_⟩
    · rw [h2]; exact hres st1 _ sig bodyTy inv1 ext1 hxm hs
    · rw [h3]; exact hnd
    · rw [h3]; exact hlen
    · rw [h3]; exact hctx
    · rw [h3, ← hctx]; exact hQ

/-! ## the main induction -/

mutual
  theorem checkTerm_soundA {p : Program} (ok : DeclsOk p) (hp : programNamesOk p = true) :
      ∀ (t : Term), termNamesOk t = true → SoundK p (AQ p) (checkTerm t)
    | .var x ty chi, hn => by
      intro st Γ τ t' st' inv hΓ hτ h
      obtain ⟨hchi, found, st1, hl, ha, he, rfl⟩ := checkTerm_var_ok h
      obtain ⟨b, hb1, hb2, hb3, hb4⟩ := lookupVar_ok hl
      obtain ⟨inv1, ext1, hann⟩ := checkAnnot_sound ok hp inv
        (by intro t ht; subst ht; simpa [termNamesOk] using hn) ha
      obtain ⟨inv2, ext2, heq, wf, _⟩ := checkEquality_sound ok hp inv1 hτ he
      subst heq
      exact ⟨inv2, ext1.trans ext2, .var b hb1 hb2 hb3 wf⟩
    | .lit n, _ => by
      intro st Γ τ t' st' inv hΓ hτ h
      obtain ⟨he, rfl⟩ := checkTerm_lit_ok h
      obtain ⟨inv1, ext1, heq, _, _⟩ := checkEquality_sound ok hp inv hτ he
      subst heq
      exact ⟨inv1, ext1, .lit⟩
    | .op a o b, hn => by
      intro st Γ τ t' st' inv hΓ hτ h
      simp only [termNamesOk, Bool.and_eq_true] at hn
      obtain ⟨st1, a', st2, b', he, ha, hb, rfl⟩ := checkTerm_op_ok h
      obtain ⟨inv1, ext1, heq, _, _⟩ := checkEquality_sound ok hp inv tyNamesOk_i64 he
      subst heq
      obtain ⟨inv2, ext2, hta⟩ := checkTerm_soundA ok hp a hn.1 st1 Γ .i64 a' st2 inv1 hΓ hτ ha
      obtain ⟨inv3, ext3, htb⟩ := checkTerm_soundA ok hp b hn.2 st2 Γ .i64 b' st' inv2 hΓ hτ hb
      exact ⟨inv3, (ext1.trans ext2).trans ext3, .op hta htb⟩
    | .ifc s a b t e an, hn => by
      intro st Γ τ t' st' inv hΓ hτ h
      simp only [termNamesOk, Bool.and_eq_true] at hn
      obtain ⟨a', st1, b', st2, th', st3, e', ha, hb, ht, he, rfl⟩ := checkTerm_ifc_ok h
      obtain ⟨inv1, ext1, hta⟩ :=
        checkTerm_soundA ok hp a hn.1.1.1 st Γ .i64 a' st1 inv hΓ tyNamesOk_i64 ha
      obtain ⟨inv2, ext2, htb⟩ :=
        checkTerm_soundA ok hp b hn.1.1.2 st1 Γ .i64 b' st2 inv1 hΓ tyNamesOk_i64 hb
      obtain ⟨inv3, ext3, htt⟩ := checkTerm_soundA ok hp t hn.1.2 st2 Γ τ th' st3 inv2 hΓ hτ ht
      obtain ⟨inv4, ext4, hte⟩ := checkTerm_soundA ok hp e hn.2 st3 Γ τ e' st' inv3 hΓ hτ he
      exact ⟨inv4, ((ext1.trans ext2).trans ext3).trans ext4, .ifc hta htb htt hte⟩
    | .ifz s a t e an, hn => by
      intro st Γ τ t' st' inv hΓ hτ h
      simp only [termNamesOk, Bool.and_eq_true] at hn
      obtain ⟨a', st1, th', st3, e', ha, ht, he, rfl⟩ := checkTerm_ifz_ok h
      obtain ⟨inv1, ext1, hta⟩ :=
        checkTerm_soundA ok hp a hn.1.1 st Γ .i64 a' st1 inv hΓ tyNamesOk_i64 ha
      obtain ⟨inv3, ext3, htt⟩ := checkTerm_soundA ok hp t hn.1.2 st1 Γ τ th' st3 inv1 hΓ hτ ht
      obtain ⟨inv4, ext4, hte⟩ := checkTerm_soundA ok hp e hn.2 st3 Γ τ e' st' inv3 hΓ hτ he
      exact ⟨inv4, (ext1.trans ext3).trans ext4, .ifz hta htt hte⟩
    | .print nl a n an, hn => by
      intro st Γ τ t' st' inv hΓ hτ h
      simp only [termNamesOk, Bool.and_eq_true] at hn
      obtain ⟨a', st1, n', ha, hnx, rfl⟩ := checkTerm_print_ok h
      obtain ⟨inv1, ext1, hta⟩ :=
        checkTerm_soundA ok hp a hn.1 st Γ .i64 a' st1 inv hΓ tyNamesOk_i64 ha
      obtain ⟨inv2, ext2, htn⟩ := checkTerm_soundA ok hp n hn.2 st1 Γ τ n' st' inv1 hΓ hτ hnx
      exact ⟨inv2, ext1.trans ext2, .print hta htn⟩
    | .letIn x σ bound body an, hn => by
      intro st Γ τ t' st' inv hΓ hτ h
      simp only [termNamesOk, Bool.and_eq_true] at hn
      obtain ⟨st1, bound', st2, body', hσ, hb, hi, rfl⟩ := checkTerm_letIn_ok h
      obtain ⟨inv1, ext1, wfσ, _⟩ := checkTy_sound ok hp σ st st1 inv hn.1.1 hσ
      obtain ⟨inv2, ext2, htb⟩ :=
        checkTerm_soundA ok hp bound hn.1.2 st1 Γ σ bound' st2 inv1 hΓ hn.1.1 hb
      obtain ⟨inv3, ext3, hti⟩ := checkTerm_soundA ok hp body hn.2 st2 _ τ body' st' inv2
        (ctxNamesOk_append hΓ (ctxNamesOk_single hn.1.1)) hτ hi
      exact ⟨inv3, (ext1.trans ext2).trans ext3, .letIn wfσ htb hti⟩
    | .call f args an, hn => by
      intro st Γ τ t' st' inv hΓ hτ h
      simp only [termNamesOk] at hn
      obtain ⟨types, retTy, st1, args', hget, he, hlen, ha, rfl⟩ := checkTerm_call_ok h
      obtain ⟨d, hd, rfl, rfl, rfl⟩ := inv.defs _ _ _ hget
      obtain ⟨inv1, ext1, heq, wf, _⟩ := checkEquality_sound ok hp inv hτ he
      subst heq
      obtain ⟨inv2, ext2, hargs⟩ := checkArgs_soundA ok hp args d.ctx st1 Γ args' st' hn inv1 hΓ
        (def_namesOk hp hd).1 (length_eq_of_not_bne hlen) ha
      exact ⟨inv2, ext1.trans ext2, .call d hd wf hargs⟩
    | .ctor id args an, hn => by
      intro st Γ τ t' st' inv hΓ hτ h
      simp only [termNamesOk, Bool.and_eq_true] at hn
      obtain ⟨name, tyArgs, types, ty, xs, args', st1, rfl, hget, hlk, hlen, ha, he, rfl⟩ :=
        checkTerm_ctor_ok h
      obtain ⟨key, ta, xs', x, hm, hx, hxe, hr⟩ := lookupTyForXtor_ok _ _ _ hlk
      cases hr
      obtain ⟨g1, g2, g3⟩ := inv.types _ _ _ _ hm
      rcases g3 with ⟨_, d, hd, rfl, rfl, hlen', hcs⟩ | ⟨hpol, _⟩
      · obtain ⟨c, hc, rfl⟩ := List.mem_map.mp hx
        rw [removeAll_instName _ (data_namesOk hp hd).1] at he
        obtain ⟨inv1, ext1, hargs⟩ := checkArgs_soundA ok hp args types st Γ args' st1 hn.2 inv hΓ
          (inv.ctorsOk _ _ hget) (length_eq_of_not_bne hlen) ha
        obtain ⟨inv2, ext2, heq, wf, _⟩ := checkEquality_sound ok hp inv1 hτ he
        obtain ⟨hname, hta⟩ := Ty.decl.inj heq
        subst hname; subst hta
        have hcid : c.name = id := instName_left_inj hxe
        subst hcid
        have htypes : types = substCtx (instMap d.typeParams tyArgs) c.args := by
          have := hcs c hc
          rw [hget] at this
          exact (Option.some.inj this)
        subst htypes
        rw [substCtx_eq_csubst _ (zip_keys_nodup _ (ok.dataParams d hd).1)] at hargs
        exact ⟨inv2, ext1.trans ext2, .ctor d c hd hc wf hargs⟩
      · cases hpol
    | .dtor scrut id tyArgs args an, hn => by
      intro st Γ τ t' st' inv hΓ hτ h
      simp only [termNamesOk, Bool.and_eq_true] at hn
      obtain ⟨ty, xs, st1, scrut', st2, types, retTy, args', st3, hres, hs, hget, hlen, ha, he, rfl⟩ :=
        checkTerm_dtor_ok h
      obtain ⟨inv1, ext1, d, hd, s, hsd, rfl, rfl, rfl, wfty, hentry⟩ :=
        resolveXtorTy_codata_sound ok hp inv hn.1.1.1 hn.1.1.2 hres
      have hgood : tyNamesOk (.decl d.name tyArgs) = true := by
        simp [tyNamesOk, (codata_namesOk hp hd).1, hn.1.1.2]
      obtain ⟨inv2, ext2, hts⟩ :=
        checkTerm_soundA ok hp scrut hn.1.2 st1 Γ _ scrut' st2 inv1 hΓ hgood hs
      obtain ⟨_, _, g3⟩ := inv2.types _ _ _ _ (ext2.types _ hentry)
      rcases g3 with ⟨hpol, _⟩ | ⟨_, d', hd', hk, _, _, hcs⟩
      · cases hpol
      · have hdd : d = d' := codata_unique ok hd hd' (instName_left_inj hk)
        subst hdd
        have hv := hcs s hsd
        rw [hget] at hv
        cases hv
        obtain ⟨inv3, ext3, hargs⟩ := checkArgs_soundA ok hp args _ st2 Γ args' st3 hn.2 inv2 hΓ
          (inv2.dtorsOk _ _ _ hget).1 (length_eq_of_not_bne hlen) ha
        obtain ⟨inv4, ext4, heq, wf, _⟩ := checkEquality_sound ok hp inv3 hτ he
        subst heq
        have hnd := zip_keys_nodup tyArgs.toList (ok.codataParams d hd).1
        rw [substCtx_eq_csubst _ hnd] at hargs
        rw [substTy_eq_tsubst _ hnd] at wf ⊢
        exact ⟨inv4, ((ext1.trans ext2).trans ext3).trans ext4,
          .dtor d s hd hsd wfty hts hargs wf⟩
    | .case scrut tyArgs cs an, hn => by
      intro st Γ τ t' st' inv hΓ hτ h
      simp only [termNamesOk, Bool.and_eq_true] at hn
      have hks := clauseCheckers_soundA ok hp cs hn.2
      obtain ⟨pol0, xtor0, ns0, c0, b0, r0, ty, expectedCtors, st1, scrut', st2, newClauses, hcs, hres,
        hs, hl, rfl⟩ := checkTerm_case_ok h
      have hx0 : nameOk xtor0 = true := by
        have := hn.2; rw [hcs] at this
        simp only [clausesNamesOk, Bool.and_eq_true] at this
        exact this.1.1
      obtain ⟨inv1, ext1, d, hd, s, hsd, _, rfl, rfl, wfty, hentry⟩ :=
        resolveXtorTy_data_sound ok hp inv hx0 hn.1.1 hres
      have hgood : tyNamesOk (.decl d.name tyArgs) = true := by
        simp [tyNamesOk, (data_namesOk hp hd).1, hn.1.1]
      obtain ⟨inv2, ext2, hts⟩ :=
        checkTerm_soundA ok hp scrut hn.1.2 st1 Γ _ scrut' st2 inv1 hΓ hgood hs
      have hentry2 := ext2.types _ hentry
      obtain ⟨inv3, ext3, picked, hout, hperm, hx, hpk⟩ := clauseLoop_spec ok hp
        (Q := fun _ => AQ p) hΓ
        (by
          intro st n sig bodyTy inv' hs'
          cases hg : st.ctors.get? n with
          | none => simp [hg] at hs'
          | some sig0 =>
            simp only [hg, Option.map_some, Option.some.injEq, Prod.mk.injEq] at hs'
            obtain ⟨rfl, rfl⟩ := hs'
            exact ⟨inv'.ctorsOk _ _ hg, hτ⟩)
        _ _ _ _ _ _ _ hks inv2 hl
      simp only [List.reverse_nil, List.nil_append] at hout
      subst hout
      have hnd := zip_keys_nodup tyArgs.toList (ok.dataParams d hd).1
      obtain ⟨hpx, hct⟩ := clauses_postA (p := p)
        (sigs := d.ctors.map fun c => (c.name, csubst (instSubst d.typeParams tyArgs) c.args, τ))
        hx hpk (by
          intro st1' x sig bodyTy inv1' ext1' hxm hs'
          obtain ⟨c, hc, rfl⟩ := List.mem_map.mp hxm
          obtain ⟨_, _, g3⟩ := inv1'.types _ _ _ _ (ext1'.types _ hentry2)
          rcases g3 with ⟨_, d', hd', hk, _, _, hcs'⟩ | ⟨hpol, _⟩
          · have hdd : d = d' := data_unique ok hd hd' (instName_left_inj hk)
            subst hdd
            rw [hcs' c hc] at hs'
            simp only [Option.map_some, Option.some.injEq, Prod.mk.injEq] at hs'
            obtain ⟨rfl, rfl⟩ := hs'
            refine List.mem_map.mpr ⟨c, hc, ?_⟩
            rw [substCtx_eq_csubst _ hnd]
            rfl
          · cases hpol)
      refine ⟨inv3, ((ext1.trans ext2).trans ext3), ?_⟩
      refine .case d hd ?_ (by rw [hpx]) wfty hts hct
      -- at least one clause: the expected constructor of the first source clause was picked
      intro hnil
      have : clauseXtors (Clauses.ofList (picked.map Prod.snd)) = [] := by
        rw [hnil]; rfl
      rw [hpx] at this
      have hmem : s.name ∈ d.ctors.map (·.name) := List.mem_map.mpr ⟨s, hsd, rfl⟩
      rw [this] at hmem
      cases hmem
    | .new cs an, hn => by
      intro st Γ τ t' st' inv hΓ hτ h
      simp only [termNamesOk] at hn
      have hks := clauseCheckers_soundA ok hp cs hn
      obtain ⟨name, tyArgs, ta, expectedDtors, newClauses, rfl, hget, hl, rfl⟩ := checkTerm_new_ok h
      have hm := AList.mem_of_get? hget
      simp only [tyNamesOk, Bool.and_eq_true] at hτ
      obtain ⟨g1, g2, g3⟩ := inv.types _ _ _ _ hm
      rcases g3 with ⟨hpol, _⟩ | ⟨_, d, hd, hk, rfl, hlen, _⟩
      · cases hpol
      · obtain ⟨hname, hta⟩ := instName_inj hτ.1 (codata_namesOk hp hd).1 hτ.2 g1 hk
        subst hname; subst hta
        have wf : WfTy p (.decl d.name tyArgs) := .codata d _ hd hlen g2
        obtain ⟨inv3, ext3, picked, hout, hperm, hx, hpk⟩ := clauseLoop_spec ok hp
          (Q := fun _ => AQ p) hΓ
          (by
            intro st n sig bodyTy inv' hs'
            exact inv'.dtorsOk _ _ _ hs')
          _ _ _ _ _ _ _ hks inv hl
        simp only [List.reverse_nil, List.nil_append] at hout
        subst hout
        have hnd := zip_keys_nodup tyArgs.toList (ok.codataParams d hd).1
        obtain ⟨hpx, hct⟩ := clauses_postA (p := p)
          (sigs := d.dtors.map fun s => (s.name, csubst (instSubst d.typeParams tyArgs) s.args,
            tsubst (instSubst d.typeParams tyArgs) s.contTy))
          hx hpk (by
            intro st1' x sig bodyTy inv1' ext1' hxm hs'
            obtain ⟨c, hc, rfl⟩ := List.mem_map.mp hxm
            obtain ⟨_, _, g3⟩ := inv1'.types _ _ _ _ (ext1'.types _ hm)
            rcases g3 with ⟨hpol, _⟩ | ⟨_, d', hd', hk', _, _, hcs'⟩
            · cases hpol
            · have hdd : d = d' := codata_unique ok hd hd' (instName_left_inj hk')
              subst hdd
              rw [hcs' c hc] at hs'
              simp only [Option.some.injEq, Prod.mk.injEq] at hs'
              obtain ⟨rfl, rfl⟩ := hs'
              refine List.mem_map.mpr ⟨c, hc, ?_⟩
              rw [substCtx_eq_csubst _ hnd, substTy_eq_tsubst _ hnd]
              rfl)
        have hrets : ∀ s ∈ d.dtors, WfTy p (tsubst (instSubst d.typeParams tyArgs) s.contTy) := by
          intro s hs
          have hsx : s.name ∈ picked.map (fun ko => ko.1.src.xtor) := by
            rw [hx]; exact List.mem_map.mpr ⟨s, hs, rfl⟩
          obtain ⟨⟨k, o⟩, hko, hkx⟩ := List.mem_map.mp hsx
          obtain ⟨_, _, _, st1', sig, bodyTy, inv1', ext1', hs', hwf, _⟩ := hpk _ hko
          simp only at hkx
          rw [hkx] at hs'
          obtain ⟨_, _, g3⟩ := inv1'.types _ _ _ _ (ext1'.types _ hm)
          rcases g3 with ⟨hpol, _⟩ | ⟨_, d', hd', hk', _, _, hcs'⟩
          · cases hpol
          · have hdd : d = d' := codata_unique ok hd hd' (instName_left_inj hk')
            subst hdd
            rw [hcs' s hs] at hs'
            simp only [Option.some.injEq, Prod.mk.injEq] at hs'
            obtain ⟨_, rfl⟩ := hs'
            have := hwf rfl
            rw [substTy_eq_tsubst _ hnd] at this
            exact this
        exact ⟨inv3, ext3, .new d hd (by rw [hpx]) wf hrets hct⟩
    | .label a body an, hn => by
      intro st Γ τ t' st' inv hΓ hτ h
      simp only [termNamesOk] at hn
      obtain ⟨body', hb, rfl⟩ := checkTerm_label_ok h
      obtain ⟨inv1, ext1, htb⟩ := checkTerm_soundA ok hp body hn st _ τ body' st' inv
        (ctxNamesOk_append hΓ (ctxNamesOk_single hτ)) hτ hb
      exact ⟨inv1, ext1, .label htb⟩
    | .goto a arg an, hn => by
      intro st Γ τ t' st' inv hΓ hτ h
      simp only [termNamesOk] at hn
      obtain ⟨contTy, st0, arg', hl, hc, ha, rfl⟩ := checkTerm_goto_ok h
      obtain ⟨b, hb1, hb2, hb3, hb4⟩ := lookupCovar_ok hl
      subst hb3
      obtain ⟨inv0, ext0, wfb, _⟩ := checkTy_sound ok hp b.ty st st0 inv (ctxNamesOk_mem hΓ hb4) hc
      obtain ⟨inv1, ext1, hta⟩ := checkTerm_soundA ok hp arg hn st0 Γ _ arg' st' inv0 hΓ
        (ctxNamesOk_mem hΓ hb4) ha
      exact ⟨inv1, ext0.trans ext1, .goto b hb1 hb2 wfb hta⟩
    | .exit arg an, hn => by
      intro st Γ τ t' st' inv hΓ hτ h
      simp only [termNamesOk] at hn
      obtain ⟨arg', ha, rfl⟩ := checkTerm_exit_ok h
      obtain ⟨inv1, ext1, hta⟩ :=
        checkTerm_soundA ok hp arg hn st Γ .i64 arg' st' inv hΓ tyNamesOk_i64 ha
      exact ⟨inv1, ext1, .exit hta⟩
    | .paren inner, hn => by
      intro st Γ τ t' st' inv hΓ hτ h
      simp only [termNamesOk] at hn
      obtain ⟨inner', ha, rfl⟩ := checkTerm_paren_ok h
      obtain ⟨inv1, ext1, hta⟩ := checkTerm_soundA ok hp inner hn st Γ τ inner' st' inv hΓ hτ ha
      exact ⟨inv1, ext1, .paren hta⟩
  theorem checkArgs_soundA {p : Program} (ok : DeclsOk p) (hp : programNamesOk p = true) :
      ∀ (ts : Terms) (bs : List Binding) (st : SymbolTable) (Γ : Ctx) (ts' : Terms)
        (st' : SymbolTable), argsNamesOk ts = true → Inv p st → ctxNamesOk Γ = true →
        ctxNamesOk bs = true → bs.length = termsLength ts → checkArgs ts bs st Γ = .ok (ts', st') →
        Inv p st' ∧ Ext st st' ∧ AArgs p Γ ts' bs
    | .nil, bs, st, Γ, ts', st', _, inv, _, _, hlen, h => by
      obtain ⟨rfl, rfl⟩ := checkArgs_nil_ok h
      have : bs = [] := by
        simpa [termsLength, Terms.toList] using hlen
      subst this
      exact ⟨inv, Ext.refl _, .nil⟩
    | .cons t ts, [], st, Γ, ts', st', _, _, _, _, hlen, _ => by
      simp [termsLength, Terms.toList] at hlen
    | .cons t ts, b :: bs, st, Γ, ts', st', hn, inv, hΓ, hbs, hlen, h => by
      simp only [argsNamesOk, Bool.and_eq_true] at hn
      have hbty : tyNamesOk b.ty = true := ctxNamesOk_mem hbs (by simp)
      have hbs' : ctxNamesOk bs = true := by
        simp only [ctxNamesOk, List.all_cons, Bool.and_eq_true] at hbs
        exact hbs.2
      have hlen' : bs.length = termsLength ts := by
        simp only [termsLength, Terms.toList, List.length_cons] at hlen ⊢
        omega
      cases hb : b.chi with
      | prd =>
        obtain ⟨st1, t', st2, rest', hty, ht, hr, rfl⟩ := checkArgs_cons_prd_ok hb h
        obtain ⟨inv1, ext1, wf, _⟩ := checkTy_sound ok hp b.ty st st1 inv hbty hty
        obtain ⟨inv2, ext2, htt⟩ := checkTerm_soundA ok hp t hn.1 st1 Γ b.ty t' st2 inv1 hΓ hbty ht
        obtain ⟨inv3, ext3, htr⟩ :=
          checkArgs_soundA ok hp ts bs st2 Γ rest' st' hn.2 inv2 hΓ hbs' hlen' hr
        exact ⟨inv3, (ext1.trans ext2).trans ext3, .prd hb wf htt htr⟩
      | cns =>
        obtain ⟨x, ty, chi, t', st2, rest', rfl, hc, hr, rfl⟩ := checkArgs_cons_cns_ok hb h
        obtain ⟨hchi, found, st1, hl, ha, he, rfl⟩ := checkCovarArg_ok hc
        obtain ⟨b', hb1, hb2, hb3, hb4⟩ := lookupCovar_ok hl
        obtain ⟨inv1, ext1, hann⟩ := checkAnnot_sound ok hp inv
          (by intro t ht; subst ht; simpa [termNamesOk] using hn.1) ha
        obtain ⟨inv2, ext2, heq, wf, _⟩ := checkEquality_sound ok hp inv1 hbty he
        obtain ⟨inv3, ext3, htr⟩ :=
          checkArgs_soundA ok hp ts bs st2 Γ rest' st' hn.2 inv2 hΓ hbs' hlen' hr
        refine ⟨inv3, (ext1.trans ext2).trans ext3, ?_⟩
        rw [← heq]
        exact .cns b' hb hb1 hb2 (hb3.trans heq.symm) wf htr
  theorem clauseCheckers_soundA {p : Program} (ok : DeclsOk p) (hp : programNamesOk p = true) :
      ∀ (cs : Clauses), clausesNamesOk cs = true →
      ∀ k ∈ clauseCheckers cs, SoundK p (AQ p) k.body
    | .nil, _ => by simp [clauseCheckers]
    | .cons pol x ns c b r, hn => by
      simp only [clausesNamesOk, Bool.and_eq_true] at hn
      have ih := clauseCheckers_soundA ok hp r hn.2
      intro k hk
      simp only [clauseCheckers, List.mem_cons] at hk
      rcases hk with rfl | hk
      · exact checkTerm_soundA ok hp b hn.1.2
      · exact ih k hk
end

/-! ## definitions -/

theorem checkDef_soundA {p : Program} (ok : DeclsOk p) (hp : programNamesOk p = true)
    {f f' : Def} {st st' : SymbolTable} (hf : f ∈ defs p) (inv : Inv p st)
    (h : checkDef f st = .ok (f', st')) :
    Inv p st' ∧ Ext st st' ∧ f'.name = f.name ∧ f'.ctx = f.ctx ∧ f'.retTy = f.retTy ∧
      ATyped p f.ctx f'.body f.retTy := by
  obtain ⟨g1, g2, g3⟩ := def_namesOk hp hf
  simp only [checkDef] at h
  split at h
  · cases h
  · rename_i h1
    split at h
    · cases h
    · rename_i st1 h2
      split at h
      · cases h
      · rename_i st2 h3
        split at h
        · cases h
        · rename_i body' st3 h4
          cases h
          obtain ⟨inv1, ext1, _⟩ := ctxCheck_sound ok hp f.ctx st st1 inv g1 h2
          obtain ⟨inv2, ext2, _, _⟩ := checkTy_sound ok hp f.retTy st1 st2 inv1 g2 h3
          obtain ⟨inv3, ext3, hty⟩ :=
            checkTerm_soundA ok hp f.body g3 st2 f.ctx f.retTy body' st' inv2 g1 g2 h4
          exact ⟨inv3, (ext1.trans ext2).trans ext3, rfl, rfl, rfl, hty⟩

/-- the checked definitions against the source definitions, in order -/
def DefsA (p : Program) : List Def → List Def → Prop
  | [], [] => True
  | d' :: r', d :: r => (d'.name = d.name ∧ d'.ctx = d.ctx ∧ d'.retTy = d.retTy ∧
      ATyped p d.ctx d'.body d.retTy) ∧ DefsA p r' r
  | _, _ => False

theorem checkDefs_soundA {p : Program} (ok : DeclsOk p) (hp : programNamesOk p = true) :
    ∀ (fs fs' : List Def) (st st' : SymbolTable), (∀ f ∈ fs, f ∈ defs p) → Inv p st →
    checkDefs fs st = .ok (fs', st') → Inv p st' ∧ Ext st st' ∧ DefsA p fs' fs
  | [], fs', st, st', _, inv, h => by
    simp only [checkDefs] at h; cases h
    exact ⟨inv, Ext.refl _, trivial⟩
  | f :: r, fs', st, st', hsub, inv, h => by
    simp only [checkDefs] at h
    split at h
    · cases h
    · rename_i f1 st1 h1
      split at h
      · cases h
      · rename_i r1 st2 h2
        cases h
        obtain ⟨inv1, ext1, e⟩ := checkDef_soundA ok hp (hsub f (by simp)) inv h1
        obtain ⟨inv2, ext2, es⟩ := checkDefs_soundA ok hp r r1 st1 st'
          (fun x hx => hsub x (by simp [hx])) inv1 h2
        exact ⟨inv2, ext1.trans ext2, e, es⟩

theorem DefsA.find {p : Program} : ∀ (fs' fs : List Def), DefsA p fs' fs → (fs.map (·.name)).Nodup →
    ∀ d ∈ fs, ∃ d', fs'.find? (fun x => x.name == d.name) = some d' ∧ d'.ctx = d.ctx ∧
      d'.retTy = d.retTy ∧ ATyped p d.ctx d'.body d.retTy
  | [], [], _, _, d, hd => by cases hd
  | [], _ :: _, h, _, _, _ => by cases h
  | _ :: _, [], h, _, _, _ => by cases h
  | d0' :: r', d0 :: r, h, hn, d, hd => by
    obtain ⟨⟨e1, e2, e3, e4⟩, hr⟩ := h
    simp only [List.map_cons, List.nodup_cons] at hn
    rcases List.mem_cons.mp hd with rfl | hd
    · exact ⟨d0', by simp [List.find?, e1], e2, e3, e4⟩
    · have hne : (d0'.name == d.name) = false := by
        simp only [beq_eq_false_iff_ne, ne_eq, e1]
        intro e
        exact hn.1 (List.mem_map.mpr ⟨d, hd, e.symm⟩)
      obtain ⟨d', h1, h2⟩ := DefsA.find r' r hr hn.2 d hd
      exact ⟨d', by simp [List.find?, hne, h1], h2⟩

theorem DefsA.back {p : Program} : ∀ (fs' fs : List Def), DefsA p fs' fs →
    ∀ d' ∈ fs', ∃ d ∈ fs, d.name = d'.name
  | [], [], _, d', hd => by cases hd
  | [], _ :: _, h, _, _ => by cases h
  | _ :: _, [], h, _, _ => by cases h
  | d0' :: r', d0 :: r, h, d', hd => by
    obtain ⟨⟨e1, _⟩, hr⟩ := h
    rcases List.mem_cons.mp hd with rfl | hd
    · exact ⟨d0, by simp, e1.symm⟩
    · obtain ⟨d, h1, h2⟩ := DefsA.back r' r hr d' hd
      exact ⟨d, by simp [h1], h2⟩

theorem DefsA.names {p : Program} : ∀ (fs' fs : List Def), DefsA p fs' fs →
    fs'.map (·.name) = fs.map (·.name)
  | [], [], _ => rfl
  | [], _ :: _, h => by cases h
  | _ :: _, [], h => by cases h
  | d0' :: r', d0 :: r, h => by
    obtain ⟨⟨e1, _⟩, hr⟩ := h
    simp only [List.map_cons, e1, DefsA.names r' r hr]

theorem DefsA.typed {p : Program} : ∀ (fs' fs : List Def), DefsA p fs' fs →
    ∀ d' ∈ fs', ∃ d ∈ fs, d'.ctx = d.ctx ∧ d'.retTy = d.retTy ∧ ATyped p d.ctx d'.body d.retTy
  | [], [], _, d', hd => by cases hd
  | [], _ :: _, h, _, _ => by cases h
  | _ :: _, [], h, _, _ => by cases h
  | d0' :: r', d0 :: r, h, d', hd => by
    obtain ⟨⟨_, e2, e3, e4⟩, hr⟩ := h
    rcases List.mem_cons.mp hd with rfl | hd
    · exact ⟨d0, by simp, e2, e3, e4⟩
    · obtain ⟨d, h1, h2⟩ := DefsA.typed r' r hr d' hd
      exact ⟨d, by simp [h1], h2⟩

/-! ## the machine's test "is a codata type" -/

mutual
  theorem wfTy_namesOk {p : Program} (hp : programNamesOk p = true) : ∀ {τ : Ty}, WfTy p τ →
      tyNamesOk τ = true
    | _, .i64 => rfl
    | _, .data d args hd _ ha => by
      simp [tyNamesOk, (data_namesOk hp hd).1, wfTys_namesOk hp ha]
    | _, .codata d args hd _ ha => by
      simp [tyNamesOk, (codata_namesOk hp hd).1, wfTys_namesOk hp ha]
  theorem wfTys_namesOk {p : Program} (hp : programNamesOk p = true) : ∀ {ts : Tys}, WfTys p ts →
      tysNamesOk ts = true
    | _, .nil => rfl
    | _, .cons h r => by simp [tysNamesOk, wfTy_namesOk hp h, wfTys_namesOk hp r]
end

mutual
  theorem tyName_toList : ∀ (τ : Ty) (fuel : Nat), tyDepth τ ≤ fuel →
      (tyName fuel τ).toList = printTyC τ
    | .i64, fuel, h => by
      cases fuel with
      | zero => simp [tyDepth] at h
      | succ f => simp [tyName, printTyC]
    | .decl n .nil, fuel, h => by
      cases fuel with
      | zero => simp [tyDepth] at h
      | succ f => simp [tyName, Tys.toList, printTyC, printTyArgsC]
    | .decl n (.cons t r), fuel, h => by
      cases fuel with
      | zero => simp [tyDepth] at h
      | succ f =>
        have h' : tyDepth.go (.cons t r) ≤ f := by simp [tyDepth] at h; omega
        have := tysName_toList (.cons t r) f h' (by simp)
        simp only [Tys.toList, List.map_cons] at this
        simp only [tyName, Tys.toList, List.map_cons, String.toList_append, printTyC, printTyArgsC]
        rw [← this]
        simp [-String.toList_intercalate]
  theorem tysName_toList : ∀ (ts : Tys) (fuel : Nat), tyDepth.go ts ≤ fuel → ts ≠ .nil →
      (", ".intercalate (ts.toList.map (tyName fuel))).toList ++ [']'] =
        (match ts with | .nil => [] | .cons t r => printTyC t ++ printTysTailC r)
    | .nil, _, _, h => absurd rfl h
    | .cons t .nil, fuel, h, _ => by
      have ht : tyDepth t ≤ fuel := by
        simp only [tyDepth.go] at h
        exact Nat.le_trans (Nat.le_max_left _ _) h
      simp [Tys.toList, printTysTailC, tyName_toList t fuel ht]
    | .cons t (.cons u r), fuel, h, _ => by
      have ht : tyDepth t ≤ fuel := by
        simp only [tyDepth.go] at h
        exact Nat.le_trans (Nat.le_max_left _ _) h
      have hr : tyDepth.go (.cons u r) ≤ fuel := by
        simp only [tyDepth.go] at h ⊢
        exact Nat.le_trans (Nat.le_max_right _ _) h
      have ih := tysName_toList (.cons u r) fuel hr (by simp)
      simp only [Tys.toList, List.map_cons] at ih
      simp only [Tys.toList, List.map_cons, String.intercalate_cons_cons, String.toList_append,
        tyName_toList t fuel ht, List.append_assoc, ih, printTysTailC]
      simp
end

theorem tyName_eq_instName (n : String) (a : Tys) :
    tyName (tyDepth (.decl n a) + 1) (.decl n a) = instName n a := by
  apply String.toList_inj.mp
  rw [tyName_toList _ _ (Nat.le_succ _)]
  simp [instName, printTyArgs, printTyC, String.toList_append]

/-- the machine's test `isCodataTy` is sound on well-formed types: a type it takes for a codata
type is an instance of a codata declaration of the source -/
theorem isCodataTy_sound {p : Program} {p' : CheckedProgram} (ok : DeclsOk p)
    (hp : programNamesOk p = true) (hi : InstancesOf printTyArgs p p') {τ : Ty} (hw : WfTy p τ)
    (h : isCodataTy p' τ = true) : ∃ d ∈ codatas p, ∃ targs, τ = .decl d.name targs := by
  cases τ with
  | i64 => simp [isCodataTy] at h
  | decl n a =>
    rcases wfTy_decl_inv hw with ⟨d, hd, rfl, _⟩ | ⟨d, hd, rfl, _⟩
    · exfalso
      simp only [isCodataTy, tyName_eq_instName, List.any_eq_true, beq_iff_eq] at h
      obtain ⟨d', hd', hn⟩ := h
      obtain ⟨cd, hcd, ta, hta, _, hname, _⟩ := hi.2 d' hd'
      have hna := wfTy_namesOk hp hw
      simp only [tyNamesOk, Bool.and_eq_true] at hna
      have : instName cd.name ta = instName d.name a := by
        rw [← hn, hname]; rfl
      obtain ⟨e, _⟩ := instName_inj (codata_namesOk hp hcd).1 hna.1 (wfTys_namesOk hp hta) hna.2 this
      exact data_codata_disjoint ok hd hcd e.symm
    · exact ⟨d, hd, a, rfl⟩

/-! ## the whole program -/

/-- an accepted program and its source satisfy the hypotheses of the type-safety proof -/
theorem checkProgramR_AWT {p : Program} {p' : CheckedProgram} (hp : programNamesOk p = true)
    (h : checkProgramR p = .ok p') : AWT p p' := by
  obtain ⟨wt, _, hinst, _⟩ := checkProgramR_sound hp h
  have ok := wt.decls
  have hdefs : DefsA p p'.defs (defs p) := by
    simp only [checkProgramR] at h
    split at h
    · cases h
    · rename_i st0 hb
      simp only [buildSymbolTable] at hb
      split at hb
      · cases hb
      · rename_i st0' hbuild
        split at hb
        · cases hb
        · rename_i hparams
          cases hb
          have b : Built st0 p.decls := by
            simpa using buildDecls_ok p.decls [] {} st0 built_empty hbuild
          simp only [checkWithTable] at h
          split at h
          · cases h
          · rename_i fs hdecls
            split at h
            · cases h
            · rename_i fs' st1 hdefs
              split at h
              · cases h
              · rename_i ds cs hcollect
                cases h
                obtain ⟨_, rfl⟩ := declsOk_of_checks b hparams hdecls
                exact (checkDefs_soundA ok hp (defs p) fs' st0 st1 (fun f hf => hf)
                  (built_inv b) hdefs).2.2
  refine ⟨ok, fun τ hw hc => isCodataTy_sound ok hp hinst hw hc, ?_, ?_, ?_, ?_⟩
  · intro d hd
    exact DefsA.find _ _ hdefs ok.defNamesNodup d hd
  · intro d' hd'
    exact DefsA.back _ _ hdefs d' hd'
  · rw [DefsA.names _ _ hdefs]
    exact ok.defNamesNodup
  · intro d' hd'
    obtain ⟨d, hd, e1, e2, e3⟩ := DefsA.typed _ _ hdefs d' hd'
    have dok := wt.defs d hd
    rw [e1, e2]
    exact ⟨dok.params, dok.paramTys, dok.retTy, e3⟩

theorem checkProgram_AWT {p : Program} {p' : CheckedProgram} (hp : programNamesOk p = true)
    (h : checkProgram p = .ok p') : AWT p p' :=
  checkProgramR_AWT hp (checkProgram_ok_iff.mp h)

end Scc.Fun.Check
