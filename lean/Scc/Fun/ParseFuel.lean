/-
  Scc.Fun.ParseFuel — the fuel of the parser model (Scc.Fun.Parse) is always enough: with
  `fuelFor (number of tokens)` no parser function answers `diag .fuel`, for EVERY token list (well-formed
  or not).  Proof file.

  Measure: every parser function of the model, called with fuel `F` on the input `ts`, does not run out
  of fuel if `2 * ts.length + k ≤ F`, where `k` is a small constant per function (its "rank": the length
  of the longest chain of calls below it that consume no token — `parseArgs → parseTerm → parseTerm1`
  has length 3); and a successful call consumes at least one token (`parsePostfix` and the `parseOpt…`
  functions: at least zero).  The factor 2 pays for `parseTerm1 → "(" → parseTerm → parseTerm1`, which
  spends two units of fuel on one token.  `fuelFor n = 4 * n + 8` is above `2 * n + 3`.
-/
import Scc.Fun.Parse

namespace Scc.Fun.Parse
open Scc.Fun.Lex

/-- `Fine m rest o`: `o` is not the out-of-fuel answer, and if it is `ok a` the remaining input `rest a`
is strictly shorter than `m`. -/
def Fine {α : Type} (m : Nat) (rest : α → List Token) : Outcome α → Prop
  | .ok a => (rest a).length < m
  | .diag c => c ≠ .fuel
  | .panic _ => True

theorem Fine.mono {α : Type} {m m' : Nat} {rest : α → List Token} {o : Outcome α}
    (h : Fine m rest o) (hm : m ≤ m') : Fine m' rest o := by
  cases o with
  | ok a => exact Nat.lt_of_lt_of_le h hm
  | diag c => exact h
  | panic s => exact trivial

theorem Fine.bind {α β : Type} {m m' : Nat} {ra : α → List Token} {rb : β → List Token}
    {o : Outcome α} {f : α → Outcome β}
    (ho : Fine m ra o) (hf : ∀ a, (ra a).length < m → Fine m' rb (f a)) :
    Fine m' rb (o.bind f) := by
  cases o with
  | ok a => exact hf a ho
  | diag c => exact ho
  | panic s => exact trivial

theorem Fine.ne_fuel {α : Type} {m : Nat} {rest : α → List Token} {o : Outcome α}
    (h : Fine m rest o) : o ≠ .diag .fuel := by
  intro he; subst he; exact h rfl

theorem fine_failAt {α : Type} {m : Nat} {rest : α → List Token} (x : List Token) :
    Fine m rest (failAt x : Outcome α) := by
  unfold failAt; split <;> (intro h; cases h)

theorem fine_expect (t : Token) (ts : List Token) : Fine ts.length id (expect t ts) := by
  unfold expect
  split
  · split
    · simp [Fine]
    · exact fine_failAt _
  · exact fine_failAt _

theorem fine_parseNum {mode : LiteralMode} {neg : Bool} {ds : List Char} {r : List Token} :
    Fine (r.length + 1) (fun _ => r) (parseNum mode neg ds r) := by
  unfold parseNum
  split
  · exact fine_failAt _
  · split
    · simp only []
      split
      · exact Nat.lt_succ_self _
      · cases mode
        · exact trivial
        · intro h; cases h
    · exact fine_failAt _

/-- remaining input of a parser result -/
abbrev rst {α : Type} : α × List Token → List Token := Prod.snd

/-- arithmetic side goals: lengths of the matched inputs and the fuel bound -/
macro "len" : tactic => `(tactic| (
  (try simp only [List.length_cons, List.length_nil, rst, id] at *)
  omega))

/-- `Fine … (.ok (a, r))` -/
macro "fine_ok" : tactic => `(tactic| (show List.length _ < _; len))

/-- one bind step whose first computation is `Fine` by `$h` -/
macro "fine_bind_with" h:term : tactic => `(tactic| (
  refine Fine.bind $h ?_
  intro ⟨_, _⟩ _
  try simp only []))

macro "fine_bind_expect" : tactic => `(tactic| (
  refine Fine.bind (fine_expect _ _) ?_
  intro _ _
  try simp only []))

/-! ## types -/

theorem fine_ty : ∀ fuel ts,
    (2 * ts.length + 1 ≤ fuel → Fine ts.length rst (parseTy fuel ts)) ∧
    (2 * ts.length + 2 ≤ fuel → Fine ts.length rst (parseTys fuel ts)) := by
  intro fuel
  induction fuel with
  | zero => intro ts; constructor <;> (intro h; omega)
  | succ n ih =>
    intro ts
    constructor
    · intro hf
      unfold parseTy
      repeat' (first
        | exact fine_failAt _ | fine_ok | fine_bind_with ((ih _).2 (by len)) | split)
    · intro hf
      unfold parseTys
      repeat' (first
        | exact fine_failAt _ | fine_ok | fine_bind_with ((ih _).1 (by len))
        | fine_bind_with ((ih _).2 (by len)) | split)

theorem fine_parseTy {fuel : Nat} {ts : List Token} (h : 2 * ts.length + 1 ≤ fuel) :
    Fine ts.length rst (parseTy fuel ts) := (fine_ty fuel ts).1 h
theorem fine_parseTys {fuel : Nat} {ts : List Token} (h : 2 * ts.length + 2 ≤ fuel) :
    Fine ts.length rst (parseTys fuel ts) := (fine_ty fuel ts).2 h

theorem fine_parseOptTyArgs {fuel : Nat} {ts : List Token} (h : 2 * ts.length ≤ fuel) :
    Fine (ts.length + 1) rst (parseOptTyArgs fuel ts) := by
  unfold parseOptTyArgs
  split
  · exact Fine.mono (fine_parseTys (by len)) (by len)
  · fine_ok

theorem fine_parseNames : ∀ fuel ts, 2 * ts.length + 1 ≤ fuel →
    Fine ts.length rst (parseNames fuel ts) := by
  intro fuel
  induction fuel with
  | zero => intro ts h; omega
  | succ n ih =>
    intro ts hf
    unfold parseNames
    repeat' (first | exact fine_failAt _ | fine_ok | fine_bind_with (ih _ (by len)) | split)

theorem fine_parseOptNames {fuel : Nat} {ts : List Token} (h : 2 * ts.length ≤ fuel) :
    Fine (ts.length + 1) rst (parseOptNames fuel ts) := by
  unfold parseOptNames
  split
  · exact Fine.mono (fine_parseNames _ _ (by len)) (by len)
  · fine_ok

theorem fine_parseTyNames : ∀ fuel ts, 2 * ts.length + 1 ≤ fuel →
    Fine ts.length rst (parseTyNames fuel ts) := by
  intro fuel
  induction fuel with
  | zero => intro ts h; omega
  | succ n ih =>
    intro ts hf
    unfold parseTyNames
    repeat' (first | exact fine_failAt _ | fine_ok | fine_bind_with (ih _ (by len)) | split)

theorem fine_parseOptTyNames {fuel : Nat} {ts : List Token} (h : 2 * ts.length ≤ fuel) :
    Fine (ts.length + 1) rst (parseOptTyNames fuel ts) := by
  unfold parseOptTyNames
  split
  · exact Fine.mono (fine_parseTyNames _ _ (by len)) (by len)
  · fine_ok

theorem fine_parseBinding {fuel : Nat} {ts : List Token} (h : 2 * ts.length ≤ fuel) :
    Fine ts.length rst (parseBinding fuel ts) := by
  unfold parseBinding
  repeat' (first
    | exact fine_failAt _ | fine_ok | fine_bind_with (fine_parseTy (by len)) | split)

theorem fine_parseBindings : ∀ fuel ts, 2 * ts.length + 1 ≤ fuel →
    Fine ts.length rst (parseBindings fuel ts) := by
  intro fuel
  induction fuel with
  | zero => intro ts h; omega
  | succ n ih =>
    intro ts hf
    unfold parseBindings
    repeat' (first
      | exact fine_failAt _ | fine_ok | fine_bind_with (fine_parseBinding (by len))
      | fine_bind_with (ih _ (by len)) | split)

theorem fine_parseOptCtx {fuel : Nat} {ts : List Token} (h : 2 * ts.length ≤ fuel) :
    Fine (ts.length + 1) rst (parseOptCtx fuel ts) := by
  unfold parseOptCtx
  split
  · exact Fine.mono (fine_parseBindings _ _ (by len)) (by len)
  · fine_ok

/-! ## terms -/

/-- the induction hypothesis for the mutual block of term parsers: the rank of each function -/
structure FineIH (mode : LiteralMode) (n : Nat) : Prop where
  t1 : ∀ ts, 2 * ts.length + 1 ≤ n → Fine ts.length rst (parseTerm1 mode n ts)
  args : ∀ ts, 2 * ts.length + 3 ≤ n → Fine ts.length rst (parseArgs mode n ts)
  cls : ∀ pol ts, 2 * ts.length + 1 ≤ n → Fine ts.length rst (parseClauses mode pol n ts)
  post : ∀ t ts, 2 * ts.length + 1 ≤ n → Fine (ts.length + 1) rst (parsePostfix mode n t ts)
  braced : ∀ ts, 2 * ts.length + 1 ≤ n → Fine ts.length rst (parseBraced mode n ts)
  thenElse : ∀ ts, 2 * ts.length + 2 ≤ n → Fine ts.length rst (parseThenElse mode n ts)
  term : ∀ b ts, 2 * ts.length + 2 ≤ n → Fine ts.length rst (parseTerm mode n b ts)

macro "fine_num" : tactic => `(tactic| (
  refine Fine.bind fine_parseNum ?_
  intro _ _
  try simp only []))

macro "fine_go" ih:ident : tactic => `(tactic| repeat' (first
  | exact fine_failAt _
  | fine_ok
  | fine_num
  | fine_bind_expect
  | fine_bind_with (($ih).t1 _ (by len))
  | fine_bind_with (($ih).args _ (by len))
  | fine_bind_with (($ih).cls _ _ (by len))
  | fine_bind_with (($ih).braced _ (by len))
  | fine_bind_with (($ih).thenElse _ (by len))
  | fine_bind_with (($ih).term _ _ (by len))
  | fine_bind_with (fine_parseTy (by len))
  | fine_bind_with (fine_parseOptTyArgs (by len))
  | fine_bind_with (fine_parseOptNames (by len))
  | exact Fine.mono (($ih).post _ _ (by len)) (by len)
  | split))

theorem fine_terms_zero (mode : LiteralMode) : FineIH mode 0 := by
  constructor <;> intros <;> omega

theorem fine_t1 {mode : LiteralMode} {n : Nat} (ih : FineIH mode n) (ts : List Token)
    (hf : 2 * ts.length + 1 ≤ n + 1) : Fine ts.length rst (parseTerm1 mode (n + 1) ts) := by
  unfold parseTerm1; fine_go ih

theorem fine_args {mode : LiteralMode} {n : Nat} (ih : FineIH mode n) (ts : List Token)
    (hf : 2 * ts.length + 3 ≤ n + 1) : Fine ts.length rst (parseArgs mode (n + 1) ts) := by
  unfold parseArgs; fine_go ih

theorem fine_cls {mode : LiteralMode} {n : Nat} (ih : FineIH mode n) (pol : Polarity) (ts : List Token)
    (hf : 2 * ts.length + 1 ≤ n + 1) : Fine ts.length rst (parseClauses mode pol (n + 1) ts) := by
  unfold parseClauses; fine_go ih

theorem fine_post {mode : LiteralMode} {n : Nat} (ih : FineIH mode n) (t : Term) (ts : List Token)
    (hf : 2 * ts.length + 1 ≤ n + 1) : Fine (ts.length + 1) rst (parsePostfix mode (n + 1) t ts) := by
  unfold parsePostfix; fine_go ih

theorem fine_braced {mode : LiteralMode} {n : Nat} (ih : FineIH mode n) (ts : List Token)
    (hf : 2 * ts.length + 1 ≤ n + 1) : Fine ts.length rst (parseBraced mode (n + 1) ts) := by
  unfold parseBraced; fine_go ih

theorem fine_thenElse {mode : LiteralMode} {n : Nat} (ih : FineIH mode n) (ts : List Token)
    (hf : 2 * ts.length + 2 ≤ n + 1) : Fine ts.length rst (parseThenElse mode (n + 1) ts) := by
  unfold parseThenElse; fine_go ih

theorem fine_term {mode : LiteralMode} {n : Nat} (ih : FineIH mode n) (b : Bool) (ts : List Token)
    (hf : 2 * ts.length + 2 ≤ n + 1) : Fine ts.length rst (parseTerm mode (n + 1) b ts) := by
  unfold parseTerm; fine_go ih

theorem fine_terms (mode : LiteralMode) : ∀ n, FineIH mode n := by
  intro n
  induction n with
  | zero => exact fine_terms_zero mode
  | succ n ih =>
    exact ⟨fine_t1 ih, fine_args ih, fine_cls ih, fine_post ih, fine_braced ih, fine_thenElse ih,
      fine_term ih⟩

/-! ## declarations -/

theorem fine_parseCtorSigs : ∀ fuel ts, 2 * ts.length + 1 ≤ fuel →
    Fine ts.length rst (parseCtorSigs fuel ts) := by
  intro fuel
  induction fuel with
  | zero => intro ts h; omega
  | succ n ih =>
    intro ts hf
    unfold parseCtorSigs
    repeat' (first
      | exact fine_failAt _ | fine_ok | fine_bind_with (fine_parseOptCtx (by len))
      | fine_bind_with (ih _ (by len)) | split)

theorem fine_parseDtorSigs : ∀ fuel ts, 2 * ts.length + 1 ≤ fuel →
    Fine ts.length rst (parseDtorSigs fuel ts) := by
  intro fuel
  induction fuel with
  | zero => intro ts h; omega
  | succ n ih =>
    intro ts hf
    unfold parseDtorSigs
    repeat' (first
      | exact fine_failAt _ | fine_ok | fine_bind_expect | fine_bind_with (fine_parseOptCtx (by len))
      | fine_bind_with (fine_parseTy (by len)) | fine_bind_with (ih _ (by len)) | split)

theorem fine_parseDecl (mode : LiteralMode) {fuel : Nat} {ts : List Token}
    (hf : 2 * ts.length + 1 ≤ fuel) : Fine ts.length rst (parseDecl mode fuel ts) := by
  unfold parseDecl
  repeat' (first
    | exact fine_failAt _ | fine_ok | fine_bind_expect | fine_bind_with (fine_parseOptCtx (by len))
    | fine_bind_with (fine_parseTy (by len)) | fine_bind_with (fine_parseOptTyNames (by len))
    | fine_bind_with (fine_parseCtorSigs _ _ (by len)) | fine_bind_with (fine_parseDtorSigs _ _ (by len))
    | fine_bind_with ((fine_terms mode _).braced _ (by len)) | split)

theorem fine_parseDecls (mode : LiteralMode) (fuel : Nat) : ∀ n ts,
    ts.length ≤ n → 2 * ts.length + 1 ≤ fuel →
    Fine 1 (fun _ => []) (parseDecls mode fuel n ts) := by
  intro n
  induction n with
  | zero =>
    intro ts hn _
    cases ts with
    | nil => unfold parseDecls; exact Nat.zero_lt_one
    | cons t r => simp at hn
  | succ n ih =>
    intro ts hn hf
    cases ts with
    | nil => unfold parseDecls; exact Nat.zero_lt_one
    | cons t r =>
      unfold parseDecls
      refine Fine.bind (fine_parseDecl mode hf) ?_
      intro ⟨d, r'⟩ h
      refine Fine.bind (ih r' (by len) (by len)) ?_
      intro ds _
      exact Nat.zero_lt_one

/-- **The parser model never runs out of fuel**, on any token list. -/
theorem parseTokens_ne_fuel (mode : LiteralMode) (ts : List Token) :
    parseTokens mode ts ≠ .diag .fuel := by
  have h : Fine 1 (fun _ => []) (parseTokens mode ts) := by
    unfold parseTokens
    refine Fine.bind (fine_parseDecls mode _ _ ts (Nat.le_succ _) (by unfold fuelFor; omega)) ?_
    intro ds _
    exact Nat.zero_lt_one
  exact h.ne_fuel

theorem parseChars_ne_fuel (mode : LiteralMode) (cs : List Char) :
    parseChars mode cs ≠ .diag .fuel := parseTokens_ne_fuel mode _

theorem parse_ne_fuel (mode : LiteralMode) (src : String) : parse mode src ≠ .diag .fuel :=
  parseChars_ne_fuel mode _

/-- Any larger fuel gives the same answer as `fuelFor`: half of `fuelFor` is already enough, i.e. the
outcome of the model is independent of the fuel constant chosen by the driver (above `2 n + 3`). -/
theorem parseDecls_ne_fuel (mode : LiteralMode) (fuel n : Nat) (ts : List Token)
    (hn : ts.length ≤ n) (hf : 2 * ts.length + 1 ≤ fuel) :
    parseDecls mode fuel n ts ≠ .diag .fuel := (fine_parseDecls mode fuel n ts hn hf).ne_fuel

end Scc.Fun.Parse
